import BctVerif.Model.CoreIRSynth
import Mathlib.Tactic.Ring
import Mathlib.Tactic.Push
import Mathlib.Data.List.Basic

/-!
# C20 (second tie) — link theorem for the source-extracted `makeringlatticeCIJ`
-/

namespace Bct.Cores.Synth
open Bct Bct.Synth Bct.CoreIR.Synth

variable {n : ℕ}

/-- how the interpreter's loop state holds the model's -/
def emb (st : RingSt n) : St n := { CIJ := st.CIJ, d := st.dCIJ, count := (st.count : ℤ), kk := st.kk }

theorem triu_diff (c : ℕ) (i j : Fin n) :
    (triu (AMat.ofFn fun _ _ => (1 : ℤ)) (c : ℤ) : AMat ℤ n).get i j - (triu (AMat.ofFn fun _ _ => (1 : ℤ)) ((c : ℤ) + 1) : AMat ℤ n).get i j
      = (superDiag n c).get i j := by
  simp only [triu, superDiag, AMat.get_ofFn, b2i]
  by_cases h1 : (i.val : ℤ) + (c : ℤ) ≤ (j.val : ℤ)
  · by_cases h2 : (i.val : ℤ) + ((c : ℤ) + 1) ≤ (j.val : ℤ)
    · have : ¬ (j.val = i.val + c) := by omega
      simp [h1, h2, this]
    · have : j.val = i.val + c := by omega
      simp [h1, h2, this]
  · have h2 : ¬ (i.val : ℤ) + ((c : ℤ) + 1) ≤ (j.val : ℤ) := by omega
    have : ¬ (j.val = i.val + c) := by omega
    simp [h1, h2, this]

def onesM : AMat ℤ n := AMat.ofFn fun _ _ => 1

theorem evalTriu_up (p c : ℕ) (hc : c + 1 < n) :
    evalTriu refRing { mat := "CIJ1", seq := "seq", cnt := "count", off := 1, plus := p } (onesM (n := n)) ((c : ℤ) + ((1 : ℕ) : ℤ))
      = some (triu onesM (((c + 1 : ℕ) : ℤ) + (p : ℤ))) := by
  have hup : rangeUp ((1 : ℕ) : ℤ) (n : ℤ) ((c : ℤ) + ((1 : ℕ) : ℤ) - ((1 : ℕ) : ℤ)) = some (((c + 1 : ℕ) : ℤ)) := by
    simp only [rangeUp]; rw [if_pos (by omega)]; congr 1; push_cast; ring
  simp only [evalTriu, refRing, if_true, hup, Option.map_some]

theorem evalTriu_dn (p c : ℕ) (hc : c + 1 < n) :
    evalTriu refRing { mat := "CIJ1", seq := "seq2", cnt := "count", off := 1, plus := p } (onesM (n := n)) ((c : ℤ) + ((1 : ℕ) : ℤ))
      = some (triu onesM (((n - (c + 1) : ℕ) : ℤ) + (p : ℤ))) := by
  have hdn : rangeDown ((n : ℤ) - ((1 : ℕ) : ℤ)) ((0 : ℕ) : ℤ) ((c : ℤ) + ((1 : ℕ) : ℤ) - ((1 : ℕ) : ℤ)) = some (((n - (c + 1) : ℕ) : ℤ)) := by
    simp only [rangeDown]; rw [if_pos (by omega)]; congr 1; omega
  simp only [evalTriu, refRing, show ("seq2" = "seq") = False by decide, if_false, hdn, Option.map_some]

theorem evalTriu_none (c : ℕ) (hc : ¬ c + 1 < n) :
    evalTriu refRing { mat := "CIJ1", seq := "seq", cnt := "count", off := 1, plus := 0 } (onesM (n := n)) ((c : ℤ) + ((1 : ℕ) : ℤ)) = none := by
  have hup : rangeUp ((1 : ℕ) : ℤ) (n : ℤ) ((c : ℤ) + ((1 : ℕ) : ℤ) - ((1 : ℕ) : ℤ)) = none := by
    simp only [rangeUp]; rw [if_neg]; omega
  simp only [evalTriu, refRing, if_true, hup, Option.map_none]

theorem band_cell (c : ℕ) (i j : Fin n) :
    min ((triu onesM ((c : ℤ) + ((0 : ℕ) : ℤ)) : AMat ℤ n).get i j - (triu onesM ((c : ℤ) + ((1 : ℕ) : ℤ)) : AMat ℤ n).get i j +
        ((triu onesM ((c : ℤ) + ((0 : ℕ) : ℤ)) : AMat ℤ n).get j i - (triu onesM ((c : ℤ) + ((1 : ℕ) : ℤ)) : AMat ℤ n).get j i) +
        ((triu onesM (((n - c : ℕ) : ℤ) + ((0 : ℕ) : ℤ)) : AMat ℤ n).get i j - (triu onesM (((n - c : ℕ) : ℤ) + ((1 : ℕ) : ℤ)) : AMat ℤ n).get i j) +
        ((triu onesM (((n - c : ℕ) : ℤ) + ((0 : ℕ) : ℤ)) : AMat ℤ n).get j i - (triu onesM (((n - c : ℕ) : ℤ) + ((1 : ℕ) : ℤ)) : AMat ℤ n).get j i))
      (((1 : ℕ) : ℤ)) = (band n c).get i j := by
  have h := fun (c' : ℕ) (a b : Fin n) => triu_diff c' a b
  simp only [onesM, Nat.cast_zero, add_zero, Nat.cast_one] at *
  simp only [band, AMat.get_ofFn, h]

theorem step_spec (st : RingSt n) :
    CoreIR.Synth.step refRing (emb st) = if st.count + 1 - 1 ≥ n - 1 then none else
      some (emb { CIJ := matAdd st.CIJ (band n (st.count + 1)), dCIJ := band n (st.count + 1), count := st.count + 1,
                  kk := matSum (matAdd st.CIJ (band n (st.count + 1))) }) := by
  have hones : (AMat.ofFn fun _ _ => (1 : ℤ) : AMat ℤ n) = onesM := rfl
  by_cases h : st.count + 1 - 1 ≥ n - 1
  · have hc : ¬ st.count + 1 < n := by omega
    simp only [h, if_true, CoreIR.Synth.step, emb, hones, show refRing.incBy = 1 from rfl,
      show refRing.d1a = { mat := "CIJ1", seq := "seq", cnt := "count", off := 1, plus := 0 } from rfl, evalTriu_none st.count hc]
  · have hc : st.count + 1 < n := by omega
    simp only [h, if_false, CoreIR.Synth.step, emb, hones, show refRing.incBy = 1 from rfl,
      show refRing.d1a = { mat := "CIJ1", seq := "seq", cnt := "count", off := 1, plus := 0 } from rfl,
      show refRing.d1b = { mat := "CIJ1", seq := "seq", cnt := "count", off := 1, plus := 1 } from rfl,
      show refRing.d2a = { mat := "CIJ1", seq := "seq2", cnt := "count", off := 1, plus := 0 } from rfl,
      show refRing.d2b = { mat := "CIJ1", seq := "seq2", cnt := "count", off := 1, plus := 1 } from rfl,
      evalTriu_up _ st.count hc, evalTriu_dn _ st.count hc, show refRing.clip = 1 from rfl, AMat.get_ofFn]
    simp only [band_cell]
    have hb : (AMat.ofFn fun i j => (band n (st.count + 1)).get i j : AMat ℤ n) = band n (st.count + 1) := by
      apply AMat.ext_get; intro i j; simp
    simp only [hb, matAdd, Option.some.injEq, St.mk.injEq, true_and, and_true]
    push_cast; ring

/-- `while kk < k:` is `Synth.ringFill` -/
theorem loop_spec (k : ℕ) : ∀ (fuel : ℕ) (st : RingSt n),
    loop refRing k fuel (emb st) = match ringFill k fuel st with
      | .ok st' => some (emb st')
      | .error _ => none := by
  intro fuel
  induction fuel with
  | zero =>
    intro st
    by_cases hk : st.kk < (k : ℤ)
    · have hk' : (emb st).kk < (k : ℤ) := hk
      simp only [loop, ringFill, hk, hk', if_true]
    · have hk' : ¬ (emb st).kk < (k : ℤ) := hk
      simp only [loop, ringFill, hk, hk', if_false]
  | succ f ih =>
    intro st
    simp only [loop, ringFill]
    by_cases hk : st.kk < (k : ℤ)
    · have hk' : (emb st).kk < (k : ℤ) := hk
      simp only [hk, hk', if_true, step_spec]
      by_cases h : st.count + 1 - 1 ≥ n - 1
      · simp only [h, if_true]
      · simp only [h, if_false]
        exact ih _
    · have hk' : ¬ (emb st).kk < (k : ℤ) := hk
      simp only [hk, hk', if_false]

theorem ringFill_ge (k : ℕ) : ∀ (fuel : ℕ) (st st' : RingSt n), ringFill k fuel st = .ok st' → ¬ st'.kk < (k : ℤ) := by
  intro fuel
  induction fuel with
  | zero =>
    intro st st' h
    simp only [ringFill] at h
    split at h
    · exact absurd h (by simp)
    · rename_i hk
      simp only [Except.ok.injEq] at h; subst h; exact hk
  | succ f ih =>
    intro st st' h
    simp only [ringFill] at h
    split at h
    · split at h
      · exact absurd h (by simp)
      · exact ih _ _ h
    · rename_i hk
      simp only [Except.ok.injEq] at h; subst h; exact hk

theorem ringFill_err (k : ℕ) : ∀ (fuel : ℕ) (st : RingSt n) (e : Err), ringFill k fuel st = .error e → e = .index := by
  intro fuel
  induction fuel with
  | zero =>
    intro st e h
    simp only [ringFill] at h
    split at h
    · simp only [Except.error.injEq] at h; exact h.symm
    · exact absurd h (by simp)
  | succ f ih =>
    intro st e h
    simp only [ringFill] at h
    split at h
    · split at h
      · simp only [Except.error.injEq] at h; exact h.symm
      · exact ih _ _ h
    · exact absurd h (by simp)

theorem removeExcess_err (cells : List (Cell n)) (rp : List ℕ) : ∀ (ob ii : ℕ) (C : AMat ℤ n) (e : Err),
    removeExcess C cells rp ob ii = .error e → e = .index := by
  intro ob
  induction ob with
  | zero => intro ii C e h; simp [removeExcess] at h
  | succ o ih =>
    intro ii C e h
    simp only [removeExcess] at h
    split at h
    · simp only [Except.error.injEq] at h; exact h.symm
    · split at h
      · simp only [Except.error.injEq] at h; exact h.symm
      · exact ih _ _ _ h

theorem removeI_spec (cells : List (Cell n)) (rp : List ℕ) : ∀ (ob ii : ℕ) (C : AMat ℤ n),
    removeI 0 C cells rp ob ii = match removeExcess C cells rp ob ii with
      | .ok C' => some C'
      | .error _ => none := by
  intro ob
  induction ob with
  | zero => intro ii C; rfl
  | succ o ih =>
    intro ii C
    simp only [removeI, removeExcess]
    cases rp[ii]? with
    | none => rfl
    | some r =>
      simp only []
      cases cells[r]? with
      | none => rfl
      | some c => exact ih _ _

/-- **Link, `makeringlatticeCIJ`.**  If the generated obligation holds, the extracted routine, run with the model's fuel `n` for the
`while kk < k` loop, is `Synth.ringLattice n k` on every recorded draw list: same matrix, same draws left, same error. -/
theorem link_makeringlattice (ir : RingIR) (hok : ringOk ir = true) (k : ℕ) (ds : List ℕ) :
    runRing (n := n) ir n k ds = ringLattice n k ds := by
  have hir : ir = refRing := by simpa [ringOk] using hok
  subst hir
  have hc : refRing.coherent = true := by decide
  have h0 : ({ CIJ := AMat.ofFn fun _ _ => 0, d := AMat.ofFn fun _ _ => 0, count := ((refRing.count0 : ℕ) : ℤ), kk := ((refRing.kk0 : ℕ) : ℤ) } : St n)
      = emb { CIJ := zeroMat n, dCIJ := zeroMat n, count := 0, kk := 0 } := by
    simp [emb, refRing, zeroMat]
  simp only [runRing, hc, if_true, h0, loop_spec, ringLattice]
  cases hf : ringFill k n ({ CIJ := zeroMat n, dCIJ := zeroMat n, count := 0, kk := 0 } : RingSt n) with
  | error e =>
    simp only []
    rw [ringFill_err k n _ e hf]
  | ok st =>
    have hge := ringFill_ge k n _ st hf
    simp only [emb]
    by_cases ho : st.kk - (k : ℤ) = 0
    · simp [ho]
    · have hn : ¬ (st.kk - (k : ℤ)).toNat = 0 := by omega
      simp only [ho, hn, if_false, show refRing.setVal = 0 from rfl, removeI_spec]
      by_cases hl : ds.length < (nonzeroCells st.dCIJ).length
      · simp only [hl, if_true]
      · simp only [hl, if_false]
        by_cases hp : isPermOfRange (List.take (nonzeroCells st.dCIJ).length ds) (nonzeroCells st.dCIJ).length = true
        · simp only [hp, Bool.not_true, Bool.false_eq_true, if_false]
          cases hr : removeExcess st.CIJ (nonzeroCells st.dCIJ) (List.take (nonzeroCells st.dCIJ).length ds) (st.kk - (k : ℤ)).toNat 0 with
          | error e => simp only []; rw [removeExcess_err _ _ _ _ _ e hr]
          | ok C => rfl
        · have hp' : isPermOfRange (List.take (nonzeroCells st.dCIJ).length ds) (nonzeroCells st.dCIJ).length = false := by simpa using hp
          simp only [hp', Bool.not_false, if_true]

/-! ## `makerandCIJdegreesfixed` -/

variable {k : ℕ}

/-- the interpreter's loop state holds the model's -/
def embDf (e0 : Vector (Fin n) k) (st : DfSt n k) (t : Option (String × Fin n)) : ESt n k := { C := st.C, e0 := e0, e1 := st.e1, t := t }

theorem drawSw_eq (tried : List ℕ) : ∀ ds : List ℕ, drawSw k tried ds = drawUntried k tried ds := by
  intro ds
  induction ds with
  | nil => rfl
  | cons x ds ih =>
    simp only [drawSw, drawUntried]
    by_cases h : x < k
    · simp only [h, dite_true]; split
      · exact ih
      · rfl
    · simp only [h, dite_false]

theorem readCell_free1 (e0 : Vector (Fin n) k) (st : DfSt n k) (t : Option (String × Fin n)) (i s : Fin k) :
    readCell refDf (embDf e0 st t) i s refDf.free1 = some (st.C.get e0[i] st.e1[s]) := by
  simp [readCell, readE, idxOf, refDf, eI, eSs, embDf]

theorem readCell_free2 (e0 : Vector (Fin n) k) (st : DfSt n k) (t : Option (String × Fin n)) (i s : Fin k) :
    readCell refDf (embDf e0 st t) i s refDf.free2 = some (st.C.get e0[s] st.e1[i]) := by
  simp [readCell, readE, idxOf, refDf, eS, eIs, embDf]

theorem readCell_occ (e0 : Vector (Fin n) k) (st : DfSt n k) (t : Option (String × Fin n)) (i s : Fin k) :
    readCell refDf (embDf e0 st t) i s refDf.occupied = some (st.C.get e0[i] st.e1[i]) := by
  simp [readCell, readE, idxOf, refDf, eI, eIs, embDf]

theorem accept_spec (e0 : Vector (Fin n) k) (st : DfSt n k) (t : Option (String × Fin n)) (i s : Fin k) :
    (match execEs refDf i s refDf.accept (embDf e0 st t) with
      | some st1 => (match (if s.val < i.val then execEs refDf i s refDf.ltBody st1 else some st1) with
        | some st2 => execEs refDf i s refDf.swap st2
        | none => none)
      | none => none) = some (embDf e0 (applySwitch e0 st i s) (some ("t", st.e1[i]))) := by
  by_cases hlt : s.val < i.val
  · simp [execEs, execE, readE, writeE, idxOf, refDf, eI, eIs, eS, eSs, embDf, applySwitch, hlt]
  · simp [execEs, execE, readE, writeE, idxOf, refDf, eI, eIs, eS, eSs, embDf, applySwitch, hlt]

theorem bool_free (x y : ℤ) : (!(x != 0 || y != 0)) = (x == 0 && y == 0) := by
  simp only [bne, Bool.not_or, Bool.not_not]

/-- what the interpreter's result says about the model's: the same error, or states that hold each other -/
def RelDf (e0 : Vector (Fin n) k) : Except Err (ESt n k × List ℕ) → Except Err (DfSt n k × List ℕ) → Prop
  | .ok (a, ds), .ok (b, ds') => ds = ds' ∧ ∃ t, a = embDf e0 b t
  | .error e, .error e' => e = e'
  | _, _ => False

theorem repair_spec (e0 : Vector (Fin n) k) (st : DfSt n k) (i : Fin k) : ∀ (fuel : ℕ) (t : Option (String × Fin n)) (tried ds : List ℕ),
    RelDf e0 (repairI refDf (embDf e0 st t) i fuel tried ds) (repair e0 st i fuel tried ds) := by
  intro fuel
  induction fuel with
  | zero => intro t tried ds; simp [repairI, repair, RelDf]
  | succ f ih =>
    intro t tried ds
    simp only [repairI, repair, drawSw_eq]
    by_cases hk : tried.length = k
    · simp [hk, RelDf]
    · simp only [hk, if_false]
      cases hd : drawUntried k tried ds with
      | error e => simp [RelDf]
      | ok r =>
        obtain ⟨s, ds'⟩ := r
        simp only [readCell_free1, readCell_free2, bool_free]
        by_cases hfree : (st.C.get e0[i] st.e1[s] == 0 && st.C.get e0[s] st.e1[i] == 0) = true
        · have ha := accept_spec e0 st t i s
          simp only [hfree, if_true]
          cases hA : execEs refDf i s refDf.accept (embDf e0 st t) with
          | none => rw [hA] at ha; simp at ha
          | some st1 =>
            rw [hA] at ha
            simp only [] at ha ⊢
            cases hB : (if s.val < i.val then execEs refDf i s refDf.ltBody st1 else some st1) with
            | none => rw [hB] at ha; simp at ha
            | some st2 =>
              rw [hB] at ha
              simp only [] at ha ⊢
              rw [ha]
              exact ⟨rfl, _, rfl⟩
        · have hfree' : (st.C.get e0[i] st.e1[s] == 0 && st.C.get e0[s] st.e1[i] == 0) = false := by simpa using hfree
          simp only [hfree', Bool.false_eq_true, if_false]
          exact ih t _ _

theorem placeAll_spec (e0 : Vector (Fin n) k) : ∀ (is : List (Fin k)) (st : DfSt n k) (t : Option (String × Fin n)) (ds : List ℕ),
    RelDf e0 (placeAllI refDf is (embDf e0 st t) ds) (placeAll e0 is st ds) := by
  intro is
  induction is with
  | nil => intro st t ds; exact ⟨rfl, t, rfl⟩
  | cons i is ih =>
    intro st t ds
    have hplace : RelDf e0 (placeI refDf (embDf e0 st t) i ds) (placeEdge e0 st i ds) := by
      simp only [placeI, placeEdge, readCell_occ]
      by_cases ho : (st.C.get e0[i] st.e1[i] != 0) = true
      · simp only [ho, if_true]; exact repair_spec e0 st i _ t [] ds
      · have ho' : (st.C.get e0[i] st.e1[i] != 0) = false := by simpa using ho
        simp only [ho', Bool.false_eq_true, if_false]
        have : execEs refDf i i refDf.elseStores (embDf e0 st t) = some (embDf e0 { st with C := st.C.set e0[i] st.e1[i] 1 } t) := by
          simp [execEs, execE, readE, idxOf, refDf, eI, eIs, embDf]
        rw [this]
        exact ⟨rfl, t, rfl⟩
    simp only [placeAllI, placeAll]
    cases hI : placeI refDf (embDf e0 st t) i ds with
    | error e =>
      rw [hI] at hplace
      cases hM : placeEdge e0 st i ds with
      | error e' => rw [hM] at hplace; simp only [RelDf] at hplace; subst hplace; rfl
      | ok r => rw [hM] at hplace; exact absurd hplace (by simp [RelDf])
    | ok r =>
      rw [hI] at hplace
      cases hM : placeEdge e0 st i ds with
      | error e' => rw [hM] at hplace; exact absurd hplace (by simp [RelDf])
      | ok r' =>
        rw [hM] at hplace
        obtain ⟨a, ds1⟩ := r
        obtain ⟨b, ds2⟩ := r'
        obtain ⟨hds, t', ha⟩ := hplace
        subst hds; subst ha
        exact ih b t' ds1

/-! ### the fill loop -/

/-- an array of length `k`, zero-initialised, after the prefix `S` has been stored (clipped at `k`) -/
def fillOf {α : Type} (k : ℕ) (z : α) (S : List α) : List α := S.take k ++ List.replicate (k - S.length) z

theorem fillOf_get {α : Type} (k : ℕ) (z : α) (S : List α) (p : ℕ) :
    (fillOf k z S)[p]? = if p < k then some (S.getD p z) else none := by
  unfold fillOf
  by_cases hp : p < k
  · simp only [hp, if_true]
    by_cases hs : p < S.length
    · rw [List.getElem?_append_left (by simp; omega)]
      simp [hp, hs, List.getD_eq_getElem?_getD]
    · rw [List.getElem?_append_right (by simp; omega)]
      simp only [List.length_take, List.getElem?_replicate]
      have : p - min k S.length < k - S.length := by omega
      simp [this, List.getD_eq_getElem?_getD, List.getElem?_eq_none (by omega : S.length ≤ p)]
  · simp only [hp, if_false]
    apply List.getElem?_eq_none
    simp; omega

theorem sliceSet_fill {α : Type} (k c : ℕ) (z i : α) (S : List α) :
    sliceSet (fillOf k z S) S.length (S.length + c) i = fillOf k z (S ++ List.replicate c i) := by
  apply List.ext_getElem?
  intro p
  simp only [sliceSet, List.getElem?_mapIdx, fillOf_get]
  by_cases hp : p < k
  · simp only [hp, if_true, Option.map_some]
    congr 1
    by_cases h1 : p < S.length
    · have : ¬ (S.length ≤ p ∧ p < S.length + c) := by omega
      simp [this, List.getD_eq_getElem?_getD, List.getElem?_append_left h1]
    · by_cases h2 : p < S.length + c
      · have : (S.length ≤ p ∧ p < S.length + c) := by omega
        simp [this, List.getD_eq_getElem?_getD]
      · have : ¬ (S.length ≤ p ∧ p < S.length + c) := by omega
        rw [if_neg this, List.getD_eq_getElem?_getD, List.getD_eq_getElem?_getD,
          List.getElem?_eq_none (by omega : S.length ≤ p), List.getElem?_eq_none (by simp; omega)]
  · simp [hp]

theorem fill_fold (inv outv : Fin n → ℕ) (z : Fin n) : ∀ (L : List (Fin n)) (S1 S2 : List (Fin n)),
    L.foldl (fun (acc : List (Fin n) × List (Fin n) × ℕ × ℕ) i =>
        (sliceSet acc.1 acc.2.2.1 (acc.2.2.1 + inv i) i, sliceSet acc.2.1 acc.2.2.2 (acc.2.2.2 + outv i) i,
          acc.2.2.1 + inv i, acc.2.2.2 + outv i))
      (fillOf k z S1, fillOf k z S2, S1.length, S2.length)
    = (fillOf k z (S1 ++ L.flatMap fun i => List.replicate (inv i) i), fillOf k z (S2 ++ L.flatMap fun i => List.replicate (outv i) i),
        (S1 ++ L.flatMap fun i => List.replicate (inv i) i).length, (S2 ++ L.flatMap fun i => List.replicate (outv i) i).length) := by
  intro L
  induction L with
  | nil => intro S1 S2; simp
  | cons i L ih =>
    intro S1 S2
    simp only [List.foldl_cons, sliceSet_fill]
    have h1 : S1.length + inv i = (S1 ++ List.replicate (inv i) i).length := by simp
    have h2 : S2.length + outv i = (S2 ++ List.replicate (outv i) i).length := by simp
    rw [h1, h2, ih]
    simp only [List.flatMap_cons, List.append_assoc]

theorem fillI_eq (inv outv : Fin n → ℕ) : fillI refDf inv outv k = (fitTo k (stubs inv), fitTo k (stubs outv)) := by
  by_cases hn : 0 < n
  · have hz : zerosL n k = fillOf k (⟨0, hn⟩ : Fin n) [] := by simp [zerosL, hn, fillOf]
    have h0 : refDf.iIn0 = ([] : List (Fin n)).length := rfl
    have h0' : refDf.iOut0 = ([] : List (Fin n)).length := rfl
    simp only [fillI, hz]
    rw [h0, h0', fill_fold]
    simp [fitTo, stubs, hn, fillOf]
  · have : n = 0 := by omega
    subst this
    simp [fillI, zerosL, fitTo, stubs]

/-- **`makerandCIJdegreesfixed` is `Synth.degreesFixed`.** -/
theorem link_degreesfixed (ir : DfIR) (hok : dfOk ir = true) (inv outv : Fin n → ℕ) (ds : List ℕ) :
    runDf ir inv outv ds = degreesFixed inv outv ds := by
  have hir : ir = refDf := by simpa [dfOk] using hok
  subst hir
  have hco : refDf.coherent = true := by decide
  simp only [runDf, degreesFixed, hco, if_true, fillI_eq]
  split
  · rfl
  · split
    · rfl
    · cases h0 : toVec (List.map inv (List.finRange n)).sum (fitTo (List.map inv (List.finRange n)).sum (stubs outv)) with
      | none => rfl
      | some e0 =>
        cases h1 : toVec (List.map inv (List.finRange n)).sum
            (List.filterMap (fun x => (fitTo (List.map inv (List.finRange n)).sum (stubs inv))[x]?) (List.take (List.map inv (List.finRange n)).sum ds)) with
        | none => rfl
        | some e1 =>
          simp only []
          have h := placeAll_spec e0 (List.finRange _) { C := eye n, e1 := e1 } none (ds.drop (List.map inv (List.finRange n)).sum)
          have hemb : (embDf e0 { C := eye n, e1 := e1 } none : ESt n _) = { C := eye n, e0 := e0, e1 := e1, t := none } := rfl
          rw [hemb] at h
          revert h
          generalize placeAllI refDf _ _ _ = a
          generalize placeAll e0 _ _ _ = b
          intro h
          cases a with
          | error e => cases b with
            | error e' => simp only [RelDf] at h; subst h; rfl
            | ok r => exact absurd h (by simp [RelDf])
          | ok r => cases b with
            | error e' => exact absurd h (by simp [RelDf])
            | ok r' =>
              obtain ⟨a, ds1⟩ := r
              obtain ⟨b, ds2⟩ := r'
              obtain ⟨hds, t', ha⟩ := h
              subst hds; subst ha
              rfl

example : dfOk refDf = true := by decide
/-- `if i < switch:` (names exchanged) is rejected -/
example : dfOk { refDf with ltL := "i", ltR := "switch" } = false := by decide
/-- `i_in = 1` is rejected -/
example : dfOk { refDf with iIn0 := 1 } = false := by decide
/-- the swap without the temporary (`edges[1, switch] = edges[1, i]` after the copy) is rejected -/
example : dfOk { refDf with swap := [ .copyE eIs eSs, .copyE eSs eIs ] } = false := by decide

example : ringOk refRing = true := by decide
/-- `seq[count - 1] + 2` in the second `np.triu` is rejected -/
example : ringOk { refRing with d1b := { refRing.d1b with plus := 2 } } = false := by decide
/-- `while kk <= k` cannot be expressed; `while k < kk` (names exchanged) is rejected -/
example : ringOk { refRing with wL := "k", wR := "kk" } = false := by decide

end Bct.Cores.Synth
