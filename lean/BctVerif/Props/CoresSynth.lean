import BctVerif.Model.CoreIRSynth
import Mathlib.Tactic.Ring
import Mathlib.Tactic.Push
import Mathlib.Data.List.Basic

/-!
# C20 (second tie) — link theorem for the source-extracted `makeringlatticeCIJ`
-/

namespace Bct.Cores.Synth
open Bct Bct.Synth Bct.CoreIR.Synth

variable {n : ℕ}

/-- how the interpreter's loop state holds the model's -/
def emb (st : RingSt n) : St n := { CIJ := st.CIJ, d := st.dCIJ, count := (st.count : ℤ), kk := st.kk }

theorem triu_diff (c : ℕ) (i j : Fin n) :
    (triu (AMat.ofFn fun _ _ => (1 : ℤ)) (c : ℤ) : AMat ℤ n).get i j - (triu (AMat.ofFn fun _ _ => (1 : ℤ)) ((c : ℤ) + 1) : AMat ℤ n).get i j
      = (superDiag n c).get i j := by
  simp only [triu, superDiag, AMat.get_ofFn, b2i]
  by_cases h1 : (i.val : ℤ) + (c : ℤ) ≤ (j.val : ℤ)
  · by_cases h2 : (i.val : ℤ) + ((c : ℤ) + 1) ≤ (j.val : ℤ)
    · have : ¬ (j.val = i.val + c) := by omega
      simp [h1, h2, this]
    · have : j.val = i.val + c := by omega
      simp [h1, h2, this]
  · have h2 : ¬ (i.val : ℤ) + ((c : ℤ) + 1) ≤ (j.val : ℤ) := by omega
    have : ¬ (j.val = i.val + c) := by omega
    simp [h1, h2, this]

def onesM : AMat ℤ n := AMat.ofFn fun _ _ => 1

theorem evalTriu_up (p c : ℕ) (hc : c + 1 < n) :
    evalTriu refRing { mat := "CIJ1", seq := "seq", cnt := "count", off := 1, plus := p } (onesM (n := n)) ((c : ℤ) + ((1 : ℕ) : ℤ))
      = some (triu onesM (((c + 1 : ℕ) : ℤ) + (p : ℤ))) := by
  have hup : rangeUp ((1 : ℕ) : ℤ) (n : ℤ) ((c : ℤ) + ((1 : ℕ) : ℤ) - ((1 : ℕ) : ℤ)) = some (((c + 1 : ℕ) : ℤ)) := by
    simp only [rangeUp]; rw [if_pos (by omega)]; congr 1; push_cast; ring
  simp only [evalTriu, refRing, if_true, hup, Option.map_some]

theorem evalTriu_dn (p c : ℕ) (hc : c + 1 < n) :
    evalTriu refRing { mat := "CIJ1", seq := "seq2", cnt := "count", off := 1, plus := p } (onesM (n := n)) ((c : ℤ) + ((1 : ℕ) : ℤ))
      = some (triu onesM (((n - (c + 1) : ℕ) : ℤ) + (p : ℤ))) := by
  have hdn : rangeDown ((n : ℤ) - ((1 : ℕ) : ℤ)) ((0 : ℕ) : ℤ) ((c : ℤ) + ((1 : ℕ) : ℤ) - ((1 : ℕ) : ℤ)) = some (((n - (c + 1) : ℕ) : ℤ)) := by
    simp only [rangeDown]; rw [if_pos (by omega)]; congr 1; omega
  simp only [evalTriu, refRing, show ("seq2" = "seq") = False by decide, if_false, hdn, Option.map_some]

theorem evalTriu_none (c : ℕ) (hc : ¬ c + 1 < n) :
    evalTriu refRing { mat := "CIJ1", seq := "seq", cnt := "count", off := 1, plus := 0 } (onesM (n := n)) ((c : ℤ) + ((1 : ℕ) : ℤ)) = none := by
  have hup : rangeUp ((1 : ℕ) : ℤ) (n : ℤ) ((c : ℤ) + ((1 : ℕ) : ℤ) - ((1 : ℕ) : ℤ)) = none := by
    simp only [rangeUp]; rw [if_neg]; omega
  simp only [evalTriu, refRing, if_true, hup, Option.map_none]

theorem band_cell (c : ℕ) (i j : Fin n) :
    min ((triu onesM ((c : ℤ) + ((0 : ℕ) : ℤ)) : AMat ℤ n).get i j - (triu onesM ((c : ℤ) + ((1 : ℕ) : ℤ)) : AMat ℤ n).get i j +
        ((triu onesM ((c : ℤ) + ((0 : ℕ) : ℤ)) : AMat ℤ n).get j i - (triu onesM ((c : ℤ) + ((1 : ℕ) : ℤ)) : AMat ℤ n).get j i) +
        ((triu onesM (((n - c : ℕ) : ℤ) + ((0 : ℕ) : ℤ)) : AMat ℤ n).get i j - (triu onesM (((n - c : ℕ) : ℤ) + ((1 : ℕ) : ℤ)) : AMat ℤ n).get i j) +
        ((triu onesM (((n - c : ℕ) : ℤ) + ((0 : ℕ) : ℤ)) : AMat ℤ n).get j i - (triu onesM (((n - c : ℕ) : ℤ) + ((1 : ℕ) : ℤ)) : AMat ℤ n).get j i))
      (((1 : ℕ) : ℤ)) = (band n c).get i j := by
  have h := fun (c' : ℕ) (a b : Fin n) => triu_diff c' a b
  simp only [onesM, Nat.cast_zero, add_zero, Nat.cast_one] at *
  simp only [band, AMat.get_ofFn, h]

theorem step_spec (st : RingSt n) :
    CoreIR.Synth.step refRing (emb st) = if st.count + 1 - 1 ≥ n - 1 then none else
      some (emb { CIJ := matAdd st.CIJ (band n (st.count + 1)), dCIJ := band n (st.count + 1), count := st.count + 1,
                  kk := matSum (matAdd st.CIJ (band n (st.count + 1))) }) := by
  have hones : (AMat.ofFn fun _ _ => (1 : ℤ) : AMat ℤ n) = onesM := rfl
  by_cases h : st.count + 1 - 1 ≥ n - 1
  · have hc : ¬ st.count + 1 < n := by omega
    simp only [h, if_true, CoreIR.Synth.step, emb, hones, show refRing.incBy = 1 from rfl,
      show refRing.d1a = { mat := "CIJ1", seq := "seq", cnt := "count", off := 1, plus := 0 } from rfl, evalTriu_none st.count hc]
  · have hc : st.count + 1 < n := by omega
    simp only [h, if_false, CoreIR.Synth.step, emb, hones, show refRing.incBy = 1 from rfl,
      show refRing.d1a = { mat := "CIJ1", seq := "seq", cnt := "count", off := 1, plus := 0 } from rfl,
      show refRing.d1b = { mat := "CIJ1", seq := "seq", cnt := "count", off := 1, plus := 1 } from rfl,
      show refRing.d2a = { mat := "CIJ1", seq := "seq2", cnt := "count", off := 1, plus := 0 } from rfl,
      show refRing.d2b = { mat := "CIJ1", seq := "seq2", cnt := "count", off := 1, plus := 1 } from rfl,
      evalTriu_up _ st.count hc, evalTriu_dn _ st.count hc, show refRing.clip = 1 from rfl, AMat.get_ofFn]
    simp only [band_cell]
    have hb : (AMat.ofFn fun i j => (band n (st.count + 1)).get i j : AMat ℤ n) = band n (st.count + 1) := by
      apply AMat.ext_get; intro i j; simp
    simp only [hb, matAdd, Option.some.injEq, St.mk.injEq, true_and, and_true]
    push_cast; ring

/-- `while kk < k:` is `Synth.ringFill` -/
theorem loop_spec (k : ℕ) : ∀ (fuel : ℕ) (st : RingSt n),
    loop refRing k fuel (emb st) = match ringFill k fuel st with
      | .ok st' => some (emb st')
      | .error _ => none := by
  intro fuel
  induction fuel with
  | zero =>
    intro st
    by_cases hk : st.kk < (k : ℤ)
    · have hk' : (emb st).kk < (k : ℤ) := hk
      simp only [loop, ringFill, hk, hk', if_true]
    · have hk' : ¬ (emb st).kk < (k : ℤ) := hk
      simp only [loop, ringFill, hk, hk', if_false]
  | succ f ih =>
    intro st
    simp only [loop, ringFill]
    by_cases hk : st.kk < (k : ℤ)
    · have hk' : (emb st).kk < (k : ℤ) := hk
      simp only [hk, hk', if_true, step_spec]
      by_cases h : st.count + 1 - 1 ≥ n - 1
      · simp only [h, if_true]
      · simp only [h, if_false]
        exact ih _
    · have hk' : ¬ (emb st).kk < (k : ℤ) := hk
      simp only [hk, hk', if_false]

theorem ringFill_ge (k : ℕ) : ∀ (fuel : ℕ) (st st' : RingSt n), ringFill k fuel st = .ok st' → ¬ st'.kk < (k : ℤ) := by
  intro fuel
  induction fuel with
  | zero =>
    intro st st' h
    simp only [ringFill] at h
    split at h
    · exact absurd h (by simp)
    · rename_i hk
      simp only [Except.ok.injEq] at h; subst h; exact hk
  | succ f ih =>
    intro st st' h
    simp only [ringFill] at h
    split at h
    · split at h
      · exact absurd h (by simp)
      · exact ih _ _ h
    · rename_i hk
      simp only [Except.ok.injEq] at h; subst h; exact hk

theorem ringFill_err (k : ℕ) : ∀ (fuel : ℕ) (st : RingSt n) (e : Err), ringFill k fuel st = .error e → e = .index := by
  intro fuel
  induction fuel with
  | zero =>
    intro st e h
    simp only [ringFill] at h
    split at h
    · simp only [Except.error.injEq] at h; exact h.symm
    · exact absurd h (by simp)
  | succ f ih =>
    intro st e h
    simp only [ringFill] at h
    split at h
    · split at h
      · simp only [Except.error.injEq] at h; exact h.symm
      · exact ih _ _ h
    · exact absurd h (by simp)

theorem removeExcess_err (cells : List (Cell n)) (rp : List ℕ) : ∀ (ob ii : ℕ) (C : AMat ℤ n) (e : Err),
    removeExcess C cells rp ob ii = .error e → e = .index := by
  intro ob
  induction ob with
  | zero => intro ii C e h; simp [removeExcess] at h
  | succ o ih =>
    intro ii C e h
    simp only [removeExcess] at h
    split at h
    · simp only [Except.error.injEq] at h; exact h.symm
    · split at h
      · simp only [Except.error.injEq] at h; exact h.symm
      · exact ih _ _ _ h

theorem removeI_spec (cells : List (Cell n)) (rp : List ℕ) : ∀ (ob ii : ℕ) (C : AMat ℤ n),
    removeI 0 C cells rp ob ii = match removeExcess C cells rp ob ii with
      | .ok C' => some C'
      | .error _ => none := by
  intro ob
  induction ob with
  | zero => intro ii C; rfl
  | succ o ih =>
    intro ii C
    simp only [removeI, removeExcess]
    cases rp[ii]? with
    | none => rfl
    | some r =>
      simp only []
      cases cells[r]? with
      | none => rfl
      | some c => exact ih _ _

/-- **Link, `makeringlatticeCIJ`.**  If the generated obligation holds, the extracted routine, run with the model's fuel `n` for the
`while kk < k` loop, is `Synth.ringLattice n k` on every recorded draw list: same matrix, same draws left, same error. -/
theorem link_makeringlattice (ir : RingIR) (hok : ringOk ir = true) (k : ℕ) (ds : List ℕ) :
    runRing (n := n) ir n k ds = ringLattice n k ds := by
  have hir : ir = refRing := by simpa [ringOk] using hok
  subst hir
  have hc : refRing.coherent = true := by decide
  have h0 : ({ CIJ := AMat.ofFn fun _ _ => 0, d := AMat.ofFn fun _ _ => 0, count := ((refRing.count0 : ℕ) : ℤ), kk := ((refRing.kk0 : ℕ) : ℤ) } : St n)
      = emb { CIJ := zeroMat n, dCIJ := zeroMat n, count := 0, kk := 0 } := by
    simp [emb, refRing, zeroMat]
  simp only [runRing, hc, if_true, h0, loop_spec, ringLattice]
  cases hf : ringFill k n ({ CIJ := zeroMat n, dCIJ := zeroMat n, count := 0, kk := 0 } : RingSt n) with
  | error e =>
    simp only []
    rw [ringFill_err k n _ e hf]
  | ok st =>
    have hge := ringFill_ge k n _ st hf
    simp only [emb]
    by_cases ho : st.kk - (k : ℤ) = 0
    · simp [ho]
    · have hn : ¬ (st.kk - (k : ℤ)).toNat = 0 := by omega
      simp only [ho, hn, if_false, show refRing.setVal = 0 from rfl, removeI_spec]
      by_cases hl : ds.length < (nonzeroCells st.dCIJ).length
      · simp only [hl, if_true]
      · simp only [hl, if_false]
        by_cases hp : isPermOfRange (List.take (nonzeroCells st.dCIJ).length ds) (nonzeroCells st.dCIJ).length = true
        · simp only [hp, Bool.not_true, Bool.false_eq_true, if_false]
          cases hr : removeExcess st.CIJ (nonzeroCells st.dCIJ) (List.take (nonzeroCells st.dCIJ).length ds) (st.kk - (k : ℤ)).toNat 0 with
          | error e => simp only []; rw [removeExcess_err _ _ _ _ _ e hr]
          | ok C => rfl
        · have hp' : isPermOfRange (List.take (nonzeroCells st.dCIJ).length ds) (nonzeroCells st.dCIJ).length = false := by simpa using hp
          simp only [hp', Bool.not_false, if_true]

example : ringOk refRing = true := by decide
/-- `seq[count - 1] + 2` in the second `np.triu` is rejected -/
example : ringOk { refRing with d1b := { refRing.d1b with plus := 2 } } = false := by decide
/-- `while kk <= k` cannot be expressed; `while k < kk` (names exchanged) is rejected -/
example : ringOk { refRing with wL := "k", wR := "kk" } = false := by decide

end Bct.Cores.Synth
