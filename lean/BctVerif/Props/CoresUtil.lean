import BctVerif.Model.CoreIRUtil
import Mathlib.Tactic.Ring
import Mathlib.Tactic.Linarith
import Mathlib.Data.Rat.Defs
import Mathlib.Data.Rat.Floor

/-!
# C17 / C06 (second tie) — link theorems for the source-extracted pure utilities
-/

namespace Bct.Cores.Util
open Bct Bct.CoreIR.Util

variable {n : ℕ}

theorem run_teachers_round (o : Oracles) (x : ℚ) (ds : List ℕ) :
    runFn (n := n) o refTeachersRound [.sc (.rat x)] ds = .vals [.int (Thresh.teachersRound x)] ds := by
  simp [runFn, refTeachersRound, bindAll, execs, exec, eval, Env.set, zero, half, one, SV.lt, SV.le, SV.cmp, SV.isNan, SV.toRat?,
    SV.mod, SV.arith, SV.toInt?, SV.or, SV.and]
  have hm : mkRat 1 2 = (1 : ℚ) / 2 := by rw [Rat.mkRat_eq_div]; norm_num
  have ht : Thresh.teachersRound x =
      if (decide (0 < x) && decide (mkRat 1 2 ≤ x - ↑x.floor) || decide (x < 0) && decide (mkRat 1 2 < x - ↑x.floor)) = true
      then x.ceil else x.floor := by
    simp [Thresh.teachersRound, hm]
  rw [ht]
  cases decide (0 < x) && decide (mkRat 1 2 ≤ x - ↑x.floor) || decide (x < 0) && decide (mkRat 1 2 < x - ↑x.floor) <;>
    simp [doRet, eval, Env.set, SV.ceilInt, SV.floorInt]

def embQ (W : AMat ℚ n) : AMat SV n := W.map SV.rat

@[simp] theorem map_get {α β : Type} (f : α → β) (A : AMat α n) (i j : Fin n) : (A.map f).get i j = f (A.get i j) := by
  simp [AMat.map]
@[simp] theorem embQ_get (W : AMat ℚ n) (i j : Fin n) : (embQ W).get i j = SV.rat (W.get i j) := by simp [embQ]

theorem run_threshold_absolute (o : Oracles) (W : AMat ℚ n) (thr : ℚ) (c : Bool) (ds : List ℕ) :
    runFn o refThresholdAbsolute [.mat (embQ W), .sc (.rat thr), .sc (.bool c)] ds
      = .mat (embQ (Thresh.thresholdAbsolute W thr)) := by
  simp [runFn, refThresholdAbsolute, bindAll, execs, exec, eval, Env.set, zero, doRet]
  apply AMat.ext_get; intro i j
  simp only [AMat.get_ofFn, embQ_get, Thresh.thresholdAbsolute, Thresh.zeroDiag, map_get]
  by_cases hij : i = j
  · subst hij
    by_cases h0 : (0 : ℚ) < thr <;> simp [SV.lt, SV.cmp, SV.isNan, SV.toRat?, SV.store, h0]
  · by_cases h0 : W.get i j < thr <;> simp [hij, SV.lt, SV.cmp, SV.isNan, SV.toRat?, SV.store, h0]

theorem run_binarize (o : Oracles) (W : AMat ℚ n) (c : Bool) (ds : List ℕ) :
    runFn o refBinarize [.mat (embQ W), .sc (.bool c)] ds = .mat (embQ (Thresh.binarize W)) := by
  simp [runFn, refBinarize, bindAll, execs, exec, eval, Env.set, zero, one, doRet]
  apply AMat.ext_get; intro i j
  simp only [AMat.get_ofFn, embQ_get, Thresh.binarize, map_get]
  by_cases h0 : W.get i j = 0 <;> simp [SV.ne, SV.isNan, SV.toRat?, SV.store, h0]

theorem mem_cellsOf (i j : Fin n) : (i, j) ∈ cellsOf n := by
  simp [cellsOf, List.mem_flatMap, List.mem_finRange]

theorem foldl_max_rat {α : Type} (f : α → ℚ) (l : List α) (m : ℚ) :
    (l.map fun c => SV.rat (f c)).foldl maxStep (SV.rat m)
      = SV.rat (l.foldl (fun m c => if m < f c then f c else m) m) := by
  induction l generalizing m with
  | nil => rfl
  | cons a l ih =>
    simp only [List.map_cons, List.foldl_cons]
    have hstep : maxStep (SV.rat m) (SV.rat (f a)) = SV.rat (if m < f a then f a else m) := by
      by_cases h : m < f a <;> simp [maxStep, SV.lt, SV.cmp, SV.isNan, SV.toRat?, h]
    rw [hstep]
    exact ih _

theorem maxCells_abs (W : AMat ℚ n) (hn : cellsOf n ≠ []) :
    maxCells ((cellsOf n).map fun c => SV.rat (Thresh.absR (W.get c.1 c.2))) = SV.rat (Thresh.maxAbs W) := by
  have hc : Thresh.cells n = cellsOf n := rfl
  unfold Thresh.maxAbs
  rw [hc]
  cases hl : cellsOf n with
  | nil => exact absurd hl hn
  | cons a l =>
    simp only [List.map_cons, maxCells, List.foldl_cons]
    have h1 := foldl_max_rat (fun c => Thresh.absR (W.get c.1 c.2)) l (Thresh.absR (W.get a.1 a.2))
    rw [h1]
    congr 1
    have h0 : (0 : ℚ) ≤ Thresh.absR (W.get a.1 a.2) := by
      unfold Thresh.absR; split <;> linarith
    by_cases hz : (0 : ℚ) < Thresh.absR (W.get a.1 a.2)
    · simp [hz]
    · have : Thresh.absR (W.get a.1 a.2) = 0 := le_antisymm (not_lt.mp hz) h0
      simp [this]

theorem run_normalize (o : Oracles) (W : AMat ℚ n) (c : Bool) (ds : List ℕ) :
    runFn o refNormalize [.mat (embQ W), .sc (.bool c)] ds
      = .mat (match Thresh.normalize W with | some R => embQ R | none => AMat.ofFn fun _ _ => SV.nan) := by
  simp [runFn, refNormalize, bindAll, execs, exec, eval, Env.set, doRet, SV.abs]
  apply AMat.ext_get; intro i j
  have hn : cellsOf n ≠ [] := by
    intro h; have := mem_cellsOf i j; rw [h] at this; exact absurd this List.not_mem_nil
  have hm := maxCells_abs W hn
  simp only [Thresh.absR] at hm
  simp only [map_get, embQ_get, hm, Thresh.normalize]
  by_cases hz : Thresh.maxAbs W = 0
  · simp [hz, SV.div, SV.isNan, SV.toRat?, SV.store]
  · simp [hz, SV.div, SV.isNan, SV.toRat?, SV.store]

theorem run_invert (o : Oracles) (W : AMat ℚ n) (c : Bool) (ds : List ℕ) :
    runFn o refInvert [.mat (embQ W), .sc (.bool c)] ds = .mat (embQ (Thresh.invert W)) := by
  simp [runFn, refInvert, bindAll, execs, exec, eval, Env.set, one, doRet]
  apply AMat.ext_get; intro i j
  simp only [AMat.get_ofFn, embQ_get, Thresh.invert, map_get, mem_cellsOf, true_and]
  by_cases h0 : W.get i j = 0 <;> simp [SV.ne, SV.isNan, SV.toRat?, SV.store, SV.div, h0]

/-- the guard of `logtransform`: some weight is `> 1` or `<= 0` -/
def logGuard (W : AMat ℚ n) : Bool := (cellsOf n).any fun c => decide (1 < W.get c.1 c.2) || decide (W.get c.1 c.2 ≤ 0)

theorem run_logtransform (o : Oracles) (W : AMat ℚ n) (c : Bool) (ds : List ℕ) :
    runFn o refLogtransform [.mat (embQ W), .sc (.bool c)] ds =
      if logGuard W then .raise "ValueError"
      else .mat (AMat.ofFn fun i j => match o.nl (W.get i j) with | some r => SV.rat r | none => SV.err) := by
  have hflag : ∀ (E : Env n) (w : ℚ),
      eval o E (some ("W", SV.rat w)) none (SEx.or (SEx.lt one (SEx.var "W")) (SEx.le (SEx.var "W") zero))
      = SV.bool (decide (1 < w) || decide (w ≤ 0)) := by
    intro E w
    simp [eval, one, zero, SV.lt, SV.le, SV.cmp, SV.isNan, SV.toRat?, SV.or]
  simp only [runFn, refLogtransform, bindAll, execs, exec]
  simp only [Env.set, if_true, show ("W" = "copy") = False by decide, show ("copy" = "W") = False by decide, if_false]
  simp only [embQ_get, hflag, List.all_map, List.any_map, Function.comp_def, List.all_eq_true, implies_true, if_true]
  by_cases hg : logGuard W = true
  · have hg' := hg
    simp only [logGuard] at hg'
    have hex : ∃ a b, (a, b) ∈ cellsOf n ∧ (1 < W.get a b ∨ W.get a b ≤ 0) := by simpa using hg'
    simp [hg, hex]
  · have hgf : logGuard W = false := by simpa using hg
    have hg' := hgf
    simp only [logGuard] at hg'
    simp only [hgf, Bool.false_eq_true, if_false]
    have hany : ((cellsOf n).any fun x => SV.bool (decide (1 < W.get x.1 x.2) || decide (W.get x.1 x.2 ≤ 0)) == SV.bool true) = false := by
      rw [← hg']; congr 1; funext x
      cases (decide (1 < W.get x.1 x.2) || decide (W.get x.1 x.2 ≤ 0)) <;> decide
    simp only [hany, Bool.false_eq_true, if_false, doRet]
    simp [Env.set]
    apply AMat.ext_get; intro i j
    have hpos : 0 < W.get i j := by
      have := List.any_eq_false.mp hg' (i, j) (mem_cellsOf i j)
      simp at this
      exact this.2
    simp [eval, SV.negLog, SV.toRat?, hpos, SV.store]
    cases o.nl (W.get i j) <;> simp

theorem run_cuberoot (o : Oracles) (x : ℚ) (ds : List ℕ) :
    runFn (n := n) o refCuberoot [.sc (.rat x)] ds =
      .vals [match o.cb (if x < 0 then -x else x) with
             | some r => SV.rat ((if x < 0 then -1 else if x = 0 then 0 else 1) * r)
             | none => SV.err] ds := by
  have habs : (0 : ℚ) ≤ if x < 0 then -x else x := by split <;> linarith
  simp [runFn, refCuberoot, bindAll, execs, exec, eval, Env.set, one, doRet, SV.sign, SV.abs, SV.div, SV.isNan, SV.toRat?,
    SV.pow, habs]
  cases o.cb (if x < 0 then -x else x) <;> simp [SV.mul, SV.arith, SV.isNan, SV.toInt?, SV.toRat?]

/-! ### `pick_four_unique_nodes_quickly` -/

theorem pick_pass (o : Oracles) (m k : ℕ) (ds : List ℕ) :
    runFn (n := 0) o refPickFour [.sc (.nat m), .seed] (k :: ds) =
      if m ^ 4 = 0 then .raise "ValueError"
      else if k < m ^ 4 then
        (if k % m ≠ k / m % m ∧ k % m ≠ k / m ^ 2 % m ∧ k % m ≠ k / m ^ 3 % m ∧ k / m % m ≠ k / m ^ 2 % m ∧
            k / m % m ≠ k / m ^ 3 % m ∧ k / m ^ 2 % m ≠ k / m ^ 3 % m
         then .vals [.nat (k % m), .nat (k / m % m), .nat (k / m ^ 2 % m), .nat (k / m ^ 3 % m)] ds
         else .retry ds)
      else .badDraw := by
  by_cases hm : m = 0
  · subst hm
    simp [runFn, refPickFour, bindAll, execs, exec, eval, Env.set, nv, SV.pow]
  · have hm4 : m ^ 4 ≠ 0 := pow_ne_zero 4 hm
    by_cases hk : k < m ^ 4
    · simp only [runFn, refPickFour, bindAll, execs, exec, eval, Env.set, nv, kv, neq, SV.pow, if_true,
        show ("n" = "seed") = False by decide, show ("seed" = "n") = False by decide,
        show ("rng" = "seed") = False by decide,
        show ("n" = "rng") = False by decide, show ("rng" = "n") = False by decide, if_false]
      simp [hm4, hk, hm, Env.set, SV.mod, SV.fdiv, SV.arith, SV.isNan, SV.pow, SV.ne, SV.toRat?, SV.and, doRet]
      by_cases hd : ¬k % m = k / m % m ∧ ¬k % m = k / m ^ 2 % m ∧ ¬k % m = k / m ^ 3 % m ∧
          ¬k / m % m = k / m ^ 2 % m ∧ ¬k / m % m = k / m ^ 3 % m ∧ ¬k / m ^ 2 % m = k / m ^ 3 % m
      · obtain ⟨d1, d2, d3, d4, d5, d6⟩ := hd
        simp [d1, d2, d3, d4, d5, d6, eval, Env.set]
      · have hb : (!decide (k % m = k / m % m) && !decide (k % m = k / m ^ 2 % m) && !decide (k % m = k / m ^ 3 % m) &&
                !decide (k / m % m = k / m ^ 2 % m) && !decide (k / m % m = k / m ^ 3 % m) &&
                !decide (k / m ^ 2 % m = k / m ^ 3 % m)) = false := by
          rw [← Bool.not_eq_true]
          intro hb
          apply hd
          simpa [Bool.and_assoc] using hb
        rw [hb, if_neg hd]
    · simp [runFn, refPickFour, bindAll, execs, exec, eval, Env.set, nv, SV.pow, hm4, hk, hm]

theorem pick_pass_nil (o : Oracles) (m : ℕ) :
    runFn (n := 0) o refPickFour [.sc (.nat m), .seed] [] = .outOfDraws := by
  simp [runFn, refPickFour, bindAll, execs, exec, eval, Env.set, nv, SV.pow]

theorem run_pick (o : Oracles) (m : ℕ) :
    ∀ (ds : List ℕ) (fuel : ℕ), ds.length < fuel → runPick o refPickFour m fuel ds = Signed.pickFour m ds := by
  intro ds
  induction ds with
  | nil =>
    intro fuel hf
    cases fuel with
    | zero => omega
    | succ f => simp [runPick, pick_pass_nil, Signed.pickFour]
  | cons k ds ih =>
    intro fuel hf
    cases fuel with
    | zero => omega
    | succ f =>
      have hf' : ds.length < f := by simp at hf; omega
      simp only [runPick, pick_pass, Signed.pickFour]
      by_cases hm : 0 < m
      · have hm4 : m ^ 4 ≠ 0 := pow_ne_zero 4 (by omega)
        simp only [hm4, if_false, hm, dite_true]
        by_cases hk : k < m ^ 4
        · simp only [hk, if_true]
          by_cases hd : k % m ≠ k / m % m ∧ k % m ≠ k / m ^ 2 % m ∧ k % m ≠ k / m ^ 3 % m ∧ k / m % m ≠ k / m ^ 2 % m ∧
              k / m % m ≠ k / m ^ 3 % m ∧ k / m ^ 2 % m ≠ k / m ^ 3 % m
          · have hlt : k % m < m ∧ k / m % m < m ∧ k / m ^ 2 % m < m ∧ k / m ^ 3 % m < m :=
              ⟨Nat.mod_lt _ hm, Nat.mod_lt _ hm, Nat.mod_lt _ hm, Nat.mod_lt _ hm⟩
            have hd' : (⟨k % m, Nat.mod_lt _ hm⟩ : Fin m) ≠ ⟨k / m % m, Nat.mod_lt _ hm⟩ ∧
                (⟨k % m, Nat.mod_lt _ hm⟩ : Fin m) ≠ ⟨k / m ^ 2 % m, Nat.mod_lt _ hm⟩ ∧
                (⟨k % m, Nat.mod_lt _ hm⟩ : Fin m) ≠ ⟨k / m ^ 3 % m, Nat.mod_lt _ hm⟩ ∧
                (⟨k / m % m, Nat.mod_lt _ hm⟩ : Fin m) ≠ ⟨k / m ^ 2 % m, Nat.mod_lt _ hm⟩ ∧
                (⟨k / m % m, Nat.mod_lt _ hm⟩ : Fin m) ≠ ⟨k / m ^ 3 % m, Nat.mod_lt _ hm⟩ ∧
                (⟨k / m ^ 2 % m, Nat.mod_lt _ hm⟩ : Fin m) ≠ ⟨k / m ^ 3 % m, Nat.mod_lt _ hm⟩ := by
              simpa [Fin.ext_iff] using hd
            rw [if_pos hd, if_pos hd']
            simp [hlt]
          · have hd' : ¬((⟨k % m, Nat.mod_lt _ hm⟩ : Fin m) ≠ ⟨k / m % m, Nat.mod_lt _ hm⟩ ∧
                (⟨k % m, Nat.mod_lt _ hm⟩ : Fin m) ≠ ⟨k / m ^ 2 % m, Nat.mod_lt _ hm⟩ ∧
                (⟨k % m, Nat.mod_lt _ hm⟩ : Fin m) ≠ ⟨k / m ^ 3 % m, Nat.mod_lt _ hm⟩ ∧
                (⟨k / m % m, Nat.mod_lt _ hm⟩ : Fin m) ≠ ⟨k / m ^ 2 % m, Nat.mod_lt _ hm⟩ ∧
                (⟨k / m % m, Nat.mod_lt _ hm⟩ : Fin m) ≠ ⟨k / m ^ 3 % m, Nat.mod_lt _ hm⟩ ∧
                (⟨k / m ^ 2 % m, Nat.mod_lt _ hm⟩ : Fin m) ≠ ⟨k / m ^ 3 % m, Nat.mod_lt _ hm⟩) := by
              simpa [Fin.ext_iff] using hd
            rw [if_neg hd, if_neg hd']
            exact ih f hf'
        · simp only [hk, if_false]
      · have hm0 : m = 0 := by omega
        subst hm0
        simp

/-! ### the link theorems -/

theorem names_distinct : ∀ r' ∈ refFns, ∀ r ∈ refFns, r'.name = r.name → r' = r := by decide

theorem ir_of_utilOk (ir : FnIR) (hok : utilOk ir = true) (r : FnIR) (hr : r ∈ refFns) (hname : ir.name = r.name) : ir = r := by
  simp only [utilOk, List.any_eq_true, Bool.and_eq_true, beq_iff_eq] at hok
  obtain ⟨r', hr', _, he⟩ := hok
  subst he
  exact names_distinct _ hr' _ hr hname

/-- **Link, `teachers_round`.**  If the generated obligation holds, the extracted function computes `Thresh.teachersRound`
on every rational. -/
theorem link_teachers_round (o : Oracles) (ir : FnIR) (hok : utilOk ir = true) (hname : ir.name = "teachers_round")
    (x : ℚ) (ds : List ℕ) : runFn (n := n) o ir [.sc (.rat x)] ds = .vals [.int (Thresh.teachersRound x)] ds := by
  rw [ir_of_utilOk ir hok refTeachersRound (by decide) hname]; exact run_teachers_round o x ds

/-- **Link, `threshold_absolute`** (either value of `copy`). -/
theorem link_threshold_absolute (o : Oracles) (ir : FnIR) (hok : utilOk ir = true) (hname : ir.name = "threshold_absolute")
    (W : AMat ℚ n) (thr : ℚ) (c : Bool) (ds : List ℕ) :
    runFn o ir [.mat (embQ W), .sc (.rat thr), .sc (.bool c)] ds = .mat (embQ (Thresh.thresholdAbsolute W thr)) := by
  rw [ir_of_utilOk ir hok refThresholdAbsolute (by decide) hname]; exact run_threshold_absolute o W thr c ds

/-- **Link, `binarize`.** -/
theorem link_binarize (o : Oracles) (ir : FnIR) (hok : utilOk ir = true) (hname : ir.name = "binarize")
    (W : AMat ℚ n) (c : Bool) (ds : List ℕ) :
    runFn o ir [.mat (embQ W), .sc (.bool c)] ds = .mat (embQ (Thresh.binarize W)) := by
  rw [ir_of_utilOk ir hok refBinarize (by decide) hname]; exact run_binarize o W c ds

/-- **Link, `normalize`**: `Thresh.normalize W`, every entry non-finite when the matrix is all zero (`0/0`). -/
theorem link_normalize (o : Oracles) (ir : FnIR) (hok : utilOk ir = true) (hname : ir.name = "normalize")
    (W : AMat ℚ n) (c : Bool) (ds : List ℕ) :
    runFn o ir [.mat (embQ W), .sc (.bool c)] ds
      = .mat (match Thresh.normalize W with | some R => embQ R | none => AMat.ofFn fun _ _ => SV.nan) := by
  rw [ir_of_utilOk ir hok refNormalize (by decide) hname]; exact run_normalize o W c ds

/-- **Link, `invert`.** -/
theorem link_invert (o : Oracles) (ir : FnIR) (hok : utilOk ir = true) (hname : ir.name = "invert")
    (W : AMat ℚ n) (c : Bool) (ds : List ℕ) :
    runFn o ir [.mat (embQ W), .sc (.bool c)] ds = .mat (embQ (Thresh.invert W)) := by
  rw [ir_of_utilOk ir hok refInvert (by decide) hname]; exact run_invert o W c ds

/-- **Link, `logtransform`**: `ValueError` exactly when some weight is `> 1` or `<= 0`; otherwise every entry is the
oracle's `-log w`. -/
theorem link_logtransform (o : Oracles) (ir : FnIR) (hok : utilOk ir = true) (hname : ir.name = "logtransform")
    (W : AMat ℚ n) (c : Bool) (ds : List ℕ) :
    runFn o ir [.mat (embQ W), .sc (.bool c)] ds =
      if logGuard W then .raise "ValueError"
      else .mat (AMat.ofFn fun i j => match o.nl (W.get i j) with | some r => SV.rat r | none => SV.err) := by
  rw [ir_of_utilOk ir hok refLogtransform (by decide) hname]; exact run_logtransform o W c ds

/-- **Link, `cuberoot`**: `sign(x) · cb |x|` for the oracle `cb` of `y ↦ y^(1/3)` on non-negative rationals. -/
theorem link_cuberoot (o : Oracles) (ir : FnIR) (hok : utilOk ir = true) (hname : ir.name = "cuberoot")
    (x : ℚ) (ds : List ℕ) :
    runFn (n := n) o ir [.sc (.rat x)] ds =
      .vals [match o.cb (if x < 0 then -x else x) with
             | some r => SV.rat ((if x < 0 then -1 else if x = 0 then 0 else 1) * r)
             | none => SV.err] ds := by
  rw [ir_of_utilOk ir hok refCuberoot (by decide) hname]; exact run_cuberoot o x ds

/-- **Link, `pick_four_unique_nodes_quickly`**: on every recorded draw list (and enough fuel for one pass per draw) the
extracted function with its recursive retries is `Signed.pickFour` — digit decode `k % n`, `k // n % n`, `k // n² % n`,
`k // n³ % n`, retry unless pairwise distinct, same draws consumed. -/
theorem link_pick_four (o : Oracles) (ir : FnIR) (hok : utilOk ir = true) (hname : ir.name = "pick_four_unique_nodes_quickly")
    (m : ℕ) (ds : List ℕ) (fuel : ℕ) (hf : ds.length < fuel) : runPick o ir m fuel ds = Signed.pickFour m ds := by
  rw [ir_of_utilOk ir hok refPickFour (by decide) hname]; exact run_pick o m ds fuel hf

/-! ### non-vacuity and sensitivity -/

example : refFns.all utilOk = true := by decide
/-- `>=` for `>` in the negative branch of `teachers_round` is rejected -/
example : utilOk { refTeachersRound with body := [ .ifRet (.or (.and (.lt zero (.var "x")) (.le half (.mod (.var "x") one)))
    (.and (.lt (.var "x") zero) (.le half (.mod (.var "x") one)))) (.expr (.ceilInt (.var "x"))) (.expr (.floorInt (.var "x"))) ] } = false := by
  decide
/-- `threshold_absolute` without `np.fill_diagonal` is rejected -/
example : utilOk { refThresholdAbsolute with body := refThresholdAbsolute.body.eraseIdx 1 } = false := by decide
/-- a digit decode with the wrong power is rejected -/
example : utilOk { refPickFour with body := refPickFour.body.set 4 (.bind "c" (.mod (.fdiv kv (.pow nv (.lit 3 1))) nv)) } = false := by
  decide
/-- the link on a concrete draw list, `n = 5`: `27 = 2 + 0·5 + 1·25 + 0·125` decodes to `(2, 0, 1, 0)` and is retried,
`194 = 4 + 3·5 + 2·25 + 1·125` decodes to `(4, 3, 2, 1)` -/
example : runPick ⟨fun _ => none, fun _ => none⟩ refPickFour 5 3 [27, 194] = Signed.pickFour 5 [27, 194] :=
  link_pick_four _ refPickFour (by decide) rfl 5 [27, 194] 3 (by decide)

/-! ### `weight_conversion` -/

/-- **Link, `weight_conversion`.**  If the generated obligations hold (`dispatchOk` for the routine, `utilOk` for the three
utilities it calls, found in the table under their own names), the extracted dispatch returns what `Thresh.weightConversion`
returns: the `binarize` / `normalize` / `invert` of the matrix for the three commands, `NotImplementedError` otherwise. -/
theorem link_weight_conversion (o : Oracles) (ir : DispatchIR) (hok : dispatchOk ir = true)
    (fb fn fi : FnIR) (hb : utilOk fb = true) (hn : utilOk fn = true) (hi : utilOk fi = true)
    (nb : fb.name = "binarize") (nn : fn.name = "normalize") (ni : fi.name = "invert")
    (W : AMat ℚ n) (wcm : String) (c : Bool) (ds : List ℕ) :
    runDispatch o [fb, fn, fi] ir (embQ W) wcm c ds =
      match Thresh.weightConversion W wcm with
      | .ok (some R) => .mat (embQ R)
      | .ok none => .mat (AMat.ofFn fun _ _ => SV.nan)
      | .error e => .raise e := by
  have hir : ir = refWeightConversion := by simpa [dispatchOk] using hok
  subst hir
  have eb := ir_of_utilOk fb hb refBinarize (by decide) nb
  have en := ir_of_utilOk fn hn refNormalize (by decide) nn
  have ei := ir_of_utilOk fi hi refInvert (by decide) ni
  subst eb en ei
  simp only [runDispatch, refWeightConversion, Thresh.weightConversion]
  by_cases h1 : wcm = "binarize"
  · subst h1
    simp [refBinarize, refNormalize, refInvert, run_binarize o W c ds]
    exact run_binarize o W c ds
  · by_cases h2 : wcm = "normalize"
    · subst h2
      simp [refBinarize, refNormalize, refInvert]
      have := run_normalize o W c ds
      cases hnm : Thresh.normalize W <;> simp [hnm] at this ⊢ <;> exact this
    · by_cases h3 : wcm = "lengths"
      · subst h3
        simp [refBinarize, refNormalize, refInvert]
        exact run_invert o W c ds
      · have e1 : ("binarize" == wcm) = false := by simpa using fun e => h1 e.symm
        have e2 : ("normalize" == wcm) = false := by simpa using fun e => h2 e.symm
        have e3 : ("lengths" == wcm) = false := by simpa using fun e => h3 e.symm
        simp [List.find?, e1, e2, e3, h1, h2, h3]

example : dispatchOk refWeightConversion = true := by decide
/-- `'lengths'` dispatched to `normalize` is rejected -/
example : dispatchOk { refWeightConversion with
    arms := [⟨"binarize", "binarize", ["W", "copy"]⟩, ⟨"normalize", "normalize", ["W", "copy"]⟩, ⟨"lengths", "normalize", ["W", "copy"]⟩] } = false := by
  decide

end Bct.Cores.Util
