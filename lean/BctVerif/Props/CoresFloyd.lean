import BctVerif.Model.CoreIRFloyd
import Mathlib.Tactic.Ring
import Mathlib.Tactic.Linarith

namespace Bct.Cores.Floyd
open Bct Bct.Dist Bct.CoreIR.Floyd

variable {n : ℕ}

/-- the environment holds the model state `s` under the names `SPL`, `hops`, `Pmat` -/
def StateIs (E : Env n) (s : FSt n) : Prop :=
  E.mat "SPL" = some (s.D.map V.ext) ∧ E.mat "hops" = some (s.hops.map V.nat) ∧ E.mat "Pmat" = some (s.P.map V.idx)

@[simp] theorem map_get {α β : Type} (f : α → β) (A : AMat α n) (i j : Fin n) : (A.map f).get i j = f (A.get i j) := by
  simp [AMat.map]

theorem body_spec (nl : ℚ → Ext) (E : Env n) (s : FSt n) (k : Fin n) (h : StateIs E s) :
    ∃ E', execs nl refBody (E.setVar "k" k) = some E' ∧ StateIs E' (fStage s k) ∧ E'.dimv = E.dimv := by
  obtain ⟨h1, h2, h3⟩ := h
  simp [refBody, execs, exec, Env.setVar, Env.setMat, Env.setArr, mSelf, eval, evalIx, maskName, h1, h2, h3, StateIs]
  refine ⟨?_, ?_, ?_⟩ <;> apply AMat.ext_get <;> intro i j <;>
    simp only [AMat.get_ofFn, map_get, fStage, V.min, V.add, V.gt, V.toExt, V.store, Ext.min] <;>
    cases hlt : Ext.lt (s.D.get i k + s.D.get k j) (s.D.get i j) <;> simp

theorem loop_spec (nl : ℚ → Ext) (ks : List (Fin n)) : ∀ (E : Env n) (s : FSt n), StateIs E s →
    ∃ E', loop nl "k" refBody ks E = some E' ∧ StateIs E' (ks.foldl fStage s) ∧ E'.dimv = E.dimv := by
  induction ks with
  | nil => intro E s h; exact ⟨E, rfl, h, rfl⟩
  | cons k ks ih =>
    intro E s h
    obtain ⟨E1, h1, hs1, hd1⟩ := body_spec nl E s k h
    obtain ⟨E2, h2, hs2, hd2⟩ := ih E1 (fStage s k) hs1
    refine ⟨E2, ?_, hs2, hd2.trans hd1⟩
    simp only [loop, h1, h2]

theorem epilogue_spec (nl : ℚ → Ext) (E : Env n) (s : FSt n) (h : StateIs E s) :
    ∃ E', execs nl refEpilogue E = some E' ∧ StateIs E' (fFinal s) := by
  obtain ⟨h1, h2, h3⟩ := h
  simp [refEpilogue, execs, exec, Env.setMat, mSelf, eval, evalIx, h1, h2, h3, StateIs]
  refine ⟨?_, ?_, ?_⟩ <;> apply AMat.ext_get <;> intro i j <;>
    simp only [AMat.get_ofFn, map_get, fFinal, V.gt, V.toExt, V.store, Ext.lt] <;>
    by_cases hij : i = j <;> simp [hij, j.pos]

/-- what the initialisation needs to know about the dispatch arm: `SPL` holds the lengths `L`, the argument is still
bound, and a length is finite exactly where the argument is non-zero -/
theorem init_spec (nl : ℚ → Ext) (E : Env n) (A : AMat ℚ n) (L : AMat Ext n)
    (hA : E.mat "adjacency" = some (A.map fun a => V.ext (.fin a))) (hL : E.mat "SPL" = some (L.map V.ext))
    (hfin : ∀ i j, (L.get i j).isFin = (A.get i j != 0)) :
    ∃ E', execs nl refInit E = some E' ∧ StateIs E' (fInit L) ∧ E'.dimv "n" = true := by
  simp [refInit, execs, exec, Env.setMat, Env.setDim, mSelf, eval, evalIx, hA, hL, StateIs]
  refine ⟨?_, ?_, ?_⟩ <;> apply AMat.ext_get <;> intro i j <;>
    simp only [AMat.get_ofFn, map_get, fInit, V.ne, V.toExt, V.toNum, hfin]
  by_cases h0 : A.get i j = 0 <;> simp [h0]

theorem arm_none (nl : ℚ → Ext) (A : AMat ℚ n) :
    ∃ E', execs nl [ .bind "SPL" (mSelf "adjacency"), .setMask "SPL" (.eq (mSelf "SPL") (.lit 0)) .inf ]
        (env0 "adjacency" A) = some E' ∧
      E'.mat "adjacency" = some (A.map fun a => V.ext (.fin a)) ∧ E'.mat "SPL" = some ((lenMat .none A).map V.ext) := by
  simp [execs, exec, Env.setMat, env0, mSelf, eval, evalIx]
  apply AMat.ext_get; intro i j
  simp only [AMat.get_ofFn, map_get, lenMat, lenOf, V.eq, V.toExt, V.store]
  by_cases h0 : A.get i j = 0 <;> simp [h0]

theorem arm_inv (nl : ℚ → Ext) (A : AMat ℚ n) :
    ∃ E', execs nl [ .bind "SPL" (.recip (mSelf "adjacency")), .setMask "SPL" (.eq (mSelf "adjacency") (.lit 0)) .inf ]
        (env0 "adjacency" A) = some E' ∧
      E'.mat "adjacency" = some (A.map fun a => V.ext (.fin a)) ∧ E'.mat "SPL" = some ((lenMat .inv A).map V.ext) := by
  simp [execs, exec, Env.setMat, env0, mSelf, eval, evalIx]
  apply AMat.ext_get; intro i j
  simp only [AMat.get_ofFn, map_get, lenMat, lenOf, V.recip, Ext.inv, V.eq, V.toExt, V.store]
  by_cases h0 : A.get i j = 0 <;> simp [h0]

theorem ext_add_zero (x : Ext) : x + Ext.fin ((0 : ℕ) : ℚ) = x := by
  cases x with
  | fin q => show Ext.add _ _ = _; simp [Ext.add]
  | inf => rfl

theorem arm_log (nl : ℚ → Ext) (A : AMat ℚ n) :
    ∃ E', execs nl [ .bind "SPL" (.add (.negLog (mSelf "adjacency")) (.lit 0)) ] (env0 "adjacency" A) = some E' ∧
      E'.mat "adjacency" = some (A.map fun a => V.ext (.fin a)) ∧
      E'.mat "SPL" = some ((AMat.ofFn fun i j => nl (A.get i j)).map V.ext) := by
  simp [execs, exec, Env.setMat, env0, mSelf, eval, evalIx]
  apply AMat.ext_get; intro i j
  simp only [AMat.get_ofFn, map_get, V.negLog, V.add, ext_add_zero]

/-! ### the link theorems -/

theorem ir_of_ok (ir : FloydIR) (hok : floydOk ir = true) : ir = refIR := by
  obtain ⟨r, p, t, df, og, d, i, lv, lb, b, e, rt⟩ := ir
  simp only [floydOk, Bool.and_eq_true, beq_iff_eq] at hok
  obtain ⟨⟨⟨⟨⟨⟨⟨⟨⟨⟨⟨h1, h2⟩, h3⟩, h3'⟩, h3''⟩, h4⟩, h5⟩, h6⟩, h7⟩, h8⟩, h9⟩, h10⟩ := hok
  simp only [refIR]
  subst h1 h2 h3 h3' h3'' h4 h5 h6 h7 h8 h9 h10
  rfl

/-- **Link, one stage.**  If the generated obligation holds, the extracted body of `for k in range(n)`, executed by
the interpreter on any environment that holds a model state `s` (whatever else it holds — temporaries of earlier
stages included), leaves exactly `Dist.fStage s k` under the names `SPL`, `hops`, `Pmat`. -/
theorem link_stage (nl : ℚ → Ext) (ir : FloydIR) (hok : floydOk ir = true) (E : Env n) (s : FSt n) (k : Fin n)
    (h : StateIs E s) :
    ∃ E', execs nl ir.body (E.setVar ir.loopVar k) = some E' ∧ StateIs E' (fStage s k) := by
  rw [ir_of_ok ir hok]
  obtain ⟨E', h1, h2, _⟩ := body_spec nl E s k h
  exact ⟨E', h1, h2⟩

/-- **Link, epilogue.**  The extracted statements after the loop compute `Dist.fFinal`. -/
theorem link_final (nl : ℚ → Ext) (ir : FloydIR) (hok : floydOk ir = true) (E : Env n) (s : FSt n) (h : StateIs E s) :
    ∃ E', execs nl ir.epilogue E = some E' ∧ StateIs E' (fFinal s) := by
  rw [ir_of_ok ir hok]
  exact epilogue_spec nl E s h

theorem readAll_state (E : Env n) (s : FSt n) (h : StateIs E s) : readAll E ["SPL", "hops", "Pmat"] = some (embed s) := by
  obtain ⟨h1, h2, h3⟩ := h
  simp [readAll, h1, h2, h3, embed]

/-- everything after the dispatch arm: initialisation, all `n` stages, epilogue, `return` -/
theorem run_tail (nl : ℚ → Ext) (E1 : Env n) (A : AMat ℚ n) (L : AMat Ext n)
    (hA : E1.mat "adjacency" = some (A.map fun a => V.ext (.fin a))) (hL : E1.mat "SPL" = some (L.map V.ext))
    (hfin : ∀ i j, (L.get i j).isFin = (A.get i j != 0)) :
    (match execs nl refIR.init E1 with
      | none => Except.error "NameError"
      | some E2 =>
        if E2.dimv refIR.loopBound then
          match loop nl refIR.loopVar refIR.body (List.finRange n) E2 with
          | none => .error "NameError"
          | some E3 =>
            match execs nl refIR.epilogue E3 with
            | none => .error "NameError"
            | some E4 =>
              match readAll E4 refIR.ret with
              | some Ms => .ok Ms
              | none => .error "NameError"
        else .error "NameError") = Except.ok (embed (floyd L)) := by
  obtain ⟨E2, e2, s2, d2⟩ := init_spec nl E1 A L hA hL hfin
  obtain ⟨E3, e3, s3, _⟩ := loop_spec nl (List.finRange n) E2 (fInit L) s2
  obtain ⟨E4, e4, s4⟩ := epilogue_spec nl E3 _ s3
  have e5 := readAll_state E4 _ s4
  simp only [refIR] at *
  simp only [e2, d2, e3, e4, e5, if_true, floyd, floydLoop]

theorem lenOf_isFin (tr : Transform) (a : ℚ) : (lenOf tr a).isFin = (a != 0) := by
  unfold lenOf
  by_cases h : a = 0
  · simp [h, Ext.isFin]
  · cases tr <;> simp [h, Ext.isFin]

/-- **Link, whole routine, `transform=None`.**  If the generated obligation `floydOk ir` holds, the program extracted
from the current source of `distance_wei_floyd`, run by the interpreter on any matrix of any size, returns exactly
`(SPL, hops, Pmat) = Dist.floyd (lenMat .none A)` — the function the C03 / C12 theorems are about. -/
theorem link_floyd_none (nl : ℚ → Ext) (ir : FloydIR) (hok : floydOk ir = true) (A : AMat ℚ n) :
    run nl ir none A = .ok (embed (floyd (lenMat .none A))) := by
  rw [ir_of_ok ir hok]
  obtain ⟨E1, e1, hA, hL⟩ := arm_none nl A
  have := run_tail nl E1 A (lenMat .none A) hA hL (fun i j => by simp [lenMat, lenOf_isFin])
  simp only [run, refIR, refDispatch, pickArm, Cond.holds, Option.isNone_none, if_true, e1] at this ⊢
  exact this

/-- **Link, whole routine, `transform='inv'`.** -/
theorem link_floyd_inv (nl : ℚ → Ext) (ir : FloydIR) (hok : floydOk ir = true) (A : AMat ℚ n) :
    run nl ir (some "inv") A = .ok (embed (floyd (lenMat .inv A))) := by
  rw [ir_of_ok ir hok]
  obtain ⟨E1, e1, hA, hL⟩ := arm_inv nl A
  have := run_tail nl E1 A (lenMat .inv A) hA hL (fun i j => by simp [lenMat, lenOf_isFin])
  simp [run, refIR, refDispatch, pickArm, Cond.holds, e1] at this ⊢
  exact this

/-- **Link, whole routine, `transform='log'`**, relative to an oracle `nl` for `w ↦ -log w` that is finite exactly on
non-zero weights (IEEE: `-log 0 = ∞`): the routine is `Dist.floyd` of the matrix of oracle lengths.  (What `-log w` is
in floating point is outside every theorem; C03 / C12 are stated for arbitrary exact lengths.) -/
theorem link_floyd_log (nl : ℚ → Ext) (hnl : ∀ q, (nl q).isFin = (q != 0)) (ir : FloydIR) (hok : floydOk ir = true)
    (A : AMat ℚ n) :
    run nl ir (some "log") A = .ok (embed (floyd (AMat.ofFn fun i j => nl (A.get i j)))) := by
  rw [ir_of_ok ir hok]
  obtain ⟨E1, e1, hA, hL⟩ := arm_log nl A
  have := run_tail nl E1 A (AMat.ofFn fun i j => nl (A.get i j)) hA hL (fun i j => by simp [hnl])
  simp [run, refIR, refDispatch, pickArm, Cond.holds, e1] at this ⊢
  exact this

/-- **Link, whole routine, any other transform**: `ValueError`, nothing computed. -/
theorem link_floyd_other (nl : ℚ → Ext) (ir : FloydIR) (hok : floydOk ir = true) (A : AMat ℚ n) (t : String)
    (h1 : t ≠ "log") (h2 : t ≠ "inv") : run nl ir (some t) A = .error "ValueError" := by
  rw [ir_of_ok ir hok]
  simp [run, refIR, refDispatch, pickArm, Cond.holds, h1, h2]

/-! ### non-vacuity and sensitivity -/

example : floydOk refIR = true := by decide

/-- a wrong index (`hops[j, k]` for `hops[i, k]`) is rejected -/
example : floydOk { refIR with
    body := refIR.body.set 3 (.setMask "hops" (mSelf "path")
      (.add (.ref "hops" (.arr "j") (.var "k")) (.ref "hops" (.var "k") (.arr "j")))) } = false := by
  decide

/-- a dropped statement (`Pmat[path] = Pmat[i, k]`) is rejected -/
example : floydOk { refIR with body := refIR.body.eraseIdx 4 } = false := by decide

/-- the link theorem on a concrete matrix: 0 → 1 (2), 1 → 2 (3), 0 → 2 (7) -/
example : run (n := 3) (fun _ => .inf) refIR none (AMat.ofFn fun i j => if i.val + 1 = j.val then (i.val + 2 : ℚ) else if j.val = i.val + 2 then 7 else 0)
    = .ok (embed (floyd (lenMat .none (AMat.ofFn fun i j => if i.val + 1 = j.val then (i.val + 2 : ℚ) else if j.val = i.val + 2 then 7 else 0)))) :=
  link_floyd_none _ refIR (by decide) _

end Bct.Cores.Floyd
