import BctVerif.Model.CoreIRBin
import Mathlib.Tactic.Ring
import Mathlib.Data.List.Basic

/-!
# C03 (second tie) — link theorem for the source-extracted `distance_bin`
-/

namespace Bct.Cores.Bin
open Bct Bct.Dist Bct.CoreIR.Bin

variable {n : ℕ}

def numM (M : AMat ℕ n) : AMat V n := M.map V.num
def boolM (M : AMat Bool n) : AMat V n := M.map V.bool
/-- the argument as the interpreter sees it -/
def embA (A : AMat ℚ n) : AMat V n := A.map V.rat

@[simp] theorem map_get {α β : Type} (f : α → β) (A : AMat α n) (i j : Fin n) : (A.map f).get i j = f (A.get i j) := by
  simp [AMat.map]
@[simp] theorem numM_get (M : AMat ℕ n) (i j : Fin n) : (numM M).get i j = V.num (M.get i j) := by simp [numM]
@[simp] theorem boolM_get (M : AMat Bool n) (i j : Fin n) : (boolM M).get i j = V.bool (M.get i j) := by simp [boolM]

theorem sumProd_num (X Y : AMat ℕ n) (i j : Fin n) :
    sumProd (numM X) (numM Y) i j = V.num ((List.finRange n).foldl (fun acc k => acc + X.get i k * Y.get k j) 0) := by
  unfold sumProd
  generalize (0 : ℕ) = a
  induction (List.finRange n) generalizing a with
  | nil => rfl
  | cons k l ih =>
    have hs : V.add (V.num a) (V.mul ((numM X).get i k) ((numM Y).get k j)) = V.num (a + X.get i k * Y.get k j) := by
      simp [V.mul, V.add]
    simp only [List.foldl_cons]
    rw [hs]; exact ih _

@[simp] theorem bool_beq_true (b : Bool) : (V.bool b == V.bool true) = b := by cases b <;> decide

theorem anyTrueV_bool (L : AMat Bool n) : anyTrueV (boolM L) = some (anyTrue L) := by
  simp [anyTrueV, anyTrue]

/-- the environment holds the loop state of `Dist.binLoop` -/
def St (E : Env n) (G : AMat ℕ n) (k : ℕ) (nP D : AMat ℕ n) (L : AMat Bool n) : Prop :=
  E.mat "G" = some (numM G) ∧ E.sc "n" = some k ∧ E.mat "nPATH" = some (numM nP) ∧ E.mat "D" = some (numM D) ∧ E.mat "L" = some (boolM L)

theorem body_spec (E : Env n) (G : AMat ℕ n) (k : ℕ) (nP D : AMat ℕ n) (L : AMat Bool n) (h : St E G k nP D L) :
    ∃ E', execs refIR.body E = some E' ∧
      St E' G (k + 1) (boolMul nP G) (AMat.ofFn fun i j => D.get i j + (if L.get i j then k else 0))
        (AMat.ofFn fun i j => (boolMul nP G).get i j != 0 &&
          (AMat.ofFn fun i j => D.get i j + (if L.get i j then k else 0) : AMat ℕ n).get i j == 0) := by
  obtain ⟨hG, hk, hP, hD, hL⟩ := h
  refine ⟨?E', ?h1, ?h2⟩
  case h1 =>
    simp [refIR, execs, exec, hD, hk]
    rfl
  case h2 =>
    refine ⟨by simp [hG], by simp, ?_, ?_, ?_⟩
    · simp only [if_true, show ("nPATH" = "L") = False by decide, if_false, Option.some.injEq]
      apply AMat.ext_get; intro i j
      simp [eval, hP, hG, sumProd_num, V.ne0, V.toNum, boolMul]
    · simp only [show ("D" = "L") = False by decide, show ("D" = "nPATH") = False by decide, if_false, if_true, Option.some.injEq]
      apply AMat.ext_get; intro i j
      simp [eval, hL, hk, V.mul, V.add]
    · simp only [if_true, Option.some.injEq]
      apply AMat.ext_get; intro i j
      simp [eval, hP, hG, hL, hk, sumProd_num, V.ne0, V.eq0, V.toNum, V.mul, V.add, boolMul]

theorem loop_spec (G : AMat ℕ n) : ∀ (fuel : ℕ) (E : Env n) (k : ℕ) (nP D : AMat ℕ n) (L : AMat Bool n), St E G k nP D L →
    match binLoop G fuel k nP D L with
    | none => whileAny "L" refIR.body fuel E = none
    | some Dr => ∃ E', whileAny "L" refIR.body fuel E = some E' ∧ E'.mat "D" = some (numM Dr) := by
  intro fuel
  induction fuel with
  | zero => intro E k nP D L _; simp [binLoop, whileAny]
  | succ f ih =>
    intro E k nP D L h
    have hL := h.2.2.2.2
    simp only [binLoop, whileAny, hL, anyTrueV_bool]
    by_cases ha : anyTrue L = true
    · obtain ⟨E1, e1, s1⟩ := body_spec E G k nP D L h
      simp only [ha, if_true, e1]
      exact ih E1 _ _ _ _ s1
    · have ha' : anyTrue L = false := by simpa using ha
      simp only [ha', Bool.false_eq_true, if_false]
      exact ⟨E, rfl, h.2.2.2.1⟩

theorem pre_spec (A : AMat ℚ n) :
    ∃ E1, execs refIR.pre ({ mat := fun y => if y = "G" then some (embA A) else none, sc := fun _ => none } : Env n) = some E1 ∧
      St E1 (binarize A) 1 (binarize A) (AMat.ofFn fun i j => if i = j then 1 else 0) (AMat.ofFn fun i j => (binarize A).get i j != 0) := by
  refine ⟨?E1, ?h1, ?h2⟩
  case h1 =>
    simp [refIR, execs, exec]
    rfl
  case h2 =>
    have hcell : ∀ i j, V.bin ((embA A).get i j) = V.num ((binarize A).get i j) := by
      intro i j
      simp only [embA, map_get, V.bin, binarize, AMat.get_ofFn]
    refine ⟨?_, by simp, ?_, ?_, ?_⟩
    · simp only [show ("G" = "L") = False by decide, show ("G" = "nPATH") = False by decide, show ("G" = "D") = False by decide,
        if_false, if_true, Option.some.injEq]
      apply AMat.ext_get; intro i j
      simp [eval, hcell]
    · simp only [show ("nPATH" = "L") = False by decide, if_false, if_true, Option.some.injEq]
      apply AMat.ext_get; intro i j
      simp [eval, hcell]
    · simp only [show ("D" = "L") = False by decide, show ("D" = "nPATH") = False by decide, if_false, if_true, Option.some.injEq]
      apply AMat.ext_get; intro i j
      simp [eval]
    · simp only [if_true, Option.some.injEq]
      apply AMat.ext_get; intro i j
      simp [eval, hcell, V.ne0]

/-- **Link, `distance_bin`.**  If the generated obligation holds, the extracted routine, run with the model's fuel `n² + 2` for the
`while np.any(L)` loop, returns exactly `Dist.distBin A` (cell by cell, as distances) for every matrix of weights. -/
theorem link_distance_bin (ir : BinIR) (hok : binOk ir = true) (A : AMat ℚ n) :
    (run ir (n * n + 2) (embA A)).map (fun M => M.map V.toExt?) = (distBin A).map fun D => D.map some := by
  have hir : ir = refIR := by simpa [binOk] using hok
  subst hir
  obtain ⟨E1, e1, s1⟩ := pre_spec A
  have hl := loop_spec (binarize A) (n * n + 2) E1 _ _ _ _ s1
  have e1' : execs refIR.pre ({ mat := fun y => if y = refIR.param then some (embA A) else none, sc := fun _ => none } : Env n) = some E1 := e1
  simp only [run, e1', show refIR.cond = "L" from rfl, distBin, binRaw]
  cases hb : binLoop (binarize A) (n * n + 2) 1 (binarize A) (AMat.ofFn fun i j => if i = j then 1 else 0)
      (AMat.ofFn fun i j => (binarize A).get i j != 0) with
  | none => rw [hb] at hl; simp only [hl, Option.map_none]
  | some Dr =>
    rw [hb] at hl
    obtain ⟨E2, e2, hD⟩ := hl
    simp only [e2, Option.map_some]
    simp [refIR, execs, exec, hD]
    apply AMat.ext_get; intro i j
    simp only [map_get, AMat.get_ofFn, eval, hD, numM_get, V.eq0]
    by_cases hij : i = j
    · simp [hij, V.toExt?]
    · by_cases h0 : Dr.get i j = 0
      · simp [hij, h0, V.toExt?]
      · have hb0 : (Dr.get i j == 0) = false := by simpa using h0
        simp [hij, h0, hb0, V.toExt?]

example : binOk refIR = true := by decide
/-- `D += L` (forgetting the path length) is rejected -/
example : binOk { refIR with body := refIR.body.set 0 (.augAdd "D" (.ref "L")) } = false := by decide
/-- `np.dot(G, G)` for `np.dot(nPATH, G)` is rejected -/
example : binOk { refIR with body := refIR.body.set 2 (.bind "nPATH" (.toNum (.ne0 (.dot "G" "G")))) } = false := by decide

end Bct.Cores.Bin
