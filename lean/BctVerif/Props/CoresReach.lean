import BctVerif.Model.CoreIRReach
import Mathlib.Tactic.Ring
import Mathlib.Data.List.Basic

/-!
# C03 (second tie) — link theorem for the source-extracted `reachdist`
-/

namespace Bct.Cores.Reach
open Bct Bct.Dist Bct.CoreIR.Reach

variable {n : ℕ}

def numM (M : AMat ℕ n) : AMat V n := M.map V.num
def boolM (M : AMat Bool n) : AMat V n := M.map V.bool
def embA (A : AMat ℚ n) : AMat V n := A.map V.rat

@[simp] theorem map_get {α β : Type} (f : α → β) (A : AMat α n) (i j : Fin n) : (A.map f).get i j = f (A.get i j) := by
  simp [AMat.map]
@[simp] theorem numM_get (M : AMat ℕ n) (i j : Fin n) : (numM M).get i j = V.num (M.get i j) := by simp [numM]
@[simp] theorem boolM_get (M : AMat Bool n) (i j : Fin n) : (boolM M).get i j = V.bool (M.get i j) := by simp [boolM]

theorem sumProd_num (X Y : AMat ℕ n) (i j : Fin n) :
    sumProd (numM X) (numM Y) i j = V.num ((List.finRange n).foldl (fun acc k => acc + X.get i k * Y.get k j) 0) := by
  unfold sumProd
  generalize (0 : ℕ) = a
  induction (List.finRange n) generalizing a with
  | nil => rfl
  | cons k l ih =>
    have hs : V.add (V.num a) (V.mul ((numM X).get i k) ((numM Y).get k j)) = V.num (a + X.get i k * Y.get k j) := by
      simp [V.mul, V.add]
    simp only [List.foldl_cons]
    rw [hs]; exact ih _

@[simp] theorem truth_num (k : ℕ) : (V.num k).truth = some (k != 0) := rfl
@[simp] theorem truth_bool (b : Bool) : (V.bool b).truth = some b := rfl

/-- the argument list of a call of `reachdist2` that holds the model state `s` at level `powr` -/
def Args (C : AMat ℕ n) (rows cols : List (Fin n)) (s : RSt n) (powr : ℕ) (Rm : AMat V n) : List (Obj n) :=
  [.mat (numM C), .mat (numM s.Cp), .mat Rm, .mat (numM s.D), .nat n, .nat powr, .idx cols, .idx rows]

/-- the three statements at the head of `reachdist2` are `Dist.reachStep` -/
theorem step_spec (C : AMat ℕ n) (rows cols : List (Fin n)) (s : RSt n) (powr : ℕ) (Rm : AMat V n)
    (hR : ∀ i j, (Rm.get i j).truth = some (s.R.get i j)) :
    ∃ E1 E0, bindAll (fun _ => none) refRec.params (Args C rows cols s powr Rm) = some E0 ∧
      execs1 refRec.step E0 = some E1 ∧
      E1 "CIJ" = some (.mat (numM C)) ∧ E1 "CIJpwr" = some (.mat (numM (reachStep C s).Cp)) ∧
      E1 "R" = some (.mat (boolM (reachStep C s).R)) ∧ E1 "D" = some (.mat (numM (reachStep C s).D)) ∧
      E1 "n" = some (.nat n) ∧ E1 "powr" = some (.nat powr) ∧ E1 "col" = some (.idx cols) ∧ E1 "row" = some (.idx rows) := by
  refine ⟨?E1, ?E0, ?a0, ?a1, ?a2, ?a3, ?a4, ?a5, ?a6, ?a7, ?a8, ?a9⟩
  case a0 => simp [refRec, Args, bindAll]; rfl
  case a1 => simp [refRec, execs1, exec1, Env.set]; rfl
  case a2 => simp [Env.set]
  case a3 =>
    simp only [Env.set, show ("CIJpwr" = "D") = False by decide, show ("CIJpwr" = "R") = False by decide, if_false, if_true,
      Option.some.injEq, Obj.mat.injEq]
    apply AMat.ext_get; intro i j
    simp [eval, Env.set, sumProd_num, V.ne0, V.toNum, reachStep, boolMul]
  case a4 =>
    simp only [Env.set, show ("R" = "D") = False by decide, if_false, if_true, Option.some.injEq, Obj.mat.injEq]
    apply AMat.ext_get; intro i j
    simp [eval, Env.set, sumProd_num, V.ne0, V.toNum, V.lor, hR, reachStep, boolMul]
  case a5 =>
    simp only [Env.set, if_true, Option.some.injEq, Obj.mat.injEq]
    apply AMat.ext_get; intro i j
    simp [eval, Env.set, sumProd_num, V.ne0, V.toNum, V.lor, V.addTo, hR, reachStep, boolMul]
  all_goals simp [Env.set]

theorem anyZero_bool (R : AMat Bool n) (rows cols : List (Fin n)) :
    anyZero (boolM R) rows cols = some (rows.any fun i => cols.any fun j => !(R.get i j)) := by
  simp only [anyZero, boolM_get, truth_bool, Option.isSome_some, List.all_eq_true, implies_true, if_true, Option.some.injEq]
  congr 1; funext i; congr 1; funext j
  cases R.get i j <;> decide

/-- the recursion of `reachdist2` is `Dist.reachGo` (with enough fuel for the remaining levels) -/
theorem rec_spec (C : AMat ℕ n) (rows cols : List (Fin n)) :
    ∀ (rem fuel powr : ℕ) (s : RSt n) (Rm : AMat V n), rem + 1 ≤ fuel → rem = n + 1 - powr →
      (∀ i j, (Rm.get i j).truth = some (s.R.get i j)) →
      callRec refRec fuel (Args C rows cols s powr Rm) =
        some [.mat (boolM (reachGo C rows cols rem powr s).1.R), .mat (numM (reachGo C rows cols rem powr s).1.D),
              .nat (reachGo C rows cols rem powr s).2] := by
  intro rem
  induction rem with
  | zero =>
    intro fuel powr s Rm hf hrem hR
    obtain ⟨f, rfl⟩ : ∃ f, fuel = f + 1 := ⟨fuel - 1, by omega⟩
    obtain ⟨E1, E0, e0, e1, h1, h2, h3, h4, h5, h6, h7, h8⟩ := step_spec C rows cols s powr Rm hR
    have hp : ¬ powr ≤ n := by omega
    simp only [callRec, e0, e1, show refRec.pw = "powr" from rfl, show refRec.nn = "n" from rfl, show refRec.tm = "R" from rfl,
      show refRec.tr = "row" from rfl, show refRec.tc = "col" from rfl, h3, h5, h6, h7, h8, hp, if_false,
      show refRec.ret = ["R", "D", "powr"] from rfl, readAll, h4, reachGo]
  | succ k ih =>
    intro fuel powr s Rm hf hrem hR
    obtain ⟨f, rfl⟩ : ∃ f, fuel = f + 1 := ⟨fuel - 1, by omega⟩
    obtain ⟨E1, E0, e0, e1, h1, h2, h3, h4, h5, h6, h7, h8⟩ := step_spec C rows cols s powr Rm hR
    have hp : powr ≤ n := by omega
    simp only [callRec, e0, e1, show refRec.pw = "powr" from rfl, show refRec.nn = "n" from rfl, show refRec.tm = "R" from rfl,
      show refRec.tr = "row" from rfl, show refRec.tc = "col" from rfl, h3, h5, h6, h7, h8, hp, if_true, anyZero_bool, reachGo]
    by_cases ht : (rows.any fun i => cols.any fun j => !((reachStep C s).R.get i j)) = true
    · simp only [ht, if_true, exec1, show refRec.incrVar = "powr" from rfl, show refRec.incrBy = 1 from rfl, h6,
        show refRec.callee = refRec.name from rfl]
      have hargs : readAll (E1.set "powr" (.nat (powr + 1))) refRec.callArgs
          = some (Args C rows cols (reachStep C s) (powr + 1) (boolM (reachStep C s).R)) := by
        simp [refRec, readAll, Env.set, h1, h2, h3, h4, h5, h7, h8, Args]
      have := ih f (powr + 1) (reachStep C s) (boolM (reachStep C s).R) (by omega) (by omega) (fun i j => by simp)
      simp only [hargs, this]
      simp [refRec, bindAll, readAll, Env.set]
    · have ht' : (rows.any fun i => cols.any fun j => !((reachStep C s).R.get i j)) = false := by simpa using ht
      simp only [ht', Bool.false_eq_true, if_false, show refRec.ret = ["R", "D", "powr"] from rfl, readAll, h3, h4, h6]

/-! ### prologue, call, epilogue -/

theorem get_eq {α : Type} (o : Option α) (h : o.isSome = true) (a : α) (e : o = some a) : o.get h = a := by
  subst e; rfl

theorem foldl_sum (f : Fin n → ℕ) (g : Fin n → V) (hg : ∀ w, g w = V.num (f w)) (l : List (Fin n)) (a : ℕ) :
    l.foldl (fun acc w => match acc, g w with
      | some a, .num k => some (a + k)
      | _, _ => none) (some a) = some (l.foldl (fun a w => a + f w) a) := by
  induction l generalizing a with
  | nil => rfl
  | cons w l ih =>
    simp only [List.foldl_cons]
    have : (match some a, g w with
      | some a, V.num k => some (a + k)
      | _, _ => none) = some (a + f w) := by rw [hg]
    rw [this]; exact ih _

theorem colSum_num (C : AMat ℕ n) (v : Fin n) : colOrRowSum (numM C) 0 v = some (inDeg C v) := by
  unfold colOrRowSum inDeg
  exact foldl_sum (fun w => C.get w v) _ (fun w => by simp) _ 0

theorem rowSum_num (C : AMat ℕ n) (v : Fin n) : colOrRowSum (numM C) 1 v = some (outDeg C v) := by
  unfold colOrRowSum outDeg
  exact foldl_sum (fun w => C.get v w) _ (fun w => by simp) _ 0

theorem sumAxis0_spec (E : Env n) (x m : String) (C : AMat ℕ n) (hm : E m = some (.mat (numM C))) :
    exec1 E (.sumAxis x m 0) = some (E.set x (.vec (Vector.ofFn fun v => inDeg C v))) := by
  have h : ∀ v : Fin n, (colOrRowSum (numM C) 0 v).isSome = true := fun v => by rw [colSum_num]; rfl
  simp only [exec1, hm, Nat.zero_le, if_true, dif_pos h]
  congr 3
  congr 1
  funext v
  exact get_eq _ _ _ (colSum_num C v)

theorem sumAxis1_spec (E : Env n) (x m : String) (C : AMat ℕ n) (hm : E m = some (.mat (numM C))) :
    exec1 E (.sumAxis x m 1) = some (E.set x (.vec (Vector.ofFn fun v => outDeg C v))) := by
  have h : ∀ v : Fin n, (colOrRowSum (numM C) 1 v).isSome = true := fun v => by rw [rowSum_num]; rfl
  simp only [exec1, hm, Nat.le_refl, if_true, dif_pos h]
  congr 3
  congr 1
  funext v
  exact get_eq _ _ _ (rowSum_num C v)

/-- `np.delete(list(range(n)), z)` keeps the nodes that are not in `z` -/
theorem delete_range (del : List (Fin n)) :
    (((List.finRange n).zipIdx.filter fun p => !(del.any fun d => d.val == p.2)).map fun p => p.1)
      = (List.finRange n).filter fun j => !(del.contains j) := by
  have hz : (List.finRange n).zipIdx = (List.finRange n).map fun j => (j, j.val) := by
    apply List.ext_getElem
    · simp
    · intro i h1 h2
      simp [List.getElem_zipIdx]
  rw [hz, List.filter_map, List.map_map]
  simp only [Function.comp_def, List.map_id']
  congr 1
  funext j
  simp only [Function.comp, Bool.not_eq_eq_eq_not, Bool.not_not]
  congr 1
  rw [Bool.eq_iff_iff]
  simp only [List.any_eq_true, beq_iff_eq, List.contains_iff_mem]
  constructor
  · rintro ⟨d, hd, e⟩; rwa [← Fin.ext e]
  · intro h; exact ⟨j, h, rfl⟩

theorem delete_range_any (P : Fin n → Bool) :
    (((List.finRange n).zipIdx.filter fun p => !((List.finRange n).any fun a => P a && a.val == p.2)).map fun p => p.1)
      = (List.finRange n).filter fun j => !(P j) := by
  have h := delete_range ((List.finRange n).filter P)
  simp only [List.any_filter] at h
  rw [h]
  apply List.filter_congr; intro j _
  congr 1
  rw [Bool.eq_iff_iff]
  simp [List.mem_filter]

theorem execs_append (r : RecIR) (fuel : ℕ) (a b : List Stmt) (E : Env n) :
    execs r fuel (a ++ b) E = match execs r fuel a E with
      | some E' => execs r fuel b E'
      | none => none := by
  induction a generalizing E with
  | nil => rfl
  | cons s a ih =>
    simp only [List.cons_append, execs]
    cases exec r fuel E s with
    | none => rfl
    | some E' => exact ih E'

theorem execs_single (r : RecIR) (fuel : ℕ) (s : Stmt) (E : Env n) : execs r fuel [s] E = exec r fuel E s := by
  simp only [execs]; cases exec r fuel E s <;> rfl

/-- the distance a result cell holds -/
def toExt? : V → Option Ext
  | .int z => some (.fin ((z : ℤ) : ℚ))
  | .inf => some .inf
  | _ => none

theorem refBody_split : refIR.body =
    [ Stmt.bindIf "ensure_binary" "CIJ" (.binarize (.ref "CIJ")),
      .bind "R" (.ref "CIJ"), .bind "D" (.ref "CIJ"), .setNat "powr" 2, .len "n" "CIJ", .bind "CIJpwr" (.ref "CIJ") ] ++
    ([ Stmt.sumAxis "id" "CIJ" 0 ] ++ ([ Stmt.sumAxis "od" "CIJ" 1 ] ++
    ([ Stmt.whereEq0 "id0" "id", .whereEq0 "od0" "od", .rangeList "col" "n", .delete "col" "col" "id0", .rangeList "row" "n",
       .delete "row" "row" "od0" ] ++
    ([ Stmt.call ["R", "D", "powr"] "reachdist2" ["CIJ", "CIJpwr", "R", "D", "n", "powr", "col", "row"] ] ++
     [ Stmt.bind "D" (.affine "powr" (.ref "D") 1), .infWhereEq "D" "n" 2, .infCols "D" "id0", .infRows "D" "od0" ])))) := rfl

/-- **Link, `reachdist`** (`ensure_binary=True`).  If the generated obligation holds, the extracted routine — prologue, the
recursive helper `reachdist2` run in a fresh environment per call, epilogue — with fuel for `n` nested calls returns exactly
`Dist.reachdist A`: the reachability matrix, and cell by cell the distance matrix. -/
theorem link_reachdist (ir : ReachIR) (hok : reachOk ir = true) (fuel : ℕ) (hf : n + 1 ≤ fuel) (A : AMat ℚ n) :
    ∃ Dm, run ir fuel (embA A) true = some [.mat (boolM (reachdist A).1), .mat Dm] ∧
      ∀ i j, toExt? (Dm.get i j) = some ((reachdist A).2.get i j) := by
  have hir : ir = refIR := by simpa [reachOk] using hok
  subst hir
  -- names of the model
  set C := binarize A with hC
  set cols := (List.finRange n).filter fun j => inDeg C j != 0 with hcols
  set rows := (List.finRange n).filter fun i => outDeg C i != 0 with hrows
  have hbin : (AMat.ofFn fun i j => V.bin ((embA A).get i j)) = numM C := by
    apply AMat.ext_get; intro i j
    simp only [AMat.get_ofFn, embA, map_get, V.bin, numM_get, hC, binarize]
  -- first six statements
  obtain ⟨Ea, ea, a1, a2, a3, a4, a5, a6⟩ : ∃ Ea, execs refRec fuel
      [ Stmt.bindIf "ensure_binary" "CIJ" (.binarize (.ref "CIJ")),
        .bind "R" (.ref "CIJ"), .bind "D" (.ref "CIJ"), .setNat "powr" 2, .len "n" "CIJ", .bind "CIJpwr" (.ref "CIJ") ]
      ((Env.set (fun _ => none) "CIJ" (.mat (embA A))).set "ensure_binary" (.flag true)) = some Ea ∧
      Ea "CIJ" = some (.mat (numM C)) ∧ Ea "R" = some (.mat (numM C)) ∧ Ea "D" = some (.mat (numM C)) ∧
      Ea "powr" = some (.nat 2) ∧ Ea "n" = some (.nat n) ∧ Ea "CIJpwr" = some (.mat (numM C)) := by
    refine ⟨?Ea, ?e, ?b1, ?b2, ?b3, ?b4, ?b5, ?b6⟩
    case e => simp [execs, exec, exec1, Env.set, eval]; rfl
    all_goals simp [Env.set, hbin]
  -- in- and out-degrees
  have eb1 := sumAxis0_spec Ea "id" "CIJ" C a1
  have eb2 := sumAxis1_spec (Ea.set "id" (.vec (Vector.ofFn fun v => inDeg C v))) "od" "CIJ" C (by simp [Env.set, a1])
  -- id0, od0, col, row
  obtain ⟨Ec, ec, c1, c2, c3, c4, c5, c6, c7, c8, c9, c10⟩ : ∃ Ec, execs refRec fuel
      [ Stmt.whereEq0 "id0" "id", .whereEq0 "od0" "od", .rangeList "col" "n", .delete "col" "col" "id0", .rangeList "row" "n",
        .delete "row" "row" "od0" ]
      ((Ea.set "id" (.vec (Vector.ofFn fun v => inDeg C v))).set "od" (.vec (Vector.ofFn fun v => outDeg C v))) = some Ec ∧
      Ec "CIJ" = some (.mat (numM C)) ∧ Ec "R" = some (.mat (numM C)) ∧ Ec "D" = some (.mat (numM C)) ∧
      Ec "powr" = some (.nat 2) ∧ Ec "n" = some (.nat n) ∧ Ec "CIJpwr" = some (.mat (numM C)) ∧
      Ec "col" = some (.idx cols) ∧ Ec "row" = some (.idx rows) ∧
      Ec "id0" = some (.idx ((List.finRange n).filter fun w => inDeg C w == 0)) ∧
      Ec "od0" = some (.idx ((List.finRange n).filter fun w => outDeg C w == 0)) := by
    refine ⟨?Ec, ?f0, ?d1, ?d2, ?d3, ?d4, ?d5, ?d6, ?d7, ?d8, ?d9, ?d10⟩
    case f0 => simp [execs, exec, exec1, Env.set, a5]; rfl
    case d7 =>
      simp only [Env.set, show ("col" = "row") = False by decide, if_false, if_true, Option.some.injEq, Obj.idx.injEq]
      rw [delete_range_any (fun a => inDeg C a == 0)]
      apply List.filter_congr; intro j _; simp [bne]
    case d8 =>
      simp only [Env.set, if_true, Option.some.injEq, Obj.idx.injEq]
      rw [delete_range_any (fun a => outDeg C a == 0)]
      apply List.filter_congr; intro j _; simp [bne]
    all_goals simp [Env.set, a1, a2, a3, a4, a5, a6]
  -- the call of `reachdist2`
  set s0 : RSt n := { Cp := C, R := AMat.ofFn fun i j => C.get i j != 0, D := C } with hs0
  have hargs : readAll Ec ["CIJ", "CIJpwr", "R", "D", "n", "powr", "col", "row"] = some (Args C rows cols s0 2 (numM C)) := by
    simp [readAll, c1, c2, c3, c4, c5, c6, c7, c8, Args, hs0]
  have hrec := rec_spec C rows cols (n - 1) fuel 2 s0 (numM C) (by omega) (by omega) (fun i j => by simp [hs0])
  set r := reachGo C rows cols (n - 1) 2 s0 with hr
  have ed : execs refRec fuel [ Stmt.call ["R", "D", "powr"] "reachdist2" ["CIJ", "CIJpwr", "R", "D", "n", "powr", "col", "row"] ] Ec
      = some (((Ec.set "R" (.mat (boolM r.1.R))).set "D" (.mat (numM r.1.D))).set "powr" (.nat r.2)) := by
    simp only [execs, exec, show refRec.name = "reachdist2" from rfl, if_true, hargs, hrec, bindAll]
  -- assemble
  refine ⟨?Dm, ?g1, ?g2⟩
  case g1 =>
    have x1 : exec refRec fuel Ea (.sumAxis "id" "CIJ" 0) = exec1 Ea (.sumAxis "id" "CIJ" 0) := rfl
    have x2 : exec refRec fuel (Ea.set "id" (.vec (Vector.ofFn fun v => inDeg C v))) (.sumAxis "od" "CIJ" 1)
        = exec1 (Ea.set "id" (.vec (Vector.ofFn fun v => inDeg C v))) (.sumAxis "od" "CIJ" 1) := rfl
    simp only [run, show refIR.params = ["CIJ", "ensure_binary"] from rfl, bindAll, show refIR.inner = refRec from rfl, refBody_split,
      execs_append, ea, execs_single, x1, eb1, x2, eb2, ec, ed]
    simp [execs, exec, exec1, Env.set, eval, c5, c9, c10, readAll, show refIR.ret = ["R", "D"] from rfl, reachdist, ← hC, ← hcols, ← hrows,
      ← hs0, ← hr]
    rfl
  case g2 =>
    intro i j
    simp only [AMat.get_ofFn, numM_get, reachdist, ← hC, ← hcols, ← hrows, ← hs0, ← hr, reachOutCell]
    by_cases ho : outDeg C i = 0 <;> by_cases hi : inDeg C j = 0 <;>
      simp [ho, hi, toExt?, List.mem_filter]
    by_cases hz : (r.2 : ℤ) - (r.1.D.get i j : ℤ) + 1 = (n : ℤ) + 2
    · simp [hz]
    · simp [hz]

example : reachOk refIR = true := by decide

end Bct.Cores.Reach
