import BctVerif.Model.CoreIRChar
import Mathlib.Tactic.Ring
import Mathlib.Tactic.Push
import Mathlib.Data.List.Basic
import Mathlib.Data.Rat.Defs
import Mathlib.Algebra.Order.Field.Rat

/-!
# C03 (second tie) — link theorem for the source-extracted `charpath`
-/

namespace Bct.Cores.Char
open Bct Bct.Dist Bct.CoreIR.Char

variable {n : ℕ}

/-- the argument as the interpreter sees it -/
def embD (D : AMat Ext n) : AMat C n := AMat.ofFn fun i j => C.ext (D.get i j)
/-- a mean of the model: `none` is `nan` -/
def optC : Option Ext → C
  | some e => .ext e
  | none => .nan

/-- the cells `charpath` leaves unmasked -/
def keep (D : AMat Ext n) (a b : Bool) (i j : Fin n) : Bool := (a || decide (i ≠ j)) && (b || (D.get i j).isFin)

/-- `D` after `D = D.copy()` and the two conditional stores of `nan` -/
def masked (D : AMat Ext n) (a b : Bool) : AMat C n := AMat.ofFn fun i j => if keep D a b i j then C.ext (D.get i j) else C.nan

theorem mapM_ext (xs : List Ext) : (xs.map C.ext).mapM C.toExt? = some xs := by
  induction xs with
  | nil => rfl
  | cons x xs ih => simp [List.mapM_cons, ih, C.toExt?]

theorem meanC_spec (xs : List Ext) : meanC (xs.map C.ext) = optC (meanExt xs) := by
  unfold meanC meanExt
  rw [mapM_ext]
  cases xs with
  | nil => rfl
  | cons x xs =>
    simp only [List.isEmpty_cons, Bool.false_eq_true, if_false, sumExt]
    cases List.foldl (· + ·) (Ext.fin 0) (x :: xs) <;> rfl

theorem filter_map_filter {α β : Type} (l : List α) (p : α → Bool) (f : α → β) (q : β → Bool) :
    ((l.filter p).map f).filter q = (l.filter fun x => p x && q (f x)).map f := by
  induction l with
  | nil => rfl
  | cons x l ih =>
    by_cases hp : p x = true
    · by_cases hq : q (f x) = true
      · simp [hp, hq, ih]
      · have hq' : q (f x) = false := by simpa using hq
        simp [hp, hq', ih]
    · have hp' : p x = false := by simpa using hp
      simp [hp', ih]

/-- the values `charpath` averages -/
theorem vals_spec (D : AMat Ext n) (a b : Bool) :
    (((if a then cells n else offDiag n).map fun p => D.get p.1 p.2).filter fun x => b || x.isFin)
      = ((cells n).filter fun p => keep D a b p.1 p.2).map fun p => D.get p.1 p.2 := by
  cases a
  · simp only [Bool.false_eq_true, if_false, offDiag, filter_map_filter, keep, Bool.false_or]
  · simp only [if_true, keep, Bool.true_or, Bool.true_and]
    have := filter_map_filter (cells n) (fun _ => true) (fun p => D.get p.1 p.2) (fun x => b || x.isFin)
    simpa using this

theorem masked_get (D : AMat Ext n) (a b : Bool) (i j : Fin n) :
    (masked D a b).get i j = if keep D a b i j then C.ext (D.get i j) else C.nan := by simp [masked]
@[simp] theorem embD_get (D : AMat Ext n) (i j : Fin n) : (embD D).get i j = C.ext (D.get i j) := by simp [embD]

theorem isnan_masked (D : AMat Ext n) (a b : Bool) (i j : Fin n) :
    C.isnan ((masked D a b).get i j) = .bool (!keep D a b i j) := by
  rw [masked_get]; cases keep D a b i j <;> rfl
@[simp] theorem lnot_bool (b : Bool) : C.lnot (.bool b) = .bool (!b) := rfl
@[simp] theorem isBoolC_bool (b : Bool) : isBoolC (.bool b) = true := rfl
@[simp] theorem bool_beq_true (b : Bool) : (C.bool b == C.bool true) = b := by cases b <;> decide

theorem execs_append (s t : List Stmt) (E : Env n) :
    execs (s ++ t) E = match execs s E with
      | some E' => execs t E'
      | none => none := by
  induction s generalizing E with
  | nil => rfl
  | cons x s ih =>
    simp only [List.cons_append, execs]
    cases exec E x with
    | none => rfl
    | some E1 => exact ih E1

set_option linter.unusedSimpArgs false in
set_option linter.unusedTactic false in
set_option linter.unreachableTactic false in
/-- `D = D.copy()` and the two conditional stores -/
theorem pre_spec (D : AMat Ext n) (a b : Bool) (fl : String → Option Bool) (ha : fl "include_diagonal" = some a)
    (hb : fl "include_infinite" = some b) :
    ∃ E1, execs (refIR.body.take 3) ({ val := fun y => if y = "D" then some (.mat (embD D)) else none, flag := fl } : Env n) = some E1 ∧
      E1.val "D" = some (.mat (masked D a b)) := by
  cases a with
  | false =>
    cases b with
    | false =>
      refine ⟨?E0, ?h1_0, ?h2_0⟩
      case h1_0 =>
        simp [refIR, execs, exec, execSimples, execSimple, eval, mapCells, ha, hb]
        rfl
      case h2_0 =>
        simp only [if_true, Option.some.injEq, Val.mat.injEq]
        apply AMat.ext_get; intro i j
        by_cases hij : i = j
        · cases hf : (D.get i j).isFin <;> simp [masked_get, keep, storeCell, C.isinf, hij, hf] <;> simp_all
        · cases hf : (D.get i j).isFin <;> simp [masked_get, keep, storeCell, C.isinf, hij, hf]
    | true =>
      refine ⟨?E1, ?h1_1, ?h2_1⟩
      case h1_1 =>
        simp [refIR, execs, exec, execSimples, execSimple, eval, mapCells, ha, hb]
        rfl
      case h2_1 =>
        simp only [if_true, Option.some.injEq, Val.mat.injEq]
        apply AMat.ext_get; intro i j
        by_cases hij : i = j
        · cases hf : (D.get i j).isFin <;> simp [masked_get, keep, storeCell, C.isinf, hij, hf] <;> simp_all
        · cases hf : (D.get i j).isFin <;> simp [masked_get, keep, storeCell, C.isinf, hij, hf]
  | true =>
    cases b with
    | false =>
      refine ⟨?E2, ?h1_2, ?h2_2⟩
      case h1_2 =>
        simp [refIR, execs, exec, execSimples, execSimple, eval, mapCells, ha, hb]
        rfl
      case h2_2 =>
        simp only [if_true, Option.some.injEq, Val.mat.injEq]
        apply AMat.ext_get; intro i j
        by_cases hij : i = j
        · cases hf : (D.get i j).isFin <;> simp [masked_get, keep, storeCell, C.isinf, hij, hf] <;> simp_all
        · cases hf : (D.get i j).isFin <;> simp [masked_get, keep, storeCell, C.isinf, hij, hf]
    | true =>
      refine ⟨?E3, ?h1_3, ?h2_3⟩
      case h1_3 =>
        simp [refIR, execs, exec, execSimples, execSimple, eval, mapCells, ha, hb]
        rfl
      case h2_3 =>
        simp only [if_true, Option.some.injEq, Val.mat.injEq]
        apply AMat.ext_get; intro i j
        by_cases hij : i = j
        · cases hf : (D.get i j).isFin <;> simp [masked_get, keep, storeCell, C.isinf, hij, hf] <;> simp_all
        · cases hf : (D.get i j).isFin <;> simp [masked_get, keep, storeCell, C.isinf, hij, hf]

/-- the values `charpath` averages, in row-major order -/
def valsK (D : AMat Ext n) (a b : Bool) : List Ext := ((cells n).filter fun p => keep D a b p.1 p.2).map fun p => D.get p.1 p.2

theorem charpath_eq (D : AMat Ext n) (a b : Bool) :
    charpath D a b = (meanExt (valsK D a b), meanExt ((valsK D a b).map Ext.inv)) := by
  simp only [charpath, vals_spec, valsK]

theorem sel_map (D : AMat Ext n) (a b : Bool) :
    ((cells n).filter fun p => keep D a b p.1 p.2).map (fun p => (masked D a b).get p.1 p.2) = (valsK D a b).map C.ext := by
  rw [valsK, List.map_map]
  apply List.map_congr_left; intro p hp
  have := (List.mem_filter.mp hp).2
  simp [masked_get, this]

theorem div_one (e : Ext) : C.div (.ext (.fin 1)) (.ext e) = .ext e.inv := by simp [C.div]

theorem inv_map (xs : List Ext) :
    (xs.map C.ext).map (fun y => C.div (.ext (.fin 1)) y) = (xs.map Ext.inv).map C.ext := by
  simp only [List.map_map]
  apply List.map_congr_left; intro e _; simp [div_one]

theorem meanC_inv (xs : List Ext) :
    meanC (List.map ((fun y => (C.ext (Ext.fin 1)).div y) ∘ C.ext) xs) = optC (meanExt (xs.map Ext.inv)) := by
  have : List.map ((fun y => (C.ext (Ext.fin 1)).div y) ∘ C.ext) xs = (xs.map Ext.inv).map C.ext := by
    rw [← inv_map, List.map_map]
  rw [this, meanC_spec]

theorem eval_ref (E : Env n) (x : String) : eval E (.ref x) = (match E.val x with | some v => v | none => .err) := rfl
theorem eval_npMin (E : Env n) (a : Ex) : eval E (.npMin a) = (match eval E a with
    | .vec v => .sc (reduceC Ext.min ((List.finRange n).map fun i => v[i]))
    | _ => .err) := rfl
theorem eval_npMax (E : Env n) (a : Ex) : eval E (.npMax a) = (match eval E a with
    | .vec v => .sc (reduceC Ext.max ((List.finRange n).map fun i => v[i]))
    | _ => .err) := rfl

theorem row_cell (D : AMat Ext n) (a b : Bool) (i j : Fin n) :
    maskedCell (C.isnan ((masked D a b).get i j)) ((masked D a b).get i j)
      = if keep D a b i j then C.ext (D.get i j) else C.masked := by
  rw [isnan_masked, masked_get]; cases keep D a b i j <;> rfl

theorem filter_unmasked {α : Type} (l : List α) (k : α → Bool) (f : α → Ext) :
    (l.map fun j => if k j then C.ext (f j) else C.masked).filter (fun c => c != C.masked) = ((l.filter k).map f).map C.ext := by
  induction l with
  | nil => rfl
  | cons x l ih =>
    by_cases hk : k x = true
    · simp [hk, ih]
    · have hk' : k x = false := by simpa using hk
      simp [hk', ih]

theorem eccCells_eq (D : AMat Ext n) (a b : Bool) (i : Fin n) :
    eccCells D a b i = ((List.finRange n).filter fun j => keep D a b i j).map fun j => D.get i j := by
  simp only [eccCells, filter_map_filter, keep]

theorem rowMax_spec (D : AMat Ext n) (a b : Bool) (i : Fin n) :
    rowMax ((List.finRange n).map fun j => if keep D a b i j then C.ext (D.get i j) else C.masked)
      = match eccCells D a b i with
        | [] => C.masked
        | x :: xs => C.ext (xs.foldl Ext.max x) := by
  unfold rowMax
  rw [filter_unmasked, mapM_ext, ← eccCells_eq]
  cases eccCells D a b i <;> rfl

theorem ecc_cell (D : AMat Ext n) (a b : Bool) (i : Fin n) :
    (if (match eccCells D a b i with
          | [] => C.masked
          | x :: xs => C.ext (xs.foldl Ext.max x)) = C.masked then C.ext maskedFill
      else (match eccCells D a b i with
          | [] => C.masked
          | x :: xs => C.ext (xs.foldl Ext.max x))) = C.ext (eccOf D a b i) := by
  unfold eccOf
  cases eccCells D a b i <;> simp

/-- the value of `np.min(ecc)` / `np.max(ecc)`: an error for an empty vector (NumPy raises) -/
def rd (o : Option (Ext × Ext)) (f : Ext × Ext → Ext) : C :=
  match o with
  | some p => .ext (f p)
  | none => .err

theorem reduce_spec (f : Ext → Ext → Ext) (xs : List Ext) :
    reduceC f (xs.map C.ext) = match xs with
      | [] => C.err
      | x :: xs => C.ext (xs.foldl f x) := by
  unfold reduceC
  rw [mapM_ext]
  cases xs <;> rfl

theorem tail_spec (D : AMat Ext n) (a b : Bool) (E : Env n) (hD : E.val "D" = some (.mat (masked D a b))) :
    ∃ E', execs (refIR.body.drop 3) E = some E' ∧
      E'.val "lambda_" = some (.sc (optC (charpath D a b).1)) ∧
      E'.val "efficiency" = some (.sc (optC (charpath D a b).2)) ∧
      E'.val "ecc" = some (.vec (Vector.ofFn fun i => .ext (eccOf D a b i))) ∧
      E'.val "radius" = some (.sc (rd (radiusDiameter D a b) Prod.fst)) ∧
      E'.val "diameter" = some (.sc (rd (radiusDiameter D a b) Prod.snd)) := by
  have hecc : ∀ (E2 : Env n), E2.val "D" = some (.mat (masked D a b)) →
      eval E2 (.npArray (.maxAxis (.maskedWhere (.isnan (.ref "D")) (.ref "D")) 1)) = .vec (Vector.ofFn fun i => .ext (eccOf D a b i)) := by
    intro E2 h2
    simp only [eval, h2, mapCells, AMat.get_ofFn, row_cell, rowMax_spec, if_true, Vector.getElem_ofFn, Fin.getElem_fin, ecc_cell]
  have hlist : ((List.finRange n).map fun i => C.ext (eccOf D a b i)) = ((List.finRange n).map (eccOf D a b)).map C.ext := by
    simp [List.map_map]
  refine ⟨?E', ?h1, ?h2⟩
  case h1 =>
    simp [refIR, execs, exec]
    rfl
  case h2 =>
    refine ⟨?_, ?_, ?_, ?_, ?_⟩
    · simp [eval, hD, mapCells, isnan_masked, sel_map, meanC_spec, charpath_eq]
    · simp [eval, hD, mapCells, isnan_masked, sel_map, charpath_eq, meanC_inv]
    · simp only [show ("ecc" = "diameter") = False by decide, show ("ecc" = "radius") = False by decide, if_false, if_true,
        Option.some.injEq]
      exact hecc _ (by simp [hD])
    · simp only [show ("radius" = "diameter") = False by decide, if_false, if_true, Option.some.injEq, eval_npMin, eval_ref]
      rw [hecc _ (by simp [hD])]
      simp only [Vector.getElem_ofFn, Fin.getElem_fin, hlist, reduce_spec, radiusDiameter]
      cases (List.finRange n).map (eccOf D a b) <;> rfl
    · simp only [show ("ecc" = "radius") = False by decide, if_false, if_true, Option.some.injEq, eval_npMax, eval_ref]
      rw [hecc _ (by simp [hD])]
      simp only [Vector.getElem_ofFn, Fin.getElem_fin, hlist, reduce_spec, radiusDiameter]
      cases (List.finRange n).map (eccOf D a b) <;> rfl

/-- **Link, `charpath`.**  If the generated obligation holds, the extracted routine returns, for every matrix of extended
non-negative rationals and both flags, the five values of the model: the two means of `Dist.charpath` (`nan` when nothing is
averaged), the eccentricities `Dist.eccOf`, and `Dist.radiusDiameter` (an error for `n = 0`, where NumPy raises). -/
theorem link_charpath (ir : CharIR) (hok : charOk ir = true) (D : AMat Ext n) (a b : Bool) :
    run ir (embD D) a b = some [ .sc (optC (charpath D a b).1), .sc (optC (charpath D a b).2),
      .vec (Vector.ofFn fun i => .ext (eccOf D a b i)), .sc (rd (radiusDiameter D a b) Prod.fst),
      .sc (rd (radiusDiameter D a b) Prod.snd) ] := by
  have hir : ir = refIR := by simpa [charOk] using hok
  subst hir
  have hsplit : refIR.body = refIR.body.take 3 ++ refIR.body.drop 3 := (List.take_append_drop 3 _).symm
  obtain ⟨E1, e1, h1⟩ := pre_spec D a b
    (fun y => if y = "include_diagonal" then some a else if y = "include_infinite" then some b else none) (by simp) (by simp)
  obtain ⟨E2, e2, hl, he, hc, hr, hd⟩ := tail_spec D a b E1 h1
  have hrun : execs refIR.body (⟨fun y => if y = "D" then some (.mat (embD D)) else none,
      fun y => if y = "include_diagonal" then some a else if y = "include_infinite" then some b else none⟩ : Env n) = some E2 := by
    rw [hsplit, execs_append, e1]; exact e2
  simp only [run, show refIR.params = ["D", "include_diagonal", "include_infinite"] from rfl]
  simp only [show ("D" ≠ "include_diagonal" ∧ "D" ≠ "include_infinite" ∧ "include_diagonal" ≠ "include_infinite") = True by decide,
    if_true, hrun, show refIR.ret = ["lambda_", "efficiency", "ecc", "radius", "diameter"] from rfl, List.mapM_cons, List.mapM_nil,
    hl, he, hc, hr, hd]
  rfl

example : charOk refIR = true := by decide
/-- `np.mean(Dv)` for `np.mean(1 / Dv)` is rejected -/
example : charOk { refIR with body := refIR.body.set 5 (.bind "efficiency" (.mean (.ref "Dv"))) } = false := by decide
/-- the two conditional stores exchanged are rejected -/
example : charOk { refIR with body := refIR.body.take 1 ++ (refIR.body.drop 2).take 1 ++ (refIR.body.drop 1).take 1 ++ refIR.body.drop 3 } = false := by
  decide

end Bct.Cores.Char
