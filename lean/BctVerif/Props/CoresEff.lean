import BctVerif.Model.CoreIREff
import BctVerif.Props.CoresBin

/-!
# C03 (second tie) — link theorem for the source-extracted global part of `efficiency_bin`
-/

namespace Bct.Cores.Eff
open Bct Bct.Dist Bct.CoreIR.Bin Bct.CoreIR.Eff Bct.Cores.Bin

variable {n : ℕ}

/-! ## the nested `distance_inv`: the loop of `distance_bin` on the parameter `g` -/

def St (E : Env n) (G : AMat ℕ n) (k : ℕ) (nP D : AMat ℕ n) (L : AMat Bool n) : Prop :=
  E.mat "g" = some (numM G) ∧ E.sc "n" = some k ∧ E.mat "nPATH" = some (numM nP) ∧ E.mat "D" = some (numM D) ∧ E.mat "L" = some (boolM L)

theorem body_spec (E : Env n) (G : AMat ℕ n) (k : ℕ) (nP D : AMat ℕ n) (L : AMat Bool n) (h : St E G k nP D L) :
    ∃ E', execs refInner.body E = some E' ∧
      St E' G (k + 1) (boolMul nP G) (AMat.ofFn fun i j => D.get i j + (if L.get i j then k else 0))
        (AMat.ofFn fun i j => (boolMul nP G).get i j != 0 &&
          (AMat.ofFn fun i j => D.get i j + (if L.get i j then k else 0) : AMat ℕ n).get i j == 0) := by
  obtain ⟨hG, hk, hP, hD, hL⟩ := h
  refine ⟨?E', ?h1, ?h2⟩
  case h1 =>
    simp [refInner, execs, exec, hD, hk]
    rfl
  case h2 =>
    refine ⟨by simp [hG], by simp, ?_, ?_, ?_⟩
    · simp only [if_true, show ("nPATH" = "L") = False by decide, if_false, Option.some.injEq]
      apply AMat.ext_get; intro i j
      simp [eval, hP, hG, sumProd_num, V.ne0, V.toNum, boolMul]
    · simp only [show ("D" = "L") = False by decide, show ("D" = "nPATH") = False by decide, if_false, if_true, Option.some.injEq]
      apply AMat.ext_get; intro i j
      simp [eval, hL, hk, V.mul, V.add]
    · simp only [if_true, Option.some.injEq]
      apply AMat.ext_get; intro i j
      simp [eval, hP, hG, hL, hk, sumProd_num, V.ne0, V.eq0, V.toNum, V.mul, V.add, boolMul]

theorem loop_spec (G : AMat ℕ n) : ∀ (fuel : ℕ) (E : Env n) (k : ℕ) (nP D : AMat ℕ n) (L : AMat Bool n), St E G k nP D L →
    match binLoop G fuel k nP D L with
    | none => whileAny "L" refInner.body fuel E = none
    | some Dr => ∃ E', whileAny "L" refInner.body fuel E = some E' ∧ E'.mat "D" = some (numM Dr) := by
  intro fuel
  induction fuel with
  | zero => intro E k nP D L _; simp [binLoop, whileAny]
  | succ f ih =>
    intro E k nP D L h
    have hL := h.2.2.2.2
    simp only [binLoop, whileAny, hL, anyTrueV_bool]
    by_cases ha : anyTrue L = true
    · obtain ⟨E1, e1, s1⟩ := body_spec E G k nP D L h
      simp only [ha, if_true, e1]
      exact ih E1 _ _ _ _ s1
    · have ha' : anyTrue L = false := by simpa using ha
      simp only [ha', Bool.false_eq_true, if_false]
      exact ⟨E, rfl, h.2.2.2.1⟩

/-- what `distance_inv` returns for the loop result `Dr` -/
def invMat (Dr : AMat ℕ n) : AMat V n :=
  AMat.ofFn fun i j => if i = j then V.num 0 else if Dr.get i j = 0 then V.num 0 else V.rat (1 / (Dr.get i j : ℚ))

theorem inner_spec (B : AMat ℕ n) : run refInner (n * n + 2) (numM B) = (binRaw B).map invMat := by
  have hpre : ∃ E1, execs refInner.pre ({ mat := fun y => if y = "g" then some (numM B) else none, sc := fun _ => none } : Env n) = some E1 ∧
      St E1 B 1 B (AMat.ofFn fun i j => if i = j then 1 else 0) (AMat.ofFn fun i j => B.get i j != 0) := by
    refine ⟨?E1, ?h1, ?h2⟩
    case h1 =>
      simp [refInner, execs, exec]
      rfl
    case h2 =>
      refine ⟨by simp, by simp, ?_, ?_, ?_⟩
      · simp only [show ("nPATH" = "L") = False by decide, if_false, if_true, Option.some.injEq]
        apply AMat.ext_get; intro i j
        simp [eval]
      · simp only [show ("D" = "L") = False by decide, show ("D" = "nPATH") = False by decide, if_false, if_true, Option.some.injEq]
        apply AMat.ext_get; intro i j
        simp [eval]
      · simp only [if_true, Option.some.injEq]
        apply AMat.ext_get; intro i j
        simp [eval, V.ne0]
  obtain ⟨E1, e1, s1⟩ := hpre
  have hl := loop_spec B (n * n + 2) E1 _ _ _ _ s1
  have e1' : execs refInner.pre ({ mat := fun y => if y = refInner.param then some (numM B) else none, sc := fun _ => none } : Env n) = some E1 := e1
  simp only [run, e1', show refInner.cond = "L" from rfl, binRaw]
  cases hb : binLoop B (n * n + 2) 1 B (AMat.ofFn fun i j => if i = j then 1 else 0) (AMat.ofFn fun i j => B.get i j != 0) with
  | none => rw [hb] at hl; simp only [hl, Option.map_none]
  | some Dr =>
    rw [hb] at hl
    obtain ⟨E2, e2, hD⟩ := hl
    simp only [e2, Option.map_some]
    simp [refInner, execs, exec, hD]
    apply AMat.ext_get; intro i j
    simp only [AMat.get_ofFn, eval, hD, numM_get, V.lnot, invMat]
    by_cases hij : i = j
    · simp [hij]
    · by_cases h0 : Dr.get i j = 0
      · simp [hij, h0, V.recip]
      · have hb0 : (Dr.get i j == 0) = false := by simpa using h0
        simp [hij, h0, hb0, V.recip]

/-! ## the sum and the division -/

/-- the inverse distance of one ordered pair as a rational -/
def invQ (Dr : AMat ℕ n) (p : Fin n × Fin n) : ℚ :=
  if p.1 = p.2 then 0 else if Dr.get p.1 p.2 = 0 then 0 else 1 / (Dr.get p.1 p.2 : ℚ)

theorem toQ_invMat (Dr : AMat ℕ n) (p : Fin n × Fin n) : toQ ((invMat Dr).get p.1 p.2) = some (invQ Dr p) := by
  simp only [invMat, AMat.get_ofFn, invQ]
  split
  · simp [toQ]
  · split <;> simp [toQ]

theorem sumCells_spec (M : AMat V n) (f : Fin n × Fin n → ℚ) (h : ∀ p, toQ (M.get p.1 p.2) = some (f p)) :
    sumCells M = some ((cells n).foldl (fun acc p => acc + f p) 0) := by
  unfold sumCells
  generalize (0 : ℚ) = a
  induction (cells n) generalizing a with
  | nil => rfl
  | cons p l ih => simp only [List.foldl_cons, h p]; exact ih _

theorem foldl_filter {α : Type} (l : List α) (k : α → Bool) (f : α → ℚ) (h : ∀ x, k x = false → f x = 0) (a : ℚ) :
    (l.filter k).foldl (fun acc p => acc + f p) a = l.foldl (fun acc p => acc + f p) a := by
  induction l generalizing a with
  | nil => rfl
  | cons x l ih =>
    by_cases hk : k x = true
    · simp only [List.filter_cons, hk, if_true, List.foldl_cons]; exact ih _
    · have hk' : k x = false := by simpa using hk
      simp only [List.filter_cons, hk', Bool.false_eq_true, if_false, List.foldl_cons, h x hk', add_zero]; exact ih _

theorem sumExt_fin {α : Type} (l : List α) (f : α → ℚ) (a : ℚ) :
    (l.map fun p => Ext.fin (f p)).foldl (· + ·) (Ext.fin a) = Ext.fin (l.foldl (fun acc p => acc + f p) a) := by
  induction l generalizing a with
  | nil => rfl
  | cons x l ih =>
    simp only [List.map_cons, List.foldl_cons]
    exact ih _

/-- the matrix `distBin` makes of the loop result -/
def distOf (Dr : AMat ℕ n) : AMat Ext n :=
  AMat.ofFn fun i j => if i = j then .fin 0 else if Dr.get i j = 0 then .inf else .fin (Dr.get i j : ℕ)

theorem inv_distOf (Dr : AMat ℕ n) (p : Fin n × Fin n) (hp : p ∈ offDiag n) : ((distOf Dr).get p.1 p.2).inv = Ext.fin (invQ Dr p) := by
  have hne : p.1 ≠ p.2 := by simpa [offDiag] using (List.mem_filter.mp hp).2
  simp only [distOf, AMat.get_ofFn, invQ, hne, if_false]
  by_cases h0 : Dr.get p.1 p.2 = 0
  · simp [h0, Ext.inv]
  · have hq : ((Dr.get p.1 p.2 : ℕ) : ℚ) ≠ 0 := by exact_mod_cast h0
    simp [h0, Ext.inv, hq]

theorem sumExt_offDiag (Dr : AMat ℕ n) :
    sumExt ((offDiag n).map fun p => ((distOf Dr).get p.1 p.2).inv) = Ext.fin ((cells n).foldl (fun acc p => acc + invQ Dr p) 0) := by
  have h1 : ((offDiag n).map fun p => ((distOf Dr).get p.1 p.2).inv) = (offDiag n).map fun p => Ext.fin (invQ Dr p) := by
    apply List.map_congr_left; intro p hp; exact inv_distOf Dr p hp
  rw [h1, sumExt, sumExt_fin, offDiag]
  congr 1
  apply foldl_filter
  intro p hp
  have : p.1 = p.2 := by simpa using hp
  simp [invQ, this]

theorem den_cast : (((n : ℤ) * (n : ℤ) - (n : ℤ) : ℤ) : ℚ) = ((n * n - n : ℕ) : ℚ) := by
  have h : n ≤ n * n := Nat.le_mul_self n
  push_cast [Nat.cast_sub h]; ring

theorem foldl_zero {α : Type} (l : List α) (f : α → ℚ) (h : ∀ x, f x = 0) : l.foldl (fun acc p => acc + f p) 0 = 0 := by
  induction l with
  | nil => rfl
  | cons x l ih => simp only [List.foldl_cons, h x, add_zero]; exact ih

/-- **Link, `efficiency_bin` (global).**  If the generated obligation holds, the extracted routine with `local = False`, run with the
model's fuel `n² + 2` for the `while np.any(L)` loop of the nested function, returns `Dist.efficiencyBin A` for every matrix of
weights (`nan` — the inner `none` — for fewer than two nodes). -/
theorem link_efficiency_bin (ir : EffIR) (hok : effOk ir = true) (A : AMat ℚ n) :
    (runEff ir (n * n + 2) (embA A)).map (fun o => o.map Ext.fin) = efficiencyBin A := by
  have hir : ir = CoreIR.Eff.refIR := by simpa [effOk] using hok
  subst hir
  have hpre : ∃ E1, execs CoreIR.Eff.refIR.pre ({ mat := fun y => if y = "G" then some (embA A) else none, sc := fun _ => none } : Env n) = some E1 ∧
      E1.mat "G" = some (numM (binarize A)) := by
    refine ⟨?E1, ?h1, ?h2⟩
    case h1 =>
      simp [CoreIR.Eff.refIR, execs, exec]
      rfl
    case h2 =>
      simp only [if_true, Option.some.injEq]
      apply AMat.ext_get; intro i j
      simp [eval, embA, V.bin, binarize]
  obtain ⟨E1, e1, hG⟩ := hpre
  have hc : CoreIR.Eff.refIR.coherent "G" "local" = true := by decide
  simp only [runEff, show CoreIR.Eff.refIR.params = ["G", "local"] from rfl, hc, if_true, e1, show CoreIR.Eff.refIR.arg = "G" from rfl, hG,
    show CoreIR.Eff.refIR.inner = refInner from rfl, inner_spec, efficiencyBin, distBin]
  cases hb : binRaw (binarize A) with
  | none => rfl
  | some Dr =>
    have hs := sumCells_spec (invMat Dr) (invQ Dr) (toQ_invMat Dr)
    have hden : evalK "n" (n : ℤ) (.sub (.mul (.var "n") (.var "n")) (.var "n")) = some ((n : ℤ) * (n : ℤ) - (n : ℤ)) := by
      simp [evalK]
    have hdist : (AMat.ofFn fun i j => if i = j then Ext.fin 0 else if Dr.get i j = 0 then Ext.inf else Ext.fin (Dr.get i j : ℕ) : AMat Ext n)
        = distOf Dr := rfl
    simp only [Option.map_some, hs, show CoreIR.Eff.refIR.dim = "n" from rfl, show CoreIR.Eff.refIR.den = .sub (.mul (.var "n") (.var "n")) (.var "n") from rfl,
      hden, hdist, meanInvOff, sumExt_offDiag]
    by_cases hn : n < 2
    · have hd0 : (n : ℤ) * (n : ℤ) - (n : ℤ) = 0 := by
        have : n = 0 ∨ n = 1 := by omega
        rcases this with h | h <;> simp [h]
      have hz : (cells n).foldl (fun acc p => acc + invQ Dr p) 0 = 0 := by
        apply foldl_zero; intro p
        have : p.1 = p.2 := Fin.ext (by have := p.1.isLt; have := p.2.isLt; omega)
        simp [invQ, this]
      simp [hn, hd0, hz]
    · have hd0 : (n : ℤ) * (n : ℤ) - (n : ℤ) ≠ 0 := by
        have h2 : (2 : ℤ) ≤ (n : ℤ) := by omega
        have : (n : ℤ) * (n : ℤ) - (n : ℤ) = (n : ℤ) * ((n : ℤ) - 1) := by ring
        rw [this]; exact mul_ne_zero (by omega) (by omega)
      have hc2 := den_cast (n := n)
      push_cast at hc2
      simp [hn, hd0]
      rw [← hc2]

example : effOk CoreIR.Eff.refIR = true := by decide
/-- `(n * n)` for `(n * n - n)` is rejected -/
example : effOk { CoreIR.Eff.refIR with den := .mul (.var "n") (.var "n") } = false := by decide
/-- a nested function without `D = 1 / D` is rejected -/
example : effOk { CoreIR.Eff.refIR with inner := { refInner with post := refInner.post.take 1 ++ [.fillDiag "D" 0] } } = false := by decide

end Bct.Cores.Eff
