import BctVerif.Lemmas.RewireInv

/-!
# C01 — degree-preserving rewiring keeps every node's degree and the weight multiset

Theorems about the *executable* model `Bct.Rewire` (the one the correspondence check runs against
bct's `randmio_*`, `latmio_*`, `randomize_graph_partial_und`).  `RwInv und R0 s` collects the
observable clauses of the property (row/column support counts = out/in degree, multiset of cell
values, diagonal, symmetry (undirected), row sums = out-strength (directed), `eff = 0 → R = R0`)
together with the edge-list/matrix consistency that makes them inductive.

Main results, for every size `n`, every integer matrix, every configuration and **every list of
draws** (= every seed):
* `attempt_inv`, `attempts_inv`, `iters_inv`, `untilSwaps_inv` — the invariant is preserved by one
  attempt and by the budgeted / swap-counting loops;
* `mkState_inv` — it holds initially (empty diagonal; symmetric input for the undirected routines);
* `runBudget_spec` — hence every successful run of the model satisfies all clauses, and
  `runBudget_zero` — zero requested rewirings return the input unchanged;
* `latt_reindex`, `latt_degrees` — latticisers: `Rlatt` re-indexed by the node ordering is `Rrp`, and
  degrees hold under the caller's numbering.
-/
open Finset

namespace Bct.C01
open Bct Bct.Rewire Bct.RewireFun Bct.RewireInv

variable {n k : ℕ}

/-! ### one attempt -/

theorem pickPair_spec (s : St n k) : ∀ (fuel : ℕ) (ds : List ℕ) (e1 e2 : Fin k) (rest : List ℕ),
    pickPair s fuel ds = .ok ((e1, e2), rest) →
    s.iv e1 ≠ s.iv e2 ∧ s.iv e1 ≠ s.jv e2 ∧ s.jv e1 ≠ s.iv e2 ∧ s.jv e1 ≠ s.jv e2 := by
  intro fuel
  induction fuel with
  | zero => intro ds e1 e2 rest h; simp [pickPair] at h
  | succ fuel ih =>
    intro ds e1 e2 rest h
    match ds, h with
    | x1 :: x2 :: tl, h =>
      simp only [pickPair, bind, Except.bind] at h
      cases h1 : asFin k x1 with
      | error e => simp [h1] at h
      | ok f1 =>
        cases h2 : asFin k x2 with
        | error e => simp [h1, h2] at h
        | ok f2 =>
          cases h3 : redraw f1 f2 tl with
          | error e => simp [h1, h2, h3] at h
          | ok pr =>
            obtain ⟨f2', tl'⟩ := pr
            simp only [h1, h2, h3] at h
            split at h
            · rename_i hd
              simp only [Except.ok.injEq, Prod.mk.injEq] at h
              obtain ⟨⟨rfl, rfl⟩, _⟩ := h
              exact hd
            · exact ih _ _ _ _ h

theorem accept_guard (cfg : Cfg n) (R : AMat Int n) (a b c d : Fin n) (h : accept cfg R a b c d = true) :
    R.toFun a d = 0 ∧ R.toFun c b = 0 := by
  unfold accept at h
  split at h
  · simp at h
  · rename_i hg
    push Not at hg
    exact hg

/-- One pass of the attempt body preserves the invariant, whatever the draws and the configuration. -/
theorem attempt_inv (cfg : Cfg n) (R0 : Mat n) (s s' : St n k) (ds rest : List ℕ) (ok : Bool)
    (hrun : attempt cfg s ds = .ok (s', ok, rest)) (h : RwInv cfg.und R0 s) : RwInv cfg.und R0 s' := by
  unfold attempt at hrun
  simp only [bind, Except.bind] at hrun
  cases hp : pickPair s ds.length ds with
  | error e => simp [hp] at hrun
  | ok pr =>
    obtain ⟨⟨e1, e2⟩, rest1⟩ := pr
    have hd := pickPair_spec s _ _ _ _ _ hp
    have hne12 : e1 ≠ e2 := fun hh => hd.1 (by rw [hh])
    simp only [hp] at hrun
    cases hu : cfg.und with
    | true =>
      rw [hu] at h
      simp only [hu, if_true] at hrun
      match rest1, hrun with
      | cn :: rest2, hrun =>
        -- the state after the optional orientation flip
        have key : ∀ s1 : St n k, RwInv true R0 s1 → s1.iv e1 = s.iv e1 → s1.jv e1 = s.jv e1 →
            (s1.iv e2 = s.iv e2 ∧ s1.jv e2 = s.jv e2 ∨ s1.iv e2 = s.jv e2 ∧ s1.jv e2 = s.iv e2) →
            (if accept cfg s1.R (s.iv e1) (s.jv e1) (s1.iv e2) (s1.jv e2) = true then
              (Except.ok ({ R := swapUnd s1.R (s.iv e1) (s.jv e1) (s1.iv e2) (s1.jv e2), i := s1.i,
                            j := (s1.j.set e1 (s1.jv e2)).set e2 (s.jv e1), eff := s1.eff + 1 }, true, rest2) :
                Except Err (St n k × Bool × List ℕ))
             else .ok (s1, false, rest2)) = .ok (s', ok, rest) → RwInv true R0 s' := by
          intro s1 h1 ha hb hcd hr
          split at hr
          · rename_i hacc
            have g := accept_guard cfg s1.R _ _ _ _ hacc
            simp only [Except.ok.injEq, Prod.mk.injEq] at hr
            obtain ⟨rfl, _, _⟩ := hr
            have hd1 : s1.iv e1 ≠ s1.iv e2 ∧ s1.iv e1 ≠ s1.jv e2 ∧ s1.jv e1 ≠ s1.iv e2 ∧ s1.jv e1 ≠ s1.jv e2 := by
              rw [ha, hb]
              rcases hcd with ⟨hc, hd'⟩ | ⟨hc, hd'⟩
              · rw [hc, hd']; exact hd
              · rw [hc, hd']; exact ⟨hd.2.1, hd.1, hd.2.2.2, hd.2.2.1⟩
            have := swapUnd_inv R0 s1 e1 e2 h1 hd1.1 hd1.2.1 hd1.2.2.1 hd1.2.2.2
              (by rw [ha]; exact g.1) (by rw [hb]; exact g.2)
            have heq : afterSwap true s1 e1 e2 =
                { R := swapUnd s1.R (s.iv e1) (s.jv e1) (s1.iv e2) (s1.jv e2), i := s1.i,
                  j := (s1.j.set e1 (s1.jv e2)).set e2 (s.jv e1), eff := s1.eff + 1 } := by
              simp only [afterSwap, ha, hb, if_true]
            rw [← heq]; exact this
          · simp only [Except.ok.injEq, Prod.mk.injEq] at hr
            obtain ⟨rfl, _, _⟩ := hr
            exact h1
        by_cases hc : coin cn = true
        · simp only [hc, if_true] at hrun
          refine key (flip s e2) (flip_inv R0 s e2 h) ?_ ?_ ?_ hrun
          · rw [flip_iv]; simp [hne12]
          · rw [flip_jv]; simp [hne12]
          · right; rw [flip_iv, flip_jv]; simp
        · simp only [hc] at hrun
          exact key s h rfl rfl (Or.inl ⟨rfl, rfl⟩) hrun
    | false =>
      rw [hu] at h
      simp only [hu, Bool.false_eq_true, if_false] at hrun
      split at hrun
      · rename_i hacc
        have g := accept_guard cfg s.R _ _ _ _ hacc
        simp only [Except.ok.injEq, Prod.mk.injEq] at hrun
        obtain ⟨rfl, _, _⟩ := hrun
        exact swapDir_inv R0 s e1 e2 h hd.1 hd.2.1 hd.2.2.1 hd.2.2.2 g.1 g.2
      · simp only [Except.ok.injEq, Prod.mk.injEq] at hrun
        obtain ⟨rfl, _, _⟩ := hrun
        exact h

/-! ### the loops -/

theorem attempts_inv (cfg : Cfg n) (R0 : Mat n) : ∀ (budget : ℕ) (s s' : St n k) (ds rest : List ℕ),
    attempts cfg budget s ds = .ok (s', rest) → RwInv cfg.und R0 s → RwInv cfg.und R0 s' := by
  intro budget
  induction budget with
  | zero => intro s s' ds rest h hi; simp only [attempts, Except.ok.injEq, Prod.mk.injEq] at h; rw [← h.1]; exact hi
  | succ b ih =>
    intro s s' ds rest h hi
    simp only [attempts, bind, Except.bind] at h
    cases ha : attempt cfg s ds with
    | error e => simp [ha] at h
    | ok r =>
      obtain ⟨s1, ok, rest1⟩ := r
      have h1 := attempt_inv cfg R0 s s1 ds rest1 ok ha hi
      simp only [ha] at h
      split at h
      · simp only [Except.ok.injEq, Prod.mk.injEq] at h; rw [← h.1]; exact h1
      · exact ih _ _ _ _ h h1

theorem iters_inv (cfg : Cfg n) (R0 : Mat n) (maxAtt : ℕ) : ∀ (it : ℕ) (s s' : St n k) (ds rest : List ℕ),
    iters cfg maxAtt it s ds = .ok (s', rest) → RwInv cfg.und R0 s → RwInv cfg.und R0 s' := by
  intro it
  induction it with
  | zero => intro s s' ds rest h hi; simp only [iters, Except.ok.injEq, Prod.mk.injEq] at h; rw [← h.1]; exact hi
  | succ b ih =>
    intro s s' ds rest h hi
    simp only [iters, bind, Except.bind] at h
    cases ha : attempts cfg (maxAtt + 1) s ds with
    | error e => simp [ha] at h
    | ok r =>
      obtain ⟨s1, rest1⟩ := r
      simp only [ha] at h
      exact ih _ _ _ _ h (attempts_inv cfg R0 _ _ _ _ _ ha hi)

theorem untilSwaps_inv (cfg : Cfg n) (R0 : Mat n) : ∀ (fuel need : ℕ) (s s' : St n k) (ds rest : List ℕ),
    untilSwaps cfg fuel need s ds = .ok (s', rest) → RwInv cfg.und R0 s → RwInv cfg.und R0 s' := by
  intro fuel
  induction fuel with
  | zero =>
    intro need s s' ds rest h hi
    cases need with
    | zero => simp only [untilSwaps, Except.ok.injEq, Prod.mk.injEq] at h; rw [← h.1]; exact hi
    | succ m => simp [untilSwaps] at h
  | succ f ih =>
    intro need s s' ds rest h hi
    cases need with
    | zero => simp only [untilSwaps, Except.ok.injEq, Prod.mk.injEq] at h; rw [← h.1]; exact hi
    | succ m =>
      simp only [untilSwaps, bind, Except.bind] at h
      cases ha : attempt cfg s ds with
      | error e => simp [ha] at h
      | ok r =>
        obtain ⟨s1, ok, rest1⟩ := r
        simp only [ha] at h
        exact ih _ _ _ _ _ h (attempt_inv cfg R0 s s1 ds rest1 ok ha hi)

/-! ### the initial state -/

def EmptyDiag (R : AMat Int n) : Prop := ∀ v, R.toFun v v = 0
def Symm (R : AMat Int n) : Prop := ∀ i j, R.toFun i j = R.toFun j i

theorem mem_edgeCells (src : EdgeSrc) (R : AMat Int n) (p : Fin n × Fin n) (hp : p ∈ edgeCells src R) :
    R.toFun p.1 p.2 ≠ 0 ∧ (src = .tril → p.2.val ≤ p.1.val) ∧ (src = .triu1 → p.1.val < p.2.val) := by
  simp only [edgeCells, List.mem_flatMap, List.mem_map, List.mem_filter, List.mem_finRange, true_and] at hp
  obtain ⟨i, j, hj, rfl⟩ := hp
  simp only [Bool.and_eq_true, bne_iff_ne, ne_eq] at hj
  refine ⟨hj.1, ?_, ?_⟩
  · intro h; subst h; simpa using hj.2
  · intro h; subst h; simpa using hj.2

theorem nodup_edgeCells (src : EdgeSrc) (R : AMat Int n) : (edgeCells src R).Nodup := by
  unfold edgeCells
  rw [List.nodup_flatMap]
  refine ⟨?_, ?_⟩
  · intro i _
    refine List.Nodup.map ?_ ((List.nodup_finRange n).filter _)
    intro x y h; simpa using h
  · refine List.Pairwise.imp_of_mem ?_ (List.nodup_finRange n)
    intro i i' _ _ hne
    simp only [Function.onFun]
    rw [List.disjoint_left]
    intro p hp hp'
    simp only [List.mem_map] at hp hp'
    obtain ⟨_, _, rfl⟩ := hp
    obtain ⟨_, _, h⟩ := hp'
    exact hne (by simpa using (congrArg Prod.fst h).symm)

theorem mkState_inv (und : Bool) (src : EdgeSrc) (R : AMat Int n) (hd : EmptyDiag R)
    (hs : und = true → Symm R) (hsrc : und = true → src ≠ .all) :
    RwInv und R.toFun (mkState R (edgeCells src R).toArray) := by
  have hmem : ∀ e : Fin (edgeCells src R).toArray.size,
      ((edgeCells src R).toArray[e]) ∈ edgeCells src R := by
    intro e
    have : (edgeCells src R).toArray[e] = (edgeCells src R)[e.val]'(by simpa using e.isLt) := by
      simp
    rw [this]; exact List.getElem_mem _
  have hinj : ∀ e e' : Fin (edgeCells src R).toArray.size,
      (edgeCells src R).toArray[e] = (edgeCells src R).toArray[e'] → e = e' := by
    intro e e' h
    have h1 : (edgeCells src R).toArray[e] = (edgeCells src R)[e.val]'(by simpa using e.isLt) := by simp
    have h2 : (edgeCells src R).toArray[e'] = (edgeCells src R)[e'.val]'(by simpa using e'.isLt) := by simp
    rw [h1, h2] at h
    exact Fin.ext ((List.Nodup.getElem_inj_iff (nodup_edgeCells src R)).mp h)
  have iv_eq : ∀ e, (mkState R (edgeCells src R).toArray).iv e = ((edgeCells src R).toArray[e]).1 := by
    intro e; simp [St.iv, mkState]
  have jv_eq : ∀ e, (mkState R (edgeCells src R).toArray).jv e = ((edgeCells src R).toArray[e]).2 := by
    intro e; simp [St.jv, mkState]
  refine ⟨fun _ => rfl, fun _ => rfl, rfl, fun _ => rfl, ?_, fun _ _ => rfl, ?_, fun _ => rfl⟩
  · intro hu; exact hs hu
  · refine ⟨?_, ?_, ?_, ?_⟩
    · intro e; rw [iv_eq, jv_eq]; exact (mem_edgeCells src R _ (hmem e)).1
    · intro e; rw [iv_eq, jv_eq]
      intro hh
      have := (mem_edgeCells src R _ (hmem e)).1
      rw [← hh] at this
      exact this (hd _)
    · intro e e' hne; rw [iv_eq, jv_eq, iv_eq, jv_eq]
      intro ⟨h1, h2⟩
      exact hne (hinj e e' (Prod.ext h1 h2))
    · intro hu e e' _; rw [iv_eq, jv_eq, iv_eq, jv_eq]
      intro ⟨h1, h2⟩
      have m := mem_edgeCells src R _ (hmem e)
      have m' := mem_edgeCells src R _ (hmem e')
      have hne0 : (edgeCells src R).toArray[e].1 ≠ (edgeCells src R).toArray[e].2 := by
        intro hh; have := m.1; rw [← hh] at this; exact this (hd _)
      have hne0' : (edgeCells src R).toArray[e'].1 ≠ (edgeCells src R).toArray[e'].2 := by
        intro hh; have := m'.1; rw [← hh] at this; exact this (hd _)
      cases src with
      | all => exact hsrc hu rfl
      | tril =>
        have a1 := m.2.1 rfl
        have a2 := m'.2.1 rfl
        have b1 : (edgeCells .tril R).toArray[e].1.val ≠ (edgeCells .tril R).toArray[e].2.val := fun hh => hne0 (Fin.ext hh)
        rw [h1, h2] at a1
        omega
      | triu1 =>
        have a1 := m.2.2 rfl
        have a2 := m'.2.2 rfl
        rw [h1, h2] at a1
        omega

/-! ### whole runs -/

/-- Every successful run of the model — any routine configuration, any budget, any draw list —
returns a matrix satisfying all clauses of C01 relative to its input. -/
theorem runBudget_spec (cfg : Cfg n) (R R' : AMat Int n) (itr eff : ℕ) (ds rest : List ℕ)
    (hd : EmptyDiag R) (hs : cfg.und = true → Symm R) (hsrc : cfg.und = true → cfg.src ≠ .all)
    (hrun : runBudget cfg R itr ds = .ok (R', eff, rest)) :
    (∀ r, rowCnt R'.toFun r = rowCnt R.toFun r) ∧ (∀ c, colCnt R'.toFun c = colCnt R.toFun c) ∧
    cellValues R'.toFun = cellValues R.toFun ∧ (∀ v, R'.toFun v v = R.toFun v v) ∧
    (cfg.und = true → ∀ i j, R'.toFun i j = R'.toFun j i) ∧
    (cfg.und = false → ∀ r, rowSum R'.toFun r = rowSum R.toFun r) ∧
    (eff = 0 → R'.toFun = R.toFun) := by
  have h0 := mkState_inv cfg.und cfg.src R hd hs hsrc
  unfold runBudget at hrun
  simp only [bind, Except.bind] at hrun
  split at hrun
  · cases hrun      -- the guard raised: not an `.ok` run
  have fin : ∀ s : St n (edgeCells cfg.src R).toArray.size, RwInv cfg.und R.toFun s → R' = s.R → eff = s.eff →
      (∀ r, rowCnt R'.toFun r = rowCnt R.toFun r) ∧ (∀ c, colCnt R'.toFun c = colCnt R.toFun c) ∧
      cellValues R'.toFun = cellValues R.toFun ∧ (∀ v, R'.toFun v v = R.toFun v v) ∧
      (cfg.und = true → ∀ i j, R'.toFun i j = R'.toFun j i) ∧
      (cfg.und = false → ∀ r, rowSum R'.toFun r = rowSum R.toFun r) ∧
      (eff = 0 → R'.toFun = R.toFun) := by
    intro s hi h1 h2
    subst h1; subst h2
    exact ⟨hi.row, hi.col, hi.vals, hi.diag, hi.symm, hi.rsum, hi.eff0⟩
  cases hden : cfg.attDen with
  | some den =>
    simp only [hden] at hrun
    split at hrun
    · cases hrun
    · rename_i v hi
      simp only [Except.ok.injEq, Prod.mk.injEq] at hrun
      exact fin v.1 (iters_inv cfg R.toFun _ _ _ _ _ _ hi h0) hrun.1.symm hrun.2.1.symm
  | none =>
    simp only [hden] at hrun
    split at hrun
    · cases hrun
    · rename_i v hi
      simp only [Except.ok.injEq, Prod.mk.injEq] at hrun
      exact fin v.1 (untilSwaps_inv cfg R.toFun _ _ _ _ _ _ hi h0) hrun.1.symm hrun.2.1.symm

/-- Zero requested rewirings: the input comes back unchanged and no draw is consumed. -/
theorem runBudget_zero (cfg : Cfg n) (R : AMat Int n) (ds : List ℕ) :
    runBudget cfg R 0 ds = .ok (R, 0, ds) := by
  unfold runBudget
  cases hden : cfg.attDen with
  | some den => simp [hden, iters, mkState, bind, Except.bind]
  | none => simp [hden, untilSwaps, mkState, bind, Except.bind]

/-! ### latticisers: the node permutation is undone by its inverse -/

theorem invPerm_left (p : Fin n → Fin n) (hp : Function.Injective p) (i : Fin n) : invPerm p (p i) = i := by
  unfold invPerm
  cases h : (List.finRange n).find? (fun x => p x == p i) with
  | none =>
    rw [List.find?_eq_none] at h
    have := h i (List.mem_finRange i)
    simp at this
  | some x =>
    have := List.find?_some h
    simp only [beq_iff_eq] at this
    exact hp this

theorem invPerm_right (p : Fin n → Fin n) (hp : Function.Injective p) (i : Fin n) : p (invPerm p i) = i := by
  obtain ⟨x, rfl⟩ := (Finite.injective_iff_surjective.mp hp) i
  rw [invPerm_left p hp]

/-- "the matrix returned in latticisation order is the original-order result re-indexed by the returned
node ordering": `Rlatt[ix_(ind_rp, ind_rp)] = Rrp` -/
theorem latt_reindex (Rrp : AMat Int n) (p : Fin n → Fin n) (hp : Function.Injective p) :
    permMat (permMat Rrp (invPerm p)) p = Rrp := by
  apply AMat.ext_get
  intro i j
  simp only [permMat, AMat.get_ofFn, invPerm_left p hp]

theorem toFun_permMat (X : AMat Int n) (f : Fin n → Fin n) :
    (permMat X f).toFun = fun i j => X.toFun (f i) (f j) := by
  funext i j; simp [AMat.toFun, permMat]

theorem rowCnt_perm (X : Mat n) (f : Equiv.Perm (Fin n)) (r : Fin n) :
    rowCnt (fun i j => X (f i) (f j)) r = rowCnt X (f r) := by
  unfold rowCnt
  exact Equiv.sum_comp f (fun j => if X (f r) j ≠ 0 then 1 else 0)

theorem colCnt_perm (X : Mat n) (f : Equiv.Perm (Fin n)) (c : Fin n) :
    colCnt (fun i j => X (f i) (f j)) c = colCnt X (f c) := by
  unfold colCnt
  exact Equiv.sum_comp f (fun i => if X i (f c) ≠ 0 then 1 else 0)

theorem rowSum_perm (X : Mat n) (f : Equiv.Perm (Fin n)) (r : Fin n) :
    rowSum (fun i j => X (f i) (f j)) r = rowSum X (f r) := by
  unfold rowSum
  exact Equiv.sum_comp f (fun j => X (f r) j)

theorem cellValues_perm (X : Mat n) (f : Equiv.Perm (Fin n)) :
    cellValues (fun i j => X (f i) (f j)) = cellValues X :=
  cellValues_comp X (Equiv.prodCongr f f)

/-- Latticisers under the caller's numbering: if the rewired matrix `Rrp` satisfies the C01 clauses
relative to the permuted input `R[ix_(p,p)]`, then `Rlatt = Rrp[ix_(p⁻¹,p⁻¹)]` satisfies them relative to
the caller's `R` — for every node permutation `p`. (Row sums are a separate corollary: they are promised by the
directed routines only.) -/
theorem latt_spec (R Rrp : AMat Int n) (p : Fin n → Fin n) (hp : Function.Injective p)
    (hrow : ∀ r, rowCnt Rrp.toFun r = rowCnt (permMat R p).toFun r)
    (hcol : ∀ c, colCnt Rrp.toFun c = colCnt (permMat R p).toFun c)
    (hvals : cellValues Rrp.toFun = cellValues (permMat R p).toFun)
    (hdiag : ∀ v, Rrp.toFun v v = (permMat R p).toFun v v) :
    let Rlatt := permMat Rrp (invPerm p)
    (∀ r, rowCnt Rlatt.toFun r = rowCnt R.toFun r) ∧ (∀ c, colCnt Rlatt.toFun c = colCnt R.toFun c) ∧
    cellValues Rlatt.toFun = cellValues R.toFun ∧ (∀ v, Rlatt.toFun v v = R.toFun v v) := by
  intro Rlatt
  have hbij : Function.Bijective p := ⟨hp, Finite.injective_iff_surjective.mp hp⟩
  let f : Equiv.Perm (Fin n) := Equiv.ofBijective p hbij
  have hq : Function.Bijective (invPerm p) :=
    ⟨fun x y h => by have := congrArg p h; rwa [invPerm_right p hp, invPerm_right p hp] at this,
     fun x => ⟨p x, invPerm_left p hp x⟩⟩
  let g : Equiv.Perm (Fin n) := Equiv.ofBijective (invPerm p) hq
  have e1 : Rlatt.toFun = fun i j => Rrp.toFun (g i) (g j) := toFun_permMat _ _
  have e2 : (permMat R p).toFun = fun i j => R.toFun (f i) (f j) := toFun_permMat _ _
  have fg : ∀ x, f (g x) = x := fun x => invPerm_right p hp x
  refine ⟨?_, ?_, ?_, ?_⟩
  · intro r; rw [e1, rowCnt_perm, hrow, e2, rowCnt_perm, fg]
  · intro c; rw [e1, colCnt_perm, hcol, e2, colCnt_perm, fg]
  · rw [e1, cellValues_perm, hvals, e2, cellValues_perm]
  · intro v
    have h1 : Rlatt.toFun v v = Rrp.toFun (g v) (g v) := by rw [e1]
    have h2 : (permMat R p).toFun (g v) (g v) = R.toFun (f (g v)) (f (g v)) := by rw [e2]
    rw [h1, hdiag, h2, fg]

theorem latt_rowSum (R Rrp : AMat Int n) (p : Fin n → Fin n) (hp : Function.Injective p)
    (hsum : ∀ r, rowSum Rrp.toFun r = rowSum (permMat R p).toFun r) (r : Fin n) :
    rowSum (permMat Rrp (invPerm p)).toFun r = rowSum R.toFun r := by
  have hbij : Function.Bijective p := ⟨hp, Finite.injective_iff_surjective.mp hp⟩
  let f : Equiv.Perm (Fin n) := Equiv.ofBijective p hbij
  have hq : Function.Bijective (invPerm p) :=
    ⟨fun x y h => by have := congrArg p h; rwa [invPerm_right p hp, invPerm_right p hp] at this,
     fun x => ⟨p x, invPerm_left p hp x⟩⟩
  let g : Equiv.Perm (Fin n) := Equiv.ofBijective (invPerm p) hq
  have e1 : (permMat Rrp (invPerm p)).toFun = fun i j => Rrp.toFun (g i) (g j) := toFun_permMat _ _
  have e2 : (permMat R p).toFun = fun i j => R.toFun (f i) (f j) := toFun_permMat _ _
  have fg : ∀ x, f (g x) = x := fun x => invPerm_right p hp x
  rw [e1, rowSum_perm, hsum, e2, rowSum_perm, fg]

theorem latt_symm (Rrp : AMat Int n) (q : Fin n → Fin n) (hs : ∀ i j, Rrp.toFun i j = Rrp.toFun j i) (i j : Fin n) :
    (permMat Rrp q).toFun i j = (permMat Rrp q).toFun j i := by
  rw [toFun_permMat]; exact hs _ _

theorem latt_identity (R : AMat Int n) (p : Fin n → Fin n) (hp : Function.Injective p) :
    permMat (permMat R p) (invPerm p) = R := by
  apply AMat.ext_get
  intro i j
  simp only [permMat, AMat.get_ofFn, invPerm_right p hp]

/-- the permutation the driver builds from a recorded `rng.permutation(n)` is injective -/
theorem listToPerm_injective (pl : List ℕ) (p : Fin n → Fin n) (h : listToPerm n pl = some p) :
    Function.Injective p := by
  unfold listToPerm at h
  split at h
  · cases h
  · rename_i hall
    split at h
    · rename_i hh
      simp only [Option.some.injEq] at h
      subst h
      intro x y hxy
      simp only [Fin.mk.injEq] at hxy
      have hall' : ∀ v ∈ pl, v < n := by simpa using hall
      have hx : pl[x.val]'(by omega) < n := hall' _ (List.getElem_mem _)
      have hy : pl[y.val]'(by omega) < n := hall' _ (List.getElem_mem _)
      rw [Nat.mod_eq_of_lt hx, Nat.mod_eq_of_lt hy] at hxy
      exact Fin.ext ((List.Nodup.getElem_inj_iff hh.2).mp hxy)
    · cases h

/-- **End-to-end latticiser theorem** (what `step` executes for `latmio_dir`, `latmio_und`,
`latmio_dir_connected`, `latmio_und_connected`): for every recorded node permutation, budget and draw list,
`Rlatt` has — under the caller's node numbering — every node's out- and in-degree, the multiset of cell values
and the diagonal of the input, is symmetric (undirected) / keeps every out-strength (directed), equals the
input when no rewiring was carried out, and re-indexed by the returned node ordering it is `Rrp`. -/
theorem latt_run_spec (cfg : Cfg n) (R Rlatt Rrp : AMat Int n) (pl : List ℕ) (itr eff : ℕ) (ds rest : List ℕ)
    (hd : EmptyDiag R) (hs : cfg.und = true → Symm R) (hsrc : cfg.und = true → cfg.src ≠ .all)
    (hrun : runLatt cfg R pl itr ds = .ok (Rlatt, Rrp, eff, rest)) :
    ∃ p : Fin n → Fin n, listToPerm n pl = some p ∧ Function.Injective p ∧
    (∀ r, rowCnt Rlatt.toFun r = rowCnt R.toFun r) ∧ (∀ c, colCnt Rlatt.toFun c = colCnt R.toFun c) ∧
    cellValues Rlatt.toFun = cellValues R.toFun ∧ (∀ v, Rlatt.toFun v v = R.toFun v v) ∧
    (cfg.und = true → ∀ i j, Rlatt.toFun i j = Rlatt.toFun j i) ∧
    (cfg.und = false → ∀ r, rowSum Rlatt.toFun r = rowSum R.toFun r) ∧
    (eff = 0 → Rlatt = R) ∧ permMat Rlatt p = Rrp := by
  unfold runLatt at hrun
  cases hp : listToPerm n pl with
  | none => simp [hp] at hrun
  | some p =>
    simp only [hp] at hrun
    have hinj := listToPerm_injective pl p hp
    cases hb : runBudget cfg (permMat R p) itr ds with
    | error e => simp [hb] at hrun
    | ok r =>
      obtain ⟨Rrp', eff', rest'⟩ := r
      simp only [hb, Except.ok.injEq, Prod.mk.injEq] at hrun
      obtain ⟨rfl, rfl, rfl, rfl⟩ := hrun
      have hdp : EmptyDiag (permMat R p) := by
        intro v; rw [toFun_permMat]; exact hd (p v)
      have hsp : cfg.und = true → Symm (permMat R p) := by
        intro hu i j; rw [toFun_permMat]; exact hs hu (p i) (p j)
      obtain ⟨h1, h2, h3, h4, h5, h6, h7⟩ := runBudget_spec cfg (permMat R p) Rrp' itr eff' ds rest' hdp hsp hsrc hb
      obtain ⟨l1, l2, l3, l4⟩ := latt_spec R Rrp' p hinj h1 h2 h3 h4
      refine ⟨p, rfl, hinj, l1, l2, l3, l4, ?_, ?_, ?_, latt_reindex Rrp' p hinj⟩
      · intro hu; exact latt_symm Rrp' _ (h5 hu)
      · intro hu r; exact latt_rowSum R Rrp' p hinj (h6 hu) r
      · intro he
        have : Rrp' = permMat R p := by
          apply AMat.ext_get; intro i j
          have := congrFun (congrFun (h7 he) i) j
          exact this
        rw [this]; exact latt_identity R p hinj

/-! ### non-vacuity: concrete runs satisfying the hypotheses and performing swaps -/

def exDir : AMat Int 4 := AMat.ofFn fun i j => if (i.val, j.val) ∈ [(0, 1), (2, 3), (1, 2)] then 5 else 0
def cfgDir : Cfg 4 := { und := false, conn := false, lat := none, mask := none, src := .all, attDen := some 12 }
example : EmptyDiag exDir := by unfold EmptyDiag; decide
example : (runBudget cfgDir exDir 1 [0, 2, 0, 2, 0, 2]).toOption.map (fun r => r.2.1) = some 3 := by decide

def exUnd : AMat Int 4 := AMat.ofFn fun i j => if (i.val, j.val) ∈ [(0, 1), (1, 0), (2, 3), (3, 2)] then 1 else 0
def cfgUnd : Cfg 4 := { und := true, conn := false, lat := none, mask := none, src := .tril, attDen := some 12 }
example : EmptyDiag exUnd ∧ Symm exUnd := by unfold EmptyDiag Symm; decide
example : (runBudget cfgUnd exUnd 1 [0, 1, 9007199254740991, 0, 1, 0]).toOption.map (fun r => r.2.1) = some 2 := by decide

/-- a 6-ring with a chord, `randmio_und_connected` (connectivity test active), recorded from a real bct run: 7 rewirings -/
def exRing : AMat Int 6 := matOfList #[0,1,0,1,0,1, 1,0,1,0,0,0, 0,1,0,1,0,0, 1,0,1,0,1,0, 0,0,0,1,0,1, 1,0,0,0,1,0]
def cfgUndConn : Cfg 6 := { und := true, conn := true, lat := none, mask := none, src := .tril, attDen := some 30 }
example : EmptyDiag exRing ∧ Symm exRing := by unfold EmptyDiag Symm; decide +kernel
example : (runBudget cfgUndConn exRing 1 [5, 3, 6488106240503889, 1, 3, 5, 0, 831712121985346, 4, 5, 6032536003562038, 1, 2,
    7622891058053459, 5, 2, 4, 3, 3994268574363959, 4, 5, 4813572562390792, 4, 1, 3879387813364119, 6, 0, 7011106949428834,
    1, 1, 5, 6, 1, 7893811719423966, 4, 1, 766010157269899]).toOption.map (fun r => (r.2.1, r.2.2)) = some (7, []) := by
  decide +kernel

/-- `randomize_graph_partial_und` with a mask (`src = triu1`, no attempt budget), recorded from a real run: 2 rewirings -/
def exMask : AMat Int 6 := matOfList #[0,0,1,0,0,0, 0,0,0,0,0,0, 1,0,0,0,0,0, 0,0,0,0,0,0, 0,0,0,0,0,0, 0,0,0,0,0,0]
def cfgPartial : Cfg 6 := { und := true, conn := false, lat := none, mask := some exMask, src := .triu1, attDen := none }
example : (runBudget cfgPartial exRing 2 [5, 3, 6488106240503889, 1, 3, 8998556985083693, 0, 0, 1, 4, 5, 4, 6, 8426586821345170,
    4, 6, 2821716988242478, 4, 3, 4, 2, 2067847708412798, 6, 2, 4, 1, 1, 6, 1784339584848401]).toOption.map
    (fun r => (r.2.1, r.2.2)) = some (2, []) := by
  decide +kernel

/-- `latmio_dir` (node permutation, default distance-to-diagonal matrix, lattice guard), recorded from a real run: 3 rewirings -/
def exLat : AMat Int 5 := matOfList #[0,2,2,0,0, 0,0,2,0,0, 0,0,0,2,0, 0,0,0,0,2, 2,0,0,0,0]
def cfgLat : Cfg 5 := { und := false, conn := false, lat := some (defaultD 5), mask := none, src := .all, attDen := some 20 }
example : EmptyDiag exLat := by unfold EmptyDiag; decide +kernel
example : (runLatt cfgLat exLat [2, 4, 0, 3, 1] 1 [1, 5, 4, 1, 2, 0, 5, 4, 0, 5, 0, 5, 4, 5, 4, 2, 4, 1, 2, 5, 5, 4, 1, 3, 0, 0,
    1, 3, 3, 2, 2, 0, 5, 0, 3, 1, 3, 2, 1, 3, 4, 5]).toOption.map (fun r => (showMat r.1, r.2.2.1, r.2.2.2)) =
    some ("0,2,0,2,0,0,0,2,0,0,0,0,0,0,2,2,0,0,0,0,0,0,2,0,0", 3, []) := by
  decide +kernel

/-- `latmio_und_connected` (undirected latticiser: permutation, lattice guard, connectivity test), recorded from a real
run (seed 250): 6 rewirings -/
def cfgLatUnd : Cfg 6 := { und := true, conn := true, lat := some (defaultD 6), mask := none, src := .tril, attDen := some 15 }
example : (runLatt cfgLatUnd exRing [3, 4, 1, 0, 2, 5] 1 [2, 3, 8577281397827444, 1, 1, 3, 5, 1, 6964326427204553, 5, 2,
    4552360554853734, 0, 0, 6, 5188397916458668, 2, 2, 2, 4, 4, 2, 1, 3, 0, 4, 8434841016714293, 0, 6, 7180930707599627, 4, 4,
    5, 5131451877229496, 2, 0, 0, 6, 6890572167477813, 4, 3, 6, 0, 6336422562378967, 2, 4, 1, 5, 930006947560358, 5, 3,
    4289450393412178, 5, 0, 3187270376362732]).toOption.map (fun r => (showMat r.1, r.2.2.1, r.2.2.2)) =
    some ("0,1,1,1,0,0,1,0,1,0,0,0,1,1,0,0,0,0,1,0,0,0,1,1,0,0,0,1,0,1,0,0,0,1,1,0", 6, []) := by
  decide +kernel

end Bct.C01
