import BctVerif.Model.Rewire
namespace Bct.C01
theorem placeholder : True := trivial
end Bct.C01
