import BctVerif.Model.RngIR
/-!
# C05 — seeded calls are reproducible and never touch the global random stream

Meta-theorems about the RNG-effect IR of `Model/RngIR.lean`, proved once.  The per-function obligations
`theorem <fn>_ok : RngIR.ok table "<fn>" = true := by decide` and `table_ok : okTable table = true` are
regenerated from /repo's source by `translate/effects.py` into `Gen/EffectsRng.lean` on every check run.

What is proved (for every table `tbl` with `okTable tbl = true`, every function body in it, every execution):

* `disciplined_sound`   seeded call  ⇒ the world (global NumPy generator, Python `random`, untracked sources)
                          is exactly as before;
* `unseeded_sound`      unseeded call ⇒ only the global NumPy generator is consumed;
* `seeded_deterministic`   seeded run   ⇒ the final state (all values drawn, all decisions taken) is a function
                          of the private seeded stream alone, and no other stream is advanced;
* `unseeded_deterministic` unseeded run ⇒ the final state is a function of the global NumPy stream alone;
* `getRng_*`            the three cases of the hand model of `get_rng`, including
                          `int seed ≡ RandomState(int)`.

The translator (Python AST → IR) is trusted; it is validated dynamically by `harness/props/c05.py`.
-/
namespace Bct.C05
open Bct.RngIR

theorem lookup_mem {tbl : Table} {f : String} {d : FnDecl} (h : lookup tbl f = some d) : (f, d) ∈ tbl := by
  induction tbl with
  | nil => simp [lookup] at h
  | cons p t ih =>
    obtain ⟨g, e⟩ := p
    simp only [lookup] at h
    split at h
    · rename_i hg
      cases h; subst hg; exact List.mem_cons_self
    · exact List.mem_cons_of_mem _ (ih h)

theorem okDecl_of_lookup {tbl : Table} (ht : okTable tbl = true) {f : String} {d : FnDecl}
    (h : lookup tbl f = some d) : okS tbl d.hasSeed d.body = true := by
  unfold okTable at ht
  rw [List.all_eq_true] at ht
  exact ht (f, d) (lookup_mem h)

/-- frame kind ↦ "this frame belongs to a function with a seed parameter" -/
def seedfulOf : Local → Bool
  | .none => false
  | _ => true

theorem okS_seq_tail {tbl sf s ss} (h : okS tbl sf (.seq (s :: ss)) = true) :
    okS tbl sf s = true ∧ okS tbl sf (.seq ss) = true := by
  simp only [okS, okL, Bool.and_eq_true] at h
  exact ⟨h.1, by simp only [okS]; exact h.2⟩

/-- Core lemma.  In a table whose functions are all disciplined, every execution of a disciplined statement
    leaves Python's `random` and the untracked sources alone, and — unless the frame's local generator *is*
    the global one (unseeded call) — leaves NumPy's global generator alone too. -/
theorem exec_ok {tbl : Table} (ht : okTable tbl = true) :
    ∀ {l : Local} {s : Stmt} {w w' : World}, Exec tbl l s w w' → okS tbl (seedfulOf l) s = true →
      w'.pyGlobal = w.pyGlobal ∧ w'.untracked = w.untracked ∧ (l ≠ .glob → w'.npGlobal = w.npGlobal) := by
  intro l s w w' h
  induction h with
  | bind l w => intro _; exact ⟨rfl, rfl, fun _ => rfl⟩
  | draw l g w =>
    intro hok
    simp only [okS, Bool.and_eq_true, beq_iff_eq] at hok
    obtain ⟨hs, hg⟩ := hok
    subst hg
    cases l with
    | priv => exact ⟨rfl, rfl, fun _ => rfl⟩
    | glob => exact ⟨rfl, rfl, fun h => absurd rfl h⟩
    | none => simp [seedfulOf] at hs
  | call l f a d w w' hl _ ih =>
    intro hok
    simp only [okS, okCall, hl] at hok
    have hbody := okDecl_of_lookup ht hl
    cases hd : d.hasSeed with
    | true =>
      simp only [hd, if_true, Bool.and_eq_true, Bool.or_eq_true, beq_iff_eq] at hok
      obtain ⟨hs, ha⟩ := hok
      have hl' : calleeLocal d.hasSeed a l = l := by
        rcases ha with ha | ha <;> subst ha <;> simp [calleeLocal, hd]
      rw [hl'] at ih
      have hsf : seedfulOf l = d.hasSeed := by rw [hs, hd]
      rw [hsf] at ih
      exact ih hbody
    | false =>
      have hl' : calleeLocal d.hasSeed a l = .none := by simp [calleeLocal, hd]
      rw [hl'] at ih
      have := ih (by simpa [seedfulOf, hd] using hbody)
      exact ⟨this.1, this.2.1, fun _ => this.2.2 (by decide)⟩
  | callUnknown l f a w hl =>
    intro hok
    simp [okS, okCall, hl] at hok
  | seqNil l w => intro _; exact ⟨rfl, rfl, fun _ => rfl⟩
  | seqCons l s ss w1 w2 w3 _ _ ih1 ih2 =>
    intro hok
    obtain ⟨h1, h2⟩ := okS_seq_tail hok
    obtain ⟨a1, b1, c1⟩ := ih1 h1
    obtain ⟨a2, b2, c2⟩ := ih2 h2
    exact ⟨a2.trans a1, b2.trans b1, fun hl => (c2 hl).trans (c1 hl)⟩
  | brL l a b w1 w2 _ ih =>
    intro hok
    simp only [okS, Bool.and_eq_true] at hok
    exact ih hok.1
  | brR l a b w1 w2 _ ih =>
    intro hok
    simp only [okS, Bool.and_eq_true] at hok
    exact ih hok.2
  | loop0 l b w => intro _; exact ⟨rfl, rfl, fun _ => rfl⟩
  | loopS l b w1 w2 w3 _ _ ih1 ih2 =>
    intro hok
    have hb : okS tbl (seedfulOf l) b = true := by simpa [okS] using hok
    obtain ⟨a1, b1, c1⟩ := ih1 hb
    obtain ⟨a2, b2, c2⟩ := ih2 hok
    exact ⟨a2.trans a1, b2.trans b1, fun hl => (c2 hl).trans (c1 hl)⟩

theorem world_ext {w w' : World} (h1 : w'.npGlobal = w.npGlobal) (h2 : w'.pyGlobal = w.pyGlobal)
    (h3 : w'.untracked = w.untracked) : w' = w := by
  cases w; cases w'; simp_all

/-- **C05, seeded clause.**  `f` is a function of a disciplined table that has a seed parameter; it is called
    with a seed (its local generator is a private stream).  Then every execution leaves the world — the state
    of NumPy's global generator, of Python's `random`, and the untracked-source flag — exactly as it was. -/
theorem disciplined_sound {tbl : Table} (ht : okTable tbl = true) {f : String} {d : FnDecl}
    (hf : lookup tbl f = some d) (hseed : d.hasSeed = true) {w w' : World}
    (h : Exec tbl .priv d.body w w') : w' = w := by
  have hb := okDecl_of_lookup ht hf
  rw [hseed] at hb
  obtain ⟨a, b, c⟩ := exec_ok ht h (by simpa [seedfulOf] using hb)
  exact world_ext (c (by decide)) a b

/-- statement-level form (the shape of the design prototype): a disciplined statement executed in a seeded
    frame does not change the world -/
theorem disciplined_sound_stmt {tbl : Table} (ht : okTable tbl = true) {s : Stmt} {w w' : World}
    (hok : okS tbl true s = true) (h : Exec tbl .priv s w w') : w' = w := by
  obtain ⟨a, b, c⟩ := exec_ok ht h (by simpa [seedfulOf] using hok)
  exact world_ext (c (by decide)) a b

/-- **C05, unseeded clause.**  Called without a seed, a disciplined function consumes nothing but NumPy's
    global generator: Python's `random` and the untracked sources are as before. -/
theorem unseeded_sound {tbl : Table} (ht : okTable tbl = true) {f : String} {d : FnDecl}
    (hf : lookup tbl f = some d) (hseed : d.hasSeed = true) {w w' : World}
    (h : Exec tbl .glob d.body w w') : w'.pyGlobal = w.pyGlobal ∧ w'.untracked = w.untracked := by
  have hb := okDecl_of_lookup ht hf
  rw [hseed] at hb
  obtain ⟨a, b, _⟩ := exec_ok ht h (by simpa [seedfulOf] using hb)
  exact ⟨a, b⟩

/-- a helper without a seed parameter, called from disciplined code, has no random effect at all -/
theorem helper_sound {tbl : Table} (ht : okTable tbl = true) {f : String} {d : FnDecl}
    (hf : lookup tbl f = some d) (hseed : d.hasSeed = false) {w w' : World}
    (h : Exec tbl .none d.body w w') : w' = w := by
  have hb := okDecl_of_lookup ht hf
  rw [hseed] at hb
  obtain ⟨a, b, c⟩ := exec_ok ht h (by simpa [seedfulOf] using hb)
  exact world_ext (c (by decide)) a b

/-- the per-function obligation `ok tbl f = true` is what the table check asks of `f` -/
theorem ok_iff {tbl : Table} {f : String} :
    ok tbl f = true ↔ ∃ d, lookup tbl f = some d ∧ okS tbl d.hasSeed d.body = true := by
  unfold ok okDecl
  cases h : lookup tbl f with
  | none => simp
  | some d => simp

/-! ## determinism over explicit streams ("the result is a function of arguments and seed / global state") -/

/-- the part of the state that a seeded run may not change -/
def St.globalsEq (a b : St) : Prop := a.npPos = b.npPos ∧ a.pyPos = b.pyPos ∧ a.unkPos = b.unkPos

/-- Core lemma of the deterministic semantics: for a disciplined statement in a disciplined table, two stream
    families that agree on the stream the frame is allowed to read (private stream for a seeded frame, global
    NumPy stream for an unseeded one) give the same run, and the positions of the forbidden streams do not move. -/
theorem run_ok {tbl : Table} (ht : okTable tbl = true) (σ σ' : Streams) (ctl : List Nat → Nat → Bool) :
    ∀ (n : Nat) (l : Local) (s : Stmt) (st : St), okS tbl (seedfulOf l) s = true →
      ((l = .priv → σ.priv = σ'.priv) ∧ (l = .glob → σ.np = σ'.np)) →
      run tbl σ ctl n l s st = run tbl σ' ctl n l s st ∧
      ∀ st', run tbl σ ctl n l s st = some st' →
        st'.pyPos = st.pyPos ∧ st'.unkPos = st.unkPos ∧ (l ≠ .glob → st'.npPos = st.npPos) ∧
        (l ≠ .priv → st'.privPos = st.privPos) := by
  intro n
  induction n with
  | zero => intro l s st _ _; simp [run]
  | succ n ih =>
    intro l s st hok hσ
    cases s with
    | bindRng =>
      simp only [run, Option.some.injEq, true_and]
      intro st' h; subst h; exact ⟨rfl, rfl, fun _ => rfl, fun _ => rfl⟩
    | draw g =>
      simp only [okS, Bool.and_eq_true, beq_iff_eq] at hok
      obtain ⟨hs, hg⟩ := hok
      subst hg
      cases l with
      | priv =>
        have := hσ.1 rfl
        simp only [run, srcOf, srcOfLocal, pull, this, Option.some.injEq, true_and]
        intro st' h; subst h
        exact ⟨rfl, rfl, fun _ => rfl, fun h => absurd rfl h⟩
      | glob =>
        have := hσ.2 rfl
        simp only [run, srcOf, srcOfLocal, pull, this, Option.some.injEq, true_and]
        intro st' h; subst h
        exact ⟨rfl, rfl, fun h => absurd rfl h, fun _ => rfl⟩
      | none => simp [seedfulOf] at hs
    | call f a =>
      simp only [okS, okCall] at hok
      cases hl : lookup tbl f with
      | none => simp [hl] at hok
      | some d =>
        simp only [hl] at hok
        have hbody := okDecl_of_lookup ht hl
        simp only [run, hl]
        cases hd : d.hasSeed with
        | true =>
          simp only [hd, if_true, Bool.and_eq_true, Bool.or_eq_true, beq_iff_eq] at hok
          obtain ⟨hs, ha⟩ := hok
          have hl' : calleeLocal true a l = l := by
            rcases ha with ha | ha <;> subst ha <;> simp [calleeLocal]
          rw [hl']
          have hsf : seedfulOf l = d.hasSeed := by rw [hs, hd]
          exact ih l d.body st (by rw [hsf]; exact hbody) hσ
        | false =>
          have hl' : calleeLocal false a l = .none := by simp [calleeLocal]
          rw [hl']
          have h := ih .none d.body st (by simpa [seedfulOf, hd] using hbody)
            ⟨(fun h => nomatch h), (fun h => nomatch h)⟩
          refine ⟨h.1, fun st' hst' => ?_⟩
          obtain ⟨a1, a2, a3, a4⟩ := h.2 st' hst'
          exact ⟨a1, a2, fun _ => a3 (by decide), fun _ => a4 (by decide)⟩
    | seq ss =>
      cases ss with
      | nil =>
        simp only [run, Option.some.injEq, true_and]
        intro st' h; subst h; exact ⟨rfl, rfl, fun _ => rfl, fun _ => rfl⟩
      | cons s ss =>
        obtain ⟨h1, h2⟩ := okS_seq_tail hok
        obtain ⟨e1, p1⟩ := ih l s st h1 hσ
        simp only [run]
        rw [← e1]
        cases hr : run tbl σ ctl n l s st with
        | none => simp
        | some st1 =>
          obtain ⟨e2, p2⟩ := ih l (.seq ss) st1 h2 hσ
          simp only []
          refine ⟨e2, fun st' hst' => ?_⟩
          obtain ⟨a1, a2, a3, a4⟩ := p1 st1 hr
          obtain ⟨b1, b2, b3, b4⟩ := p2 st' hst'
          exact ⟨b1.trans a1, b2.trans a2, fun h => (b3 h).trans (a3 h), fun h => (b4 h).trans (a4 h)⟩
    | branch a b =>
      simp only [okS, Bool.and_eq_true] at hok
      simp only [run]
      by_cases hc : ctl st.hist st.steps = true
      · simp only [hc, if_true]
        obtain ⟨e, p⟩ := ih l a (tick st) hok.1 hσ
        exact ⟨e, fun st' h => by simpa [tick] using p st' h⟩
      · simp only [hc, Bool.false_eq_true, ↓reduceIte]
        obtain ⟨e, p⟩ := ih l b (tick st) hok.2 hσ
        exact ⟨e, fun st' h => by simpa [tick] using p st' h⟩
    | loop b =>
      have hb : okS tbl (seedfulOf l) b = true := by simpa [okS] using hok
      simp only [run]
      by_cases hc : ctl st.hist st.steps = true
      · simp only [hc, if_true]
        obtain ⟨e1, p1⟩ := ih l b (tick st) hb hσ
        rw [← e1]
        cases hr : run tbl σ ctl n l b (tick st) with
        | none => simp
        | some st1 =>
          obtain ⟨e2, p2⟩ := ih l (.loop b) st1 hok hσ
          simp only []
          refine ⟨e2, fun st' hst' => ?_⟩
          obtain ⟨a1, a2, a3, a4⟩ := p1 st1 hr
          obtain ⟨b1, b2, b3, b4⟩ := p2 st' hst'
          simp only [tick] at a1 a2 a3 a4
          exact ⟨b1.trans a1, b2.trans a2, fun h => (b3 h).trans (a3 h), fun h => (b4 h).trans (a4 h)⟩
      · simp only [hc, Bool.false_eq_true, ↓reduceIte, Option.some.injEq, true_and]
        intro st' h; subst h
        exact ⟨rfl, rfl, fun _ => rfl, fun _ => rfl⟩

/-- **C05, "identical results for identical arguments and seed".**  For a disciplined seed-accepting function
    called with a seed, the complete run (every value drawn, every decision) is determined by the private
    seeded stream: changing the global NumPy stream, Python's `random` stream and the unknown sources in any
    way gives the same final state; and none of those three streams is advanced. -/
theorem seeded_deterministic {tbl : Table} (ht : okTable tbl = true) {f : String} {d : FnDecl}
    (hf : lookup tbl f = some d) (hseed : d.hasSeed = true)
    (σ σ' : Streams) (hσ : σ.priv = σ'.priv) (ctl : List Nat → Nat → Bool) (n : Nat) (st : St) :
    run tbl σ ctl n .priv d.body st = run tbl σ' ctl n .priv d.body st ∧
    ∀ st', run tbl σ ctl n .priv d.body st = some st' → St.globalsEq st' st := by
  have hb := okDecl_of_lookup ht hf
  rw [hseed] at hb
  obtain ⟨e, p⟩ := run_ok ht σ σ' ctl n .priv d.body st (by simpa [seedfulOf] using hb)
    ⟨fun _ => hσ, fun h => nomatch h⟩
  refine ⟨e, fun st' h => ?_⟩
  obtain ⟨a1, a2, a3, _⟩ := p st' h
  exact ⟨a3 (by decide), a1, a2⟩

/-- **C05, "called without a seed, the result is a function of the arguments and the state of numpy's global
    generator alone".**  Unseeded, the run is determined by the global NumPy stream; Python's `random` and the
    unknown sources are neither read nor advanced. -/
theorem unseeded_deterministic {tbl : Table} (ht : okTable tbl = true) {f : String} {d : FnDecl}
    (hf : lookup tbl f = some d) (hseed : d.hasSeed = true)
    (σ σ' : Streams) (hσ : σ.np = σ'.np) (ctl : List Nat → Nat → Bool) (n : Nat) (st : St) :
    run tbl σ ctl n .glob d.body st = run tbl σ' ctl n .glob d.body st ∧
    ∀ st', run tbl σ ctl n .glob d.body st = some st' → st'.pyPos = st.pyPos ∧ st'.unkPos = st.unkPos := by
  have hb := okDecl_of_lookup ht hf
  rw [hseed] at hb
  obtain ⟨e, p⟩ := run_ok ht σ σ' ctl n .glob d.body st (by simpa [seedfulOf] using hb)
    ⟨(fun h => nomatch h), fun _ => hσ⟩
  refine ⟨e, fun st' h => ?_⟩
  obtain ⟨a1, a2, _, _⟩ := p st' h
  exact ⟨a1, a2⟩

/-! ## `get_rng` -/

theorem getRng_none : getRng .none = .global ∧ getRng .npRandom = .global := ⟨rfl, rfl⟩

/-- a `RandomState` is passed through unchanged (same object, same position) -/
theorem getRng_randomState (k pos : Nat) : getRng (.randomState k pos) = .stream k pos := rfl

/-- an integer seed gives the generator that `RandomState(k)` gives: *int seed ≡ RandomState(int)* -/
theorem getRng_int_eq_randomState (k : Nat) : getRng (.int k) = getRng (.randomState k 0) := rfl

/-- exactly the seedless values bind the local generator to the global one -/
theorem localOf_glob_iff (s : SeedVal) : localOf s = .glob ↔ (s = .none ∨ s = .npRandom) := by
  cases s <;> simp [localOf, getRng]

/-- hence the frame of a call with an int or a RandomState seed is private, which is the hypothesis of
    `disciplined_sound` / `seeded_deterministic` -/
theorem localOf_priv (s : SeedVal) (h : s ≠ .none ∧ s ≠ .npRandom) : localOf s = .priv := by
  cases s <;> simp_all [localOf, getRng]

/-! ## `get_rng` connected to the run semantics -/

/-- **"the same result for an integer seed as for a RandomState constructed from that integer".**  In the model, a
    run with `seed = k` and a run with `seed = RandomState(k)` (fresh, no draw made) are the same run: both read stream
    `k` from position 0.  NOTE: this holds *by the definition of the hand model* `getRng` (an int is turned into
    `RandomState(int)`); that the real `get_rng` behaves like the hand model is established by the correspondence cases
    of the check (identity / state comparison on the real function), not by a proof. -/
theorem runSeed_int_eq_randomState (tbl : Table) (σ : SeedStreams) (ctl : List Nat → Nat → Bool) (n k : Nat)
    (body : Stmt) (st : St) :
    runSeed tbl σ ctl n (.int k) body st = runSeed tbl σ ctl n (.randomState k 0) body st := rfl

/-- seeded call through `getRng`: for a disciplined function the run is determined by the stream of the caller's seed
    alone (from the position the caller's generator stands at), and the global generators are not advanced -/
theorem runSeed_seeded {tbl : Table} (ht : okTable tbl = true) {f : String} {d : FnDecl}
    (hf : lookup tbl f = some d) (hseed : d.hasSeed = true) {s : SeedVal} {k pos : Nat} (hs : getRng s = .stream k pos)
    (σ σ' : SeedStreams) (hσ : σ.privOf k = σ'.privOf k) (ctl : List Nat → Nat → Bool) (n : Nat) (st : St) :
    runSeed tbl σ ctl n s d.body st = runSeed tbl σ' ctl n s d.body st ∧
    ∀ st', runSeed tbl σ ctl n s d.body st = some st' →
      st'.npPos = st.npPos ∧ st'.pyPos = st.pyPos ∧ st'.unkPos = st.unkPos := by
  unfold runSeed
  simp only [hs]
  obtain ⟨e, p⟩ := seeded_deterministic ht hf hseed (σ.streams k) (σ'.streams k) (by simpa [SeedStreams.streams] using hσ)
    ctl n { st with privPos := pos }
  exact ⟨e, fun st' h => p st' h⟩

/-- unseeded call through `getRng` (`None` or `np.random`): determined by the global NumPy stream alone -/
theorem runSeed_unseeded {tbl : Table} (ht : okTable tbl = true) {f : String} {d : FnDecl}
    (hf : lookup tbl f = some d) (hseed : d.hasSeed = true) {s : SeedVal} (hs : getRng s = .global)
    (σ σ' : SeedStreams) (hσ : σ.np = σ'.np) (ctl : List Nat → Nat → Bool) (n : Nat) (st : St) :
    runSeed tbl σ ctl n s d.body st = runSeed tbl σ' ctl n s d.body st ∧
    ∀ st', runSeed tbl σ ctl n s d.body st = some st' → st'.pyPos = st.pyPos ∧ st'.unkPos = st.unkPos := by
  unfold runSeed
  simp only [hs]
  exact unseeded_deterministic ht hf hseed (σ.streams 0) (σ'.streams 0) (by simpa [SeedStreams.streams] using hσ) ctl n st

/-! ## non-vacuity: a concrete table, a concrete bad skeleton, concrete executions -/

def exTable : Table :=
  [("pick4", ⟨true, .seq [.bindRng, .draw .localRng, .branch (.seq []) (.call "pick4" .rngObj)]⟩),
   ("helper", ⟨false, .seq []⟩),
   ("randmio", ⟨true, .seq [.bindRng, .call "helper" .absent,
      .loop (.seq [.draw .localRng, .loop (.draw .localRng), .call "pick4" .rngObj])]⟩)]

example : okTable exTable = true := by decide
example : ok exTable "randmio" = true := by decide

/-- a stray `np.random.rand()`, a stray `random.random()`, a nested call that drops the seed and a draw inside
    a helper without seed parameter are all rejected -/
example : ok [("f", ⟨true, .seq [.bindRng, .loop (.draw .globalRng)]⟩)] "f" = false := by decide
example : ok [("f", ⟨true, .seq [.bindRng, .draw .pyRandom]⟩)] "f" = false := by decide
example : ok [("g", ⟨true, .bindRng⟩), ("f", ⟨true, .seq [.bindRng, .call "g" .absent]⟩)] "f" = false := by decide
example : ok [("g", ⟨true, .bindRng⟩), ("f", ⟨true, .seq [.bindRng, .call "g" .noneLit]⟩)] "f" = false := by decide
example : okTable [("h", ⟨false, .draw .globalRng⟩), ("f", ⟨true, .call "h" .absent⟩)] = false := by decide
example : ok [("f", ⟨true, .call "nowhere" .rngObj⟩)] "f" = false := by decide

/-- the hypotheses of `disciplined_sound` are satisfiable with a non-trivial execution (two draws) … -/
example : Exec exTable .priv (.seq [.draw .localRng, .draw .localRng]) ⟨3, 4, false⟩ ⟨3, 4, false⟩ :=
  .seqCons _ _ _ _ _ _ (.draw _ _ _) (.seqCons _ _ _ _ _ _ (.draw _ _ _) (.seqNil _ _))

/-- … and the semantics does distinguish: the same draws in an unseeded frame advance the global generator,
    and a stray global draw in a seeded frame changes the world -/
example : Exec exTable .glob (.draw .localRng) ⟨3, 4, false⟩ ⟨4, 4, false⟩ := .draw _ _ _
example : Exec exTable .priv (.draw .globalRng) ⟨3, 4, false⟩ ⟨4, 4, false⟩ := .draw _ _ _
example : Exec exTable .priv (.draw .pyRandom) ⟨3, 4, false⟩ ⟨3, 5, false⟩ := .draw _ _ _

/-- the deterministic semantics really reads the streams: different private streams, different results -/
example : run exTable ⟨fun _ => 1, fun _ => 0, fun _ => 0, fun _ => 0⟩ (fun _ _ => false) 5 .priv
            (.seq [.draw .localRng]) ⟨[], 0, 0, 0, 0, 0⟩ = some ⟨[1], 0, 1, 0, 0, 0⟩ := by decide
example : run exTable ⟨fun _ => 2, fun _ => 0, fun _ => 0, fun _ => 0⟩ (fun _ _ => false) 5 .priv
            (.seq [.draw .localRng]) ⟨[], 0, 0, 0, 0, 0⟩ = some ⟨[2], 0, 1, 0, 0, 0⟩ := by decide

end Bct.C05
