import BctVerif.Model.RngIR
/-!
# C05 — seeded calls are reproducible and never touch the global random stream

Meta-theorems about the RNG-effect IR of `Model/RngIR.lean`, proved once.  The per-function obligations
`theorem <fn>_ok : RngIR.ok table "<fn>" = true := by decide` and `table_ok : okTable table = true` are
regenerated from /repo's source by `translate/effects.py` into `Gen/EffectsRng.lean` on every check run.

What is proved (for every table `tbl` with `okTable tbl = true`, every function body in it, every execution):

* `disciplined_sound`   seeded call  ⇒ the world (global NumPy generator, Python `random`, untracked sources)
                          is exactly as before;
* `unseeded_sound`      unseeded call ⇒ only the global NumPy generator is consumed;
* `seeded_deterministic`   seeded run   ⇒ the final state (all values drawn, all decisions taken) is a function
                          of the private seeded stream alone, and no other stream is advanced;
* `unseeded_deterministic` unseeded run ⇒ the final state is a function of the global NumPy stream alone;
* `getRng_*`            the three cases of the hand model of `get_rng`, including
                          `int seed ≡ RandomState(int)`.

The translator (Python AST → IR) is trusted; it is validated dynamically by `harness/props/c05.py`.
-/
namespace Bct.C05
open Bct.RngIR

theorem lookup_mem {tbl : Table} {f : String} {d : FnDecl} (h : lookup tbl f = some d) : (f, d) ∈ tbl := by
  induction tbl with
  | nil => simp [lookup] at h
  | cons p t ih =>
    obtain ⟨g, e⟩ := p
    simp only [lookup] at h
    split at h
    · rename_i hg
      cases h; subst hg; exact List.mem_cons_self
    · exact List.mem_cons_of_mem _ (ih h)

theorem okDecl_of_lookup {tbl : Table} (ht : okTable tbl = true) {f : String} {d : FnDecl}
    (h : lookup tbl f = some d) : okS tbl d.hasSeed d.body = true := by
  unfold okTable at ht
  rw [List.all_eq_true] at ht
  have := ht (f, d) (lookup_mem h)
  simp only [okDecl, Bool.and_eq_true] at this
  exact this.1

/-- frame kind ↦ "this frame belongs to a function with a seed parameter" -/
def seedfulOf : Local → Bool
  | .none => false
  | _ => true

theorem okS_seq_tail {tbl sf s ss} (h : okS tbl sf (.seq (s :: ss)) = true) :
    okS tbl sf s = true ∧ okS tbl sf (.seq ss) = true := by
  simp only [okS, okL, Bool.and_eq_true] at h
  exact ⟨h.1, by simp only [okS]; exact h.2⟩

/-- Core lemma.  In a table whose functions are all disciplined, every execution of a disciplined statement
    leaves Python's `random` and the untracked sources alone, and — unless the frame's local generator *is*
    the global one (unseeded call) — leaves NumPy's global generator alone too. -/
theorem exec_ok {tbl : Table} (ht : okTable tbl = true) :
    ∀ {l : Local} {s : Stmt} {w w' : World}, Exec tbl l s w w' → okS tbl (seedfulOf l) s = true →
      w'.pyGlobal = w.pyGlobal ∧ w'.untracked = w.untracked ∧ (l ≠ .glob → w'.npGlobal = w.npGlobal) := by
  intro l s w w' h
  induction h with
  | bind l w => intro _; exact ⟨rfl, rfl, fun _ => rfl⟩
  | draw l g w =>
    intro hok
    simp only [okS, Bool.and_eq_true, beq_iff_eq] at hok
    obtain ⟨hs, hg⟩ := hok
    subst hg
    cases l with
    | priv => exact ⟨rfl, rfl, fun _ => rfl⟩
    | glob => exact ⟨rfl, rfl, fun h => absurd rfl h⟩
    | none => simp [seedfulOf] at hs
  | call l f a d w w' hl _ ih =>
    intro hok
    simp only [okS, okCall, hl] at hok
    have hbody := okDecl_of_lookup ht hl
    cases hd : d.hasSeed with
    | true =>
      simp only [hd, if_true, Bool.and_eq_true, Bool.or_eq_true, beq_iff_eq] at hok
      obtain ⟨hs, ha⟩ := hok
      have hl' : calleeLocal d.hasSeed a l = l := by
        rcases ha with ha | ha <;> subst ha <;> simp [calleeLocal, hd]
      rw [hl'] at ih
      have hsf : seedfulOf l = d.hasSeed := by rw [hs, hd]
      rw [hsf] at ih
      exact ih hbody
    | false =>
      have hl' : calleeLocal d.hasSeed a l = .none := by simp [calleeLocal, hd]
      rw [hl'] at ih
      have := ih (by simpa [seedfulOf, hd] using hbody)
      exact ⟨this.1, this.2.1, fun _ => this.2.2 (by decide)⟩
  | callUnknown l f a w hl =>
    intro hok
    simp [okS, okCall, hl] at hok
  | seqNil l w => intro _; exact ⟨rfl, rfl, fun _ => rfl⟩
  | seqCons l s ss w1 w2 w3 _ _ ih1 ih2 =>
    intro hok
    obtain ⟨h1, h2⟩ := okS_seq_tail hok
    obtain ⟨a1, b1, c1⟩ := ih1 h1
    obtain ⟨a2, b2, c2⟩ := ih2 h2
    exact ⟨a2.trans a1, b2.trans b1, fun hl => (c2 hl).trans (c1 hl)⟩
  | brL l a b w1 w2 _ ih =>
    intro hok
    simp only [okS, Bool.and_eq_true] at hok
    exact ih hok.1
  | brR l a b w1 w2 _ ih =>
    intro hok
    simp only [okS, Bool.and_eq_true] at hok
    exact ih hok.2
  | loop0 l b w => intro _; exact ⟨rfl, rfl, fun _ => rfl⟩
  | loopS l b w1 w2 w3 _ _ ih1 ih2 =>
    intro hok
    have hb : okS tbl (seedfulOf l) b = true := by simpa [okS] using hok
    obtain ⟨a1, b1, c1⟩ := ih1 hb
    obtain ⟨a2, b2, c2⟩ := ih2 hok
    exact ⟨a2.trans a1, b2.trans b1, fun hl => (c2 hl).trans (c1 hl)⟩

theorem world_ext {w w' : World} (h1 : w'.npGlobal = w.npGlobal) (h2 : w'.pyGlobal = w.pyGlobal)
    (h3 : w'.untracked = w.untracked) : w' = w := by
  cases w; cases w'; simp_all

/-- **C05, seeded clause.**  `f` is a function of a disciplined table that has a seed parameter; it is called
    with a seed (its local generator is a private stream).  Then every execution leaves the world — the state
    of NumPy's global generator, of Python's `random`, and the untracked-source flag — exactly as it was. -/
theorem disciplined_sound {tbl : Table} (ht : okTable tbl = true) {f : String} {d : FnDecl}
    (hf : lookup tbl f = some d) (hseed : d.hasSeed = true) {w w' : World}
    (h : Exec tbl .priv d.body w w') : w' = w := by
  have hb := okDecl_of_lookup ht hf
  rw [hseed] at hb
  obtain ⟨a, b, c⟩ := exec_ok ht h (by simpa [seedfulOf] using hb)
  exact world_ext (c (by decide)) a b

/-- statement-level form (the shape of the design prototype): a disciplined statement executed in a seeded
    frame does not change the world -/
theorem disciplined_sound_stmt {tbl : Table} (ht : okTable tbl = true) {s : Stmt} {w w' : World}
    (hok : okS tbl true s = true) (h : Exec tbl .priv s w w') : w' = w := by
  obtain ⟨a, b, c⟩ := exec_ok ht h (by simpa [seedfulOf] using hok)
  exact world_ext (c (by decide)) a b

/-- **C05, unseeded clause.**  Called without a seed, a disciplined function consumes nothing but NumPy's
    global generator: Python's `random` and the untracked sources are as before. -/
theorem unseeded_sound {tbl : Table} (ht : okTable tbl = true) {f : String} {d : FnDecl}
    (hf : lookup tbl f = some d) (hseed : d.hasSeed = true) {w w' : World}
    (h : Exec tbl .glob d.body w w') : w'.pyGlobal = w.pyGlobal ∧ w'.untracked = w.untracked := by
  have hb := okDecl_of_lookup ht hf
  rw [hseed] at hb
  obtain ⟨a, b, _⟩ := exec_ok ht h (by simpa [seedfulOf] using hb)
  exact ⟨a, b⟩

/-- a helper without a seed parameter, called from disciplined code, has no random effect at all -/
theorem helper_sound {tbl : Table} (ht : okTable tbl = true) {f : String} {d : FnDecl}
    (hf : lookup tbl f = some d) (hseed : d.hasSeed = false) {w w' : World}
    (h : Exec tbl .none d.body w w') : w' = w := by
  have hb := okDecl_of_lookup ht hf
  rw [hseed] at hb
  obtain ⟨a, b, c⟩ := exec_ok ht h (by simpa [seedfulOf] using hb)
  exact world_ext (c (by decide)) a b

/-- the per-function obligation `ok tbl f = true` is what the table check asks of `f` -/
theorem ok_iff {tbl : Table} {f : String} :
    ok tbl f = true ↔ ∃ d, lookup tbl f = some d ∧ okDecl tbl d = true := by
  unfold ok
  cases h : lookup tbl f with
  | none => simp
  | some d => simp

/-! ## determinism over explicit streams ("the result is a function of arguments and seed / global state") -/

/-- the part of the state that a seeded run may not change -/
def St.globalsEq (a b : St) : Prop := a.npPos = b.npPos ∧ a.pyPos = b.pyPos ∧ a.unkPos = b.unkPos

/-- Core lemma of the deterministic semantics: for a disciplined statement in a disciplined table, two stream
    families that agree on the stream the frame is allowed to read (private stream for a seeded frame, global
    NumPy stream for an unseeded one) give the same run, and the positions of the forbidden streams do not move. -/
theorem run_ok {tbl : Table} (ht : okTable tbl = true) (σ σ' : Streams) (ctl : List Nat → Nat → Bool) :
    ∀ (n : Nat) (l : Local) (s : Stmt) (st : St), okS tbl (seedfulOf l) s = true →
      ((l = .priv → σ.priv = σ'.priv) ∧ (l = .glob → σ.np = σ'.np)) →
      run tbl σ ctl n l s st = run tbl σ' ctl n l s st ∧
      ∀ st', run tbl σ ctl n l s st = some st' →
        st'.pyPos = st.pyPos ∧ st'.unkPos = st.unkPos ∧ (l ≠ .glob → st'.npPos = st.npPos) ∧
        (l ≠ .priv → st'.privPos = st.privPos) := by
  intro n
  induction n with
  | zero => intro l s st _ _; simp [run]
  | succ n ih =>
    intro l s st hok hσ
    cases s with
    | bindRng =>
      simp only [run, Option.some.injEq, true_and]
      intro st' h; subst h; exact ⟨rfl, rfl, fun _ => rfl, fun _ => rfl⟩
    | draw g =>
      simp only [okS, Bool.and_eq_true, beq_iff_eq] at hok
      obtain ⟨hs, hg⟩ := hok
      subst hg
      cases l with
      | priv =>
        have := hσ.1 rfl
        simp only [run, srcOf, srcOfLocal, pull, this, Option.some.injEq, true_and]
        intro st' h; subst h
        exact ⟨rfl, rfl, fun _ => rfl, fun h => absurd rfl h⟩
      | glob =>
        have := hσ.2 rfl
        simp only [run, srcOf, srcOfLocal, pull, this, Option.some.injEq, true_and]
        intro st' h; subst h
        exact ⟨rfl, rfl, fun h => absurd rfl h, fun _ => rfl⟩
      | none => simp [seedfulOf] at hs
    | call f a =>
      simp only [okS, okCall] at hok
      cases hl : lookup tbl f with
      | none => simp [hl] at hok
      | some d =>
        simp only [hl] at hok
        have hbody := okDecl_of_lookup ht hl
        simp only [run, hl]
        cases hd : d.hasSeed with
        | true =>
          simp only [hd, if_true, Bool.and_eq_true, Bool.or_eq_true, beq_iff_eq] at hok
          obtain ⟨hs, ha⟩ := hok
          have hl' : calleeLocal true a l = l := by
            rcases ha with ha | ha <;> subst ha <;> simp [calleeLocal]
          rw [hl']
          have hsf : seedfulOf l = d.hasSeed := by rw [hs, hd]
          exact ih l d.body st (by rw [hsf]; exact hbody) hσ
        | false =>
          have hl' : calleeLocal false a l = .none := by simp [calleeLocal]
          rw [hl']
          have h := ih .none d.body st (by simpa [seedfulOf, hd] using hbody)
            ⟨(fun h => nomatch h), (fun h => nomatch h)⟩
          refine ⟨h.1, fun st' hst' => ?_⟩
          obtain ⟨a1, a2, a3, a4⟩ := h.2 st' hst'
          exact ⟨a1, a2, fun _ => a3 (by decide), fun _ => a4 (by decide)⟩
    | seq ss =>
      cases ss with
      | nil =>
        simp only [run, Option.some.injEq, true_and]
        intro st' h; subst h; exact ⟨rfl, rfl, fun _ => rfl, fun _ => rfl⟩
      | cons s ss =>
        obtain ⟨h1, h2⟩ := okS_seq_tail hok
        obtain ⟨e1, p1⟩ := ih l s st h1 hσ
        simp only [run]
        rw [← e1]
        cases hr : run tbl σ ctl n l s st with
        | none => simp
        | some st1 =>
          obtain ⟨e2, p2⟩ := ih l (.seq ss) st1 h2 hσ
          simp only []
          refine ⟨e2, fun st' hst' => ?_⟩
          obtain ⟨a1, a2, a3, a4⟩ := p1 st1 hr
          obtain ⟨b1, b2, b3, b4⟩ := p2 st' hst'
          exact ⟨b1.trans a1, b2.trans a2, fun h => (b3 h).trans (a3 h), fun h => (b4 h).trans (a4 h)⟩
    | branch a b =>
      simp only [okS, Bool.and_eq_true] at hok
      simp only [run]
      by_cases hc : ctl st.hist st.steps = true
      · simp only [hc, if_true]
        obtain ⟨e, p⟩ := ih l a (tick st) hok.1 hσ
        exact ⟨e, fun st' h => by simpa [tick] using p st' h⟩
      · simp only [hc, Bool.false_eq_true, ↓reduceIte]
        obtain ⟨e, p⟩ := ih l b (tick st) hok.2 hσ
        exact ⟨e, fun st' h => by simpa [tick] using p st' h⟩
    | loop b =>
      have hb : okS tbl (seedfulOf l) b = true := by simpa [okS] using hok
      simp only [run]
      by_cases hc : ctl st.hist st.steps = true
      · simp only [hc, if_true]
        obtain ⟨e1, p1⟩ := ih l b (tick st) hb hσ
        rw [← e1]
        cases hr : run tbl σ ctl n l b (tick st) with
        | none => simp
        | some st1 =>
          obtain ⟨e2, p2⟩ := ih l (.loop b) st1 hok hσ
          simp only []
          refine ⟨e2, fun st' hst' => ?_⟩
          obtain ⟨a1, a2, a3, a4⟩ := p1 st1 hr
          obtain ⟨b1, b2, b3, b4⟩ := p2 st' hst'
          simp only [tick] at a1 a2 a3 a4
          exact ⟨b1.trans a1, b2.trans a2, fun h => (b3 h).trans (a3 h), fun h => (b4 h).trans (a4 h)⟩
      · simp only [hc, Bool.false_eq_true, ↓reduceIte, Option.some.injEq, true_and]
        intro st' h; subst h
        exact ⟨rfl, rfl, fun _ => rfl, fun _ => rfl⟩

/-- **C05, "identical results for identical arguments and seed".**  For a disciplined seed-accepting function
    called with a seed, the complete run (every value drawn, every decision) is determined by the private
    seeded stream: changing the global NumPy stream, Python's `random` stream and the unknown sources in any
    way gives the same final state; and none of those three streams is advanced. -/
theorem seeded_deterministic {tbl : Table} (ht : okTable tbl = true) {f : String} {d : FnDecl}
    (hf : lookup tbl f = some d) (hseed : d.hasSeed = true)
    (σ σ' : Streams) (hσ : σ.priv = σ'.priv) (ctl : List Nat → Nat → Bool) (n : Nat) (st : St) :
    run tbl σ ctl n .priv d.body st = run tbl σ' ctl n .priv d.body st ∧
    ∀ st', run tbl σ ctl n .priv d.body st = some st' → St.globalsEq st' st := by
  have hb := okDecl_of_lookup ht hf
  rw [hseed] at hb
  obtain ⟨e, p⟩ := run_ok ht σ σ' ctl n .priv d.body st (by simpa [seedfulOf] using hb)
    ⟨fun _ => hσ, fun h => nomatch h⟩
  refine ⟨e, fun st' h => ?_⟩
  obtain ⟨a1, a2, a3, _⟩ := p st' h
  exact ⟨a3 (by decide), a1, a2⟩

/-- **C05, "called without a seed, the result is a function of the arguments and the state of numpy's global
    generator alone".**  Unseeded, the run is determined by the global NumPy stream; Python's `random` and the
    unknown sources are neither read nor advanced. -/
theorem unseeded_deterministic {tbl : Table} (ht : okTable tbl = true) {f : String} {d : FnDecl}
    (hf : lookup tbl f = some d) (hseed : d.hasSeed = true)
    (σ σ' : Streams) (hσ : σ.np = σ'.np) (ctl : List Nat → Nat → Bool) (n : Nat) (st : St) :
    run tbl σ ctl n .glob d.body st = run tbl σ' ctl n .glob d.body st ∧
    ∀ st', run tbl σ ctl n .glob d.body st = some st' → st'.pyPos = st.pyPos ∧ st'.unkPos = st.unkPos := by
  have hb := okDecl_of_lookup ht hf
  rw [hseed] at hb
  obtain ⟨e, p⟩ := run_ok ht σ σ' ctl n .glob d.body st (by simpa [seedfulOf] using hb)
    ⟨(fun h => nomatch h), fun _ => hσ⟩
  refine ⟨e, fun st' h => ?_⟩
  obtain ⟨a1, a2, _, _⟩ := p st' h
  exact ⟨a1, a2⟩

/-! ## `get_rng` -/

theorem getRng_none : getRng .none = .global ∧ getRng .npRandom = .global := ⟨rfl, rfl⟩

/-- a `RandomState` is passed through unchanged (same object, same position) -/
theorem getRng_randomState (k pos : Nat) : getRng (.randomState k pos) = .stream k pos := rfl

/-- an integer seed gives the generator that `RandomState(k)` gives: *int seed ≡ RandomState(int)* -/
theorem getRng_int_eq_randomState (k : Nat) : getRng (.int k) = getRng (.randomState k 0) := rfl

/-- exactly the seedless values bind the local generator to the global one -/
theorem localOf_glob_iff (s : SeedVal) : localOf s = .glob ↔ (s = .none ∨ s = .npRandom) := by
  cases s <;> simp [localOf, getRng]

/-- hence the frame of a call with an int or a RandomState seed is private, which is the hypothesis of
    `disciplined_sound` / `seeded_deterministic` -/
theorem localOf_priv (s : SeedVal) (h : s ≠ .none ∧ s ≠ .npRandom) : localOf s = .priv := by
  cases s <;> simp_all [localOf, getRng]

/-! ## `get_rng` connected to the run semantics; integer seed ≡ RandomState(integer) -/

/-- two states that agree on everything but the position of the private stream -/
def SameButPriv (a b : St) : Prop :=
  a.hist = b.hist ∧ a.steps = b.steps ∧ a.npPos = b.npPos ∧ a.pyPos = b.pyPos ∧ a.unkPos = b.unkPos

/-- both runs run out of fuel, or both finish in related states -/
def RelO (R : St → St → Prop) (x y : Option St) : Prop :=
  (x = none ∧ y = none) ∨ ∃ a b, x = some a ∧ y = some b ∧ R a b

theorem RelO_mono {R R' : St → St → Prop} (h : ∀ a b, R a b → R' a b) {x y} (hx : RelO R x y) : RelO R' x y := by
  rcases hx with h0 | ⟨a, b, ha, hb, hr⟩
  · exact Or.inl h0
  · exact Or.inr ⟨a, b, ha, hb, h a b hr⟩

theorem SameButPriv_tick {a b : St} (h : SameButPriv a b) : SameButPriv (tick a) (tick b) := by
  obtain ⟨h1, h2, h3, h4, h5⟩ := h
  exact ⟨h1, by simp [tick, h2], h3, h4, h5⟩

/-- a helper without seed parameter (draw-free by the discipline) neither reads nor moves the private stream: runs from
    states that differ only in its position stay in step -/
theorem helper_shift {tbl : Table} (ht : okTable tbl = true) (σ : Streams) (ctl : List Nat → Nat → Bool) :
    ∀ (n : Nat) (s : Stmt) (a b : St), okS tbl false s = true → SameButPriv a b →
      RelO (fun x y => SameButPriv x y ∧ x.privPos = a.privPos ∧ y.privPos = b.privPos)
        (run tbl σ ctl n .none s a) (run tbl σ ctl n .none s b) := by
  intro n
  induction n with
  | zero => intro s a b _ _; exact Or.inl ⟨by simp [run], by simp [run]⟩
  | succ n ih =>
    intro s a b hok hab
    cases s with
    | bindRng => simp [okS] at hok
    | draw g => simp [okS] at hok
    | call f a' =>
      simp only [okS, okCall] at hok
      cases hl : lookup tbl f with
      | none => simp [hl] at hok
      | some d =>
        simp only [hl] at hok
        cases hd : d.hasSeed with
        | true => simp [hd] at hok
        | false =>
          have hbody := okDecl_of_lookup ht hl
          rw [hd] at hbody
          simp only [run, hl]
          have hl' : calleeLocal d.hasSeed a' .none = .none := by simp [calleeLocal, hd]
          rw [hl']
          exact ih d.body a b hbody hab
    | seq ss =>
      cases ss with
      | nil => exact Or.inr ⟨a, b, by simp [run], by simp [run], hab, rfl, rfl⟩
      | cons s ss =>
        obtain ⟨h1, h2⟩ := okS_seq_tail hok
        simp only [run]
        rcases ih s a b h1 hab with ⟨e1, e2⟩ | ⟨x, y, e1, e2, hxy, px, py⟩
        · exact Or.inl ⟨by simp [e1], by simp [e2]⟩
        · simp only [e1, e2]
          rcases ih (.seq ss) x y h2 hxy with ⟨f1, f2⟩ | ⟨u, v, f1, f2, huv, pu, pv⟩
          · exact Or.inl ⟨f1, f2⟩
          · exact Or.inr ⟨u, v, f1, f2, huv, pu.trans px, pv.trans py⟩
    | branch s1 s2 =>
      simp only [okS, Bool.and_eq_true] at hok
      simp only [run]
      have hc : ctl a.hist a.steps = ctl b.hist b.steps := by rw [hab.1, hab.2.1]
      rw [hc]
      have ht' := SameButPriv_tick hab
      cases ctl b.hist b.steps with
      | true =>
        simp only [if_true]
        exact RelO_mono (fun x y h => ⟨h.1, by simpa [tick] using h.2.1, by simpa [tick] using h.2.2⟩) (ih s1 _ _ hok.1 ht')
      | false =>
        simp only [Bool.false_eq_true, if_false]
        exact RelO_mono (fun x y h => ⟨h.1, by simpa [tick] using h.2.1, by simpa [tick] using h.2.2⟩) (ih s2 _ _ hok.2 ht')
    | loop s1 =>
      have hb : okS tbl false s1 = true := by simpa [okS] using hok
      simp only [run]
      have hc : ctl a.hist a.steps = ctl b.hist b.steps := by rw [hab.1, hab.2.1]
      rw [hc]
      have ht' := SameButPriv_tick hab
      cases ctl b.hist b.steps with
      | true =>
        simp only [if_true]
        rcases ih s1 _ _ hb ht' with ⟨e1, e2⟩ | ⟨x, y, e1, e2, hxy, px, py⟩
        · exact Or.inl ⟨by simp [e1], by simp [e2]⟩
        · simp only [e1, e2]
          rcases ih (.loop s1) x y hok hxy with ⟨f1, f2⟩ | ⟨u, v, f1, f2, huv, pu, pv⟩
          · exact Or.inl ⟨f1, f2⟩
          · refine Or.inr ⟨u, v, f1, f2, huv, ?_, ?_⟩
            · rw [pu, px]; simp [tick]
            · rw [pv, py]; simp [tick]
      | false =>
        simp only [Bool.false_eq_true, if_false]
        exact Or.inr ⟨tick a, tick b, rfl, rfl, ht', by simp [tick], by simp [tick]⟩

/-- how the integer-seeded run and the RandomState-seeded run are related in each flow state -/
def Rel : FState → St → St → Prop
  | .fresh, a, b => a = b ∧ a.privPos = 0
  | .used, a, b => a = b
  | .done, a, b => SameButPriv a b

theorem Rel_same {q : FState} {a b : St} (h : Rel q a b) : SameButPriv a b := by
  cases q with
  | fresh => obtain ⟨rfl, _⟩ := h; exact ⟨rfl, rfl, rfl, rfl, rfl⟩
  | used => cases h; exact ⟨rfl, rfl, rfl, rfl, rfl⟩
  | done => exact h

theorem Rel_mono {q q' : FState} (hq : q.rank ≤ q'.rank) {a b : St} (h : Rel q a b) : Rel q' a b := by
  cases q <;> cases q' <;> simp [FState.rank] at hq <;> first | exact h | exact h.1 | exact Rel_same h

theorem Rel_tick {q : FState} {a b : St} (h : Rel q a b) : Rel q (tick a) (tick b) := by
  cases q with
  | fresh => obtain ⟨rfl, h0⟩ := h; exact ⟨rfl, by simpa [tick] using h0⟩
  | used => cases h; rfl
  | done => exact SameButPriv_tick h

theorem join_ge_left (a b : FState) : a.rank ≤ (a.join b).rank := by
  unfold FState.join; split <;> simp_all
theorem join_ge_right (a b : FState) : b.rank ≤ (a.join b).rank := by
  unfold FState.join; split <;> simp_all <;> omega
theorem join_of_le {a b : FState} (h : b.le a = true) : a.join b = a := by
  cases a <;> cases b <;> simp_all [FState.le, FState.join, FState.rank]

theorem flow_of_lookup {tbl : Table} (ht : okTable tbl = true) {f : String} {d : FnDecl}
    (h : lookup tbl f = some d) (hs : d.hasSeed = true) : ∃ q, flow tbl d.body .fresh = some q := by
  unfold okTable at ht
  rw [List.all_eq_true] at ht
  have := ht (f, d) (lookup_mem h)
  simp only [okDecl, Bool.and_eq_true, Bool.or_eq_true, Bool.not_eq_true', hs] at this
  rcases this.2 with h0 | h1
  · cases h0
  · exact Option.isSome_iff_exists.mp h1

/-- **Key lemma for "int seed ≡ RandomState(int)".**  For a statement that passes the discipline and the restart-safety
    flow check, the integer-seeded run (`runInt`: every `get_rng(seed)` restarts the stream) and the RandomState-seeded run
    (`run … .priv`: one generator object that keeps advancing) stay related as the flow state says: identical states while
    nothing was forwarded, identical up to the private position afterwards. -/
theorem int_eq_obj {tbl : Table} (ht : okTable tbl = true) (σ : Streams) (ctl : List Nat → Nat → Bool) :
    ∀ (n : Nat) (s : Stmt) (q q' : FState) (a b : St), okS tbl true s = true → flow tbl s q = some q' → Rel q a b →
      RelO (Rel q') (runInt tbl σ ctl n s a) (run tbl σ ctl n .priv s b) := by
  intro n
  induction n with
  | zero => intro s q q' a b _ _ _; exact Or.inl ⟨by simp [runInt], by simp [run]⟩
  | succ n ih =>
    intro s q q' a b hok hfl hr
    cases s with
    | bindRng =>
      simp only [flow] at hfl
      split at hfl
      · rename_i hq
        cases hfl; subst hq
        obtain ⟨rfl, h0⟩ := hr
        refine Or.inr ⟨{ a with privPos := 0 }, a, by simp only [runInt], by simp only [run], ?_, rfl⟩
        cases a; simp_all
      · cases hfl
    | draw g =>
      simp only [okS, Bool.true_and, beq_iff_eq] at hok
      subst hok
      simp only [flow] at hfl
      split at hfl
      · cases hfl
      · rename_i hq
        cases hfl
        have hab : a = b := by
          cases q with
          | fresh => exact hr.1
          | used => exact hr
          | done => exact absurd rfl hq
        subst hab
        exact Or.inr ⟨pull σ (srcOf .localRng .priv) a, pull σ (srcOf .localRng .priv) a,
          by simp only [runInt], by simp only [run], rfl⟩
    | call f a' =>
      simp only [okS, okCall] at hok
      cases hl : lookup tbl f with
      | none => simp [hl] at hok
      | some d =>
        simp only [hl] at hok
        simp only [flow, hl] at hfl
        have hbody := okDecl_of_lookup ht hl
        cases hd : d.hasSeed with
        | true =>
          rw [hd] at hbody
          simp only [hd, if_true, Bool.true_and, Bool.or_eq_true, beq_iff_eq] at hok hfl
          by_cases hsp : a' = .seedParam
          · subst hsp
            simp only [if_true] at hfl
            split at hfl
            · rename_i hq
              cases hfl; subst hq
              obtain ⟨rfl, h0⟩ := hr
              obtain ⟨q2, hq2⟩ := flow_of_lookup ht hl hd
              simp only [runInt, run, hl, hd, Bool.true_and, beq_self_eq_true, if_true, calleeLocal]
              have hrel : Rel .fresh { a with privPos := 0 } a := ⟨by cases a; simp_all, rfl⟩
              rcases ih d.body .fresh q2 _ _ hbody hq2 hrel with ⟨e1, e2⟩ | ⟨x, y, e1, e2, hxy⟩
              · exact Or.inl ⟨by simp [e1], e2⟩
              · refine Or.inr ⟨{ x with privPos := a.privPos }, y, by simp [e1], e2, ?_⟩
                have h := Rel_same hxy
                exact ⟨h.1, h.2.1, h.2.2.1, h.2.2.2.1, h.2.2.2.2⟩
            · cases hfl
          · simp only [hsp, if_false] at hfl
            have harg : a' = .rngObj := by rcases hok with h | h; exact h; exact absurd h hsp
            subst harg
            split at hfl
            · cases hfl
            · rename_i hq
              cases hfl
              have hab : a = b := by
                cases q with
                | fresh => exact hr.1
                | used => exact hr
                | done => exact absurd rfl hq
              subst hab
              simp only [runInt, run, hl, hd, Bool.true_and]
              have : (SeedArg.rngObj == SeedArg.seedParam) = false := by decide
              simp only [this, Bool.false_eq_true, if_false]
              cases hrun : run tbl σ ctl n (calleeLocal true SeedArg.rngObj Local.priv) d.body a with
              | none => exact Or.inl ⟨rfl, rfl⟩
              | some x => exact Or.inr ⟨x, x, rfl, rfl, rfl⟩
        | false =>
          rw [hd] at hbody
          simp only [hd, Bool.false_eq_true, if_false, beq_iff_eq] at hok hfl
          cases hfl
          simp only [runInt, run, hl, hd, Bool.false_and, Bool.false_eq_true, if_false]
          have hl' : calleeLocal false a' .priv = .none := by simp [calleeLocal]
          rw [hl']
          have hs := helper_shift ht σ ctl n d.body a b hbody (Rel_same hr)
          rcases hs with h0 | ⟨x, y, e1, e2, hxy, px, py⟩
          · exact Or.inl h0
          · refine Or.inr ⟨x, y, e1, e2, ?_⟩
            cases q with
            | done => exact hxy
            | used =>
              cases hr
              rw [e1] at e2; cases e2; rfl
            | fresh =>
              obtain ⟨rfl, h0⟩ := hr
              rw [e1] at e2; cases e2
              exact ⟨rfl, px.trans h0⟩
    | seq ss =>
      cases ss with
      | nil =>
        simp only [flow, flowL] at hfl; cases hfl
        exact Or.inr ⟨a, b, by simp [runInt], by simp [run], hr⟩
      | cons s ss =>
        obtain ⟨h1, h2⟩ := okS_seq_tail hok
        simp only [flow, flowL] at hfl
        cases hf1 : flow tbl s q with
        | none => simp [hf1] at hfl
        | some q1 =>
          simp only [hf1] at hfl
          have hf2 : flow tbl (.seq ss) q1 = some q' := by simpa [flow] using hfl
          simp only [runInt, run]
          rcases ih s q q1 a b h1 hf1 hr with ⟨e1, e2⟩ | ⟨x, y, e1, e2, hxy⟩
          · exact Or.inl ⟨by simp [e1], by simp [e2]⟩
          · simp only [e1, e2]
            exact ih (.seq ss) q1 q' x y h2 hf2 hxy
    | branch s1 s2 =>
      simp only [okS, Bool.and_eq_true] at hok
      simp only [flow] at hfl
      cases hf1 : flow tbl s1 q with
      | none => simp [hf1] at hfl
      | some x1 =>
        cases hf2 : flow tbl s2 q with
        | none => simp [hf1, hf2] at hfl
        | some x2 =>
          simp only [hf1, hf2, Option.some.injEq] at hfl; subst hfl
          have hsame := Rel_same hr
          have hc : ctl a.hist a.steps = ctl b.hist b.steps := by rw [hsame.1, hsame.2.1]
          simp only [runInt, run]
          rw [hc]
          cases ctl b.hist b.steps with
          | true =>
            simp only [if_true]
            exact RelO_mono (fun _ _ h => Rel_mono (join_ge_left x1 x2) h) (ih s1 q x1 _ _ hok.1 hf1 (Rel_tick hr))
          | false =>
            simp only [Bool.false_eq_true, if_false]
            exact RelO_mono (fun _ _ h => Rel_mono (join_ge_right x1 x2) h) (ih s2 q x2 _ _ hok.2 hf2 (Rel_tick hr))
    | loop s1 =>
      have hb : okS tbl true s1 = true := by simpa [okS] using hok
      simp only [flow] at hfl
      cases hf1 : flow tbl s1 q with
      | none => simp [hf1] at hfl
      | some q1 =>
        simp only [hf1] at hfl
        cases hf2 : flow tbl s1 (q.join q1) with
        | none => simp [hf2] at hfl
        | some q2 =>
          simp only [hf2] at hfl
          cases hf3 : flow tbl s1 ((q.join q1).join q2) with
          | none => simp [hf3] at hfl
          | some q3 =>
            simp only [hf3] at hfl
            split at hfl
            · rename_i hle
              cases hfl
              -- `inv` is inductive for the body; re-analysing the loop from `inv` gives `inv`
              have hinv : Rel ((q.join q1).join q2) a b :=
                Rel_mono (Nat.le_trans (join_ge_left q q1) (join_ge_left _ q2)) hr
              have hj : ((q.join q1).join q2).join q3 = (q.join q1).join q2 := join_of_le hle
              have hloop : flow tbl (.loop s1) ((q.join q1).join q2) = some ((q.join q1).join q2) := by
                simp only [flow, hf3, hj, hle, if_true]
              have hsame := Rel_same hinv
              have hc : ctl a.hist a.steps = ctl b.hist b.steps := by rw [hsame.1, hsame.2.1]
              simp only [runInt, run]
              rw [hc]
              cases ctl b.hist b.steps with
              | true =>
                simp only [if_true]
                rcases ih s1 _ q3 _ _ hb hf3 (Rel_tick hinv) with ⟨e1, e2⟩ | ⟨x, y, e1, e2, hxy⟩
                · exact Or.inl ⟨by simp [e1], by simp [e2]⟩
                · simp only [e1, e2]
                  have hxy' : Rel ((q.join q1).join q2) x y := Rel_mono (by simpa [FState.le] using hle) hxy
                  exact ih (.loop s1) _ _ x y hok hloop hxy'
              | false =>
                simp only [Bool.false_eq_true, if_false]
                exact Or.inr ⟨tick a, tick b, rfl, rfl, Rel_tick hinv⟩
            · cases hfl

/-- **"the same result for an integer seed as for a RandomState constructed from that integer".**  For a function of a
    disciplined table (discipline + restart safety, both part of the generated obligation), the run with `seed = k` and the
    run with `seed = RandomState(k)` (fresh) either both exhaust the fuel or both finish having drawn the same values, taken
    the same decisions and left the global streams at the same positions.  This is a theorem about the two *different*
    semantics `runInt` (every `get_rng(seed)` makes a new generator at position 0) and `run … .priv` (one generator object);
    that the real `get_rng` turns an int into a fresh `RandomState(int)` is the hand model `getRng`, tied to the real
    function by the correspondence cases of the check. -/
theorem runSeed_int_eq_randomState {tbl : Table} (ht : okTable tbl = true) {f : String} {d : FnDecl}
    (hf : lookup tbl f = some d) (hseed : d.hasSeed = true) (σ : SeedStreams) (ctl : List Nat → Nat → Bool) (n k : Nat)
    (st : St) :
    RelO SameButPriv (runSeed tbl σ ctl n (.int k) d.body st) (runSeed tbl σ ctl n (.randomState k 0) d.body st) := by
  have hbody := okDecl_of_lookup ht hf
  rw [hseed] at hbody
  obtain ⟨q, hq⟩ := flow_of_lookup ht hf hseed
  unfold runSeed
  exact RelO_mono (fun _ _ h => Rel_same h)
    (int_eq_obj ht (σ.streams k) ctl n d.body .fresh q _ _ hbody hq ⟨rfl, rfl⟩)

/-- seeded call with a `RandomState`: for a disciplined function the run is determined by the stream of the caller's
    generator alone (from the position it stands at), and the global generators are not advanced; with
    `runSeed_int_eq_randomState` the same holds for the values drawn under an integer seed -/
theorem runSeed_seeded {tbl : Table} (ht : okTable tbl = true) {f : String} {d : FnDecl}
    (hf : lookup tbl f = some d) (hseed : d.hasSeed = true) (k pos : Nat)
    (σ σ' : SeedStreams) (hσ : σ.privOf k = σ'.privOf k) (ctl : List Nat → Nat → Bool) (n : Nat) (st : St) :
    runSeed tbl σ ctl n (.randomState k pos) d.body st = runSeed tbl σ' ctl n (.randomState k pos) d.body st ∧
    ∀ st', runSeed tbl σ ctl n (.randomState k pos) d.body st = some st' →
      st'.npPos = st.npPos ∧ st'.pyPos = st.pyPos ∧ st'.unkPos = st.unkPos := by
  unfold runSeed
  obtain ⟨e, p⟩ := seeded_deterministic ht hf hseed (σ.streams k) (σ'.streams k) (by simpa [SeedStreams.streams] using hσ)
    ctl n { st with privPos := pos }
  exact ⟨e, fun st' h => p st' h⟩

/-- unseeded call (`None` or `np.random`): determined by the global NumPy stream alone -/
theorem runSeed_unseeded {tbl : Table} (ht : okTable tbl = true) {f : String} {d : FnDecl}
    (hf : lookup tbl f = some d) (hseed : d.hasSeed = true) {s : SeedVal} (hs : getRng s = .global)
    (σ σ' : SeedStreams) (hσ : σ.np = σ'.np) (ctl : List Nat → Nat → Bool) (n : Nat) (st : St) :
    runSeed tbl σ ctl n s d.body st = runSeed tbl σ' ctl n s d.body st ∧
    ∀ st', runSeed tbl σ ctl n s d.body st = some st' → st'.pyPos = st.pyPos ∧ st'.unkPos = st.unkPos := by
  have hu := unseeded_deterministic ht hf hseed (σ.streams 0) (σ'.streams 0) (by simpa [SeedStreams.streams] using hσ) ctl n st
  cases s with
  | none => simpa [runSeed] using hu
  | npRandom => simpa [runSeed] using hu
  | randomState k pos => simp [getRng] at hs
  | int k => simp [getRng] at hs

/-! ## non-vacuity: a concrete table, a concrete bad skeleton, concrete executions -/

def exTable : Table :=
  [("pick4", ⟨true, .seq [.bindRng, .draw .localRng, .branch (.seq []) (.call "pick4" .rngObj)]⟩),
   ("helper", ⟨false, .seq []⟩),
   ("randmio", ⟨true, .seq [.bindRng, .call "helper" .absent,
      .loop (.seq [.draw .localRng, .loop (.draw .localRng), .call "pick4" .rngObj])]⟩)]

example : okTable exTable = true := by decide
example : ok exTable "randmio" = true := by decide

/-- a stray `np.random.rand()`, a stray `random.random()`, a nested call that drops the seed and a draw inside
    a helper without seed parameter are all rejected -/
example : ok [("f", ⟨true, .seq [.bindRng, .loop (.draw .globalRng)]⟩)] "f" = false := by decide
example : ok [("f", ⟨true, .seq [.bindRng, .draw .pyRandom]⟩)] "f" = false := by decide
example : ok [("g", ⟨true, .bindRng⟩), ("f", ⟨true, .seq [.bindRng, .call "g" .absent]⟩)] "f" = false := by decide
example : ok [("g", ⟨true, .bindRng⟩), ("f", ⟨true, .seq [.bindRng, .call "g" .noneLit]⟩)] "f" = false := by decide
example : okTable [("h", ⟨false, .draw .globalRng⟩), ("f", ⟨true, .call "h" .absent⟩)] = false := by decide
example : ok [("f", ⟨true, .call "nowhere" .rngObj⟩)] "f" = false := by decide

/-- restart safety: forwarding the *seed parameter* after an own draw (an int seed restarts the stream in the callee, a
    RandomState continues it), forwarding it twice, and re-binding the generator after a draw are rejected; forwarding it
    as the only use of the seed is accepted -/
def exG : String × FnDecl := ("g", ⟨true, .seq [.bindRng, .draw .localRng]⟩)
example : ok [exG, ("f", ⟨true, .seq [.bindRng, .draw .localRng, .call "g" .seedParam]⟩)] "f" = false := by decide
example : ok [exG, ("f", ⟨true, .seq [.call "g" .seedParam, .call "g" .seedParam]⟩)] "f" = false := by decide
example : ok [exG, ("f", ⟨true, .loop (.call "g" .seedParam)⟩)] "f" = false := by decide
example : ok [exG, ("f", ⟨true, .seq [.bindRng, .draw .localRng, .bindRng, .draw .localRng]⟩)] "f" = false := by decide
example : ok [exG, ("f", ⟨true, .seq [.bindRng, .call "g" .seedParam]⟩)] "f" = true := by decide
example : ok [exG, ("f", ⟨true, .seq [.bindRng, .draw .localRng, .call "g" .rngObj, .draw .localRng]⟩)] "f" = true := by decide
/-- and the two semantics really differ on the rejected pattern: with stream 10, 11, 12, … the int-seeded run draws
    10 and again 10 in the callee, the RandomState-seeded run draws 10 and 11 -/
example : (runInt [exG] ⟨fun i => 10 + i, fun _ => 0, fun _ => 0, fun _ => 0⟩ (fun _ _ => false) 9
            (.seq [.bindRng, .draw .localRng, .call "g" .seedParam]) ⟨[], 0, 0, 0, 0, 0⟩).map (·.hist) = some [10, 10] := by decide
example : (run [exG] ⟨fun i => 10 + i, fun _ => 0, fun _ => 0, fun _ => 0⟩ (fun _ _ => false) 9 .priv
            (.seq [.bindRng, .draw .localRng, .call "g" .seedParam]) ⟨[], 0, 0, 0, 0, 0⟩).map (·.hist) = some [11, 10] := by decide

/-- the hypotheses of `disciplined_sound` are satisfiable with a non-trivial execution (two draws) … -/
example : Exec exTable .priv (.seq [.draw .localRng, .draw .localRng]) ⟨3, 4, false⟩ ⟨3, 4, false⟩ :=
  .seqCons _ _ _ _ _ _ (.draw _ _ _) (.seqCons _ _ _ _ _ _ (.draw _ _ _) (.seqNil _ _))

/-- … and the semantics does distinguish: the same draws in an unseeded frame advance the global generator,
    and a stray global draw in a seeded frame changes the world -/
example : Exec exTable .glob (.draw .localRng) ⟨3, 4, false⟩ ⟨4, 4, false⟩ := .draw _ _ _
example : Exec exTable .priv (.draw .globalRng) ⟨3, 4, false⟩ ⟨4, 4, false⟩ := .draw _ _ _
example : Exec exTable .priv (.draw .pyRandom) ⟨3, 4, false⟩ ⟨3, 5, false⟩ := .draw _ _ _

/-- the deterministic semantics really reads the streams: different private streams, different results -/
example : run exTable ⟨fun _ => 1, fun _ => 0, fun _ => 0, fun _ => 0⟩ (fun _ _ => false) 5 .priv
            (.seq [.draw .localRng]) ⟨[], 0, 0, 0, 0, 0⟩ = some ⟨[1], 0, 1, 0, 0, 0⟩ := by decide
example : run exTable ⟨fun _ => 2, fun _ => 0, fun _ => 0, fun _ => 0⟩ (fun _ _ => false) 5 .priv
            (.seq [.draw .localRng]) ⟨[], 0, 0, 0, 0, 0⟩ = some ⟨[2], 0, 1, 0, 0, 0⟩ := by decide

end Bct.C05
