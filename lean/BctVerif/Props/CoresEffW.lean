import BctVerif.Model.CoreIREffW
import BctVerif.Props.CoresDinv
import BctVerif.Props.CoresEff
/-!
# T-gen for `efficiency_wei`, global part: what the passed obligation implies

`link_efficiency_wei`: the extracted routine with `local = False`, run on the float matrix of weights with the model's fuel `n + 1`
per `while` loop of the nested Dijkstra, returns `Dist.efficiencyWei W` (`nan` — the inner `none` — for fewer than two nodes; `inf` when
two distinct nodes are at distance zero), and runs out of fuel exactly when the model does.
-/
namespace Bct.Cores.EffW
open Bct Bct.Dist Bct.CoreIR.Dijk Bct.CoreIR.Dinv Bct.CoreIR.Eff Bct.CoreIR.EffW Bct.Cores.Dijk Bct.Cores.Dinv
variable {n : ℕ}

/-- `invert(W, copy=True)` on rationals -/
def invQ (W : AMat ℚ n) : AMat ℚ n := AMat.ofFn fun i j => if W.get i j = 0 then 0 else 1 / W.get i j

theorem Gl_eq (W : AMat ℚ n) : (AMat.ofFn fun i j => invertCell ((embG W).get i j) : AMat V n) = embG (invQ W) := by
  apply AMat.ext_get; intro i j
  simp [embG, invQ, invertCell, AMat.map]

theorem lenMat_inv (W : AMat ℚ n) : lenMat .none (invQ W) = lenMat .inv W := by
  apply AMat.ext_get; intro i j
  simp only [lenMat, AMat.get_ofFn, lenOf, invQ]
  by_cases h : W.get i j = 0
  · simp [h]
  · have : (1 : ℚ) / W.get i j ≠ 0 := by simp [h]
    simp [h]

theorem ext_add_zero (x : Ext) : x + Ext.fin 0 = x := by
  cases x with
  | fin q => show Ext.add _ _ = _; simp [Ext.add]
  | inf => rfl

theorem sumExt_drop {α : Type} (l : List α) (f : α → Ext) (p : α → Bool) (h : ∀ x ∈ l, p x = false → f x = Ext.fin 0) :
    sumExt (l.map f) = sumExt ((l.filter p).map f) := by
  unfold sumExt
  generalize Ext.fin 0 = a
  induction l generalizing a with
  | nil => rfl
  | cons x l ih =>
    simp only [List.map_cons, List.foldl_cons, List.filter_cons]
    cases hp : p x
    · rw [h x (by simp) hp, ext_add_zero]
      simp only [Bool.false_eq_true, if_false]
      exact ih (fun y hy => h y (by simp [hy])) a
    · simp only [if_true, List.map_cons, List.foldl_cons]
      exact ih (fun y hy => h y (by simp [hy])) _

theorem invMatOf_ext (D : AMat Ext n) :
    invMatOf refDinv (AMat.map V.ext D) = some (AMat.ofFn fun i j => if i = j then Ext.fin 0 else (D.get i j).inv) := by
  unfold invMatOf
  rw [if_pos (by simp [AMat.map, refDinv])]
  congr 1
  apply AMat.ext_get; intro i j
  simp [AMat.map, refDinv]

theorem sum_inv (D : AMat Ext n) :
    sumCellsExt (AMat.ofFn fun i j => if i = j then Ext.fin 0 else (D.get i j).inv : AMat Ext n) =
      sumExt ((offDiag n).map fun p => (D.get p.1 p.2).inv) := by
  unfold sumCellsExt offDiag
  rw [sumExt_drop (cells n) _ (fun p => p.1 ≠ p.2)]
  · congr 1
    apply List.map_congr_left
    intro p hp
    have hne : p.1 ≠ p.2 := by simpa using (List.mem_filter.mp hp).2
    simp [hne]
  · intro p _ hp
    have heq : p.1 = p.2 := by simpa using hp
    simp [heq]

/-- **`efficiency_wei` with `local = False`** computes `Dist.efficiencyWei` (fuel `n + 1` per `while` loop, as in the model). -/
theorem link_efficiency_wei (ir : WeiIR) (hok : weiOk ir = true) (W : AMat ℚ n) :
    runWei ir (n + 1) (embG W) = efficiencyWei W := by
  have hir : ir = refWei := by simpa [weiOk] using hok
  subst hir
  have hco : refWei.coherent = true := by decide
  have hci : refDinv.coherent = true := by decide
  unfold runWei
  rw [hco]
  simp only [Bool.not_true, Bool.false_eq_true, if_false, Gl_eq, show refWei.inner = refDinv from rfl, runInner, hci,
    show refDinv.dijk = refDinvD from rfl, link_dinv_dijk, lenMat_inv, efficiencyWei]
  cases hd : dijkstra (lenMat .inv W) with
  | none => rfl
  | some r =>
    have hden : evalK "n" (n : ℤ) (.sub (.mul (.var "n") (.var "n")) (.var "n")) = some ((n : ℤ) * (n : ℤ) - (n : ℤ)) := by
      simp [evalK]
    simp only [Option.map_some, invMatOf_ext, show refWei.dim = "n" from rfl,
      show refWei.den = .sub (.mul (.var "n") (.var "n")) (.var "n") from rfl, hden, sum_inv, meanInvOff]
    by_cases hn : n < 2
    · have hd0 : (n : ℤ) * (n : ℤ) - (n : ℤ) = 0 := by
        have : n = 0 ∨ n = 1 := by omega
        rcases this with h | h <;> simp [h]
      have hoff : offDiag n = [] := by
        unfold offDiag
        apply List.filter_eq_nil_iff.mpr
        intro p _
        have : p.1 = p.2 := Fin.ext (by have := p.1.isLt; have := p.2.isLt; omega)
        simp [this]
      simp [hn, hd0, hoff, sumExt]
    · have hd0 : (n : ℤ) * (n : ℤ) - (n : ℤ) ≠ 0 := by
        have h2 : (2 : ℤ) ≤ (n : ℤ) := by omega
        have : (n : ℤ) * (n : ℤ) - (n : ℤ) = (n : ℤ) * ((n : ℤ) - 1) := by ring
        rw [this]; exact mul_ne_zero (by omega) (by omega)
      have hdp : (0 : ℤ) < (n : ℤ) * (n : ℤ) - (n : ℤ) := by
        have h2 : (2 : ℤ) ≤ (n : ℤ) := by omega
        have : (n : ℤ) * (n : ℤ) - (n : ℤ) = (n : ℤ) * ((n : ℤ) - 1) := by ring
        rw [this]; exact Int.mul_pos (by omega) (by omega)
      have hc2 := Bct.Cores.Eff.den_cast (n := n)
      simp only [hn, if_false, hd0, hdp, if_true]
      cases sumExt ((offDiag n).map fun p => (r.1.get p.1 p.2).inv) with
      | fin s => simp only []; rw [hc2]
      | inf => rfl

example : weiOk refWei = true := by decide
/-- the call on `Gw` instead of the length matrix `Gl` is rejected -/
example : weiOk { refWei with arg := "Gw" } = false := by decide
/-- a nested function that stores `np.max(td, axis=0)` cannot be expressed; one without `G1[:, V] = 0` is rejected -/
example : weiOk { refWei with inner := { refDinv with dijk := { refDinvD with whileBody := refDinvD.whileBody.eraseIdx 1 } } } = false := by decide
end Bct.Cores.EffW
