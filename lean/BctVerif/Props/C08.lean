import BctVerif.Model.Between
import BctVerif.Lemmas.BetweenSum
import BctVerif.Lemmas.BetweenBrandes
import BctVerif.Lemmas.BetweenFwd5
import BctVerif.Lemmas.BetweenBfs2
import BctVerif.Lemmas.BetweenBin3
import BctVerif.Lemmas.BetweenRat
import BctVerif.Lemmas.BetweenNode

/-!
# C08 — betweenness counts exactly the shortest paths through each node and connection

All theorems are about the executable definitions of `BctVerif/Model/Between.lean`
(`dist`, `sigma`, `sigmaV`, `sigmaE`, `bcSpec`, `ebcSpec`, `depOf`, `pred`) and hold for every
size `n` and every connection-length matrix `L : AMat Nat n` (`0` = no connection, positive
entries = lengths; no hypothesis on the diagonal, on symmetry or on connectedness is needed).
Walk-level notions (`IsWalk`, `wlen`, `wend`, `IsMin`, `MinW`, `ThroughV`, `ThroughE`) are defined in
`Lemmas/BetweenWalk.lean`, `BetweenSigma.lean`, `BetweenThrough.lean`: a walk from `s` is the list
of the vertices visited after `s`.

Algorithm level (section 5): the models of all four routines are proved equal to `bcSpec` /
`ebcSpec` — `betweenness_wei`, `edge_betweenness_wei` for all length matrices, `edge_betweenness_bin`
for binary matrices, `betweenness_bin` for binary matrices with empty diagonal.  Nothing in this
file is `_partial`.
-/
namespace Bct.C08
open Bct Bct.Between

variable {n : ℕ} (L : AMat Nat n)

/-! ## (0) `dist` is the true minimum walk length, `none` exactly for unreachable pairs -/

theorem dist_spec_some (s t : Fin n) (d : ℕ) (h : (dist L).get s t = some d) :
    (∃ p, IsWalk L s p ∧ wend s p = t ∧ wlen L s p = d) ∧
      ∀ q, IsWalk L s q → wend s q = t → d ≤ wlen L s q :=
  (dist_isDist L s t).2 d h

theorem dist_spec_none (s t : Fin n) (h : (dist L).get s t = none) :
    ∀ p, IsWalk L s p → wend s p ≠ t :=
  (dist_isDist L s t).1 h

/-- `reach` is reachability -/
theorem reach_iff_walk (s t : Fin n) :
    reach (dist L) s t = true ↔ ∃ p, IsWalk L s p ∧ wend s p = t := by
  rw [reach_iff]
  constructor
  · rintro ⟨d, hd⟩
    obtain ⟨⟨p, hp, he, _⟩, _⟩ := dist_spec_some L s t d hd
    exact ⟨p, hp, he⟩
  · rintro ⟨p, hp, he⟩
    cases h : (dist L).get s t with
    | none => exact absurd he (dist_spec_none L s t h p hp)
    | some d => exact ⟨d, rfl⟩

/-! ## (1) `sigma` counts every minimum-length walk (all equal-length alternatives) -/

theorem sigma_spec (s t : Fin n) : (sigma L).get s t = (MinW L s t).ncard :=
  sigma_eq_ncard L s t

/-- minimum-length walks are paths: no vertex is repeated -/
theorem min_walk_is_path (s t : Fin n) (p : List (Fin n)) (h : p ∈ MinW L s t) : (s :: p).Nodup :=
  IsMin.nodup L h

/-- **through a node.**  The number of minimum-length walks from `s` to `t` that visit `v` is
`σ s v · σ v t` if `d s v + d v t = d s t` and `0` otherwise. -/
theorem through_node (s t v : Fin n) :
    (ThroughV L s t v).ncard =
      match (dist L).get s v, (dist L).get v t, (dist L).get s t with
      | some a, some b, some c => if a + b = c then (sigma L).get s v * (sigma L).get v t else 0
      | _, _, _ => 0 :=
  ncard_throughV L s t v

/-- **along a connection.**  The number of minimum-length walks from `s` to `t` in which `u` is
immediately followed by `w` is `σ s u · σ w t` if `d s u + L u w + d w t = d s t`, else `0`. -/
theorem through_edge (s t u w : Fin n) :
    (ThroughE L s t u w).ncard =
      if L.get u w = 0 then 0 else
      match (dist L).get s u, (dist L).get w t, (dist L).get s t with
      | some a, some b, some c =>
        if a + L.get u w + b = c then (sigma L).get s u * (sigma L).get w t else 0
      | _, _, _ => 0 :=
  ncard_throughE L s t u w

/-! ## (2) the betweenness of the model is the sum of the fractions of the property text -/

/-- node betweenness = Σ over ordered pairs `s ≠ t` (both different from `v`, `t` reachable from `s`)
of the fraction of all minimum-length walks from `s` to `t` that pass through `v`
(`reach` is reachability by `reach_iff_walk`) -/
theorem bc_spec (v : Fin n) :
    (bcSpec L)[v] = ∑ s, ∑ t,
      if s ≠ t ∧ s ≠ v ∧ t ≠ v ∧ reach (dist L) s t = true then
        ((ThroughV L s t v).ncard : ℚ) / ((MinW L s t).ncard : ℚ) else 0 := by
  rw [bcSpec_get]
  refine Finset.sum_congr rfl fun s _ => Finset.sum_congr rfl fun t _ => ?_
  rw [ncard_throughV, ← sigma_eq_ncard]
  rfl

/-- edge betweenness = Σ over ordered pairs `s ≠ t`, `t` reachable from `s`, of the fraction of all
minimum-length walks from `s` to `t` that use the connection `u → w` -/
theorem ebc_spec (u w : Fin n) :
    (ebcSpec L).get u w = ∑ s, ∑ t,
      if s ≠ t ∧ reach (dist L) s t = true then
        ((ThroughE L s t u w).ncard : ℚ) / ((MinW L s t).ncard : ℚ) else 0 := by
  rw [ebcSpec_get]
  refine Finset.sum_congr rfl fun s _ => Finset.sum_congr rfl fun t _ => ?_
  rw [ncard_throughE, ← sigma_eq_ncard]
  rfl

/-- unreachable pairs contribute nothing: there is no minimum-length walk at all, and the pair's
terms in `bcSpec` / `ebcSpec` are `0` -/
theorem unreachable_contributes_nothing (s t : Fin n) (h : (dist L).get s t = none) :
    MinW L s t = ∅ ∧ (∀ v, pairV (dist L) (sigma L) s t v = 0) ∧
      ∀ u w, pairE L (dist L) (sigma L) s t u w = 0 := by
  have hr : ¬ (s ≠ t ∧ reach (dist L) s t = true) := by
    rintro ⟨_, hr⟩
    obtain ⟨d, hd⟩ := reach_iff.1 hr
    rw [h] at hd; exact absurd hd (by simp)
  refine ⟨?_, pairV_eq_zero_of_not L hr, pairE_eq_zero_of_not L hr⟩
  rw [Set.eq_empty_iff_forall_notMem]
  intro p hp
  exact dist_spec_none L s t h p hp.1 hp.2.1

/-- reachable pairs have at least one minimum-length walk: the fractions are well defined -/
theorem reachable_sigma_pos (s t : Fin n) (d : ℕ) (h : (dist L).get s t = some d) :
    0 < (sigma L).get s t := sigma_pos L h

/-! ## (3) sums on binary graphs -/

/-- on a binary graph the node values sum to the total of `(distance − 1)` over reachable ordered pairs -/
theorem sum_node_bin (hbin : ∀ i j, L.get i j ≤ 1) :
    ∑ v : Fin n, (bcSpec L)[v] = ∑ s, ∑ t,
      if s ≠ t then (match (dist L).get s t with
        | some d => (d : ℚ) - 1
        | none => 0) else 0 := by
  simp_rw [bcSpec_get]
  rw [Finset.sum_comm]
  refine Finset.sum_congr rfl fun s _ => ?_
  rw [Finset.sum_comm]
  refine Finset.sum_congr rfl fun t _ => ?_
  by_cases hst : s = t
  · simp [hst, pairV]
  · simp only [ne_eq, hst, not_false_eq_true, if_true]
    cases hd : (dist L).get s t with
    | none =>
      exact Finset.sum_eq_zero fun v _ => (unreachable_contributes_nothing L s t hd).2.1 v
    | some d => exact pair_node_sum_bin L hbin hst hd

/-- on a binary graph the connection values sum to the total of distances over reachable ordered pairs -/
theorem sum_edge_bin (hbin : ∀ i j, L.get i j ≤ 1) :
    ∑ u, ∑ w, (ebcSpec L).get u w = ∑ s, ∑ t,
      if s ≠ t then (match (dist L).get s t with
        | some d => (d : ℚ)
        | none => 0) else 0 := by
  simp_rw [ebcSpec_get]
  have : ∀ u : Fin n, (∑ w, ∑ s, ∑ t, pairE L (dist L) (sigma L) s t u w) =
      ∑ s, ∑ t, ∑ w, pairE L (dist L) (sigma L) s t u w := by
    intro u
    rw [Finset.sum_comm]
    refine Finset.sum_congr rfl fun s _ => ?_
    rw [Finset.sum_comm]
  simp_rw [this]
  rw [Finset.sum_comm]
  refine Finset.sum_congr rfl fun s _ => ?_
  rw [Finset.sum_comm]
  refine Finset.sum_congr rfl fun t _ => ?_
  by_cases hst : s = t
  · simp [hst, pairE]
  · simp only [ne_eq, hst, not_false_eq_true, if_true]
    cases hd : (dist L).get s t with
    | none =>
      exact Finset.sum_eq_zero fun u _ => Finset.sum_eq_zero fun w _ =>
        (unreachable_contributes_nothing L s t hd).2.2 u w
    | some d => exact pair_edge_sum_bin L hbin hst hd

/-! ## (4) node vector of the edge routines, Brandes' recurrence -/

/-- node betweenness from edge betweenness, as the edge routines accumulate it
(`BC[w] += DP[w]`, `DP[v] += DPvw`, `EBC[v,w] += DPvw`, the source itself excluded by `Q[:n-1]`):
`BC v = Σ_w EBC v w − #{t ≠ v reachable from v}` -/
theorem edge_node_consistent (v : Fin n) :
    (bcSpec L)[v] = (∑ w, (ebcSpec L).get v w) -
      ((Finset.univ.filter fun t => t ≠ v ∧ reach (dist L) v t = true).card : ℚ) :=
  bc_eq_ebc_out L v

/-- `bcSpec` is the sum over sources of the dependencies `depOf` (the `DP` vector of the code) -/
theorem bc_eq_sum_dep (v : Fin n) : (bcSpec L)[v] = ∑ s, depOf (dist L) (sigma L) s v := by
  simp [bcSpec, bcOf, sumFin_eq_sum]

/-- **Brandes' recurrence** on the specification:
`δ_s(v) = Σ_{w : v ∈ P_s(w)} σ(s,v)/σ(s,w) · (1 + δ_s(w))` for `v ≠ s`, where `pred` is the
predecessor relation stored in the matrix `P` of the code -/
theorem dependency_rec (s v : Fin n) (hsv : s ≠ v) :
    depOf (dist L) (sigma L) s v =
      ∑ w, if pred L (dist L) s v w = true then
        ((sigma L).get s v : ℚ) / ((sigma L).get s w : ℚ) * (1 + depOf (dist L) (sigma L) s w)
      else 0 :=
  depOf_rec L s v hsv

/-- the source's own dependency is not counted -/
theorem dependency_source (s : Fin n) : depOf (dist L) (sigma L) s s = 0 := by
  unfold depOf
  rw [sumFin_eq_sum]
  exact Finset.sum_eq_zero fun t _ => by simp [pairV]

/-- the shortest-path counts satisfy the first-step recurrence (every tie is counted) -/
theorem sigma_recurrence (s t : Fin n) :
    (sigma L).get s t = (if s = t then 1 else 0) +
      ∑ w, if tight L (dist L) s w t = true then (sigma L).get w t else 0 :=
  sigma_rec L s t

/-! ## (5) algorithm level: the models of all four routines equal the definition

The statement-by-statement models of `centrality.py` return exactly the definition-level values:

* `edge_betweenness_wei` (`brandes true`: Dijkstra loop with `D`, `NP`, `P`, `S`, `G1`, the queue
  `Q`/`q` with the unreachable nodes first, dependency accumulation into `BC` and `EBC`) and
  `betweenness_wei` (`betweennessWei`: same forward pass, own accumulation without `EBC`): every
  size, every natural-number length matrix, hence every rational one by section 6
  (`brandes_wei_correct`, `betweennessWei_correct`);
* `edge_betweenness_bin` (BFS loop, same queue): every binary matrix
  (`edge_betweenness_bin_correct`, by lock-step simulation of the weighted loop);
* `betweenness_bin` (level-by-level extension of the shortest paths `NPd = NSPd·G`, `NSPd`, `NSP`,
  `L`, back-propagation `DP` — the repaired loop, which no longer forms walk counts): every binary
  matrix with empty diagonal (`betweennessBin_correct`).

These are DESIGN.md §4 C08 (4) `brandes_correct` / `betweennessBin_correct` at full strength; what
remains tied by correspondence only is that the Lean models are faithful transcriptions of the
Python source (checked on every run against the real routines). -/

/-- **`edge_betweenness_wei` model = definition**, all sizes, all connection-length matrices -/
theorem brandes_wei_correct : brandes true L = .ok (ebcSpec L, bcSpec L) :=
  Bct.Between.brandes_wei_correct L

/-- **`betweenness_wei` model = definition.**  `betweennessWei` is the node routine's own model
(shared forward pass `weiLoop`, which is textually identical in the two Python routines; own
back-propagation `backOuterN`/`backInnerN` without `EBC`), run by the driver op `betweenness_wei` -/
theorem betweennessWei_correct : betweennessWei L = .ok (bcSpec L) :=
  Bct.Between.betweennessWei_correct L

/-- **the node vector returned by `edge_betweenness_wei` equals `betweenness_wei`'s result** — a
statement about two different models (`brandes true` with `EBC`, `betweennessWei` without) -/
theorem edge_node_vector_wei : (brandes true L).map Prod.snd = betweennessWei L :=
  (betweennessWei_eq L).symm

/-- the node component of the edge model (kept in this form for C10) -/
theorem betweenness_wei_correct : (brandes true L).map Prod.snd = .ok (bcSpec L) := by
  rw [brandes_wei_correct]; rfl

/-- the forward phase of the weighted loop establishes the postcondition for every source -/
theorem wei_forward_ok (u : Fin n) : ∃ st, fwd L true u = .ok st ∧ FwdOK L u st := weiFwd_ok L u

/-- **`edge_betweenness_bin` model = definition** on every binary matrix -/
theorem edge_betweenness_bin_correct (hbin : ∀ i j, L.get i j ≤ 1) :
    brandes false L = .ok (ebcSpec L, bcSpec L) :=
  brandes_bin_correct L hbin

/-- **`betweenness_bin` model = definition** on every binary matrix with empty diagonal -/
theorem betweennessBin_correct (hbin : ∀ i j, L.get i j ≤ 1) (hdiag : ∀ i, L.get i i = 0) :
    betweennessBin L = .ok (bcSpec L) :=
  Bct.Between.betweennessBin_correct hbin hdiag

/-- the path-counting step of `betweenness_bin` (`NPd = np.dot(NSPd, G); NSPd = NPd * (L == 0)`):
extending the shortest paths of length `d` by one connection gives exactly the shortest-path counts
of the pairs at distance `d + 1` and `0` for pairs farther apart or disconnected (binary matrices).
All intermediate values are shortest-path counts, never walk counts. -/
theorem shortest_path_extension (hbin : ∀ i j, L.get i j ≤ 1) (d : ℕ) (hd1 : 1 ≤ d) (i j : Fin n)
    (hij : i ≠ j) :
    ((dist L).get i j = some (d + 1) →
      (∑ w, (if i ≠ w ∧ (dist L).get i w = some d then (sigma L).get i w else 0) * L.get w j) =
        (sigma L).get i j) ∧
    (((dist L).get i j = none ∨ ∃ k, (dist L).get i j = some k ∧ d + 1 < k) →
      (∑ w, (if i ≠ w ∧ (dist L).get i w = some d then (sigma L).get i w else 0) * L.get w j) = 0) :=
  nspd_extend hbin d hd1 i j hij

/-- **the node vector returned by `edge_betweenness_bin` equals `betweenness_bin`'s result** (BFS
model vs level-extension model), binary matrices with empty diagonal -/
theorem edge_node_vector_bin (hbin : ∀ i j, L.get i j ≤ 1) (hdiag : ∀ i, L.get i i = 0) :
    (brandes false L).map Prod.snd = betweennessBin L := by
  rw [brandes_bin_correct L hbin, Bct.Between.betweennessBin_correct hbin hdiag]; rfl

/-- the node vector returned by the edge routines' models is `bcSpec` -/
theorem edge_routines_node_vector (hbin : ∀ i j, L.get i j ≤ 1) :
    (brandes false L).map Prod.snd = .ok (bcSpec L) ∧ (brandes true L).map Prod.snd = .ok (bcSpec L) := by
  rw [edge_betweenness_bin_correct L hbin, brandes_wei_correct]; exact ⟨rfl, rfl⟩

/-- algorithm = definition for any forward phase meeting the postcondition `FwdOK` (the two
theorems above discharge the hypothesis for the Dijkstra and the BFS loop) -/
theorem brandes_of_forward_ok (wei : Bool)
    (hf : ∀ u, ∃ st, fwd L wei u = .ok st ∧ FwdOK L u st) :
    brandes wei L = .ok (ebcSpec L, bcSpec L) :=
  brandes_of_forward L wei hf

/-- the back-propagation loop alone, for one source: it adds `δ_s(x)` to `BC[x]` and the
per-source connection dependency `Σ_t σ(s,t|v→w)/σ(s,t)` to `EBC[v,w]` -/
theorem back_propagation_correct (s : Fin n) (st : SrcSt n) (hf : FwdPN L s st)
    (ql : List (Fin n)) (a : Acc n) (hnd : ql.Nodup) (hs : s ∉ ql) (hord : OrdOK L s [] ql)
    (hDP : ∀ x : Fin n, a.DP[x] = 0) :
    ∃ a', backOuter st (ql.map Fin.val) a = .ok a' ∧
      (∀ x, a'.BC[x] = a.BC[x] + if x ∈ ql then depOf (dist L) (sigma L) s x else 0) ∧
      (∀ v w, a'.EBC.get v w = a.EBC.get v w +
        if w ∈ ql then ∑ t, pairE L (dist L) (sigma L) s t v w else 0) := by
  simp_rw [sum_pairE_target]
  exact backOuter_spec L s st hf ql [] a hnd List.nodup_nil (fun _ _ => by simp) hs hord
    (fun x => by simp [hDP x])

/-- on 0/1 input the weighted and the binary edge routine models return the same pair, and the
binary node routine model returns its node component (C10 uses this) -/
theorem wei_eq_bin_on_binary (hbin : ∀ i j, L.get i j ≤ 1) (hdiag : ∀ i, L.get i i = 0) :
    brandes true L = brandes false L ∧ (brandes true L).map Prod.snd = betweennessBin L := by
  rw [brandes_wei_correct, edge_betweenness_bin_correct L hbin, betweennessBin_correct L hbin hdiag]
  exact ⟨rfl, rfl⟩

/-! ## (6) rational ("positive real given exactly") lengths and scaling

The models run on natural-number length matrices.  A rational length matrix `ℓ` is given by its
numerators `L` over a common denominator `den > 0` (`lenQ L den i j = L i j / den`; every finite
rational matrix has this form).  Its minimum-length walks are those of `L`, so the definition-level
betweenness with respect to `ℓ` is `bcSpec L` / `ebcSpec L` — which the weighted models return by
`brandes_wei_correct` / `betweennessWei_correct` applied to the numerators.  The driver's `den=` token relies on exactly this. -/

theorem rational_min_walks (den : ℕ) (hden : 0 < den) (s t : Fin n) (p : List (Fin n)) :
    IsMinQ (lenQ L den) s t p ↔ p ∈ MinW L s t :=
  isMinQ_iff hden s t p

theorem reach_iff_walkQ (den : ℕ) (hden : 0 < den) (s t : Fin n) :
    reach (dist L) s t = true ↔ ∃ p, IsWalkQ (lenQ L den) s p ∧ wend s p = t := by
  rw [reach_iff_walk]
  constructor
  · rintro ⟨p, hp, he⟩; exact ⟨p, (isWalkQ_iff hden s p).2 hp, he⟩
  · rintro ⟨p, hp, he⟩; exact ⟨p, (isWalkQ_iff hden s p).1 hp, he⟩

/-- node betweenness for the rational lengths `L / den`: the sum of the fractions of
minimum-(rational-)length walks through `v` is `bcSpec` of the numerators -/
theorem bc_spec_rational (den : ℕ) (hden : 0 < den) (v : Fin n) :
    (bcSpec L)[v] = ∑ s, ∑ t,
      if s ≠ t ∧ s ≠ v ∧ t ≠ v ∧ reach (dist L) s t = true then
        (({p | IsMinQ (lenQ L den) s t p ∧ v ∈ s :: p} : Set (List (Fin n))).ncard : ℚ) /
          (({p | IsMinQ (lenQ L den) s t p} : Set (List (Fin n))).ncard : ℚ) else 0 := by
  rw [bc_spec]
  refine Finset.sum_congr rfl fun s _ => Finset.sum_congr rfl fun t _ => ?_
  have h1 : ({p | IsMinQ (lenQ L den) s t p ∧ v ∈ s :: p} : Set (List (Fin n))) = ThroughV L s t v := by
    ext p; simp only [ThroughV, Set.mem_ofPred_eq, isMinQ_iff hden]
  have h2 : ({p | IsMinQ (lenQ L den) s t p} : Set (List (Fin n))) = MinW L s t := by
    ext p; simp only [MinW, Set.mem_ofPred_eq, isMinQ_iff hden]
  rw [h1, h2]

/-- edge betweenness for the rational lengths `L / den` -/
theorem ebc_spec_rational (den : ℕ) (hden : 0 < den) (u w : Fin n) :
    (ebcSpec L).get u w = ∑ s, ∑ t,
      if s ≠ t ∧ reach (dist L) s t = true then
        (({p | IsMinQ (lenQ L den) s t p ∧ ∃ p1 p2, p = p1 ++ w :: p2 ∧ wend s p1 = u} :
            Set (List (Fin n))).ncard : ℚ) /
          (({p | IsMinQ (lenQ L den) s t p} : Set (List (Fin n))).ncard : ℚ) else 0 := by
  rw [ebc_spec]
  refine Finset.sum_congr rfl fun s _ => Finset.sum_congr rfl fun t _ => ?_
  have h1 : ({p | IsMinQ (lenQ L den) s t p ∧ ∃ p1 p2, p = p1 ++ w :: p2 ∧ wend s p1 = u} :
      Set (List (Fin n))) = ThroughE L s t u w := by
    ext p; simp only [ThroughE, Set.mem_ofPred_eq, isMinQ_iff hden]
  have h2 : ({p | IsMinQ (lenQ L den) s t p} : Set (List (Fin n))) = MinW L s t := by
    ext p; simp only [MinW, Set.mem_ofPred_eq, isMinQ_iff hden]
  rw [h1, h2]

/-- betweenness is invariant under multiplying all lengths by a positive integer -/
theorem scale_invariant (c : ℕ) (hc : 0 < c) :
    bcSpec (scaleL c L) = bcSpec L ∧ ebcSpec (scaleL c L) = ebcSpec L := by
  have hM : ∀ s t, MinW (scaleL c L) s t = MinW L s t := by
    intro s t; ext p; simp only [MinW, Set.mem_ofPred_eq, isMin_scale hc]
  have hR : ∀ s t, reach (dist (scaleL c L)) s t = reach (dist L) s t := by
    intro s t
    rw [Bool.eq_iff_iff, reach_iff_walk, reach_iff_walk]
    constructor
    · rintro ⟨p, hp, he⟩; exact ⟨p, (isWalk_scale hc s p).1 hp, he⟩
    · rintro ⟨p, hp, he⟩; exact ⟨p, (isWalk_scale hc s p).2 hp, he⟩
  constructor
  · apply Vector.ext
    intro v hv
    have e1 := bc_spec (scaleL c L) ⟨v, hv⟩
    have e2 := bc_spec L ⟨v, hv⟩
    simp only [Fin.getElem_fin] at e1 e2
    rw [e1, e2]
    refine Finset.sum_congr rfl fun s _ => Finset.sum_congr rfl fun t _ => ?_
    have hT : ThroughV (scaleL c L) s t ⟨v, hv⟩ = ThroughV L s t ⟨v, hv⟩ := by
      ext p; simp only [ThroughV, Set.mem_ofPred_eq, isMin_scale hc]
    rw [hT, hM, hR]
  · apply AMat.ext_get
    intro u w
    rw [ebc_spec, ebc_spec]
    refine Finset.sum_congr rfl fun s _ => Finset.sum_congr rfl fun t _ => ?_
    have hT : ThroughE (scaleL c L) s t u w = ThroughE L s t u w := by
      ext p; simp only [ThroughE, Set.mem_ofPred_eq, isMin_scale hc]
    rw [hT, hM, hR]

/-! ## non-vacuity: concrete inputs with ties, weights and unreachable pairs -/

/-- `0→1→3`, `0→2→3`: two equal-length alternatives; nothing is reachable from `3` -/
def diamond : AMat Nat 4 :=
  AMat.ofFn fun i j => if (i.val, j.val) ∈ [(0, 1), (0, 2), (1, 3), (2, 3)] then 1 else 0

/-- `0→1→2` with lengths 1,1 ties with the direct connection `0→2` of length 2 -/
def wtriangle : AMat Nat 3 :=
  AMat.ofFn fun i j =>
    if (i.val, j.val) ∈ [(0, 1), (1, 2)] then 1 else if (i.val, j.val) = (0, 2) then 2 else 0

example : (dist diamond).get 0 3 = some 2 ∧ (dist diamond).get 3 0 = none := by decide
example : (dist wtriangle).get 0 2 = some 2 ∧ (sigma wtriangle).get 0 2 = 2 := by decide
example : (sigma diamond).get 0 3 = 2 := by decide
-- through_node: both branches occur
example : (ThroughV diamond 0 3 1).ncard = 1 := by rw [ncard_throughV]; decide
example : (ThroughV diamond 0 1 2).ncard = 0 := by rw [ncard_throughV]; decide
-- through_edge: both branches occur, also with a length-2 connection
example : (ThroughE wtriangle 0 2 0 2).ncard = 1 := by rw [ncard_throughE]; decide
example : (ThroughE diamond 0 3 1 3).ncard = 1 := by rw [ncard_throughE]; decide
example : (ThroughE diamond 0 3 1 2).ncard = 0 := by rw [ncard_throughE]; decide
-- bc_spec / ebc_spec: non-integral fractions
example : (bcSpec diamond)[(1 : Fin 4)] = 1 / 2 := by decide +kernel
example : (ebcSpec wtriangle).get 0 2 = 1 / 2 := by decide +kernel
example : (ebcSpec diamond).get 0 1 = 3 / 2 := by decide +kernel
-- unreachable_contributes_nothing: hypothesis satisfiable
example : (dist diamond).get 1 2 = none := by decide
-- sum identities: the hypothesis holds and both sides are non-zero (5 reachable ordered pairs, Σ d = 6)
example : ∀ i j, diamond.get i j ≤ 1 := by decide
example : ∑ v : Fin 4, (bcSpec diamond)[v] = 1 := by
  rw [sum_node_bin diamond (by decide)]; decide +kernel
example : ∑ u, ∑ w, (ebcSpec diamond).get u w = 6 := by
  rw [sum_edge_bin diamond (by decide)]; decide +kernel
-- edge_node_consistent: the subtracted count is non-zero (3 nodes reachable from 0)
example : (Finset.univ.filter fun t : Fin 4 => t ≠ 0 ∧ reach (dist diamond) 0 t = true).card = 3 := by decide
-- dependency_rec: the predecessor relation is inhabited and the dependency non-zero
example : pred diamond (dist diamond) 0 1 3 = true ∧ (0 : Fin 4) ≠ 1 := by decide
example : depOf (dist diamond) (sigma diamond) 0 1 = 1 / 2 := by decide +kernel


/-- the forward-phase postcondition, as a decidable test (used only for the non-vacuity examples) -/
def fwdOKb {n : ℕ} (L : AMat Nat n) (s : Fin n) (st : SrcSt n) : Bool :=
  (List.finRange n).all (fun w => (List.finRange n).all fun v => st.P.get w v == pred L (dist L) s v w) &&
  (List.finRange n).all (fun x => !reach (dist L) s x || st.NP[x] == (sigma L).get s x)

-- brandes_correct_partial / back_propagation_correct: on `diamond` the forward phase of every source
-- terminates normally with `P`, `NP` as required, and the conclusion holds with a non-trivial value
example : (List.finRange 4).all (fun u => match fwd diamond true u with
    | .ok st => fwdOKb diamond u st | .error _ => false) = true := by decide
example : (List.finRange 4).all (fun u => match fwd diamond false u with
    | .ok st => fwdOKb diamond u st | .error _ => false) = true := by decide
example : (brandes true diamond).toOption.map (fun r => r.2[(1 : Fin 4)]) = some (1 / 2) := by decide +kernel
example : (brandes true wtriangle).toOption.map (fun r => r.1.get 0 2) = some (1 / 2) := by decide +kernel
example : (betweennessWei diamond).toOption.map (fun r => r[(1 : Fin 4)]) = some (1 / 2) := by decide +kernel
example : (brandes false diamond).toOption.map (fun r => r.1.get 0 1) = some (3 / 2) := by decide +kernel
-- betweennessBin_correct / shortest_path_extension: hypotheses satisfiable, non-trivial value
example : (∀ i j, diamond.get i j ≤ 1) ∧ (∀ i, diamond.get i i = 0) := by decide
example : (betweennessBin diamond).toOption.map (fun r => r[(2 : Fin 4)]) = some (1 / 2) := by decide +kernel
example : (dist diamond).get 0 3 = some (1 + 1) ∧ (sigma diamond).get 0 3 = 2 ∧ (0 : Fin 4) ≠ 3 := by decide

-- rational lengths: `wtriangle / 2` has lengths 1/2, 1/2, 1 with the exact tie 1/2 + 1/2 = 1
example : lenQ wtriangle 2 0 1 = 1 / 2 ∧ lenQ wtriangle 2 0 2 = 1 := by
  constructor <;> (unfold lenQ; norm_num [wtriangle])
example : IsMinQ (lenQ wtriangle 2) 0 2 [2] ∧ IsMinQ (lenQ wtriangle 2) 0 2 [1, 2] := by
  constructor <;> rw [isMinQ_iff (by decide), isMin_iff_dist]
  · exact ⟨⟨by decide, trivial⟩, rfl, by decide⟩
  · exact ⟨⟨by decide, by decide, trivial⟩, rfl, by decide⟩
example : (scaleL 3 wtriangle).get 0 2 = 6 := by decide

end Bct.C08
