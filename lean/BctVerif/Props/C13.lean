import BctVerif.Model.AliasIR
/-!
# C13 — library calls never modify the caller's arrays (unless copy=False is requested)

Meta-theorem about the alias/write IR of `Model/AliasIR.lean`, proved once: the may-alias analysis is sound for
the heap semantics, including inlined calls (arbitrary depth, recursion) and loops.

* `sound`        (for executions that complete **and** for executions left by an exception at any point)
                 `analyze tbl fuel s T = some T'`, every caller-owned location reachable at entry is reachable only
                 through a name in `T` (a bit mask)  ⇒  no execution of `s` writes a caller-owned location, and `T'` has the same
                 property at exit;
* `safe_sound`   the per-function obligation `safe tbl fuel f = true` (closed by `decide` in `Gen/EffectsAlias.lean`,
                 regenerated from /repo on every check run)  ⇒  in every execution of `f`'s body from a frame in which
                 caller-owned arrays are reachable only through the parameters, no write hits a caller-owned location;
* `safeExcept_sound`  the same for the `copy=False` variants: arrays passed at the other positions are never written.

The translator (Python AST → IR, i.e. the table of NumPy view/copy/in-place rules) is trusted; it is validated
dynamically by `harness/props/c13.py` (argument snapshots before/after every public call).
-/
namespace Bct.C13
open Bct.AliasIR

/-! ### bit-mask-as-set lemmas -/

theorem mem_insertN {x y : Name} {T : TSet} : memN y (insertN x T) = true ↔ y = x ∨ memN y T = true := by
  unfold memN insertN
  rw [Nat.testBit_or, Nat.testBit_two_pow]
  simp only [Bool.or_eq_true, decide_eq_true_eq]
  constructor
  · rintro (h | h)
    · exact Or.inr h
    · exact Or.inl h.symm
  · rintro (h | h)
    · exact Or.inr h.symm
    · exact Or.inl h

theorem mem_removeN {x y : Name} {T : TSet} : memN y (removeN x T) = true ↔ memN y T = true ∧ y ≠ x := by
  unfold memN removeN
  by_cases hx : T.testBit x = true
  · simp only [hx, if_true]
    rw [Nat.testBit_xor, Nat.testBit_two_pow]
    by_cases hyx : y = x
    · subst hyx; simp [hx]
    · have : ¬ x = y := fun h => hyx h.symm
      simp [hyx, this]
  · simp only [hx, Bool.false_eq_true, if_false]
    constructor
    · intro h
      refine ⟨h, ?_⟩
      rintro rfl
      exact hx h
    · exact fun h => h.1

theorem mem_unionN {y : Name} {a b : TSet} : memN y (unionN a b) = true ↔ memN y a = true ∨ memN y b = true := by
  unfold memN unionN
  rw [Nat.testBit_or]; simp

theorem mem_zero (x : Name) : memN x 0 = false := by
  unfold memN; exact Nat.zero_testBit x

theorem anyIn_true {ys : List Name} {T : TSet} : anyIn ys T = true ↔ ∃ y, y ∈ ys ∧ memN y T = true := by
  simp [anyIn, memN]

theorem subset_mem {a b : TSet} (h : subset a b = true) {x : Name} (hx : memN x a = true) : memN x b = true := by
  unfold subset at h
  have hb : a ||| b = b := by simpa using h
  unfold memN at hx ⊢
  rw [← hb, Nat.testBit_or, hx]; rfl

theorem subset_refl (a : TSet) : subset a a = true := by
  unfold subset; simp

theorem mem_maskOf {x : Name} : ∀ {xs : List Name}, memN x (maskOf xs) = true ↔ x ∈ xs := by
  intro xs
  induction xs with
  | nil => simp [maskOf, mem_zero]
  | cons y ys ih => simp only [maskOf, mem_insertN, ih, List.mem_cons]

theorem mem_taintedParams {T : TSet} {p : Name} {ys : List Name} :
    ∀ {ps : List Name} {as : List (List Name)}, (p, ys) ∈ ps.zip as → anyIn ys T = true →
      memN p (taintedParams T ps as) = true := by
  intro ps
  induction ps with
  | nil => intro as h; simp at h
  | cons q qs ih =>
    intro as h hy
    cases as with
    | nil => simp at h
    | cons a as =>
      simp only [List.zip_cons_cons, List.mem_cons, Prod.mk.injEq] at h
      unfold taintedParams
      rcases h with ⟨rfl, rfl⟩ | h
      · simp only [hy, if_true]; exact mem_insertN.mpr (Or.inl rfl)
      · have := ih h hy
        split
        · exact mem_insertN.mpr (Or.inr this)
        · exact this

/-! ### the invariant -/

/-- every caller-owned location reachable through some name is reachable through a name of `T` only -/
def TInv (C : Loc → Prop) (env : Env) (T : TSet) : Prop :=
  ∀ x l, env x l → C l → memN x T = true

theorem TInv_mono {C env} {T T' : TSet} (h : subset T T' = true) (hi : TInv C env T) :
    TInv C env T' := fun x l hx hc => subset_mem h (hi x l hx hc)

/-- rebinding `x` to something caller-free lets `x` leave the taint set -/
theorem TInv_set_clean {C env T x} {P : Loc → Prop} (hi : TInv C env T) (hP : ∀ l, P l → ¬ C l) :
    TInv C (env.set x P) (removeN x T) := by
  intro y l hy hc
  unfold Env.set at hy
  by_cases hyx : y = x
  · simp only [hyx, if_true] at hy; exact absurd hc (hP l hy)
  · simp only [hyx, if_false] at hy
    exact mem_removeN.mpr ⟨hi y l hy hc, hyx⟩

/-- rebinding `x` to anything is fine once `x` is in the taint set -/
theorem TInv_set_taint {C env T x} {P : Loc → Prop} (hi : TInv C env T) :
    TInv C (env.set x P) (insertN x T) := by
  intro y l hy hc
  unfold Env.set at hy
  by_cases hyx : y = x
  · exact mem_insertN.mpr (Or.inl hyx)
  · simp only [hyx, if_false] at hy
    exact mem_insertN.mpr (Or.inr (hi y l hy hc))

/-- a frame whose parameters reach at most what the arguments reach inherits the taint of the arguments -/
theorem TInv_callee {C : Loc → Prop} {env envc : Env} {T : TSet} {params : List Name}
    {args : List (List Name)} (hi : TInv C env T)
    (hbind : ∀ p l, envc p l → ∃ ys, (p, ys) ∈ params.zip args ∧ ∃ y, y ∈ ys ∧ env y l) :
    TInv C envc (taintedParams T params args) := by
  intro p l hp hc
  obtain ⟨ys, hz, y, hy, hyl⟩ := hbind p l hp
  exact mem_taintedParams hz (anyIn_true.mpr ⟨y, hy, hi y l hyl hc⟩)

/-- nothing caller-owned is reachable when the taint set is empty -/
theorem TInv_zero_elim {C env} (hi : TInv C env 0) {x l} (hx : env x l) (hc : C l) : False := by
  have := hi x l hx hc
  rw [mem_zero] at this; cases this

/-- what the loop rule returns contains the entry taint and is inductive for the body -/
theorem loopFix_spec {step : TSet → Option TSet} : ∀ (k : Nat) (T inv : TSet),
    loopFix step k T = some inv →
      (∀ x, memN x T = true → memN x inv = true) ∧ ∃ t', step inv = some t' ∧ subset t' inv = true := by
  intro k
  induction k with
  | zero => intro T inv h; simp [loopFix] at h
  | succ k ih =>
    intro T inv h
    simp only [loopFix] at h
    cases hs : step T with
    | none => simp [hs] at h
    | some t' =>
      simp only [hs] at h
      by_cases hsub : subset t' T = true
      · simp only [hsub, if_true, Option.some.injEq] at h; subst h
        exact ⟨fun _ hx => hx, t', hs, hsub⟩
      · simp only [hsub, Bool.false_eq_true, if_false] at h
        obtain ⟨h1, h2⟩ := ih _ _ h
        exact ⟨fun x hx => h1 x (mem_unionN.mpr (Or.inl hx)), h2⟩

/-- re-running the loop rule from an inductive set returns that set -/
theorem loopFix_fix {step : TSet → Option TSet} {inv t' : TSet}
    (h : step inv = some t') (hs : subset t' inv = true) (k : Nat) : loopFix step (k + 1) inv = some inv := by
  simp [loopFix, h, hs]

/-! ### executions that start without any caller-owned array in reach never meet one -/

theorem clean0 {C env x} {P : Loc → Prop} (hi : TInv C env 0) (hP : ∀ l, P l → ¬ C l) :
    TInv C (env.set x P) 0 := by
  intro y l hy hc
  unfold Env.set at hy
  by_cases hyx : y = x
  · simp only [hyx, if_true] at hy; exact absurd hc (hP l hy)
  · simp only [hyx, if_false] at hy; exact hi y l hy hc

theorem afterUnknown_clean {C env ys} (hi : TInv C env 0) : TInv C (env.afterUnknown ys) 0 := by
  intro y l hy hc
  rcases hy with hy | ⟨_, z, _, hz⟩
  · exact hi y l hy hc
  · exact (TInv_zero_elim hi hz hc).elim

theorem afterCall_clean {C env envc' ps as} (hi : TInv C env 0) (hc' : TInv C envc' 0) :
    TInv C (env.afterCall envc' ps as) 0 := by
  intro y l hy hc
  rcases hy with hy | ⟨p, _, _, _, hp⟩
  · exact hi y l hy hc
  · exact (TInv_zero_elim hc' hp hc).elim

theorem exec_clean (C : Loc → Prop) (tbl : Table) : ∀ (s : Stmt) (e e' : Env) (w : Loc → Prop) (fin : Bool),
    Exec C tbl s e e' w fin → TInv C e 0 → (∀ l, w l → ¬ C l) ∧ TInv C e' 0 := by
  intro s e e' w fin h
  induction h with
  | fresh x env P hP => intro hi; exact ⟨fun _ h => h.elim, clean0 hi hP⟩
  | alias x ys keep env P hP =>
    intro hi
    refine ⟨fun _ h => h.elim, clean0 hi ?_⟩
    intro l hl hc
    rcases hP l hl with ⟨y, _, hyl⟩ | ⟨_, hxl⟩ | hnc
    · exact TInv_zero_elim hi hyl hc
    · exact TInv_zero_elim hi hxl hc
    · exact hnc hc
  | unknown x ys env P W hW hP =>
    intro hi
    refine ⟨?_, clean0 (afterUnknown_clean hi) ?_⟩
    · intro l hl hc
      obtain ⟨y, _, hyl⟩ := hW l hl
      exact TInv_zero_elim hi hyl hc
    · intro l hl hc
      rcases hP l hl with ⟨y, _, hyl⟩ | hnc
      · exact TInv_zero_elim hi hyl hc
      · exact hnc hc
  | write x env W hW => intro hi; exact ⟨fun l hl hc => TInv_zero_elim hi (hW l hl) hc, hi⟩
  | call x f args env d envc envc' wc hl hbind _ ih =>
    intro hi
    have hic : TInv C envc 0 := by
      intro p l hp hc
      obtain ⟨ys, _, y, _, hyl⟩ := hbind p l hp
      exact (TInv_zero_elim hi hyl hc).elim
    obtain ⟨hw, hi'⟩ := ih hic
    exact ⟨hw, clean0 (afterCall_clean hi hi') (fun l hl hc => TInv_zero_elim hi' hl hc)⟩
  | callUnknown x f args env P W hl hW hP =>
    intro hi
    refine ⟨?_, clean0 (afterUnknown_clean hi) ?_⟩
    · intro l hl' hc
      obtain ⟨y, _, hyl⟩ := hW l hl'
      exact TInv_zero_elim hi hyl hc
    · intro l hl' hc
      rcases hP l hl' with ⟨y, _, hyl⟩ | hnc
      · exact TInv_zero_elim hi hyl hc
      · exact hnc hc
  | seqNil env => intro hi; exact ⟨fun _ h => h.elim, hi⟩
  | seqCons s ss e1 e2 e3 w1 w2 fin _ _ ih1 ih2 =>
    intro hi
    obtain ⟨hw1, hi2⟩ := ih1 hi
    obtain ⟨hw2, hi3⟩ := ih2 hi2
    exact ⟨fun l hl => hl.elim (hw1 l) (hw2 l), hi3⟩
  | brL a b e1 e2 w fin _ ih => intro hi; exact ih hi
  | brR a b e1 e2 w fin _ ih => intro hi; exact ih hi
  | loop0 b env => intro hi; exact ⟨fun _ h => h.elim, hi⟩
  | loopS b e1 e2 e3 w1 w2 fin _ _ ih1 ih2 =>
    intro hi
    obtain ⟨hw1, hi2⟩ := ih1 hi
    obtain ⟨hw2, hi3⟩ := ih2 hi2
    exact ⟨fun l hl => hl.elim (hw1 l) (hw2 l), hi3⟩
  | abort s env => intro hi; exact ⟨fun _ h => h.elim, hi⟩
  | writeAbort x env W hW => intro hi; exact ⟨fun l hl hc => TInv_zero_elim hi (hW l hl) hc, hi⟩
  | unknownAbort x ys env W hW =>
    intro hi
    refine ⟨?_, afterUnknown_clean hi⟩
    intro l hl hc
    obtain ⟨y, _, hyl⟩ := hW l hl
    exact TInv_zero_elim hi hyl hc
  | callAbort x f args env d envc envc' wc hl hbind _ ih =>
    intro hi
    have hic : TInv C envc 0 := by
      intro p l hp hc
      obtain ⟨ys, _, y, _, hyl⟩ := hbind p l hp
      exact (TInv_zero_elim hi hyl hc).elim
    obtain ⟨hw, hi'⟩ := ih hic
    exact ⟨hw, afterCall_clean hi hi'⟩
  | callUnknownAbort x f args env W hl hW =>
    intro hi
    refine ⟨?_, afterUnknown_clean hi⟩
    intro l hl' hc
    obtain ⟨y, _, hyl⟩ := hW l hl'
    exact TInv_zero_elim hi hyl hc
  | seqAbort s ss e1 e2 w1 _ ih => intro hi; exact ih hi
  | loopAbort b e1 e2 w1 _ ih => intro hi; exact ih hi

theorem TInv_zero_of_beq {C env} {T : TSet} (h : (T == 0) = true) (hi : TInv C env T) : TInv C env 0 := by
  have : T = 0 := by simpa using h
  rw [this] at hi; exact hi

/-! ### what a call / an operation without a rule does to the caller's frame -/

theorem mem_insertAll {z : Name} : ∀ {ys : List Name} {T : TSet},
    memN z (insertAll ys T) = true ↔ z ∈ ys ∨ memN z T = true := by
  intro ys
  induction ys with
  | nil => intro T; simp [insertAll]
  | cons y ys ih =>
    intro T
    simp only [insertAll, ih, mem_insertN, List.mem_cons]
    constructor
    · rintro (h | h | h)
      · exact Or.inl (Or.inr h)
      · exact Or.inl (Or.inl h)
      · exact Or.inr h
    · rintro ((h | h) | h)
      · exact Or.inr (Or.inl h)
      · exact Or.inl h
      · exact Or.inr (Or.inr h)

theorem taintBack_mono {Tc : TSet} {y : Name} : ∀ {ps : List Name} {as : List (List Name)} {T : TSet},
    memN y T = true → memN y (taintBack Tc ps as T) = true := by
  intro ps
  induction ps with
  | nil => intro as T h; simpa [taintBack] using h
  | cons p ps ih =>
    intro as T h
    cases as with
    | nil => simpa [taintBack] using h
    | cons a as =>
      simp only [taintBack]
      apply ih
      split
      · exact mem_insertAll.mpr (Or.inr h)
      · exact h

theorem taintBack_hit {Tc : TSet} {y p : Name} {ys : List Name} :
    ∀ {ps : List Name} {as : List (List Name)} {T : TSet}, (p, ys) ∈ ps.zip as → memN p Tc = true → y ∈ ys →
      memN y (taintBack Tc ps as T) = true := by
  intro ps
  induction ps with
  | nil => intro as T h; simp at h
  | cons q qs ih =>
    intro as T h hp hy
    cases as with
    | nil => simp at h
    | cons a as =>
      simp only [List.zip_cons_cons, List.mem_cons, Prod.mk.injEq] at h
      simp only [taintBack]
      rcases h with ⟨rfl, rfl⟩ | h
      · apply taintBack_mono
        simp only [hp, if_true]
        exact mem_insertAll.mpr (Or.inl hy)
      · exact ih h hp hy

/-- the frame after a call is covered by the entry taint plus the arguments of the parameters tainted at callee exit -/
theorem TInv_afterCall {C env envc' ps as T Tc} (hi : TInv C env T) (hc' : TInv C envc' Tc) :
    TInv C (env.afterCall envc' ps as) (taintBack Tc ps as T) := by
  intro y l hy hc
  rcases hy with hy | ⟨p, ys, hz, hyy, hp⟩
  · exact taintBack_mono (hi y l hy hc)
  · exact taintBack_hit hz (hc' p l hp hc) hyy

/-- an operation without a rule on untainted names leaves the invariant alone -/
theorem TInv_afterUnknown {C env ys T} (hi : TInv C env T) (hany : ¬ anyIn ys T = true) :
    TInv C (env.afterUnknown ys) T := by
  intro y l hy hc
  rcases hy with hy | ⟨_, z, hz, hzl⟩
  · exact hi y l hy hc
  · exact absurd (anyIn_true.mpr ⟨z, hz, hi z l hzl hc⟩) hany

/-! ### soundness of the analysis -/

/-- **Meta-theorem.**  If the analysis accepts `s` from taint set `T` and `T` covers every name through which a
    caller-owned location is reachable at entry, then no execution of `s` — whatever branches it takes, however
    often its loops run, however deep its calls nest, and **whether it completes or is left by an exception at any
    point** — writes a caller-owned location; if it completes, the returned taint set covers the exit frame. -/
theorem sound (C : Loc → Prop) (tbl : Table) : ∀ (s : Stmt) (e e' : Env) (w : Loc → Prop) (fin : Bool),
    Exec C tbl s e e' w fin → ∀ (n : Nat) (T T' : TSet), analyze tbl n s T = some T' → TInv C e T →
      (∀ l, w l → ¬ C l) ∧ (fin = true → TInv C e' T') := by
  intro s e e' w fin h
  induction h with
  | fresh x env P hP =>
    intro n T T' ha hi
    cases n with
    | zero => simp [analyze] at ha
    | succ n =>
      simp only [analyze, Option.some.injEq] at ha; subst ha
      exact ⟨fun _ h => h.elim, fun _ => TInv_set_clean hi hP⟩
  | alias x ys keep env P hP =>
    intro n T T' ha hi
    cases n with
    | zero => simp [analyze] at ha
    | succ n =>
      refine ⟨fun _ h => h.elim, fun _ => ?_⟩
      simp only [analyze] at ha
      by_cases hany : anyIn ys T = true
      · simp only [hany, if_true, Option.some.injEq] at ha; subst ha
        exact TInv_set_taint hi
      · simp only [hany] at ha
        have hsrc : ∀ l, (∃ y, y ∈ ys ∧ env y l) → ¬ C l := by
          rintro l ⟨y, hy, hyl⟩ hc
          exact hany (anyIn_true.mpr ⟨y, hy, hi y l hyl hc⟩)
        cases keep with
        | true =>
          simp only [if_true, Option.some.injEq, Bool.false_eq_true, if_false] at ha; subst ha
          intro y l hy hc
          unfold Env.set at hy
          by_cases hyx : y = x
          · simp only [hyx, if_true] at hy
            rcases hP l hy with hs | ⟨_, hxl⟩ | hnc
            · exact absurd hc (hsrc l hs)
            · rw [hyx]; exact hi x l hxl hc
            · exact absurd hc hnc
          · simp only [hyx, if_false] at hy; exact hi y l hy hc
        | false =>
          simp only [Bool.false_eq_true, if_false, Option.some.injEq] at ha; subst ha
          apply TInv_set_clean hi
          intro l hl hc
          rcases hP l hl with hs | ⟨hk, _⟩ | hnc
          · exact hsrc l hs hc
          · cases hk
          · exact hnc hc
  | unknown x ys env P W hW hP =>
    intro n T T' ha hi
    cases n with
    | zero => simp [analyze] at ha
    | succ n =>
      simp only [analyze] at ha
      by_cases hany : anyIn ys T = true
      · simp [hany] at ha
      · simp only [hany, Bool.false_eq_true, if_false, Option.some.injEq] at ha; subst ha
        have hsrc : ∀ l, (∃ y, y ∈ ys ∧ env y l) → ¬ C l := by
          rintro l ⟨y, hy, hyl⟩ hc
          exact hany (anyIn_true.mpr ⟨y, hy, hi y l hyl hc⟩)
        refine ⟨fun l hl => hsrc l (hW l hl), fun _ => TInv_set_clean (TInv_afterUnknown hi hany) ?_⟩
        intro l hl hc
        rcases hP l hl with hs | hnc
        · exact hsrc l hs hc
        · exact hnc hc
  | write x env W hW =>
    intro n T T' ha hi
    cases n with
    | zero => simp [analyze] at ha
    | succ n =>
      simp only [analyze] at ha
      by_cases hx : memN x T = true
      · simp [hx] at ha
      · simp only [hx, Bool.false_eq_true, if_false, Option.some.injEq] at ha; subst ha
        exact ⟨fun l hl hc => hx (hi x l (hW l hl) hc), fun _ => hi⟩
  | call x f args env d envc envc' wc hl hbind hb ih =>
    intro n T T' ha hi
    cases n with
    | zero => simp [analyze] at ha
    | succ n =>
      simp only [analyze, hl] at ha
      have hic := TInv_callee hi hbind
      by_cases hemp : (taintedParams T d.params args == 0) = true
      · simp only [hemp, if_true, Option.some.injEq] at ha; subst ha
        obtain ⟨hw, hi'⟩ := exec_clean C tbl _ _ _ _ _ hb (TInv_zero_of_beq hemp hic)
        refine ⟨hw, fun _ => TInv_set_clean ?_ (fun l hl' hc => TInv_zero_elim hi' hl' hc)⟩
        intro y l hy hc
        rcases hy with hy | ⟨p, _, _, _, hp⟩
        · exact hi y l hy hc
        · exact (TInv_zero_elim hi' hp hc).elim
      · simp only [hemp, Bool.false_eq_true, if_false] at ha
        cases hcal : analyze tbl n d.body (taintedParams T d.params args) with
        | none => simp [hcal] at ha
        | some Tc =>
          simp only [hcal] at ha
          obtain ⟨hw, hi'⟩ := ih n _ Tc hcal hic
          have hi' := hi' rfl
          refine ⟨hw, fun _ => ?_⟩
          have hback := TInv_afterCall (ps := d.params) (as := args) hi hi'
          by_cases hret : memN RET Tc = true
          · simp only [hret, if_true, Option.some.injEq] at ha; subst ha
            exact TInv_set_taint hback
          · simp only [hret, Bool.false_eq_true, if_false, Option.some.injEq] at ha; subst ha
            apply TInv_set_clean hback
            intro l hl' hc
            exact hret (hi' RET l hl' hc)
  | callUnknown x f args env P W hl hW hP =>
    intro n T T' ha hi
    cases n with
    | zero => simp [analyze] at ha
    | succ n =>
      simp only [analyze, hl] at ha
      by_cases hany : anyIn args.flatten T = true
      · simp [hany] at ha
      · simp only [hany, Bool.false_eq_true, if_false, Option.some.injEq] at ha; subst ha
        have hsrc : ∀ l, (∃ y, y ∈ args.flatten ∧ env y l) → ¬ C l := by
          rintro l ⟨y, hy, hyl⟩ hc
          exact hany (anyIn_true.mpr ⟨y, hy, hi y l hyl hc⟩)
        refine ⟨fun l hl' => hsrc l (hW l hl'), fun _ => TInv_set_clean (TInv_afterUnknown hi hany) ?_⟩
        intro l hl' hc
        rcases hP l hl' with hs | hnc
        · exact hsrc l hs hc
        · exact hnc hc
  | seqNil env =>
    intro n T T' ha hi
    cases n with
    | zero => simp [analyze] at ha
    | succ n =>
      simp only [analyze, Option.some.injEq] at ha; subst ha
      exact ⟨fun _ h => h.elim, fun _ => hi⟩
  | seqCons s ss e1 e2 e3 w1 w2 fin _ _ ih1 ih2 =>
    intro n T T' ha hi
    cases n with
    | zero => simp [analyze] at ha
    | succ n =>
      simp only [analyze] at ha
      cases h1 : analyze tbl n s T with
      | none => simp [h1] at ha
      | some t =>
        simp only [h1] at ha
        obtain ⟨hw1, hi2⟩ := ih1 n T t h1 hi
        obtain ⟨hw2, hi3⟩ := ih2 n t T' ha (hi2 rfl)
        exact ⟨fun l hl => hl.elim (hw1 l) (hw2 l), hi3⟩
  | brL a b e1 e2 w fin _ ih =>
    intro n T T' ha hi
    cases n with
    | zero => simp [analyze] at ha
    | succ n =>
      simp only [analyze] at ha
      cases h1 : analyze tbl n a T with
      | none => simp [h1] at ha
      | some t1 =>
        cases h2 : analyze tbl n b T with
        | none => simp [h1, h2] at ha
        | some t2 =>
          simp only [h1, h2, Option.some.injEq] at ha; subst ha
          obtain ⟨hw, hi'⟩ := ih n T t1 h1 hi
          exact ⟨hw, fun hf x l hx hc => mem_unionN.mpr (Or.inl (hi' hf x l hx hc))⟩
  | brR a b e1 e2 w fin _ ih =>
    intro n T T' ha hi
    cases n with
    | zero => simp [analyze] at ha
    | succ n =>
      simp only [analyze] at ha
      cases h1 : analyze tbl n a T with
      | none => simp [h1] at ha
      | some t1 =>
        cases h2 : analyze tbl n b T with
        | none => simp [h1, h2] at ha
        | some t2 =>
          simp only [h1, h2, Option.some.injEq] at ha; subst ha
          obtain ⟨hw, hi'⟩ := ih n T t2 h2 hi
          exact ⟨hw, fun hf x l hx hc => mem_unionN.mpr (Or.inr (hi' hf x l hx hc))⟩
  | loop0 b env =>
    intro n T T' ha hi
    cases n with
    | zero => simp [analyze] at ha
    | succ n =>
      simp only [analyze] at ha
      obtain ⟨hsub, _⟩ := loopFix_spec _ _ _ ha
      exact ⟨fun _ h => h.elim, fun _ x l hx hc => hsub x (hi x l hx hc)⟩
  | loopS b e1 e2 e3 w1 w2 fin _ _ ih1 ih2 =>
    intro n T T' ha hi
    cases n with
    | zero => simp [analyze] at ha
    | succ n =>
      simp only [analyze] at ha
      obtain ⟨hsub, t', hstep, hsub'⟩ := loopFix_spec _ _ _ ha
      have hiInv : TInv C e1 T' := fun x l hx hc => hsub x (hi x l hx hc)
      obtain ⟨hw1, hi2⟩ := ih1 n _ t' hstep hiInv
      have hi2' := TInv_mono hsub' (hi2 rfl)
      -- analysing the loop again from the invariant returns the invariant
      have hloop : analyze tbl (n + 1) (.loop b) T' = some T' := by
        simp only [analyze]; exact loopFix_fix hstep hsub' 15
      obtain ⟨hw2, hi3⟩ := ih2 (n + 1) _ _ hloop hi2'
      exact ⟨fun l hl => hl.elim (hw1 l) (hw2 l), hi3⟩
  | abort s env => intro n T T' _ _; exact ⟨fun _ h => h.elim, fun h => by cases h⟩
  | writeAbort x env W hW =>
    intro n T T' ha hi
    cases n with
    | zero => simp [analyze] at ha
    | succ n =>
      simp only [analyze] at ha
      by_cases hx : memN x T = true
      · simp [hx] at ha
      · exact ⟨fun l hl hc => hx (hi x l (hW l hl) hc), fun h => by cases h⟩
  | unknownAbort x ys env W hW =>
    intro n T T' ha hi
    cases n with
    | zero => simp [analyze] at ha
    | succ n =>
      simp only [analyze] at ha
      by_cases hany : anyIn ys T = true
      · simp [hany] at ha
      · refine ⟨?_, fun h => by cases h⟩
        intro l hl hc
        obtain ⟨y, hy, hyl⟩ := hW l hl
        exact hany (anyIn_true.mpr ⟨y, hy, hi y l hyl hc⟩)
  | callAbort x f args env d envc envc' wc hl hbind hb ih =>
    intro n T T' ha hi
    cases n with
    | zero => simp [analyze] at ha
    | succ n =>
      simp only [analyze, hl] at ha
      have hic := TInv_callee hi hbind
      refine ⟨?_, fun h => by cases h⟩
      by_cases hemp : (taintedParams T d.params args == 0) = true
      · exact (exec_clean C tbl _ _ _ _ _ hb (TInv_zero_of_beq hemp hic)).1
      · simp only [hemp, Bool.false_eq_true, if_false] at ha
        cases hcal : analyze tbl n d.body (taintedParams T d.params args) with
        | none => simp [hcal] at ha
        | some Tc => exact (ih n _ Tc hcal hic).1
  | callUnknownAbort x f args env W hl hW =>
    intro n T T' ha hi
    cases n with
    | zero => simp [analyze] at ha
    | succ n =>
      simp only [analyze, hl] at ha
      by_cases hany : anyIn args.flatten T = true
      · simp [hany] at ha
      · refine ⟨?_, fun h => by cases h⟩
        intro l hl' hc
        obtain ⟨y, hy, hyl⟩ := hW l hl'
        exact hany (anyIn_true.mpr ⟨y, hy, hi y l hyl hc⟩)
  | seqAbort s ss e1 e2 w1 _ ih =>
    intro n T T' ha hi
    cases n with
    | zero => simp [analyze] at ha
    | succ n =>
      simp only [analyze] at ha
      cases h1 : analyze tbl n s T with
      | none => simp [h1] at ha
      | some t => exact ⟨(ih n T t h1 hi).1, fun h => by cases h⟩
  | loopAbort b e1 e2 w1 _ ih =>
    intro n T T' ha hi
    cases n with
    | zero => simp [analyze] at ha
    | succ n =>
      simp only [analyze] at ha
      obtain ⟨hsub, t', hstep, _⟩ := loopFix_spec _ _ _ ha
      have hiInv : TInv C e1 T' := fun x l hx hc => hsub x (hi x l hx hc)
      exact ⟨(ih n _ t' hstep hiInv).1, fun h => by cases h⟩

/-- **C13 for one function.**  `safe tbl fuel f = true` (the generated obligation) ⇒ for every set `C` of
    caller-owned locations and every entry frame in which those are reachable only through `f`'s parameters,
    no execution of `f`'s body writes a location of `C`. -/
theorem safe_sound {tbl : Table} {fuel f : Nat} (hs : safe tbl fuel f = true) :
    ∃ d, lookup tbl f = some d ∧
      ∀ (C : Loc → Prop) (e e' : Env) (w : Loc → Prop) (fin : Bool), (∀ x l, e x l → C l → x ∈ d.params) →
        Exec C tbl d.body e e' w fin → ∀ l, w l → ¬ C l := by
  unfold safe at hs
  cases hl : lookup tbl f with
  | none => simp [hl] at hs
  | some d =>
    simp only [hl] at hs
    refine ⟨d, rfl, ?_⟩
    intro C e e' w fin hi hex
    cases ha : analyze tbl fuel d.body (maskOf d.params) with
    | none => simp [ha] at hs
    | some T' =>
      exact (sound C tbl _ _ _ _ _ hex fuel _ T' ha (fun x l hx hc => mem_maskOf.mpr (hi x l hx hc))).1

/-- the `copy=False` variants: whatever is reachable only through the parameters *not* listed in `k` is never
    written (the listed parameter is the array the caller asked to be modified in place) -/
theorem safeExcept_sound {tbl : Table} {fuel f : Nat} {k : List Nat} (hs : safeExcept tbl fuel f k = true) :
    ∃ d, lookup tbl f = some d ∧
      ∀ (C : Loc → Prop) (e e' : Env) (w : Loc → Prop) (fin : Bool), (∀ x l, e x l → C l → x ∈ dropAt k 0 d.params) →
        Exec C tbl d.body e e' w fin → ∀ l, w l → ¬ C l := by
  unfold safeExcept at hs
  cases hl : lookup tbl f with
  | none => simp [hl] at hs
  | some d =>
    simp only [hl] at hs
    refine ⟨d, rfl, ?_⟩
    intro C e e' w fin hi hex
    cases ha : analyze tbl fuel d.body (maskOf (dropAt k 0 d.params)) with
    | none => simp [ha] at hs
    | some T' =>
      exact (sound C tbl _ _ _ _ _ hex fuel _ T' ha (fun x l hx hc => mem_maskOf.mpr (hi x l hx hc))).1

/-- the semantic statement of C13 for function `f` of table `tbl`: in every execution of its body — completed or left by an
    exception — from every frame in which caller-owned locations are reachable only through the parameters, no write
    hits a caller-owned location -/
def NoCallerWrite (tbl : Table) (f : Nat) : Prop :=
  ∃ d, lookup tbl f = some d ∧
    ∀ (C : Loc → Prop) (e e' : Env) (w : Loc → Prop) (fin : Bool), (∀ x l, e x l → C l → x ∈ d.params) →
      Exec C tbl d.body e e' w fin → ∀ l, w l → ¬ C l

/-- the same for a `copy=False` variant: arrays reachable only through the parameters *not* at the positions `k` -/
def NoCallerWriteExcept (tbl : Table) (f : Nat) (k : List Nat) : Prop :=
  ∃ d, lookup tbl f = some d ∧
    ∀ (C : Loc → Prop) (e e' : Env) (w : Loc → Prop) (fin : Bool), (∀ x l, e x l → C l → x ∈ dropAt k 0 d.params) →
      Exec C tbl d.body e e' w fin → ∀ l, w l → ¬ C l

theorem noCallerWrite_of_safe {tbl : Table} {fuel f : Nat} (hs : safe tbl fuel f = true) : NoCallerWrite tbl f :=
  safe_sound hs

theorem noCallerWriteExcept_of_safeExcept {tbl : Table} {fuel f : Nat} {k : List Nat}
    (hs : safeExcept tbl fuel f k = true) : NoCallerWriteExcept tbl f k := safeExcept_sound hs

/-! ### non-vacuity -/

/-- 1 = `binarize(W, copy=True)`: `W = W.copy(); W[..] = 1; return W`;  2 = the `copy=False` path;
    3 = `clustering(W)` that calls 1 and then clears the diagonal of the result;
    4 = the D12 pattern: `np.fill_diagonal(W, 0)` on the parameter;  5 = D12 through a view and a callee -/
def exTable : Table :=
  [(1, ⟨[1], .seq [.fresh 1, .write 1, .alias RET [1] true]⟩),
   (2, ⟨[1], .seq [.write 1, .alias RET [1] true]⟩),
   (3, ⟨[1], .seq [.call 2 1 [[1]], .write 2, .loop (.seq [.alias 3 [1] false, .fresh 3, .write 3])]⟩),
   (4, ⟨[1], .seq [.write 1]⟩),
   (5, ⟨[1], .seq [.alias 2 [1] false, .call 3 2 [[2]]]⟩),
   (6, ⟨[1], .seq [.fresh 2, .call 2 2 [[2]], .write 2]⟩)]

example : safe exTable 100 1 = true := by decide
example : safe exTable 100 3 = true := by decide
example : safe exTable 100 6 = true := by decide          -- copy=False on an own copy is fine
example : safe exTable 100 2 = false := by decide         -- the copy=False path writes its argument …
example : safeExcept exTable 100 2 [0] = true := by decide -- … and only that
example : safe exTable 100 4 = false := by decide         -- D12
example : safe exTable 100 5 = false := by decide         -- D12 through a view and a callee
example : safe [(1, ⟨[1], .loop (.seq [.write 2, .alias 2 [1] false])⟩)] 100 1 = false := by decide  -- second pass
example : safe [(1, ⟨[1], .unknown 2 [1]⟩)] 100 1 = false := by decide

/-- a callee that stores one argument into a container it was handed (7: `def put(box, W): box.append(W)`, names
    1 = box, 2 = box.c, 3 = W, 4 = W.c) makes the caller's container reach the caller-owned array: the later write
    through the container's contents (8: `box = []; put(box, W); box[0][0, 0] = 5`) is rejected … -/
def exTable2 : Table :=
  [(7, ⟨[1, 2, 3, 4], .seq [.write 1, .alias 2 [3, 4] true]⟩),
   (8, ⟨[1, 2], .seq [.fresh 3, .fresh 4, .call 5 7 [[3], [4], [1], [2]], .write 3, .write 4]⟩),
   (9, ⟨[1, 2], .seq [.fresh 3, .fresh 4, .call 5 7 [[3], [4], [1], [2]], .write 3]⟩)]
example : safe exTable2 100 8 = false := by decide
/-- … while writing only the (local) container object itself is accepted -/
example : safe exTable2 100 9 = true := by decide

/-- the semantics does produce the offending execution for the D12 pattern: location 7 is caller-owned, the
    parameter reaches it, and the write hits it -/
example : Exec (fun l => l = 7) exTable (.seq [.write 1]) (fun x l => x = 1 ∧ l = 7) (fun x l => x = 1 ∧ l = 7)
    (fun l => l = 7 ∨ False) true :=
  .seqCons _ _ _ _ _ _ _ _ (.write 1 _ (fun l => l = 7) (fun _ h => ⟨rfl, h⟩)) (.seqNil _)

/-- … and also the execution in which the in-place operation raises after having written (the "or raises" clause) -/
example : Exec (fun l => l = 7) exTable (.seq [.write 1, .fresh 2]) (fun x l => x = 1 ∧ l = 7) (fun x l => x = 1 ∧ l = 7)
    (fun l => l = 7) false :=
  .seqAbort _ _ _ _ _ (.writeAbort 1 _ (fun l => l = 7) (fun _ h => ⟨rfl, h⟩))

/-- and the hypothesis `TInv` of `safe_sound` is satisfiable by that frame -/
example : ∀ x l, (fun x l => x = 1 ∧ l = 7) x l → (fun l => l = 7) l → x ∈ [1] := fun _ _ h _ => by simp [h.1]

end Bct.C13
