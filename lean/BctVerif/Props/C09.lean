import BctVerif.Lemmas.ClusterRange
import BctVerif.Lemmas.ClusterCbrt
import BctVerif.Lemmas.ClusterCount
/-!
# C09 — clustering coefficients and transitivity equal their triangle definitions

All theorems are about the executable definitions of `BctVerif/Model/Cluster.lean`
(`ccBu ccBd ccWu ccWd ccSignDefault ccSignZhang ccSignCost transBu transBd transWu transWd`,
`cbrtQ rootMat`).  A per-node result is `Option ℚ` (`none` = a non-finite float in NumPy).

Notation (definitions in `Lemmas/ClusterUnfold.lean`, `Lemmas/Cluster.lean`, `Lemmas/ClusterCount.lean`):
* `tri R i   = Σ_{j,k} R i j · R j k · R k i`                      — closed node triples through `i`
* `triS R i  = Σ_{j,k} (R+Rᵀ) i j · (R+Rᵀ) j k · (R+Rᵀ) k i`       — Fagiolo's numerator (×2)
* `deg W i   = Σ_j [W i j ≠ 0]`,  `degS A i = Σ_j (A i j + A j i)`
* `pairsS A i = degS A i (degS A i − 1) − 2 Σ_j A i j · A j i`      — Fagiolo's denominator
* `Bin`, `Symm`, `EmptyDiag`, `In01`, `InPm1`, `IsCbrt R W := ∀ i j, (R i j)^3 = W i j`, `Nb W i j := W i j ≠ 0 ∨ W j i ≠ 0`
* `closedPairs G u`, `nbrPairs G u` — the sets of ordered neighbour pairs (closed / all distinct).

The weighted routines take `W` and `R` with `IsCbrt R W`; cube roots over ℚ are unique
(`cbrt_unique`), and the executable entry points obtain `R` from `rootMat`, which is sound
(`rootMat_sound`).
-/
namespace Bct.C09
open Finset Bct Bct.Cluster

variable {n : ℕ}

/-! ## cube roots -/

theorem cbrtQ_sound {x r : ℚ} (h : cbrtQ x = some r) : r ^ 3 = x := Cluster.cbrtQ_sound h

theorem rootMat_sound {W R : AMat ℚ n} (h : rootMat W = some R) : IsCbrt R W := Cluster.rootMat_sound h

/-- the matrix passed as `cuberoot(W)` is determined by `W` -/
theorem cbrt_unique {W R R' : AMat ℚ n} (h : IsCbrt R W) (h' : IsCbrt R' W) : R = R' :=
  AMat.ext_get fun i j => cube_inj (by rw [h i j, h' i j])

/-! ## coded formula = enumeration of node triples -/

/-- `np.diag(np.dot(S, np.dot(S, S)))[i]` is the sum over all node pairs `(j,k)` of `S_ij S_jk S_ki` -/
theorem diag_cube (S : AMat ℚ n) (i : Fin n) :
    (mmul S (mmul S S)).get i i = ∑ j, ∑ k, S.get i j * S.get j k * S.get k i := Cluster.diag_cube S i

/-- `clustering_coef_bu`: closed neighbour pairs over all neighbour pairs, 0 below two neighbours -/
theorem cc_bu_def {G : AMat ℚ n} (hB : Bin G) (hS : Symm G) (u : Fin n) :
    (ccBu G)[u] = some (if (2:ℚ) ≤ deg G u then tri G u / (deg G u * (deg G u - 1)) else 0) :=
  ccBu_bin_symm hB hS u

/-- the same as a fraction of two set cardinalities (ordered pairs of neighbours of `u`) -/
theorem cc_bu_fraction {G : AMat ℚ n} (hB : Bin G) (hS : Symm G) (u : Fin n) :
    (ccBu G)[u] = some (if 2 ≤ (nbrPairs G u).card then
      ((closedPairs G u).card : ℚ) / ((nbrPairs G u).card : ℚ) else 0) := by
  rw [cc_bu_def hB hS, tri_eq_card hB, deg_pairs_eq_card hB]
  congr 1
  by_cases h : (2:ℚ) ≤ deg G u
  · have h2 : (2:ℚ) ≤ ((nbrPairs G u).card : ℚ) := by rw [← deg_pairs_eq_card hB]; nlinarith
    rw [if_pos h, if_pos (by exact_mod_cast h2)]
  · have hlt : deg G u < 2 := not_le.mp h
    -- deg is a natural number < 2, so deg (deg - 1) = 0
    have hdeg : deg G u * (deg G u - 1) = 0 := by
      have hnat : ∃ m : ℕ, deg G u = m := ⟨(univ.filter fun j => G.get u j ≠ 0).card, by
        rw [Finset.card_filter, Nat.cast_sum]
        exact Finset.sum_congr rfl (fun j _ => by unfold ind; split_ifs <;> simp_all)⟩
      obtain ⟨m, hm⟩ := hnat
      rw [hm] at hlt ⊢
      have : m < 2 := by exact_mod_cast hlt
      interval_cases m <;> simp
    have hc : (nbrPairs G u).card = 0 := by
      have := deg_pairs_eq_card hB u; rw [hdeg] at this; exact_mod_cast this.symm
    rw [if_neg h, hc]; simp

/-- `clustering_coef_bd` is Fagiolo's ratio, and the quotient is a genuine one -/
theorem cc_bd_def {A : AMat ℚ n} (hB : Bin A) (hD : EmptyDiag A) (i : Fin n) :
    (ccBd A)[i] = some (triS A i / 2 / pairsS A i) ∧ (triS A i ≠ 0 → 0 < pairsS A i) := by
  have hpos : triS A i ≠ 0 → 0 < pairsS A i := by
    intro h
    obtain ⟨j, k, hjk, h1, -, h3⟩ := triS_ne_zero hD h
    have one_le : ∀ x y, A.get x y + A.get y x ≠ 0 → 1 ≤ A.get x y + A.get y x := by
      intro x y hxy
      rcases hB x y with h | h <;> rcases hB y x with h' | h' <;> simp_all
    refine pairsS_pos hB hjk (one_le _ _ h1) ?_
    rw [add_comm]; exact one_le _ _ h3
  refine ⟨?_, hpos⟩
  rw [ccBd, ccFagiolo_get]
  exact perNode_eq_div (fun h => ne_of_gt (hpos (fun h0 => h (by rw [h0]; norm_num))))

/-- Fagiolo's denominator counts the ordered pairs of neighbour links that are not the two
directions of one bilateral connection -/
theorem cc_bd_pairs {A : AMat ℚ n} (hB : Bin A) (i : Fin n) :
    pairsS A i = ∑ j, ∑ k, (if j = k then 0 else (A.get i j + A.get j i) * (A.get i k + A.get k i)) :=
  pairsS_eq_pairs hB i

/-- `clustering_coef_wd` for arbitrary (also signed) weights with an empty diagonal -/
theorem cc_wd_def {W R : AMat ℚ n} (hD : EmptyDiag W) (hR : IsCbrt R W) (i : Fin n) :
    (ccWd W R)[i] = some (triS R i / 2 / pairsS (adj W) i) ∧ (triS R i ≠ 0 → 0 < pairsS (adj W) i) := by
  have hpos : triS R i ≠ 0 → 0 < pairsS (adj W) i := by
    intro h
    obtain ⟨j, k, hjk, h1, -, h3⟩ := triS_ne_zero (isCbrt_emptyDiag hR hD) h
    have one_le : ∀ x y, R.get x y + R.get y x ≠ 0 → 1 ≤ (adj W).get x y + (adj W).get y x := by
      intro x y hxy
      have : W.get x y ≠ 0 ∨ W.get y x ≠ 0 := by
        by_contra hc; push Not at hc
        exact hxy (by rw [(isCbrt_zero_iff hR x y).mpr hc.1, (isCbrt_zero_iff hR y x).mpr hc.2]; ring)
      rcases this with h | h
      · have e : ind (W.get x y) = 1 := by simp [ind, h]
        simp only [adj_get, e]; linarith [ind_nonneg (W.get y x)]
      · have e : ind (W.get y x) = 1 := by simp [ind, h]
        simp only [adj_get, e]; linarith [ind_nonneg (W.get x y)]
    refine pairsS_pos (adj_bin W) hjk (one_le _ _ h1) ?_
    rw [add_comm]; exact one_le _ _ h3
  refine ⟨?_, hpos⟩
  rw [ccWd, ccFagiolo_get]
  exact perNode_eq_div (fun h => ne_of_gt (hpos (fun h0 => h (by rw [h0]; norm_num))))

/-- `clustering_coef_wu`: geometric-mean triangle intensity `Σ (w_ij w_jk w_ki)^(1/3)` over `k(k-1)` -/
theorem cc_wu_def {W R : AMat ℚ n} (hS : Symm W) (hD : EmptyDiag W) (hR : IsCbrt R W) (i : Fin n) :
    (ccWu W R)[i] = some (tri R i / (deg W i * (deg W i - 1))) ∧ (tri R i ≠ 0 → 2 ≤ deg W i) := by
  refine ⟨?_, tri_ne_zero_deg hS hD hR⟩
  rw [ccWu_get]
  exact perNode_eq_div (fun h => ne_of_gt (deg_pairs_pos (tri_ne_zero_deg hS hD hR h)))

/-- `clustering_coef_wu_sign(…, 'default')` is Onnela's formula on the two sign parts -/
theorem cc_sign_default_def {W Rp Rn : AMat ℚ n} (hS : Symm W)
    (hp : IsCbrt Rp (posPart (zeroDiag W))) (hn : IsCbrt Rn (negPart (zeroDiag W))) (i : Fin n) :
    (ccSignDefault W Rp Rn).1[i]
        = some (tri Rp i / (deg (posPart (zeroDiag W)) i * (deg (posPart (zeroDiag W)) i - 1))) ∧
    (ccSignDefault W Rp Rn).2[i]
        = some (tri Rn i / (deg (negPart (zeroDiag W)) i * (deg (negPart (zeroDiag W)) i - 1))) :=
  ⟨(cc_wu_def (posPart_symm (zeroDiag_symm hS)) (posPart_emptyDiag (zeroDiag_emptyDiag W)) hp i).1,
   (cc_wu_def (negPart_symm (zeroDiag_symm hS)) (negPart_emptyDiag (zeroDiag_emptyDiag W)) hn i).1⟩

/-- the Zhang–Horvath triple loop: a genuine quotient of the two enumerations -/
theorem cc_sign_zhang_def {P : AMat ℚ n} (h01 : In01 P) (hD : EmptyDiag P) (i : Fin n) :
    (zhangCore P)[i] = some ((∑ j, ∑ q, P.get j i * P.get i q * P.get j q) /
      (∑ j, ∑ q, if j = q then 0 else P.get j i * P.get i q)) ∧
    ((∑ j, ∑ q, P.get j i * P.get i q * P.get j q) ≠ 0 →
      0 < ∑ j, ∑ q, if j = q then 0 else P.get j i * P.get i q) := by
  have hpos : (∑ j, ∑ q, P.get j i * P.get i q * P.get j q) ≠ 0 →
      0 < ∑ j, ∑ q, if j = q then 0 else P.get j i * P.get i q := fun h =>
    lt_of_lt_of_le (lt_of_le_of_ne (zhang_num_nonneg h01 i) (Ne.symm h)) (zhang_num_le h01 hD i)
  refine ⟨?_, hpos⟩
  rw [zhangCore_get]; exact perNode_eq_div (fun h => ne_of_gt (hpos h))

/-- the Costantini–Perugini triple loop -/
theorem cc_sign_cost_def {W : AMat ℚ n} (h : InPm1 W) (i : Fin n) :
    (ccSignCost W)[i] = some
      ((∑ j, ∑ q, (zeroDiag W).get j i * (zeroDiag W).get i q * (zeroDiag W).get j q) /
       (∑ j, ∑ q, if j = q then 0 else |(zeroDiag W).get j i * (zeroDiag W).get i q|)) := by
  rw [ccSignCost_get]
  refine perNode_eq_div (fun hne => ne_of_gt ?_)
  exact lt_of_lt_of_le (abs_pos.mpr hne) (cost_abs_le (zeroDiag_pm1 h) (zeroDiag_emptyDiag W) i)

/-! ## transitivity: triangles over connected triples, no per-node masking -/

/-- `transitivity_bu` for every matrix: closed triples over paths `i – k – j` with `i ≠ j` -/
theorem trans_bu_def (A : AMat ℚ n) :
    transBu A = gdiv (∑ i, tri A i) (∑ k, ∑ i, ∑ j, if i = j then 0 else A.get i k * A.get k j) := by
  rw [transBu_eq]
  congr 1
  have e : ∀ k i j, (if i = j then (0:ℚ) else A.get i k * A.get k j)
      = A.get i k * A.get k j - (if i = j then A.get i k * A.get k j else 0) := by
    intro k i j; by_cases h : i = j <;> simp [h]
  simp only [e, Finset.sum_sub_distrib, Finset.sum_ite_eq, Finset.mem_univ, if_true]
  congr 1
  · exact (Finset.sum_congr rfl (fun i _ => Finset.sum_comm)).trans Finset.sum_comm
  · exact Finset.sum_comm

theorem trans_bd_def (A : AMat ℚ n) :
    transBd A = gdiv (∑ i, triS A i / 2) (∑ i, pairsS A i) := transFagiolo_eq A A

theorem trans_wd_def (W R : AMat ℚ n) :
    transWd W R = gdiv (∑ i, triS R i / 2) (∑ i, pairsS (adj W) i) := transFagiolo_eq (adj W) R

theorem trans_wu_def (W R : AMat ℚ n) :
    transWu W R = gdiv (∑ i, tri R i) (∑ i, deg W i * (deg W i - 1)) := transWu_eq W R

/-- the network ratio is undefined (`nan`) exactly when there is no connected triple -/
theorem trans_none_iff (a b : ℚ) : gdiv a b = none ↔ b = 0 := by
  unfold gdiv; split_ifs with h <;> simp [h]

/-! ## exact-zero cases -/

theorem cc_bu_zero_lt2 (G : AMat ℚ n) (u : Fin n) (h : deg G u < 2) : (ccBu G)[u] = some 0 := by
  rw [ccBu_get, if_neg (not_le.mpr h)]

theorem cc_bu_zero_notri {G : AMat ℚ n} (hB : Bin G) (hS : Symm G) (u : Fin n)
    (h : ∀ j k, ¬ (G.get u j ≠ 0 ∧ G.get j k ≠ 0 ∧ G.get k u ≠ 0)) : (ccBu G)[u] = some 0 := by
  rw [cc_bu_def hB hS, tri_zero_of_notri h]; simp

/-- no triangle through `i` ⇒ exactly 0 (`clustering_coef_bd`) -/
theorem cc_bd_zero_notri (A : AMat ℚ n) (i : Fin n)
    (h : ∀ j k, ¬ (Nb A i j ∧ Nb A j k ∧ Nb A k i)) : (ccBd A)[i] = some 0 := by
  rw [ccBd, ccFagiolo_get, triS_zero_of_notri h]; simp [perNode]

/-- fewer than two neighbours ⇒ exactly 0 (`clustering_coef_bd`) -/
theorem cc_bd_zero_lt2 {A : AMat ℚ n} (hD : EmptyDiag A) (i : Fin n)
    (h : ∀ j k, Nb A i j → Nb A i k → j = k) : (ccBd A)[i] = some 0 :=
  cc_bd_zero_notri A i (notri_of_lt2 hD h)

theorem cc_wd_zero_notri {W R : AMat ℚ n} (hR : IsCbrt R W) (i : Fin n)
    (h : ∀ j k, ¬ (Nb W i j ∧ Nb W j k ∧ Nb W k i)) : (ccWd W R)[i] = some 0 := by
  have h' : ∀ j k, ¬ (Nb R i j ∧ Nb R j k ∧ Nb R k i) := fun j k => by
    rw [nb_root_iff hR, nb_root_iff hR, nb_root_iff hR]; exact h j k
  rw [ccWd, ccFagiolo_get, triS_zero_of_notri h']; simp [perNode]

theorem cc_wd_zero_lt2 {W R : AMat ℚ n} (hD : EmptyDiag W) (hR : IsCbrt R W) (i : Fin n)
    (h : ∀ j k, Nb W i j → Nb W i k → j = k) : (ccWd W R)[i] = some 0 :=
  cc_wd_zero_notri hR i (notri_of_lt2 hD h)

theorem cc_wu_zero_notri {W R : AMat ℚ n} (hR : IsCbrt R W) (i : Fin n)
    (h : ∀ j k, ¬ (W.get i j ≠ 0 ∧ W.get j k ≠ 0 ∧ W.get k i ≠ 0)) : (ccWu W R)[i] = some 0 := by
  have h' : ∀ j k, ¬ (R.get i j ≠ 0 ∧ R.get j k ≠ 0 ∧ R.get k i ≠ 0) := fun j k => by
    simp only [ne_eq, isCbrt_zero_iff hR]; exact h j k
  rw [ccWu_get, tri_zero_of_notri h']; simp [perNode]

theorem cc_wu_zero_lt2 {W R : AMat ℚ n} (hS : Symm W) (hD : EmptyDiag W) (hR : IsCbrt R W) (i : Fin n)
    (h : deg W i < 2) : (ccWu W R)[i] = some 0 := by
  rw [ccWu_get]
  by_cases ht : tri R i = 0
  · rw [ht]; simp [perNode]
  · exact absurd (tri_ne_zero_deg hS hD hR ht) (not_le.mpr h)

/-! ## ranges for weights in [0,1] -/

theorem range_bu {G : AMat ℚ n} (hB : Bin G) (hS : Symm G) (hD : EmptyDiag G) (u : Fin n) :
    ∃ c, (ccBu G)[u] = some c ∧ 0 ≤ c ∧ c ≤ 1 := Cluster.range_bu hB hS hD u

/-- Fagiolo's bound `(S³)_ii / 2 ≤ K(K−1) − 2 (A²)_ii` -/
theorem fagiolo_bound {A : AMat ℚ n} (hB : Bin A) (hD : EmptyDiag A) (i : Fin n) :
    triS A i / 2 ≤ pairsS A i := by
  have := triS_le_pairsS hD (in01_of_bin hB) (isCbrt_of_bin hB) i
  rwa [adj_of_bin hB] at this

theorem range_bd {A : AMat ℚ n} (hB : Bin A) (hD : EmptyDiag A) (i : Fin n) :
    ∃ c, (ccBd A)[i] = some c ∧ 0 ≤ c ∧ c ≤ 1 := Cluster.range_bd hB hD i

theorem range_wu {W R : AMat ℚ n} (hS : Symm W) (hD : EmptyDiag W) (h01 : In01 W) (hR : IsCbrt R W) (i : Fin n) :
    ∃ c, (ccWu W R)[i] = some c ∧ 0 ≤ c ∧ c ≤ 1 := Cluster.range_wu hS hD h01 hR i

theorem range_wd {W R : AMat ℚ n} (hD : EmptyDiag W) (h01 : In01 W) (hR : IsCbrt R W) (i : Fin n) :
    ∃ c, (ccWd W R)[i] = some c ∧ 0 ≤ c ∧ c ≤ 1 := Cluster.range_wd hD h01 hR i

/-- signed weights in [-1,1], `coef_type='default'` -/
theorem range_sign_default {W Rp Rn : AMat ℚ n} (hS : Symm W) (h : InPm1 W)
    (hp : IsCbrt Rp (posPart (zeroDiag W))) (hn : IsCbrt Rn (negPart (zeroDiag W))) (i : Fin n) :
    (∃ c, (ccSignDefault W Rp Rn).1[i] = some c ∧ 0 ≤ c ∧ c ≤ 1) ∧
    (∃ c, (ccSignDefault W Rp Rn).2[i] = some c ∧ 0 ≤ c ∧ c ≤ 1) :=
  ⟨Cluster.range_wu (posPart_symm (zeroDiag_symm hS)) (posPart_emptyDiag (zeroDiag_emptyDiag W))
      (posPart_in01 (zeroDiag_pm1 h)) hp i,
   Cluster.range_wu (negPart_symm (zeroDiag_symm hS)) (negPart_emptyDiag (zeroDiag_emptyDiag W))
      (negPart_in01 (zeroDiag_pm1 h)) hn i⟩

/-- signed weights in [-1,1], `coef_type='zhang'` (no symmetry needed) -/
theorem range_sign_zhang {W : AMat ℚ n} (h : InPm1 W) (i : Fin n) :
    (∃ c, (ccSignZhang W).1[i] = some c ∧ 0 ≤ c ∧ c ≤ 1) ∧
    (∃ c, (ccSignZhang W).2[i] = some c ∧ 0 ≤ c ∧ c ≤ 1) :=
  ⟨range_zhang (posPart_in01 (zeroDiag_pm1 h)) (posPart_emptyDiag (zeroDiag_emptyDiag W)) i,
   range_zhang (negPart_in01 (zeroDiag_pm1 h)) (negPart_emptyDiag (zeroDiag_emptyDiag W)) i⟩

/-- signed weights in [-1,1], `coef_type='costantini'`: the single signed coefficient lies in [-1,1] -/
theorem range_sign_cost {W : AMat ℚ n} (h : InPm1 W) (i : Fin n) :
    ∃ c, (ccSignCost W)[i] = some c ∧ -1 ≤ c ∧ c ≤ 1 := range_cost h i

theorem range_trans_bu {A : AMat ℚ n} (hB : Bin A) (hS : Symm A) (hD : EmptyDiag A) {t : ℚ}
    (h : transBu A = some t) : 0 ≤ t ∧ t ≤ 1 := Cluster.range_trans_bu hB hS hD h
theorem range_trans_bd {A : AMat ℚ n} (hB : Bin A) (hD : EmptyDiag A) {t : ℚ}
    (h : transBd A = some t) : 0 ≤ t ∧ t ≤ 1 := Cluster.range_trans_bd hB hD h
theorem range_trans_wu {W R : AMat ℚ n} (hS : Symm W) (hD : EmptyDiag W) (h01 : In01 W) (hR : IsCbrt R W)
    {t : ℚ} (h : transWu W R = some t) : 0 ≤ t ∧ t ≤ 1 := Cluster.range_trans_wu hS hD h01 hR h
theorem range_trans_wd {W R : AMat ℚ n} (hD : EmptyDiag W) (h01 : In01 W) (hR : IsCbrt R W)
    {t : ℚ} (h : transWd W R = some t) : 0 ≤ t ∧ t ≤ 1 := Cluster.range_trans_wd hD h01 hR h

/-! ## non-vacuity: concrete networks meeting the hypotheses, with the values the theorems give -/
section Examples

/-- the triangle -/
def K3 : AMat ℚ 3 := AMat.ofFn fun i j => if i = j then 0 else 1
/-- the path 0 – 1 – 2 -/
def P3 : AMat ℚ 3 := AMat.ofFn fun i j => if i.val + j.val = 1 ∨ i.val + j.val = 3 then 1 else 0
/-- the directed 3-cycle 0 → 1 → 2 → 0 -/
def C3 : AMat ℚ 3 := AMat.ofFn fun i j => if j.val = (i.val + 1) % 3 then 1 else 0
/-- the triangle with weights 1/8, its cube root, and the triangle with weights -1/8 -/
def W3 : AMat ℚ 3 := AMat.ofFn fun i j => if i = j then 0 else 1/8
def R3 : AMat ℚ 3 := AMat.ofFn fun i j => if i = j then 0 else 1/2
def N3 : AMat ℚ 3 := AMat.ofFn fun i j => if i = j then 0 else -1/8
def Z3 : AMat ℚ 3 := AMat.ofFn fun _ _ => 0

lemma K3_bin : Bin K3 := fun i j => by simp only [K3, AMat.get_ofFn]; split_ifs <;> simp
lemma K3_symm : Symm K3 := fun i j => by simp only [K3, AMat.get_ofFn, eq_comm]
lemma K3_diag : EmptyDiag K3 := fun i => by simp [K3]
lemma P3_bin : Bin P3 := fun i j => by simp only [P3, AMat.get_ofFn]; split_ifs <;> simp
lemma P3_symm : Symm P3 := fun i j => by simp only [P3, AMat.get_ofFn, add_comm]
lemma P3_diag : EmptyDiag P3 := fun i => by fin_cases i <;> simp [P3]
lemma C3_bin : Bin C3 := fun i j => by simp only [C3, AMat.get_ofFn]; split_ifs <;> simp
lemma C3_diag : EmptyDiag C3 := fun i => by fin_cases i <;> simp [C3]
lemma W3_symm : Symm W3 := fun i j => by simp only [W3, AMat.get_ofFn, eq_comm]
lemma W3_diag : EmptyDiag W3 := fun i => by simp [W3]
lemma W3_in01 : In01 W3 := fun i j => by simp only [W3, AMat.get_ofFn]; split_ifs <;> norm_num
lemma R3_cbrt : IsCbrt R3 W3 := fun i j => by simp only [R3, W3, AMat.get_ofFn]; split_ifs <;> norm_num
lemma N3_symm : Symm N3 := fun i j => by simp only [N3, AMat.get_ofFn, eq_comm]
lemma N3_pm1 : InPm1 N3 := fun i j => by simp only [N3, AMat.get_ofFn]; split_ifs <;> norm_num
lemma N3_pos : posPart (zeroDiag N3) = Z3 := AMat.ext_get fun i j => by
  simp only [posPart_get, zeroDiag_get, N3, Z3, AMat.get_ofFn]; split_ifs <;> norm_num at *
lemma N3_neg : negPart (zeroDiag N3) = W3 := AMat.ext_get fun i j => by
  simp only [negPart_get, zeroDiag_get, N3, W3, AMat.get_ofFn]; split_ifs <;> norm_num at *
lemma Z3_cbrt : IsCbrt Z3 Z3 := fun i j => by simp [Z3]

-- cube roots
example : cbrtQ (1/8) = some (1/2) := by
  have h1 : ((1:ℚ)/8).num = 1 := by norm_num
  have h2 : ((1:ℚ)/8).den = 8 := by norm_num
  unfold cbrtQ; rw [h1, h2]; simp [icbrt, cbrtGo]
example : cbrtQ (1/2) = none := by
  have h1 : ((1:ℚ)/2).num = 1 := by norm_num
  have h2 : ((1:ℚ)/2).den = 2 := by norm_num
  unfold cbrtQ; rw [h1, h2]; simp [icbrt, cbrtGo]
example : IsCbrt K3 K3 := rootMat_sound (rootMat_on01 K3_bin)
example : R3 = R3 := cbrt_unique R3_cbrt R3_cbrt

-- definitions evaluated
example : (mmul K3 (mmul K3 K3)).get 0 0 = 2 := by
  rw [diag_cube]; simp +decide [K3, Fin.sum_univ_three] <;> norm_num
example : (ccBu K3)[(0 : Fin 3)] = some 1 := by
  rw [cc_bu_def K3_bin K3_symm]
  simp +decide [deg, tri, K3, Fin.sum_univ_three, ind] <;> norm_num
example : (closedPairs K3 0).card = 2 ∧ (nbrPairs K3 0).card = 2 := by
  constructor <;> (apply Nat.cast_injective (R := ℚ))
  · rw [← tri_eq_card K3_bin]; simp +decide [tri, K3, Fin.sum_univ_three] <;> norm_num
  · rw [← deg_pairs_eq_card K3_bin]; simp +decide [deg, ind, K3, Fin.sum_univ_three] <;> norm_num
example : (ccBu K3)[(0 : Fin 3)] = some (((closedPairs K3 0).card : ℚ) / ((nbrPairs K3 0).card : ℚ)) := by
  have h : 2 ≤ (nbrPairs K3 0).card := by
    have : ((nbrPairs K3 0).card : ℚ) = 2 := by
      rw [← deg_pairs_eq_card K3_bin]; simp +decide [deg, ind, K3, Fin.sum_univ_three] <;> norm_num
    exact_mod_cast this.ge
  rw [cc_bu_fraction K3_bin K3_symm, if_pos h]
example : (ccBd C3)[(0 : Fin 3)] = some (1/2) := by
  rw [(cc_bd_def C3_bin C3_diag 0).1]
  simp +decide [triS, pairsS, degS, C3, Fin.sum_univ_three] <;> norm_num
example : pairsS C3 0 = 2 := by
  rw [cc_bd_pairs C3_bin]; simp +decide [C3, Fin.sum_univ_three] <;> norm_num
example : (ccWu W3 R3)[(0 : Fin 3)] = some (1/8) := by
  rw [(cc_wu_def W3_symm W3_diag R3_cbrt 0).1]
  simp +decide [deg, tri, W3, R3, Fin.sum_univ_three, ind] <;> norm_num
example : (ccWd W3 R3)[(0 : Fin 3)] = some (1/8) := by
  rw [(cc_wd_def W3_diag R3_cbrt 0).1]
  simp +decide [triS, pairsS, degS, W3, R3, Fin.sum_univ_three, ind] <;> norm_num
example : (ccSignDefault N3 Z3 R3).2[(0 : Fin 3)] = some (1/8) := by
  rw [(cc_sign_default_def N3_symm (by rw [N3_pos]; exact Z3_cbrt) (by rw [N3_neg]; exact R3_cbrt) 0).2, N3_neg]
  simp +decide [deg, tri, W3, R3, Fin.sum_univ_three, ind] <;> norm_num
example : (zhangCore W3)[(0 : Fin 3)] = some (1/8) := by
  rw [(cc_sign_zhang_def W3_in01 W3_diag 0).1]
  simp +decide [W3, Fin.sum_univ_three] <;> norm_num
example : (ccSignCost N3)[(0 : Fin 3)] = some (-1/8) := by
  rw [cc_sign_cost_def N3_pm1]
  simp +decide [N3, Fin.sum_univ_three, abs_of_nonneg] <;> norm_num
example : transBu K3 = some 1 := by
  rw [trans_bu_def]; simp +decide [gdiv, tri, K3, Fin.sum_univ_three] <;> norm_num
example : transBu P3 = some 0 := by
  rw [trans_bu_def]; simp +decide [gdiv, tri, P3, Fin.sum_univ_three] <;> norm_num
example : transBu Z3 = none := by
  rw [trans_bu_def, trans_none_iff]; simp [Z3]
example : transBd C3 = some (1/2) := by
  rw [trans_bd_def]; simp +decide [gdiv, triS, pairsS, degS, C3, Fin.sum_univ_three] <;> norm_num
example : transWd W3 R3 = some (1/8) := by
  rw [trans_wd_def]; simp +decide [gdiv, triS, pairsS, degS, W3, R3, ind, Fin.sum_univ_three] <;> norm_num
example : transWu W3 R3 = some (1/8) := by
  rw [trans_wu_def]; simp +decide [gdiv, tri, deg, W3, R3, ind, Fin.sum_univ_three] <;> norm_num

-- zero cases on the path: an end node (one neighbour) and the middle node (two neighbours, no triangle)
example : (ccBu P3)[(0 : Fin 3)] = some 0 :=
  cc_bu_zero_lt2 P3 0 (by simp +decide [deg, P3, Fin.sum_univ_three, ind])
example : (ccBu P3)[(1 : Fin 3)] = some 0 := cc_bu_zero_notri P3_bin P3_symm 1 (by
  intro j k; fin_cases j <;> fin_cases k <;> simp [P3])
example : (ccBd P3)[(1 : Fin 3)] = some 0 := cc_bd_zero_notri P3 1 (by
  intro j k; fin_cases j <;> fin_cases k <;> simp [P3, Nb])
example : (ccBd P3)[(0 : Fin 3)] = some 0 := cc_bd_zero_lt2 P3_diag 0 (by
  intro j k; fin_cases j <;> fin_cases k <;> simp [P3, Nb])
example : (ccWd P3 P3)[(1 : Fin 3)] = some 0 := cc_wd_zero_notri (isCbrt_of_bin P3_bin) 1 (by
  intro j k; fin_cases j <;> fin_cases k <;> simp [P3, Nb])
example : (ccWd P3 P3)[(0 : Fin 3)] = some 0 := cc_wd_zero_lt2 P3_diag (isCbrt_of_bin P3_bin) 0 (by
  intro j k; fin_cases j <;> fin_cases k <;> simp [P3, Nb])
example : (ccWu P3 P3)[(1 : Fin 3)] = some 0 := cc_wu_zero_notri (isCbrt_of_bin P3_bin) 1 (by
  intro j k; fin_cases j <;> fin_cases k <;> simp [P3])
example : (ccWu P3 P3)[(0 : Fin 3)] = some 0 := cc_wu_zero_lt2 P3_symm P3_diag (isCbrt_of_bin P3_bin) 0
  (by simp +decide [deg, P3, Fin.sum_univ_three, ind])

-- ranges: the hypotheses are jointly satisfiable
example : ∃ c, (ccBu K3)[(0 : Fin 3)] = some c ∧ 0 ≤ c ∧ c ≤ 1 := range_bu K3_bin K3_symm K3_diag 0
example : triS C3 0 / 2 ≤ pairsS C3 0 := fagiolo_bound C3_bin C3_diag 0
example : ∃ c, (ccBd C3)[(0 : Fin 3)] = some c ∧ 0 ≤ c ∧ c ≤ 1 := range_bd C3_bin C3_diag 0
example : ∃ c, (ccWu W3 R3)[(0 : Fin 3)] = some c ∧ 0 ≤ c ∧ c ≤ 1 := range_wu W3_symm W3_diag W3_in01 R3_cbrt 0
example : ∃ c, (ccWd W3 R3)[(0 : Fin 3)] = some c ∧ 0 ≤ c ∧ c ≤ 1 := range_wd W3_diag W3_in01 R3_cbrt 0
example : ∃ c, (ccSignDefault N3 Z3 R3).2[(0 : Fin 3)] = some c ∧ 0 ≤ c ∧ c ≤ 1 :=
  (range_sign_default N3_symm N3_pm1 (by rw [N3_pos]; exact Z3_cbrt) (by rw [N3_neg]; exact R3_cbrt) 0).2
example : ∃ c, (ccSignZhang N3).2[(0 : Fin 3)] = some c ∧ 0 ≤ c ∧ c ≤ 1 := (range_sign_zhang N3_pm1 0).2
example : ∃ c, (ccSignCost N3)[(0 : Fin 3)] = some c ∧ -1 ≤ c ∧ c ≤ 1 := range_sign_cost N3_pm1 0
example : (0:ℚ) ≤ 1 ∧ (1:ℚ) ≤ 1 := range_trans_bu K3_bin K3_symm K3_diag
  (by rw [trans_bu_def]; simp +decide [gdiv, tri, K3, Fin.sum_univ_three] <;> norm_num)
example : (0:ℚ) ≤ 1/2 ∧ (1/2:ℚ) ≤ 1 := range_trans_bd C3_bin C3_diag
  (by rw [trans_bd_def]; simp +decide [gdiv, triS, pairsS, degS, C3, Fin.sum_univ_three] <;> norm_num)
example : (0:ℚ) ≤ 1/8 ∧ (1/8:ℚ) ≤ 1 := range_trans_wu W3_symm W3_diag W3_in01 R3_cbrt
  (by rw [trans_wu_def]; simp +decide [gdiv, tri, deg, W3, R3, ind, Fin.sum_univ_three] <;> norm_num)
example : (0:ℚ) ≤ 1/8 ∧ (1/8:ℚ) ≤ 1 := range_trans_wd W3_diag W3_in01 R3_cbrt
  (by rw [trans_wd_def]; simp +decide [gdiv, triS, pairsS, degS, W3, R3, ind, Fin.sum_univ_three] <;> norm_num)

end Examples

end Bct.C09
