import BctVerif.Lemmas.ClusterRange
import BctVerif.Lemmas.ClusterCbrt
import BctVerif.Lemmas.ClusterCount
import BctVerif.Lemmas.ClusterReal
/-!
# C09 — clustering coefficients and transitivity equal their triangle definitions

Two layers.

* **Executable model** (`BctVerif/Model/Cluster.lean`, exact `ℚ`): `ccBu ccBd ccWu ccWd ccSignDefault ccSignZhang
  ccSignCost transBu transBd transWu transWd`, `cbrtQ rootMat`.  A per-node result is `Option ℚ` (`none` = a non-finite
  float in NumPy).  The weighted routines of the model take `W` and `R` with `IsCbrt R W`; the entry points obtain `R`
  from `rootMat` (sound: `rootMat_sound`), which exists only for perfect-cube weights.
* **Real routines** (`Lemmas/ClusterReal.lean`): the same formulas over `ℝ` with the real cube root
  `cbrtR x = sign x · |x|^(1/3)` (`Real.rpow`), defined for *every* real weight matrix: `ccWdR ccWuR transWdR transWuR
  ccSignDefaultR ccSignZhangR ccSignCostR`.  The weighted clauses of the property (intensity, zero cases, range) are
  proved for these, i.e. for all real weights in the domain; `…_real_of_rat` shows that the executable model's output,
  cast to ℝ, is the real routine's value whenever the model runs (rational perfect-cube weights).
  All function-level lemmas are proved once over an arbitrary linearly ordered field and used at `ℚ` and `ℝ`.

Notation (`K` = ℚ or ℝ; `Lemmas/Cluster.lean`, `ClusterUnfold.lean`, `ClusterCount.lean`):
* `tri R i   = Σ_{j,k} R i j · R j k · R k i`                      — closed node triples through `i`
* `triS R i  = Σ_{j,k} (R+Rᵀ) i j · (R+Rᵀ) j k · (R+Rᵀ) k i`       — Fagiolo's numerator (×2)
* `deg W i   = Σ_j [W i j ≠ 0]`,  `degS A i = Σ_j (A i j + A j i)`
* `pairsS A i = degS A i (degS A i − 1) − 2 Σ_j A i j · A j i`      — Fagiolo's denominator
* `Bin`, `Symm`, `EmptyDiag`, `In01`, `InPm1`, `IsCbrt R W := ∀ i j, (R i j)^3 = W i j`, `Nb W i j := W i j ≠ 0 ∨ W j i ≠ 0`
* `adjK` = adjacency / `binarize`, `zeroDiagK`, `posPartK`, `negPartK` (at ℚ equal to the model's `adj`, `zeroDiag`, …)
* `closedPairs G u`, `nbrPairs G u` — the sets of ordered neighbour pairs (closed / all distinct).
-/
namespace Bct.C09
open Finset Bct Bct.Cluster

variable {n : ℕ}

/-! ## cube roots -/

theorem cbrtQ_sound {x r : ℚ} (h : cbrtQ x = some r) : r ^ 3 = x := Cluster.cbrtQ_sound h

theorem rootMat_sound {W R : AMat ℚ n} (h : rootMat W = some R) : IsCbrt R W := Cluster.rootMat_sound h

/-- the matrix passed as `cuberoot(W)` is determined by `W` (ℚ and ℝ) -/
theorem cbrt_unique {W R R' : AMat ℚ n} (h : IsCbrt R W) (h' : IsCbrt R' W) : R = R' := isCbrt_unique h h'
theorem cbrt_unique_real {W R R' : AMat ℝ n} (h : IsCbrt R W) (h' : IsCbrt R' W) : R = R' := isCbrt_unique h h'

/-- the real `cuberoot` is a cube root, for every real number -/
theorem cbrtR_spec (x : ℝ) : cbrtR x ^ 3 = x := cbrtR_cube x
theorem rootR_spec (W : AMat ℝ n) : IsCbrt (rootR W) W := rootR_isCbrt W

/-- the triangle intensity: the product of the three cube roots is the cube root of the product of the weights -/
theorem intensity_real (x y z : ℝ) : cbrtR x * cbrtR y * cbrtR z = cbrtR (x * y * z) :=
  cube_inj (by rw [mul_pow, mul_pow, cbrtR_cube, cbrtR_cube, cbrtR_cube, cbrtR_cube])

/-- hence the numerator of `clustering_coef_wu` over ℝ is the sum of the geometric-mean intensities
`(w_ij w_jk w_ki)^(1/3)` over node pairs -/
theorem tri_intensity_real (W : AMat ℝ n) (i : Fin n) :
    tri (rootR W) i = ∑ j, ∑ k, cbrtR (W.get i j * W.get j k * W.get k i) := by
  unfold tri
  exact Finset.sum_congr rfl fun j _ => Finset.sum_congr rfl fun k _ => by
    simp only [rootR, map_get]; exact intensity_real _ _ _

/-! ## coded formula = enumeration of node triples (executable ℚ model) -/

/-- `np.diag(np.dot(S, np.dot(S, S)))[i]` is the sum over all node pairs `(j,k)` of `S_ij S_jk S_ki` -/
theorem diag_cube (S : AMat ℚ n) (i : Fin n) :
    (mmul S (mmul S S)).get i i = ∑ j, ∑ k, S.get i j * S.get j k * S.get k i := Cluster.diag_cube S i

/-- with an empty diagonal the sums over all pairs `(j,k)` only see *distinct node triples* `i, j, k` (ℚ and ℝ) -/
theorem tri_distinct_triples {K : Type} [Field K] [LinearOrder K] [IsStrictOrderedRing K] {R : AMat K n}
    (hD : EmptyDiag R) (i : Fin n) :
    tri R i = ∑ j, ∑ k, if j ≠ i ∧ k ≠ i ∧ j ≠ k then R.get i j * R.get j k * R.get k i else 0 := tri_distinct hD i
theorem triS_distinct_triples {K : Type} [Field K] [LinearOrder K] [IsStrictOrderedRing K] {R : AMat K n}
    (hD : EmptyDiag R) (i : Fin n) :
    triS R i = ∑ j, ∑ k, if j ≠ i ∧ k ≠ i ∧ j ≠ k then
      (R.get i j + R.get j i) * (R.get j k + R.get k j) * (R.get k i + R.get i k) else 0 := triS_distinct hD i

/-- `clustering_coef_bu`: closed neighbour pairs over all neighbour pairs, 0 below two neighbours -/
theorem cc_bu_def {G : AMat ℚ n} (hB : Bin G) (hS : Symm G) (u : Fin n) :
    (ccBu G)[u] = some (if (2:ℚ) ≤ deg G u then tri G u / (deg G u * (deg G u - 1)) else 0) :=
  ccBu_bin_symm hB hS u

/-- the same as a fraction of two set cardinalities (ordered pairs of neighbours of `u`) -/
theorem cc_bu_fraction {G : AMat ℚ n} (hB : Bin G) (hS : Symm G) (u : Fin n) :
    (ccBu G)[u] = some (if 2 ≤ (nbrPairs G u).card then
      ((closedPairs G u).card : ℚ) / ((nbrPairs G u).card : ℚ) else 0) := by
  rw [cc_bu_def hB hS, tri_eq_card hB, deg_pairs_eq_card hB]
  congr 1
  by_cases h : (2:ℚ) ≤ deg G u
  · have h2 : (2:ℚ) ≤ ((nbrPairs G u).card : ℚ) := by rw [← deg_pairs_eq_card hB]; nlinarith
    rw [if_pos h, if_pos (by exact_mod_cast h2)]
  · have hlt : deg G u < 2 := not_le.mp h
    have hdeg : deg G u * (deg G u - 1) = 0 := by
      have hnat : ∃ m : ℕ, deg G u = m := ⟨(univ.filter fun j => G.get u j ≠ 0).card, by
        rw [Finset.card_filter, Nat.cast_sum]
        exact Finset.sum_congr rfl (fun j _ => by unfold indK; split_ifs <;> simp_all)⟩
      obtain ⟨m, hm⟩ := hnat
      rw [hm] at hlt ⊢
      have : m < 2 := by exact_mod_cast hlt
      interval_cases m <;> simp
    have hc : (nbrPairs G u).card = 0 := by
      have := deg_pairs_eq_card hB u; rw [hdeg] at this; exact_mod_cast this.symm
    rw [if_neg h, hc]; simp

/-- `clustering_coef_bd` is Fagiolo's ratio, and the quotient is a genuine one -/
theorem cc_bd_def {A : AMat ℚ n} (hB : Bin A) (hD : EmptyDiag A) (i : Fin n) :
    (ccBd A)[i] = some (triS A i / 2 / pairsS A i) ∧ (triS A i ≠ 0 → 0 < pairsS A i) := by
  have h1 := fagK_def hD (isCbrt_of_bin hB) i
  have h2 := fun h => pairsS_pos_of_triS hD (isCbrt_of_bin hB) (i := i) h
  rw [adj_of_bin hB] at h1 h2
  exact ⟨by rw [ccBd_get]; exact h1, h2⟩

/-- Fagiolo's denominator counts the ordered pairs of neighbour links that are not the two
directions of one bilateral connection -/
theorem cc_bd_pairs {A : AMat ℚ n} (hB : Bin A) (i : Fin n) :
    pairsS A i = ∑ j, ∑ k, (if j = k then 0 else (A.get i j + A.get j i) * (A.get i k + A.get k i)) :=
  pairsS_eq_pairs hB i

/-- `clustering_coef_wd` (model) for arbitrary (also signed) perfect-cube weights with an empty diagonal -/
theorem cc_wd_def {W R : AMat ℚ n} (hD : EmptyDiag W) (hR : IsCbrt R W) (i : Fin n) :
    (ccWd W R)[i] = some (triS R i / 2 / pairsS (adjK W) i) ∧ (triS R i ≠ 0 → 0 < pairsS (adjK W) i) :=
  ⟨by rw [ccWd_get]; exact fagK_def hD hR i, pairsS_pos_of_triS hD hR⟩

/-- `clustering_coef_wu` (model): `Σ (w_ij w_jk w_ki)^(1/3)` over `k(k-1)` -/
theorem cc_wu_def {W R : AMat ℚ n} (hS : Symm W) (hD : EmptyDiag W) (hR : IsCbrt R W) (i : Fin n) :
    (ccWu W R)[i] = some (tri R i / (deg W i * (deg W i - 1))) ∧ (tri R i ≠ 0 → 2 ≤ deg W i) :=
  ⟨by rw [ccWu_get]; exact wuK_def hS hD hR i, tri_ne_zero_deg hS hD hR⟩

theorem signParts_eq (W : AMat ℚ n) :
    posPart (zeroDiag W) = posPartK (zeroDiagK W) ∧ negPart (zeroDiag W) = negPartK (zeroDiagK W) := by
  rw [zeroDiag_eq, posPart_eq, negPart_eq]; exact ⟨rfl, rfl⟩

/-- `clustering_coef_wu_sign(…, 'default')` (model) is Onnela's formula on the two sign parts -/
theorem cc_sign_default_def {W Rp Rn : AMat ℚ n} (hS : Symm W)
    (hp : IsCbrt Rp (posPart (zeroDiag W))) (hn : IsCbrt Rn (negPart (zeroDiag W))) (i : Fin n) :
    (ccSignDefault W Rp Rn).1[i]
        = some (tri Rp i / (deg (posPart (zeroDiag W)) i * (deg (posPart (zeroDiag W)) i - 1))) ∧
    (ccSignDefault W Rp Rn).2[i]
        = some (tri Rn i / (deg (negPart (zeroDiag W)) i * (deg (negPart (zeroDiag W)) i - 1))) := by
  obtain ⟨e1, e2⟩ := signParts_eq W
  rw [e1] at hp; rw [e2] at hn
  simp only [ccSignDefault, e1, e2]
  exact ⟨(cc_wu_def (posPart_symm (zeroDiag_symm hS)) (posPart_emptyDiag (zeroDiag_emptyDiag W)) hp i).1,
   (cc_wu_def (negPart_symm (zeroDiag_symm hS)) (negPart_emptyDiag (zeroDiag_emptyDiag W)) hn i).1⟩

/-- the Zhang–Horvath triple loop (model): a genuine quotient of the two enumerations -/
theorem cc_sign_zhang_def {P : AMat ℚ n} (h01 : In01 P) (hD : EmptyDiag P) (i : Fin n) :
    (zhangCore P)[i] = some ((∑ j, ∑ q, P.get j i * P.get i q * P.get j q) /
      (∑ j, ∑ q, if j = q then 0 else P.get j i * P.get i q)) ∧
    ((∑ j, ∑ q, P.get j i * P.get i q * P.get j q) ≠ 0 →
      0 < ∑ j, ∑ q, if j = q then 0 else P.get j i * P.get i q) :=
  ⟨by rw [zhangCore_get]; exact zhang_def h01 hD i, fun h =>
    lt_of_lt_of_le (lt_of_le_of_ne (zhang_num_nonneg h01 i) (Ne.symm h)) (zhang_num_le h01 hD i)⟩

/-- the same composed with the routine: `clustering_coef_wu_sign(W, 'zhang')` on the two sign parts of `W`
(diagonal zeroed as the code does), signed weights in [-1,1] -/
theorem cc_sign_zhang_def_W {W : AMat ℚ n} (h : InPm1 W) (i : Fin n) :
    (ccSignZhang W).1[i] = some
      ((∑ j, ∑ q, (posPartK (zeroDiagK W)).get j i * (posPartK (zeroDiagK W)).get i q * (posPartK (zeroDiagK W)).get j q) /
       (∑ j, ∑ q, if j = q then 0 else (posPartK (zeroDiagK W)).get j i * (posPartK (zeroDiagK W)).get i q)) ∧
    (ccSignZhang W).2[i] = some
      ((∑ j, ∑ q, (negPartK (zeroDiagK W)).get j i * (negPartK (zeroDiagK W)).get i q * (negPartK (zeroDiagK W)).get j q) /
       (∑ j, ∑ q, if j = q then 0 else (negPartK (zeroDiagK W)).get j i * (negPartK (zeroDiagK W)).get i q)) := by
  obtain ⟨e1, e2⟩ := signParts_eq W
  simp only [ccSignZhang, zhangCore_get, e1, e2]
  exact ⟨zhang_def (posPart_in01 (zeroDiag_pm1 h)) (posPart_emptyDiag (zeroDiag_emptyDiag W)) i,
    zhang_def (negPart_in01 (zeroDiag_pm1 h)) (negPart_emptyDiag (zeroDiag_emptyDiag W)) i⟩

/-- the Costantini–Perugini triple loop (model) -/
theorem cc_sign_cost_def {W : AMat ℚ n} (h : InPm1 W) (i : Fin n) :
    (ccSignCost W)[i] = some
      ((∑ j, ∑ q, (zeroDiagK W).get j i * (zeroDiagK W).get i q * (zeroDiagK W).get j q) /
       (∑ j, ∑ q, if j = q then 0 else |(zeroDiagK W).get j i * (zeroDiagK W).get i q|)) := by
  rw [ccSignCost_get, costK]
  refine perNode_eq_div (fun hne => ne_of_gt ?_)
  exact lt_of_lt_of_le (abs_pos.mpr hne) (cost_abs_le (zeroDiag_pm1 h) (zeroDiag_emptyDiag W) i)

/-! ## transitivity: triangles over connected triples, no per-node masking (model) -/

/-- `transitivity_bu` for every matrix: closed triples over paths `i – k – j` with `i ≠ j` -/
theorem trans_bu_def (A : AMat ℚ n) :
    transBu A = gdivK (∑ i, tri A i) (∑ k, ∑ i, ∑ j, if i = j then 0 else A.get i k * A.get k j) := by
  rw [transBu_eq]
  congr 1
  have e : ∀ k i j, (if i = j then (0:ℚ) else A.get i k * A.get k j)
      = A.get i k * A.get k j - (if i = j then A.get i k * A.get k j else 0) := by
    intro k i j; by_cases h : i = j <;> simp [h]
  simp only [e, Finset.sum_sub_distrib, Finset.sum_ite_eq, Finset.mem_univ, if_true]
  congr 1
  · exact (Finset.sum_congr rfl (fun i _ => Finset.sum_comm)).trans Finset.sum_comm
  · exact Finset.sum_comm

theorem trans_bd_def (A : AMat ℚ n) :
    transBd A = gdivK (∑ i, triS A i / 2) (∑ i, pairsS A i) := transFagiolo_eq A A

theorem trans_wd_def (W R : AMat ℚ n) :
    transWd W R = gdivK (∑ i, triS R i / 2) (∑ i, pairsS (adjK W) i) := transWd_eq W R

theorem trans_wu_def (W R : AMat ℚ n) :
    transWu W R = gdivK (∑ i, tri R i) (∑ i, deg W i * (deg W i - 1)) := transWu_eq W R

/-- the network ratio is undefined (`nan`) exactly when there is no connected triple -/
theorem trans_none_iff {K : Type} [Field K] [LinearOrder K] [IsStrictOrderedRing K] (a b : K) :
    gdivK a b = none ↔ b = 0 := by
  unfold gdivK; split_ifs with h <;> simp [h]

/-! ## exact-zero cases (model) -/

theorem cc_bu_zero_lt2 (G : AMat ℚ n) (u : Fin n) (h : deg G u < 2) : (ccBu G)[u] = some 0 := by
  rw [ccBu_get, if_neg (not_le.mpr h)]

theorem cc_bu_zero_notri {G : AMat ℚ n} (hB : Bin G) (hS : Symm G) (u : Fin n)
    (h : ∀ j k, ¬ (G.get u j ≠ 0 ∧ G.get j k ≠ 0 ∧ G.get k u ≠ 0)) : (ccBu G)[u] = some 0 := by
  rw [cc_bu_def hB hS, tri_zero_of_notri h]; simp

/-- no triangle through `i` ⇒ exactly 0 (`clustering_coef_bd`) -/
theorem cc_bd_zero_notri (A : AMat ℚ n) (i : Fin n)
    (h : ∀ j k, ¬ (Nb A i j ∧ Nb A j k ∧ Nb A k i)) : (ccBd A)[i] = some 0 := by
  rw [ccBd_get, ccFagK, triS_zero_of_notri h]; simp [perNodeK]

/-- fewer than two neighbours ⇒ exactly 0 (`clustering_coef_bd`) -/
theorem cc_bd_zero_lt2 {A : AMat ℚ n} (hD : EmptyDiag A) (i : Fin n)
    (h : ∀ j k, Nb A i j → Nb A i k → j = k) : (ccBd A)[i] = some 0 :=
  cc_bd_zero_notri A i (notri_of_lt2 hD h)

theorem cc_wd_zero_notri {W R : AMat ℚ n} (hR : IsCbrt R W) (i : Fin n)
    (h : ∀ j k, ¬ (Nb W i j ∧ Nb W j k ∧ Nb W k i)) : (ccWd W R)[i] = some 0 := by
  rw [ccWd_get]; exact fagK_zero_notri hR i h

theorem cc_wd_zero_lt2 {W R : AMat ℚ n} (hD : EmptyDiag W) (hR : IsCbrt R W) (i : Fin n)
    (h : ∀ j k, Nb W i j → Nb W i k → j = k) : (ccWd W R)[i] = some 0 :=
  cc_wd_zero_notri hR i (notri_of_lt2 hD h)

theorem cc_wu_zero_notri {W R : AMat ℚ n} (hR : IsCbrt R W) (i : Fin n)
    (h : ∀ j k, ¬ (W.get i j ≠ 0 ∧ W.get j k ≠ 0 ∧ W.get k i ≠ 0)) : (ccWu W R)[i] = some 0 := by
  rw [ccWu_get]; exact wuK_zero_notri hR i h

theorem cc_wu_zero_lt2 {W R : AMat ℚ n} (hS : Symm W) (hD : EmptyDiag W) (hR : IsCbrt R W) (i : Fin n)
    (h : deg W i < 2) : (ccWu W R)[i] = some 0 := by
  rw [ccWu_get]; exact wuK_zero_lt2 hS hD hR i h

/-- `clustering_coef_wu_sign`: no triangle of positive (negative) weights through `i` ⇒ `C_pos[i]` (`C_neg[i]`) is exactly 0,
for `'default'` and `'zhang'`; no triangle at all through `i` ⇒ the Costantini coefficient is exactly 0 -/
theorem cc_sign_zero_notri {W Rp Rn : AMat ℚ n}
    (hp : IsCbrt Rp (posPart (zeroDiag W))) (hn : IsCbrt Rn (negPart (zeroDiag W))) (i : Fin n) :
    ((∀ j k, ¬ ((posPart (zeroDiag W)).get i j ≠ 0 ∧ (posPart (zeroDiag W)).get j k ≠ 0 ∧ (posPart (zeroDiag W)).get k i ≠ 0)) →
      (ccSignDefault W Rp Rn).1[i] = some 0) ∧
    ((∀ j k, ¬ ((negPart (zeroDiag W)).get i j ≠ 0 ∧ (negPart (zeroDiag W)).get j k ≠ 0 ∧ (negPart (zeroDiag W)).get k i ≠ 0)) →
      (ccSignDefault W Rp Rn).2[i] = some 0) ∧
    ((∀ j q, ¬ ((posPart (zeroDiag W)).get j i ≠ 0 ∧ (posPart (zeroDiag W)).get i q ≠ 0 ∧ (posPart (zeroDiag W)).get j q ≠ 0)) →
      (ccSignZhang W).1[i] = some 0) ∧
    ((∀ j q, ¬ ((negPart (zeroDiag W)).get j i ≠ 0 ∧ (negPart (zeroDiag W)).get i q ≠ 0 ∧ (negPart (zeroDiag W)).get j q ≠ 0)) →
      (ccSignZhang W).2[i] = some 0) ∧
    ((∀ j q, ¬ ((zeroDiag W).get j i ≠ 0 ∧ (zeroDiag W).get i q ≠ 0 ∧ (zeroDiag W).get j q ≠ 0)) →
      (ccSignCost W)[i] = some 0) := by
  refine ⟨fun h => cc_wu_zero_notri hp i h, fun h => cc_wu_zero_notri hn i h, fun h => ?_, fun h => ?_, fun h => ?_⟩
  · simp only [ccSignZhang, zhangCore_get]; exact zhang_zero i h
  · simp only [ccSignZhang, zhangCore_get]; exact zhang_zero i h
  · rw [ccSignCost_get, ← zeroDiag_eq]; exact cost_zero i h

/-! ## ranges for weights in [0,1] (model) -/

theorem range_bu {G : AMat ℚ n} (hB : Bin G) (hS : Symm G) (hD : EmptyDiag G) (u : Fin n) :
    ∃ c, (ccBu G)[u] = some c ∧ 0 ≤ c ∧ c ≤ 1 := Cluster.range_bu hB hS hD u

/-- Fagiolo's bound `(S³)_ii / 2 ≤ K(K−1) − 2 (A²)_ii` -/
theorem fagiolo_bound {A : AMat ℚ n} (hB : Bin A) (hD : EmptyDiag A) (i : Fin n) :
    triS A i / 2 ≤ pairsS A i := by
  have := triS_le_pairsS hD (in01_of_bin hB) (isCbrt_of_bin hB) i
  rwa [adj_of_bin hB] at this

theorem range_bd {A : AMat ℚ n} (hB : Bin A) (hD : EmptyDiag A) (i : Fin n) :
    ∃ c, (ccBd A)[i] = some c ∧ 0 ≤ c ∧ c ≤ 1 := Cluster.range_bd hB hD i

theorem range_wu {W R : AMat ℚ n} (hS : Symm W) (hD : EmptyDiag W) (h01 : In01 W) (hR : IsCbrt R W) (i : Fin n) :
    ∃ c, (ccWu W R)[i] = some c ∧ 0 ≤ c ∧ c ≤ 1 := Cluster.range_wu hS hD h01 hR i

theorem range_wd {W R : AMat ℚ n} (hD : EmptyDiag W) (h01 : In01 W) (hR : IsCbrt R W) (i : Fin n) :
    ∃ c, (ccWd W R)[i] = some c ∧ 0 ≤ c ∧ c ≤ 1 := Cluster.range_wd hD h01 hR i

/-- signed weights in [-1,1], `coef_type='default'` -/
theorem range_sign_default {W Rp Rn : AMat ℚ n} (hS : Symm W) (h : InPm1 W)
    (hp : IsCbrt Rp (posPart (zeroDiag W))) (hn : IsCbrt Rn (negPart (zeroDiag W))) (i : Fin n) :
    (∃ c, (ccSignDefault W Rp Rn).1[i] = some c ∧ 0 ≤ c ∧ c ≤ 1) ∧
    (∃ c, (ccSignDefault W Rp Rn).2[i] = some c ∧ 0 ≤ c ∧ c ≤ 1) := by
  obtain ⟨e1, e2⟩ := signParts_eq W
  rw [e1] at hp; rw [e2] at hn
  simp only [ccSignDefault, e1, e2]
  exact ⟨Cluster.range_wu (posPart_symm (zeroDiag_symm hS)) (posPart_emptyDiag (zeroDiag_emptyDiag W))
      (posPart_in01 (zeroDiag_pm1 h)) hp i,
   Cluster.range_wu (negPart_symm (zeroDiag_symm hS)) (negPart_emptyDiag (zeroDiag_emptyDiag W))
      (negPart_in01 (zeroDiag_pm1 h)) hn i⟩

/-- signed weights in [-1,1], `coef_type='zhang'` (no symmetry needed) -/
theorem range_sign_zhang {W : AMat ℚ n} (h : InPm1 W) (i : Fin n) :
    (∃ c, (ccSignZhang W).1[i] = some c ∧ 0 ≤ c ∧ c ≤ 1) ∧
    (∃ c, (ccSignZhang W).2[i] = some c ∧ 0 ≤ c ∧ c ≤ 1) := by
  obtain ⟨e1, e2⟩ := signParts_eq W
  simp only [ccSignZhang, zhangCore_get, e1, e2]
  exact ⟨range_zhang (posPart_in01 (zeroDiag_pm1 h)) (posPart_emptyDiag (zeroDiag_emptyDiag W)) i,
   range_zhang (negPart_in01 (zeroDiag_pm1 h)) (negPart_emptyDiag (zeroDiag_emptyDiag W)) i⟩

/-- signed weights in [-1,1], `coef_type='costantini'`: the single signed coefficient lies in [-1,1] -/
theorem range_sign_cost {W : AMat ℚ n} (h : InPm1 W) (i : Fin n) :
    ∃ c, (ccSignCost W)[i] = some c ∧ -1 ≤ c ∧ c ≤ 1 := by
  rw [ccSignCost_get]; exact range_costK h i

theorem range_trans_bu {A : AMat ℚ n} (hB : Bin A) (hS : Symm A) (hD : EmptyDiag A) {t : ℚ}
    (h : transBu A = some t) : 0 ≤ t ∧ t ≤ 1 := Cluster.range_trans_bu hB hS hD h
theorem range_trans_bd {A : AMat ℚ n} (hB : Bin A) (hD : EmptyDiag A) {t : ℚ}
    (h : transBd A = some t) : 0 ≤ t ∧ t ≤ 1 := Cluster.range_trans_bd hB hD h
theorem range_trans_wu {W R : AMat ℚ n} (hS : Symm W) (hD : EmptyDiag W) (h01 : In01 W) (hR : IsCbrt R W)
    {t : ℚ} (h : transWu W R = some t) : 0 ≤ t ∧ t ≤ 1 := Cluster.range_trans_wu hS hD h01 hR h
theorem range_trans_wd {W R : AMat ℚ n} (hD : EmptyDiag W) (h01 : In01 W) (hR : IsCbrt R W)
    {t : ℚ} (h : transWd W R = some t) : 0 ≤ t ∧ t ≤ 1 := Cluster.range_trans_wd hD h01 hR h

/-! ## the weighted clauses for ALL real weights (`cuberoot` = the real cube root; no perfect-cube restriction) -/

/-- `clustering_coef_wd` over ℝ, any (signed) real weights with an empty diagonal: Fagiolo's ratio with the cube roots
of the weights in the numerator; a genuine quotient -/
theorem cc_wd_def_real {W : AMat ℝ n} (hD : EmptyDiag W) (i : Fin n) :
    ccWdR W i = some (triS (rootR W) i / 2 / pairsS (adjK W) i) ∧
    (triS (rootR W) i ≠ 0 → 0 < pairsS (adjK W) i) :=
  ⟨fagK_def hD (rootR_isCbrt W) i, pairsS_pos_of_triS hD (rootR_isCbrt W)⟩

/-- `clustering_coef_wu` over ℝ, symmetric real weights with an empty diagonal: the sum of the geometric-mean triangle
intensities `(w_ij w_jk w_ki)^(1/3)` over `k(k-1)` -/
theorem cc_wu_def_real {W : AMat ℝ n} (hS : Symm W) (hD : EmptyDiag W) (i : Fin n) :
    ccWuR W i = some ((∑ j, ∑ k, cbrtR (W.get i j * W.get j k * W.get k i)) / (deg W i * (deg W i - 1))) ∧
    ((∑ j, ∑ k, cbrtR (W.get i j * W.get j k * W.get k i)) ≠ 0 → 2 ≤ deg W i) := by
  rw [← tri_intensity_real]
  exact ⟨wuK_def hS hD (rootR_isCbrt W) i, tri_ne_zero_deg hS hD (rootR_isCbrt W)⟩

/-- `clustering_coef_wu_sign(W,'default')` over ℝ: Onnela's formula on the positive part and on the negated negative part -/
theorem cc_sign_default_def_real {W : AMat ℝ n} (hS : Symm W) (i : Fin n) :
    (ccSignDefaultR W i).1 = some (tri (rootR (posPartK (zeroDiagK W))) i /
        (deg (posPartK (zeroDiagK W)) i * (deg (posPartK (zeroDiagK W)) i - 1))) ∧
    (ccSignDefaultR W i).2 = some (tri (rootR (negPartK (zeroDiagK W))) i /
        (deg (negPartK (zeroDiagK W)) i * (deg (negPartK (zeroDiagK W)) i - 1))) :=
  ⟨wuK_def (posPart_symm (zeroDiag_symm hS)) (posPart_emptyDiag (zeroDiag_emptyDiag W)) (rootR_isCbrt _) i,
   wuK_def (negPart_symm (zeroDiag_symm hS)) (negPart_emptyDiag (zeroDiag_emptyDiag W)) (rootR_isCbrt _) i⟩

theorem trans_wd_def_real (W : AMat ℝ n) :
    transWdR W = gdivK (∑ i, triS (rootR W) i / 2) (∑ i, pairsS (adjK W) i) := rfl
theorem trans_wu_def_real (W : AMat ℝ n) :
    transWuR W = gdivK (∑ i, ∑ j, ∑ k, cbrtR (W.get i j * W.get j k * W.get k i)) (∑ i, deg W i * (deg W i - 1)) := by
  simp only [transWuR, transWuK, tri_intensity_real]

/-- exact-zero cases over ℝ -/
theorem cc_wd_zero_notri_real (W : AMat ℝ n) (i : Fin n)
    (h : ∀ j k, ¬ (Nb W i j ∧ Nb W j k ∧ Nb W k i)) : ccWdR W i = some 0 := fagK_zero_notri (rootR_isCbrt W) i h
theorem cc_wd_zero_lt2_real {W : AMat ℝ n} (hD : EmptyDiag W) (i : Fin n)
    (h : ∀ j k, Nb W i j → Nb W i k → j = k) : ccWdR W i = some 0 :=
  cc_wd_zero_notri_real W i (notri_of_lt2 hD h)
theorem cc_wu_zero_notri_real (W : AMat ℝ n) (i : Fin n)
    (h : ∀ j k, ¬ (W.get i j ≠ 0 ∧ W.get j k ≠ 0 ∧ W.get k i ≠ 0)) : ccWuR W i = some 0 :=
  wuK_zero_notri (rootR_isCbrt W) i h
theorem cc_wu_zero_lt2_real {W : AMat ℝ n} (hS : Symm W) (hD : EmptyDiag W) (i : Fin n)
    (h : deg W i < 2) : ccWuR W i = some 0 := wuK_zero_lt2 hS hD (rootR_isCbrt W) i h
theorem cc_sign_zero_notri_real (W : AMat ℝ n) (i : Fin n) :
    ((∀ j k, ¬ ((posPartK (zeroDiagK W)).get i j ≠ 0 ∧ (posPartK (zeroDiagK W)).get j k ≠ 0 ∧ (posPartK (zeroDiagK W)).get k i ≠ 0)) →
      (ccSignDefaultR W i).1 = some 0) ∧
    ((∀ j k, ¬ ((negPartK (zeroDiagK W)).get i j ≠ 0 ∧ (negPartK (zeroDiagK W)).get j k ≠ 0 ∧ (negPartK (zeroDiagK W)).get k i ≠ 0)) →
      (ccSignDefaultR W i).2 = some 0) ∧
    ((∀ j q, ¬ ((posPartK (zeroDiagK W)).get j i ≠ 0 ∧ (posPartK (zeroDiagK W)).get i q ≠ 0 ∧ (posPartK (zeroDiagK W)).get j q ≠ 0)) →
      (ccSignZhangR W i).1 = some 0) ∧
    ((∀ j q, ¬ ((negPartK (zeroDiagK W)).get j i ≠ 0 ∧ (negPartK (zeroDiagK W)).get i q ≠ 0 ∧ (negPartK (zeroDiagK W)).get j q ≠ 0)) →
      (ccSignZhangR W i).2 = some 0) ∧
    ((∀ j q, ¬ ((zeroDiagK W).get j i ≠ 0 ∧ (zeroDiagK W).get i q ≠ 0 ∧ (zeroDiagK W).get j q ≠ 0)) →
      ccSignCostR W i = some 0) :=
  ⟨fun h => wuK_zero_notri (rootR_isCbrt _) i h, fun h => wuK_zero_notri (rootR_isCbrt _) i h,
   fun h => zhang_zero i h, fun h => zhang_zero i h, fun h => cost_zero i h⟩

/-- **range**: every real weight matrix with weights in [0,1] and an empty diagonal -/
theorem range_wd_real {W : AMat ℝ n} (hD : EmptyDiag W) (h01 : In01 W) (i : Fin n) :
    ∃ c, ccWdR W i = some c ∧ 0 ≤ c ∧ c ≤ 1 := range_fagK hD h01 (rootR_isCbrt W) i
theorem range_wu_real {W : AMat ℝ n} (hS : Symm W) (hD : EmptyDiag W) (h01 : In01 W) (i : Fin n) :
    ∃ c, ccWuR W i = some c ∧ 0 ≤ c ∧ c ≤ 1 := range_wuK hS hD h01 (rootR_isCbrt W) i
theorem range_trans_wd_real {W : AMat ℝ n} (hD : EmptyDiag W) (h01 : In01 W) {t : ℝ}
    (h : transWdR W = some t) : 0 ≤ t ∧ t ≤ 1 := range_transFagK hD h01 (rootR_isCbrt W) h
theorem range_trans_wu_real {W : AMat ℝ n} (hS : Symm W) (hD : EmptyDiag W) (h01 : In01 W) {t : ℝ}
    (h : transWuR W = some t) : 0 ≤ t ∧ t ≤ 1 := range_transWuK hS hD h01 (rootR_isCbrt W) h
/-- every symmetric real matrix with signed weights in [-1,1] (any diagonal: the routine zeroes it) -/
theorem range_sign_default_real {W : AMat ℝ n} (hS : Symm W) (h : InPm1 W) (i : Fin n) :
    (∃ c, (ccSignDefaultR W i).1 = some c ∧ 0 ≤ c ∧ c ≤ 1) ∧ (∃ c, (ccSignDefaultR W i).2 = some c ∧ 0 ≤ c ∧ c ≤ 1) :=
  ⟨range_wuK (posPart_symm (zeroDiag_symm hS)) (posPart_emptyDiag (zeroDiag_emptyDiag W))
      (posPart_in01 (zeroDiag_pm1 h)) (rootR_isCbrt _) i,
   range_wuK (negPart_symm (zeroDiag_symm hS)) (negPart_emptyDiag (zeroDiag_emptyDiag W))
      (negPart_in01 (zeroDiag_pm1 h)) (rootR_isCbrt _) i⟩
theorem range_sign_zhang_real {W : AMat ℝ n} (h : InPm1 W) (i : Fin n) :
    (∃ c, (ccSignZhangR W i).1 = some c ∧ 0 ≤ c ∧ c ≤ 1) ∧ (∃ c, (ccSignZhangR W i).2 = some c ∧ 0 ≤ c ∧ c ≤ 1) :=
  ⟨range_zhang (posPart_in01 (zeroDiag_pm1 h)) (posPart_emptyDiag (zeroDiag_emptyDiag W)) i,
   range_zhang (negPart_in01 (zeroDiag_pm1 h)) (negPart_emptyDiag (zeroDiag_emptyDiag W)) i⟩
theorem range_sign_cost_real {W : AMat ℝ n} (h : InPm1 W) (i : Fin n) :
    ∃ c, ccSignCostR W i = some c ∧ -1 ≤ c ∧ c ≤ 1 := range_costK h i

/-! ## the executable model is an instance of the real routines (whenever it runs) -/

theorem wd_model_is_real {W R : AMat ℚ n} (hR : IsCbrt R W) (i : Fin n) :
    castO (ccWd W R)[i] = ccWdR (castM W) i := ccWd_real_of_rat hR i
theorem wu_model_is_real {W R : AMat ℚ n} (hR : IsCbrt R W) (i : Fin n) :
    castO (ccWu W R)[i] = ccWuR (castM W) i := ccWu_real_of_rat hR i
theorem trans_wd_model_is_real {W R : AMat ℚ n} (hR : IsCbrt R W) : castO (transWd W R) = transWdR (castM W) :=
  transWd_real_of_rat hR
theorem trans_wu_model_is_real {W R : AMat ℚ n} (hR : IsCbrt R W) : castO (transWu W R) = transWuR (castM W) :=
  transWu_real_of_rat hR
theorem sign_default_model_is_real {W Rp Rn : AMat ℚ n}
    (hp : IsCbrt Rp (posPart (zeroDiag W))) (hn : IsCbrt Rn (negPart (zeroDiag W))) (i : Fin n) :
    (castO (ccSignDefault W Rp Rn).1[i], castO (ccSignDefault W Rp Rn).2[i]) = ccSignDefaultR (castM W) i :=
  ccSignDefault_real_of_rat hp hn i
/-- the two triple-loop variants use no cube root: the model agrees with the real routine on every rational matrix -/
theorem sign_zhang_model_is_real (W : AMat ℚ n) (i : Fin n) :
    (castO (ccSignZhang W).1[i], castO (ccSignZhang W).2[i]) = ccSignZhangR (castM W) i := ccSignZhang_real_of_rat W i
theorem sign_cost_model_is_real (W : AMat ℚ n) (i : Fin n) :
    castO (ccSignCost W)[i] = ccSignCostR (castM W) i := ccSignCost_real_of_rat W i
/-- through the executable cube root: whenever `rootMat` succeeds the model output is the real routine's value -/
theorem wd_exec_is_real {W R : AMat ℚ n} (h : rootMat W = some R) (i : Fin n) :
    castO (ccWd W R)[i] = ccWdR (castM W) i := ccWd_real_of_rat (Cluster.rootMat_sound h) i

/-! ## non-vacuity: concrete networks meeting the hypotheses, with the values the theorems give -/
section Examples

/-- the triangle -/
def K3 : AMat ℚ 3 := AMat.ofFn fun i j => if i = j then 0 else 1
/-- the path 0 – 1 – 2 -/
def P3 : AMat ℚ 3 := AMat.ofFn fun i j => if i.val + j.val = 1 ∨ i.val + j.val = 3 then 1 else 0
/-- the directed 3-cycle 0 → 1 → 2 → 0 -/
def C3 : AMat ℚ 3 := AMat.ofFn fun i j => if j.val = (i.val + 1) % 3 then 1 else 0
/-- the triangle with weights 1/8, its cube root, and the triangle with weights -1/8 -/
def W3 : AMat ℚ 3 := AMat.ofFn fun i j => if i = j then 0 else 1/8
def R3 : AMat ℚ 3 := AMat.ofFn fun i j => if i = j then 0 else 1/2
def N3 : AMat ℚ 3 := AMat.ofFn fun i j => if i = j then 0 else -1/8
def Z3 : AMat ℚ 3 := AMat.ofFn fun _ _ => 0

lemma K3_bin : Bin K3 := fun i j => by simp only [K3, AMat.get_ofFn]; split_ifs <;> simp
lemma K3_symm : Symm K3 := fun i j => by simp only [K3, AMat.get_ofFn, eq_comm]
lemma K3_diag : EmptyDiag K3 := fun i => by simp [K3]
lemma P3_bin : Bin P3 := fun i j => by simp only [P3, AMat.get_ofFn]; split_ifs <;> simp
lemma P3_symm : Symm P3 := fun i j => by simp only [P3, AMat.get_ofFn, add_comm]
lemma P3_diag : EmptyDiag P3 := fun i => by fin_cases i <;> simp [P3]
lemma C3_bin : Bin C3 := fun i j => by simp only [C3, AMat.get_ofFn]; split_ifs <;> simp
lemma C3_diag : EmptyDiag C3 := fun i => by fin_cases i <;> simp [C3]
lemma W3_symm : Symm W3 := fun i j => by simp only [W3, AMat.get_ofFn, eq_comm]
lemma W3_diag : EmptyDiag W3 := fun i => by simp [W3]
lemma W3_in01 : In01 W3 := fun i j => by simp only [W3, AMat.get_ofFn]; split_ifs <;> norm_num
lemma R3_cbrt : IsCbrt R3 W3 := fun i j => by simp only [R3, W3, AMat.get_ofFn]; split_ifs <;> norm_num
lemma N3_symm : Symm N3 := fun i j => by simp only [N3, AMat.get_ofFn, eq_comm]
lemma N3_pm1 : InPm1 N3 := fun i j => by simp only [N3, AMat.get_ofFn]; split_ifs <;> norm_num
lemma N3_pos : posPart (zeroDiag N3) = Z3 := by
  rw [(signParts_eq N3).1]; exact AMat.ext_get fun i j => by
    simp only [posPart_get, zeroDiag_get, N3, Z3, AMat.get_ofFn]; split_ifs <;> norm_num at *
lemma N3_neg : negPart (zeroDiag N3) = W3 := by
  rw [(signParts_eq N3).2]; exact AMat.ext_get fun i j => by
    simp only [negPart_get, zeroDiag_get, N3, W3, AMat.get_ofFn]; split_ifs <;> norm_num at *
lemma Z3_cbrt : IsCbrt Z3 Z3 := fun i j => by simp [Z3]

-- cube roots
example : cbrtQ (1/8) = some (1/2) := by
  have h1 : ((1:ℚ)/8).num = 1 := by norm_num
  have h2 : ((1:ℚ)/8).den = 8 := by norm_num
  unfold cbrtQ; rw [h1, h2]; simp [icbrt, cbrtGo]
example : cbrtQ (1/2) = none := by
  have h1 : ((1:ℚ)/2).num = 1 := by norm_num
  have h2 : ((1:ℚ)/2).den = 2 := by norm_num
  unfold cbrtQ; rw [h1, h2]; simp [icbrt, cbrtGo]
example : IsCbrt K3 K3 := rootMat_sound (rootMat_on01 K3_bin)
example : R3 = R3 := cbrt_unique R3_cbrt R3_cbrt

-- definitions evaluated
example : (mmul K3 (mmul K3 K3)).get 0 0 = 2 := by
  rw [diag_cube]; simp +decide [K3, Fin.sum_univ_three] <;> norm_num
example : (ccBu K3)[(0 : Fin 3)] = some 1 := by
  rw [cc_bu_def K3_bin K3_symm]
  simp +decide [deg, tri, K3, Fin.sum_univ_three, indK] <;> norm_num
example : (closedPairs K3 0).card = 2 ∧ (nbrPairs K3 0).card = 2 := by
  constructor <;> (apply Nat.cast_injective (R := ℚ))
  · rw [← tri_eq_card K3_bin]; simp +decide [tri, K3, Fin.sum_univ_three] <;> norm_num
  · rw [← deg_pairs_eq_card K3_bin]; simp +decide [deg, indK, K3, Fin.sum_univ_three] <;> norm_num
example : (ccBu K3)[(0 : Fin 3)] = some (((closedPairs K3 0).card : ℚ) / ((nbrPairs K3 0).card : ℚ)) := by
  have h : 2 ≤ (nbrPairs K3 0).card := by
    have : ((nbrPairs K3 0).card : ℚ) = 2 := by
      rw [← deg_pairs_eq_card K3_bin]; simp +decide [deg, indK, K3, Fin.sum_univ_three] <;> norm_num
    exact_mod_cast this.ge
  rw [cc_bu_fraction K3_bin K3_symm, if_pos h]
example : (ccBd C3)[(0 : Fin 3)] = some (1/2) := by
  rw [(cc_bd_def C3_bin C3_diag 0).1]
  simp +decide [triS, pairsS, degS, C3, Fin.sum_univ_three] <;> norm_num
example : pairsS C3 0 = 2 := by
  rw [cc_bd_pairs C3_bin]; simp +decide [C3, Fin.sum_univ_three] <;> norm_num
example : (ccWu W3 R3)[(0 : Fin 3)] = some (1/8) := by
  rw [(cc_wu_def W3_symm W3_diag R3_cbrt 0).1]
  simp +decide [deg, tri, W3, R3, Fin.sum_univ_three, indK] <;> norm_num
example : (ccWd W3 R3)[(0 : Fin 3)] = some (1/8) := by
  rw [(cc_wd_def W3_diag R3_cbrt 0).1]
  simp +decide [triS, pairsS, degS, W3, R3, Fin.sum_univ_three, indK] <;> norm_num
example : (ccSignDefault N3 Z3 R3).2[(0 : Fin 3)] = some (1/8) := by
  rw [(cc_sign_default_def N3_symm (by rw [N3_pos]; exact Z3_cbrt) (by rw [N3_neg]; exact R3_cbrt) 0).2, N3_neg]
  simp +decide [deg, tri, W3, R3, Fin.sum_univ_three, indK] <;> norm_num
example : (zhangCore W3)[(0 : Fin 3)] = some (1/8) := by
  rw [(cc_sign_zhang_def W3_in01 W3_diag 0).1]
  simp +decide [W3, Fin.sum_univ_three] <;> norm_num
example : ∃ c, (ccSignZhang N3).2[(0 : Fin 3)] = some c := ⟨_, (cc_sign_zhang_def_W N3_pm1 0).2⟩
example : (ccSignCost N3)[(0 : Fin 3)] = some (-1/8) := by
  rw [cc_sign_cost_def N3_pm1]
  simp +decide [N3, Fin.sum_univ_three, abs_of_nonneg] <;> norm_num
example : transBu K3 = some 1 := by
  rw [trans_bu_def]; simp +decide [gdivK, tri, K3, Fin.sum_univ_three] <;> norm_num
example : transBu P3 = some 0 := by
  rw [trans_bu_def]; simp +decide [gdivK, tri, P3, Fin.sum_univ_three] <;> norm_num
example : transBu Z3 = none := by
  rw [trans_bu_def, trans_none_iff]; simp [Z3]
example : transBd C3 = some (1/2) := by
  rw [trans_bd_def]; simp +decide [gdivK, triS, pairsS, degS, C3, Fin.sum_univ_three] <;> norm_num
example : transWd W3 R3 = some (1/8) := by
  rw [trans_wd_def]; simp +decide [gdivK, triS, pairsS, degS, W3, R3, indK, Fin.sum_univ_three] <;> norm_num
example : transWu W3 R3 = some (1/8) := by
  rw [trans_wu_def]; simp +decide [gdivK, tri, deg, W3, R3, indK, Fin.sum_univ_three] <;> norm_num

-- zero cases on the path: an end node (one neighbour) and the middle node (two neighbours, no triangle)
example : (ccBu P3)[(0 : Fin 3)] = some 0 :=
  cc_bu_zero_lt2 P3 0 (by simp +decide [deg, P3, Fin.sum_univ_three, indK])
example : (ccBu P3)[(1 : Fin 3)] = some 0 := cc_bu_zero_notri P3_bin P3_symm 1 (by
  intro j k; fin_cases j <;> fin_cases k <;> simp [P3])
example : (ccBd P3)[(1 : Fin 3)] = some 0 := cc_bd_zero_notri P3 1 (by
  intro j k; fin_cases j <;> fin_cases k <;> simp [P3, Nb])
example : (ccBd P3)[(0 : Fin 3)] = some 0 := cc_bd_zero_lt2 P3_diag 0 (by
  intro j k; fin_cases j <;> fin_cases k <;> simp [P3, Nb])
example : (ccWd P3 P3)[(1 : Fin 3)] = some 0 := cc_wd_zero_notri (isCbrt_of_bin P3_bin) 1 (by
  intro j k; fin_cases j <;> fin_cases k <;> simp [P3, Nb])
example : (ccWd P3 P3)[(0 : Fin 3)] = some 0 := cc_wd_zero_lt2 P3_diag (isCbrt_of_bin P3_bin) 0 (by
  intro j k; fin_cases j <;> fin_cases k <;> simp [P3, Nb])
example : (ccWu P3 P3)[(1 : Fin 3)] = some 0 := cc_wu_zero_notri (isCbrt_of_bin P3_bin) 1 (by
  intro j k; fin_cases j <;> fin_cases k <;> simp [P3])
example : (ccWu P3 P3)[(0 : Fin 3)] = some 0 := cc_wu_zero_lt2 P3_symm P3_diag (isCbrt_of_bin P3_bin) 0
  (by simp +decide [deg, P3, Fin.sum_univ_three, indK])

-- ranges: the hypotheses are jointly satisfiable
example : ∃ c, (ccBu K3)[(0 : Fin 3)] = some c ∧ 0 ≤ c ∧ c ≤ 1 := range_bu K3_bin K3_symm K3_diag 0
example : triS C3 0 / 2 ≤ pairsS C3 0 := fagiolo_bound C3_bin C3_diag 0
example : ∃ c, (ccBd C3)[(0 : Fin 3)] = some c ∧ 0 ≤ c ∧ c ≤ 1 := range_bd C3_bin C3_diag 0
example : ∃ c, (ccWu W3 R3)[(0 : Fin 3)] = some c ∧ 0 ≤ c ∧ c ≤ 1 := range_wu W3_symm W3_diag W3_in01 R3_cbrt 0
example : ∃ c, (ccWd W3 R3)[(0 : Fin 3)] = some c ∧ 0 ≤ c ∧ c ≤ 1 := range_wd W3_diag W3_in01 R3_cbrt 0
example : ∃ c, (ccSignDefault N3 Z3 R3).2[(0 : Fin 3)] = some c ∧ 0 ≤ c ∧ c ≤ 1 :=
  (range_sign_default N3_symm N3_pm1 (by rw [N3_pos]; exact Z3_cbrt) (by rw [N3_neg]; exact R3_cbrt) 0).2
example : ∃ c, (ccSignZhang N3).2[(0 : Fin 3)] = some c ∧ 0 ≤ c ∧ c ≤ 1 := (range_sign_zhang N3_pm1 0).2
example : ∃ c, (ccSignCost N3)[(0 : Fin 3)] = some c ∧ -1 ≤ c ∧ c ≤ 1 := range_sign_cost N3_pm1 0
example : (0:ℚ) ≤ 1 ∧ (1:ℚ) ≤ 1 := range_trans_bu K3_bin K3_symm K3_diag
  (by rw [trans_bu_def]; simp +decide [gdivK, tri, K3, Fin.sum_univ_three] <;> norm_num)
example : (0:ℚ) ≤ 1/2 ∧ (1/2:ℚ) ≤ 1 := range_trans_bd C3_bin C3_diag
  (by rw [trans_bd_def]; simp +decide [gdivK, triS, pairsS, degS, C3, Fin.sum_univ_three] <;> norm_num)
example : (0:ℚ) ≤ 1/8 ∧ (1/8:ℚ) ≤ 1 := range_trans_wu W3_symm W3_diag W3_in01 R3_cbrt
  (by rw [trans_wu_def]; simp +decide [gdivK, tri, deg, W3, R3, indK, Fin.sum_univ_three] <;> norm_num)
example : (0:ℚ) ≤ 1/8 ∧ (1/8:ℚ) ≤ 1 := range_trans_wd W3_diag W3_in01 R3_cbrt
  (by rw [trans_wd_def]; simp +decide [gdivK, triS, pairsS, degS, W3, R3, indK, Fin.sum_univ_three] <;> norm_num)

-- the weighted clauses over ℝ on generic (non perfect-cube) weights
/-- the triangle with the generic (non-cube) weight 1/2, over ℝ; the path with weight 1/2; the triangle with weight −1/2 -/
noncomputable def H3 : AMat ℝ 3 := AMat.ofFn fun i j => if i = j then 0 else 1/2
noncomputable def HP3 : AMat ℝ 3 := AMat.ofFn fun i j => if i.val + j.val = 1 ∨ i.val + j.val = 3 then 1/2 else 0
noncomputable def HN3 : AMat ℝ 3 := AMat.ofFn fun i j => if i = j then 0 else -1/2
lemma H3_symm : Symm H3 := fun i j => by simp only [H3, AMat.get_ofFn, eq_comm]
lemma H3_diag : EmptyDiag H3 := fun i => by simp [H3]
lemma H3_in01 : In01 H3 := fun i j => by simp only [H3, AMat.get_ofFn]; split_ifs <;> norm_num
lemma HP3_symm : Symm HP3 := fun i j => by simp only [HP3, AMat.get_ofFn, add_comm]
lemma HP3_diag : EmptyDiag HP3 := fun i => by fin_cases i <;> simp [HP3]
lemma HN3_symm : Symm HN3 := fun i j => by simp only [HN3, AMat.get_ofFn, eq_comm]
lemma HN3_pm1 : InPm1 HN3 := fun i j => by simp only [HN3, AMat.get_ofFn]; split_ifs <;> norm_num
lemma cbrtR_zero' : cbrtR 0 = 0 := by simp [cbrtR]
lemma cbrtR_eighth : cbrtR (1/8) = 1/2 := cube_inj (by rw [cbrtR_cube]; norm_num)

example : ccWuR H3 0 = some (1/2) := by
  rw [(cc_wu_def_real H3_symm H3_diag 0).1]
  simp +decide [H3, deg, indK, Fin.sum_univ_three]
  norm_num [cbrtR_eighth, cbrtR_zero']
example : ∃ c, ccWuR H3 0 = some c ∧ 0 ≤ c ∧ c ≤ 1 := range_wu_real H3_symm H3_diag H3_in01 0
example : ∃ c, ccWdR H3 0 = some c ∧ 0 ≤ c ∧ c ≤ 1 := range_wd_real H3_diag H3_in01 0
example : ccWdR H3 0 = some (triS (rootR H3) 0 / 2 / pairsS (adjK H3) 0) := (cc_wd_def_real H3_diag 0).1
example : ccWuR HP3 1 = some 0 := cc_wu_zero_notri_real HP3 1 (by
  intro j k; fin_cases j <;> fin_cases k <;> simp [HP3])
example : ccWuR HP3 0 = some 0 := cc_wu_zero_lt2_real HP3_symm HP3_diag 0 (by
  simp +decide [deg, HP3, Fin.sum_univ_three, indK])
example : ccWdR HP3 1 = some 0 := cc_wd_zero_notri_real HP3 1 (by
  intro j k; fin_cases j <;> fin_cases k <;> simp [HP3, Nb])
example : ccWdR HP3 0 = some 0 := cc_wd_zero_lt2_real HP3_diag 0 (by
  intro j k; fin_cases j <;> fin_cases k <;> simp [HP3, Nb])
example : ∃ c, (ccSignDefaultR HN3 0).2 = some c ∧ 0 ≤ c ∧ c ≤ 1 := (range_sign_default_real HN3_symm HN3_pm1 0).2
example : ∃ c, (ccSignZhangR HN3 0).2 = some c ∧ 0 ≤ c ∧ c ≤ 1 := (range_sign_zhang_real HN3_pm1 0).2
example : ∃ c, ccSignCostR HN3 0 = some c ∧ -1 ≤ c ∧ c ≤ 1 := range_sign_cost_real HN3_pm1 0
example : (ccSignDefaultR HN3 0).1 = some 0 := (cc_sign_zero_notri_real HN3 0).1 (by
  intro j k; fin_cases j <;> fin_cases k <;> simp [HN3])
example : castO (ccWd W3 R3)[(0 : Fin 3)] = ccWdR (castM W3) 0 := wd_model_is_real R3_cbrt 0
example : castO (ccWu W3 R3)[(0 : Fin 3)] = ccWuR (castM W3) 0 := wu_model_is_real R3_cbrt 0
example : castO (transWu W3 R3) = transWuR (castM W3) := trans_wu_model_is_real R3_cbrt
example (t : ℝ) (h : transWuR H3 = some t) : 0 ≤ t ∧ t ≤ 1 := range_trans_wu_real H3_symm H3_diag H3_in01 h
example (t : ℝ) (h : transWdR H3 = some t) : 0 ≤ t ∧ t ≤ 1 := range_trans_wd_real H3_diag H3_in01 h
example : cbrtR (1/2) * cbrtR (1/2) * cbrtR (1/2) = 1/2 := by
  rw [intensity_real]; exact cube_inj (by rw [cbrtR_cube]; norm_num)

end Examples

end Bct.C09
