import BctVerif.Lemmas.ThreshProp

/-!
# C17 — thresholding and weight conversion keep exactly the documented entries

Theorems about the executable model `Bct.Thresh` (the one the correspondence check runs against
`bct.threshold_proportional`, `threshold_absolute`, `binarize`, `normalize`, `invert`,
`weight_conversion`, `teachers_round`).  All statements are for every size `n`, every rational matrix,
every rational `p` / `thr` and every order oracle (= every way NumPy may break ties in `argsort`).

* `teachers_round_spec`, `teachers_round_near`, `teachers_round_tie` — round half away from zero;
* `tp_param`, `tp_count`, `tp_strongest`, `tp_diag`, `tp_symm`, `tp_symm_input`, `tp_entries`,
  `tp_strongest_asym`, `tp_strongest_sym`, `tp_total`, `tp_error` — `threshold_proportional`;
* `ta_spec`; `binarize_spec`; `normalize_max`, `normalize_nan`, `normalize_maxAbs`, `normalize_idempotent`,
  `binarize_normalize`; `invert_spec`, `invert_involutive`;
  `weight_conversion_dispatch`.
-/
open Finset

namespace Bct.C17
open Bct Bct.Thresh Bct.ThreshLemmas

variable {n : ℕ}

/-! ### teachers_round -/

/-- round half away from zero: `sign x * ⌊|x| + 1/2⌋` -/
theorem teachers_round_spec (x : ℚ) :
    teachersRound x = if 0 ≤ x then ⌊|x| + 1 / 2⌋ else -⌊|x| + 1 / 2⌋ := by
  split_ifs with h
  · rw [abs_of_nonneg h]; exact teachersRound_nonneg h
  · push Not at h
    rw [abs_of_neg h]; exact teachersRound_neg h

/-- the result is a nearest integer -/
theorem teachers_round_near (x : ℚ) : |x - teachersRound x| ≤ 1 / 2 := by
  rw [teachers_round_spec]
  split_ifs with h
  · rw [abs_of_nonneg h]
    have h1 := Int.floor_le (x + 1 / 2)
    have h2 := Int.lt_floor_add_one (x + 1 / 2)
    rw [abs_le]; constructor <;> linarith
  · push Not at h
    rw [abs_of_neg h]
    have h1 := Int.floor_le (-x + 1 / 2)
    have h2 := Int.lt_floor_add_one (-x + 1 / 2)
    push_cast
    rw [abs_le]; constructor <;> linarith

/-- a tie (`x` exactly half-way between two integers) goes to the one of larger magnitude -/
theorem teachers_round_tie (x : ℚ) (h : |x - teachersRound x| = 1 / 2) : |x| < |(teachersRound x : ℚ)| := by
  rw [teachers_round_spec] at h ⊢
  split_ifs at h ⊢ with h0
  · rw [abs_of_nonneg h0] at h ⊢
    have h1 := Int.floor_le (x + 1 / 2)
    have h2 := Int.lt_floor_add_one (x + 1 / 2)
    have hr : (0 : ℚ) ≤ (⌊x + 1 / 2⌋ : ℤ) := by
      have : 0 ≤ ⌊x + 1 / 2⌋ := Int.floor_nonneg.mpr (by linarith)
      exact_mod_cast this
    rw [abs_of_nonneg hr]
    rcases abs_eq (by norm_num : (0 : ℚ) ≤ 1 / 2) |>.mp h with h3 | h3 <;> linarith
  · push Not at h0
    rw [abs_of_neg h0] at h ⊢
    have h1 := Int.floor_le (-x + 1 / 2)
    have h2 := Int.lt_floor_add_one (-x + 1 / 2)
    have hr : (0 : ℚ) ≤ (⌊-x + 1 / 2⌋ : ℤ) := by
      have : 0 ≤ ⌊-x + 1 / 2⌋ := Int.floor_nonneg.mpr (by linarith)
      exact_mod_cast this
    push_cast at h ⊢
    rw [abs_neg, abs_of_nonneg hr]
    rcases abs_eq (by norm_num : (0 : ℚ) ≤ 1 / 2) |>.mp h with h3 | h3 <;> linarith

example : teachersRound (5 / 2) = 3 ∧ teachersRound (-5 / 2) = -3 ∧ teachersRound (7 / 4) = 2 ∧
    teachersRound (-9 / 4) = -2 ∧ teachersRound 0 = 0 ∧ teachersRound (1 / 2) = 1 := by
  simp only [teachers_round_spec]
  norm_num

/-! ### threshold_proportional -/

/-- `p` outside `[0,1]` is rejected with BCTParamError, whatever the matrix and the oracle -/
theorem tp_param (W : AMat ℚ n) (p : ℚ) (order : List ℕ) (hp : p > 1 ∨ p < 0) :
    thresholdProportional W p order = .error .param := by
  unfold thresholdProportional; rw [if_pos hp]

/-- for `p` in `[0,1]` the only other failure is an oracle that is not a descending sorting permutation -/
theorem tp_error (W : AMat ℚ n) (p : ℚ) (order : List ℕ) (e : Err)
    (h : thresholdProportional W p order = .error e) : (e = .param ∧ (p > 1 ∨ p < 0)) ∨ e = .badDraw := by
  unfold thresholdProportional at h
  by_cases hp : p > 1 ∨ p < 0
  · rw [if_pos hp] at h; injection h with h; exact Or.inl ⟨h.symm, hp⟩
  · rw [if_neg hp] at h
    right
    simp only at h
    split at h
    · rename_i e' he
      injection h with h
      rw [← h]; exact (selection_error he).1
    · split_ifs at h
      injection h with h; exact h.symm

/-- diagonal of the result is zero -/
theorem tp_diag {W : AMat ℚ n} {p : ℚ} {order : List ℕ} {R : AMat ℚ n}
    (h : thresholdProportional W p order = .ok R) (i : Fin n) : R.get i i = 0 := by
  obtain ⟨_, _, sel, _, _, rfl⟩ := tp_ok h
  have hk : (keepMask (pre W).W1 sel (enNat W p)).get i i = 0 := by
    rcases keepMask_entries (pre W).W1 sel (enNat W p) i i with h0 | h0
    · exact h0
    · rw [h0, pre_diag]
  split_ifs
  · simp [symmetrize, hk]
  · exact hk

/-- in the `ud = 2` branch the output is symmetric -/
theorem tp_symm {W : AMat ℚ n} {p : ℚ} {order : List ℕ} {R : AMat ℚ n}
    (h : thresholdProportional W p order = .ok R) (hs : (pre W).sym = true) (i j : Fin n) :
    R.get i j = R.get j i := by
  obtain ⟨_, _, sel, _, _, rfl⟩ := tp_ok h
  rw [if_pos hs]
  simp only [symmetrize, AMat.get_ofFn]
  exact add_comm _ _

/-- symmetric input gives symmetric output -/
theorem tp_symm_input {W : AMat ℚ n} {p : ℚ} {order : List ℕ} {R : AMat ℚ n}
    (h : thresholdProportional W p order = .ok R) (hW : ∀ i j, W.get i j = W.get j i) (i j : Fin n) :
    R.get i j = R.get j i := tp_symm h (pre_sym_of_symmetric W hW) i j

/-- on the cells of the working matrix (all off-diagonal cells, resp. the upper triangle when `ud = 2`)
the result is the masked working matrix -/
theorem result_on_working {W : AMat ℚ n} {p : ℚ} {sel : List (Fin n × Fin n)}
    (hp : sel.Perm (support (pre W).W1)) (c : Fin n × Fin n) (hc : (pre W).W1.get c.1 c.2 ≠ 0) :
    (if (pre W).sym then symmetrize (keepMask (pre W).W1 sel (enNat W p))
      else keepMask (pre W).W1 sel (enNat W p)).get c.1 c.2
      = (keepMask (pre W).W1 sel (enNat W p)).get c.1 c.2 := by
  split_ifs with hs
  · simp only [symmetrize, AMat.get_ofFn]
    have hlt := pre_upper W hs hc
    have : (keepMask (pre W).W1 sel (enNat W p)).get c.2 c.1 = 0 := by
      by_contra hne
      have hm := (keepMask_ne_zero_iff hp (enNat W p) (c.2, c.1)).mp hne
      have hin : (c.2, c.1) ∈ support (pre W).W1 := hp.mem_iff.mp (List.mem_of_mem_take hm)
      have := pre_upper W hs (mem_support.mp hin)
      simp only at this
      omega
    rw [this, add_zero]
  · rfl

/-- every kept connection is at least as strong as every dropped connection
(`W1` = the working matrix: input with cleared diagonal, upper triangle only when `ud = 2`) -/
theorem tp_strongest {W : AMat ℚ n} {p : ℚ} {order : List ℕ} {R : AMat ℚ n}
    (h : thresholdProportional W p order = .ok R) (a b : Fin n × Fin n)
    (ha : (pre W).W1.get a.1 a.2 ≠ 0) (hka : R.get a.1 a.2 ≠ 0)
    (hb : (pre W).W1.get b.1 b.2 ≠ 0) (hdb : R.get b.1 b.2 = 0) :
    (pre W).W1.get b.1 b.2 ≤ (pre W).W1.get a.1 a.2 := by
  obtain ⟨_, _, sel, hsel, hsort, rfl⟩ := tp_ok h
  have hp := selection_perm hsel
  rw [result_on_working hp a ha] at hka
  rw [result_on_working hp b hb] at hdb
  have h1 := (keepMask_ne_zero_iff hp (enNat W p) a).mp hka
  have h2 := (keepMask_eq_zero_iff hp (enNat W p) b hb).mp hdb
  rw [← List.take_append_drop (enNat W p) sel, List.map_append, List.pairwise_append] at hsort
  exact hsort.2.2 _ (List.mem_map_of_mem h1) _ (List.mem_map_of_mem h2)

/-- branch form: in the `ud = 2` branch a cell may carry the transposed input cell (used for `tp_entries`) -/
theorem tp_entries_branch {W : AMat ℚ n} {p : ℚ} {order : List ℕ} {R : AMat ℚ n}
    (h : thresholdProportional W p order = .ok R) (i j : Fin n) :
    R.get i j = 0 ∨ (i ≠ j ∧ (R.get i j = W.get i j ∨ ((pre W).sym = true ∧ R.get i j = W.get j i))) := by
  obtain ⟨_, _, sel, hsel, _, rfl⟩ := tp_ok h
  have hp := selection_perm hsel
  by_cases h1 : (pre W).W1.get i j ≠ 0
  · have := result_on_working (p := p) hp (i, j) h1
    simp only at this
    rw [this]
    rcases keepMask_entries (pre W).W1 sel (enNat W p) i j with h0 | h0
    · left; exact h0
    · rcases pre_entries W i j with h3 | ⟨h3, h4⟩
      · exact absurd h3 h1
      · right; exact ⟨h3, Or.inl (by rw [h0, h4])⟩
  · push Not at h1
    have hk0 : (keepMask (pre W).W1 sel (enNat W p)).get i j = 0 := by
      rcases keepMask_entries (pre W).W1 sel (enNat W p) i j with h0 | h0
      · exact h0
      · rw [h0, h1]
    by_cases hs : (pre W).sym = true
    · rw [if_pos hs]
      simp only [symmetrize, AMat.get_ofFn, hk0, zero_add]
      rcases keepMask_entries (pre W).W1 sel (enNat W p) j i with h0 | h0
      · left; exact h0
      · rcases pre_entries W j i with h3 | ⟨h3, h4⟩
        · left; rw [h0, h3]
        · right; exact ⟨fun e => h3 e.symm, Or.inr ⟨hs, by rw [h0, h4]⟩⟩
    · rw [if_neg hs]; left; exact hk0

/-- **every output cell is 0 or the input cell** — at full strength, for every matrix: the `ud = 2` branch is taken only for exactly
symmetric input (`pre_sym_iff`), where the transposed cell *is* the input cell -/
theorem tp_entries {W : AMat ℚ n} {p : ℚ} {order : List ℕ} {R : AMat ℚ n}
    (h : thresholdProportional W p order = .ok R) (i j : Fin n) :
    R.get i j = 0 ∨ (i ≠ j ∧ R.get i j = W.get i j) := by
  rcases tp_entries_branch h i j with h0 | ⟨hij, h1 | ⟨hs, h2⟩⟩
  · exact Or.inl h0
  · exact Or.inr ⟨hij, h1⟩
  · exact Or.inr ⟨hij, by rw [h2, (pre_sym_iff W).mp hs j i (fun e => hij e.symm)]⟩

/-- asymmetric branch, stated on the input: a kept entry is ≥ every dropped off-diagonal entry -/
theorem tp_strongest_asym {W : AMat ℚ n} {p : ℚ} {order : List ℕ} {R : AMat ℚ n}
    (h : thresholdProportional W p order = .ok R) (hs : (pre W).sym = false)
    (i j k l : Fin n) (hkl : k ≠ l) (hkept : R.get i j ≠ 0) (hw : W.get k l ≠ 0) (hdrop : R.get k l = 0) :
    W.get k l ≤ W.get i j ∧ R.get i j = W.get i j := by
  have hW1 : ∀ a b : Fin n, (pre W).W1.get a b = if a = b then 0 else W.get a b := by
    intro a b
    rcases pre_cases W with ⟨h1, _, _⟩ | ⟨_, h2, _⟩
    · rw [hs] at h1; cases h1
    · rw [h2, zeroDiag_get]
  have hij : i ≠ j ∧ R.get i j = W.get i j := by
    rcases tp_entries_branch h i j with h0 | ⟨h1, h2 | ⟨h3, _⟩⟩
    · exact absurd h0 hkept
    · exact ⟨h1, h2⟩
    · rw [hs] at h3; cases h3
  have := tp_strongest h (i, j) (k, l) (by simp only [hW1, if_neg hij.1]; rw [← hij.2]; exact hkept) hkept
    (by simp only [hW1, if_neg hkl]; exact hw) hdrop
  simp only [hW1, if_neg hij.1, if_neg hkl] at this
  exact ⟨this, hij.2⟩

/-- exactly symmetric input, stated on the input: a kept entry is ≥ every dropped off-diagonal entry -/
theorem tp_strongest_sym {W : AMat ℚ n} {p : ℚ} {order : List ℕ} {R : AMat ℚ n}
    (h : thresholdProportional W p order = .ok R) (hW : ∀ i j, W.get i j = W.get j i)
    (i j k l : Fin n) (hkl : k ≠ l) (hkept : R.get i j ≠ 0) (hw : W.get k l ≠ 0) (hdrop : R.get k l = 0) :
    W.get k l ≤ W.get i j ∧ R.get i j = W.get i j := by
  have hs := pre_sym_of_symmetric W hW
  have hW1 : ∀ a b : Fin n, a.val < b.val → (pre W).W1.get a b = W.get a b := by
    intro a b hab
    rcases pre_cases W with ⟨_, h1, _⟩ | ⟨h2, _, _⟩
    · have hne : a ≠ b := fun e => by rw [e] at hab; exact lt_irrefl _ hab
      simp only [h1, dropLower, zeroDiag, AMat.get_ofFn]
      rw [if_neg (by omega), if_neg hne]
    · rw [hs] at h2; cases h2
  have hij : i ≠ j := fun e => hkept (by rw [e]; exact tp_diag h j)
  have upper : ∀ a b : Fin n, a ≠ b → ∃ c : Fin n × Fin n, c.1.val < c.2.val ∧
      R.get c.1 c.2 = R.get a b ∧ W.get c.1 c.2 = W.get a b := by
    intro a b hab
    rcases Nat.lt_or_ge a.val b.val with hlt | hge
    · exact ⟨(a, b), hlt, rfl, rfl⟩
    · have : b.val < a.val := lt_of_le_of_ne hge fun e => hab (Fin.ext e.symm)
      exact ⟨(b, a), this, tp_symm h hs b a, hW b a⟩
  obtain ⟨a, ha1, ha2, ha3⟩ := upper i j hij
  obtain ⟨b, hb1, hb2, hb3⟩ := upper k l hkl
  have hRa : R.get a.1 a.2 = W.get a.1 a.2 := by
    rcases tp_entries_branch h a.1 a.2 with h0 | ⟨_, h2 | ⟨_, h3⟩⟩
    · rw [ha2] at h0; exact absurd h0 hkept
    · exact h2
    · rw [h3]; exact hW _ _
  have := tp_strongest h a b (by rw [hW1 _ _ ha1, ← hRa, ha2]; exact hkept) (by rw [ha2]; exact hkept)
    (by rw [hW1 _ _ hb1, hb3]; exact hw) (by rw [hb2]; exact hdrop)
  rw [hW1 _ _ ha1, hW1 _ _ hb1, ha3, hb3] at this
  exact ⟨this, by rw [← ha2, hRa, ha3]⟩


/-- **strongest, at full strength on the input, no branch hypothesis**: whenever a cell is kept and an off-diagonal connection of the
input is dropped, the dropped weight is at most the kept one, and the kept cell carries its input weight -/
theorem tp_strongest_input {W : AMat ℚ n} {p : ℚ} {order : List ℕ} {R : AMat ℚ n}
    (h : thresholdProportional W p order = .ok R)
    (i j k l : Fin n) (hkl : k ≠ l) (hkept : R.get i j ≠ 0) (hw : W.get k l ≠ 0) (hdrop : R.get k l = 0) :
    W.get k l ≤ W.get i j ∧ R.get i j = W.get i j := by
  by_cases hs : (pre W).sym = true
  · have hW : ∀ a b : Fin n, W.get a b = W.get b a := by
      intro a b
      by_cases e : a = b
      · subst e; rfl
      · exact (pre_sym_iff W).mp hs a b e
    exact tp_strongest_sym h hW i j k l hkl hkept hw hdrop
  · exact tp_strongest_asym h (by simpa using hs) i j k l hkl hkept hw hdrop

/-! #### the number of kept connections -/

theorem nnz_keepMask {W1 : AMat ℚ n} {sel : List (Fin n × Fin n)} (hp : sel.Perm (support W1)) (en : ℕ) :
    nnzCount (keepMask W1 sel en) = min en (support W1).length := by
  have hnd : sel.Nodup := hp.nodup_iff.mpr (support_nodup W1)
  rw [nnzCount_of_list (hnd.sublist (List.take_sublist en sel)) (keepMask_ne_zero_iff hp en),
    List.length_take, hp.length_eq]

theorem nnz_symmetrize {M : AMat ℚ n} (hup : ∀ i j : Fin n, M.get i j ≠ 0 → i.val < j.val) :
    nnzCount (symmetrize M) = 2 * nnzCount M := by
  unfold nnzCount
  have hsplit : (univ.filter fun c : Fin n × Fin n => (symmetrize M).get c.1 c.2 ≠ 0)
      = (univ.filter fun c : Fin n × Fin n => M.get c.1 c.2 ≠ 0) ∪
        (univ.filter fun c : Fin n × Fin n => M.get c.2 c.1 ≠ 0) := by
    ext c
    simp only [symmetrize, AMat.get_ofFn, mem_filter, mem_univ, true_and, mem_union]
    constructor
    · intro h
      by_contra hc
      push Not at hc
      rw [hc.1, hc.2, add_zero] at h
      exact h rfl
    · rintro (h | h)
      · have : M.get c.2 c.1 = 0 := by
          by_contra h'
          have := hup _ _ h; have := hup _ _ h'; omega
        rw [this, add_zero]; exact h
      · have : M.get c.1 c.2 = 0 := by
          by_contra h'
          have := hup _ _ h; have := hup _ _ h'; omega
        rw [this, zero_add]; exact h
  have hdisj : Disjoint (univ.filter fun c : Fin n × Fin n => M.get c.1 c.2 ≠ 0)
      (univ.filter fun c : Fin n × Fin n => M.get c.2 c.1 ≠ 0) := by
    rw [Finset.disjoint_left]
    intro c h1 h2
    simp only [mem_filter, mem_univ, true_and] at h1 h2
    have := hup _ _ h1; have := hup _ _ h2; omega
  have hcard : (univ.filter fun c : Fin n × Fin n => M.get c.2 c.1 ≠ 0).card
      = (univ.filter fun c : Fin n × Fin n => M.get c.1 c.2 ≠ 0).card := by
    apply Finset.card_equiv (Equiv.prodComm _ _)
    intro c
    simp
  rw [hsplit, Finset.card_union_of_disjoint hdisj, hcard]
  ring

/-- the number of nonzero cells of the result is `ud * min(en, nnz)` with `en = int(round((n²-n)·p/ud))`
and `nnz` the number of nonzero cells found by `np.where` after the preprocessing — in both branches -/
theorem tp_count {W : AMat ℚ n} {p : ℚ} {order : List ℕ} {R : AMat ℚ n}
    (h : thresholdProportional W p order = .ok R) :
    (nnzCount R : ℤ) = (udOf (pre W).sym : ℤ) * min (enOf n p (pre W).sym) ((support (pre W).W1).length : ℤ) := by
  obtain ⟨hp0, _, sel, hsel, _, rfl⟩ := tp_ok h
  have hp := selection_perm hsel
  have hen : ((enNat W p : ℕ) : ℤ) = enOf n p (pre W).sym := Int.toNat_of_nonneg (enOf_nonneg n hp0 _)
  have hmin : ((min (enNat W p) (support (pre W).W1).length : ℕ) : ℤ)
      = min (enOf n p (pre W).sym) ((support (pre W).W1).length : ℤ) := by
    rw [← hen]; push_cast; rfl
  by_cases hs : (pre W).sym = true
  · rw [if_pos hs, nnz_symmetrize, nnz_keepMask hp, ← hmin]
    · simp [udOf, hs]
    · intro i j hij
      have := (keepMask_ne_zero_iff hp (enNat W p) (i, j)).mp hij
      have hin : (i, j) ∈ support (pre W).W1 := hp.mem_iff.mp (List.mem_of_mem_take this)
      exact pre_upper W hs (mem_support.mp hin)
  · rw [if_neg hs, nnz_keepMask hp, ← hmin]
    simp [udOf, hs]

/-- the length of the list found by `np.where` is the number of nonzero cells of the working matrix -/
theorem tp_count_support (W : AMat ℚ n) : (support (pre W).W1).length = nnzCount (pre W).W1 :=
  support_length _

/-! #### totality: for every matrix and every `p` in `[0,1]` some oracle is accepted -/

/-- value at position `k` of the list found by `np.where` -/
def keyAt (W1 : AMat ℚ n) (ind : List (Fin n × Fin n)) (k : ℕ) : ℚ :=
  match ind[k]? with
  | some c => W1.get c.1 c.2
  | none => 0

theorem map_val_filterMap (W1 : AMat ℚ n) (ind : List (Fin n × Fin n)) (order : List ℕ)
    (h : ∀ k ∈ order, k < ind.length) :
    (order.filterMap fun k => ind[k]?).map (val W1) = order.map (keyAt W1 ind) := by
  induction order with
  | nil => rfl
  | cons k t ih =>
    have hk : k < ind.length := h k (List.mem_cons_self ..)
    have ht := ih fun x hx => h x (List.mem_cons_of_mem _ hx)
    simp only [List.filterMap_cons, List.getElem?_eq_getElem hk, List.map_cons, ht, keyAt]

/-- **every admissible argsort order is accepted**: for `p` in `[0,1]`, an `order` that is a permutation of the positions of
`np.where(W)` along which the selected values are non-increasing (whatever it does among ties) makes the model return a result — so the
hypothesis `= .ok R` of the `tp_*` theorems holds for every order NumPy's `argsort(...)[::-1]` can produce -/
theorem tp_ok_of_sorting (W : AMat ℚ n) (p : ℚ) (order : List ℕ) (h0 : 0 ≤ p) (h1 : p ≤ 1)
    (hperm : order.Perm (List.range (support (pre W).W1).length))
    (hsorted : ((order.filterMap fun k => (support (pre W).W1)[k]?).map
      fun c => (pre W).W1.get c.1 c.2).Pairwise (· ≥ ·)) :
    ∃ R, thresholdProportional W p order = .ok R := by
  unfold thresholdProportional
  rw [if_neg (by push Not; exact ⟨h1, h0⟩)]
  simp only [selection, if_pos hperm, if_pos hsorted]
  exact ⟨_, rfl⟩

/-- a descending sorting permutation always exists (e.g. the one a stable sort produces), hence the
success hypothesis of the `tp_*` theorems is satisfiable for every matrix and every `p ∈ [0,1]` -/
theorem tp_total (W : AMat ℚ n) (p : ℚ) (h0 : 0 ≤ p) (h1 : p ≤ 1) :
    ∃ order R, thresholdProportional W p order = .ok R := by
  set ind := support (pre W).W1 with hind
  set key := keyAt (pre W).W1 ind
  set order := (List.range ind.length).mergeSort (fun a b => decide (key a ≥ key b)) with horder
  have hperm : order.Perm (List.range ind.length) := List.mergeSort_perm _ _
  have hsorted : order.Pairwise (fun a b => key a ≥ key b) := by
    have := List.pairwise_mergeSort (le := fun a b => decide (key a ≥ key b))
      (fun a b c hab hbc => by
        simp only [decide_eq_true_eq] at hab hbc ⊢; exact le_trans hbc hab)
      (fun a b => by
        simp only [Bool.or_eq_true, decide_eq_true_eq]; exact le_total _ _)
      (List.range ind.length)
    simpa using this
  have hlt : ∀ k ∈ order, k < ind.length := fun k hk => List.mem_range.mp (hperm.mem_iff.mp hk)
  have hsel : selection ind order = .ok (order.filterMap fun k => ind[k]?) := by
    simp only [selection, if_pos hperm]
  have hpw : ((order.filterMap fun k => ind[k]?).map fun c => (pre W).W1.get c.1 c.2).Pairwise (· ≥ ·) := by
    have := map_val_filterMap (pre W).W1 ind order hlt
    unfold ThreshLemmas.val at this
    rw [this, List.pairwise_map]
    exact hsorted
  refine ⟨order, ?_⟩
  unfold thresholdProportional
  rw [if_neg (by push Not; exact ⟨h1, h0⟩)]
  simp only [← hind, hsel, if_pos hpw]
  exact ⟨_, rfl⟩

/-! #### non-vacuity: a symmetric run (ties, `p·count = 1.5` rounds to 2) and an asymmetric run -/

/-- symmetric, nonzero diagonal, weights 1,2,3 above the diagonal -/
def Wsym : AMat ℚ 3 := AMat.ofFn fun i j => if i = j then 5 else ((i.val + j.val : ℕ) : ℚ)
def Rsym : AMat ℚ 3 := AMat.ofFn fun i j => if i = j ∨ i.val + j.val = 1 then 0 else ((i.val + j.val : ℕ) : ℚ)
/-- asymmetric with a tie (two entries 2) and a sparse support (3 connections, 5 requested) -/
def Wasy : AMat ℚ 3 := AMat.ofFn fun i j => if i.val + 1 = j.val then 2 else if i.val = 2 ∧ j.val = 0 then 7 else 0

theorem run_sym : thresholdProportional Wsym (1 / 2) [2, 1, 0] = .ok Rsym := by decide +kernel
theorem run_asy : thresholdProportional Wasy (1 / 3) [2, 0, 1] =
    .ok (AMat.ofFn fun i j => if i.val = 0 ∧ j.val = 1 then 2 else if i.val = 2 ∧ j.val = 0 then 7 else 0) := by
  decide +kernel
theorem run_sparse : thresholdProportional Wasy (7 / 8) [2, 1, 0] = .ok Wasy := by decide +kernel

example : (nnzCount Rsym : ℤ) = 2 * min 2 3 := by
  have := tp_count run_sym
  have h1 : (pre Wsym).sym = true := by decide +kernel
  have h2 : enOf 3 (1 / 2) true = 2 := by decide +kernel
  have h3 : (support (pre Wsym).W1).length = 3 := by decide +kernel
  rw [h1, h2, h3] at this; exact this
example : (nnzCount Wasy : ℤ) = 1 * min 5 3 := by
  have := tp_count run_sparse
  have h1 : (pre Wasy).sym = false := by decide +kernel
  have h2 : enOf 3 (7 / 8) false = 5 := by decide +kernel
  have h3 : (support (pre Wasy).W1).length = 3 := by decide +kernel
  rw [h1, h2, h3] at this; exact this
example : ∃ R, thresholdProportional Wsym (1 / 2) [2, 1, 0] = .ok R :=
  tp_ok_of_sorting Wsym (1 / 2) [2, 1, 0] (by norm_num) (by norm_num) (by decide +kernel) (by decide +kernel)
example : ∀ i, Rsym.get i i = 0 := tp_diag run_sym
example : ∀ i j, Rsym.get i j = Rsym.get j i := tp_symm_input run_sym (by decide +kernel)
example : (pre Wsym).W1.get 0 1 ≤ (pre Wsym).W1.get 0 2 :=
  tp_strongest run_sym (0, 2) (0, 1) (by decide +kernel) (by decide +kernel) (by decide +kernel) (by decide +kernel)
example := tp_strongest_asym run_asy (by decide +kernel) 0 1 1 2 (by decide) (by decide +kernel) (by decide +kernel)
  (by decide +kernel)
example := tp_entries run_asy 2 0
example := tp_strongest_input run_sym 2 0 1 0 (by decide) (by decide +kernel) (by decide +kernel) (by decide +kernel)
example : (pre Wsym).sym = true ↔ ∀ i j : Fin 3, i ≠ j → Wsym.get i j = Wsym.get j i := pre_sym_iff Wsym
example := tp_strongest_sym run_sym (by decide +kernel) 2 0 1 0 (by decide) (by decide +kernel) (by decide +kernel)
  (by decide +kernel)
example : thresholdProportional Wsym (9 / 8) [] = .error .param := tp_param _ _ _ (Or.inl (by norm_num))
/-- an order that is not descending is refused -/
example : thresholdProportional Wsym (1 / 2) [0, 1, 2] = .error .badDraw := by decide +kernel
/-- an order that is not a permutation is refused -/
example : thresholdProportional Wsym (1 / 2) [2, 2, 0] = .error .badDraw := by decide +kernel

/-! ### threshold_absolute -/

/-- `threshold_absolute` keeps exactly the off-diagonal entries not below the threshold -/
theorem ta_spec (W : AMat ℚ n) (thr : ℚ) (i j : Fin n) :
    (thresholdAbsolute W thr).get i j = if i ≠ j ∧ thr ≤ W.get i j then W.get i j else 0 := by
  simp only [thresholdAbsolute, AMat.map, AMat.get_ofFn, zeroDiag_get]
  by_cases hij : i = j
  · simp [hij]
  · by_cases ht : W.get i j < thr
    · simp [hij, ht]
    · simp [hij, ht, not_lt.mp ht]

example : thresholdAbsolute Wsym 2 = AMat.ofFn fun i j => if i = j ∨ i.val + j.val = 1 then 0 else
    ((i.val + j.val : ℕ) : ℚ) := by decide +kernel

/-! ### binarize -/

theorem binarize_spec (W : AMat ℚ n) (i j : Fin n) :
    (binarize W).get i j = if W.get i j ≠ 0 then 1 else 0 := by
  simp only [binarize, AMat.map, AMat.get_ofFn]
  split_ifs with h
  · rfl
  · push Not at h; exact h

example : (binarize Wasy).get 2 0 = 1 ∧ (binarize Wasy).get 0 2 = 0 := by decide +kernel

/-! ### normalize -/

theorem foldl_max_spec {α : Type} (f : α → ℚ) (l : List α) (m0 : ℚ) :
    m0 ≤ l.foldl (fun m c => if m < f c then f c else m) m0 ∧
    (∀ c ∈ l, f c ≤ l.foldl (fun m c => if m < f c then f c else m) m0) ∧
    (l.foldl (fun m c => if m < f c then f c else m) m0 = m0 ∨
      ∃ c ∈ l, l.foldl (fun m c => if m < f c then f c else m) m0 = f c) := by
  induction l generalizing m0 with
  | nil => simp
  | cons a l ih =>
    simp only [List.foldl_cons, List.mem_cons, forall_eq_or_imp, exists_eq_or_imp]
    obtain ⟨h1, h2, h3⟩ := ih (if m0 < f a then f a else m0)
    have hm : m0 ≤ (if m0 < f a then f a else m0) ∧ f a ≤ (if m0 < f a then f a else m0) := by
      split_ifs with h
      · exact ⟨h.le, le_refl _⟩
      · exact ⟨le_refl _, not_lt.mp h⟩
    refine ⟨hm.1.trans h1, ⟨hm.2.trans h1, h2⟩, ?_⟩
    rcases h3 with h3 | ⟨c, hc, h3⟩
    · by_cases h : m0 < f a
      · right; left; rw [h3, if_pos h]
      · left; rw [h3, if_neg h]
    · right; right; exact ⟨c, hc, h3⟩

/-- `maxAbs` is the largest magnitude -/
theorem maxAbs_spec (W : AMat ℚ n) :
    0 ≤ maxAbs W ∧ (∀ i j, |W.get i j| ≤ maxAbs W) ∧ (maxAbs W = 0 ∨ ∃ i j, maxAbs W = |W.get i j|) := by
  obtain ⟨h1, h2, h3⟩ := foldl_max_spec (fun c : Fin n × Fin n => absR (W.get c.1 c.2)) (cells n) 0
  refine ⟨h1, fun i j => ?_, ?_⟩
  · have := h2 (i, j) (mem_cells _)
    rwa [absR_eq] at this
  · rcases h3 with h3 | ⟨c, _, h3⟩
    · left; exact h3
    · right; exact ⟨c.1, c.2, by rw [← absR_eq]; exact h3⟩

/-- `normalize` scales the largest magnitude to 1 (when some entry is nonzero): the result is defined,
is the input divided by the positive number `maxAbs W`, all magnitudes are ≤ 1 and one of them is 1 -/
theorem normalize_max (W : AMat ℚ n) (hW : ∃ i j, W.get i j ≠ 0) :
    ∃ R, normalize W = some R ∧ 0 < maxAbs W ∧ (∀ i j, R.get i j * maxAbs W = W.get i j) ∧
      (∀ i j, |R.get i j| ≤ 1) ∧ (∃ i j, |R.get i j| = 1) := by
  obtain ⟨h0, hle, hex⟩ := maxAbs_spec W
  obtain ⟨a, b, hab⟩ := hW
  have hpos : 0 < maxAbs W := lt_of_lt_of_le (abs_pos.mpr hab) (hle a b)
  have hne : maxAbs W ≠ 0 := hpos.ne'
  refine ⟨W.map fun w => w / maxAbs W, ?_, hpos, ?_, ?_, ?_⟩
  · simp only [Thresh.normalize, if_neg hne]
  · intro i j; simp only [AMat.map, AMat.get_ofFn]; field_simp
  · intro i j
    simp only [AMat.map, AMat.get_ofFn, abs_div, abs_of_pos hpos]
    exact (div_le_one hpos).mpr (hle i j)
  · rcases hex with h | ⟨i, j, h⟩
    · exact absurd h hne
    · refine ⟨i, j, ?_⟩
      simp only [AMat.map, AMat.get_ofFn, abs_div, abs_of_pos hpos]
      rw [← h]; exact div_self hne

/-- the all-zero matrix is the only input on which `normalize` is undefined (NaN in Python) -/
theorem normalize_nan (W : AMat ℚ n) : normalize W = none ↔ ∀ i j, W.get i j = 0 := by
  constructor
  · intro h i j
    by_contra hne
    obtain ⟨R, hR, _⟩ := normalize_max W ⟨i, j, hne⟩
    rw [h] at hR; cases hR
  · intro h
    obtain ⟨_, _, hex⟩ := maxAbs_spec W
    have : maxAbs W = 0 := by
      rcases hex with h0 | ⟨i, j, h0⟩
      · exact h0
      · rw [h0, h i j, abs_zero]
    simp only [Thresh.normalize, if_pos this]

example : normalize Wasy = some (AMat.ofFn fun i j => if i.val + 1 = j.val then 2 / 7 else
    if i.val = 2 ∧ j.val = 0 then 1 else 0) := by decide +kernel
example := normalize_max Wasy ⟨2, 0, by decide +kernel⟩

/-- a normalised matrix has largest magnitude exactly 1 -/
theorem normalize_maxAbs {W R : AMat ℚ n} (h : normalize W = some R) : maxAbs R = 1 := by
  have hW : ∃ i j, W.get i j ≠ 0 := by
    by_contra hc
    have : normalize W = none := (normalize_nan W).mpr (by
      intro i j; by_contra h0; exact hc ⟨i, j, h0⟩)
    rw [this] at h; simp at h
  obtain ⟨R', hR', _, _, hle, ⟨a, b, hab⟩⟩ := normalize_max W hW
  rw [h] at hR'; cases hR'
  obtain ⟨_, hle', hex⟩ := maxAbs_spec R
  have h1 : 1 ≤ maxAbs R := hab ▸ hle' a b
  rcases hex with h0 | ⟨i, j, hij⟩
  · rw [h0] at h1; norm_num at h1
  · exact le_antisymm (hij ▸ hle i j) h1

/-- `normalize` is idempotent: normalising an already normalised matrix returns it unchanged -/
theorem normalize_idempotent {W R : AMat ℚ n} (h : normalize W = some R) : normalize R = some R := by
  have hm := normalize_maxAbs h
  simp only [Thresh.normalize, hm, one_ne_zero, if_false]
  congr 1
  apply AMat.ext_get
  intro i j
  simp [AMat.map, AMat.get_ofFn]

/-- `normalize` keeps the support and the signs: `binarize` commutes past it -/
theorem binarize_normalize {W R : AMat ℚ n} (h : normalize W = some R) : binarize R = binarize W := by
  have hne : maxAbs W ≠ 0 := by
    intro h0; simp [Thresh.normalize, h0] at h
  have hR : R = W.map fun w => w / maxAbs W := by
    simp only [Thresh.normalize, if_neg hne] at h; exact (Option.some.inj h).symm
  apply AMat.ext_get
  intro i j
  rw [binarize_spec, binarize_spec, hR]
  simp only [AMat.map, AMat.get_ofFn]
  by_cases hw : W.get i j = 0 <;> simp [hw, hne]

example : ∃ R, normalize Wasy = some R ∧ normalize R = some R ∧ maxAbs R = 1 := by
  obtain ⟨R, hR, _⟩ := normalize_max Wasy ⟨0, 1, by decide +kernel⟩
  exact ⟨R, hR, normalize_idempotent hR, normalize_maxAbs hR⟩

/-! ### invert -/

theorem invert_spec (W : AMat ℚ n) (i j : Fin n) :
    (invert W).get i j = if W.get i j ≠ 0 then 1 / W.get i j else 0 := by
  simp only [invert, AMat.map, AMat.get_ofFn]
  by_cases h : W.get i j = 0 <;> simp [h]

/-- `invert` undoes itself -/
theorem invert_involutive (W : AMat ℚ n) : invert (invert W) = W := by
  apply AMat.ext_get
  intro i j
  rw [invert_spec, invert_spec]
  by_cases h : W.get i j = 0
  · simp [h]
  · have : (1 : ℚ) / W.get i j ≠ 0 := one_div_ne_zero h
    simp [h]

example : invert Wasy = AMat.ofFn fun i j => if i.val + 1 = j.val then 1 / 2 else
    if i.val = 2 ∧ j.val = 0 then 1 / 7 else 0 := by decide +kernel

/-! ### weight_conversion -/

/-- `weight_conversion` dispatches to `binarize` / `normalize` / `invert` and rejects every other command -/
theorem weight_conversion_dispatch (W : AMat ℚ n) (wcm : String) :
    (wcm = "binarize" → weightConversion W wcm = .ok (some (binarize W))) ∧
    (wcm = "normalize" → weightConversion W wcm = .ok (normalize W)) ∧
    (wcm = "lengths" → weightConversion W wcm = .ok (some (invert W))) ∧
    (wcm ≠ "binarize" → wcm ≠ "normalize" → wcm ≠ "lengths" →
      weightConversion W wcm = .error "NotImplementedError") := by
  refine ⟨?_, ?_, ?_, ?_⟩
  · rintro rfl; simp [weightConversion]
  · rintro rfl; simp [weightConversion]
  · rintro rfl; simp [weightConversion]
  · intro h1 h2 h3; simp [weightConversion, h1, h2, h3]

example : weightConversion Wasy "invert" = .error "NotImplementedError" :=
  (weight_conversion_dispatch Wasy "invert").2.2.2 (by decide) (by decide) (by decide)

/-! ### further specification of the elementwise utilities -/

/-- `threshold_absolute`: a cell survives iff it is off the diagonal, not below the threshold and nonzero — and keeps its value -/
theorem ta_keeps_iff (W : AMat ℚ n) (thr : ℚ) (i j : Fin n) :
    ((thresholdAbsolute W thr).get i j ≠ 0 ↔ i ≠ j ∧ thr ≤ W.get i j ∧ W.get i j ≠ 0) ∧
    ((thresholdAbsolute W thr).get i j ≠ 0 → (thresholdAbsolute W thr).get i j = W.get i j) := by
  rw [ta_spec]
  by_cases h : i ≠ j ∧ thr ≤ W.get i j
  · rw [if_pos h]
    exact ⟨⟨fun hne => ⟨h.1, h.2, hne⟩, fun hh => hh.2.2⟩, fun _ => rfl⟩
  · rw [if_neg h]
    refine ⟨⟨fun hne => absurd rfl hne, fun hh => absurd (And.intro hh.1 hh.2.1) h⟩, fun hne => absurd rfl hne⟩

theorem ta_diag (W : AMat ℚ n) (thr : ℚ) (i : Fin n) : (thresholdAbsolute W thr).get i i = 0 := by
  rw [ta_spec]; simp

/-- thresholding twice with the same threshold changes nothing more -/
theorem ta_idempotent (W : AMat ℚ n) (thr : ℚ) :
    thresholdAbsolute (thresholdAbsolute W thr) thr = thresholdAbsolute W thr := by
  apply AMat.ext_get
  intro i j
  rw [ta_spec, ta_spec]
  by_cases h : i ≠ j ∧ thr ≤ W.get i j
  · simp [h]
  · simp only [if_neg h]
    split_ifs <;> rfl

/-- a lower threshold keeps every entry a higher one keeps -/
theorem ta_monotone (W : AMat ℚ n) {t₁ t₂ : ℚ} (h : t₁ ≤ t₂) (i j : Fin n)
    (hk : (thresholdAbsolute W t₂).get i j ≠ 0) : (thresholdAbsolute W t₁).get i j = (thresholdAbsolute W t₂).get i j := by
  rw [ta_spec] at hk ⊢
  rw [ta_spec]
  by_cases h2 : i ≠ j ∧ t₂ ≤ W.get i j
  · rw [if_pos h2, if_pos ⟨h2.1, le_trans h h2.2⟩]
  · rw [if_neg h2] at hk; exact absurd rfl hk

theorem binarize_idempotent (W : AMat ℚ n) : binarize (binarize W) = binarize W := by
  apply AMat.ext_get
  intro i j
  rw [binarize_spec, binarize_spec]
  by_cases h : W.get i j = 0 <;> simp [h]

/-- binarizing commutes with inverting the weights: both keep exactly the nonzero cells -/
theorem binarize_invert (W : AMat ℚ n) : binarize (invert W) = binarize W := by
  apply AMat.ext_get
  intro i j
  rw [binarize_spec, binarize_spec, invert_spec]
  by_cases h : W.get i j = 0
  · simp [h]
  · simp [h]

/-! ### the `copy` flag

`withCopy` is the literal shape of every utility (`if copy: W = W.copy()`, work in place on `W`, `return W`); the statements below are
what C17 says about it.  They are tied to /repo by the `callsem` driver lines (argument content after the call, result content and the
`is`-identity, both flags) and by the dynamic predicates of the check. -/

/-- `copy=True`: the argument is untouched, the result is a different object holding `f W` -/
theorem copy_true_spec (f : AMat ℚ n → AMat ℚ n) (W : AMat ℚ n) :
    (withCopy true f W).arg = W ∧ (withCopy true f W).res = f W ∧ (withCopy true f W).aliased = false := ⟨rfl, rfl, rfl⟩

/-- `copy=False`: the returned object is the argument itself and the argument holds the result `f W` -/
theorem copy_false_spec (f : AMat ℚ n → AMat ℚ n) (W : AMat ℚ n) :
    (withCopy false f W).aliased = true ∧ (withCopy false f W).arg = f W ∧ (withCopy false f W).res = f W := ⟨rfl, rfl, rfl⟩

/-- the result content never depends on the flag -/
theorem copy_result_same (f : AMat ℚ n → AMat ℚ n) (W : AMat ℚ n) (c₁ c₂ : Bool) :
    (withCopy c₁ f W).res = (withCopy c₂ f W).res := by
  cases c₁ <;> cases c₂ <;> rfl

/-- the four total utilities, both flags: argument / result / identity as C17 states them -/
theorem elementwise_copy_semantics (W : AMat ℚ n) (thr : ℚ) :
    ((thresholdAbsoluteCall W thr true).arg = W ∧ (thresholdAbsoluteCall W thr true).aliased = false ∧
      (thresholdAbsoluteCall W thr true).res = thresholdAbsolute W thr) ∧
    ((thresholdAbsoluteCall W thr false).aliased = true ∧ (thresholdAbsoluteCall W thr false).arg = thresholdAbsolute W thr) ∧
    ((binarizeCall W true).arg = W ∧ (binarizeCall W true).aliased = false ∧ (binarizeCall W true).res = binarize W) ∧
    ((binarizeCall W false).aliased = true ∧ (binarizeCall W false).arg = binarize W) ∧
    ((invertCall W true).arg = W ∧ (invertCall W true).aliased = false ∧ (invertCall W true).res = invert W) ∧
    ((invertCall W false).aliased = true ∧ (invertCall W false).arg = invert W) :=
  ⟨⟨rfl, rfl, rfl⟩, ⟨rfl, rfl⟩, ⟨rfl, rfl, rfl⟩, ⟨rfl, rfl⟩, ⟨rfl, rfl, rfl⟩, ⟨rfl, rfl⟩⟩

/-- `normalize` with a nonzero entry: `copy=True` leaves the argument, `copy=False` makes the argument hold `W / max|W|` -/
theorem normalize_copy_semantics (W : AMat ℚ n) (hW : ∃ i j, W.get i j ≠ 0) :
    ∃ R, normalize W = some R ∧
      normalizeCall W true = some { arg := W, res := R, aliased := false } ∧
      normalizeCall W false = some { arg := R, res := R, aliased := true } := by
  obtain ⟨R, hR, _⟩ := normalize_max W hW
  exact ⟨R, hR, by simp [normalizeCall, hR, withCopy], by simp [normalizeCall, hR, withCopy]⟩

/-- `threshold_proportional`: a `p` outside `[0,1]` raises before anything is copied or written; otherwise the outcome follows the flag -/
theorem tp_copy_semantics (W : AMat ℚ n) (p : ℚ) (order : List ℕ) :
    ((p > 1 ∨ p < 0) → ∀ c, thresholdProportionalCall W p order c = .error .param) ∧
    (∀ R, thresholdProportional W p order = .ok R →
      thresholdProportionalCall W p order true = .ok { arg := W, res := R, aliased := false } ∧
      thresholdProportionalCall W p order false = .ok { arg := R, res := R, aliased := true }) := by
  constructor
  · intro hp c
    simp [thresholdProportionalCall, tp_param W p order hp, Except.map]
  · intro R hR
    simp [thresholdProportionalCall, hR, Except.map, withCopy]

/-- `weight_conversion` hands the flag to the utility it dispatches to -/
theorem weight_conversion_copy_dispatch (W : AMat ℚ n) (c : Bool) :
    weightConversionCall W "binarize" c = .ok (some (binarizeCall W c)) ∧
    weightConversionCall W "normalize" c = .ok (normalizeCall W c) ∧
    weightConversionCall W "lengths" c = .ok (some (invertCall W c)) ∧
    (∀ wcm, wcm ≠ "binarize" → wcm ≠ "normalize" → wcm ≠ "lengths" → weightConversionCall W wcm c = .error "NotImplementedError") := by
  refine ⟨by simp [weightConversionCall], by simp [weightConversionCall], by simp [weightConversionCall], ?_⟩
  intro wcm h1 h2 h3
  simp [weightConversionCall, h1, h2, h3]

example : (invertCall Wasy true).arg = Wasy ∧ (invertCall Wasy true).aliased = false ∧ (invertCall Wasy false).aliased = true ∧
    (invertCall Wasy false).arg = invert Wasy := ⟨rfl, rfl, rfl, rfl⟩
example : (invertCall Wasy false).arg ≠ Wasy := by
  intro h
  have := congrArg (fun M => M.get 2 0) h
  revert this
  simp only [invertCall, withCopy]
  decide +kernel
example := normalize_copy_semantics Wasy ⟨2, 0, by decide +kernel⟩
example := (tp_copy_semantics Wsym (1 / 2) [2, 1, 0]).2 Rsym run_sym
example : thresholdAbsolute (thresholdAbsolute Wsym 2) 2 = thresholdAbsolute Wsym 2 := ta_idempotent Wsym 2
example : (thresholdAbsolute Wsym 2).get 0 2 ≠ 0 ∧ (thresholdAbsolute Wsym 2).get 0 1 = 0 := by decide +kernel
example : binarize (invert Wasy) = binarize Wasy := binarize_invert Wasy

end Bct.C17
