import BctVerif.Model.CoreIRComp
import Mathlib.Tactic.Ring
import Mathlib.Data.List.Basic

/-!
# C16 (second tie) — link theorem for the source-extracted `get_components`

If the generated obligation `compOk ir` holds, the program extracted from the current source of `get_components` — guard,
`binarize`, `fill_diagonal`, the `edge_map` comprehension, the merge loop, the two result comprehensions — run by the
interpreter of `Model/CoreIRComp.lean`, returns exactly `Comp.getComponents A` (`Comp.scan`, `Comp.unionSets`,
`Comp.labels`: the functions the C16 theorems are about).
-/

namespace Bct.Cores.Comp
open Bct Bct.Comp Bct.CoreIR.Comp

variable {n : ℕ}

/-- the inner loop `for s in union_sets: if not s.isdisjoint(item): item = s.union(item) else: temp.append(s)` is `Comp.scan` -/
theorem inner_loop (ss : List (NSet n)) :
    ∀ (E : Env n) (item : NSet n) (temp : List (NSet n)),
      E.set "item" = some item → E.list "temp" = some temp → E.aliased "temp" = false →
      ∃ E' item' temp', forSets "s" [ .ifNotDisjoint "s" "item" (.assignUnion "item" "s" "item") (.append "temp" "s") ] ss E = some E' ∧
        E'.set "item" = some item' ∧ E'.list "temp" = some temp' ∧ E'.aliased "temp" = false ∧
        E'.list "union_sets" = E.list "union_sets" ∧ E'.aliased "union_sets" = E.aliased "union_sets" ∧
        temp' ++ [item'] = scan ss item temp := by
  induction ss with
  | nil =>
    intro E item temp h1 h2 h3
    exact ⟨E, item, temp, rfl, h1, h2, h3, rfl, rfl, rfl⟩
  | cons s ss ih =>
    intro E item temp h1 h2 h3
    by_cases hd : NSet.disjoint s item = true
    · -- disjoint: temp.append(s)
      have hstep : iexecs [ IStmt.ifNotDisjoint "s" "item" (.assignUnion "item" "s" "item") (.append "temp" "s") ] (E.setSet "s" s)
          = some { (E.setSet "s" s) with list := fun y => if y = "temp" then some (temp ++ [s]) else (E.setSet "s" s).list y } := by
        simp [iexecs, iexec, Env.setSet, h1, h2, h3, hd]
      obtain ⟨E', item', temp', e, g1, g2, g3, g4, g5, g6⟩ := ih
        { (E.setSet "s" s) with list := fun y => if y = "temp" then some (temp ++ [s]) else (E.setSet "s" s).list y }
        item (temp ++ [s]) (by simp [Env.setSet, h1]) (by simp) (by simp [Env.setSet, h3])
      refine ⟨E', item', temp', ?_, g1, g2, g3, ?_, ?_, ?_⟩
      · simp only [forSets, hstep]; exact e
      · rw [g4]; simp [Env.setSet]
      · rw [g5]; simp [Env.setSet]
      · rw [g6]; simp [scan, hd]
    · -- not disjoint: item = s.union(item)
      have hd' : NSet.disjoint s item = false := by simpa using hd
      have hstep : iexecs [ IStmt.ifNotDisjoint "s" "item" (.assignUnion "item" "s" "item") (.append "temp" "s") ] (E.setSet "s" s)
          = some ((E.setSet "s" s).setSet "item" (NSet.union s item)) := by
        simp [iexecs, iexec, Env.setSet, h1, hd']
      obtain ⟨E', item', temp', e, g1, g2, g3, g4, g5, g6⟩ := ih ((E.setSet "s" s).setSet "item" (NSet.union s item))
        (NSet.union s item) temp (by simp [Env.setSet]) (by simp [Env.setSet, h2]) (by simp [Env.setSet, h3])
      refine ⟨E', item', temp', ?_, g1, g2, g3, ?_, ?_, ?_⟩
      · simp only [forSets, hstep]; exact e
      · rw [g4]; simp [Env.setSet]
      · rw [g5]; simp [Env.setSet]
      · rw [g6]; simp [scan, hd']

/-- one pass of `for item in edge_map`: `union_sets` becomes `scan union_sets item []` -/
theorem outer_body (E : Env n) (item : NSet n) (sets : List (NSet n))
    (h1 : E.set "item" = some item) (h2 : E.list "union_sets" = some sets) :
    ∃ E', oexecs refBody E = some E' ∧ E'.list "union_sets" = some (scan sets item []) := by
  obtain ⟨E1, item', temp', e, g1, g2, g3, g4, _, g6⟩ := inner_loop sets (E.setList "temp" []) item []
    (by simp [Env.setList, h1]) (by simp [Env.setList]) (by simp [Env.setList])
  have hl : (E.setList "temp" []).list "union_sets" = some sets := by simp [Env.setList, h2]
  refine ⟨?E', ?h1, ?h2⟩
  case h1 =>
    simp only [refBody, oexecs, oexec, hl, IStmt.appendsTo, List.any_cons, List.any_nil, Bool.or_false, e]
    simp [iexec, g1, g2, g3]
    rfl
  case h2 =>
    simp [g6]

theorem outer_loop (edges : List (NSet n)) :
    ∀ (E : Env n) (sets : List (NSet n)), E.list "union_sets" = some sets →
      ∃ E', forItems "item" refBody edges E = some E' ∧
        E'.list "union_sets" = some (edges.foldl (fun sets e => scan sets e []) sets) := by
  induction edges with
  | nil => intro E sets h; exact ⟨E, rfl, h⟩
  | cons e es ih =>
    intro E sets h
    obtain ⟨E1, e1, g1⟩ := outer_body (E.setSet "item" e) e sets (by simp [Env.setSet]) (by simp [Env.setSet, h])
    obtain ⟨E2, e2, g2⟩ := ih E1 _ g1
    exact ⟨E2, by simp only [forItems, e1, e2], g2⟩

theorem filterMap_ite {α β : Type} (p : α → Prop) [DecidablePred p] (f : α → β) (l : List α) :
    l.filterMap (fun x => if p x then some (f x) else none) = (l.filter fun x => decide (p x)).map f := by
  induction l with
  | nil => rfl
  | cons a l ih => by_cases h : p a <;> simp [List.filterMap_cons, List.filter_cons, h, ih]

theorem edgeMap_ref (A : AMat ℤ n) :
    edgeMap refIR (AMat.ofFn fun i j => if i = j then (1 : ℤ) else if A.get i j ≠ 0 then 1 else A.get i j)
      = some ((edgeList A).map fun e => NSet.pair e.1 e.2) := by
  simp only [edgeMap, refIR, show ("u" = "v") = False by decide, if_false, List.all_cons, List.all_nil, beq_self_eq_true,
    Bool.or_true, Bool.true_or, Bool.and_true, Bool.and_self, if_true, show ("v" = "u") = False by decide, decide_true,
    decide_false, Bool.or_false, Bool.false_or, AMat.get_ofFn, Option.some.injEq, edgeList, List.map_flatMap, List.map_map]
  congr 1; funext o
  rw [filterMap_ite (fun i => (if o = i then (1 : ℤ) else if A.get o i ≠ 0 then 1 else A.get o i) = 1) (fun i => NSet.pair o i)]
  congr 1
  apply List.filter_congr
  intro i _
  by_cases h1 : o = i
  · simp [h1]
  · by_cases h2 : A.get o i = 0 <;> simp [h1, h2]

/-- **Link, `get_components`.**  If the generated obligation holds, the extracted routine returns `BCTParamError` on a
non-symmetric matrix and otherwise exactly the labels and sizes of the model: `Comp.labels (Comp.unionSets A)` and
`(Comp.unionSets A).map NSet.size` — for every size and every integer matrix. -/
theorem link_get_components (ir : CompIR) (hok : compOk ir = true) (A : AMat ℤ n) :
    run ir A = if isSymm A then .ok (labels (unionSets A), (unionSets A).map NSet.size) else .error "BCTParamError" := by
  have hir : ir = refIR := by simpa [compOk] using hok
  subst hir
  by_cases hs : isSymm A = true
  · obtain ⟨E, e, g⟩ := outer_loop ((edgeList A).map fun e => NSet.pair e.1 e.2)
      ({ set := fun _ => none, list := fun y => if y = "union_sets" then some [] else none, aliased := fun _ => false } : Env n)
      [] (by simp)
    have hem := edgeMap_ref A
    simp only [run]
    simp only [show refIR.guardL = "A" from rfl, show refIR.guardR = "A" from rfl, show refIR.param = "A" from rfl,
      show refIR.binArg = "A" from rfl, show refIR.binTarget = "A" from rfl, show refIR.dimOf = "A" from rfl,
      show refIR.diagMat = "A" from rfl, show refIR.emMat = "A" from rfl, show refIR.ob = "n" from rfl,
      show refIR.ib = "n" from rfl, show refIR.cBound = "n" from rfl, show refIR.dim = "n" from rfl,
      show refIR.diagVal = 1 from rfl, show refIR.loopOver = "edge_map" from rfl, show refIR.em = "edge_map" from rfl,
      show refIR.sets = "union_sets" from rfl, show refIR.item = "item" from rfl, show refIR.body = refBody from rfl,
      show refIR.cLen = "union_sets" from rfl, show refIR.cList = "union_sets" from rfl, show refIR.cIdx = "i" from rfl,
      show refIR.cIdx2 = "i" from rfl, show refIR.cIdx3 = "i" from rfl, show refIR.cMem = "v" from rfl,
      show refIR.cNode = "v" from rfl, show refIR.sVar = "s" from rfl, show refIR.sVar2 = "s" from rfl,
      show refIR.sList = "union_sets" from rfl, show refIR.comps = "comps" from rfl, show refIR.sizes = "comp_sizes" from rfl,
      show refIR.ret = ["comps", "comp_sizes"] from rfl, show refIR.cAdd = 1 from rfl, show refIR.exc = "BCTParamError" from rfl,
      and_self, if_true, hs, Bool.not_true, Bool.false_eq_true, if_false, hem, e, g]
    simp only [show ("v" ≠ "i") = True by decide, show ("comps" ≠ "comp_sizes") = True by decide, and_self, if_true,
      List.foldl_map, labels, unionSets]
  · have hs' : isSymm A = false := by simpa using hs
    simp [run, refIR, hs']

/-- the same statement against `Comp.getComponents` itself -/
theorem link_get_components_model (ir : CompIR) (hok : compOk ir = true) (A : AMat ℤ n) (r : List ℕ × List ℕ) :
    run ir A = .ok r ↔ getComponents A = .ok r := by
  rw [link_get_components ir hok, getComponents]
  by_cases hs : isSymm A = true <;> simp [hs]

/-- **Link, `number_of_components`.**  With the extracted `get_components` as the callee, the routine returns
`Comp.numberOfComponents A` (the length of the size list), and raises `BCTParamError` exactly when the model fails. -/
theorem link_number_of_components (ir : NumIR) (hok : numOk ir = true) (gc : CompIR) (hgc : compOk gc = true) (A : AMat ℤ n) :
    runNum ir gc A = match numberOfComponents A with
      | .ok k => .ok k
      | .error _ => .error "BCTParamError" := by
  have hir : ir = refNum := by simpa [numOk] using hok
  subst hir
  have hc : (refNum.arg = refNum.param ∧ refNum.lenOf = refNum.sizes ∧ refNum.discard ≠ refNum.sizes ∧ refNum.callee = "get_components") := by
    decide
  simp only [runNum, if_pos hc, link_get_components gc hgc A, numberOfComponents, getComponents]
  by_cases hs : isSymm A = true
  · simp [hs, Except.map]
  · have hs' : isSymm A = false := by simpa using hs
    simp [hs', Except.map]

example : numOk refNum = true := by decide
/-- counting the labels instead of the sizes is rejected -/
example : numOk { refNum with lenOf := "_" } = false := by decide

example : compOk refIR = true := by decide
/-- `s.union(item)` assigned to the wrong name is rejected -/
example : compOk { refIR with body :=
    [ .listInit "temp",
      .forIn "s" "union_sets" [ .ifNotDisjoint "s" "item" (.assignUnion "s" "s" "item") (.append "temp" "s") ],
      .append "temp" "item", .assignList "union_sets" "temp" ] } = false := by decide
/-- a merge loop that forgets `temp.append(item)` is rejected -/
example : compOk { refIR with body := refIR.body.eraseIdx 2 } = false := by decide

end Bct.Cores.Comp
