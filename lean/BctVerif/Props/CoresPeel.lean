import BctVerif.Model.CoreIRPeel
import Mathlib.Tactic.Ring
import Mathlib.Tactic.Linarith
import Mathlib.Data.Rat.Defs
import Mathlib.Algebra.BigOperators.Group.List.Basic

/-!
# C15 (second tie) — link theorems for the source-extracted k-core / s-core peeling programs

`translate/cores.py` re-extracts every statement of `kcore_bu`, `kcore_bd`, `score_wu`, of the degree helpers they call
and of `kcoreness_centrality_bu/_bd` into `BctVerif/Gen/CoresPeel.lean`.  This file proves what a passed obligation means:
the extracted program, run by the interpreter of `Model/CoreIRPeel.lean`, computes exactly `Core.peelLoop` with the
model's degree function (`degBu` / `degBd` / `strWu`), peel test and size expression — for every matrix, every level,
every amount of fuel (`peelLoopOpt` is `peelLoop` with "fuel exhausted" made visible; `peelLoopOpt_some`).
-/

namespace Bct.Cores.Peel
open Bct Bct.Core Bct.CoreIR.Peel

variable {n : ℕ}

/-! ### the model loop with fuel exhaustion visible -/

def peelLoopOpt {α β : Type} (z : α) (deg : AMat α n → Fin n → β) (small pos : β → Bool) :
    ℕ → AMat α n → ℕ → List (List (Fin n)) → List (List ℕ) → Option (Out α n)
  | 0, _, _, _, _ => none
  | fuel + 1, M, it, ord, lev =>
    let dead : Vector Bool n := Vector.ofFn fun v => small (deg M v)
    let ff := (List.finRange n).filter fun v => dead[v]
    if ff.isEmpty then some ⟨M, countPos deg pos M, ord, lev⟩
    else peelLoopOpt z deg small pos fuel (zeroOut z M dead) (it + 1) (ord ++ [ff]) (lev ++ [ff.map fun _ => it + 1])

/-- whenever the visible-fuel loop returns, it returns what `Core.peelLoop` (the function the C15 theorems are about)
returns on the same fuel -/
theorem peelLoopOpt_some {α β : Type} (z : α) (deg : AMat α n → Fin n → β) (small pos : β → Bool) :
    ∀ fuel M it ord lev out, peelLoopOpt z deg small pos fuel M it ord lev = some out →
      peelLoop z deg small pos fuel M it ord lev = out := by
  intro fuel
  induction fuel with
  | zero => intro M it ord lev out h; simp [peelLoopOpt] at h
  | succ f ih =>
    intro M it ord lev out h
    simp only [peelLoopOpt] at h
    simp only [peelLoop]
    split at h
    · rename_i he
      simp only [he, if_true]
      exact Option.some.inj h
    · rename_i he
      simp only [he]
      exact ih _ _ _ _ _ h

/-! ### embeddings and sums -/

def embI (M : AMat ℤ n) : AMat V n := M.map V.int
def embR (M : AMat ℚ n) : AMat V n := M.map V.rat

@[simp] theorem map_get {α β : Type} (f : α → β) (A : AMat α n) (i j : Fin n) : (A.map f).get i j = f (A.get i j) := by
  simp [AMat.map]
@[simp] theorem embI_get (M : AMat ℤ n) (i j : Fin n) : (embI M).get i j = V.int (M.get i j) := by simp [embI]
@[simp] theorem embR_get (M : AMat ℚ n) (i j : Fin n) : (embR M).get i j = V.rat (M.get i j) := by simp [embR]

theorem foldr_int {α : Type} (f : α → ℤ) (l : List α) (z : ℤ) :
    (l.map fun w => V.int (f w)).foldr V.add (V.int z) = V.int ((l.map f).sum + z) := by
  induction l with
  | nil => simp
  | cons a l ih => simp [ih, V.add, add_assoc]

theorem sumV_int {α : Type} (f : α → ℤ) (l : List α) : sumV (l.map fun w => V.int (f w)) = V.int (l.map f).sum := by
  cases l with
  | nil => simp [sumV]
  | cons a l =>
    have := foldr_int f (a :: l) 0
    simp only [List.map_cons, add_zero] at this
    simp only [List.map_cons, sumV, V.zeroLike]
    exact this

theorem foldr_rat {α : Type} (f : α → ℚ) (l : List α) (z : ℚ) :
    (l.map fun w => V.rat (f w)).foldr V.add (V.rat z) = V.rat ((l.map f).sum + z) := by
  induction l with
  | nil => simp
  | cons a l ih => simp [ih, V.add, add_assoc]

theorem sumV_rat {α : Type} (f : α → ℚ) (l : List α) (h : l ≠ []) : sumV (l.map fun w => V.rat (f w)) = V.rat (l.map f).sum := by
  cases l with
  | nil => exact absurd rfl h
  | cons a l =>
    have := foldr_rat f (a :: l) 0
    simp only [List.map_cons, add_zero] at this
    simp only [List.map_cons, sumV, V.zeroLike]
    exact this

theorem finRange_ne_nil (v : Fin n) : List.finRange n ≠ [] := by
  intro h
  have : v ∈ List.finRange n := List.mem_finRange v
  rw [h] at this
  exact absurd this (List.not_mem_nil)

theorem cast_sum_ite {α : Type} (c : α → Prop) [DecidablePred c] (l : List α) :
    (((l.map fun w => if c w then 1 else 0).sum : ℕ) : ℤ) = (l.map fun w => if c w then (1 : ℤ) else 0).sum := by
  induction l with
  | nil => simp
  | cons a l ih => simp only [List.map_cons, List.sum_cons, Nat.cast_add, ih]; split <;> simp

theorem cast_sum_map {α : Type} (f : α → ℕ) (l : List α) : (((l.map f).sum : ℕ) : ℤ) = (l.map fun w => (f w : ℤ)).sum := by
  induction l with
  | nil => simp
  | cons a l ih => simp only [List.map_cons, List.sum_cons, Nat.cast_add, ih]

theorem sum_add_map {α : Type} (f g : α → ℤ) (l : List α) :
    (l.map fun w => f w + g w).sum = (l.map f).sum + (l.map g).sum := by
  induction l with
  | nil => simp
  | cons a l ih => simp only [List.map_cons, List.sum_cons, ih]; ring

/-- the primitive `MEx.binarize` of this IR is the cell function of `binarize` as tied in family `util`
(`Thresh.binarize W = W.map fun w => if w ≠ 0 then 1 else w`; the generated file carries `binarize`'s own obligation) -/
theorem bin_rat (q : ℚ) : V.bin (.rat q) = .rat (if q ≠ 0 then 1 else q) := rfl
theorem bin_int (z : ℤ) : V.bin (.int z) = .int (if z ≠ 0 then 1 else z) := rfl

/-! ### the helpers -/

theorem helper_degrees_und (M : AMat ℤ n) :
    runHelper refDegreesUnd (embI M) = some [Vector.ofFn fun v => V.int (degBu M v)] := by
  simp only [runHelper, refDegreesUnd, execsSimple, execSimple, evalM, Env.set, if_true, Option.map_some, List.map_cons,
    List.map_nil, evalV]
  congr 2
  apply Vector.ext; intro i hi
  simp only [Vector.getElem_ofFn, lane, if_true, map_get, embI_get, V.bin, Nat.zero_le]
  rw [sumV_int (fun w => if M.get w ⟨i, hi⟩ ≠ 0 then (1 : ℤ) else M.get w ⟨i, hi⟩)]
  simp only [degBu, cast_sum_ite]
  congr 2
  apply List.map_congr_left; intro w _
  by_cases h : M.get w ⟨i, hi⟩ = 0 <;> simp [h]

theorem helper_degrees_dir (M : AMat ℤ n) :
    runHelper refDegreesDir (embI M) =
      some [Vector.ofFn fun v => V.int ((List.finRange n).map fun w => if M.get w v ≠ 0 then (1 : ℤ) else 0).sum,
            Vector.ofFn fun v => V.int ((List.finRange n).map fun w => if M.get v w ≠ 0 then (1 : ℤ) else 0).sum,
            Vector.ofFn fun v => V.int (degBd M v)] := by
  have bincell : ∀ z : ℤ, (if z ≠ 0 then (1 : ℤ) else z) = if z ≠ 0 then 1 else 0 := by
    intro z; by_cases h : z = 0 <;> simp [h]
  simp [runHelper, refDegreesDir, execsSimple, execSimple, evalM, Env.set, evalV, lane, V.bin, bincell]
  have e0 : ∀ v, sumV ((List.finRange n).map fun w => V.int (if M.get w v = 0 then 0 else 1)) =
      V.int ((List.finRange n).map fun w => if M.get w v = 0 then (0 : ℤ) else 1).sum :=
    fun v => sumV_int (fun w => if M.get w v = 0 then (0 : ℤ) else 1) _
  have e1 : ∀ v, sumV ((List.finRange n).map fun w => V.int (if M.get v w = 0 then 0 else 1)) =
      V.int ((List.finRange n).map fun w => if M.get v w = 0 then (0 : ℤ) else 1).sum :=
    fun v => sumV_int (fun w => if M.get v w = 0 then (0 : ℤ) else 1) _
  simp only [e0, e1, V.add, true_and]
  apply Vector.ext; intro i hi
  simp only [Vector.getElem_ofFn, degBd]
  rw [← sum_add_map]
  congr 1
  rw [cast_sum_map]
  congr 1
  apply List.map_congr_left; intro w _
  by_cases h1 : M.get w ⟨i, hi⟩ = 0 <;> by_cases h2 : M.get ⟨i, hi⟩ w = 0 <;> simp [h1, h2]

theorem helper_strengths_und (M : AMat ℚ n) :
    runHelper refStrengthsUnd (embR M) = some [Vector.ofFn fun v => V.rat (strWu M v)] := by
  simp only [runHelper, refStrengthsUnd, execsSimple, evalM, Env.set, if_true, List.map_cons, List.map_nil, evalV]
  congr 2
  apply Vector.ext; intro i hi
  simp only [Vector.getElem_ofFn, lane, if_true, embR_get, Nat.zero_le]
  rw [sumV_rat (fun w => M.get w ⟨i, hi⟩) _ (finRange_ne_nil ⟨i, hi⟩)]
  rfl

theorem lookup_und : lookupHelper refHelpers "degrees_und" = some refDegreesUnd := by decide
theorem lookup_dir : lookupHelper refHelpers "degrees_dir" = some refDegreesDir := by decide
theorem lookup_str : lookupHelper refHelpers "strengths_und" = some refStrengthsUnd := by decide

/-! ### the peel test and the size expression -/

@[simp] theorem bool_beq_true (b : Bool) : (V.bool b == V.bool true) = b := by cases b <;> decide

theorem trueNodes_small_int (E : Env n) (dn kn : String) (d : Fin n → ℕ) (k : ℕ)
    (hd : E dn = some (.vec (Vector.ofFn fun v => V.int (d v)))) (hk : E kn = some (.scal (.int k))) :
    trueNodes E (peelCond dn kn) = some ((List.finRange n).filter fun v => smallNat k (d v)) := by
  have hv : ∀ v, evalV E v (peelCond dn kn) = V.bool (smallNat k (d v)) := by
    intro v
    simp [peelCond, evalV, hd, hk, V.lt, V.land, smallNat, Bool.and_comm]
  simp [trueNodes, hv]

theorem trueNodes_pos_int (E : Env n) (dn : String) (d : Fin n → ℕ)
    (hd : E dn = some (.vec (Vector.ofFn fun v => V.int (d v)))) :
    trueNodes E (.lt (.lit 0) (.ref dn)) = some ((List.finRange n).filter fun v => posNat (d v)) := by
  have hv : ∀ v, evalV E v (.lt (.lit 0) (.ref dn)) = V.bool (posNat (d v)) := by
    intro v
    simp [evalV, hd, V.lt, posNat]
  simp [trueNodes, hv]

theorem trueNodes_small_rat (E : Env n) (dn kn : String) (d : Fin n → ℚ) (s : ℚ)
    (hd : E dn = some (.vec (Vector.ofFn fun v => V.rat (d v)))) (hk : E kn = some (.scal (.rat s))) :
    trueNodes E (peelCond dn kn) = some ((List.finRange n).filter fun v => smallRat s (d v)) := by
  have hv : ∀ v, evalV E v (peelCond dn kn) = V.bool (smallRat s (d v)) := by
    intro v
    simp [peelCond, evalV, hd, hk, V.lt, V.land, smallRat, Bool.and_comm]
  simp [trueNodes, hv]

theorem trueNodes_pos_rat (E : Env n) (dn : String) (d : Fin n → ℚ)
    (hd : E dn = some (.vec (Vector.ofFn fun v => V.rat (d v)))) :
    trueNodes E (.lt (.lit 0) (.ref dn)) = some ((List.finRange n).filter fun v => posRat (d v)) := by
  have hv : ∀ v, evalV E v (.lt (.lit 0) (.ref dn)) = V.bool (posRat (d v)) := by
    intro v
    simp [evalV, hd, V.lt, posRat]
  simp [trueNodes, hv]

/-- `M[ff, :] = 0; M[:, ff] = 0` for `ff = np.where(dead)` is `Core.zeroOut` -/
theorem zero_rows_cols_int (M : AMat ℤ n) (dead : Vector Bool n) (ff : List (Fin n))
    (hff : ((List.finRange n).filter fun v => dead[v]) = ff) :
    (AMat.ofFn fun i j =>
      if j ∈ ff then (if i ∈ ff then (V.int (M.get i j)).store 0 else V.int (M.get i j)).store 0
      else if i ∈ ff then (V.int (M.get i j)).store 0 else V.int (M.get i j)) = embI (zeroOut 0 M dead) := by
  subst hff
  apply AMat.ext_get; intro i j
  simp only [AMat.get_ofFn, embI_get, zeroOut, List.mem_filter, List.mem_finRange, true_and, V.store]
  by_cases hi : dead[i] = true <;> by_cases hj : dead[j] = true <;> simp [hi, hj]

theorem zero_rows_cols_rat (M : AMat ℚ n) (dead : Vector Bool n) (ff : List (Fin n))
    (hff : ((List.finRange n).filter fun v => dead[v]) = ff) :
    (AMat.ofFn fun i j =>
      if j ∈ ff then (if i ∈ ff then (V.rat (M.get i j)).store 0 else V.rat (M.get i j)).store 0
      else if i ∈ ff then (V.rat (M.get i j)).store 0 else V.rat (M.get i j)) = embR (zeroOut 0 M dead) := by
  subst hff
  apply AMat.ext_get; intro i j
  simp only [AMat.get_ofFn, embR_get, zeroOut, List.mem_filter, List.mem_finRange, true_and, V.store]
  by_cases hi : dead[i] = true <;> by_cases hj : dead[j] = true <;> simp [hi, hj]

/-! ### `kcore_bu` / `kcore_bd`: one pass of `while True` -/

/-- the environment holds the loop state of the model under the source's names -/
structure KSt (E : Env n) (M : AMat ℤ n) (k : ℕ) (p : Bool) (it : ℕ) (ord : List (List (Fin n))) (lev : List (List ℕ)) : Prop where
  hM : E "CIJkcore" = some (.mat (embI M))
  hk : E "k" = some (.scal (.int k))
  hp : E "peel" = some (.flag p)
  hit : E "iter" = some (.nat it)
  hord : p = true → E "peelorder" = some (.list (ord.map Item.idxs))
  hlev : p = true → E "peellevel" = some (.list (lev.map Item.levels))

/-- what the degree call of the loop body does: binds `deg` to the model's degree vector, leaves the loop state alone -/
def CallOk (call : Stmt) (deg : AMat ℤ n → Fin n → ℕ) : Prop :=
  ∀ (E : Env n) (M : AMat ℤ n), E "CIJkcore" = some (.mat (embI M)) →
    ∃ E', exec refHelpers E call = some (E', false) ∧ E' "deg" = some (.vec (Vector.ofFn fun v => V.int (deg M v))) ∧
      E' "CIJkcore" = E "CIJkcore" ∧ E' "k" = E "k" ∧ E' "peel" = E "peel" ∧ E' "iter" = E "iter" ∧
      E' "peelorder" = E "peelorder" ∧ E' "peellevel" = E "peellevel"

theorem kcore_iter (call : Stmt) (deg : AMat ℤ n → Fin n → ℕ) (hc : CallOk (n := n) call deg)
    (E : Env n) (M : AMat ℤ n) (k : ℕ) (p : Bool) (it : ℕ) (ord : List (List (Fin n))) (lev : List (List ℕ))
    (h : KSt E M k p it ord lev) :
    ∃ E', execs refHelpers (kcoreBody call) E =
        some (E', ((List.finRange n).filter fun v => (Vector.ofFn fun v => smallNat k (deg M v))[v]).isEmpty) ∧
      E' "deg" = some (.vec (Vector.ofFn fun v => V.int (deg M v))) ∧
      (if ((List.finRange n).filter fun v => (Vector.ofFn fun v => smallNat k (deg M v))[v]).isEmpty then KSt E' M k p it ord lev
       else KSt E' (zeroOut 0 M (Vector.ofFn fun v => smallNat k (deg M v))) k p (it + 1)
          (ord ++ [(List.finRange n).filter fun v => (Vector.ofFn fun v => smallNat k (deg M v))[v]])
          (lev ++ [((List.finRange n).filter fun v => (Vector.ofFn fun v => smallNat k (deg M v))[v]).map fun _ => it + 1])) := by
  obtain ⟨E1, e1, hdeg, c1, c2, c3, c4, c5, c6⟩ := hc E M h.hM
  have hM := c1.trans h.hM
  have hk := c2.trans h.hk
  have hp := c3.trans h.hp
  have hit := c4.trans h.hit
  have htn := trueNodes_small_int E1 "deg" "k" (deg M) k hdeg hk
  have hff : ((List.finRange n).filter fun v => (Vector.ofFn fun v => smallNat k (deg M v))[v])
      = (List.finRange n).filter fun v => smallNat k (deg M v) := by
    apply List.filter_congr; intro v _; simp
  rw [hff]
  generalize hffd : ((List.finRange n).filter fun v => smallNat k (deg M v)) = ff at htn
  by_cases he : ff.isEmpty = true
  · refine ⟨E1.set "ff" (.idx ff), ?_, ?_, ?_⟩
    · simp [kcoreBody, execs, e1, exec, htn, Env.set, he]
    · simp [Env.set, hdeg]
    · simp only [he, if_true]
      exact ⟨by simp [Env.set, hM], by simp [Env.set, hk], by simp [Env.set, hp], by simp [Env.set, hit],
        fun hp' => by simp [Env.set, c5, h.hord hp'], fun hp' => by simp [Env.set, c6, h.hlev hp']⟩
  · have he' : ff.isEmpty = false := by simpa using he
    have hz := zero_rows_cols_int M (Vector.ofFn fun v => smallNat k (deg M v)) ff (hff.trans hffd)
    cases p with
    | false =>
      refine ⟨?E', ?h1, ?h2, ?h3⟩
      case h1 =>
        simp [kcoreBody, execs, e1, exec, htn, Env.set, he', hM, hit, hp]
        rfl
      case h2 => simp [Env.set, hdeg]
      case h3 =>
        simp only [he', Bool.false_eq_true, if_false]
        exact ⟨by simp [Env.set, hz], by simp [Env.set, hk], by simp [Env.set, hp], by simp [Env.set],
          fun hp' => by simp at hp', fun hp' => by simp at hp'⟩
    | true =>
      have ho := c5.trans (h.hord rfl)
      have hl := c6.trans (h.hlev rfl)
      refine ⟨?E2, ?g1, ?g2, ?g3⟩
      case g1 =>
        simp [kcoreBody, execs, e1, exec, htn, Env.set, he', hM, hit, hp, ho, hl]
        rfl
      case g2 => simp [Env.set, hdeg]
      case g3 =>
        simp only [he', Bool.false_eq_true, if_false]
        exact ⟨by simp [Env.set, hz], by simp [Env.set, hk], by simp [Env.set, hp], by simp [Env.set],
          fun _ => by simp [Env.set], fun _ => by simp [Env.set]⟩

theorem callOk_bu : CallOk (n := n) (.call ["deg"] "degrees_und" (.ref "CIJkcore")) degBu := by
  intro E M hM
  refine ⟨E.set "deg" (.vec (Vector.ofFn fun v => V.int (degBu M v))), ?_, ?_, ?_, ?_, ?_, ?_, ?_, ?_⟩
  · simp [exec, lookup_und, evalM, hM, helper_degrees_und, bindAll]
  all_goals simp [Env.set]

theorem callOk_bd : CallOk (n := n) (.call ["id", "od", "deg"] "degrees_dir" (.ref "CIJkcore")) degBd := by
  intro E M hM
  refine ⟨((E.set "id" (.vec (Vector.ofFn fun v => V.int ((List.finRange n).map fun w => if M.get w v ≠ 0 then (1 : ℤ) else 0).sum))).set
      "od" (.vec (Vector.ofFn fun v => V.int ((List.finRange n).map fun w => if M.get v w ≠ 0 then (1 : ℤ) else 0).sum))).set
      "deg" (.vec (Vector.ofFn fun v => V.int (degBd M v))), ?_, ?_, ?_, ?_, ?_, ?_, ?_, ?_⟩
  · simp [exec, lookup_dir, evalM, hM, helper_degrees_dir, bindAll]
  all_goals simp [Env.set]

/-! ### the loop, the prologue, the size expression -/

theorem kcore_loop (call : Stmt) (deg : AMat ℤ n → Fin n → ℕ) (hc : CallOk (n := n) call deg) (k : ℕ) (p : Bool) :
    ∀ (fuel : ℕ) (E : Env n) (M : AMat ℤ n) (it : ℕ) (ord : List (List (Fin n))) (lev : List (List ℕ)),
      KSt E M k p it ord lev →
      match peelLoopOpt 0 deg (smallNat k) posNat fuel M it ord lev with
      | none => whileTrue refHelpers (kcoreBody call) fuel E = none
      | some out => ∃ E' it', whileTrue refHelpers (kcoreBody call) fuel E = some E' ∧
          KSt E' out.M k p it' out.order out.level ∧
          E' "deg" = some (.vec (Vector.ofFn fun v => V.int (deg out.M v))) ∧ out.kn = countPos deg posNat out.M := by
  intro fuel
  induction fuel with
  | zero => intro E M it ord lev _; simp [peelLoopOpt, whileTrue]
  | succ f ih =>
    intro E M it ord lev h
    obtain ⟨E1, e1, hd, hst⟩ := kcore_iter call deg hc E M k p it ord lev h
    simp only [peelLoopOpt, whileTrue, e1]
    by_cases he : ((List.finRange n).filter fun v => (Vector.ofFn fun v => smallNat k (deg M v))[v]).isEmpty = true
    · simp only [he, if_true] at hst ⊢
      exact ⟨E1, it, rfl, hst, hd, trivial⟩
    · have he' : ((List.finRange n).filter fun v => (Vector.ofFn fun v => smallNat k (deg M v))[v]).isEmpty = false := by
        simpa using he
      simp only [he', Bool.false_eq_true, if_false] at hst ⊢
      exact ih E1 _ _ _ _ hst

theorem kcore_pre (E0 : Env n) (A : AMat ℤ n) (k : ℕ) (p : Bool)
    (hA : E0 "CIJ" = some (.mat (embI A))) (hk : E0 "k" = some (.scal (.int k))) (hp : E0 "peel" = some (.flag p)) :
    ∃ E1, execs refHelpers [.ifFlag "peel" (.initLists ["peelorder", "peellevel"]), .setNat "iter" 0,
        .bindM "CIJkcore" (.copy (.ref "CIJ"))] E0 = some (E1, false) ∧ KSt E1 A k p 0 [] [] := by
  cases p with
  | false =>
    refine ⟨?E1, ?h1, ?h2⟩
    case h1 => simp [execs, exec, hp, evalM, Env.set, hA]; rfl
    case h2 => exact ⟨by simp [Env.set], by simp [Env.set, hk], by simp [Env.set, hp], by simp [Env.set],
      fun h => by simp at h, fun h => by simp at h⟩
  | true =>
    refine ⟨?E2, ?g1, ?g2⟩
    case g1 => simp [execs, exec, hp, evalM, Env.set, hA]; rfl
    case g2 => exact ⟨by simp [Env.set], by simp [Env.set, hk], by simp [Env.set, hp], by simp [Env.set],
      fun _ => by simp [Env.set], fun _ => by simp [Env.set]⟩

/-- the values `kcore_bu` / `kcore_bd` return for a model result: `(CIJkcore, kn)` and, with `peel=True`, the two lists -/
def kcoreResult (p : Bool) (out : Out ℤ n) : List (Obj n) :=
  if p then [.mat (embI out.M), .nat out.kn, .list (out.order.map .idxs), .list (out.level.map .levels)]
  else [.mat (embI out.M), .nat out.kn]

theorem run_kcore (name helper : String) (call : Stmt) (deg : AMat ℤ n → Fin n → ℕ) (hc : CallOk (n := n) call deg)
    (fuel : ℕ) (A : AMat ℤ n) (k : ℕ) (p : Bool) :
    runPeel refHelpers (refKcore name call helper) fuel [.mat (embI A), .scal (.int k), .flag p] =
      (peelLoopOpt 0 deg (smallNat k) posNat fuel A 0 [] []).map (kcoreResult p) := by
  obtain ⟨E1, e1, st1⟩ := kcore_pre (((Env.set (fun _ => none) "CIJ" (.mat (embI A))).set "k" (.scal (.int k))).set "peel" (.flag p))
    A k p (by simp [Env.set]) (by simp [Env.set]) (by simp [Env.set])
  have hl := kcore_loop call deg hc k p fuel E1 A 0 [] [] st1
  simp only [runPeel, refKcore, bindAll, e1]
  cases hopt : peelLoopOpt 0 deg (smallNat k) posNat fuel A 0 [] [] with
  | none =>
    rw [hopt] at hl
    simp only [hl, Option.map_none]
  | some out =>
    rw [hopt] at hl
    obtain ⟨E2, it', e2, st2, hd2, hkn⟩ := hl
    have htn := trueNodes_pos_int E2 "deg" (deg out.M) hd2
    have hp2 := st2.hp
    have hM2 := st2.hM
    cases p with
    | false =>
      simp [e2, execs, exec, htn, Env.set, hp2, hM2, readAll, kcoreResult, hkn, countPos]
    | true =>
      have ho := st2.hord rfl
      have hv := st2.hlev rfl
      simp [e2, execs, exec, htn, Env.set, hp2, hM2, ho, hv, readAll, kcoreResult, hkn, countPos]

/-! ### `score_wu` -/

structure SSt (E : Env n) (M : AMat ℚ n) (s : ℚ) : Prop where
  hM : E "CIJscore" = some (.mat (embR M))
  hs : E "s" = some (.scal (.rat s))

theorem score_iter (E : Env n) (M : AMat ℚ n) (s : ℚ) (h : SSt E M s) :
    ∃ E', execs refHelpers refScoreWu.body E =
        some (E', ((List.finRange n).filter fun v => (Vector.ofFn fun v => smallRat s (strWu M v))[v]).isEmpty) ∧
      E' "str" = some (.vec (Vector.ofFn fun v => V.rat (strWu M v))) ∧
      (if ((List.finRange n).filter fun v => (Vector.ofFn fun v => smallRat s (strWu M v))[v]).isEmpty then SSt E' M s
       else SSt E' (zeroOut 0 M (Vector.ofFn fun v => smallRat s (strWu M v))) s) := by
  have hM := h.hM
  have hs := h.hs
  have hstr : (E.set "str" (.vec (Vector.ofFn fun v => V.rat (strWu M v)))) "str"
      = some (.vec (Vector.ofFn fun v => V.rat (strWu M v))) := by simp [Env.set]
  have htn := trueNodes_small_rat (E.set "str" (.vec (Vector.ofFn fun v => V.rat (strWu M v)))) "str" "s" (strWu M) s hstr
    (by simp [Env.set, hs])
  have hff : ((List.finRange n).filter fun v => (Vector.ofFn fun v => smallRat s (strWu M v))[v])
      = (List.finRange n).filter fun v => smallRat s (strWu M v) := by
    apply List.filter_congr; intro v _; simp
  rw [hff]
  generalize hffd : ((List.finRange n).filter fun v => smallRat s (strWu M v)) = ff at htn
  by_cases he : ff.isEmpty = true
  · refine ⟨?E1, ?h1, ?h2, ?h3⟩
    case h1 =>
      simp [refScoreWu, execs, exec, lookup_str, evalM, hM, helper_strengths_und, bindAll, htn, Env.set, he]
      rfl
    case h2 => simp [Env.set]
    case h3 =>
      simp only [he, if_true]
      exact ⟨by simp [Env.set, hM], by simp [Env.set, hs]⟩
  · have he' : ff.isEmpty = false := by simpa using he
    have hz := zero_rows_cols_rat M (Vector.ofFn fun v => smallRat s (strWu M v)) ff (hff.trans hffd)
    refine ⟨?E2, ?g1, ?g2, ?g3⟩
    case g1 =>
      simp [refScoreWu, execs, exec, lookup_str, evalM, hM, helper_strengths_und, bindAll, htn, Env.set, he']
      rfl
    case g2 => simp [Env.set]
    case g3 =>
      simp only [he', Bool.false_eq_true, if_false]
      exact ⟨by simp [Env.set, hz], by simp [Env.set, hs]⟩

theorem score_loop (s : ℚ) :
    ∀ (fuel : ℕ) (E : Env n) (M : AMat ℚ n) (it : ℕ) (ord : List (List (Fin n))) (lev : List (List ℕ)), SSt E M s →
      match peelLoopOpt 0 strWu (smallRat s) posRat fuel M it ord lev with
      | none => whileTrue refHelpers refScoreWu.body fuel E = none
      | some out => ∃ E', whileTrue refHelpers refScoreWu.body fuel E = some E' ∧ SSt E' out.M s ∧
          E' "str" = some (.vec (Vector.ofFn fun v => V.rat (strWu out.M v))) ∧ out.kn = countPos strWu posRat out.M := by
  intro fuel
  induction fuel with
  | zero => intro E M it ord lev _; simp [peelLoopOpt, whileTrue]
  | succ f ih =>
    intro E M it ord lev h
    obtain ⟨E1, e1, hd, hst⟩ := score_iter E M s h
    simp only [peelLoopOpt, whileTrue, e1]
    by_cases he : ((List.finRange n).filter fun v => (Vector.ofFn fun v => smallRat s (strWu M v))[v]).isEmpty = true
    · simp only [he, if_true] at hst ⊢
      exact ⟨E1, rfl, hst, hd, trivial⟩
    · have he' : ((List.finRange n).filter fun v => (Vector.ofFn fun v => smallRat s (strWu M v))[v]).isEmpty = false := by
        simpa using he
      simp only [he', Bool.false_eq_true, if_false] at hst ⊢
      exact ih E1 _ _ _ _ hst

theorem run_score (fuel : ℕ) (A : AMat ℚ n) (s : ℚ) :
    runPeel refHelpers refScoreWu fuel [.mat (embR A), .scal (.rat s)] =
      (peelLoopOpt 0 strWu (smallRat s) posRat fuel A 0 [] []).map fun out => [.mat (embR out.M), .nat out.kn] := by
  have st1 : SSt (((Env.set (fun _ => none) "CIJ" (.mat (embR A))).set "s" (.scal (.rat s))).set "CIJscore" (.mat (embR A))) A s :=
    ⟨by simp [Env.set], by simp [Env.set]⟩
  have hl := score_loop s fuel _ A 0 [] [] st1
  have epre : execs refHelpers refScoreWu.pre ((Env.set (fun _ => none) "CIJ" (.mat (embR A))).set "s" (.scal (.rat s)))
      = some ((((Env.set (fun _ => none) "CIJ" (.mat (embR A))).set "s" (.scal (.rat s))).set "CIJscore" (.mat (embR A))), false) := by
    simp [refScoreWu, execs, exec, evalM, Env.set]
  simp only [runPeel, bindAll, show refScoreWu.params = ["CIJ", "s"] from rfl, epre]
  cases hopt : peelLoopOpt 0 strWu (smallRat s) posRat fuel A 0 [] [] with
  | none =>
    rw [hopt] at hl
    simp only [hl, Option.map_none]
  | some out =>
    rw [hopt] at hl
    obtain ⟨E2, e2, st2, hd2, hkn⟩ := hl
    have htn := trueNodes_pos_rat E2 "str" (strWu out.M) hd2
    have hM2 := st2.hM
    simp only [e2]
    simp [refScoreWu, execs, exec, htn, Env.set, hM2, readAll, hkn, countPos]

/-! ### the link theorems -/

theorem helpers_of_ok (hs : List Helper) (h : helpersOk hs = true) : hs = refHelpers := by
  simpa [helpersOk] using h

theorem ir_of_peelOk (ir : PeelIR) (hok : peelOk ir = true) : ir = refKcoreBu ∨ ir = refKcoreBd ∨ ir = refScoreWu := by
  simp only [peelOk, refPeel, List.any_cons, List.any_nil, Bool.or_false, Bool.or_eq_true, Bool.and_eq_true,
    beq_iff_eq] at hok
  rcases hok with h | h | h
  · exact Or.inl h.2
  · exact Or.inr (Or.inl h.2)
  · exact Or.inr (Or.inr h.2)

/-- **Link, `kcore_bu`.**  If the generated obligations hold (`helpersOk` for the degree helpers, `peelOk` for the routine),
the program extracted from the current source, run by the interpreter on any binary matrix, any level `k`, either value of
`peel` and any fuel, returns exactly what the model loop `Core.peelLoop 0 degBu (smallNat k) posNat` returns —
`CIJkcore`, `kn` and (with `peel=True`) `peelorder`, `peellevel` — and runs out of fuel exactly when the model does. -/
theorem link_kcore_bu (hs : List Helper) (hhs : helpersOk hs = true) (ir : PeelIR) (hok : peelOk ir = true)
    (hname : ir.name = "kcore_bu") (fuel : ℕ) (A : AMat ℤ n) (k : ℕ) (p : Bool) :
    runPeel hs ir fuel [.mat (embI A), .scal (.int k), .flag p] =
      (peelLoopOpt 0 degBu (smallNat k) posNat fuel A 0 [] []).map (kcoreResult p) := by
  rw [helpers_of_ok hs hhs]
  rcases ir_of_peelOk ir hok with h | h | h <;> subst h
  · exact run_kcore _ _ _ degBu callOk_bu fuel A k p
  · exact absurd hname (by decide)
  · exact absurd hname (by decide)

/-- **Link, `kcore_bd`.** -/
theorem link_kcore_bd (hs : List Helper) (hhs : helpersOk hs = true) (ir : PeelIR) (hok : peelOk ir = true)
    (hname : ir.name = "kcore_bd") (fuel : ℕ) (A : AMat ℤ n) (k : ℕ) (p : Bool) :
    runPeel hs ir fuel [.mat (embI A), .scal (.int k), .flag p] =
      (peelLoopOpt 0 degBd (smallNat k) posNat fuel A 0 [] []).map (kcoreResult p) := by
  rw [helpers_of_ok hs hhs]
  rcases ir_of_peelOk ir hok with h | h | h <;> subst h
  · exact absurd hname (by decide)
  · exact run_kcore _ _ _ degBd callOk_bd fuel A k p
  · exact absurd hname (by decide)

/-- **Link, `score_wu`** (exact rational weights and level). -/
theorem link_score_wu (hs : List Helper) (hhs : helpersOk hs = true) (ir : PeelIR) (hok : peelOk ir = true)
    (hname : ir.name = "score_wu") (fuel : ℕ) (A : AMat ℚ n) (s : ℚ) :
    runPeel hs ir fuel [.mat (embR A), .scal (.rat s)] =
      (peelLoopOpt 0 strWu (smallRat s) posRat fuel A 0 [] []).map fun out => [.mat (embR out.M), .nat out.kn] := by
  rw [helpers_of_ok hs hhs]
  rcases ir_of_peelOk ir hok with h | h | h <;> subst h
  · exact absurd hname (by decide)
  · exact absurd hname (by decide)
  · exact run_score fuel A s

/-- with the model's own fuel `n`: whatever the extracted `kcore_bu` returns is `Core.kcoreBu A k` -/
theorem link_kcore_bu_model (hs : List Helper) (hhs : helpersOk hs = true) (ir : PeelIR) (hok : peelOk ir = true)
    (hname : ir.name = "kcore_bu") (A : AMat ℤ n) (k : ℕ) (p : Bool) (res : List (Obj n))
    (h : runPeel hs ir n [.mat (embI A), .scal (.int k), .flag p] = some res) : res = kcoreResult p (kcoreBu A k) := by
  rw [link_kcore_bu hs hhs ir hok hname] at h
  cases ho : peelLoopOpt 0 degBu (smallNat k) posNat n A 0 [] [] with
  | none => rw [ho] at h; simp at h
  | some out =>
    rw [ho] at h
    simp only [Option.map_some, Option.some.injEq] at h
    rw [← h, kcoreBu, peelLoopOpt_some _ _ _ _ _ _ _ _ _ _ ho]

theorem link_kcore_bd_model (hs : List Helper) (hhs : helpersOk hs = true) (ir : PeelIR) (hok : peelOk ir = true)
    (hname : ir.name = "kcore_bd") (A : AMat ℤ n) (k : ℕ) (p : Bool) (res : List (Obj n))
    (h : runPeel hs ir n [.mat (embI A), .scal (.int k), .flag p] = some res) : res = kcoreResult p (kcoreBd A k) := by
  rw [link_kcore_bd hs hhs ir hok hname] at h
  cases ho : peelLoopOpt 0 degBd (smallNat k) posNat n A 0 [] [] with
  | none => rw [ho] at h; simp at h
  | some out =>
    rw [ho] at h
    simp only [Option.map_some, Option.some.injEq] at h
    rw [← h, kcoreBd, peelLoopOpt_some _ _ _ _ _ _ _ _ _ _ ho]

theorem link_score_wu_model (hs : List Helper) (hhs : helpersOk hs = true) (ir : PeelIR) (hok : peelOk ir = true)
    (hname : ir.name = "score_wu") (A : AMat ℚ n) (s : ℚ) (res : List (Obj n))
    (h : runPeel hs ir n [.mat (embR A), .scal (.rat s)] = some res) :
    res = [.mat (embR (scoreWu A s).M), .nat (scoreWu A s).kn] := by
  rw [link_score_wu hs hhs ir hok hname] at h
  cases ho : peelLoopOpt 0 strWu (smallRat s) posRat n A 0 [] [] with
  | none => rw [ho] at h; simp at h
  | some out =>
    rw [ho] at h
    simp only [Option.map_some, Option.some.injEq] at h
    rw [← h, scoreWu, peelLoopOpt_some _ _ _ _ _ _ _ _ _ _ ho]

/-! ### non-vacuity and sensitivity -/

example : helpersOk refHelpers = true := by decide
example : peelOk refKcoreBu = true := by decide
example : peelOk refKcoreBd = true := by decide
example : peelOk refScoreWu = true := by decide
/-- `deg <= k` for `deg < k` is rejected -/
example : peelOk { refKcoreBu with
    body := refKcoreBu.body.set 1 (.whereV "ff" (.land (.le (.ref "deg") (.scalar "k")) (.lt (.lit 0) (.ref "deg")))) } = false := by
  decide
/-- a dropped column zeroing is rejected -/
example : peelOk { refKcoreBd with body := refKcoreBd.body.eraseIdx 5 } = false := by decide
/-- summing along the wrong axis in `degrees_und` is rejected -/
example : helpersOk [{ refDegreesUnd with ret := [.sum (.ref "CIJ") 1] }, refDegreesDir, refStrengthsUnd] = false := by decide

/-- the interpreter really returns: a path 0–1–2 plus the triangle 2–3–4, `k = 2`, `peel=True`, fuel 5 -/
example : (runPeel (n := 5) refHelpers refKcoreBu 5
    [.mat (embI (AMat.ofFn fun i j =>
      if (i.val, j.val) ∈ [(0,1),(1,0),(1,2),(2,1),(2,3),(3,2),(3,4),(4,3),(2,4),(4,2)] then 1 else 0)),
     .scal (.int ((2 : ℕ) : ℤ)), .flag true]).isSome = true := by
  rw [link_kcore_bu refHelpers (by decide) refKcoreBu (by decide) rfl, Option.isSome_map]
  decide +kernel

/-! ### k-coreness centrality: loop bound, membership expression, symmetrisation -/

theorem lastTrue_congr (P Q : ℕ → Bool) (ks : List ℕ) (h : ∀ k ∈ ks, P k = Q k) : lastTrue P ks = lastHit Q ks := by
  unfold lastTrue lastHit
  generalize (0 : ℕ) = c
  induction ks generalizing c with
  | nil => rfl
  | cons a l ih =>
    simp only [List.foldl_cons, h a (by simp)]
    exact ih (fun k hk => h k (by simp [hk])) _

theorem map_finRange_eq_range (m : ℕ) (f : Fin m → ℕ) (g : ℕ → ℕ) (h : ∀ k : Fin m, g k.val = f k) :
    (List.range m).map g = (List.finRange m).map f := by
  apply List.ext_getElem
  · simp
  · intro i h1 h2
    simp only [List.getElem_map, List.getElem_range, List.getElem_finRange]
    simp only [List.length_map, List.length_range] at h1
    exact h ⟨i, h1⟩

theorem member_bu (C : AMat ℤ n) (v : Fin n) :
    (evalV (Env.set (fun _ => none) "CIJkcore" (.mat (embI C))) v (.lt (.lit 0) (.sum (.ref "CIJkcore") 0)) == V.bool true)
      = decide (0 < colSum C v) := by
  simp only [evalV, evalM, Env.set, if_true, lane, embI_get, Nat.zero_le]
  rw [sumV_int (fun w => C.get w v)]
  simp only [V.lt, colSum, bool_beq_true]
  congr

theorem member_bd (C : AMat ℤ n) (v : Fin n) :
    (evalV (Env.set (fun _ => none) "CIJkcore" (.mat (embI C))) v
        (.lt (.lit 0) (.add (.sum (.ref "CIJkcore") 0) (.sum (.ref "CIJkcore") 1))) == V.bool true)
      = decide (0 < colSum C v + rowSum C v) := by
  simp only [evalV, evalM, Env.set, if_true, lane, embI_get, Nat.zero_le, Nat.le_refl]
  rw [sumV_int (fun w => C.get w v)]
  have : (List.finRange n).map (fun w => if 1 = 0 then V.int (C.get w v) else V.int (C.get v w))
      = (List.finRange n).map (fun w => V.int (C.get v w)) := by
    apply List.map_congr_left; intro w _; simp
  rw [this, sumV_int (fun w => C.get v w)]
  simp only [V.lt, V.add, colSum, rowSum, bool_beq_true]
  congr

/-- the statements before the loop of `kcoreness_centrality_bu`: `CIJ` becomes `Core.prepBu A`, both arrays have length `n` -/
theorem coreness_pre_bu (A : AMat ℤ n) :
    ∃ E : CEnv n, cexecs refCorenessBu.pre
        { mat := Env.set (fun _ => none) "CIJ" (.mat (embI A)), dims := fun _ => none, zeros := fun _ => none } = some E ∧
      E.mat "CIJ" = some (.mat (embI (prepBu A))) ∧ E.dims "N" = some n ∧ E.zeros "kn" = some n ∧ E.zeros "coreness" = some n := by
  have hadd : (AMat.ofFn fun i j => V.add ((embI A).get i j) ((embI A).get j i))
      = embI (AMat.ofFn fun i j => A.get i j + A.get j i) := by
    apply AMat.ext_get; intro i j; simp [V.add]
  have hany : anyGt (embI (AMat.ofFn fun i j => A.get i j + A.get j i)) 1
      = some ((List.finRange n).any fun i => (List.finRange n).any fun j => decide (A.get i j + A.get j i > 1)) := by
    simp [anyGt, V.lt]
  by_cases hc : ((List.finRange n).any fun i => (List.finRange n).any fun j => decide (A.get i j + A.get j i > 1)) = true
  · refine ⟨?E1, ?h1, ?h2, ?h3, ?h4, ?h5⟩
    case h1 =>
      simp only [refCorenessBu, cexecs, cexec, evalM, Env.set, if_true, hadd, hany, hc, Option.map_some, evalN]
      simp
      rfl
    case h2 =>
      simp only [Env.set, if_true, prepBu, hc]
      congr 2
      apply AMat.ext_get; intro i j
      simp [V.lt, V.toNum]
    all_goals simp
  · have hc' : ((List.finRange n).any fun i => (List.finRange n).any fun j => decide (A.get i j + A.get j i > 1)) = false := by
      simpa using hc
    refine ⟨?E2, ?g1, ?g2, ?g3, ?g4, ?g5⟩
    case g1 =>
      simp only [refCorenessBu, cexecs, cexec, evalM, Env.set, if_true, hadd, hany, hc', Option.map_some, evalN]
      simp
      rfl
    case g2 =>
      simp only [Env.set, prepBu, hc']
      simp
    all_goals simp

/-- **Link, `kcoreness_centrality_bu`.**  If the generated obligation holds, the extracted routine — symmetrisation, loop
bound `range(N)`, membership test `np.sum(CIJkcore, axis=0) > 0`, `coreness[ss] = k`, `kn[k]` — run with any callee that
behaves like the model's `kcoreBu`, returns exactly `Core.kcorenessBu A`. -/
theorem link_coreness_bu (ir : CorenessIR) (hok : corenessOk ir = true) (hname : ir.name = "kcoreness_centrality_bu")
    (kc : AMat V n → ℕ → Option (AMat V n × ℕ))
    (hkc : ∀ (M : AMat ℤ n) (k : ℕ), kc (embI M) k = some (embI (kcoreBu M k).M, (kcoreBu M k).kn)) (A : AMat ℤ n) :
    runCoreness ir kc (embI A) = some (kcorenessBu A) := by
  have hir : ir = refCorenessBu := by
    simp only [corenessOk, Bool.or_eq_true, Bool.and_eq_true, beq_iff_eq] at hok
    rcases hok with h | h
    · exact h.2
    · rw [h.2] at hname; exact absurd hname (by decide)
  subst hir
  obtain ⟨E, e, hM, hN, hkn, hco⟩ := coreness_pre_bu A
  simp only [refCorenessBu] at e
  simp only [runCoreness, refCorenessBu, e]
  simp only [evalN, hN, hkn, hco, hM, Option.map_some]
  simp only [Int.toNat_natCast, Nat.le_refl, and_self, if_true, hkc, List.all_map, Function.comp_def,
    Option.isSome_some, List.all_eq_true, implies_true, member_bu]
  simp only [kcorenessBu, corenessOf, Option.some.injEq, Prod.mk.injEq]
  constructor
  · funext v
    apply lastTrue_congr
    intro k hk
    have hk' : k < n := List.mem_range.mp hk
    simp [hk']
  · apply map_finRange_eq_range
    intro k
    simp

theorem coreness_pre_bd (A : AMat ℤ n) :
    ∃ E : CEnv n, cexecs refCorenessBd.pre
        { mat := Env.set (fun _ => none) "CIJ" (.mat (embI A)), dims := fun _ => none, zeros := fun _ => none } = some E ∧
      E.mat "CIJ" = some (.mat (embI A)) ∧ E.dims "N" = some n ∧ E.zeros "kn" = some (2 * n - 1) ∧ E.zeros "coreness" = some n := by
  have h0 : (0 : ℤ) ≤ if 2 * (n : ℤ) ≤ 1 then 0 else 2 * (n : ℤ) - 1 := by split <;> omega
  have h1 : (if 2 * (n : ℤ) ≤ 1 then (0 : ℤ) else 2 * (n : ℤ) - 1).toNat = 2 * n - 1 := by split <;> omega
  refine ⟨?E1, ?h1, ?h2, ?h3, ?h4, ?h5⟩
  case h1 =>
    simp only [refCorenessBd, cexecs, cexec, Env.set, if_true, evalN, Option.map_some]
    simp [h0, h1]
    rfl
  all_goals simp [Env.set]

/-- **Link, `kcoreness_centrality_bd`** (as repaired): loop bound `range(2 * N - 1)`, `kn` of length `max(2N - 1, 0)`,
membership test `(np.sum(CIJkcore, axis=0) + np.sum(CIJkcore, axis=1)) > 0`; with any callee that behaves like the
model's `kcoreBd` the extracted routine returns exactly `Core.kcorenessBd A`. -/
theorem link_coreness_bd (ir : CorenessIR) (hok : corenessOk ir = true) (hname : ir.name = "kcoreness_centrality_bd")
    (kc : AMat V n → ℕ → Option (AMat V n × ℕ))
    (hkc : ∀ (M : AMat ℤ n) (k : ℕ), kc (embI M) k = some (embI (kcoreBd M k).M, (kcoreBd M k).kn)) (A : AMat ℤ n) :
    runCoreness ir kc (embI A) = some (kcorenessBd A) := by
  have hir : ir = refCorenessBd := by
    simp only [corenessOk, Bool.or_eq_true, Bool.and_eq_true, beq_iff_eq] at hok
    rcases hok with h | h
    · rw [h.2] at hname; exact absurd hname (by decide)
    · exact h.2
  subst hir
  obtain ⟨E, e, hM, hN, hkn, hco⟩ := coreness_pre_bd A
  have hb : (2 * (n : ℤ) - 1).toNat = 2 * n - 1 := by omega
  simp only [refCorenessBd] at e
  simp only [runCoreness, refCorenessBd, e]
  simp only [evalN, hN, hkn, hco, hM, Option.map_some]
  simp only [Nat.cast_ofNat, Nat.cast_one, hb, Nat.le_refl, and_self, if_true, hkc, List.all_map, Function.comp_def,
    Option.isSome_some, List.all_eq_true, implies_true, member_bd]
  simp only [kcorenessBd, corenessOfBd, Option.some.injEq, Prod.mk.injEq]
  constructor
  · funext v
    apply lastTrue_congr
    intro k hk
    have hk' : k < 2 * n - 1 := List.mem_range.mp hk
    simp [hk']
  · apply map_finRange_eq_range
    intro k
    simp

example : corenessOk refCorenessBu = true := by decide
example : corenessOk refCorenessBd = true := by decide
/-- the pre-repair loop bound `range(N)` of the directed routine is rejected -/
example : corenessOk { refCorenessBd with bound := .dim "N" } = false := by decide
/-- a membership test that forgets the out-connections is rejected for the directed routine -/
example : corenessOk { refCorenessBd with member := .lt (.lit 0) (.sum (.ref "CIJkcore") 0) } = false := by decide

end Bct.Cores.Peel
