import BctVerif.Model.CoreIRBetw
import Mathlib.Tactic.Ring
import Mathlib.Tactic.Push
import Mathlib.Data.List.Basic
import Mathlib.Data.Rat.Defs
import Mathlib.Algebra.Order.Field.Rat

/-!
# C08 (second tie) — link theorem for the source-extracted `betweenness_bin`
-/

namespace Bct.Cores.Betw
open Bct Bct.Between Bct.CoreIR.Betw

variable {n : ℕ}

/-- a matrix of counts as the interpreter sees it (floats) -/
def emb (A : AMat ℕ n) : AMat V n := AMat.ofFn fun i j => V.num (A.get i j : ℚ)
def embR (A : AMat ℚ n) : AMat V n := AMat.ofFn fun i j => V.num (A.get i j)
/-- a matrix of distances: `none` is `np.inf` -/
def embL (L : DMat n) : AMat V n := AMat.ofFn fun i j =>
  match L.get i j with
  | some k => V.num (k : ℚ)
  | none => V.inf
def eyeV : AMat V n := AMat.ofFn fun i j => V.num (if i = j then 1 else 0)

@[simp] theorem emb_get (A : AMat ℕ n) (i j : Fin n) : (emb A).get i j = V.num (A.get i j : ℚ) := by simp [emb]
@[simp] theorem embR_get (A : AMat ℚ n) (i j : Fin n) : (embR A).get i j = V.num (A.get i j) := by simp [embR]
@[simp] theorem eyeV_get (i j : Fin n) : (eyeV (n := n)).get i j = V.num (if i = j then 1 else 0) := by simp [eyeV]

theorem sumV_num {α : Type} (l : List α) (f : α → ℚ) : sumV (l.map fun k => V.num (f k)) = V.num ((l.map f).sum) := by
  induction l with
  | nil => rfl
  | cons a l ih =>
    have : sumV ((a :: l).map fun k => V.num (f k)) = V.add (V.num (f a)) (sumV (l.map fun k => V.num (f k))) := rfl
    rw [this, ih]; simp [V.add]

theorem cast_sum {α : Type} (l : List α) (f : α → ℕ) : (((l.map f).sum : ℕ) : ℚ) = (l.map fun k => (f k : ℚ)).sum := by
  induction l with
  | nil => simp
  | cons a l ih => simp [ih]

theorem dot_emb (A B : AMat ℕ n) (i j : Fin n) :
    sumV ((List.finRange n).map fun k => V.num ((A.get i k : ℚ) * (B.get k j : ℚ))) = V.num ((matMul A B).get i j : ℚ) := by
  rw [sumV_num]; simp [matMul, sumFin, cast_sum]

theorem one_bne : ((1 : ℚ) != 0) = true := by decide

theorem cast_bne (a : ℕ) : ((a : ℚ) != 0) = (a != 0) := by
  simp [bne]
theorem cast_beq (a b : ℕ) : ((a : ℚ) == (b : ℚ)) = (a == b) := by
  simp
theorem cast_beq0 (a : ℕ) : ((a : ℚ) == 0) = (a == 0) := by
  simp

theorem anyV_emb (A : AMat ℕ n) : anyV (emb A) = some (anyNZ A) := by
  simp only [anyV, anyNZ, V.truthy, emb_get, cast_bne]
  simp

/-! ## the forward loop -/

/-- the environment holds the loop state of `Between.binLoop` -/
def St (E : Env n) (G : AMat ℕ n) (st : BinSt n) : Prop :=
  E.mat "G" = some (emb G) ∧ E.mat "I" = some eyeV ∧ E.sc "n" = some (n : ℤ) ∧ E.sc "d" = some (st.d : ℤ) ∧
  E.mat "NPd" = some (emb st.NPd) ∧ E.mat "NSPd" = some (emb st.NSPd) ∧ E.mat "NSP" = some (emb st.NSP) ∧
  E.mat "L" = some (emb st.Lm)

/-- one round of `Between.binLoop` -/
def stepSt (G : AMat ℕ n) (st : BinSt n) : BinSt n :=
  { d := st.d + 1,
    NPd := matMul st.NSPd G,
    NSPd := AMat.ofFn fun i j => if st.Lm.get i j = 0 then (matMul st.NSPd G).get i j else 0,
    NSP := AMat.ofFn fun i j => st.NSP.get i j +
      (AMat.ofFn fun i j => if st.Lm.get i j = 0 then (matMul st.NSPd G).get i j else 0 : AMat ℕ n).get i j,
    Lm := AMat.ofFn fun i j => st.Lm.get i j +
      (if (AMat.ofFn fun i j => if st.Lm.get i j = 0 then (matMul st.NSPd G).get i j else 0 : AMat ℕ n).get i j != 0
        then st.d + 1 else 0) }

theorem binLoop_succ (G : AMat ℕ n) (f : ℕ) (st : BinSt n) :
    binLoop G (f + 1) st = if !anyNZ st.NSPd then .ok st else binLoop G f (stepSt G st) := rfl

theorem body_spec (E : Env n) (G : AMat ℕ n) (st : BinSt n) (h : St E G st) :
    ∃ E', execs refIR.body E = some E' ∧ St E' G (stepSt G st) := by
  obtain ⟨hG, hI, hn, hd, hNPd, hNSPd, hNSP, hL⟩ := h
  refine ⟨?E', ?h1, ?h2⟩
  case h1 =>
    simp [refIR, execs, exec, hd, hNSP]
    rfl
  case h2 =>
    refine ⟨by simp [hG], by simp [hI], by simp [hn], by simp [stepSt], ?_, ?_, ?_, ?_⟩
    · simp only [show ("NPd" = "L") = False by decide, show ("NPd" = "NSP") = False by decide,
        show ("NPd" = "NSPd") = False by decide, if_false, if_true, Option.some.injEq]
      apply AMat.ext_get; intro i j
      simp [eval, hNSPd, hG, V.mul, dot_emb, stepSt]
    · simp only [show ("NSPd" = "L") = False by decide, show ("NSPd" = "NSP") = False by decide, if_false, if_true,
        Option.some.injEq]
      apply AMat.ext_get; intro i j
      simp [eval, hNSPd, hG, hL, V.mul, V.eq, dot_emb, cast_beq0, stepSt]
    · simp only [show ("NSP" = "L") = False by decide, if_false, if_true, Option.some.injEq]
      apply AMat.ext_get; intro i j
      simp [eval, hNSPd, hG, hL, V.mul, V.eq, V.add, dot_emb, cast_beq0, stepSt]
    · simp only [if_true, Option.some.injEq]
      apply AMat.ext_get; intro i j
      simp [eval, hNSPd, hG, hL, V.mul, V.eq, V.ne, V.add, dot_emb, cast_beq0, stepSt]

theorem loop_spec (G : AMat ℕ n) : ∀ (fuel : ℕ) (E : Env n) (st : BinSt n), St E G st →
    match binLoop G fuel st with
    | .error _ => whileAny "NSPd" refIR.body fuel E = none
    | .ok st' => ∃ E', whileAny "NSPd" refIR.body fuel E = some E' ∧ St E' G st' := by
  intro fuel
  induction fuel with
  | zero => intro E st _; simp [binLoop, whileAny]
  | succ f ih =>
    intro E st h
    have hN := h.2.2.2.2.2.1
    rw [binLoop_succ]
    simp only [whileAny, hN, anyV_emb]
    by_cases ha : anyNZ st.NSPd = true
    · obtain ⟨E1, e1, s1⟩ := body_spec E G st h
      simp only [ha, Bool.not_true, Bool.false_eq_true, if_false, e1]
      exact ih E1 _ s1
    · have ha' : anyNZ st.NSPd = false := by simpa using ha
      simp only [ha', Bool.not_false, if_true]
      exact ⟨E, rfl, h⟩

theorem binLoop_d (G : AMat ℕ n) : ∀ (fuel : ℕ) (st st' : BinSt n), binLoop G fuel st = .ok st' → st.d ≤ st'.d := by
  intro fuel
  induction fuel with
  | zero => intro st st' h; simp [binLoop] at h
  | succ f ih =>
    intro st st' h
    rw [binLoop_succ] at h
    by_cases ha : anyNZ st.NSPd = true
    · simp only [ha, Bool.not_true, Bool.false_eq_true, if_false] at h
      have := ih _ _ h
      simp only [stepSt] at this
      omega
    · have ha' : anyNZ st.NSPd = false := by simpa using ha
      simp only [ha', Bool.not_false, if_true, Except.ok.injEq] at h
      subst h; exact Nat.le_refl _

/-- the state `betweennessBin` starts its loop in -/
def init0 (G : AMat ℕ n) : BinSt n :=
  { d := 1, NPd := G, NSPd := G, NSP := AMat.ofFn fun i j => if i = j then 1 else G.get i j,
    Lm := AMat.ofFn fun i j => if i = j then 1 else G.get i j }

theorem pre_spec (G : AMat ℕ n) :
    ∃ E1, execs refIR.pre ({ mat := fun y => if y = "G" then some (emb G) else none, sc := fun _ => none } : Env n) = some E1 ∧
      St E1 G (init0 G) := by
  refine ⟨?E1, ?h1, ?h2⟩
  case h1 =>
    simp [refIR, execs, exec]
    rfl
  case h2 =>
    refine ⟨?_, ?_, by simp, by simp [init0], ?_, ?_, ?_, ?_⟩
    · simp only [show ("G" = "L") = False by decide, show ("G" = "NSP") = False by decide, show ("G" = "NSPd") = False by decide,
        show ("G" = "NPd") = False by decide, show ("G" = "I") = False by decide, if_false, if_true, Option.some.injEq]
      apply AMat.ext_get; intro i j
      simp [eval, V.asFloat]
    · simp only [show ("I" = "L") = False by decide, show ("I" = "NSP") = False by decide, show ("I" = "NSPd") = False by decide,
        show ("I" = "NPd") = False by decide, if_false, if_true, Option.some.injEq]
      apply AMat.ext_get; intro i j
      simp [eval]
    · simp only [show ("NPd" = "L") = False by decide, show ("NPd" = "NSP") = False by decide,
        show ("NPd" = "NSPd") = False by decide, if_false, if_true, Option.some.injEq]
      apply AMat.ext_get; intro i j
      simp [eval, V.asFloat, init0]
    · simp only [show ("NSPd" = "L") = False by decide, show ("NSPd" = "NSP") = False by decide, if_false, if_true,
        Option.some.injEq]
      apply AMat.ext_get; intro i j
      simp [eval, V.asFloat, init0]
    · simp only [show ("NSP" = "L") = False by decide, if_false, if_true, Option.some.injEq]
      apply AMat.ext_get; intro i j
      by_cases hij : i = j <;> simp [eval, V.asFloat, V.truthy, whereCell, stored, hij, one_bne, init0]
    · simp only [if_true, Option.some.injEq]
      apply AMat.ext_get; intro i j
      by_cases hij : i = j <;> simp [eval, V.asFloat, V.truthy, whereCell, stored, hij, one_bne, init0]

/-! ## the back-propagation loop -/

/-- the environment holds the state of `Between.binBack` -/
def BSt (E : Env n) (G : AMat ℕ n) (Linf : DMat n) (NSP : AMat ℕ n) (DP : AMat ℚ n) : Prop :=
  E.mat "G" = some (emb G) ∧ E.mat "L" = some (embL Linf) ∧ E.mat "NSP" = some (emb NSP) ∧ E.mat "DP" = some (embR DP)

/-- one round of `Between.binBack` (`d = k + 2`) -/
def backStep (G : AMat ℕ n) (Linf : DMat n) (NSP : AMat ℕ n) (k : ℕ) (DP : AMat ℚ n) : AMat ℚ n :=
  AMat.ofFn fun i j => DP.get i j +
    (AMat.ofFn fun i j =>
      (sumFin fun k' => (AMat.ofFn fun i j =>
          if Linf.get i j == some (k + 2) then (1 + DP.get i j) / (NSP.get i j : ℚ) else 0 : AMat ℚ n).get i k' * (G.get j k' : ℚ)) *
        (if Linf.get i j == some (k + 2 - 1) then (NSP.get i j : ℚ) else 0) : AMat ℚ n).get i j

theorem binBack_succ (G : AMat ℕ n) (Linf : DMat n) (NSP : AMat ℕ n) (k : ℕ) (DP : AMat ℚ n) :
    binBack G Linf NSP (k + 1) DP = binBack G Linf NSP k (backStep G Linf NSP k DP) := rfl

theorem eval_ref (E : Env n) (m : String) (i j : Fin n) :
    eval E (.ref m) i j = (match E.mat m with | some M => M.get i j | none => V.err) := rfl
theorem eval_mul (E : Env n) (a b : Ex) (i j : Fin n) : eval E (.mul a b) i j = V.mul (eval E a i j) (eval E b i j) := rfl
theorem eval_dot (E : Env n) (a b : Ex) (i j : Fin n) :
    eval E (.dot a b) i j = sumV ((List.finRange n).map fun k => V.mul (eval E a i k) (eval E b k j)) := rfl

theorem eqL (Linf : DMat n) (i j : Fin n) (d : ℕ) :
    V.eq ((embL Linf).get i j) (V.num (d : ℚ)) = V.bool (Linf.get i j == some d) := by
  simp only [embL, AMat.get_ofFn]
  cases Linf.get i j with
  | none => simp [V.eq]
  | some k => simp [V.eq]

theorem back_spec (E : Env n) (G : AMat ℕ n) (Linf : DMat n) (NSP : AMat ℕ n) (DP : AMat ℚ n) (k : ℕ)
    (h : BSt E G Linf NSP DP) (hd : E.sc "d" = some ((k + 2 : ℕ) : ℤ)) (hnz : ∀ i j, NSP.get i j ≠ 0) :
    ∃ E', execs refIR.back E = some E' ∧ BSt E' G Linf NSP (backStep G Linf NSP k DP) ∧ (∀ y, y ≠ "d" → E'.sc y = E.sc y) := by
  obtain ⟨hG, hL, hNSP, hDP⟩ := h
  refine ⟨?E', ?h1, ?h2⟩
  case h1 =>
    simp [refIR, execs, exec, hDP]
    rfl
  case h2 =>
    have hd1 : V.num (((k + 2 : ℕ) : ℤ) : ℚ) = V.num ((k + 2 : ℕ) : ℚ) := by simp
    have hd2 : V.sub (V.num (((k + 2 : ℕ) : ℤ) : ℚ)) (V.num ((1 : ℕ) : ℚ)) = V.num ((k + 2 - 1 : ℕ) : ℚ) := by
      simp [V.sub]; ring
    have hX : ∀ i j, eval E (.div (.mul (.eq (.ref "L") (.scal "d")) (.add (.lit 1) (.ref "DP"))) (.ref "NSP")) i j
        = V.num (if Linf.get i j == some (k + 2) then (1 + DP.get i j) / (NSP.get i j : ℚ) else 0) := by
      intro i j
      simp only [eval, hL, hDP, hNSP, hd, hd1, eqL, emb_get, embR_get]
      have : ((NSP.get i j : ℕ) : ℚ) ≠ 0 := by exact_mod_cast hnz i j
      cases Linf.get i j == some (k + 2) <;> simp [V.add, V.mul, V.div, this]
    have hY : ∀ i j, eval E (.mul (.eq (.ref "L") (.sub (.scal "d") (.lit 1))) (.ref "NSP")) i j
        = V.num (if Linf.get i j == some (k + 2 - 1) then (NSP.get i j : ℚ) else 0) := by
      intro i j
      simp only [eval, hL, hNSP, hd, hd2, eqL, emb_get]
      cases Linf.get i j == some (k + 2 - 1) <;> simp [V.mul]
    have hD : ∀ i j, eval E (.dot (.div (.mul (.eq (.ref "L") (.scal "d")) (.add (.lit 1) (.ref "DP"))) (.ref "NSP")) (.tr (.ref "G"))) i j
        = V.num (sumFin fun k' => (if Linf.get i k' == some (k + 2) then (1 + DP.get i k') / (NSP.get i k' : ℚ) else 0) * (G.get j k' : ℚ)) := by
      intro i j
      rw [eval_dot]
      simp only [hX]
      simp [eval, hG, V.mul, sumV_num, sumFin]
    have hP : ∀ i j, eval E (.mul
                (.dot (.div (.mul (.eq (.ref "L") (.scal "d")) (.add (.lit 1) (.ref "DP"))) (.ref "NSP")) (.tr (.ref "G")))
                (.mul (.eq (.ref "L") (.sub (.scal "d") (.lit 1))) (.ref "NSP"))) i j
        = V.num ((sumFin fun k' => (if Linf.get i k' == some (k + 2) then (1 + DP.get i k') / (NSP.get i k' : ℚ) else 0) * (G.get j k' : ℚ)) *
            (if Linf.get i j == some (k + 2 - 1) then (NSP.get i j : ℚ) else 0)) := by
      intro i j
      rw [eval_mul, hD, hY]; rfl
    refine ⟨⟨by simp [hG], by simp [hL], by simp [hNSP], ?_⟩, by intro y hy; simp⟩
    simp only [if_true, Option.some.injEq]
    apply AMat.ext_get; intro i j
    simp only [AMat.get_ofFn, embR_get, backStep, eval_ref]
    simp only [if_true, AMat.get_ofFn, hP, V.add]

/-- `for d in range(k + 1, 1, -1)` is `k` rounds of `binBack` -/
theorem for_spec (G : AMat ℕ n) (Linf : DMat n) (NSP : AMat ℕ n) (hnz : ∀ i j, NSP.get i j ≠ 0) :
    ∀ (k : ℕ) (E : Env n) (DP : AMat ℚ n), BSt E G Linf NSP DP →
      ∃ E', forEach "d" refIR.back ((List.range k).map fun (t : ℕ) => ((k + 1 : ℕ) : ℤ) - (t : ℤ)) E = some E' ∧
        BSt E' G Linf NSP (binBack G Linf NSP k DP) := by
  intro k
  induction k with
  | zero => intro E DP h; exact ⟨E, rfl, h⟩
  | succ k ih =>
    intro E DP h
    have hl : (List.range (k + 1)).map (fun (t : ℕ) => ((k + 1 + 1 : ℕ) : ℤ) - (t : ℤ))
        = ((k + 2 : ℕ) : ℤ) :: (List.range k).map fun (t : ℕ) => ((k + 1 : ℕ) : ℤ) - (t : ℤ) := by
      rw [List.range_succ_eq_map]
      simp only [List.map_cons, List.map_map]
      congr 1
      apply List.map_congr_left; intro t _; simp only [Function.comp]; push_cast; omega
    rw [hl, binBack_succ]
    have hE : BSt ({ E with sc := fun y => if y = "d" then some ((k + 2 : ℕ) : ℤ) else E.sc y } : Env n) G Linf NSP DP := h
    obtain ⟨E1, e1, s1, _⟩ := back_spec _ G Linf NSP DP k hE (by simp) hnz
    simp only [forEach, e1]
    exact ih E1 _ s1

theorem colSums_embR (DP : AMat ℚ n) : colSums (embR DP) = (Vector.ofFn fun j => sumFin fun i => DP.get i j).map V.num := by
  apply Vector.ext; intro j hj
  simp [colSums, sumV_num, sumFin]

theorem mid_spec (E : Env n) (G : AMat ℕ n) (st : BinSt n) (h : St E G st) :
    ∃ E3, execs refIR.mid E = some E3 ∧
      BSt E3 G (AMat.ofFn fun i j => if i = j then some 0 else if st.Lm.get i j = 0 then none else some (st.Lm.get i j))
        (AMat.ofFn fun i j => if st.NSP.get i j = 0 then 1 else st.NSP.get i j) (AMat.ofFn fun _ _ => 0) ∧
      E3.sc "diam" = some ((st.d : ℤ) - 1) := by
  obtain ⟨hG, hI, hn, hd, hNPd, hNSPd, hNSP, hL⟩ := h
  refine ⟨?E3, ?h1, ?h2⟩
  case h1 =>
    simp [refIR, execs, exec, hL, hI, hNSP, hd]
    rfl
  case h2 =>
    refine ⟨⟨by simp [hG], ?_, ?_, ?_⟩, by simp⟩
    · simp only [show ("L" = "DP") = False by decide, show ("L" = "NSP") = False by decide, if_false, if_true, Option.some.injEq]
      apply AMat.ext_get; intro i j
      by_cases hij : i = j
      · simp [embL, eval, V.truthy, whereCell, stored, hij, one_bne, hL]
      · by_cases h0 : st.Lm.get i j = 0
        · simp [embL, eval, V.truthy, whereCell, stored, hij, V.eq, h0, hL, cast_beq0]
        · have hb0 : (st.Lm.get i j == 0) = false := by simpa using h0
          simp [embL, eval, V.truthy, whereCell, stored, hij, V.eq, h0, hb0, hL, cast_beq0]
    · simp only [show ("NSP" = "DP") = False by decide, if_false, if_true, Option.some.injEq]
      apply AMat.ext_get; intro i j
      by_cases h0 : st.NSP.get i j = 0
      · simp [eval, stored, V.eq, h0, hNSP, cast_beq0]
      · have hb0 : (st.NSP.get i j == 0) = false := by simpa using h0
        simp [eval, stored, V.eq, h0, hb0, hNSP, cast_beq0]
    · simp only [if_true, Option.some.injEq]
      apply AMat.ext_get; intro i j
      simp [eval, hn]

/-- **Link, `betweenness_bin`.**  If the generated obligation holds, the extracted routine, run with the model's fuel `n² + 2`
for the `while np.any(NSPd)` loop on a matrix of natural numbers, returns exactly `Between.betweennessBin G`. -/
theorem link_betweenness_bin (ir : BetwIR) (hok : betwOk ir = true) (G : AMat ℕ n) :
    run ir (n * n + 2) (emb G) =
      match betweennessBin G with
      | .ok v => some (v.map V.num)
      | .error _ => none := by
  have hir : ir = refIR := by simpa [betwOk] using hok
  subst hir
  obtain ⟨E1, e1, s1⟩ := pre_spec G
  have hl := loop_spec G (n * n + 2) E1 _ s1
  have e1' : execs refIR.pre ({ mat := fun y => if y = refIR.param then some (emb G) else none, sc := fun _ => none } : Env n) = some E1 := e1
  have hunf : betweennessBin G = match binLoop G (n * n + 2) (init0 G) with
      | .error e => .error e
      | .ok st => .ok (Vector.ofFn fun j => sumFin fun i =>
          (binBack G (AMat.ofFn fun i j => if i = j then some 0 else if st.Lm.get i j = 0 then none else some (st.Lm.get i j))
            (AMat.ofFn fun i j => if st.NSP.get i j = 0 then 1 else st.NSP.get i j) (st.d - 1 - 1) (AMat.ofFn fun _ _ => 0)).get i j) := by
    simp only [betweennessBin, init0, bind, Except.bind, pure, Except.pure]
    generalize binLoop G (n * n + 2) _ = r
    cases r <;> rfl
  simp only [run, e1', show refIR.cond = "NSPd" from rfl, hunf]
  cases hb : binLoop G (n * n + 2) (init0 G) with
  | error e => rw [hb] at hl; simp only [hl]
  | ok st =>
    rw [hb] at hl
    obtain ⟨E2, e2, s2⟩ := hl
    have hd1 : 1 ≤ st.d := binLoop_d G _ _ _ hb
    obtain ⟨E3, e3, s3, hdiam⟩ := mid_spec E2 G st s2
    have hnz : ∀ i j, (AMat.ofFn fun i j => if st.NSP.get i j = 0 then 1 else st.NSP.get i j : AMat ℕ n).get i j ≠ 0 := by
      intro i j; simp only [AMat.get_ofFn]; split <;> simp [*]
    obtain ⟨E4, e4, s4⟩ := for_spec G _ _ hnz (st.d - 1 - 1) E3 _ s3
    have hr : pyRange ((st.d : ℤ) - 1) 1 (-1) = some ((List.range (st.d - 1 - 1)).map fun (t : ℕ) => ((st.d - 1 - 1 + 1 : ℕ) : ℤ) - (t : ℤ)) := by
      simp only [pyRange, if_true, Option.some.injEq]
      have hk : ((st.d : ℤ) - 1 - 1).toNat = st.d - 1 - 1 := by omega
      rw [hk]
      by_cases h2 : 2 ≤ st.d
      · apply List.map_congr_left; intro t _; push_cast [Nat.sub_add_cancel (by omega : 1 ≤ st.d - 1)]; omega
      · have : st.d - 1 - 1 = 0 := by omega
        simp [this]
    simp only [e2, e3, show refIR.loopHi = "diam" from rfl, hdiam, show refIR.loopLo = 1 from rfl,
      show refIR.loopStep = -1 from rfl, hr, show refIR.loopVar = "d" from rfl, e4, show refIR.retAxis = 0 from rfl, if_true,
      show refIR.ret = "DP" from rfl, s4.2.2.2, Option.map_some, colSums_embR]

example : betwOk refIR = true := by decide
/-- `NPd = np.dot(NPd, G)` (extending all walks, not only the shortest paths) is rejected -/
example : betwOk { refIR with body := refIR.body.set 1 (.bind "NPd" (.dot (.ref "NPd") (.ref "G"))) } = false := by decide
/-- `range(diam, 0, -1)` is rejected -/
example : betwOk { refIR with loopLo := 0 } = false := by decide
/-- `G` for `G.T` in the back-propagation is rejected -/
example : betwOk { refIR with back := refIR.back.set 0 (.bind "DPd1" (.mul
    (.dot (.div (.mul (.eq (.ref "L") (.scal "d")) (.add (.lit 1) (.ref "DP"))) (.ref "NSP")) (.ref "G"))
    (.mul (.eq (.ref "L") (.sub (.scal "d") (.lit 1))) (.ref "NSP")))) } = false := by decide

end Bct.Cores.Betw
