import BctVerif.Lemmas.ClusterReduce
import BctVerif.Lemmas.ClusterCbrt
import BctVerif.Lemmas.ClusterReal
import BctVerif.Props.C03
import BctVerif.Props.C08
import BctVerif.Props.C15
import BctVerif.Model.LocalEff
import BctVerif.Model.Measures
import BctVerif.Lemmas.MeasuresBasic
import BctVerif.Model.Walks
import BctVerif.Model.Comp
/-!
# C10 — weighted measures reduce to binary on 0/1 input, directed to undirected on symmetric input

* clustering / transitivity / degree–strength: theorems about `BctVerif/Model/Cluster.lean` (ℚ) and, for the
  symmetric-weighted clause, about the real routines of `Lemmas/ClusterReal.lean` (all real weights);
* distance, betweenness, edge betweenness, global efficiency, and the weight-ignoring `distance_bin`, `efficiency_bin`,
  `reachdist`, `kcore_bd/bu`: corollaries of the correctness theorems of the C03 / C08 / C15 slices, about *their*
  executable models (`Bct.Dist`, `Bct.Between`, `Bct.Core`);
* local efficiency: theorems about the executable model `BctVerif/Model/LocalEff.lean` (both loops, distances through
  `Bct.Dist`); undirected assortativity: about `assortativityBin` / `assortativityWei0` of `BctVerif/Model/Measures.lean`;
* symmetric-input `2k` relations (`kcore_bd`/`kcore_bu`, `rich_club_bd`/`rich_club_bu`, `density_dir`/`density_und`) and the
  weight-ignoring `density_*`, `assortativity_bin`, `edge_nei_overlap_*`, `findwalks`, `get_components`, `breadthdist`: corollaries
  over the `Measures` / `Walks` / `Comp` / `Dist` / `Core` models;
* **no theorem** (Python predicate on the real code only): `kcoreness_centrality_*`, `efficiency_bin(local)` as weight-ignoring
  routines, `matching_ind`.

`Bin W`: all entries 0 or 1; `Symm W`: symmetric; `EmptyDiag W`: empty diagonal.
-/
namespace Bct.C10
open Finset Bct Bct.Cluster

variable {n : ℕ}

/-! ## weighted = binary on 0/1 input: clustering, transitivity, strengths -/

/-- on a 0/1 matrix the cube root is the matrix itself, and the executable `rootMat` returns it -/
theorem cbrt_on01 {W : AMat ℚ n} (hB : Bin W) : IsCbrt W W := isCbrt_of_bin hB
theorem rootMat_on01 {W : AMat ℚ n} (hB : Bin W) : rootMat W = some W := Cluster.rootMat_on01 hB

/-- `clustering_coef_wu(W) = clustering_coef_bu(W)` on 0/1 undirected input -/
theorem wu_eq_bu_on01 {W : AMat ℚ n} (hB : Bin W) (hS : Symm W) (hD : EmptyDiag W) :
    ccWu W W = ccBu W := Cluster.wu_eq_bu_on01 hB hS hD

/-- the same through the executable cube root -/
theorem wu_eq_bu_on01_exec {W : AMat ℚ n} (hB : Bin W) (hS : Symm W) (hD : EmptyDiag W) :
    (rootMat W).map (ccWu W) = some (ccBu W) := by
  rw [Cluster.rootMat_on01 hB, Option.map_some, Cluster.wu_eq_bu_on01 hB hS hD]

/-- `clustering_coef_wd(W) = clustering_coef_bd(W)` on 0/1 input -/
theorem wd_eq_bd_on01 {W : AMat ℚ n} (hB : Bin W) : ccWd W W = ccBd W := Cluster.wd_eq_bd_on01 hB

theorem wd_eq_bd_on01_exec {W : AMat ℚ n} (hB : Bin W) : (rootMat W).map (ccWd W) = some (ccBd W) := by
  rw [Cluster.rootMat_on01 hB, Option.map_some, Cluster.wd_eq_bd_on01 hB]

theorem trans_wu_eq_bu_on01 {W : AMat ℚ n} (hB : Bin W) (hS : Symm W) : transWu W W = transBu W :=
  Cluster.trans_wu_eq_bu_on01 hB hS

theorem trans_wd_eq_bd_on01 {W : AMat ℚ n} (hB : Bin W) : transWd W W = transBd W :=
  Cluster.trans_wd_eq_bd_on01 hB

/-- `strengths_und = degrees_und` and `strengths_dir = degrees_dir[2]` on 0/1 input -/
theorem strength_eq_degree_on01 {W : AMat ℚ n} (hB : Bin W) :
    strengthsUnd W = degreesUnd W ∧ strengthsDir W = degreesTot W :=
  ⟨strengthsUnd_eq_degreesUnd_on01 hB, strengthsDir_eq_degreesTot_on01 hB⟩

/-! ## weighted = binary on 0/1 input: distance, efficiency, betweenness (models of C03 / C08) -/

/-- `distance_wei(A)[0] = distance_bin(A)` on every 0/1 matrix: both models return, and return the same matrix -/
theorem dist_wei_eq_bin_on01 (A : AMat Rat n) (hbin : ∀ i j, A.get i j = 0 ∨ A.get i j = 1) :
    ∃ D B, Dist.distBin A = some D ∧ Dist.dijkstra (Dist.lenMat .none A) = some (D, B) := by
  obtain ⟨D, hD⟩ := C03.distBin_total A
  obtain ⟨D', B, h⟩ := C03.dijkstra_total (Dist.lenMat .none A)
  have hA : C03.NonNeg A := by
    intro i j; rcases hbin i j with e | e <;> rw [e] <;> norm_num
  have e1 := C03.distBin_eq_floyd A hbin D hD
  have e2 := C03.floyd_eq_dijkstra A hA D' B h
  exact ⟨D, B, hD, by rw [h, e2, ← e1]⟩

theorem lenMat_inv_on01 (A : AMat Rat n) (hbin : ∀ i j, A.get i j = 0 ∨ A.get i j = 1) :
    Dist.lenMat .inv A = Dist.lenMat .none A :=
  AMat.ext_get fun i j => by
    simp only [Dist.lenMat, AMat.get_ofFn, Dist.lenOf]
    rcases hbin i j with h | h <;> simp [h]

/-- global `efficiency_wei(A) = efficiency_bin(A)` on every 0/1 matrix (equality of the model outputs) -/
theorem eff_wei_eq_bin_on01 (A : AMat Rat n) (hbin : ∀ i j, A.get i j = 0 ∨ A.get i j = 1) :
    Dist.efficiencyWei A = Dist.efficiencyBin A := by
  obtain ⟨D, B, h1, h2⟩ := dist_wei_eq_bin_on01 A hbin
  unfold Dist.efficiencyWei Dist.efficiencyBin
  rw [lenMat_inv_on01 A hbin, h1, h2]; rfl

/-- `edge_betweenness_wei(L) = edge_betweenness_bin(L)` (both outputs) on every 0/1 matrix -/
theorem ebetw_wei_eq_bin_on01 (L : AMat Nat n) (hbin : ∀ i j, L.get i j ≤ 1) :
    Between.brandes true L = Between.brandes false L := by
  rw [C08.brandes_wei_correct, C08.edge_betweenness_bin_correct L hbin]

/-- `betweenness_wei(L) = betweenness_bin(L)` on every 0/1 matrix with empty diagonal -/
theorem betw_wei_eq_bin_on01 (L : AMat Nat n) (hbin : ∀ i j, L.get i j ≤ 1) (hdiag : ∀ i, L.get i i = 0) :
    (Between.brandes true L).map Prod.snd = Between.betweennessBin L := by
  rw [C08.betweenness_wei_correct, C08.betweennessBin_correct L hbin hdiag]

/-- on hop lengths a walk is either broken (`⊤`) or as long as its number of edges -/
theorem walkLen_hop (A : AMat Rat n) : ∀ (i : Fin n) (p : List (Fin n)),
    Dist.walkLen (Dist.hopLen A) i p = ⊤ ∨ Dist.walkLen (Dist.hopLen A) i p = ((p.length : ℕ) : Dist.Len)
  | _, [] => Or.inr (by simp [Dist.walkLen])
  | i, j :: p => by
    rcases walkLen_hop A j p with h | h
    · left; simp [Dist.walkLen, h]
    · by_cases hz : A.get i j = 0
      · left; simp [Dist.walkLen, Dist.hopLen, hz]
      · right; simp only [Dist.walkLen, Dist.hopLen, hz, if_false, h, List.length_cons]; push_cast; exact add_comm _ _

/-- the **hop-count output** of `distance_wei` on a 0/1 matrix: wherever the distance is finite, `B[i,j]` (number of edges
of the shortest path found) equals the distance, i.e. equals `distance_bin(A)[i,j]` -/
theorem dist_wei_hops_on01 (A : AMat Rat n) (hbin : ∀ i j, A.get i j = 0 ∨ A.get i j = 1) :
    ∃ D B, Dist.distBin A = some D ∧ Dist.dijkstra (Dist.lenMat .none A) = some (D, B) ∧
      ∀ i j, Dist.lenFun D i j < ⊤ → Dist.lenFun D i j = ((B.get i j : ℕ) : Dist.Len) := by
  obtain ⟨D, B, h1, h2⟩ := dist_wei_eq_bin_on01 A hbin
  refine ⟨D, B, h1, h2, fun i j hfin => ?_⟩
  have hA : C03.NonNeg A := by
    intro i j; rcases hbin i j with e | e <;> rw [e] <;> norm_num
  obtain ⟨p, -, hl, hB⟩ := C03.dijkstra_B .none A hA D B h2 i j hfin
  rw [← C03.hopLen_eq_lenFun A hbin] at hl
  rcases walkLen_hop A i p with h | h
  · rw [h] at hl; rw [← hl] at hfin; exact absurd hfin (lt_irrefl _)
  · rw [← hl, h, hB]

/-! ## weighted = binary on 0/1 input: local efficiency (model `BctVerif/Model/LocalEff.lean`) -/

theorem subMat_bin (G : AMat Rat n) (hbin : ∀ i j, G.get i j = 0 ∨ G.get i j = 1) (V : List (Fin n)) :
    ∀ a b, (LocalEff.subMat G V).get a b = 0 ∨ (LocalEff.subMat G V).get a b = 1 := by
  intro a b; simp only [LocalEff.subMat, AMat.get_ofFn]; exact hbin _ _

/-- `efficiency_wei(G, local=True)[u] = efficiency_bin(G, local=True)[u]` on every 0/1 matrix, directed or undirected
(on 0/1 input the cube-root matrix is the matrix itself: `rootMat_on01`) -/
theorem localeff_wei_eq_bin_on01_node (G : AMat Rat n) (hbin : ∀ i j, G.get i j = 0 ∨ G.get i j = 1) (u : Fin n) :
    LocalEff.effWeiNode G G u = LocalEff.effBinNode G u := by
  have hA : Cluster.adj G = G := by rw [adj_eq]; exact adj_of_bin hbin
  unfold LocalEff.effBinNode
  rw [hA]
  unfold LocalEff.effWeiNode LocalEff.effBinOn
  simp only [hA]
  obtain ⟨D, B, h1, h2⟩ := dist_wei_eq_bin_on01 (LocalEff.subMat G (LocalEff.nbrs G u)) (subMat_bin G hbin _)
  rw [lenMat_inv_on01 _ (subMat_bin G hbin _), h1, h2]

theorem localeff_wei_eq_bin_on01 (G : AMat Rat n) (hbin : ∀ i j, G.get i j = 0 ∨ G.get i j = 1) :
    LocalEff.localEffWei G G = LocalEff.localEffBin G := by
  unfold LocalEff.localEffWei LocalEff.localEffBin
  congr 1; funext u; exact localeff_wei_eq_bin_on01_node G hbin u

/-- the same through the executable cube root -/
theorem localeff_wei_eq_bin_on01_exec (G : AMat Rat n) (hbin : ∀ i j, G.get i j = 0 ∨ G.get i j = 1) :
    (rootMat G).map (LocalEff.localEffWei G) = some (LocalEff.localEffBin G) := by
  rw [Cluster.rootMat_on01 hbin, Option.map_some, localeff_wei_eq_bin_on01 G hbin]

/-- **spec** of `efficiency_bin(local=True)`: the value at `u` is `LocalEff.core` (numerator `Σ_{a,b} sa_a sa_b (1/d_ab + 1/d_ba) / 2`
over `(Σ sa)² − Σ sa²`) evaluated at the *true* hop distances `d` inside the sub-graph induced by the in/out neighbours of `u` -/
theorem localeff_bin_spec (G : AMat Rat n) (u : Fin n) :
    ∃ D : AMat Dist.Ext (LocalEff.nbrs (Cluster.adj G) u).length,
      Dist.IsDist (Dist.hopLen (LocalEff.subMat (Cluster.adj G) (LocalEff.nbrs (Cluster.adj G) u))) (Dist.lenFun D) ∧
      LocalEff.effBinNode G u = LocalEff.core (LocalEff.links (Cluster.adj G) u _) (LocalEff.links (Cluster.adj G) u _) D := by
  obtain ⟨D, hD⟩ := C03.distBin_total (LocalEff.subMat (Cluster.adj G) (LocalEff.nbrs (Cluster.adj G) u))
  refine ⟨D, C03.distBin_isDist _ D hD, ?_⟩
  unfold LocalEff.effBinNode LocalEff.effBinOn
  simp only [hD]

/-- **spec** of `efficiency_wei(local=True)` (non-negative cube roots `R`): `LocalEff.core` at the true weighted distances,
with connection lengths `1/R`, inside the neighbourhood sub-graph -/
theorem localeff_wei_spec (W R : AMat Rat n) (hR : C03.NonNeg R) (u : Fin n) :
    ∃ D : AMat Dist.Ext (LocalEff.nbrs W u).length,
      Dist.IsDist (Dist.lenFun (Dist.lenMat .inv (LocalEff.subMat R (LocalEff.nbrs W u)))) (Dist.lenFun D) ∧
      LocalEff.effWeiNode W R u = LocalEff.core (LocalEff.links R u _) (LocalEff.links (Cluster.adj W) u _) D := by
  obtain ⟨D, B, hD⟩ := C03.dijkstra_total (Dist.lenMat .inv (LocalEff.subMat R (LocalEff.nbrs W u)))
  have hsub : C03.NonNeg (LocalEff.subMat R (LocalEff.nbrs W u)) := by
    intro a b; simp only [LocalEff.subMat, AMat.get_ofFn]; exact hR _ _
  refine ⟨D, C03.dijkstra_isDist .inv _ hsub D B hD, ?_⟩
  unfold LocalEff.effWeiNode
  simp only [hD]

/-! ## weighted = binary on 0/1 input: undirected assortativity (model `BctVerif/Model/Measures.lean`, flag 0) -/

/-- `assortativity_wei(A, 0) = assortativity_bin(A, 0)` on every 0/1 matrix (strengths = degrees; both list the edges of
`np.triu(A, 1) > 0`) -/
theorem assort_wei_eq_bin_on01 (A : AMat Int n) (h01 : ∀ i j, A.get i j = 0 ∨ A.get i j = 1) :
    Measures.assortativityBin A 0 = .ok (Measures.assortativityWei0 A) := by
  have hb : Measures.bin A = A := AMat.ext_get fun i j => by
    simp only [Measures.bin, AMat.get_ofFn, Measures.nz]
    rcases h01 i j with h | h <;> simp [h]
  have hd : Measures.degreesUnd A = Measures.strengthsUnd A := by
    unfold Measures.degreesUnd Measures.strengthsUnd; rw [hb]
  simp only [Measures.assortativityBin, Measures.assortativityWei0, hd]

/-! ## directed = undirected on symmetric input -/

/-- `clustering_coef_bd(A) = clustering_coef_bu(A)` on symmetric 0/1 input -/
theorem bd_eq_bu_symm {A : AMat ℚ n} (hB : Bin A) (hS : Symm A) (hD : EmptyDiag A) : ccBd A = ccBu A :=
  Cluster.bd_eq_bu_symm hB hS hD

/-- model: `clustering_coef_wd = clustering_coef_wu` for every symmetric `W` and every symmetric matrix `R` in the place
of `cuberoot(W)` — no cube-root hypothesis -/
theorem wd_eq_wu_symm {W R : AMat ℚ n} (hS : Symm W) (hRS : Symm R) : ccWd W R = ccWu W R :=
  Cluster.wd_eq_wu_symm hS hRS

/-- **all real weights**: on every symmetric real matrix (any signed weights, any diagonal)
`clustering_coef_wd(W) = clustering_coef_wu(W)`, with the real cube root -/
theorem wd_eq_wu_symm_real {W : AMat ℝ n} (hS : Symm W) (i : Fin n) : ccWdR W i = ccWuR W i :=
  ccFagK_symm hS (isCbrt_symm (rootR_isCbrt W) hS) i

theorem trans_bd_eq_bu_symm {A : AMat ℚ n} (hB : Bin A) (hS : Symm A) : transBd A = transBu A :=
  Cluster.trans_bd_eq_bu_symm hB hS

theorem trans_wd_eq_wu_symm {W R : AMat ℚ n} (hS : Symm W) (hRS : Symm R) : transWd W R = transWu W R :=
  Cluster.trans_wd_eq_wu_symm hS hRS

theorem trans_wd_eq_wu_symm_real {W : AMat ℝ n} (hS : Symm W) : transWdR W = transWuR W :=
  transFagK_symm hS (isCbrt_symm (rootR_isCbrt W) hS)

/-- in-degree = out-degree = undirected degree on symmetric input (`degrees_dir` vs `degrees_und`),
and the total degree is twice that -/
theorem degrees_dir_eq_und_symm {W : AMat ℚ n} (hS : Symm W) :
    degreesIn W = degreesUnd W ∧ degreesOut W = degreesUnd W ∧
    ∀ i : Fin n, (degreesTot W)[i] = 2 * (degreesUnd W)[i] := by
  refine ⟨degreesIn_eq_und W, degreesOut_eq_und_symm hS, fun i => ?_⟩
  simp only [degreesTot, degreesUnd, get_ofFn_vec]
  rw [adj_eq, rowSum_eq_colSum_symm (adj_symm hS)]; ring

/-- `strengths_dir = 2 · strengths_und` on symmetric input -/
theorem strengths_dir_eq_und_symm {W : AMat ℚ n} (hS : Symm W) (i : Fin n) :
    (strengthsDir W)[i] = 2 * (strengthsUnd W)[i] := by
  simp only [strengthsDir, strengthsUnd, get_ofFn_vec]
  rw [rowSum_eq_colSum_symm hS]; ring

/-- on a symmetric matrix the directed in+out degree inside a node set is twice the undirected one -/
theorem degInBd_symm (A : AMat Int n) (hsym : ∀ i j, A.get i j = A.get j i) (S : Finset (Fin n)) (v : Fin n) :
    C15.degInBd A S v = 2 * C15.degInBu A S v := by
  unfold C15.degInBd C15.degInBu
  have : (S.filter fun w => A.get v w ≠ 0) = (S.filter fun w => A.get w v ≠ 0) := by
    apply Finset.filter_congr; intro w _; rw [hsym v w]
  rw [this]; ring

/-- **`kcore_bd` vs `kcore_bu` on symmetric input**: the directed `2k`-core (in + out degree) is the undirected `k`-core —
same node set, same size `kn` -/
theorem kcore_bd_eq_bu_symm (A : AMat Int n) (hsym : ∀ i j, A.get i j = A.get j i) (k : ℕ) (hk : 1 ≤ k) :
    C15.coreOfBd A (2 * k) = C15.coreOfBu A k ∧ (Core.kcoreBd A (2 * k)).kn = (Core.kcoreBu A k).kn := by
  have hd := C15.kcore_bd_correct A (2 * k) (by omega)
  have hu := C15.kcore_bu_correct A hsym k hk
  have hcore : C15.IsCore (C15.degInBu A) k (C15.coreOfBd A (2 * k)) := by
    refine ⟨fun v hv => ?_, fun T hT => hd.1.2 T (fun v hv => ?_)⟩
    · have := hd.1.1 v hv; rw [degInBd_symm A hsym] at this; omega
    · rw [degInBd_symm A hsym]; have := hT v hv; omega
  have e := C15.isCore_unique hcore hu.1
  exact ⟨e, by rw [hd.2.2, hu.2.2, e]⟩

/-! ### rich club and density: directed vs undirected on symmetric input (models of `Model/Measures.lean`) -/

theorem measures_rowSum_bin_symm (A : AMat Int n) (hsym : ∀ i j, A.get i j = A.get j i) (i : Fin n) :
    Measures.rowSum (Measures.bin A) i = Measures.colSum (Measures.bin A) i := by
  unfold Measures.rowSum Measures.colSum
  congr 1; funext j; simp only [Measures.bin, AMat.get_ofFn, hsym i j]

theorem degTotal_symm (A : AMat Int n) (hsym : ∀ i j, A.get i j = A.get j i) (i : Fin n) :
    Measures.vget (Measures.degTotal A) i = 2 * Measures.vget (Measures.degreesUnd A) i := by
  simp only [Measures.degTotal, Measures.degreesDir, Measures.degreesUnd, Measures.vget, get_ofFn_vec]
  rw [measures_rowSum_bin_symm A hsym]; ring

/-- **`rich_club_bd` vs `rich_club_bu` on symmetric input**: `rich_club_bd` works with in + out degree (= twice the degree), so
its level `2k+1` ("degree > 2k+2") keeps exactly the nodes of level `k` of `rich_club_bu` ("degree > k+1"): same `Nk`, same
`Ek`, hence the same coefficient `Ek / (Nk (Nk − 1))` -/
theorem rich_level_bd_eq_bu_symm (A : AMat Int n) (hsym : ∀ i j, A.get i j = A.get j i) (k : ℕ) :
    Measures.richLevel A (Measures.degTotal A) (2 * k + 1) = Measures.richLevel A (Measures.degreesUnd A) k := by
  have hc : ∀ i, (Measures.vget (Measures.degTotal A) i > ((2 * k + 1 : ℕ) : ℤ) + 1) ↔
      (Measures.vget (Measures.degreesUnd A) i > (k : ℤ) + 1) := by
    intro i; rw [degTotal_symm A hsym]; push_cast; omega
  unfold Measures.richLevel
  simp only [hc]

/-- upper triangle + symmetric + empty diagonal: the full sum is twice the sum over `i ≤ j` -/
theorem sum_all_eq_two_upper (f : Fin n → Fin n → ℤ) (hs : ∀ i j, f i j = f j i) (hd : ∀ i, f i i = 0) :
    ∑ i, ∑ j, f i j = 2 * ∑ i, ∑ j, (if i ≤ j then f i j else 0) := by
  have hlt : ∑ i, ∑ j, (if i ≤ j then f i j else 0) = ∑ i, ∑ j, (if i < j then f i j else 0) := by
    refine Finset.sum_congr rfl fun i _ => Finset.sum_congr rfl fun j _ => ?_
    by_cases h : i = j
    · subst h; simp [hd]
    · have : i ≤ j ↔ i < j := ⟨fun h' => lt_of_le_of_ne h' h, le_of_lt⟩
      simp only [this]
  have hsplit : ∑ i, ∑ j, f i j = ∑ i, ∑ j, (if i < j then f i j else 0) + ∑ i, ∑ j, (if j < i then f i j else 0) := by
    rw [← Finset.sum_add_distrib]
    refine Finset.sum_congr rfl fun i _ => ?_
    rw [← Finset.sum_add_distrib]
    refine Finset.sum_congr rfl fun j _ => ?_
    rcases lt_trichotomy i j with h | h | h
    · simp [h, not_lt_of_gt h]
    · subst h; simp [hd]
    · simp [h, not_lt_of_gt h]
  have hswap : ∑ i, ∑ j, (if j < i then f i j else 0) = ∑ i, ∑ j, (if i < j then f i j else 0) := by
    rw [Finset.sum_comm]
    refine Finset.sum_congr rfl fun i _ => Finset.sum_congr rfl fun j _ => ?_
    rw [hs j i]
  rw [hlt, hsplit, hswap]; ring

/-- **`density_dir` vs `density_und` on symmetric input with empty diagonal**: same density, same `N`, and the directed
connection count is twice the undirected one -/
theorem density_dir_eq_und_symm (A : AMat Int n) (hsym : ∀ i j, A.get i j = A.get j i) (hdiag : ∀ i, A.get i i = 0) :
    Measures.densityDir A = (Measures.densityUnd A).map fun r => (r.1, r.2.1, 2 * r.2.2) := by
  have hK : Measures.total (Measures.bin A) = 2 * Measures.fsum fun i => Measures.fsum fun j =>
      if i ≤ j then Measures.nz (A.get i j) else 0 := by
    simp only [Measures.total, Measures.fsum_eq_sum, Measures.bin, AMat.get_ofFn]
    exact sum_all_eq_two_upper (fun i j => Measures.nz (A.get i j)) (fun i j => by rw [hsym i j])
      (fun i => by simp [hdiag i, Measures.nz])
  unfold Measures.densityDir Measures.densityUnd
  by_cases h0 : n * n - n = 0
  · simp [h0, Except.map]
  · simp only [h0, if_false, Except.map, hK]
    congr 2
    push_cast; ring

/-! ## weight-ignoring routines: same on `W` and `binarize(W)` -/

theorem degrees_ignore_weights (W : AMat ℚ n) :
    degreesUnd (adj W) = degreesUnd W ∧ degreesIn (adj W) = degreesIn W ∧
    degreesOut (adj W) = degreesOut W ∧ degreesTot (adj W) = degreesTot W := by
  refine ⟨degreesUnd_binarize W, ?_, ?_, ?_⟩
  · rw [degreesIn, adj_adj_q]; rfl
  · rw [degreesOut, adj_adj_q]; rfl
  · rw [degreesTot, adj_adj_q]; rfl

theorem binarize_adj (W : AMat Rat n) : Dist.binarize (adj W) = Dist.binarize W :=
  AMat.ext_get fun i j => by
    simp only [Dist.binarize, AMat.get_ofFn, adj, ind, map_get]
    by_cases h : W.get i j = 0 <;> simp [h]

/-- `distance_bin`, global `efficiency_bin` and `reachdist` (models of C03) ignore the weights -/
theorem weights_ignored_dist (W : AMat Rat n) :
    Dist.distBin (adj W) = Dist.distBin W ∧ Dist.efficiencyBin (adj W) = Dist.efficiencyBin W ∧
    Dist.reachdist (adj W) = Dist.reachdist W := by
  refine ⟨?_, ?_, ?_⟩
  · unfold Dist.distBin; rw [binarize_adj]
  · unfold Dist.efficiencyBin Dist.distBin; rw [binarize_adj]
  · unfold Dist.reachdist; rw [binarize_adj]

/-- `binarize` on the integer matrices of the k-core model -/
def binI (A : AMat Int n) : AMat Int n := AMat.map (fun x => if x = 0 then 0 else 1) A

/-- `kcore_bd` / `kcore_bu` (models of C15): the k-core node set (and, for `k ≥ 1`, its size `kn`:
`weights_ignored_kcore_kn`, `weights_ignored_kcore_kn_bu`) are the same for `W` and
`binarize(W)` (the returned matrices are the respective inputs restricted to that set: `C15.kcore_bd_correct`) -/
theorem weights_ignored_kcore (A : AMat Int n) (k : ℕ) :
    C15.coreOfBd (binI A) k = C15.coreOfBd A k ∧
    ((∀ i j, A.get i j = A.get j i) → C15.coreOfBu (binI A) k = C15.coreOfBu A k) := by
  have hb : ∀ i j, (binI A).get i j ≠ 0 ↔ A.get i j ≠ 0 := by
    intro i j; simp only [binI, map_get]; by_cases h : A.get i j = 0 <;> simp [h]
  constructor
  · rw [C15.coreOfBd_eq, C15.coreOfBd_eq]
    congr 1; funext w v; simp only [Core.wtBd, hb]
  · intro hsym
    have hsym' : ∀ i j, (binI A).get i j = (binI A).get j i := by
      intro i j; simp only [binI, map_get, hsym i j]
    rw [C15.coreOfBu_eq _ hsym', C15.coreOfBu_eq _ hsym]
    congr 1; funext w v; simp only [Core.wtBu, hb]

theorem weights_ignored_kcore_kn (A : AMat Int n) (k : ℕ) (hk : 1 ≤ k) :
    (Core.kcoreBd (binI A) k).kn = (Core.kcoreBd A k).kn := by
  rw [(C15.kcore_bd_correct (binI A) k hk).2.2, (C15.kcore_bd_correct A k hk).2.2, (weights_ignored_kcore A k).1]

theorem weights_ignored_kcore_kn_bu (A : AMat Int n) (hsym : ∀ i j, A.get i j = A.get j i) (k : ℕ) (hk : 1 ≤ k) :
    (Core.kcoreBu (binI A) k).kn = (Core.kcoreBu A k).kn := by
  have hsym' : ∀ i j, (binI A).get i j = (binI A).get j i := by
    intro i j; simp only [binI, map_get, hsym i j]
  rw [(C15.kcore_bu_correct (binI A) hsym' k hk).2.2, (C15.kcore_bu_correct A hsym k hk).2.2,
    (weights_ignored_kcore A k).2 hsym]

/-! ### further weight-ignoring routines -/

theorem measures_bin_bin (A : AMat Int n) : Measures.bin (Measures.bin A) = Measures.bin A :=
  AMat.ext_get fun i j => by
    simp only [Measures.bin, AMat.get_ofFn, Measures.nz]; by_cases h : A.get i j = 0 <;> simp [h]

/-- `density_dir` / `density_und` (models of `Model/Measures.lean`) ignore the weights -/
theorem weights_ignored_density (A : AMat Int n) :
    Measures.densityDir (Measures.bin A) = Measures.densityDir A ∧
    Measures.densityUnd (Measures.bin A) = Measures.densityUnd A := by
  constructor
  · unfold Measures.densityDir; rw [measures_bin_bin]
  · unfold Measures.densityUnd
    have : ∀ i j, Measures.nz ((Measures.bin A).get i j) = Measures.nz (A.get i j) := by
      intro i j; simp only [Measures.bin, AMat.get_ofFn, Measures.nz]; by_cases h : A.get i j = 0 <;> simp [h]
    simp only [this]

/-- `assortativity_bin` (all five flags) ignores the weights of a non-negative matrix -/
theorem weights_ignored_assortativity (A : AMat Int n) (h0 : ∀ i j, 0 ≤ A.get i j) (flag : ℕ) :
    Measures.assortativityBin (Measures.bin A) flag = Measures.assortativityBin A flag := by
  have he : ∀ i j, decide ((Measures.bin A).get i j > 0) = decide (A.get i j > 0) := by
    intro i j
    simp only [Measures.bin, AMat.get_ofFn, Measures.nz]
    by_cases h : A.get i j = 0
    · simp [h]
    · have : 0 < A.get i j := lt_of_le_of_ne (h0 i j) (Ne.symm h)
      simp [h, this]
  unfold Measures.assortativityBin Measures.degreesDir Measures.degreesUnd
  simp only [measures_bin_bin, he]

/-- `breadthdist` (model of C03) ignores the weights: the hop distances between distinct nodes are the same for `W` and
`binarize(W)` (empty diagonal) -/
theorem weights_ignored_breadthdist (W : AMat Rat n) (hdiag : ∀ i, W.get i i = 0) (R R' : AMat Bool n) (D D' : AMat Dist.Ext n)
    (h : Dist.breadthdist W = some (R, D)) (h' : Dist.breadthdist (adj W) = some (R', D')) :
    Dist.zeroDiag' (Dist.lenFun D) = Dist.zeroDiag' (Dist.lenFun D') := by
  have hl : Dist.hopLen (adj W) = Dist.hopLen W := by
    funext i j; simp only [Dist.hopLen, adj, ind, map_get]; by_cases hz : W.get i j = 0 <;> simp [hz]
  have hd' : ∀ i, (adj W).get i i = 0 := fun i => by simp [adj, ind, hdiag i]
  have h1 := (C03.breadthdist_correct W hdiag R D h).1
  have h2 := (C03.breadthdist_correct (adj W) hd' R' D' h').1
  rw [hl] at h2
  exact C03.isDist_unique _ _ _ h1 h2

theorem binI_ne (A : AMat Int n) (i j : Fin n) : (binI A).get i j ≠ 0 ↔ A.get i j ≠ 0 := by
  simp only [binI, map_get]; by_cases h : A.get i j = 0 <;> simp [h]

/-- `findwalks` (model of `Model/Walks.lean`) ignores the weights -/
theorem weights_ignored_findwalks (A : AMat Int n) : Walks.findwalks (binI A) = Walks.findwalks A := by
  have : Walks.binarize (binI A) = Walks.binarize A := AMat.ext_get fun i j => by
    simp only [Walks.binarize, binI, map_get]; by_cases h : A.get i j = 0 <;> simp [h]
  unfold Walks.findwalks; rw [this]

/-- `get_components` (model of `Model/Comp.lean`) ignores the weights of a symmetric matrix: same labels, same sizes -/
theorem weights_ignored_components (A : AMat Int n) (hsym : ∀ i j, A.get i j = A.get j i) :
    Comp.getComponents (binI A) = Comp.getComponents A := by
  have he : Comp.edgeList (binI A) = Comp.edgeList A := by
    unfold Comp.edgeList
    congr 1; funext u; congr 1
    apply List.filter_congr; intro v _
    have := binI_ne A u v
    by_cases h : A.get u v = 0
    · have h' : (binI A).get u v = 0 := by simpa [h] using this
      simp [h, h']
    · have h' : (binI A).get u v ≠ 0 := this.mpr h
      have e1 : ((binI A).get u v != 0) = true := bne_iff_ne.mpr h'
      have e2 : (A.get u v != 0) = true := bne_iff_ne.mpr h
      rw [e1, e2]
  have hs : ∀ (B : AMat Int n), (∀ i j, B.get i j = B.get j i) → Comp.isSymm B = true := by
    intro B hB; unfold Comp.isSymm
    simp only [List.all_eq_true, beq_iff_eq]; intro i _ j _; exact hB i j
  have hsym' : ∀ i j, (binI A).get i j = (binI A).get j i := by
    intro i j; simp only [binI, map_get, hsym i j]
  unfold Comp.getComponents Comp.unionSets
  rw [hs A hsym, hs _ hsym', he]

/-- `edge_nei_overlap_bu/bd` (model of `Model/Measures.lean`) ignores the weights -/
theorem weights_ignored_edge_nei_overlap (A : AMat Int n) :
    Measures.edgeNeiOverlap (Measures.bin A) = Measures.edgeNeiOverlap A := by
  have hne : ∀ i j, (Measures.bin A).get i j ≠ 0 ↔ A.get i j ≠ 0 := by
    intro i j; simp only [Measures.bin, AMat.get_ofFn, Measures.nz]; by_cases h : A.get i j = 0 <;> simp [h]
  have hb : ∀ i j, ((Measures.bin A).get i j != 0) = (A.get i j != 0) := by
    intro i j
    by_cases h : A.get i j = 0
    · have h' : (Measures.bin A).get i j = 0 := by
        by_contra hc; exact (hne i j).mp hc h
      simp [h, h']
    · have h' := (hne i j).mpr h
      rw [bne_iff_ne.mpr h', bne_iff_ne.mpr h]
  unfold Measures.edgeNeiOverlap Measures.neiOf
  simp only [hb, hne]

/-! ## non-vacuity -/
section Examples

def K3 : AMat ℚ 3 := AMat.ofFn fun i j => if i = j then 0 else 1
def C3 : AMat ℚ 3 := AMat.ofFn fun i j => if j.val = (i.val + 1) % 3 then 1 else 0
def W3 : AMat ℚ 3 := AMat.ofFn fun i j => if i = j then 0 else 1/8
def R3 : AMat ℚ 3 := AMat.ofFn fun i j => if i = j then 0 else 1/2
/-- a symmetric real matrix with the non-cube weights 1/2 and −3/10 -/
noncomputable def H3 : AMat ℝ 3 := AMat.ofFn fun i j => if i = j then 0 else if i.val + j.val = 1 then -3/10 else 1/2
def L3 : AMat Nat 3 := AMat.ofFn fun i j => if j.val = (i.val + 1) % 3 then 1 else 0
def I3 : AMat Int 3 := AMat.ofFn fun i j => if i = j then 0 else 5
/-- the path 0 – 1 – 2 as an integer matrix -/
def J3 : AMat Int 3 := AMat.ofFn fun i j => if i.val + j.val = 1 ∨ i.val + j.val = 3 then 1 else 0
lemma K3_bin : Bin K3 := fun i j => by simp only [K3, AMat.get_ofFn]; split_ifs <;> simp
lemma K3_symm : Symm K3 := fun i j => by simp only [K3, AMat.get_ofFn, eq_comm]
lemma K3_diag : EmptyDiag K3 := fun i => by simp [K3]
lemma C3_bin : Bin C3 := fun i j => by simp only [C3, AMat.get_ofFn]; split_ifs <;> simp
lemma W3_symm : Symm W3 := fun i j => by simp only [W3, AMat.get_ofFn, eq_comm]
lemma R3_symm : Symm R3 := fun i j => by simp only [R3, AMat.get_ofFn, eq_comm]
lemma H3_symm : Symm H3 := fun i j => by simp only [H3, AMat.get_ofFn, eq_comm, add_comm]
lemma I3_symm : ∀ i j, I3.get i j = I3.get j i := fun i j => by simp only [I3, AMat.get_ofFn, eq_comm]
lemma L3_bin : ∀ i j, L3.get i j ≤ 1 := fun i j => by simp only [L3, AMat.get_ofFn]; split_ifs <;> simp
lemma L3_diag : ∀ i, L3.get i i = 0 := fun i => by fin_cases i <;> simp [L3]

example : ccWu K3 K3 = ccBu K3 := wu_eq_bu_on01 K3_bin K3_symm K3_diag
example : (rootMat K3).map (ccWu K3) = some (ccBu K3) := wu_eq_bu_on01_exec K3_bin K3_symm K3_diag
example : ccWd C3 C3 = ccBd C3 := wd_eq_bd_on01 C3_bin
example : (rootMat C3).map (ccWd C3) = some (ccBd C3) := wd_eq_bd_on01_exec C3_bin
example : transWu K3 K3 = transBu K3 := trans_wu_eq_bu_on01 K3_bin K3_symm
example : transWd C3 C3 = transBd C3 := trans_wd_eq_bd_on01 C3_bin
example : strengthsDir C3 = degreesTot C3 := (strength_eq_degree_on01 C3_bin).2
example : ccBd K3 = ccBu K3 := bd_eq_bu_symm K3_bin K3_symm K3_diag
example : ccWd W3 R3 = ccWu W3 R3 := wd_eq_wu_symm W3_symm R3_symm
example : ccWdR H3 0 = ccWuR H3 0 := wd_eq_wu_symm_real H3_symm 0
example : transBd K3 = transBu K3 := trans_bd_eq_bu_symm K3_bin K3_symm
example : transWd W3 R3 = transWu W3 R3 := trans_wd_eq_wu_symm W3_symm R3_symm
example : transWdR H3 = transWuR H3 := trans_wd_eq_wu_symm_real H3_symm
example : degreesOut W3 = degreesUnd W3 := (degrees_dir_eq_und_symm W3_symm).2.1
example : degreesUnd (adj W3) = degreesUnd W3 := (degrees_ignore_weights W3).1
example : ∃ D B, Dist.distBin C3 = some D ∧ Dist.dijkstra (Dist.lenMat .none C3) = some (D, B) :=
  dist_wei_eq_bin_on01 C3 C3_bin
example : Dist.efficiencyWei C3 = Dist.efficiencyBin C3 := eff_wei_eq_bin_on01 C3 C3_bin
example : Between.brandes true L3 = Between.brandes false L3 := ebetw_wei_eq_bin_on01 L3 L3_bin
example : (Between.brandes true L3).map Prod.snd = Between.betweennessBin L3 := betw_wei_eq_bin_on01 L3 L3_bin L3_diag
example : Dist.distBin (adj W3) = Dist.distBin W3 := (weights_ignored_dist W3).1
example : C15.coreOfBd (binI I3) 2 = C15.coreOfBd I3 2 := (weights_ignored_kcore I3 2).1
example : (Core.kcoreBd (binI I3) 2).kn = (Core.kcoreBd I3 2).kn := weights_ignored_kcore_kn I3 2 (by norm_num)
example : (Core.kcoreBu (binI I3) 2).kn = (Core.kcoreBu I3 2).kn :=
  weights_ignored_kcore_kn_bu I3 (fun i j => by simp only [I3, AMat.get_ofFn, eq_comm]) 2 (by norm_num)
example : LocalEff.localEffWei C3 C3 = LocalEff.localEffBin C3 := localeff_wei_eq_bin_on01 C3 C3_bin
example : (rootMat K3).map (LocalEff.localEffWei K3) = some (LocalEff.localEffBin K3) := localeff_wei_eq_bin_on01_exec K3 K3_bin
example : ∃ D, Dist.IsDist (Dist.hopLen (LocalEff.subMat (Cluster.adj C3) (LocalEff.nbrs (Cluster.adj C3) 0))) (Dist.lenFun D) ∧
    LocalEff.effBinNode C3 0 = LocalEff.core (LocalEff.links (Cluster.adj C3) 0 _) (LocalEff.links (Cluster.adj C3) 0 _) D :=
  localeff_bin_spec C3 0
example : Measures.assortativityBin J3 0 = .ok (Measures.assortativityWei0 J3) :=
  assort_wei_eq_bin_on01 J3 (fun i j => by simp only [J3, AMat.get_ofFn]; split_ifs <;> simp)
example : ∃ D B, Dist.distBin C3 = some D ∧ Dist.dijkstra (Dist.lenMat .none C3) = some (D, B) ∧
    ∀ i j, Dist.lenFun D i j < ⊤ → Dist.lenFun D i j = ((B.get i j : ℕ) : Dist.Len) := dist_wei_hops_on01 C3 C3_bin
example : (strengthsDir W3)[(0 : Fin 3)] = 2 * (strengthsUnd W3)[(0 : Fin 3)] := strengths_dir_eq_und_symm W3_symm 0
example : C15.coreOfBd I3 (2 * 2) = C15.coreOfBu I3 2 ∧ (Core.kcoreBd I3 (2 * 2)).kn = (Core.kcoreBu I3 2).kn :=
  kcore_bd_eq_bu_symm I3 I3_symm 2 (by norm_num)
example : Measures.richLevel I3 (Measures.degTotal I3) (2 * 0 + 1) = Measures.richLevel I3 (Measures.degreesUnd I3) 0 :=
  rich_level_bd_eq_bu_symm I3 I3_symm 0
example : Measures.densityDir I3 = (Measures.densityUnd I3).map fun r => (r.1, r.2.1, 2 * r.2.2) :=
  density_dir_eq_und_symm I3 I3_symm (fun i => by simp [I3])
example : Measures.densityDir (Measures.bin I3) = Measures.densityDir I3 := (weights_ignored_density I3).1
example : Measures.assortativityBin (Measures.bin I3) 0 = Measures.assortativityBin I3 0 :=
  weights_ignored_assortativity I3 (fun i j => by simp only [I3, AMat.get_ofFn]; split_ifs <;> norm_num) 0
example : Walks.findwalks (binI I3) = Walks.findwalks I3 := weights_ignored_findwalks I3
example : Comp.getComponents (binI I3) = Comp.getComponents I3 := weights_ignored_components I3 I3_symm
example : Measures.edgeNeiOverlap (Measures.bin I3) = Measures.edgeNeiOverlap I3 := weights_ignored_edge_nei_overlap I3
/-- the reductions are not empty statements: the common value on the triangle is 1 -/
example : (ccWu K3 K3)[(0 : Fin 3)] = some 1 := by
  rw [wu_eq_bu_on01 K3_bin K3_symm K3_diag, ccBu_bin_symm K3_bin K3_symm]
  simp +decide [deg, tri, K3, Fin.sum_univ_three, indK] <;> norm_num

end Examples

end Bct.C10
