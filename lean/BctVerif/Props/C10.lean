import BctVerif.Lemmas.ClusterReduce
import BctVerif.Lemmas.ClusterCbrt
/-!
# C10 — weighted measures reduce to binary on 0/1 input, directed to undirected on symmetric input

Theorems for the clustering / transitivity / degree–strength clauses, about the executable
definitions of `BctVerif/Model/Cluster.lean`.  (The distance / betweenness / efficiency /
assortativity / k-core clauses of C10 are checked on the real code by `harness/props/c10.py`;
their models belong to the C03/C08/C15 slices.)

`Bin W`: all entries 0 or 1; `Symm W`: symmetric; `EmptyDiag W`: empty diagonal;
`IsCbrt R W`: `R` is the entrywise cube root of `W`.  On a 0/1 matrix the cube root is the matrix
itself (`cbrt_on01`, and the executable `rootMat` returns it: `rootMat_on01`).
-/
namespace Bct.C10
open Finset Bct Bct.Cluster

variable {n : ℕ}

/-! ## weighted = binary on 0/1 input -/

theorem cbrt_on01 {W : AMat ℚ n} (hB : Bin W) : IsCbrt W W := isCbrt_of_bin hB
theorem rootMat_on01 {W : AMat ℚ n} (hB : Bin W) : rootMat W = some W := Cluster.rootMat_on01 hB

/-- `clustering_coef_wu(W) = clustering_coef_bu(W)` on 0/1 undirected input -/
theorem wu_eq_bu_on01 {W : AMat ℚ n} (hB : Bin W) (hS : Symm W) (hD : EmptyDiag W) :
    ccWu W W = ccBu W := Cluster.wu_eq_bu_on01 hB hS hD

/-- the same through the executable cube root -/
theorem wu_eq_bu_on01_exec {W : AMat ℚ n} (hB : Bin W) (hS : Symm W) (hD : EmptyDiag W) :
    (rootMat W).map (ccWu W) = some (ccBu W) := by
  rw [Cluster.rootMat_on01 hB, Option.map_some, Cluster.wu_eq_bu_on01 hB hS hD]

/-- `clustering_coef_wd(W) = clustering_coef_bd(W)` on 0/1 input -/
theorem wd_eq_bd_on01 {W : AMat ℚ n} (hB : Bin W) : ccWd W W = ccBd W := Cluster.wd_eq_bd_on01 hB

theorem wd_eq_bd_on01_exec {W : AMat ℚ n} (hB : Bin W) : (rootMat W).map (ccWd W) = some (ccBd W) := by
  rw [Cluster.rootMat_on01 hB, Option.map_some, Cluster.wd_eq_bd_on01 hB]

theorem trans_wu_eq_bu_on01 {W : AMat ℚ n} (hB : Bin W) (hS : Symm W) : transWu W W = transBu W :=
  Cluster.trans_wu_eq_bu_on01 hB hS

theorem trans_wd_eq_bd_on01 {W : AMat ℚ n} (hB : Bin W) : transWd W W = transBd W :=
  Cluster.trans_wd_eq_bd_on01 hB

/-- `strengths_und = degrees_und` and `strengths_dir = degrees_dir[2]` on 0/1 input -/
theorem strength_eq_degree_on01 {W : AMat ℚ n} (hB : Bin W) :
    strengthsUnd W = degreesUnd W ∧ strengthsDir W = degreesTot W :=
  ⟨strengthsUnd_eq_degreesUnd_on01 hB, strengthsDir_eq_degreesTot_on01 hB⟩

/-! ## directed = undirected on symmetric input -/

/-- `clustering_coef_bd(A) = clustering_coef_bu(A)` on symmetric 0/1 input -/
theorem bd_eq_bu_symm {A : AMat ℚ n} (hB : Bin A) (hS : Symm A) (hD : EmptyDiag A) : ccBd A = ccBu A :=
  Cluster.bd_eq_bu_symm hB hS hD

/-- `clustering_coef_wd(W) = clustering_coef_wu(W)` on every symmetric weighted matrix (any weights) -/
theorem wd_eq_wu_symm {W R : AMat ℚ n} (hS : Symm W) (hR : IsCbrt R W) : ccWd W R = ccWu W R :=
  Cluster.wd_eq_wu_symm hS (isCbrt_symm hR hS)

theorem wd_eq_wu_symm_exec {W : AMat ℚ n} (hS : Symm W) :
    (rootMat W).map (ccWd W) = (rootMat W).map (ccWu W) := by
  cases h : rootMat W with
  | none => rfl
  | some R => simp only [Option.map_some]; rw [wd_eq_wu_symm hS (Cluster.rootMat_sound h)]

theorem trans_bd_eq_bu_symm {A : AMat ℚ n} (hB : Bin A) (hS : Symm A) : transBd A = transBu A :=
  Cluster.trans_bd_eq_bu_symm hB hS

theorem trans_wd_eq_wu_symm {W R : AMat ℚ n} (hS : Symm W) (hR : IsCbrt R W) : transWd W R = transWu W R :=
  Cluster.trans_wd_eq_wu_symm hS (isCbrt_symm hR hS)

/-- in-degree = out-degree = undirected degree on symmetric input (`degrees_dir` vs `degrees_und`),
and the total degree is twice that -/
theorem degrees_dir_eq_und_symm {W : AMat ℚ n} (hS : Symm W) :
    degreesIn W = degreesUnd W ∧ degreesOut W = degreesUnd W ∧
    ∀ i : Fin n, (degreesTot W)[i] = 2 * (degreesUnd W)[i] := by
  refine ⟨degreesIn_eq_und W, degreesOut_eq_und_symm hS, fun i => ?_⟩
  simp only [degreesTot, degreesUnd, get_ofFn_vec]
  rw [rowSum_eq_colSum_symm (adj_symm hS)]; ring

/-! ## weight-ignoring routines: same on `W` and `binarize(W)` -/

theorem degrees_ignore_weights (W : AMat ℚ n) :
    degreesUnd (adj W) = degreesUnd W ∧ degreesIn (adj W) = degreesIn W ∧
    degreesOut (adj W) = degreesOut W ∧ degreesTot (adj W) = degreesTot W := by
  refine ⟨degreesUnd_binarize W, ?_, ?_, ?_⟩
  · rw [degreesIn, adj_adj]; rfl
  · rw [degreesOut, adj_adj]; rfl
  · rw [degreesTot, adj_adj]; rfl

/-! ## non-vacuity -/
section Examples

def K3 : AMat ℚ 3 := AMat.ofFn fun i j => if i = j then 0 else 1
def C3 : AMat ℚ 3 := AMat.ofFn fun i j => if j.val = (i.val + 1) % 3 then 1 else 0
def W3 : AMat ℚ 3 := AMat.ofFn fun i j => if i = j then 0 else 1/8
def R3 : AMat ℚ 3 := AMat.ofFn fun i j => if i = j then 0 else 1/2
lemma K3_bin : Bin K3 := fun i j => by simp only [K3, AMat.get_ofFn]; split_ifs <;> simp
lemma K3_symm : Symm K3 := fun i j => by simp only [K3, AMat.get_ofFn, eq_comm]
lemma K3_diag : EmptyDiag K3 := fun i => by simp [K3]
lemma C3_bin : Bin C3 := fun i j => by simp only [C3, AMat.get_ofFn]; split_ifs <;> simp
lemma W3_symm : Symm W3 := fun i j => by simp only [W3, AMat.get_ofFn, eq_comm]
lemma R3_cbrt : IsCbrt R3 W3 := fun i j => by simp only [R3, W3, AMat.get_ofFn]; split_ifs <;> norm_num

example : ccWu K3 K3 = ccBu K3 := wu_eq_bu_on01 K3_bin K3_symm K3_diag
example : (rootMat K3).map (ccWu K3) = some (ccBu K3) := wu_eq_bu_on01_exec K3_bin K3_symm K3_diag
example : ccWd C3 C3 = ccBd C3 := wd_eq_bd_on01 C3_bin
example : (rootMat C3).map (ccWd C3) = some (ccBd C3) := wd_eq_bd_on01_exec C3_bin
example : transWu K3 K3 = transBu K3 := trans_wu_eq_bu_on01 K3_bin K3_symm
example : transWd C3 C3 = transBd C3 := trans_wd_eq_bd_on01 C3_bin
example : strengthsDir C3 = degreesTot C3 := (strength_eq_degree_on01 C3_bin).2
example : ccBd K3 = ccBu K3 := bd_eq_bu_symm K3_bin K3_symm K3_diag
example : ccWd W3 R3 = ccWu W3 R3 := wd_eq_wu_symm W3_symm R3_cbrt
example : (rootMat W3).map (ccWd W3) = (rootMat W3).map (ccWu W3) := wd_eq_wu_symm_exec W3_symm
example : transBd K3 = transBu K3 := trans_bd_eq_bu_symm K3_bin K3_symm
example : transWd W3 R3 = transWu W3 R3 := trans_wd_eq_wu_symm W3_symm R3_cbrt
example : degreesOut W3 = degreesUnd W3 := (degrees_dir_eq_und_symm W3_symm).2.1
example : degreesUnd (adj W3) = degreesUnd W3 := (degrees_ignore_weights W3).1
/-- the reductions are not empty statements: the common value on the triangle is 1 -/
example : (ccWu K3 K3)[(0 : Fin 3)] = some 1 := by
  rw [wu_eq_bu_on01 K3_bin K3_symm K3_diag, ccBu_bin_symm K3_bin K3_symm]
  simp +decide [deg, tri, K3, Fin.sum_univ_three, ind] <;> norm_num

end Examples

end Bct.C10
