import BctVerif.Lemmas.ModularityLabels
import BctVerif.Lemmas.ModularityBisect
import BctVerif.Lemmas.ModularityScale
import BctVerif.Lemmas.ModularityLouvainDir
import BctVerif.Props.CoresMod

/-!
# C02 — community detectors return a valid partition and its true modularity

All statements are about the executable model `BctVerif/Model/Modularity.lean` (core `Rat`), for every
size `n`, every rational matrix, every rational `γ`, every start partition and every list of draws.
-/
namespace Bct.C02
open Bct Bct.Modularity Finset

variable {n : ℕ}
variable {g0 : GState}

/-- **relabel_range** — `relabel c = np.unique(c, return_inverse=True)[1] + 1` takes exactly the values
`1..k`, `k` the number of distinct labels of `c`, and preserves co-membership. -/
theorem relabel_range (c : Fin n → ℤ) :
    numLabels c = (univ.image c).card ∧
    (∀ i, 1 ≤ relabel c i ∧ relabel c i ≤ numLabels c) ∧
    (∀ l, 1 ≤ l → l ≤ numLabels c → ∃ i, relabel c i = l) ∧
    (∀ i j, relabel c i = relabel c j ↔ c i = c j) := by
  refine ⟨numLabels_eq_card c, fun i => ⟨by simp [relabel], ?_⟩, ?_, ?_⟩
  · have := rank_lt_numLabels c i; simp only [relabel]; omega
  · intro l h1 h2
    obtain ⟨i, hi⟩ := rank_surj c (l - 1) (by omega)
    exact ⟨i, by simp only [relabel]; omega⟩
  · intro i j; simp only [relabel, Nat.add_right_cancel_iff]; exact rank_eq_iff c i j

/-- the label vectors the routines return (`toLab`) are these ranks; the error branch is never taken -/
theorem returned_labels_are_ranks (c : Fin n → ℤ) :
    ∃ l : Lab n, toLab c = .ok l ∧ ∀ i : Fin n, (l[i] : ℕ) + 1 = relabel c i := by
  obtain ⟨l, h, hl⟩ := toLab_ok c
  exact ⟨l, h, fun i => by simp only [relabel, Nat.add_right_cancel_iff]; exact hl i⟩

/-- **q_formula_dir** — the closed form `trace(w)/s − γ·Σ(w/s · w/s)` of the module-aggregated matrix
(`modularity_finetune_dir`, `modularity_louvain_dir`) is the directed modularity of the partition. -/
theorem q_formula_dir (W : RMat n) (γ : ℚ) (m : Lab n) :
    qTraceDot (aggFull W m) (total W) γ = Qdir W γ (labOf m) := qTraceDot_aggFull W γ m

/-- **q_formula_und** — for symmetric `W` the same closed form with the two write orders used by
`modularity_finetune_und` (`aggLower`) and `modularity_louvain_und` (`aggUpper`) is the undirected modularity. -/
theorem q_formula_und (W : RMat n) (γ : ℚ) (hW : Symm W) (m : Lab n) :
    qTraceDot (aggLower W m) (total W) γ = Qund W γ (labOf m) ∧
    qTraceDot (aggUpper W m) (total W) γ = Qund W γ (labOf m) := by
  rw [aggLower_eq W hW, aggUpper_eq W hW, qTraceDot_aggFull, Qund_eq_Qdir W γ hW]
  exact ⟨rfl, rfl⟩

/-- **q_formula_obj** — `community_louvain` reports `trace` of the aggregated objective matrix, which is
the objective of the partition; for `B='modularity'` (symmetrised) that is `s` times the directed modularity. -/
theorem q_formula_obj (B : RMat n) (hB : Symm B) (m : Lab n) (W : RMat n) (γ : ℚ) :
    trace (aggUpper B m) = Qobj B (labOf m) ∧
    Qobj (objMatrix W γ .modularity) (labOf m) / total W = Qdir W γ (labOf m) := by
  refine ⟨?_, ?_⟩
  · rw [trace_eq_Qobj_id, aggUpper_eq B hB, Qobj_aggFull]; rfl
  · rw [Qobj_objMatrix]; rfl

/-- **aggregate_Q** — modularity of the aggregated network under any partition of the super-nodes =
modularity of the original network under the induced partition; hence every hierarchy level is a
consistent `(ci, q)` pair. -/
theorem aggregate_Q (W : RMat n) (γ : ℚ) (m : Lab n) (c' : Fin n → Fin n) :
    Qdir (aggFull W m) γ c' = Qdir W γ (fun i => c' (labOf m i)) := aggregate_Qdir W γ m c'

/-- undirected version (symmetric `W`, aggregation as written in `modularity_louvain_und`) -/
theorem aggregate_Q_und (W : RMat n) (γ : ℚ) (hW : Symm W) (m : Lab n) (c' : Fin n → Fin n) :
    Qund (aggUpper W m) γ c' = Qund W γ (fun i => c' (labOf m i)) := by
  rw [aggUpper_eq W hW, Qund_eq_Qdir _ γ (aggFull_symm W hW m), Qund_eq_Qdir W γ hW]
  exact aggregate_Qdir W γ m c'

/-- **modularity_dir_given** — `modularity_dir(A, gamma, kci)` returns the directed modularity of `kci`. -/
theorem modularity_dir_given {α : Type} [DecidableEq α] (W : RMat n) (γ : ℚ) (c : Fin n → α) :
    modularityDirGiven W γ c = Qdir W γ c := modularityDirGiven_eq W γ c

/-- **modularity_und_given** — for symmetric `A`, `modularity_und(A, gamma, kci)` returns the modularity of `kci`. -/
theorem modularity_und_given {α : Type} [DecidableEq α] (W : RMat n) (γ : ℚ) (hW : Symm W) (c : Fin n → α) :
    modularityUndGiven W γ c = Qund W γ c := modularityUndGiven_eq W γ hW c

/-- **modularity_finetune_und** — labels are ranks (so exactly `1..k`), reported `q` is the modularity of
the returned partition (see `Bct.C07.finetune_und_monotone` for the other half). -/
theorem finetune_und_consistent (W : RMat n) (γ : ℚ) (c0 : Fin n → ℤ) (ds : List ℕ) (out : Out n)
    (hW : Symm W) (hs : 0 < total W) (h : finetuneUnd W γ c0 ds g0 = .ok out) :
    ∃ (c' : Lab n) (q : ℚ) (mfin : Fin n → ℤ), out.levels = [(c', q)] ∧
      (∀ i : Fin n, (c'[i] : ℕ) + 1 = relabel mfin i) ∧ q = Qund W γ (labOf c') := by
  obtain ⟨c', q, mfin, h1, h2, h3, _⟩ := finetuneUnd_spec W γ c0 ds out hW hs h
  exact ⟨c', q, mfin, h1, fun i => by simp only [relabel, Nat.add_right_cancel_iff]; exact h2 i, h3⟩

/-- **modularity_louvain_und** — every level in `out.levels` (`hierarchy=True` returns them all, the plain call the
last) is a consistent pair: the reported `q[h]` is the modularity of `ci[h]` on the original network — unconditionally,
for every `.ok` run (there is no placeholder level any more: `/repo` starts from `q[0] = -inf`). -/
theorem louvain_und_levels_consistent (W : RMat n) (γ : ℚ) (ds : List ℕ) (out : Out n)
    (hW : Symm W) (hs : 0 < total W) (h : louvainUnd W γ ds g0 = .ok out) :
    ∀ p ∈ out.levels, p.2 = Qund W γ (labOf p.1) :=
  fun p hp => ((louvainUnd_spec W γ ds out hW hs h).1 p hp).1

/-- **the plain call always returns a level** — a run that is not cut short by the draw list keeps at least one level
(the first one is kept unconditionally), whatever the signs of the weights and whatever `γ`. -/
theorem louvain_und_returns_level (W : RMat n) (γ : ℚ) (ds : List ℕ) (out : Out n)
    (hW : Symm W) (hs : 0 < total W) (h : louvainUnd W γ ds g0 = .ok out) (hst : out.starved = none) :
    1 ≤ out.levels.length :=
  (louvainUnd_spec W γ ds out hW hs h).2.2 hst

/-- **community_louvain** — for every objective (built-in or custom) and every, also directed, `W` the
reported `q` is the objective of the returned partition (`/ s` unless renormalised), the objective being
`Σ_{ci=cj}` of the objective matrix of that type (`objMatrixRaw`; symmetrising it does not change the sum). -/
theorem community_louvain_consistent (W : RMat n) (γ : ℚ) (obj : Objective n) (c0 : Fin n → ℤ) (ds : List ℕ) (out : Out n)
    (h : communityLouvain W γ obj c0 ds g0 = .ok out) :
    ∀ p ∈ out.levels,
      p.2 = (if obj.renorm then Qobj (objMatrixRaw W γ obj) (labOf p.1) else Qobj (objMatrixRaw W γ obj) (labOf p.1) / total W) := by
  intro p hp
  have := (communityLouvain_spec W γ obj c0 ds out (objMatrix_symm' W γ obj) h p hp).1
  rw [Qobj_objMatrix] at this
  exact this

/-- every objective matrix is symmetric as `community_louvain` builds it (`B = (B + B.T)/2` for all
objectives — defects D7 / M2 stay repaired) -/
theorem objMatrix_symm (W : RMat n) (γ : ℚ) (obj : Objective n) : Symm (objMatrix W γ obj) :=
  objMatrix_symm' W γ obj

/-- **q_formula_sign** — both closed forms of the signed routines equal the definition `Qsign qtype γ`:
the `d0·Σq0 − d1·Σq1` form of the fine-tuners / probtune / `modularity_und_sign`, and the `trace/dot`
form of `modularity_louvain_und_sign` on the aggregated positive and negative matrices. -/
theorem q_formula_sign (t : QType) (W : RMat n) (γ : ℚ) (hW : Symm W) (c m : Lab n) :
    qSignOuter (signInitFine t W γ c) m = Qsign t W γ (labOf m) ∧
    qSignTraceDot (aggUpper (posPart W) m) (aggUpper (negPart W) m) (adj (total (posPart W))) (adj (total (negPart W)))
        (scales t (total (posPart W)) (total (negPart W))).1 (scales t (total (posPart W)) (total (negPart W))).2 γ
      = Qsign t W γ (labOf m) := by
  refine ⟨qSignOuter_eq t W γ hW c m, ?_⟩
  rw [qSignTraceDot_eq _ _ _ _ _ _ _ (posPart_symm W hW) (negPart_symm W hW), Qsign_eq]
  rfl

/-- **modularity_und_sign_given** — `modularity_und_sign(W, ci, qtype)` returns the relabelled partition
and its signed modularity (γ = 1). -/
theorem modularity_und_sign_given (t : QType) (W : RMat n) (hW : Symm W) (c0 : Fin n → ℤ) :
    ∃ c : Lab n, modularityUndSignGiven t W c0 = .ok (c, Qsign t W 1 c0) ∧
      ∀ i : Fin n, (c[i] : ℕ) + 1 = relabel c0 i := by
  obtain ⟨c, h, hr⟩ := modularityUndSignGiven_spec t W hW c0
  exact ⟨c, h, fun i => by simp only [relabel, Nat.add_right_cancel_iff]; exact hr i⟩

/-- **signed optimisers** — `modularity_finetune_und_sign`, `modularity_probtune_und_sign` and every level of
`modularity_louvain_und_sign` report the signed modularity (given `qtype`, `γ`) of the partition they return; a Louvain run that
is not cut short by the draw list has at least one level (the routine returns the last one). -/
theorem sign_routines_consistent (t : QType) (W : RMat n) (γ : ℚ) (hW : Symm W) (c0 : Fin n → ℤ) (ds : List ℕ) (out : Out n) :
    (finetuneSign t W γ c0 ds g0 = .ok out → ∀ p ∈ out.levels, p.2 = Qsign t W γ (labOf p.1)) ∧
    (∀ pr : ℚ, probtuneSign t W γ pr c0 ds g0 = .ok out → ∀ p ∈ out.levels, p.2 = Qsign t W γ (labOf p.1)) ∧
    (louvainSign t W γ ds g0 = .ok out →
      (∀ p ∈ out.levels, p.2 = Qsign t W γ (labOf p.1)) ∧ (out.starved = none → 1 ≤ out.levels.length)) := by
  refine ⟨fun h p hp => (finetuneSign_spec t W γ c0 ds out hW h p hp).1,
    fun pr h p hp => probtuneSign_spec t W γ pr c0 ds out hW h p hp, fun h => ?_⟩
  obtain ⟨h2, h3⟩ := louvainSign_spec t W γ ds out hW h
  exact ⟨fun p hp => (h2 p hp).1, h3⟩

/-- **modularity_finetune_dir** reports the directed modularity of what it returns, for every (also
asymmetric) `W`. -/
theorem finetune_dir_consistent (W : RMat n) (γ : ℚ) (c0 : Fin n → ℤ) (ds : List ℕ) (out : Out n)
    (h : finetuneDir W γ c0 ds g0 = .ok out) : ∀ p ∈ out.levels, p.2 = Qdir W γ (labOf p.1) :=
  finetuneDir_q W γ c0 ds out h

/-- the built-in objectives of `community_louvain` are the named quality functions: `'modularity'` = `Qdir`
(`q_formula_obj`), `'potts'` = `Qpotts`, `'negative_sym'` = signed type `gja`, `'negative_asym'` = signed type `sta`. -/
theorem community_louvain_objectives (W : RMat n) (γ : ℚ) (hs0 : total (posPart W) ≠ 0) (c : Fin n → Fin n) :
    Qobj (objMatrixRaw W γ .potts) c / total W = Qpotts W γ c ∧
    Qobj (objMatrixRaw W γ .negSym) c = Qsign .gja W γ c ∧
    Qobj (objMatrixRaw W γ .negAsym) c = Qsign .sta W γ c := by
  refine ⟨rfl, ?_, ?_⟩
  · rw [(objMatrixRaw_neg_eq W γ hs0).1, Qsign_eq]
  · rw [(objMatrixRaw_neg_eq W γ hs0).2, Qsign_eq]

/-- **labels_range (single-level routines)** — the label vector *returned by* the models of
`modularity_finetune_und`, `modularity_finetune_dir`, `modularity_finetune_und_sign` and
`modularity_probtune_und_sign` (every `qtype`, every probability `p`) is exactly `1..k`. -/
theorem labels_range_single (W : RMat n) (γ : ℚ) (c0 : Fin n → ℤ) (ds : List ℕ) (out : Out n) :
    (finetuneUnd W γ c0 ds g0 = .ok out → ∀ p ∈ out.levels, LabelsExact p.1) ∧
    (finetuneDir W γ c0 ds g0 = .ok out → ∀ p ∈ out.levels, LabelsExact p.1) ∧
    (∀ t : QType, finetuneSign t W γ c0 ds g0 = .ok out → ∀ p ∈ out.levels, LabelsExact p.1) ∧
    (∀ (t : QType) (pr : ℚ), probtuneSign t W γ pr c0 ds g0 = .ok out → ∀ p ∈ out.levels, LabelsExact p.1) :=
  single_level_labels_exact W γ c0 ds out

/-- `modularity_und_sign(W, ci, qtype)` returns the given partition relabelled to exactly `1..k` -/
theorem labels_range_und_sign_given (t : QType) (W : RMat n) (c0 : Fin n → ℤ) (c : Lab n) (q : ℚ)
    (h : modularityUndSignGiven t W c0 = .ok (c, q)) : LabelsExact c := by
  unfold modularityUndSignGiven at h
  obtain ⟨l, hl, _⟩ := toLab_ok c0
  simp only [hl, bind, Except.bind, pure, Except.pure, Except.ok.injEq, Prod.mk.injEq] at h
  obtain ⟨rfl, _⟩ := h
  exact toLab_labelsExact c0 l hl

/-- **labels_range (level routines)** — every level of `modularity_louvain_und`,
`modularity_louvain_und_sign` and `community_louvain` (labels are compositions of rank vectors along the
hierarchy) carries labels that are exactly `1..k`: sweeps never leave the `nh` active super-nodes and the
composite labelling stays onto them. -/
theorem labels_range_levels (W : RMat n) (γ : ℚ) (ds : List ℕ) (out : Out n) :
    (louvainUnd W γ ds g0 = .ok out → ∀ p ∈ out.levels, LabelsExact p.1) ∧
    (∀ t : QType, louvainSign t W γ ds g0 = .ok out → ∀ p ∈ out.levels, LabelsExact p.1) ∧
    (∀ (obj : Objective n) (c0 : Fin n → ℤ), communityLouvain W γ obj c0 ds g0 = .ok out →
      ∀ p ∈ out.levels, LabelsExact p.1) :=
  levels_labels_exact W γ ds out

/-- **recur_partition** — the spectral path of `modularity_und` / `modularity_dir` (`kci=None`): for every list
of eigen-solver decisions the module list produced by the recursive bisection lists every node exactly
once and has no empty module. -/
theorem recur_partition (fuel : ℕ) (m : List (Fin n)) (ds rest : List (Option (List Bool)))
    (ls : List (List (Fin n))) (h : bisectL fuel m ds = .ok (ls, rest)) :
    ls.flatten.Perm m ∧ (m ≠ [] → ∀ part ∈ ls, part ≠ []) := bisectL_partition fuel m ds rest ls h

/-- **spectral path, whole run (`spectralRun` is what the driver's `spectral` op executes on the sign vectors
recorded from the real call)** — for *every* oracle the returned labels are exactly `1..k` and the returned
`q` is the modularity of the returned partition: `Qdir` for `modularity_dir`, `Qund` for `modularity_und`
on symmetric input.  The eigen-solver (LAPACK) and the float sign-flipping loop are inputs, not modelled. -/
theorem spectral_consistent (dir : Bool) (W : RMat n) (γ : ℚ) (ds : List (Option (List Bool)))
    (ci : Fin n → ℕ) (q : ℚ) (left : ℕ) (hn : 0 < n) (h : spectralRun dir W γ ds = .ok (ci, q, left)) :
    (∃ k, (∀ i, 1 ≤ ci i ∧ ci i ≤ k) ∧ ∀ l, 1 ≤ l → l ≤ k → ∃ i, ci i = l) ∧
    (dir = true → q = Qdir W γ ci) ∧ (dir = false → Symm W → q = Qund W γ ci) :=
  spectralRun_spec dir W γ ds ci q left hn h

/-- **Q_scale_invariant** — the quality functions do not change when every weight is multiplied by the same factor
(`c ≠ 0`; `c > 0` for the signed types, which split the weights by sign).  This is why the check may feed the
real routines `W·2^e` while the model keeps the unscaled integer weights. -/
theorem Q_scale_invariant {α : Type} [DecidableEq α] (c : ℚ) (W : RMat n) (γ : ℚ) (p : Fin n → α) :
    (c ≠ 0 → Qdir (scaleMat c W) γ p = Qdir W γ p ∧ Qund (scaleMat c W) γ p = Qund W γ p) ∧
    (0 < c → ∀ t : QType, Qsign t (scaleMat c W) γ p = Qsign t W γ p) :=
  ⟨fun hc => ⟨Qdir_scale c hc W γ p, Qund_scale c hc W γ p⟩, fun hc t => Qsign_scale t c hc W γ p⟩

/-- **modularity_louvain_dir, the clauses that are true of the code as written (open defect D6)** — every level
carries labels exactly `1..k`, and the first hierarchy level (`out.levels[0]`)
reports exactly the directed modularity of its partition, for every (also asymmetric) `W`.  Levels `≥ 2`
are *not* consistent (see the comment below and `Bct.C07.louvain_dir_inconsistent_witness`). -/
theorem louvain_dir_labels_and_level1 (W : RMat n) (γ : ℚ) (ds : List ℕ) (out : Out n)
    (h : louvainDir W γ ds g0 = .ok out) :
    (∀ p ∈ out.levels, LabelsExact p.1) ∧ (∀ p, out.levels[0]? = some p → p.2 = Qdir W γ (labOf p.1)) :=
  ⟨louvainDir_labels W γ ds out h, louvainDir_level1 W γ ds out h⟩

/-- **modularity_louvain_dir, runs that keep at most one level** — the open defect D6 (`W = W1` never assigned) can only show
from the second kept level on: a run whose hierarchy has at most one level reports exactly the directed modularity of the
partition it returns, for every (also asymmetric) `W`.  (That its gains are exact as well needs symmetric `W`:
`Bct.C07.louvain_dir_level1_monotone_symm`.) -/
theorem louvain_dir_single_level (W : RMat n) (γ : ℚ) (ds : List ℕ) (out : Out n)
    (h : louvainDir W γ ds g0 = .ok out) (h1 : out.levels.length ≤ 1) :
    ∀ p ∈ out.levels, p.2 = Qdir W γ (labOf p.1) := by
  intro p hp
  refine louvainDir_level1 W γ ds out h p ?_
  cases hl : out.levels with
  | nil => rw [hl] at hp; simp at hp
  | cons a tl =>
    rw [hl] at hp h1
    have : tl = [] := by
      cases tl with
      | nil => rfl
      | cons b tl' => simp at h1
    subst this
    simp only [List.mem_singleton] at hp
    simp [hp]

/-- **modularity_probtune_und_sign** — for every start, every probability `p`, every `qtype` and every draw list (visiting
order, uniform draws, random targets): the returned labels are exactly `1..k` and the returned `q` is the signed modularity of
the returned partition. -/
theorem probtune_sign_consistent (t : QType) (W : RMat n) (γ pr : ℚ) (c0 : Fin n → ℤ) (ds : List ℕ) (out : Out n)
    (hW : Symm W) (h : probtuneSign t W γ pr c0 ds g0 = .ok out) :
    ∀ p ∈ out.levels, LabelsExact p.1 ∧ p.2 = Qsign t W γ (labOf p.1) :=
  fun p hp => ⟨(single_level_labels_exact W γ c0 ds out).2.2.2 t pr h p hp, probtuneSign_spec t W γ pr c0 ds out hW h p hp⟩

/-- **community_louvain, every built-in objective, in terms of the named quality functions** — the returned `q` is
`Qdir` (`'modularity'`), `Qpotts` (`'potts'`), `Qsign gja` (`'negative_sym'`), `Qsign sta` (`'negative_asym'`) of the returned
partition, for every (also directed) `W`; for the two signed objectives whatever the sign of `total W` (the model, like the
routine, only needs `total W ≠ 0` — it is the `.ok` hypothesis — and positive weights present). -/
theorem community_louvain_named_consistent (W : RMat n) (γ : ℚ) (c0 : Fin n → ℤ) (ds : List ℕ) (out : Out n) :
    (communityLouvain W γ .modularity c0 ds g0 = .ok out → ∀ p ∈ out.levels, p.2 = Qdir W γ (labOf p.1)) ∧
    (communityLouvain W γ .potts c0 ds g0 = .ok out → ∀ p ∈ out.levels, p.2 = Qpotts W γ (labOf p.1)) ∧
    (total (posPart W) ≠ 0 → communityLouvain W γ .negSym c0 ds g0 = .ok out →
      ∀ p ∈ out.levels, p.2 = Qsign .gja W γ (labOf p.1)) ∧
    (total (posPart W) ≠ 0 → communityLouvain W γ .negAsym c0 ds g0 = .ok out →
      ∀ p ∈ out.levels, p.2 = Qsign .sta W γ (labOf p.1)) := by
  refine ⟨fun h p hp => ?_, fun h p hp => ?_, fun hs0 h p hp => ?_, fun hs0 h p hp => ?_⟩
  · have := community_louvain_consistent W γ .modularity c0 ds out h p hp
    simpa [Objective.renorm, objMatrixRaw, Qdir] using this
  · have := community_louvain_consistent W γ .potts c0 ds out h p hp
    simpa [Objective.renorm, objMatrixRaw, Qpotts] using this
  · have := community_louvain_consistent W γ .negSym c0 ds out h p hp
    simp only [Objective.renorm, if_true] at this
    rw [this, (objMatrixRaw_neg_eq W γ hs0).1, Qsign_eq]
  · have := community_louvain_consistent W γ .negAsym c0 ds out h p hp
    simp only [Objective.renorm, if_true] at this
    rw [this, (objMatrixRaw_neg_eq W γ hs0).2, Qsign_eq]

/-- **modularity_und / modularity_dir end to end** — ag-tgen's link theorems tie the statements extracted from the *source* of the two
routines (the modularity matrix and the final `q` expression; obligation `modOk …`, regenerated and decided on every run) to
`modularityUndGiven` / `modularityDirGiven`; together with `modularity_und_given` / `modularity_dir_given` this gives, for whatever
label vector `c` reaches the `q` statement — the caller's `kci` or the labels the spectral branch produced (`spectral_consistent`:
exactly `1..k` for every eigen-solver oracle): the `q` the source computes is the modularity of `c`. -/
theorem given_and_spectral_q_linked (W : RMat n) (γ : ℚ) (c : Fin n → ℤ) (hs : total W ≠ 0)
    (irU irD : Bct.CoreIR.Mod.ModIR) :
    (Bct.CoreIR.Mod.modOk Bct.CoreIR.Mod.refUnd irU = true → Symm W →
      Bct.CoreIR.Mod.runQ irU (Bct.Cores.Clust.embA W) γ (Bct.Cores.Mod.embC c) = .sc (.num (Qund W γ c))) ∧
    (Bct.CoreIR.Mod.modOk Bct.CoreIR.Mod.refDir irD = true →
      Bct.CoreIR.Mod.runQ irD (Bct.Cores.Clust.embA W) γ (Bct.Cores.Mod.embC c) = .sc (.num (Qdir W γ c))) := by
  refine ⟨fun hok hW => ?_, fun hok => ?_⟩
  · rw [Bct.Cores.Mod.link_mod_und irU hok W γ c hs, modularityUndGiven_eq W γ hW c]
  · rw [Bct.Cores.Mod.link_mod_dir irD hok W γ c hs, modularityDirGiven_eq W γ c]

/-
**Partial / not claimed.** `modularity_louvain_dir` is modelled *as coded* (defect D6: `W = W1` never assigned,
`knm_i = W.copy()`); the full statement
  `∀ W γ ds out, 0 < total W → louvainDir W γ ds g0 = .ok out → ∀ p ∈ out.levels.drop 1, p.2 = Qdir W γ (labOf p.1)`
is FALSE for it — `Bct.C07.louvain_dir_inconsistent_witness` proves the negation on a recorded input — and is
an open known finding of the check.  What is proved for it: `louvain_dir_labels_and_level1`; for the directed family: `q_formula_dir` (the closed form
the routine evaluates *would* be the modularity of the level's partition had it been applied to the
aggregated matrix) and `finetune_dir_consistent`.
-/

/-! ### non-vacuity: concrete inputs meeting the hypotheses -/

/-- path graph on 3 nodes -/
def Wex : RMat 3 := AMat.ofFn fun i j => if (i.val + 1 = j.val) ∨ (j.val + 1 = i.val) then 1 else 0
/-- a directed 3-node network -/
def Dex : RMat 3 := AMat.ofFn fun i j => if i.val + 1 = j.val then 2 else if i.val = 2 ∧ j.val = 0 then 1 else 0

def isOk {α : Type} : Except Err α → Bool | .ok _ => true | .error _ => false

example : Symm Wex := by unfold Symm; decide +kernel
example : (0 : ℚ) < total Wex := by decide +kernel
example : relabel (fun i : Fin 3 => ([7, -2, 7] : List ℤ)[i.val]!) 0 = 2 := by decide
example : numLabels (fun i : Fin 3 => ([7, -2, 7] : List ℤ)[i.val]!) = 2 := by decide
example : isOk (finetuneUnd Wex 1 (fun i => (i.val : ℤ)) [0, 1, 2, 2, 1, 0]) = true := by decide +kernel
example : isOk (louvainUnd Wex (3/4) [0, 1, 2, 2, 1, 0, 0, 0]) = true := by decide +kernel
example : isOk (communityLouvain Dex 1 .modularity (fun i => (i.val : ℤ)) [0, 1, 2, 2, 1, 0, 0, 1, 0]) = true := by decide +kernel
example : qTraceDot (aggFull Dex (idLab 3)) (total Dex) 1 = Qdir Dex 1 (labOf (idLab 3)) := q_formula_dir _ _ _
/-- a signed symmetric network -/
def Sex : RMat 3 := AMat.ofFn fun i j => if i = j then 0 else if i.val + j.val = 1 then 2 else if i.val + j.val = 2 then -1 else 1
example : Symm Sex := by unfold Symm; decide +kernel
example : total (posPart Sex) ≠ 0 := by decide +kernel
example : isOk (finetuneSign .sta Sex (5/4) (fun _ => (0 : ℤ)) [0, 1, 2, 2, 1, 0, 1, 0, 2]) = true := by decide +kernel
example : isOk (louvainSign .gja Sex 1 [0, 1, 2, 2, 1, 0, 0, 1, 1, 0, 0]) = true := by decide +kernel
example : isOk (probtuneSign .smp Sex 1 (1/2) (fun _ => (0 : ℤ)) [0, 1, 2, 0, 1, 9007199254740991, 9007199254740991]) = true := by decide +kernel
example : isOk (finetuneDir Dex 1 (fun _ => (0 : ℤ)) [0, 1, 2, 2, 1, 0]) = true := by decide +kernel
example : isOk (modularityUndSignGiven .neg Sex (fun i => (i.val : ℤ) % 2)) = true := by decide +kernel
def specLabels {n : ℕ} : Except Err ((Fin n → ℕ) × ℚ × ℕ) → List ℕ
  | .ok r => (List.finRange n).map r.1 | .error _ => []
example : specLabels (spectralRun false Wex 1 [some [true, false, false], none, some [true, false], none, none]) = [1, 2, 3] := by
  decide +kernel
-- recorded runs: a single-level `louvainDir` run (bct seed 879105211 on the 8-node witness of D6), and `community_louvain` with a signed
-- objective on a network whose total weight is NEGATIVE
def nlev {n : ℕ} : Except Err (Out n) → ℕ | .ok o => o.levels.length | .error _ => 0
def Nneg : RMat 3 := AMat.ofFn fun i j => if i = j then 0 else if i.val + j.val = 1 then 2 else -3
example : total Nneg < 0 ∧ total (posPart Nneg) ≠ 0 := by decide +kernel
example : isOk (communityLouvain Nneg (3/4) .negSym (fun i => (i.val : ℤ)) [0, 1, 2, 2, 1, 0, 0, 1, 1, 0, 0, 0]) = true := by decide +kernel
example : isOk (communityLouvain Nneg 1 .negAsym (fun _ => (0 : ℤ)) [2, 1, 0, 0, 1, 2, 0, 1, 1, 0, 0, 0]) = true := by decide +kernel
def Wd8 : RMat 8 := AMat.ofFn fun i j =>
  (([[0, 0, 0, 1, 0, 0, 0, 0], [0, 0, 1, 0, 0, 0, 0, 0], [1, 0, 0, 0, 0, 0, 0, 0], [0, 0, 0, 0, 0, 0, 1, 0],
     [1, 1, 0, 0, 0, 0, 1, 0], [0, 1, 0, 0, 0, 0, 0, 0], [0, 0, 0, 0, 0, 1, 0, 0], [0, 0, 0, 0, 0, 0, 0, 0]] : List (List ℚ)).getD i.val []).getD j.val 0
example : nlev (louvainDir Wd8 (5/4) [6, 7, 2, 1, 5, 0, 3, 4, 6, 0, 3, 5, 2, 7, 1, 4, 5, 4, 0, 2, 3, 6, 1, 4, 6, 3, 1, 5, 0, 2]) = 1 := by
  decide +kernel
example : modularityDirGiven Dex 1 (fun i : Fin 3 => i.val % 2) = -8/25 := by decide +kernel

end Bct.C02
