import BctVerif.Model.CoreIRDijk
import Mathlib.Tactic.Ring
import Mathlib.Data.List.Basic

/-!
# C03 (second tie) — link theorem for the source-extracted relaxation block of `distance_wei`
-/

namespace Bct.Cores.Dijk
open Bct Bct.Dist Bct.CoreIR.Dijk

variable {n : ℕ}

/-- `G1[v, w]` as the source keeps it: the length of `v → w` while `w` is temporary, `0` for "no connection" and for
settled `w` (`G1[:, V] = 0`) -/
def g1cell (L : AMat Ext n) (S : Vector Bool n) (v w : Fin n) : V :=
  if S[w] then (match L.get v w with | .fin q => .ext (.fin q) | .inf => .ext (.fin 0)) else .ext (.fin 0)

theorem block_spec (L : AMat Ext n) (st : DSt n) (Dm Bm G1 : AMat V n) (u v : Fin n)
    (hD : ∀ w, Dm.get u w = .ext st.D[w]) (hB : ∀ w, Bm.get u w = .nat st.B[w])
    (hG : ∀ w, G1.get v w = g1cell L st.S v w) (hL : ∀ w q, L.get v w = .fin q → q ≠ 0) :
    ∃ D' B', runBlock refIR Dm Bm G1 u v = some (D', B') ∧
      (∀ w, D'.get u w = .ext (relaxFrom L st v).D[w]) ∧ (∀ w, B'.get u w = .nat (relaxFrom L st v).B[w]) ∧
      (∀ a w, a ≠ u → D'.get a w = Dm.get a w ∧ B'.get a w = Bm.get a w) := by
  have hnz : ∀ w, (G1.get v w).nonzero = some (st.S[w] && (L.get v w).isFin) := by
    intro w
    rw [hG, g1cell]
    cases hs : st.S[w]
    · simp [V.nonzero]
    · cases hl : L.get v w with
      | fin q => simp [V.nonzero, Ext.isFin, hL w q hl]
      | inf => simp [V.nonzero, Ext.isFin]
  have hall : ((List.finRange n).all fun w => ((G1.get v w).nonzero).isSome) = true := by
    simp [hnz]
  simp only [runBlock, refIR, refBody, execs, exec, evalL]
  simp [hnz]
  have hadd_inf : ∀ x : Ext, x + Ext.inf = Ext.inf := by
    intro x; cases x <;> rfl
  refine ⟨?_, ?_, ?_⟩
  · intro w
    simp only [relaxFrom, Fin.getElem_fin, Vector.getElem_ofFn, hD, hG, g1cell]
    cases hs : st.S[w.val]
    · simp
    · cases hl : L.get v w with
      | fin q =>
        simp only [Ext.isFin, and_self, if_true, V.add, V.min2, Ext.min, Bool.true_and]
      | inf =>
        simp [Ext.isFin, hadd_inf, Ext.lt]
  · intro w
    simp only [relaxFrom, Fin.getElem_fin, Vector.getElem_ofFn, hD, hB, hG, g1cell]
    cases hs : st.S[w.val]
    · simp
    · cases hl : L.get v w with
      | fin q =>
        simp only [Ext.isFin, and_self, and_true, V.add, V.argmin2, Bool.true_and]
        cases hlt : Ext.lt (st.D[v.val] + Ext.fin q) st.D[w.val] <;> simp [hlt]
      | inf =>
        simp [Ext.isFin, hadd_inf, Ext.lt]
  · intro a w ha
    exact ⟨fun h => absurd h ha, fun h => absurd h ha⟩

/-- **Link, relaxation block of `distance_wei`.**  If the generated obligation holds, the extracted body of `for v in V:`,
run by the interpreter on matrices whose row `u` holds the model state (`D[u, :]`, `B[u, :]`) and whose `G1[v, :]` is the
row of lengths restricted to temporary nodes (the invariant maintained by `S[V] = 0; G1[:, V] = 0`), leaves exactly
`Dist.relaxFrom L st v` in row `u` of `D` and `B` and touches no other row. -/
theorem link_relax (ir : RelaxIR) (hok : relaxOk ir = true) (L : AMat Ext n) (st : DSt n) (Dm Bm G1 : AMat V n) (u v : Fin n)
    (hD : ∀ w, Dm.get u w = .ext st.D[w]) (hB : ∀ w, Bm.get u w = .nat st.B[w])
    (hG : ∀ w, G1.get v w = g1cell L st.S v w) (hL : ∀ w q, L.get v w = .fin q → q ≠ 0) :
    ∃ D' B', runBlock ir Dm Bm G1 u v = some (D', B') ∧
      (∀ w, D'.get u w = .ext (relaxFrom L st v).D[w]) ∧ (∀ w, B'.get u w = .nat (relaxFrom L st v).B[w]) ∧
      (∀ a w, a ≠ u → D'.get a w = Dm.get a w ∧ B'.get a w = Bm.get a w) := by
  have hir : ir = refIR := by simpa [relaxOk] using hok
  subst hir
  exact block_spec L st Dm Bm G1 u v hD hB hG hL

example : relaxOk refIR = true := by decide
/-- `wi == 0` for `wi == 1` (counting the paths that were *not* shortened) is rejected -/
example : relaxOk { refIR with body := refIR.body.set 5 (.selectEq "ind" "W" "wi" 0) } = false := by decide
/-- relaxing from row `u` instead of `v` (`G1[u, W]`) is rejected -/
example : relaxOk { refIR with
    body := refIR.body.set 1 (.stack2 "td" (.rowAt "D" "u" "W") (.addScalar "D" "u" "v" (.rowAt "G1" "u" "W"))) } = false := by
  decide

end Bct.Cores.Dijk
