import BctVerif.Model.CoreIRDijk
import Mathlib.Tactic.Ring
import Mathlib.Data.List.Basic

/-!
# C03 (second tie) — link theorem for the source-extracted relaxation block of `distance_wei`
-/

namespace Bct.Cores.Dijk
open Bct Bct.Dist Bct.CoreIR.Dijk

variable {n : ℕ}

/-- a hop count as the float the source stores in `B` -/
def embB (k : ℕ) : V := .ext (.fin ((k : ℕ) : ℚ))

@[simp] theorem add_ext_ext (a b : Ext) : V.add (.ext a) (.ext b) = .ext (a + b) := rfl
@[simp] theorem add_embB_one (k : ℕ) : V.add (embB k) (.nat 1) = embB (k + 1) := by
  show V.ext (Ext.add _ _) = _
  simp [embB, Ext.add]

/-- `G1[v, w]` as the source keeps it: the length of `v → w` while `w` is temporary, `0` for "no connection" and for
settled `w` (`G1[:, V] = 0`) -/
def g1cell (L : AMat Ext n) (S : Vector Bool n) (v w : Fin n) : V :=
  if S[w] then (match L.get v w with | .fin q => .ext (.fin q) | .inf => .ext (.fin 0)) else .ext (.fin 0)

theorem block_spec (L : AMat Ext n) (st : DSt n) (Dm Bm G1 : AMat V n) (u v : Fin n)
    (hD : ∀ w, Dm.get u w = .ext st.D[w]) (hB : ∀ w, Bm.get u w = embB st.B[w])
    (hG : ∀ w, G1.get v w = g1cell L st.S v w) (hL : ∀ w q, L.get v w = .fin q → q ≠ 0) :
    ∃ D' B', runBlock refIR Dm Bm G1 u v = some (D', B') ∧
      (∀ w, D'.get u w = .ext (relaxFrom L st v).D[w]) ∧ (∀ w, B'.get u w = embB (relaxFrom L st v).B[w]) ∧
      (∀ a w, a ≠ u → D'.get a w = Dm.get a w ∧ B'.get a w = Bm.get a w) := by
  have hnz : ∀ w, (G1.get v w).nonzero = some (st.S[w] && (L.get v w).isFin) := by
    intro w
    rw [hG, g1cell]
    cases hs : st.S[w]
    · simp [V.nonzero]
    · cases hl : L.get v w with
      | fin q => simp [V.nonzero, Ext.isFin, hL w q hl]
      | inf => simp [V.nonzero, Ext.isFin]
  have hall : ((List.finRange n).all fun w => ((G1.get v w).nonzero).isSome) = true := by
    simp [hnz]
  simp only [runBlock, refIR, refBody, execs, exec, evalL]
  simp [hnz]
  have hadd_inf : ∀ x : Ext, x + Ext.inf = Ext.inf := by
    intro x; cases x <;> rfl
  refine ⟨?_, ?_, ?_⟩
  · intro w
    simp only [relaxFrom, Fin.getElem_fin, Vector.getElem_ofFn, hD, hG, g1cell]
    cases hs : st.S[w.val]
    · simp
    · cases hl : L.get v w with
      | fin q =>
        simp only [Ext.isFin, and_self, if_true, V.add, V.min2, Ext.min, Bool.true_and]
      | inf =>
        simp [Ext.isFin, hadd_inf, Ext.lt]
  · intro w
    simp only [relaxFrom, Fin.getElem_fin, Vector.getElem_ofFn, hD, hB, hG, g1cell]
    cases hs : st.S[w.val]
    · simp
    · cases hl : L.get v w with
      | fin q =>
        simp only [Ext.isFin, and_self, and_true, add_ext_ext, V.argmin2, Bool.true_and]
        cases hlt : Ext.lt (st.D[v.val] + Ext.fin q) st.D[w.val] <;> simp [hlt]
      | inf =>
        simp [Ext.isFin, hadd_inf, Ext.lt]
  · intro a w ha
    exact ⟨fun h => absurd h ha, fun h => absurd h ha⟩

/-- **Link, relaxation block of `distance_wei`.**  If the generated obligation holds, the extracted body of `for v in V:`,
run by the interpreter on matrices whose row `u` holds the model state (`D[u, :]`, `B[u, :]`) and whose `G1[v, :]` is the
row of lengths restricted to temporary nodes (the invariant maintained by `S[V] = 0; G1[:, V] = 0`), leaves exactly
`Dist.relaxFrom L st v` in row `u` of `D` and `B` and touches no other row. -/
theorem link_relax (ir : RelaxIR) (hok : relaxOk ir = true) (L : AMat Ext n) (st : DSt n) (Dm Bm G1 : AMat V n) (u v : Fin n)
    (hD : ∀ w, Dm.get u w = .ext st.D[w]) (hB : ∀ w, Bm.get u w = embB st.B[w])
    (hG : ∀ w, G1.get v w = g1cell L st.S v w) (hL : ∀ w q, L.get v w = .fin q → q ≠ 0) :
    ∃ D' B', runBlock ir Dm Bm G1 u v = some (D', B') ∧
      (∀ w, D'.get u w = .ext (relaxFrom L st v).D[w]) ∧ (∀ w, B'.get u w = embB (relaxFrom L st v).B[w]) ∧
      (∀ a w, a ≠ u → D'.get a w = Dm.get a w ∧ B'.get a w = Bm.get a w) := by
  have hir : ir = refIR := by simpa [relaxOk] using hok
  subst hir
  exact block_spec L st Dm Bm G1 u v hD hB hG hL

example : relaxOk refIR = true := by decide
/-- `wi == 0` for `wi == 1` (counting the paths that were *not* shortened) is rejected -/
example : relaxOk { refIR with body := refIR.body.set 5 (.selectEq "ind" "W" "wi" 0) } = false := by decide
/-- relaxing from row `u` instead of `v` (`G1[u, W]`) is rejected -/
example : relaxOk { refIR with
    body := refIR.body.set 1 (.stack2 "td" (.rowAt "D" "u" "W") (.addScalar "D" "u" "v" (.rowAt "G1" "u" "W"))) } = false := by
  decide

/-! ### the whole routine -/

/-- the environment holds, for the pass of row `u`, the model state `st` -/
def RowSt (L : AMat Ext n) (u : Fin n) (E : Env n) (st : DSt n) : Prop :=
  (∃ Dm, E.mat "D" = some Dm ∧ ∀ w, Dm.get u w = .ext st.D[w]) ∧
  (∃ Bm, E.mat "B" = some Bm ∧ ∀ w, Bm.get u w = embB st.B[w]) ∧
  (∃ G1, E.mat "G1" = some G1 ∧ ∀ v w, G1.get v w = g1cell L st.S v w) ∧
  E.vec "S" = some st.S ∧ E.node "u" = some u

/-- a cell of a named matrix -/
def cellOf (E : Env n) (m : String) (a w : Fin n) : Option V := (E.mat m).map fun M => M.get a w

/-- rows other than `u` of `D` and `B`, the argument `G` and the dimension names are the same in both environments -/
def Frame (u : Fin n) (E E' : Env n) : Prop :=
  (∀ a w, a ≠ u → cellOf E' "D" a w = cellOf E "D" a w ∧ cellOf E' "B" a w = cellOf E "B" a w) ∧
  E'.mat "G" = E.mat "G" ∧ E'.dims = E.dims

theorem Frame.refl (u : Fin n) (E : Env n) : Frame u E E := ⟨fun _ _ _ => ⟨rfl, rfl⟩, rfl, rfl⟩
theorem Frame.trans {u : Fin n} {E1 E2 E3 : Env n} (h1 : Frame u E1 E2) (h2 : Frame u E2 E3) : Frame u E1 E3 :=
  ⟨fun a w ha => ⟨((h2.1 a w ha).1).trans (h1.1 a w ha).1, ((h2.1 a w ha).2).trans (h1.1 a w ha).2⟩,
   h2.2.1.trans h1.2.1, h2.2.2.trans h1.2.2⟩

theorem block_env (L : AMat Ext n) (hL : ∀ v w q, L.get v w = .fin q → q ≠ 0) (E : Env n) (st : DSt n) (u v : Fin n)
    (h : RowSt L u E st) :
    ∃ E', execs refBody { E with node := fun y => if y = "v" then some v else E.node y } = some E' ∧
      RowSt L u E' (relaxFrom L st v) ∧ Frame u E E' := by
  obtain ⟨⟨Dm, mD, hD⟩, ⟨Bm, mB, hB⟩, ⟨G1, mG, hG⟩, hS, hu⟩ := h
  have hnz : ∀ w, (G1.get v w).nonzero = some (st.S[w] && (L.get v w).isFin) := by
    intro w
    rw [hG, g1cell]
    cases hs : st.S[w]
    · simp [V.nonzero]
    · cases hl : L.get v w with
      | fin q => simp [V.nonzero, Ext.isFin, hL v w q hl]
      | inf => simp [V.nonzero, Ext.isFin]
  have hadd_inf : ∀ x : Ext, x + Ext.inf = Ext.inf := by
    intro x; cases x <;> rfl
  refine ⟨?E', ?h1, ?h2, ?h3⟩
  case h1 =>
    simp [refBody, execs, exec, evalL, mD, mB, mG, hu, hnz]
    rfl
  case h2 =>
    refine ⟨⟨_, by simp; rfl, ?_⟩, ⟨_, by simp; rfl, ?_⟩, ⟨G1, by simp [mG], ?_⟩, by simp [hS, relaxFrom], by simp [hu]⟩
    · intro w
      simp only [AMat.get_ofFn, true_and, relaxFrom, Fin.getElem_fin, Vector.getElem_ofFn, hD, hG, g1cell,
        List.contains_iff_mem, List.mem_filter, List.mem_finRange, hnz]
      cases hs : st.S[w.val]
      · simp
      · cases hl : L.get v w with
        | fin q => simp [Ext.isFin, V.min2, Ext.min]
        | inf => simp [Ext.isFin, hadd_inf, Ext.lt]
    · intro w
      simp only [AMat.get_ofFn, true_and, relaxFrom, Fin.getElem_fin, Vector.getElem_ofFn, hD, hB, hG, g1cell,
        List.contains_iff_mem, List.mem_filter, List.mem_finRange, hnz]
      cases hs : st.S[w.val]
      · simp
      · cases hl : L.get v w with
        | fin q =>
          simp only [Ext.isFin, add_ext_ext, V.argmin2]
          cases hlt : Ext.lt (st.D[v.val] + Ext.fin q) st.D[w.val] <;> simp [hlt]
        | inf => simp [Ext.isFin, hadd_inf, Ext.lt]
    · intro v' w; exact hG v' w
  case h3 =>
    refine ⟨fun a w ha => ?_, by simp, rfl⟩
    simp [cellOf, mD, mB, ha]

theorem RowSt.setNode {L : AMat Ext n} {u : Fin n} {E : Env n} {st : DSt n} (h : RowSt L u E st) (x : String) (hx : x ≠ "u") (v : Fin n) :
    RowSt L u { E with node := fun y => if y = x then some v else E.node y } st := by
  obtain ⟨h1, h2, h3, h4, h5⟩ := h
  refine ⟨h1, h2, h3, h4, ?_⟩
  show (if "u" = x then some v else E.node "u") = some u
  rw [if_neg (fun e => hx e.symm)]; exact h5

theorem forNodes_spec (L : AMat Ext n) (hL : ∀ v w q, L.get v w = .fin q → q ≠ 0) (u : Fin n) :
    ∀ (Vs : List (Fin n)) (E : Env n) (st : DSt n), RowSt L u E st →
      ∃ E', forNodesRun "v" refBody Vs E = some E' ∧ RowSt L u E' (Vs.foldl (relaxFrom L) st) ∧ Frame u E E' := by
  intro Vs
  induction Vs with
  | nil => intro E st h; exact ⟨E, rfl, h, Frame.refl u E⟩
  | cons v vs ih =>
    intro E st h
    obtain ⟨E1, e1, s1, f1⟩ := block_env L hL E st u v h
    obtain ⟨E2, e2, s2, f2⟩ := ih E1 _ s1
    exact ⟨E2, by simp only [forNodesRun, e1, e2], s2, f1.trans f2⟩

/-- `S[V] = 0; G1[:, V] = 0` is `Dist.settle` and keeps `G1` in step with `S` -/
theorem settle_spec (L : AMat Ext n) (u : Fin n) (E : Env n) (st : DSt n) (Vs : List (Fin n)) (h : RowSt L u E st)
    (hV : E.idx "V" = some Vs) :
    ∃ E', wexecs [.clearVec "S" "V", .zeroCols "G1" "V"] E = some (E', false) ∧ RowSt L u E' (settle st Vs) ∧ Frame u E E' ∧
      E'.idx "V" = some Vs := by
  obtain ⟨⟨Dm, mD, hD⟩, ⟨Bm, mB, hB⟩, ⟨G1, mG, hG⟩, hS, hu⟩ := h
  refine ⟨?E', ?h1, ?h2, ?h3, ?h4⟩
  case h1 =>
    simp [wexecs, wexec, hS, hV, mG]
    rfl
  case h2 =>
    refine ⟨⟨Dm, by simp [mD], hD⟩, ⟨Bm, by simp [mB], hB⟩, ⟨_, by simp; rfl, ?_⟩, by simp [settle], by simp [hu]⟩
    intro v w
    simp only [AMat.get_ofFn, hG, g1cell, settle, Fin.getElem_fin, Vector.getElem_ofFn]
    by_cases hc : w ∈ Vs
    · cases hs : st.S[w.val] <;> cases hl : L.get v w <;> simp [hc, hs, hl]
    · cases hs : st.S[w.val] <;> cases hl : L.get v w <;> simp [hc, hs, hl]
  case h3 =>
    exact ⟨fun a w _ => by simp [cellOf, mD, mB], by simp, rfl⟩
  case h4 => simp [hV]

theorem ext_beq (a b : Ext) : (V.ext a == V.ext b) = decide (a = b) := by
  by_cases h : a = b
  · subst h; simp
  · have : (V.ext a == V.ext b) = false := by
      rw [beq_eq_false_iff_ne]; intro e; exact h (V.ext.inj e)
    simp [this, h]

theorem wexecs_append (a b : List WStmt) (E : Env n) :
    wexecs (a ++ b) E = match wexecs a E with
      | some (E', false) => wexecs b E'
      | some (E', true) => some (E', true)
      | none => none := by
  induction a generalizing E with
  | nil => simp [wexecs]
  | cons s a ih =>
    simp only [List.cons_append, wexecs]
    cases h : wexec E s with
    | none => rfl
    | some r =>
      obtain ⟨E', br⟩ := r
      cases br
      · exact ih E'
      · rfl

theorem minCells_spec (Dm : AMat V n) (u : Fin n) (D : Vector Ext n) (hD : ∀ w, Dm.get u w = .ext D[w]) (ws : List (Fin n))
    (hne : ws.isEmpty = false) : minCells (ws.map fun w => Dm.get u w) = some (minOver D ws) := by
  have hm : (ws.map fun w => Dm.get u w) = ws.map fun w => V.ext D[w] := List.map_congr_left (fun w _ => hD w)
  rw [hm]
  have he : (ws.map fun w => V.ext D[w]).isEmpty = false := by simpa using hne
  simp only [minCells, he, Bool.false_eq_true, if_false, List.all_map, Function.comp_def, V.toExt?, Option.isSome_some, List.all_eq_true,
    implies_true, if_true, List.foldl_map, minOver]

/-- the four statements after the `for v in V` loop: the two exit tests and the choice of the next `V` -/
theorem tail_spec (L : AMat Ext n) (u : Fin n) (E : Env n) (st : DSt n) (h : RowSt L u E st) :
    ∃ E', wexecs [.breakIfNoneLeft "D" "u" "S", .minMasked "minD" "D" "u" "S", .breakIfInf "minD", .whereEqRow "V" "D" "u" "minD"] E =
        some (E', ((List.finRange n).filter fun w => st.S[w]).isEmpty ||
                  decide (minOver st.D ((List.finRange n).filter fun w => st.S[w]) = .inf)) ∧
      RowSt L u E' st ∧ Frame u E E' ∧
      ((((List.finRange n).filter fun w => st.S[w]).isEmpty ||
          decide (minOver st.D ((List.finRange n).filter fun w => st.S[w]) = .inf)) = false →
        E'.idx "V" = some ((List.finRange n).filter fun x => st.D[x] = minOver st.D ((List.finRange n).filter fun w => st.S[w]))) := by
  obtain ⟨⟨Dm, mD, hD⟩, ⟨Bm, mB, hB⟩, ⟨G1, mG, hG⟩, hS, hu⟩ := h
  generalize htemp : ((List.finRange n).filter fun w => st.S[w]) = temp
  by_cases he : temp.isEmpty = true
  · refine ⟨E, ?_, ⟨⟨Dm, mD, hD⟩, ⟨Bm, mB, hB⟩, ⟨G1, mG, hG⟩, hS, hu⟩, Frame.refl u E, ?_⟩
    · simp only [wexecs, wexec, mD, hu, hS, htemp, he, Bool.true_or]
    · intro hb; simp only [he, Bool.true_or] at hb; exact absurd hb (by decide)
  · have he' : temp.isEmpty = false := by simpa using he
    have hmin := minCells_spec Dm u st.D hD temp he'
    by_cases hi : minOver st.D temp = .inf
    · refine ⟨{ E with sc := fun y => if y = "minD" then some (minOver st.D temp) else E.sc y },
        ?_, ⟨⟨Dm, mD, hD⟩, ⟨Bm, mB, hB⟩, ⟨G1, mG, hG⟩, hS, hu⟩, ⟨fun _ _ _ => ⟨rfl, rfl⟩, rfl, rfl⟩, ?_⟩
      · simp only [wexecs, wexec, mD, hu, hS, htemp, he', hmin, Option.map_some, if_true, hi, beq_self_eq_true, decide_true, Bool.or_true]
      · intro hb; simp only [hi, decide_true, Bool.or_true] at hb; exact absurd hb (by decide)
    · refine ⟨{ E with sc := fun y => if y = "minD" then some (minOver st.D temp) else E.sc y,
                       idx := fun z => if z = "V" then some ((List.finRange n).filter fun w =>
                         Dm.get u w == V.ext (minOver st.D temp)) else E.idx z },
        ?_, ⟨⟨Dm, mD, hD⟩, ⟨Bm, mB, hB⟩, ⟨G1, mG, hG⟩, hS, hu⟩, ⟨fun _ _ _ => ⟨rfl, rfl⟩, rfl, rfl⟩, ?_⟩
      · have hb : (minOver st.D temp == Ext.inf) = false := by simpa using hi
        simp only [wexecs, wexec, mD, hu, hS, htemp, he', hmin, Option.map_some, if_true, hb, hi, decide_false, Bool.or_false]
      · intro _
        simp only [if_true, Option.some.injEq]
        apply List.filter_congr
        intro x _
        rw [hD x]
        exact ext_beq _ _

theorem refWhile_split : refWhile = [WStmt.clearVec "S" "V", .zeroCols "G1" "V"] ++ ([.forNodes "v" "V" refBody] ++
    [.breakIfNoneLeft "D" "u" "S", .minMasked "minD" "D" "u" "S", .breakIfInf "minD", .whereEqRow "V" "D" "u" "minD"]) := rfl

/-- one pass of the `while True:` body is one unfolding of `Dist.dLoop` -/
theorem pass_spec (L : AMat Ext n) (hL : ∀ v w q, L.get v w = .fin q → q ≠ 0) (u : Fin n) (E : Env n) (st : DSt n)
    (Vs : List (Fin n)) (h : RowSt L u E st) (hV : E.idx "V" = some Vs) :
    let st1 := Vs.foldl (relaxFrom L) (settle st Vs)
    let temp := (List.finRange n).filter fun w => st1.S[w]
    ∃ E', wexecs refWhile E = some (E', temp.isEmpty || decide (minOver st1.D temp = .inf)) ∧ RowSt L u E' st1 ∧ Frame u E E' ∧
      ((temp.isEmpty || decide (minOver st1.D temp = .inf)) = false →
        E'.idx "V" = some ((List.finRange n).filter fun x => st1.D[x] = minOver st1.D temp)) := by
  intro st1 temp
  obtain ⟨E1, e1, s1, f1, v1⟩ := settle_spec L u E st Vs h hV
  obtain ⟨E2, e2, s2, f2⟩ := forNodes_spec L hL u Vs E1 _ s1
  obtain ⟨E3, e3, s3, f3, v3⟩ := tail_spec L u E2 st1 s2
  refine ⟨E3, ?_, s3, (f1.trans f2).trans f3, v3⟩
  rw [refWhile_split, wexecs_append, e1]
  simp only [wexecs_append, wexecs, wexec, v1, e2, Option.map_some]
  exact e3

theorem while_spec (L : AMat Ext n) (hL : ∀ v w q, L.get v w = .fin q → q ≠ 0) (u : Fin n) :
    ∀ (fuel : ℕ) (E : Env n) (st : DSt n) (Vs : List (Fin n)), RowSt L u E st → E.idx "V" = some Vs →
      match dLoop L fuel st Vs with
      | none => whileTrue refWhile fuel E = none
      | some st' => ∃ E', whileTrue refWhile fuel E = some E' ∧ RowSt L u E' st' ∧ Frame u E E' := by
  intro fuel
  induction fuel with
  | zero => intro E st Vs _ _; simp [dLoop, whileTrue]
  | succ f ih =>
    intro E st Vs h hV
    obtain ⟨E1, e1, s1, f1, v1⟩ := pass_spec L hL u E st Vs h hV
    simp only [dLoop, whileTrue, e1]
    by_cases he : ((List.finRange n).filter fun w => (Vs.foldl (relaxFrom L) (settle st Vs)).S[w]).isEmpty = true
    · simp only [he, Bool.true_or, if_true]
      exact ⟨E1, rfl, s1, f1⟩
    · have he' : ((List.finRange n).filter fun w => (Vs.foldl (relaxFrom L) (settle st Vs)).S[w]).isEmpty = false := by simpa using he
      by_cases hi : minOver (Vs.foldl (relaxFrom L) (settle st Vs)).D
          ((List.finRange n).filter fun w => (Vs.foldl (relaxFrom L) (settle st Vs)).S[w]) = .inf
      · simp only [he', hi, decide_true, Bool.or_true, Bool.false_eq_true, if_false, if_true]
        exact ⟨E1, rfl, s1, f1⟩
      · simp only [he', hi, decide_false, Bool.or_false, Bool.false_eq_true, if_false]
        have hv := v1 (by rw [he', decide_eq_false hi]; rfl)
        have := ih E1 _ _ s1 hv
        cases hd : dLoop L f (Vs.foldl (relaxFrom L) (settle st Vs))
            ((List.finRange n).filter fun x => (Vs.foldl (relaxFrom L) (settle st Vs)).D[x] =
              minOver (Vs.foldl (relaxFrom L) (settle st Vs)).D ((List.finRange n).filter fun w => (Vs.foldl (relaxFrom L) (settle st Vs)).S[w])) with
        | none => rw [hd] at this; exact this
        | some st' =>
          rw [hd] at this
          obtain ⟨E2, e2, s2, f2⟩ := this
          exact ⟨E2, e2, s2, f1.trans f2⟩

/-- the argument as the interpreter sees it: a float matrix of lengths, `0` = no connection -/
def embG (A : AMat ℚ n) : AMat V n := A.map fun a => V.ext (.fin a)

theorem lenMat_ne_zero (A : AMat ℚ n) : ∀ v w q, (lenMat .none A).get v w = .fin q → q ≠ 0 := by
  intro v w q h
  simp only [lenMat, AMat.get_ofFn, lenOf] at h
  by_cases h0 : A.get v w = 0
  · simp [h0] at h
  · simp only [h0, if_false, Ext.fin.injEq] at h
    rw [← h]; exact h0

/-- between two row passes: `G` and `n` are bound, every finished row holds the model's result, every other row its initial value -/
def Glob (A : AMat ℚ n) (E : Env n) (done : Fin n → Bool) : Prop :=
  E.mat "G" = some (embG A) ∧ E.dims "n" = true ∧
  (∃ Dm, E.mat "D" = some Dm ∧ ∀ a, (done a = true → ∃ st, dRow (lenMat .none A) a = some st ∧ ∀ w, Dm.get a w = .ext st.D[w]) ∧
      (done a = false → ∀ w, Dm.get a w = .ext (dInit a).D[w])) ∧
  (∃ Bm, E.mat "B" = some Bm ∧ ∀ a, (done a = true → ∃ st, dRow (lenMat .none A) a = some st ∧ ∀ w, Bm.get a w = embB st.B[w]) ∧
      (done a = false → ∀ w, Bm.get a w = embB (dInit a).B[w]))

/-- the statements of a row pass before `while True:` establish the model's initial state of that row -/
theorem rowPre_spec (A : AMat ℚ n) (E : Env n) (done : Fin n → Bool) (u : Fin n) (h : Glob A E done) (hu : done u = false) :
    ∃ E1, rexecs refDijk.rowPre { E with node := fun y => if y = "u" then some u else E.node y } = some E1 ∧
      RowSt (lenMat .none A) u E1 (dInit u) ∧ E1.idx "V" = some [u] ∧
      E1.mat "D" = E.mat "D" ∧ E1.mat "B" = E.mat "B" ∧ E1.mat "G" = E.mat "G" ∧ E1.dims = E.dims := by
  obtain ⟨hG, hn, ⟨Dm, mD, hD⟩, ⟨Bm, mB, hB⟩⟩ := h
  refine ⟨?E1, ?h1, ?h2, ?h3, ?h4, ?h5, ?h6, ?h7⟩
  case h1 =>
    simp [refDijk, rexecs, rexec, hn, hG]
    rfl
  case h2 =>
    refine ⟨⟨Dm, by simp [mD], (hD u).2 hu⟩, ⟨Bm, by simp [mB], (hB u).2 hu⟩, ⟨embG A, by simp, ?_⟩, by simp [dInit], by simp⟩
    intro v w
    simp only [embG, AMat.map, AMat.get_ofFn, g1cell, dInit, Fin.getElem_fin, Vector.getElem_ofFn, if_true, lenMat, lenOf]
    by_cases h0 : A.get v w = 0 <;> simp [h0]
  all_goals simp

theorem Glob.step (A : AMat ℚ n) (E E1 E2 : Env n) (done : Fin n → Bool) (u : Fin n) (st' : DSt n)
    (h : Glob A E done) (hD1 : E1.mat "D" = E.mat "D") (hB1 : E1.mat "B" = E.mat "B") (hG1 : E1.mat "G" = E.mat "G")
    (hd1 : E1.dims = E.dims) (hrow : dRow (lenMat .none A) u = some st') (hs : RowSt (lenMat .none A) u E2 st') (hf : Frame u E1 E2) :
    Glob A E2 (fun a => done a || a == u) := by
  obtain ⟨hG, hn, ⟨Dm, mD, hD⟩, ⟨Bm, mB, hB⟩⟩ := h
  obtain ⟨⟨Dm2, mD2, hD2⟩, ⟨Bm2, mB2, hB2⟩, _, _, _⟩ := hs
  obtain ⟨hcells, hGf, hdf⟩ := hf
  refine ⟨by rw [hGf, hG1, hG], by rw [hdf, hd1, hn], ⟨Dm2, mD2, fun a => ?_⟩, ⟨Bm2, mB2, fun a => ?_⟩⟩
  · by_cases hau : a = u
    · subst hau
      exact ⟨fun _ => ⟨st', hrow, hD2⟩, fun hc => by simp at hc⟩
    · have hc := (hcells a · hau)
      have heq : ∀ w, Dm2.get a w = Dm.get a w := by
        intro w
        have := (hc w).1
        simp only [cellOf, mD2, hD1, mD, Option.map_some, Option.some.injEq] at this
        exact this
      have hbeq : (a == u) = false := by simpa using hau
      simp only [hbeq, Bool.or_false]
      exact ⟨fun hd => by obtain ⟨st, e, hw⟩ := (hD a).1 hd; exact ⟨st, e, fun w => (heq w).trans (hw w)⟩,
             fun hd w => (heq w).trans ((hD a).2 hd w)⟩
  · by_cases hau : a = u
    · subst hau
      exact ⟨fun _ => ⟨st', hrow, hB2⟩, fun hc => by simp at hc⟩
    · have hc := (hcells a · hau)
      have heq : ∀ w, Bm2.get a w = Bm.get a w := by
        intro w
        have := (hc w).2
        simp only [cellOf, mB2, hB1, mB, Option.map_some, Option.some.injEq] at this
        exact this
      have hbeq : (a == u) = false := by simpa using hau
      simp only [hbeq, Bool.or_false]
      exact ⟨fun hd => by obtain ⟨st, e, hw⟩ := (hB a).1 hd; exact ⟨st, e, fun w => (heq w).trans (hw w)⟩,
             fun hd w => (heq w).trans ((hB a).2 hd w)⟩

/-- one row pass: prelude + `while True:` is `Dist.dRow` (fuel `n + 1` as in the model) -/
theorem row_spec (A : AMat ℚ n) (E : Env n) (done : Fin n → Bool) (u : Fin n) (h : Glob A E done) (hu : done u = false) :
    match dRow (lenMat .none A) u with
    | none => forRows refDijk (n + 1) [u] E = none
    | some _ => ∃ E', forRows refDijk (n + 1) [u] E = some E' ∧ Glob A E' (fun a => done a || a == u) := by
  obtain ⟨E1, e1, s1, v1, d1, b1, g1, n1⟩ := rowPre_spec A E done u h hu
  have hw := while_spec (lenMat .none A) (lenMat_ne_zero A) u (n + 1) E1 (dInit u) [u] s1 v1
  have e1' : rexecs refDijk.rowPre { E with node := fun y => if y = refDijk.rowVar then some u else E.node y } = some E1 := e1
  cases hd : dRow (lenMat .none A) u with
  | none =>
    have hd' : dLoop (lenMat .none A) (n + 1) (dInit u) [u] = none := hd
    rw [hd'] at hw
    simp only [forRows, e1']
    have hw' : whileTrue refDijk.whileBody (n + 1) E1 = none := hw
    simp only [hw']
  | some st' =>
    have hd' : dLoop (lenMat .none A) (n + 1) (dInit u) [u] = some st' := hd
    rw [hd'] at hw
    obtain ⟨E2, e2, s2, f2⟩ := hw
    have e2' : whileTrue refDijk.whileBody (n + 1) E1 = some E2 := e2
    exact ⟨E2, by simp only [forRows, e1', e2'], Glob.step A E E1 E2 done u st' h d1 b1 g1 n1 hd s2 f2⟩

theorem forRows_cons (ir : DijkIR) (fuel : ℕ) (u : Fin n) (us : List (Fin n)) (E : Env n) :
    forRows ir fuel (u :: us) E = match forRows ir fuel [u] E with
      | some E' => forRows ir fuel us E'
      | none => none := by
  simp only [forRows]
  cases hr : rexecs ir.rowPre { E with node := fun y => if y = ir.rowVar then some u else E.node y } with
  | none => rfl
  | some E1 => cases hw : whileTrue ir.whileBody fuel E1 <;> simp [hw]

theorem rows_spec (A : AMat ℚ n) :
    ∀ (us : List (Fin n)) (E : Env n) (done : Fin n → Bool), Glob A E done → (∀ a ∈ us, done a = false) → us.Nodup →
      ((∀ a ∈ us, (dRow (lenMat .none A) a).isSome = true) →
          ∃ E', forRows refDijk (n + 1) us E = some E' ∧ Glob A E' (fun a => done a || us.contains a)) ∧
      ((∃ a ∈ us, dRow (lenMat .none A) a = none) → forRows refDijk (n + 1) us E = none) := by
  intro us
  induction us with
  | nil =>
    intro E done h _ _
    refine ⟨fun _ => ⟨E, rfl, ?_⟩, fun ⟨a, ha, _⟩ => absurd ha List.not_mem_nil⟩
    simpa using h
  | cons u us ih =>
    intro E done h hnd hnodup
    have hu : done u = false := hnd u (by simp)
    have hr := row_spec A E done u h hu
    have hnodup' := (List.nodup_cons.mp hnodup)
    constructor
    · intro hall
      have hsu := hall u (by simp)
      cases hd : dRow (lenMat .none A) u with
      | none => rw [hd] at hsu; simp at hsu
      | some st' =>
        rw [hd] at hr
        obtain ⟨E1, e1, g1⟩ := hr
        have hnd' : ∀ a ∈ us, (fun a => done a || a == u) a = false := by
          intro a ha
          have hau : a ≠ u := fun e => hnodup'.1 (e ▸ ha)
          simp [hnd a (by simp [ha]), hau]
        obtain ⟨E2, e2, g2⟩ := (ih E1 _ g1 hnd' hnodup'.2).1 (fun a ha => hall a (by simp [ha]))
        refine ⟨E2, by rw [forRows_cons, e1]; exact e2, ?_⟩
        have : (fun a => (done a || a == u) || us.contains a) = fun a => done a || (u :: us).contains a := by
          funext a
          by_cases hau : a = u
          · subst hau; simp
          · have : (a == u) = false := by simpa using hau
            simp [this, List.contains_cons, hau]
        rw [← this]; exact g2
    · rintro ⟨a, ha, hnone⟩
      rw [forRows_cons]
      cases hd : dRow (lenMat .none A) u with
      | none => rw [hd] at hr; simp only [hr]
      | some st' =>
        rw [hd] at hr
        obtain ⟨E1, e1, g1⟩ := hr
        simp only [e1]
        have hau : a ≠ u := by intro e; subst e; rw [hd] at hnone; cases hnone
        have ha' : a ∈ us := by
          rcases List.mem_cons.mp ha with e | e
          · exact absurd e hau
          · exact e
        have hnd' : ∀ b ∈ us, (fun b => done b || b == u) b = false := by
          intro b hb
          have hbu : b ≠ u := fun e => hnodup'.1 (e ▸ hb)
          simp [hnd b (by simp [hb]), hbu]
        exact (ih E1 _ g1 hnd' hnodup'.2).2 ⟨a, ha', hnone⟩

theorem pre_spec (A : AMat ℚ n) :
    ∃ E1, pexecs refDijk.pre
        ({ mat := fun y => if y = "G" then some (embG A) else none, node := fun _ => none, idx := fun _ => none, arr := fun _ => none,
           stack := fun _ => none, vec := fun _ => none, sc := fun _ => none, dims := fun _ => false } : Env n) = some E1 ∧
      Glob A E1 (fun _ => false) := by
  refine ⟨?E1, ?h1, ?h2⟩
  case h1 =>
    simp [refDijk, pexecs, pexec]
    rfl
  case h2 =>
    refine ⟨by simp, by simp, ⟨_, by simp; rfl, fun a => ⟨fun hc => by simp at hc, fun _ w => ?_⟩⟩,
      ⟨_, by simp; rfl, fun a => ⟨fun hc => by simp at hc, fun _ w => ?_⟩⟩⟩
    · simp only [AMat.get_ofFn, dInit, Fin.getElem_fin, Vector.getElem_ofFn]
      by_cases haw : a = w
      · subst haw; simp
      · have : ¬ w = a := fun e => haw e.symm
        simp [haw, this]
    · simp [dInit, embB]

/-- **Link, `distance_wei` (whole routine).**  If the generated obligation `dijkOk ir` holds, the program extracted from the
current source — initialisation of `D` / `B`, the row loop, `S` / `G1` / `V`, the settling statements, the relaxation block, both
exit tests, the choice of the next `V` — run by the interpreter with the model's fuel `n + 1` per `while` loop on the float
matrix of lengths (`0` = no connection), returns exactly `Dist.dijkstra (lenMat .none A)` (`D` as floats, `B` as the floats
`np.zeros` makes them), and runs out of fuel exactly when the model does. -/
theorem link_distance_wei (ir : DijkIR) (hok : dijkOk ir = true) (A : AMat ℚ n) :
    runDijk ir (n + 1) (embG A) = (dijkstra (lenMat .none A)).map fun r => [r.1.map V.ext, r.2.map embB] := by
  have hir : ir = refDijk := by simpa [dijkOk] using hok
  subst hir
  obtain ⟨E1, e1, g1⟩ := pre_spec A
  have hdims : E1.dims refDijk.rowBound = true := g1.2.1
  have hrows := rows_spec A (List.finRange n) E1 (fun _ => false) g1 (fun _ _ => rfl) (List.nodup_finRange n)
  have e1' : pexecs refDijk.pre
      ({ mat := fun y => if y = refDijk.param then some (embG A) else none, node := fun _ => none, idx := fun _ => none,
         arr := fun _ => none, stack := fun _ => none, vec := fun _ => none, sc := fun _ => none, dims := fun _ => false } : Env n) = some E1 := e1
  simp only [runDijk, e1', hdims, if_true]
  by_cases hall : ∀ i : Fin n, (dRow (lenMat .none A) i).isSome = true
  · obtain ⟨E2, e2, g2⟩ := hrows.1 (fun a _ => hall a)
    obtain ⟨_, _, ⟨Dm, mD, hD⟩, ⟨Bm, mB, hB⟩⟩ := g2
    simp only [e2, show refDijk.ret = ["D", "B"] from rfl, List.mapM_cons, List.mapM_nil, mD, mB, Option.pure_def, Option.bind_eq_bind,
      Option.bind_some, dijkstra, allRows, hall, implies_true, dite_true, Option.map_some]
    congr 1
    have hrowD : ∀ a w, Dm.get a w = V.ext ((dRow (lenMat .none A) a).get (hall a)).D[w] := by
      intro a w
      obtain ⟨st, e, hw⟩ := (hD a).1 (by simp [List.mem_finRange])
      rw [hw w]; congr 2; simp [e]
    have hrowB : ∀ a w, Bm.get a w = embB ((dRow (lenMat .none A) a).get (hall a)).B[w] := by
      intro a w
      obtain ⟨st, e, hw⟩ := (hB a).1 (by simp [List.mem_finRange])
      rw [hw w]; congr 2; simp [e]
    have eD : Dm = AMat.map V.ext (Vector.ofFn fun u => (Vector.ofFn fun i => (dRow (lenMat .none A) i).get (hall i))[u].D) := by
      apply AMat.ext_get; intro a w
      rw [hrowD a w, AMat.map, AMat.get_ofFn]
      simp [AMat.get]
    have eB : Bm = AMat.map embB (Vector.ofFn fun u => (Vector.ofFn fun i => (dRow (lenMat .none A) i).get (hall i))[u].B) := by
      apply AMat.ext_get; intro a w
      rw [hrowB a w, AMat.map, AMat.get_ofFn]
      simp [AMat.get]
    rw [eD, eB]
  · have hex : ∃ a ∈ List.finRange n, dRow (lenMat .none A) a = none := by
      by_contra hne
      apply hall
      intro i
      cases hd : dRow (lenMat .none A) i with
      | none => exact absurd ⟨i, List.mem_finRange i, hd⟩ hne
      | some _ => rfl
    simp only [hrows.2 hex, dijkstra, allRows, hall, dite_false, Option.map_none]

example : dijkOk refDijk = true := by decide
/-- a settling step that forgets `G1[:, V] = 0` is rejected -/
example : dijkOk { refDijk with whileBody := refDijk.whileBody.eraseIdx 1 } = false := by decide
/-- choosing the next `V` among the temporary nodes only (`D[u, S] == minD`) would be another program: rejected -/
example : dijkOk { refDijk with whileBody := refDijk.whileBody.set 6 (.whereEqRow "V" "D" "v" "minD") } = false := by decide

end Bct.Cores.Dijk
