import Mathlib.Data.List.Basic
import Mathlib.Data.List.Nodup
import Mathlib.Data.List.Range
import BctVerif.Model.CoreIRNull
/-!
# T-gen for the signed null models: what the passed obligations imply

`link_null_und`, `link_null_dir`: for the extracted bodies of `null_model_und_sign` / `null_model_dir_sign`, the interpreter of
`Model/CoreIRNull.lean`, given the model's rewiring routine as the callee, computes `Signed.nullModel` — same matrices, same oracle
entries and draws left, same error — for every input matrix, number of swaps, period, oracle and draw list.
-/
namespace Bct.Cores.Null
open Bct Bct.Signed Bct.CoreIR.Null

variable {n : ℕ}

theorem pickIdx_cons_some {α : Type} (l : List α) (r : ℕ) (R : List ℕ) (x : α) (h : l[r]? = some x) :
    pickIdx l (r :: R) = x :: pickIdx l R := by
  simp [pickIdx, List.filterMap_cons, h]

theorem writeAsg_cons (s : ℤ) (W0 : AMat ℤ n) (c : Cell n) (w : ℤ) (rest : List (Cell n × ℤ)) :
    writeAsg s W0 ((c, w) :: rest) = writeAsg s (W0.set c.1 c.2 (s * w)) rest := rfl

theorem writeAsg_append (s : ℤ) (W0 : AMat ℤ n) (a b : List (Cell n × ℤ)) :
    writeAsg s W0 (a ++ b) = writeAsg s (writeAsg s W0 a) b := by
  simp [writeAsg, List.foldl_append]

/-- the stores of one round, in order, are the model's assignments -/
theorem innerLoop_spec (s : ℤ) (oind : List ℕ) (cells : List (Cell n)) (wv : List ℤ) (hb : ∀ k ∈ oind, k < cells.length) :
    ∀ (R : List ℕ) (W0 : AMat ℤ n),
      innerLoop s oind cells wv R W0 =
        if (R.all (· < wv.length) && R.all (· < oind.length)) = true then
          .ok (writeAsg s W0 ((pickIdx cells (pickIdx oind R)).zip (pickIdx wv R)))
        else .error .index := by
  intro R
  induction R with
  | nil => intro W0; simp [innerLoop, pickIdx, writeAsg]
  | cons r R ih =>
    intro W0
    simp only [innerLoop]
    by_cases h1 : r < oind.length
    · have ho : oind[r]? = some oind[r] := List.getElem?_eq_getElem h1
      have hoc : oind[r] < cells.length := hb _ (List.getElem_mem h1)
      have hc : cells[oind[r]]? = some cells[oind[r]] := List.getElem?_eq_getElem hoc
      simp only [ho, hc]
      by_cases h2 : r < wv.length
      · have hw : wv[r]? = some wv[r] := List.getElem?_eq_getElem h2
        simp only [hw, ih]
        rw [pickIdx_cons_some oind r R _ ho, pickIdx_cons_some cells _ _ _ hc, pickIdx_cons_some wv r R _ hw]
        simp only [List.zip_cons_cons, writeAsg_cons, List.all_cons, h1, h2, decide_true, Bool.true_and]
      · have hw : wv[r]? = none := List.getElem?_eq_none (by omega)
        simp [hw, h2]
    · have ho : oind[r]? = none := List.getElem?_eq_none (by omega)
      simp [ho, h1]

theorem perm_bound {p : List ℕ} {m : ℕ} (h : isPermOfRange p m = true) : (∀ k ∈ p, k < m) ∧ p.Nodup := by
  simp only [isPermOfRange, Bool.and_eq_true, List.all_eq_true, decide_eq_true_eq, beq_iff_eq] at h
  exact ⟨h.1.2, h.2⟩

/-- one round is `Signed.dealRound` -/
theorem roundI_spec (s : ℤ) (W00 : AMat ℤ n) (st : DealSt n) (oind rs : List ℕ) (hnd : rs.Nodup) :
    roundI s st.cells st.wv (writeAsg s W00 st.asg) oind rs =
      match dealRound st oind rs with
      | .error e => .error e
      | .ok st' => .ok (st'.cells, st'.wv, writeAsg s W00 st'.asg) := by
  simp only [roundI, dealRound]
  by_cases hp : isPermOfRange oind st.cells.length = true
  · have hb := (perm_bound hp).1
    simp only [hp, Bool.not_true, Bool.false_eq_true, if_false, innerLoop_spec s oind st.cells st.wv hb]
    by_cases hc : (rs.all (· < st.wv.length) && rs.all (· < oind.length)) = true
    · have : (decide rs.Nodup && rs.all (· < st.wv.length) && rs.all (· < oind.length)) = true := by
        simp only [Bool.and_eq_true] at hc ⊢; exact ⟨⟨by simpa using hnd, hc.1⟩, hc.2⟩
      simp only [hc, if_true, this, Bool.not_true, Bool.false_eq_true, if_false, writeAsg_append]
    · have : (decide rs.Nodup && rs.all (· < st.wv.length) && rs.all (· < oind.length)) = false := by
        simp only [Bool.and_eq_true, not_and, Bool.not_eq_true] at hc
        simp only [Bool.and_eq_false_iff, Bool.and_eq_false_iff]
        by_cases h1 : rs.all (· < st.wv.length) = true
        · exact Or.inr (hc h1)
        · exact Or.inl (Or.inr (by simpa using h1))
      simp only [hc, Bool.false_eq_true, if_false, this, Bool.not_false, if_true]
  · have hp' : isPermOfRange oind st.cells.length = false := by simpa using hp
    simp only [hp', Bool.not_false, if_true]

/-- `for m in lq:` is `Signed.dealLoop` -/
theorem loopI_spec (s : ℤ) (period : ℕ) (W00 : AMat ℤ n) : ∀ (fuel m : ℕ) (st : DealSt n) (orc : List (List ℕ)) (ds : List ℕ),
    loopI s period fuel m st.cells st.wv (writeAsg s W00 st.asg) orc ds =
      match dealLoop period fuel m st orc ds with
      | .error e => .error e
      | .ok (st', orc', ds') => .ok (writeAsg s W00 st'.asg, orc', ds') := by
  intro fuel
  induction fuel with
  | zero =>
    intro m st orc ds
    simp only [loopI, dealLoop]
    split <;> rfl
  | succ f ih =>
    intro m st orc ds
    simp only [loopI, dealLoop]
    by_cases hm : m = 0
    · simp only [hm, if_true]
    · simp only [hm, if_false]
      cases orc with
      | nil => rfl
      | cons oind orc' =>
        simp only []
        by_cases hl : ds.length < m
        · simp only [hl, if_true]
        · simp only [hl, if_false]
          by_cases hp : isPermOfRange (ds.take m) m = true
          · have hnd : ((ds.take m).take (min m period)).Nodup := (perm_bound hp).2.sublist (List.take_sublist _ _)
            simp only [hp, Bool.not_true, Bool.false_eq_true, if_false, roundI_spec s W00 st oind _ hnd]
            cases hd : dealRound st oind ((ds.take m).take (min m period)) with
            | error e => rfl
            | ok st' => exact ih _ st' orc' _
          · have hp' : isPermOfRange (ds.take m) m = false := by simpa using hp
            simp only [hp', Bool.not_false, if_true]

/-- `wei_period = int(min(np.round(1 / wei_freq), max(wsize, 1)))`: capping the period by the number of weights does not change the loop -/
theorem loopI_min (s : ℤ) (P L : ℕ) : ∀ (fuel m : ℕ) (cells : List (Cell n)) (wv : List ℤ) (W0 : AMat ℤ n) (orc : List (List ℕ)) (ds : List ℕ),
    m ≤ L → loopI s (min P (max L 1)) fuel m cells wv W0 orc ds = loopI s P fuel m cells wv W0 orc ds := by
  intro fuel
  induction fuel with
  | zero => intro m cells wv W0 orc ds _; rfl
  | succ fuel ih =>
    intro m cells wv W0 orc ds hm
    have h1 : min m (min P (max L 1)) = min m P := by omega
    have h2 : m - min P (max L 1) = m - P := by omega
    simp only [loopI, h1, h2]
    by_cases h0 : m = 0
    · simp only [h0, if_true]
    · simp only [h0, if_false]
      cases orc with
      | nil => rfl
      | cons oind orc' =>
        simp only []
        split
        · rfl
        · split
          · rfl
          · cases hr : roundI s cells wv W0 oind ((ds.take m).take (min m P)) with
            | error e => rfl
            | ok r => exact ih (m - P) r.1 r.2.1 r.2.2 orc' (ds.drop m) (by omega)

/-- the dealing of one sign is `Signed.dealSign`, its stores are `Signed.writeAsg` -/
theorem signI_spec (s : ℤ) (cells : List (Cell n)) (wv : List ℤ) (period : ℕ) (W0 : AMat ℤ n) (orc : List (List ℕ)) (ds : List ℕ) :
    signI s cells wv (decide (period = 0)) period W0 orc ds =
      match dealSign cells wv period orc ds with
      | .error e => .error e
      | .ok (asg, orc', ds') => .ok (writeAsg s W0 asg, orc', ds') := by
  simp only [signI, dealSign]
  by_cases hl : cells.length ≠ wv.length
  · rw [if_pos hl, if_pos hl]
  · rw [if_neg hl, if_neg hl]
    by_cases hp : period = 0
    · simp only [hp, decide_true, if_true]
      cases orc with
      | nil => rfl
      | cons oind orc' =>
        have h := roundI_spec s W0 { cells := cells, wv := wv, asg := [] } oind (List.range wv.length) List.nodup_range
        simp only [writeAsg, List.foldl_nil] at h
        simp only [h]
        cases hd : dealRound { cells := cells, wv := wv, asg := [] } oind (List.range wv.length) with
        | error e => rfl
        | ok st' => rfl
    · simp only [hp, decide_false, Bool.false_eq_true, if_false]
      rw [loopI_min s period wv.length wv.length wv.length cells wv W0 orc ds (Nat.le_refl _)]
      have h := loopI_spec s period W0 wv.length wv.length { cells := cells, wv := wv, asg := [] } orc ds
      simp only [writeAsg, List.foldl_nil] at h
      simp only [h]
      cases hd : dealLoop period wv.length wv.length { cells := cells, wv := wv, asg := [] } orc ds with
      | error e => rfl
      | ok r => rfl

theorem cellsOf_pos (M : AMat ℤ n) (t m : String) (triu : Bool) :
    cellsOf M { t := t, m := m, gt := true, lit := 0 } triu = cellsWhere M isPos triu := rfl

theorem cellsOf_neg (M : AMat ℤ n) (t m : String) (triu : Bool) :
    cellsOf M { t := t, m := m, gt := false, lit := 0 } triu = cellsWhere M isNeg triu := rfl

/-- the common part of both link theorems -/
theorem link_null (ir : NullIR) (und : Bool) (hco : ir.coherent = true) (hg : ir.guard.isSome = und) (hs : ir.symm.isSome = und)
    (ht : ir.wvTriu = und) (hnC : ir.nC = 1) (h1 : ir.s1 = 1) (h2 : ir.s2 = -1) (he : ir.sEq = 1)
    (hap : ∀ (M : AMat ℤ n) (tr : Bool), cellsOf M ir.ap tr = cellsWhere M isPos tr)
    (han : ∀ (M : AMat ℤ n) (tr : Bool), cellsOf M ir.an tr = cellsWhere M isNeg tr)
    (hapr : ∀ (M : AMat ℤ n) (tr : Bool), cellsOf M ir.apr tr = cellsWhere M isPos tr)
    (hanr : ∀ (M : AMat ℤ n) (tr : Bool), cellsOf M ir.anr tr = cellsWhere M isNeg tr)
    (W : AMat ℤ n) (binSwaps period : ℕ) (orc : List (List ℕ)) (ds : List ℕ) :
    runNull ir (Signed.run und) W binSwaps (decide (period = 0)) period orc ds = nullModel und W binSwaps period orc ds := by
  simp only [runNull, nullModel, hco, Bool.not_true, Bool.false_eq_true, if_false, hg, hs, ht, hnC, h1, h2, he, hap]
  by_cases hsym : (und && !isSymm W) = true
  · simp only [hsym, if_true]
  · simp only [hsym, Bool.false_eq_true, if_false]
    generalize (if (cellsWhere (clearDiag W) isPos false).length < n * (n - 1) then
        match Signed.run und (clearDiag W) binSwaps ds with
        | .error e => Except.error e
        | .ok (Wr, _, rest) => Except.ok (Wr, rest)
      else Except.ok (clearDiag W, ds)) = rew
    cases rew with
    | error e => rfl
    | ok r =>
      obtain ⟨Wr, ds1⟩ := r
      simp only [show ((1 : ℤ) == 1) = true from rfl, show ((-1 : ℤ) == 1) = false from rfl, if_true, Bool.false_eq_true, if_false, signI_spec,
        sortedWeights, hap, han, hapr, hanr]
      cases hP : dealSign (cellsWhere Wr isPos und) (sortInts ((cellsWhere (clearDiag W) isPos und).map fun c => 1 * (clearDiag W).get c.1 c.2))
          period orc ds1 with
      | error e => rfl
      | ok rP =>
        obtain ⟨asgP, orc2, ds2⟩ := rP
        simp only []
        cases hN : dealSign (cellsWhere Wr isNeg und) (sortInts ((cellsWhere (clearDiag W) isNeg und).map fun c => -1 * (clearDiag W).get c.1 c.2))
            period orc2 ds2 with
        | error e => rfl
        | ok rN =>
          obtain ⟨asgN, orc3, ds3⟩ := rN
          cases und <;> rfl

/-- **`null_model_und_sign` is `Signed.nullModel true`.** -/
theorem link_null_und (ir : NullIR) (hok : nullOk refUnd ir = true) (W : AMat ℤ n) (binSwaps period : ℕ) (orc : List (List ℕ)) (ds : List ℕ) :
    runNull ir (Signed.run true) W binSwaps (decide (period = 0)) period orc ds = nullModel true W binSwaps period orc ds := by
  have e : ir = refUnd := by simpa [nullOk] using hok
  subst e
  exact link_null refUnd true (by decide) rfl rfl rfl rfl rfl rfl rfl (fun M tr => cellsOf_pos M _ _ tr) (fun M tr => cellsOf_neg M _ _ tr)
    (fun M tr => cellsOf_pos M _ _ tr) (fun M tr => cellsOf_neg M _ _ tr) W binSwaps period orc ds

/-- **`null_model_dir_sign` is `Signed.nullModel false`.** -/
theorem link_null_dir (ir : NullIR) (hok : nullOk refDir ir = true) (W : AMat ℤ n) (binSwaps period : ℕ) (orc : List (List ℕ)) (ds : List ℕ) :
    runNull ir (Signed.run false) W binSwaps (decide (period = 0)) period orc ds = nullModel false W binSwaps period orc ds := by
  have e : ir = refDir := by simpa [nullOk] using hok
  subst e
  exact link_null refDir false (by decide) rfl rfl rfl rfl rfl rfl rfl (fun M tr => cellsOf_pos M _ _ tr) (fun M tr => cellsOf_neg M _ _ tr)
    (fun M tr => cellsOf_pos M _ _ tr) (fun M tr => cellsOf_neg M _ _ tr) W binSwaps period orc ds

example : nullOk refUnd refUnd = true := by decide
example : nullOk refDir refDir = true := by decide
/-- the undirected routine without `np.triu` in the weight vector is rejected -/
example : nullOk refUnd { refUnd with wvTriu := false } = false := by decide
/-- `Wv = np.delete(Wv, O)` (the wrong index array) is rejected -/
example : nullOk refUnd { refUnd with dels := [("Lij", "Lij", "O"), ("i", "i", "O"), ("j", "j", "O"), ("Wv", "Wv", "O")] } = false := by decide
/-- the directed routine calling the undirected rewiring is rejected -/
example : nullOk refDir { refDir with callee := "randmio_und_signed" } = false := by decide

end Bct.Cores.Null
