import BctVerif.Model.CoreIRSign
import BctVerif.Props.CoresClust
/-!
# T-gen for `clustering_coef_wu_sign`: what the passed obligation implies

For the extracted body: `coef_type='default'` computes `Cluster.ccSignDefault` (with `cuberoot` the per-entry function `cb`, as for the other
weighted clustering routines), `'zhang'` / `'Zhang'` compute `Cluster.ccSignZhang`, `'costantini'` / `'Costantini'` compute
`Cluster.ccSignCost`, every other string runs no branch — for every matrix.
-/
namespace Bct.Cores.Sign
open Bct Bct.Cluster Bct.CoreIR.Clust Bct.CoreIR.Sign Bct.Cores.Clust
variable {n : ℕ}

theorem Z_eq (W : AMat ℚ n) :
    (AMat.ofFn fun i j => if i = j then V.num ((0 : ℕ) : ℚ) else (embA W).get i j : AMat V n) = embA (zeroDiag W) := by
  apply AMat.ext_get; intro i j
  simp only [AMat.get_ofFn, embA_get, zeroDiag]
  split <;> simp

theorem link_sign_default (ir : SignIR) (hok : signOk ir = true) (cb : ℚ → ℚ) (W : AMat ℚ n) :
    runSign cb ir (embA W) "default" =
      some [.vec ((ccSignDefault W (AMat.map cb (posPart (zeroDiag W))) (AMat.map cb (negPart (zeroDiag W)))).1.map optV),
            .vec ((ccSignDefault W (AMat.map cb (posPart (zeroDiag W))) (AMat.map cb (negPart (zeroDiag W)))).2.map optV)] := by
  have hir : ir = refSign := by simpa [signOk] using hok
  subst hir
  have hco : refSign.coherent = true := by decide
  unfold runSign
  rw [hco]
  simp only [Bool.not_true, Bool.false_eq_true, if_false, show refSign.params = ["W", "coef_type"] from rfl,
    show (refSign.fdV : ℚ) = ((0 : ℕ) : ℚ) from rfl, Z_eq]
  simp [refSign, refDefault, refZhang, refCost, onnela, kOf, cyc3Of, maskOf, runItems, runItem, exec, eval, zip2, map1, sumV_num, sumV_bool, partCell]
  constructor
  · apply Vector.ext; intro i hi
    simp only [Vector.getElem_ofFn, Vector.getElem_map, ccSignDefault, ccWu, perNode, mmul, rowSum, vsum, AMat.get_ofFn, adj, AMat.map, posPart]
    exact perNode_cell0 _ _
  · apply Vector.ext; intro i hi
    simp only [Vector.getElem_ofFn, Vector.getElem_map, ccSignDefault, ccWu, perNode, mmul, rowSum, vsum, AMat.get_ofFn, adj, AMat.map, negPart]
    exact perNode_cell0 _ _

theorem perNode_cell1 (c d : ℚ) :
    V.div (V.num c) (maskCell (.bool (c == 0)) .inf (.num d)) = optV (perNode c d) := by
  by_cases hc : c = 0
  · simp [maskCell, hc, perNode, optV, V.div, V.asNum]
  · have hb : (c == 0) = false := by simpa using hc
    simp only [maskCell, hb, perNode, hc, if_false, div_num]
    split <;> rfl

theorem mapM_some {α β : Type} (f : α → β) (l : List α) : l.mapM (fun a => some (f a)) = some (l.map f) := by
  induction l with
  | nil => rfl
  | cons a l ih => simp [List.mapM_cons, ih]

theorem getD_map_finRange (f : Fin n → V) (i : Fin n) : ((List.finRange n).map f).getD i.val V.err = f i := by
  simp [List.getD_eq_getElem?_getD]

theorem ite_num (c : Prop) [Decidable c] (a b : ℚ) : (if c then V.num a else V.num b) = V.num (if c then a else b) := by
  split <;> rfl

theorem abs_num (x : ℚ) : absV (V.num x) = V.num (qabs x) := by
  simp only [absV, qabs]
  congr 1
  by_cases h : x < 0
  · simp [h, not_le.mpr h]
  · simp [h, not_lt.mp h]

theorem link_sign_cost (ir : SignIR) (hok : signOk ir = true) (cb : ℚ → ℚ) (W : AMat ℚ n) :
    runSign cb ir (embA W) "costantini" = some [.vec ((ccSignCost W).map optV)] := by
  have hir : ir = refSign := by simpa [signOk] using hok
  subst hir
  have hco : refSign.coherent = true := by decide
  unfold runSign
  rw [hco]
  simp only [Bool.not_true, Bool.false_eq_true, if_false, show refSign.params = ["W", "coef_type"] from rfl,
    show (refSign.fdV : ℚ) = ((0 : ℕ) : ℚ) from rfl, Z_eq]
  simp [refSign, refDefault, refZhang, refCost, onnela, kOf, cyc3Of, maskOf, tri, two, runItems, runItem, runLoop, accAt, prodV, exec, eval, zip2, map1,
    sumV_num, mapM_some, getD_map_finRange, ite_num, abs_num]
  apply Vector.ext; intro i hi
  simp only [Vector.getElem_ofFn, Vector.getElem_map, ccSignCost, vsum]
  exact perNode_cell1 _ _

def ppos (x : ℚ) : ℚ := if 0 < x then x else 0
def pneg (x : ℚ) : ℚ := if x < 0 then -x else 0
theorem partCell_pos (x : ℚ) : partCell false 0 (V.num x) = V.num (ppos x) := by simp [partCell, ppos]
theorem partCell_neg (x : ℚ) : partCell true 0 (V.num x) = V.num (pneg x) := by simp [partCell, pneg]
theorem posPart_eq (M : AMat ℚ n) : posPart M = AMat.map ppos M := rfl
theorem negPart_eq (M : AMat ℚ n) : negPart M = AMat.map pneg M := rfl

theorem link_sign_zhang (ir : SignIR) (hok : signOk ir = true) (cb : ℚ → ℚ) (W : AMat ℚ n) :
    runSign cb ir (embA W) "zhang" = some [.vec ((ccSignZhang W).1.map optV), .vec ((ccSignZhang W).2.map optV)] := by
  have hir : ir = refSign := by simpa [signOk] using hok
  subst hir
  have hco : refSign.coherent = true := by decide
  unfold runSign
  rw [hco]
  simp only [Bool.not_true, Bool.false_eq_true, if_false, show refSign.params = ["W", "coef_type"] from rfl,
    show (refSign.fdV : ℚ) = ((0 : ℕ) : ℚ) from rfl, Z_eq]
  simp [refSign, refDefault, refZhang, refCost, onnela, kOf, cyc3Of, maskOf, tri, two, runItems, runItem, runLoop, accAt, prodV, exec, eval, zip2, map1,
    sumV_num, mapM_some, getD_map_finRange, ite_num, abs_num, partCell_pos, partCell_neg]
  constructor
  · apply Vector.ext; intro i hi
    simp only [Vector.getElem_ofFn, Vector.getElem_map, ccSignZhang, zhangCore, vsum, posPart_eq, AMat.map, AMat.get_ofFn]
    exact perNode_cell1 _ _
  · apply Vector.ext; intro i hi
    simp only [Vector.getElem_ofFn, Vector.getElem_map, ccSignZhang, zhangCore, vsum, negPart_eq, AMat.map, AMat.get_ofFn]
    exact perNode_cell1 _ _

/-- the other spellings and every other string -/
theorem link_sign_Zhang (ir : SignIR) (hok : signOk ir = true) (cb : ℚ → ℚ) (W : AMat ℚ n) :
    runSign cb ir (embA W) "Zhang" = runSign cb ir (embA W) "zhang" := by
  have hir : ir = refSign := by simpa [signOk] using hok
  subst hir
  simp [runSign, refSign, refDefault, refZhang, refCost]

theorem link_sign_Cost (ir : SignIR) (hok : signOk ir = true) (cb : ℚ → ℚ) (W : AMat ℚ n) :
    runSign cb ir (embA W) "Costantini" = runSign cb ir (embA W) "costantini" := by
  have hir : ir = refSign := by simpa [signOk] using hok
  subst hir
  simp [runSign, refSign, refDefault, refZhang, refCost]

theorem link_sign_other (ir : SignIR) (hok : signOk ir = true) (cb : ℚ → ℚ) (W : AMat ℚ n) (t : String)
    (ht : t ∉ ["default", "zhang", "Zhang", "costantini", "Costantini"]) : runSign cb ir (embA W) t = some [] := by
  have hir : ir = refSign := by simpa [signOk] using hok
  subst hir
  have hco : refSign.coherent = true := by decide
  simp only [List.mem_cons, List.mem_singleton, not_or, List.not_mem_nil, not_false_eq_true, and_true] at ht
  unfold runSign
  rw [hco]
  simp [refSign, refDefault, refZhang, refCost, ht, List.find?]

example : signOk refSign = true := by decide
/-- `W * (W >= 0)` cannot be expressed; `W_neg = W * (W < 0)` (the sign forgotten) is rejected -/
example : signOk { refSign with branches := [{ refDefault with body := refDefault.body.map fun x => match x with
    | .part d => .part { d with neg := false } | y => y }, refZhang, refCost] } = false := by decide
/-- `if j == q` cannot be expressed; the guarded accumulators moved out of the `if` are rejected -/
example : signOk { refSign with branches := [refDefault, refZhang, { refCost with body := refCost.body.map fun x => match x with
    | .loop l => .loop { l with always := l.always ++ l.guarded, guarded := [] } | y => y }] } = false := by decide
end Bct.Cores.Sign
