import BctVerif.Lemmas.RewireConnDir
import BctVerif.Lemmas.RewireConnCost
import BctVerif.Lemmas.RewireConnRun
import BctVerif.Lemmas.RewireConnPre

/-!
# C11 — constrained rewiring honours connectivity, lattice cost and forbidden cells

Theorems about the *executable* model `Bct.Rewire` (the same definitions the correspondence check
runs against bct's `randmio_*_connected`, `latmio_*`, `randomize_graph_partial_und`), for every size
`n`, every integer matrix, every configuration and **every list of draws** (= every seed).

`adj R u v := R.toFun u v ≠ 0`; `Conn r := ∀ u v, ReflTransGen r u v` (connected for a symmetric
matrix, strongly connected in general); `cost D R := Σ i j, D i j * R i j`.

* `undConnOk_sound`, `dirConnOk_sound` — the two `P/PN` exploration tests are sound: a positive
  answer implies the reachability facts under which the swap keeps the graph (strongly) connected;
* `swap_connected_und`, `swap_connected_dir` — hence an accepted swap keeps connectivity;
* `runBudget_connected_und`, `runBudget_connected_dir` — hence so does every successful run;
  `latt_connected_und`, `latt_connected_dir` — also through the latticisers' node permutation;
* `lattice_step_cost_dir`, `lattice_step_cost_und`, `runBudget_cost_noninc` — latticisation never
  increases `cost D` for the distance matrix in use (symmetric `D` for the undirected routines);
* `mask_respected`, `runBudget_mask_respected` — a cell that becomes nonzero has `B = 0`, for every
  mask `B` (the acceptance test reads `B` in both orientations); `masked_cell_kept`,
  `runBudget_masked_cells` — a cell with `B ≠ 0` keeps its value or becomes zero;
* `precheck_rejects`, `precheck_ok`, `precheck_iff` — the input pre-check of `randmio_und_connected` /
  `latmio_und_connected` (`Model/RewirePre.lean`, driver `Main/RewirePre.lean`) answers
  `BCTParamError` exactly on asymmetric or disconnected input.

Hypotheses stronger than the property's quantifier, and why they stay.  (Where the empty diagonal is
superfluous it is not assumed: `runBudget_cost_noninc_dir`, `runLatt_cost_noninc_dir` — directed
latticisers, any input; `runBudget_mask_respected_triu1` — `randomize_graph_partial_und`, any symmetric
input.)  All connectivity theorems
assume an **empty diagonal** and the undirected lattice-cost theorems a **symmetric `D`**.  The
property text has neither restriction, and on the complement the statements are *false* for the model
and for the code alike: `runBudget_connected_dir_selfloop_witness`,
`runBudget_connected_und_selfloop_witness`, `runBudget_cost_noninc_asymD_witness`,
`lattice_step_cost_und_asymD_witness` (end of this file) exhibit concrete runs.  The real routines
fail on the same inputs; the check generates them and reports the open known findings
`C11-selfloops-*`, `C11-asymD-cost-*` (`known_findings.d/C11.json`).  The hypotheses are exactly the
complement of those findings.
-/
open Relation

namespace Bct.C11
open Bct Bct.Rewire Bct.RewireFun Bct.RewireInv Bct.C01 Bct.RewireConn

variable {n : ℕ}

/-! ### 1. undirected connectivity -/

/-- **Undirected test soundness.**  Symmetric `R` with empty diagonal, edges `ab`, `cd` on four
distinct nodes, rewiring guard `R a d = 0`, `R c b = 0`.  If `undConnOk` (shortcut
`R a c ≠ 0 ∨ R b d ≠ 0`, else the exploration loop from `{a, d}`) answers `true`, then in the graph
minus the two edges one of a~b, a~c, d~c, d~b holds. -/
theorem undConnOk_sound (R : AMat Int n) (a b c d : Fin n)
    (hab : a ≠ b) (hac : a ≠ c) (had : a ≠ d) (hbc : b ≠ c) (hbd : b ≠ d) (hcd : c ≠ d)
    (hs : Symm R) (hdiag : EmptyDiag R)
    (e1 : R.toFun a b ≠ 0) (e2 : R.toFun c d ≠ 0) (z1 : R.toFun a d = 0) (z2 : R.toFun c b = 0)
    (h : undConnOk R a b c d = true) :
    ReflTransGen (G' (adj R) a b c d) a b ∨ ReflTransGen (G' (adj R) a b c d) a c ∨
    ReflTransGen (G' (adj R) a b c d) d c ∨ ReflTransGen (G' (adj R) a b c d) d b :=
  undTest_sound R a b c d hab hac had hbc hbd hcd hs hdiag e1 e2 z1 z2 h

/-- An accepted swap of an undirected `_connected` routine keeps the graph connected. -/
theorem swap_connected_und (cfg : Cfg n) (hu : cfg.und = true) (hc : cfg.conn = true)
    (R R' : AMat Int n) (hs : Symm R) (hdiag : EmptyDiag R) (st : SwapStep cfg R R')
    (hconn : Conn (adj R)) : Conn (adj R') := by
  obtain ⟨a, b, c, d, hab, hac, had, hbc, hbd, hcd, e1, e2, hacc, rfl⟩ := st
  obtain ⟨⟨z1, z2⟩, _, _, htest⟩ := accept_parts cfg R a b c d hacc
  have ht := htest hc
  simp only [hu, if_true] at ht ⊢
  rw [swapUnd_adj R a b c d hab hac had hbc hbd hcd hs e1 e2 z1 z2]
  refine und_swap_connected (adj R) ?_ a b c d hconn
    (undTest_sound R a b c d hab hac had hbc hbd hcd hs hdiag e1 e2 z1 z2 ht)
  intro u v huv
  unfold adj at *
  rw [hs]; exact huv

/-- **Connected in ⇒ connected out**, undirected `_connected` routines: every successful run of the
model on a symmetric, empty-diagonal, connected input returns a connected matrix.
(`hsrc`: the edge list holds each undirected edge once — `tril` / `triu1` in every real routine.) -/
theorem runBudget_connected_und (cfg : Cfg n) (R R' : AMat Int n) (itr eff : ℕ) (ds rest : List ℕ)
    (hu : cfg.und = true) (hc : cfg.conn = true) (hsrc : cfg.src ≠ .all)
    (hd : EmptyDiag R) (hs : Symm R) (hconn : Conn (adj R))
    (hrun : runBudget cfg R itr ds = .ok (R', eff, rest)) : Conn (adj R') := by
  refine runBudget_preserves cfg (fun X => Conn (adj X)) R R' itr eff ds rest hd (fun _ => hs)
    (fun _ => hsrc) ?_ hconn hrun
  intro X X' hsX hdX st q
  exact swap_connected_und cfg hu hc X X' (hsX hu) (fun v => by rw [hdX v]; exact hd v) st q

/-! ### 2. directed connectivity -/

/-- **Directed test soundness.**  Empty diagonal, four distinct nodes.  If `dirConnOk` (six-cell
shortcut, else the exploration loop from `a` and `c` over the old rows with `a→d`, `c→b` patched in)
answers `true`, then in the swapped digraph `a` reaches `b` or `c`, and `c` reaches `d` or `a`. -/
theorem dirConnOk_sound (R : AMat Int n) (a b c d : Fin n)
    (hab : a ≠ b) (hac : a ≠ c) (had : a ≠ d) (hbc : b ≠ c) (hbd : b ≠ d) (hcd : c ≠ d)
    (hdiag : EmptyDiag R) (h : dirConnOk R a b c d = true) :
    (ReflTransGen (Gd (adj R) a b c d) a b ∨ ReflTransGen (Gd (adj R) a b c d) a c) ∧
    (ReflTransGen (Gd (adj R) a b c d) c d ∨ ReflTransGen (Gd (adj R) a b c d) c a) :=
  dirTest_sound R a b c d hab hac had hbc hbd hcd hdiag h

/-- An accepted swap of a directed `_connected` routine keeps the digraph strongly connected. -/
theorem swap_connected_dir (cfg : Cfg n) (hu : cfg.und = false) (hc : cfg.conn = true)
    (R R' : AMat Int n) (hdiag : EmptyDiag R) (st : SwapStep cfg R R')
    (hconn : Conn (adj R)) : Conn (adj R') := by
  obtain ⟨a, b, c, d, hab, hac, had, hbc, hbd, hcd, e1, e2, hacc, rfl⟩ := st
  obtain ⟨⟨z1, z2⟩, _, _, htest⟩ := accept_parts cfg R a b c d hacc
  have ht := htest hc
  simp only [hu, Bool.false_eq_true, if_false] at ht ⊢
  rw [swapDir_adj R a b c d hac hbd e1 e2 z1 z2]
  obtain ⟨h0, h1⟩ := dirTest_sound R a b c d hab hac had hbc hbd hcd hdiag ht
  exact dir_swap_strongly_connected (adj R) a b c d hconn h0 h1

/-- **Strongly connected in ⇒ strongly connected out**, directed `_connected` routines. -/
theorem runBudget_connected_dir (cfg : Cfg n) (R R' : AMat Int n) (itr eff : ℕ) (ds rest : List ℕ)
    (hu : cfg.und = false) (hc : cfg.conn = true)
    (hd : EmptyDiag R) (hconn : Conn (adj R))
    (hrun : runBudget cfg R itr ds = .ok (R', eff, rest)) : Conn (adj R') := by
  refine runBudget_preserves cfg (fun X => Conn (adj X)) R R' itr eff ds rest hd
    (fun h => by rw [hu] at h; cases h) (fun h => by rw [hu] at h; cases h) ?_ hconn hrun
  intro X X' _ hdX st q
  exact swap_connected_dir cfg hu hc X X' (fun v => by rw [hdX v]; exact hd v) st q

/-! ### latticisers: connectivity through the node permutation -/

/-- renumbering the nodes by a permutation keeps (strong) connectivity -/
theorem conn_permMat (X : AMat Int n) (f : Fin n → Fin n) (hf : Function.Injective f)
    (h : Conn (adj X)) : Conn (adj (permMat X f)) := by
  intro u v
  have lift : ∀ x y, ReflTransGen (adj X) x y →
      ReflTransGen (adj (permMat X f)) (invPerm f x) (invPerm f y) := by
    intro x y hxy
    induction hxy with
    | refl => exact ReflTransGen.refl
    | tail _ hbc ih =>
      refine ih.tail ?_
      unfold adj at *
      rw [toFun_permMat]
      simp only [invPerm_right f hf]
      exact hbc
  have key := lift _ _ (h (f u) (f v))
  rwa [invPerm_left f hf, invPerm_left f hf] at key

theorem invPerm_injective (p : Fin n → Fin n) (hp : Function.Injective p) : Function.Injective (invPerm p) := by
  intro x y h
  have := congrArg p h
  rwa [invPerm_right p hp, invPerm_right p hp] at this

/-- `latmio_und_connected` as the driver runs it (`Rp = R[ix_(p,p)]`, rewire, `Rlatt = Rrp[ix_(p⁻¹,p⁻¹)]`):
connected input ⇒ connected `Rlatt`, for every node permutation and every draw list. -/
theorem latt_connected_und (cfg : Cfg n) (R Rrp : AMat Int n) (p : Fin n → Fin n) (hp : Function.Injective p)
    (itr eff : ℕ) (ds rest : List ℕ)
    (hu : cfg.und = true) (hc : cfg.conn = true) (hsrc : cfg.src ≠ .all)
    (hd : EmptyDiag R) (hs : Symm R) (hconn : Conn (adj R))
    (hrun : runBudget cfg (permMat R p) itr ds = .ok (Rrp, eff, rest)) :
    Conn (adj (permMat Rrp (invPerm p))) := by
  refine conn_permMat Rrp _ (invPerm_injective p hp) ?_
  refine runBudget_connected_und cfg (permMat R p) Rrp itr eff ds rest hu hc hsrc ?_ ?_
    (conn_permMat R p hp hconn) hrun
  · intro v; unfold EmptyDiag at hd; rw [toFun_permMat]; exact hd _
  · intro i j; unfold Symm at hs; rw [toFun_permMat]; exact hs _ _

/-- `latmio_dir_connected` likewise. -/
theorem latt_connected_dir (cfg : Cfg n) (R Rrp : AMat Int n) (p : Fin n → Fin n) (hp : Function.Injective p)
    (itr eff : ℕ) (ds rest : List ℕ)
    (hu : cfg.und = false) (hc : cfg.conn = true)
    (hd : EmptyDiag R) (hconn : Conn (adj R))
    (hrun : runBudget cfg (permMat R p) itr ds = .ok (Rrp, eff, rest)) :
    Conn (adj (permMat Rrp (invPerm p))) := by
  refine conn_permMat Rrp _ (invPerm_injective p hp) ?_
  refine runBudget_connected_dir cfg (permMat R p) Rrp itr eff ds rest hu hc ?_
    (conn_permMat R p hp hconn) hrun
  intro v; unfold EmptyDiag at hd; rw [toFun_permMat]; exact hd _

/-- the same with the permutation as the driver builds it from the recorded `rng.permutation(n)`
(`listToPerm`; injective by `C01.listToPerm_injective`) -/
theorem latt_connected_und_driver (cfg : Cfg n) (R Rrp : AMat Int n) (pl : List ℕ) (p : Fin n → Fin n)
    (hpl : listToPerm n pl = some p) (itr eff : ℕ) (ds rest : List ℕ)
    (hu : cfg.und = true) (hc : cfg.conn = true) (hsrc : cfg.src ≠ .all)
    (hd : EmptyDiag R) (hs : Symm R) (hconn : Conn (adj R))
    (hrun : runBudget cfg (permMat R p) itr ds = .ok (Rrp, eff, rest)) :
    Conn (adj (permMat Rrp (invPerm p))) :=
  latt_connected_und cfg R Rrp p (listToPerm_injective pl p hpl) itr eff ds rest hu hc hsrc hd hs hconn hrun

theorem latt_connected_dir_driver (cfg : Cfg n) (R Rrp : AMat Int n) (pl : List ℕ) (p : Fin n → Fin n)
    (hpl : listToPerm n pl = some p) (itr eff : ℕ) (ds rest : List ℕ)
    (hu : cfg.und = false) (hc : cfg.conn = true)
    (hd : EmptyDiag R) (hconn : Conn (adj R))
    (hrun : runBudget cfg (permMat R p) itr ds = .ok (Rrp, eff, rest)) :
    Conn (adj (permMat Rrp (invPerm p))) :=
  latt_connected_dir cfg R Rrp p (listToPerm_injective pl p hpl) itr eff ds rest hu hc hd hconn hrun

/-- what a successful whole latticiser call (`runLatt`, the function the driver's `step` runs) consists of -/
theorem runLatt_ok (cfg : Cfg n) (R Rlatt Rrp : AMat Int n) (pl : List ℕ) (itr eff : ℕ) (ds rest : List ℕ)
    (hrun : runLatt cfg R pl itr ds = .ok (Rlatt, Rrp, eff, rest)) :
    ∃ p, listToPerm n pl = some p ∧ runBudget cfg (permMat R p) itr ds = .ok (Rrp, eff, rest) ∧
      Rlatt = permMat Rrp (invPerm p) := by
  unfold runLatt at hrun
  cases hp : listToPerm n pl with
  | none => simp [hp] at hrun
  | some p =>
    simp only [hp] at hrun
    cases hr : runBudget cfg (permMat R p) itr ds with
    | error e => simp [hr] at hrun
    | ok v =>
      obtain ⟨X, e, r⟩ := v
      simp only [hr, Except.ok.injEq, Prod.mk.injEq] at hrun
      obtain ⟨h1, h2, h3, h4⟩ := hrun
      subst h2 h3 h4
      exact ⟨p, rfl, hr, h1.symm⟩

/-- `latmio_und_connected`, whole call: connected input ⇒ connected `Rlatt` (caller's numbering). -/
theorem runLatt_connected_und (cfg : Cfg n) (R Rlatt Rrp : AMat Int n) (pl : List ℕ) (itr eff : ℕ) (ds rest : List ℕ)
    (hu : cfg.und = true) (hc : cfg.conn = true) (hsrc : cfg.src ≠ .all)
    (hd : EmptyDiag R) (hs : Symm R) (hconn : Conn (adj R))
    (hrun : runLatt cfg R pl itr ds = .ok (Rlatt, Rrp, eff, rest)) : Conn (adj Rlatt) := by
  obtain ⟨p, hp, hr, rfl⟩ := runLatt_ok cfg R Rlatt Rrp pl itr eff ds rest hrun
  exact latt_connected_und_driver cfg R Rrp pl p hp itr eff ds rest hu hc hsrc hd hs hconn hr

/-- `latmio_dir_connected`, whole call: strongly connected input ⇒ strongly connected `Rlatt`. -/
theorem runLatt_connected_dir (cfg : Cfg n) (R Rlatt Rrp : AMat Int n) (pl : List ℕ) (itr eff : ℕ) (ds rest : List ℕ)
    (hu : cfg.und = false) (hc : cfg.conn = true)
    (hd : EmptyDiag R) (hconn : Conn (adj R))
    (hrun : runLatt cfg R pl itr ds = .ok (Rlatt, Rrp, eff, rest)) : Conn (adj Rlatt) := by
  obtain ⟨p, hp, hr, rfl⟩ := runLatt_ok cfg R Rlatt Rrp pl itr eff ds rest hrun
  exact latt_connected_dir_driver cfg R Rrp pl p hp itr eff ds rest hu hc hd hconn hr

/-! ### 3. lattice cost -/

/-- **Lattice step, directed**: under the rewiring guard, the lattice condition
`D[a,b]R[a,b] + D[c,d]R[c,d] ≥ D[a,d]R[a,b] + D[c,b]R[c,d]` makes the swap cost-non-increasing. -/
theorem lattice_step_cost_dir (D R : AMat Int n) (a b c d : Fin n)
    (hac : a ≠ c) (hbd : b ≠ d) (z1 : R.toFun a d = 0) (z2 : R.toFun c b = 0)
    (h : latOk D R a b c d = true) :
    cost D (swapDir R a b c d) ≤ cost D R :=
  latticeStep_dir D R a b c d hac hbd z1 z2 h

/-- **Lattice step, undirected**: the same for the eight assignments, for symmetric `D` and `R`. -/
theorem lattice_step_cost_und (D R : AMat Int n) (a b c d : Fin n)
    (hab : a ≠ b) (hac : a ≠ c) (had : a ≠ d) (hbc : b ≠ c) (hbd : b ≠ d) (hcd : c ≠ d)
    (hD : Symm D) (hs : Symm R) (z1 : R.toFun a d = 0) (z2 : R.toFun c b = 0)
    (h : latOk D R a b c d = true) :
    cost D (swapUnd R a b c d) ≤ cost D R :=
  latticeStep_und D R a b c d hab hac had hbc hbd hcd hD hs z1 z2 h

/-- **Latticisation never increases `Σ D∘R`** for the distance matrix in use: every successful run of
a latticiser configuration (`R` = the permuted matrix the loop works on; `D` symmetric for the
undirected routines). -/
theorem runBudget_cost_noninc (cfg : Cfg n) (D R R' : AMat Int n) (itr eff : ℕ) (ds rest : List ℕ)
    (hl : cfg.lat = some D) (hD : cfg.und = true → Symm D)
    (hd : EmptyDiag R) (hs : cfg.und = true → Symm R) (hsrc : cfg.und = true → cfg.src ≠ .all)
    (hrun : runBudget cfg R itr ds = .ok (R', eff, rest)) : cost D R' ≤ cost D R := by
  refine runBudget_preserves cfg (fun X => cost D X ≤ cost D R) R R' itr eff ds rest hd hs hsrc ?_
    (le_refl _) hrun
  intro X X' hsX _ st q
  obtain ⟨a, b, c, d, hab, hac, had, hbc, hbd, hcd, _, _, hacc, rfl⟩ := st
  obtain ⟨⟨z1, z2⟩, _, hlat, _⟩ := accept_parts cfg X a b c d hacc
  have hl' := hlat D hl
  refine le_trans ?_ q
  cases hu : cfg.und with
  | true =>
    simp only [if_true]
    exact latticeStep_und D X a b c d hab hac had hbc hbd hcd (hD hu) (hsX hu) z1 z2 hl'
  | false =>
    simp only [Bool.false_eq_true, if_false]
    exact latticeStep_dir D X a b c d hac hbd z1 z2 hl'

/-- the four latticisers, whole call: `Σ D∘Rrp ≤ Σ D∘R[ix_(p,p)]` for the permutation `p` drawn by the
call — exactly the two quantities the Python predicate compares. -/
theorem runLatt_cost_noninc (cfg : Cfg n) (D R Rlatt Rrp : AMat Int n) (pl : List ℕ) (itr eff : ℕ) (ds rest : List ℕ)
    (hl : cfg.lat = some D) (hD : cfg.und = true → Symm D)
    (hd : EmptyDiag R) (hs : cfg.und = true → Symm R) (hsrc : cfg.und = true → cfg.src ≠ .all)
    (hrun : runLatt cfg R pl itr ds = .ok (Rlatt, Rrp, eff, rest)) :
    ∃ p, listToPerm n pl = some p ∧ cost D Rrp ≤ cost D (permMat R p) := by
  obtain ⟨p, hp, hr, _⟩ := runLatt_ok cfg R Rlatt Rrp pl itr eff ds rest hrun
  refine ⟨p, hp, runBudget_cost_noninc cfg D (permMat R p) Rrp itr eff ds rest hl hD ?_ ?_ hsrc hr⟩
  · intro v; unfold EmptyDiag at hd; rw [toFun_permMat]; exact hd _
  · intro hu i j; have := hs hu; unfold Symm at this; rw [toFun_permMat]; exact this _ _

/-- **Directed latticisers, any diagonal**: for `latmio_dir` / `latmio_dir_connected` the cost clause needs no
hypothesis on the input at all (self-loops included) — one attempt is a no-op or the four assignments on
`a ≠ c`, `b ≠ d` under the guard, whatever the edge list holds. -/
theorem runBudget_cost_noninc_dir (cfg : Cfg n) (D R R' : AMat Int n) (itr eff : ℕ) (ds rest : List ℕ)
    (hu : cfg.und = false) (hl : cfg.lat = some D)
    (hrun : runBudget cfg R itr ds = .ok (R', eff, rest)) : cost D R' ≤ cost D R := by
  refine runBudget_preserves_dir cfg hu (fun X => cost D X ≤ cost D R) R R' itr eff ds rest ?_ (le_refl _) hrun
  intro X X' st q
  obtain ⟨a, b, c, d, hac, _, _, hbd, hacc, rfl⟩ := st
  obtain ⟨⟨z1, z2⟩, _, hlat, _⟩ := accept_parts cfg X a b c d hacc
  exact le_trans (latticeStep_dir D X a b c d hac hbd z1 z2 (hlat D hl)) q

/-- whole call of a directed latticiser, any diagonal -/
theorem runLatt_cost_noninc_dir (cfg : Cfg n) (D R Rlatt Rrp : AMat Int n) (pl : List ℕ) (itr eff : ℕ) (ds rest : List ℕ)
    (hu : cfg.und = false) (hl : cfg.lat = some D)
    (hrun : runLatt cfg R pl itr ds = .ok (Rlatt, Rrp, eff, rest)) :
    ∃ p, listToPerm n pl = some p ∧ cost D Rrp ≤ cost D (permMat R p) := by
  obtain ⟨p, hp, hr, _⟩ := runLatt_ok cfg R Rlatt Rrp pl itr eff ds rest hrun
  exact ⟨p, hp, runBudget_cost_noninc_dir cfg D (permMat R p) Rrp itr eff ds rest hu hl hr⟩

/-- the default distance-to-diagonal matrix is symmetric, so `runBudget_cost_noninc` applies to the
undirected latticisers called without `D`, for every `n` -/
theorem defaultD_symm (n : ℕ) : Symm (defaultD n) := by
  intro i j
  simp only [AMat.toFun, defaultD, AMat.get_ofFn]
  congr 1
  split_ifs <;> omega

/-! ### 4. mask -/

/-- **Mask, one accepted swap**: a cell that is nonzero after the swap and was zero before has
`B = 0` — for every mask `B`, symmetric or not. -/
theorem mask_respected (cfg : Cfg n) (B R R' : AMat Int n)
    (hm : cfg.mask = some B) (hs : cfg.und = true → Symm R)
    (st : SwapStep cfg R R') (i j : Fin n) (hnew : R'.toFun i j ≠ 0) (hold : R.toFun i j = 0) :
    B.toFun i j = 0 := by
  obtain ⟨a, b, c, d, hab, hac, had, hbc, hbd, hcd, _, _, hacc, rfl⟩ := st
  obtain ⟨⟨z1, z2⟩, hmask, _, _⟩ := accept_parts cfg R a b c d hacc
  obtain ⟨m1, m2, m3, m4⟩ := hmask B hm
  cases hu : cfg.und with
  | true =>
    simp only [hu, if_true] at hnew
    have hsR := hs hu
    rw [toFun_swapUnd] at hnew
    rcases swapUnd_new_cells R.toFun a b c d hab hac had hbc hbd hcd z1 (by rw [hsR]; exact z1) z2
      (by rw [hsR]; exact z2) i j hnew hold with ⟨rfl, rfl⟩ | ⟨rfl, rfl⟩ | ⟨rfl, rfl⟩ | ⟨rfl, rfl⟩
    · exact m1
    · exact m3
    · exact m2
    · exact m4
  | false =>
    simp only [hu, Bool.false_eq_true, if_false] at hnew
    rw [toFun_swapDir] at hnew
    rcases swapDir_new_cells R.toFun a b c d hac hbd z1 z2 i j hnew hold with ⟨rfl, rfl⟩ | ⟨rfl, rfl⟩
    · exact m1
    · exact m2

/-- **Mask, whole run** (`randomize_graph_partial_und` = `attDen := none`, i.e. the `untilSwaps` loop;
the statement holds for the budgeted loops as well): no connection is created in a cell where the
mask is nonzero — for every mask. -/
theorem runBudget_mask_respected (cfg : Cfg n) (B R R' : AMat Int n) (itr eff : ℕ) (ds rest : List ℕ)
    (hm : cfg.mask = some B)
    (hd : EmptyDiag R) (hs : cfg.und = true → Symm R) (hsrc : cfg.und = true → cfg.src ≠ .all)
    (hrun : runBudget cfg R itr ds = .ok (R', eff, rest)) :
    ∀ i j, R'.toFun i j ≠ 0 → R.toFun i j = 0 → B.toFun i j = 0 := by
  refine runBudget_preserves cfg (fun X => ∀ i j, X.toFun i j ≠ 0 → R.toFun i j = 0 → B.toFun i j = 0)
    R R' itr eff ds rest hd hs hsrc ?_ (fun i j h1 h0 => absurd h0 h1) hrun
  intro X X' hsX _ st q i j hnew h0
  by_cases hX : X.toFun i j = 0
  · exact mask_respected cfg B X X' hm hsX st i j hnew hX
  · exact q i j hX h0

/-- **Masked cells, one accepted swap**: a cell with `B ≠ 0` keeps its value or is set to zero — it is
never written with a weight (so a connection removed from a masked cell is not re-created either). -/
theorem masked_cell_kept (cfg : Cfg n) (B R R' : AMat Int n)
    (hm : cfg.mask = some B) (hs : cfg.und = true → Symm R)
    (st : SwapStep cfg R R') (i j : Fin n) (hB : B.toFun i j ≠ 0) :
    R'.toFun i j = R.toFun i j ∨ R'.toFun i j = 0 := by
  obtain ⟨a, b, c, d, hab, hac, had, hbc, hbd, hcd, _, _, hacc, rfl⟩ := st
  obtain ⟨⟨z1, z2⟩, hmask, _, _⟩ := accept_parts cfg R a b c d hacc
  obtain ⟨m1, m2, m3, m4⟩ := hmask B hm
  cases hu : cfg.und with
  | true =>
    simp only [if_true]
    have hsR := hs hu
    rw [toFun_swapUnd]
    rcases swapUnd_cell R.toFun a b c d hab hac had hbc hbd hcd z1 (by rw [hsR]; exact z1) z2
      (by rw [hsR]; exact z2) i j with h | h | ⟨rfl, rfl⟩ | ⟨rfl, rfl⟩ | ⟨rfl, rfl⟩ | ⟨rfl, rfl⟩
    · exact Or.inl h
    · exact Or.inr h
    · exact absurd m1 hB
    · exact absurd m3 hB
    · exact absurd m2 hB
    · exact absurd m4 hB
  | false =>
    simp only [Bool.false_eq_true, if_false]
    rw [toFun_swapDir]
    rcases swapDir_cell R.toFun a b c d hac hbd z1 z2 i j with h | h | ⟨rfl, rfl⟩ | ⟨rfl, rfl⟩
    · exact Or.inl h
    · exact Or.inr h
    · exact absurd m1 hB
    · exact absurd m2 hB

/-- **Masked cells, whole run**: every cell where the mask is nonzero holds its input value or zero in
the output. -/
theorem runBudget_masked_cells (cfg : Cfg n) (B R R' : AMat Int n) (itr eff : ℕ) (ds rest : List ℕ)
    (hm : cfg.mask = some B)
    (hd : EmptyDiag R) (hs : cfg.und = true → Symm R) (hsrc : cfg.und = true → cfg.src ≠ .all)
    (hrun : runBudget cfg R itr ds = .ok (R', eff, rest)) :
    ∀ i j, B.toFun i j ≠ 0 → R'.toFun i j = R.toFun i j ∨ R'.toFun i j = 0 := by
  refine runBudget_preserves cfg (fun X => ∀ i j, B.toFun i j ≠ 0 → X.toFun i j = R.toFun i j ∨ X.toFun i j = 0)
    R R' itr eff ds rest hd hs hsrc ?_ (fun i j _ => Or.inl rfl) hrun
  intro X X' hsX _ st q i j hB
  rcases masked_cell_kept cfg B X X' hm hsX st i j hB with h | h
  · rw [h]; exact q i j hB
  · exact Or.inr h

/-- **Mask, `randomize_graph_partial_und`, any diagonal**: with the `triu1` edge list (which never
lists a diagonal cell) the mask clauses hold for every symmetric input, self-loops included. -/
theorem runBudget_mask_respected_triu1 (cfg : Cfg n) (B R R' : AMat Int n) (itr eff : ℕ) (ds rest : List ℕ)
    (hu : cfg.und = true) (hsrc : cfg.src = .triu1) (hm : cfg.mask = some B) (hs : Symm R)
    (hrun : runBudget cfg R itr ds = .ok (R', eff, rest)) :
    (∀ i j, R'.toFun i j ≠ 0 → R.toFun i j = 0 → B.toFun i j = 0) ∧
    (∀ i j, B.toFun i j ≠ 0 → R'.toFun i j = R.toFun i j ∨ R'.toFun i j = 0) := by
  refine runBudget_preserves_triu1 cfg hu hsrc
    (fun X => (∀ i j, X.toFun i j ≠ 0 → R.toFun i j = 0 → B.toFun i j = 0) ∧
      (∀ i j, B.toFun i j ≠ 0 → X.toFun i j = R.toFun i j ∨ X.toFun i j = 0))
    R R' itr eff ds rest hs ?_ ⟨fun i j h1 h0 => absurd h0 h1, fun i j _ => Or.inl rfl⟩ hrun
  intro X X' hsX _ st q
  refine ⟨?_, ?_⟩
  · intro i j hnew h0
    by_cases hX : X.toFun i j = 0
    · exact mask_respected cfg B X X' hm hsX st i j hnew hX
    · exact q.1 i j hX h0
  · intro i j hB
    rcases masked_cell_kept cfg B X X' hm hsX st i j hB with h | h
    · rw [h]; exact q.2 i j hB
    · exact Or.inr h

/-! ### 5. rejection of malformed input (`randmio_und_connected`, `latmio_und_connected`) -/

/-- **Rejection.**  Asymmetric or disconnected input makes the pre-check of the undirected
`_connected` routines answer `BCTParamError` (any `n`, any integer matrix, any diagonal). -/
theorem precheck_rejects (R : AMat Int n) (h : ¬ Symm R ∨ ¬ Conn (adj R)) :
    RewirePre.precheck R = .error .param :=
  precheck_rejects_core R h

/-- Symmetric connected input passes the pre-check. -/
theorem precheck_ok (R : AMat Int n) (hs : Symm R) (hconn : Conn (adj R)) :
    RewirePre.precheck R = .ok () :=
  precheck_ok_core R hs hconn

/-- the pre-check is exactly "symmetric and connected" -/
theorem precheck_iff (R : AMat Int n) : RewirePre.precheck R = .ok () ↔ Symm R ∧ Conn (adj R) := by
  constructor
  · intro h
    by_contra hn
    have : ¬ Symm R ∨ ¬ Conn (adj R) := by tauto
    rw [precheck_rejects R this] at h
    cases h
  · rintro ⟨hs, hc⟩; exact precheck_ok R hs hc

/-! ### non-vacuity: concrete inputs satisfying the hypotheses, tests answering both ways, runs that swap -/

theorem conn_of_hub {V : Type} (r : V → V → Prop) (h : V) (h1 : ∀ v, ReflTransGen r h v)
    (h2 : ∀ v, ReflTransGen r v h) : Conn r := fun u v => (h2 u).trans (h1 v)

/-- undirected 6-ring 0–1–2–3–4–5–0 -/
def ring6 : AMat Int 6 := AMat.ofFn fun i j => if (i.val + 1) % 6 = j.val ∨ (j.val + 1) % 6 = i.val then 1 else 0
example : Symm ring6 ∧ EmptyDiag ring6 := by unfold Symm EmptyDiag; decide
-- swapping 0–1, 4–3 into 0–3, 4–1 keeps the ring in one piece: accepted through the exploration loop
example : undConnOk ring6 0 1 4 3 = true ∧ ring6.toFun 0 4 = 0 ∧ ring6.toFun 1 3 = 0 := by decide
-- swapping 0–1, 3–4 into 0–4, 3–1 would split it into two triangles: rejected
example : undConnOk ring6 0 1 3 4 = false := by decide

/-- undirected 5-ring -/
def ring5 : AMat Int 5 := AMat.ofFn fun i j => if (i.val + 1) % 5 = j.val ∨ (j.val + 1) % 5 = i.val then 1 else 0
def cfgUC : Cfg 5 := { und := true, conn := true, lat := none, mask := none, src := .tril, attDen := some 20 }
example : Symm ring5 ∧ EmptyDiag ring5 := by unfold Symm EmptyDiag; decide
theorem ring5_conn : Conn (adj ring5) := by
  have e : ∀ i j : Fin 5, decide (ring5.toFun i j ≠ 0) = true → adj ring5 i j :=
    fun i j h => (of_decide_eq_true h : ring5.toFun i j ≠ 0)
  have fwd : ∀ v : Fin 5, ReflTransGen (adj ring5) 0 v := by
    intro v
    have p1 : ReflTransGen (adj ring5) 0 1 := ReflTransGen.single (e 0 1 (by decide))
    have p2 := p1.tail (e 1 2 (by decide))
    have p3 := p2.tail (e 2 3 (by decide))
    have p4 := p3.tail (e 3 4 (by decide))
    fin_cases v
    · exact ReflTransGen.refl
    · exact p1
    · exact p2
    · exact p3
    · exact p4
  refine conn_of_hub _ 0 fwd (fun v => reach_symm _ ?_ (fwd v))
  intro u v huv
  have hs : Symm ring5 := by unfold Symm; decide
  unfold adj at *; rw [hs]; exact huv
-- a recorded run of bct.randmio_und_connected(ring5, 1, seed=70): five accepted swaps
example : (runBudget cfgUC ring5 1 [2, 0, 5265890362820944, 0, 4, 2853774099106901, 4, 0, 3501489233943940,
    4, 1, 1979842106220241, 1, 0, 4, 1, 1408925503897833]).toOption.map (fun r => r.2.1) = some 5 := by decide

/-- strongly connected digraph 0→2, 0→3, 1→2, 2→4, 3→1, 4→0 -/
def exD : AMat Int 5 := AMat.ofFn fun i j =>
  if (i.val, j.val) ∈ [(0, 2), (0, 3), (1, 2), (2, 4), (3, 1), (4, 0)] then 1 else 0
def cfgDC : Cfg 5 := { und := false, conn := true, lat := none, mask := none, src := .all, attDen := some 20 }
example : EmptyDiag exD := by unfold EmptyDiag; decide
-- 0→2, 3→1 into 0→1, 3→2: accepted through the exploration loop (the six-cell shortcut fails)
example : dirConnOk exD 0 2 3 1 = true ∧ exD.toFun 0 1 = 0 ∧ exD.toFun 3 2 = 0 ∧
    ((exD.toFun 0 3 != 0 || exD.toFun 1 2 != 0 || exD.toFun 1 3 != 0) &&
     (exD.toFun 3 0 != 0 || exD.toFun 2 1 != 0 || exD.toFun 2 0 != 0)) = false := by decide
-- 0→3, 2→4 into 0→4, 2→3: node 1 could no longer be reached from 0: rejected
example : dirConnOk exD 0 3 2 4 = false := by decide
theorem exD_conn : Conn (adj exD) := by
  have e : ∀ i j : Fin 5, decide (exD.toFun i j ≠ 0) = true → adj exD i j :=
    fun i j h => (of_decide_eq_true h : exD.toFun i j ≠ 0)
  -- Hamiltonian cycle 0 → 3 → 1 → 2 → 4 → 0
  have a03 := e 0 3 (by decide)
  have a31 := e 3 1 (by decide)
  have a12 := e 1 2 (by decide)
  have a24 := e 2 4 (by decide)
  have a40 := e 4 0 (by decide)
  refine conn_of_hub _ 0 ?_ ?_
  · intro v
    fin_cases v
    · exact ReflTransGen.refl
    · exact (ReflTransGen.single a03).tail a31
    · exact ((ReflTransGen.single a03).tail a31).tail a12
    · exact ReflTransGen.single a03
    · exact (((ReflTransGen.single a03).tail a31).tail a12).tail a24
  · intro v
    fin_cases v
    · exact ReflTransGen.refl
    · exact ((ReflTransGen.single a12).tail a24).tail a40
    · exact (ReflTransGen.single a24).tail a40
    · exact (((ReflTransGen.single a31).tail a12).tail a24).tail a40
    · exact ReflTransGen.single a40
-- a recorded run of bct.randmio_dir_connected(exD, 1, seed=249): five accepted swaps
example : (runBudget cfgDC exD 1 [0, 3, 4, 5, 3, 1, 2, 1, 0, 4, 5, 5, 0, 2, 2, 2, 2, 5, 4, 1, 4, 0, 4, 0, 4, 0, 0, 4]).toOption.map
    (fun r => r.2.1) = some 5 := by decide

/-- weighted 5-ring, already in the order bct.latmio_und(·, 1, seed=42) permuted it to (p = 1,4,2,0,3) -/
def ringW : AMat Int 5 := AMat.ofFn fun i j =>
  (#v[#v[0, 0, 5, 3, 0], #v[0, 0, 0, 2, 4], #v[5, 0, 0, 0, 1], #v[3, 2, 0, 0, 0], #v[0, 4, 1, 0, 0]] : AMat Int 5)[i][j]
def cfgLU : Cfg 5 := { und := true, conn := false, lat := some (defaultD 5), mask := none, src := .tril, attDen := some 10 }
example : Symm ringW ∧ EmptyDiag ringW ∧ Symm (defaultD 5) := by unfold Symm EmptyDiag; decide
-- the lattice condition answers both ways on this input
example : latOk (defaultD 5) ringW 0 2 1 3 = true ∧ latOk (defaultD 5) ring5 0 1 2 3 = false := by decide
-- the recorded run performs three swaps
example : (runBudget cfgLU ringW 1 [4, 4, 1, 1405073727315923, 2, 2, 4, 5414362685787053, 2, 4, 8736171297559461, 3, 1,
    1637733709121102, 4, 0, 3, 1, 4726585739918435, 3, 0, 2623158894550663, 2, 1, 3, 3, 2, 3, 3, 0, 418388122833975, 2, 4,
    4057736526601442, 1, 3, 8486598951620260]).toOption.map (fun r => r.2.1) = some 3 := by decide

def cfgLD : Cfg 5 := { und := false, conn := false, lat := some (defaultD 5), mask := none, src := .all, attDen := some 20 }
-- bct.latmio_dir(exD, 1, seed=247): p = 2,4,1,0,3, three swaps
example : (runBudget cfgLD (permMat exD fun i => (#v[2, 4, 1, 0, 3] : Vector (Fin 5) 5)[i]) 1
    [1, 5, 5, 0, 1, 3, 0, 3, 3, 0, 2, 5, 4, 0, 1, 4, 4, 0, 4, 3, 0, 2, 2, 4, 0, 2, 2, 3, 1, 4, 0, 4, 0, 2, 0, 4]).toOption.map
    (fun r => r.2.1) = some 3 := by decide

/-- mask forbidding cells {0,2} and {1,4} -/
def maskB : AMat Int 5 := AMat.ofFn fun i j =>
  if (i.val, j.val) ∈ [(0, 2), (2, 0), (1, 4), (4, 1)] then 1 else 0
def cfgPM : Cfg 5 := { und := true, conn := false, lat := none, mask := some maskB, src := .triu1, attDen := none }
-- the mask guard answers both ways: 0–1,3–2 → 0–2 is forbidden; 1–2,4–3 → 1–3, 4–2 is allowed
example : accept cfgPM ring5 0 1 3 2 = false ∧ accept { cfgPM with mask := none } ring5 0 1 3 2 = true ∧
    accept cfgPM ring5 1 2 4 3 = true := by decide
/-- an asymmetric mask: only cell (3,0) is forbidden -/
def mask30 : AMat Int 5 := AMat.ofFn fun i j => if i.val = 3 ∧ j.val = 0 then 1 else 0
-- 0–4, 2–3 → 0–3, 2–4 would fill (0,3) *and* (3,0): refused although `B[0,3] = 0` (allowed without mask);
-- the mirrored choice 3–2, 4–0 → 3–0, 4–2 is refused as well; 0–1, 3–2 → 0–2, 3–1 is allowed
example : accept { cfgPM with mask := some mask30 } ring5 0 4 2 3 = false ∧
    accept { cfgPM with mask := none } ring5 0 4 2 3 = true ∧
    accept { cfgPM with mask := some mask30 } ring5 3 2 4 0 = false ∧
    accept { cfgPM with mask := some mask30 } ring5 0 1 3 2 = true := by decide
-- the pre-check: the ring passes; a ring with one direction of an edge missing and two disjoint edges are rejected
example : RewirePre.precheck ring5 = .ok () ∧
    RewirePre.precheck (ring5.set 0 1 0) = .error .param ∧
    RewirePre.precheck (AMat.ofFn fun i j => if (i.val, j.val) ∈ [(0, 1), (1, 0), (2, 3), (3, 2)] then 1 else 0 : AMat Int 4)
      = .error .param := by decide
-- bct.randomize_graph_partial_und(ring5, maskB, 2, seed=53): two swaps
example : (runBudget cfgPM ring5 2 [1, 3, 306117710749834, 4, 0, 4079479849701554]).toOption.map (fun r => r.2.1) = some 2 := by
  decide

/-! ### the hypotheses `EmptyDiag` and `Symm D` are forced: witnesses on the model

The model mirrors the code (the correspondence check replays these very runs against bct).  With a
self-loop in the input the `_connected` configurations do disconnect, and with an asymmetric `D` the
undirected latticiser does increase `Σ D∘R`: the full statements (without the hypothesis) are false.
These are the open known findings `C11-selfloops-*`, `C11-asymD-cost` of `known_findings.d/C11.json`. -/

/-- strongly connected digraph 0→1, 1→2, 1→4, 2→4, 3→0, 4→3 with a self-loop at node 4 -/
def loopD : AMat Int 5 := AMat.ofFn fun i j =>
  (#v[#v[0, 1, 0, 0, 0], #v[0, 0, 1, 0, 1], #v[0, 0, 0, 0, 1], #v[1, 0, 0, 0, 0], #v[0, 0, 0, 1, 1]] : AMat Int 5)[i][j]
/-- what `randmio_dir_connected(loopD, 1, seed=…)` and the model return: {2,3,4} can no longer reach 0 -/
def loopD' : AMat Int 5 := AMat.ofFn fun i j =>
  (#v[#v[0, 1, 0, 0, 0], #v[1, 0, 0, 0, 1], #v[0, 0, 0, 0, 1], #v[0, 0, 1, 0, 0], #v[0, 0, 0, 1, 1]] : AMat Int 5)[i][j]

/-- **`runBudget_connected_dir` is false without `EmptyDiag`**: a strongly connected input with one
self-loop, a draw list, and a successful run of the directed `_connected` configuration whose output
is not strongly connected. -/
theorem runBudget_connected_dir_selfloop_witness :
    ∃ (R R' : AMat Int 5) (ds : List ℕ), cfgDC.und = false ∧ cfgDC.conn = true ∧ Conn (adj R) ∧ ¬ EmptyDiag R ∧
      (runBudget cfgDC R 1 ds).toOption.map (fun r => r.1) = some R' ∧ ¬ Conn (adj R') := by
  refine ⟨loopD, loopD', [5, 4, 5, 5, 5, 1, 4, 5, 1, 1, 4, 2, 4, 1, 5, 6, 3, 4, 3, 0, 5, 0, 0, 5, 4, 2], rfl, rfl, ?_, ?_, ?_, ?_⟩
  · -- Hamiltonian cycle 0 → 1 → 2 → 4 → 3 → 0
    exact conn_of_walks loopD 0
      (fun v => (#v[[], [1], [1, 2], [1, 2, 4, 3], [1, 2, 4]] : Vector (List (Fin 5)) 5)[v])
      (fun v => (#v[[], [2, 4, 3, 0], [4, 3, 0], [0], [3, 0]] : Vector (List (Fin 5)) 5)[v]) (by decide +kernel)
  · intro h; exact absurd (h 4) (by decide +kernel)
  · decide +kernel
  · exact not_conn_of_closed loopD' (fun v => decide (2 ≤ v.val)) 2 0 rfl rfl (by decide +kernel)

/-- connected undirected graph 0–2, 1–2, 1–4, 2–4, 3–4 with a self-loop at node 0 -/
def loopU : AMat Int 5 := AMat.ofFn fun i j =>
  (#v[#v[1, 0, 1, 0, 0], #v[0, 0, 1, 0, 1], #v[1, 1, 0, 0, 1], #v[0, 0, 0, 0, 1], #v[0, 1, 1, 1, 0]] : AMat Int 5)[i][j]
/-- what `randmio_und_connected(loopU, 1, seed=…)` and the model return: row 3 is empty, cell (0,3) is not -/
def loopU' : AMat Int 5 := AMat.ofFn fun i j =>
  (#v[#v[0, 0, 1, 1, 1], #v[0, 0, 1, 0, 1], #v[1, 1, 0, 0, 1], #v[0, 0, 0, 0, 0], #v[1, 1, 1, 0, 0]] : AMat Int 5)[i][j]

/-- **`runBudget_connected_und` (and C01's symmetry clause) is false without `EmptyDiag`**: a symmetric
connected input with one self-loop and a successful run of the undirected `_connected` configuration
whose output is neither connected nor symmetric. -/
theorem runBudget_connected_und_selfloop_witness :
    ∃ (R R' : AMat Int 5) (ds : List ℕ), cfgUC.und = true ∧ cfgUC.conn = true ∧ cfgUC.src ≠ .all ∧ Symm R ∧
      Conn (adj R) ∧ ¬ EmptyDiag R ∧
      (runBudget cfgUC R 1 ds).toOption.map (fun r => r.1) = some R' ∧ ¬ Conn (adj R') ∧ ¬ Symm R' := by
  refine ⟨loopU, loopU', [5, 0, 6357975758511176, 5, 2, 1918960738989114, 4, 2, 1, 2, 3, 1, 8070328811166171, 5, 4, 0, 3,
    2504683651405730, 4, 5, 0, 1, 1, 0, 2, 4, 5, 5, 0, 1613340648502854, 2, 0, 3040319811848370, 1, 5, 3243370458342647, 3, 0,
    5, 1, 2692120735517778, 0, 2, 1419088721007467, 2, 1, 4, 5, 1, 1, 0, 1, 5, 3892662930273368, 4, 3, 1, 3, 2, 3,
    536933896608603, 4, 3, 0, 2, 4968356665924228], rfl, rfl, by decide, ?_, ?_, ?_, ?_, ?_, ?_⟩
  · unfold Symm; decide +kernel
  · exact conn_of_walks loopU 2
      (fun v => (#v[[0], [1], [], [4, 3], [4]] : Vector (List (Fin 5)) 5)[v])
      (fun v => (#v[[2], [2], [], [4, 2], [2]] : Vector (List (Fin 5)) 5)[v]) (by decide +kernel)
  · intro h; exact absurd (h 0) (by decide +kernel)
  · decide +kernel
  · exact not_conn_of_closed loopU' (fun v => decide (v.val = 3)) 3 0 rfl rfl (by decide +kernel)
  · intro h; exact absurd (h 0 3) (by decide +kernel)

/-- path 2–1–3–0 (the matrix `latmio_und` works on after its node permutation) -/
def pathP : AMat Int 4 := AMat.ofFn fun i j =>
  (#v[#v[0, 0, 0, 1], #v[0, 0, 1, 1], #v[0, 1, 0, 0], #v[1, 1, 0, 0]] : AMat Int 4)[i][j]
def pathP' : AMat Int 4 := AMat.ofFn fun i j =>
  (#v[#v[0, 1, 0, 0], #v[1, 0, 0, 1], #v[0, 0, 0, 1], #v[0, 1, 1, 0]] : AMat Int 4)[i][j]
/-- a caller-supplied asymmetric `D` -/
def asymD : AMat Int 4 := AMat.ofFn fun i j =>
  (#v[#v[0, 1, 1, 1], #v[1, 3, 0, 2], #v[3, 0, 3, 0], #v[0, 2, 3, 1]] : AMat Int 4)[i][j]
def cfgLUa : Cfg 4 := { und := true, conn := false, lat := some asymD, mask := none, src := .tril, attDen := some 6 }

/-- **`runBudget_cost_noninc` is false without `Symm D`** for the undirected latticisers: symmetric
empty-diagonal input, asymmetric `D`, a successful run, and `Σ D∘R` grows from 5 to 9. -/
theorem runBudget_cost_noninc_asymD_witness :
    ∃ (D R R' : AMat Int 4) (ds : List ℕ), cfgLUa.lat = some D ∧ cfgLUa.und = true ∧ ¬ Symm D ∧ Symm R ∧ EmptyDiag R ∧
      (runBudget cfgLUa R 1 ds).toOption.map (fun r => r.1) = some R' ∧ cost D R < cost D R' := by
  refine ⟨asymD, pathP, pathP', [0, 1, 4916389211272884, 1, 0, 4419782308559870, 1, 0, 941162355823523], rfl, rfl, ?_, ?_, ?_, ?_, ?_⟩
  · intro h; exact absurd (h 0 2) (by decide +kernel)
  · unfold Symm; decide +kernel
  · unfold EmptyDiag; decide +kernel
  · decide +kernel
  · have h1 : cost asymD pathP = 5 := by
      simp only [cost, costF, Fin.sum_univ_four]; decide +kernel
    have h2 : cost asymD pathP' = 9 := by
      simp only [cost, costF, Fin.sum_univ_four]; decide +kernel
    rw [h1, h2]; decide

/-- one accepted swap already shows it: the lattice condition holds, yet the eight assignments raise the cost -/
theorem lattice_step_cost_und_asymD_witness :
    ∃ (D R : AMat Int 4) (a b c d : Fin 4), Symm R ∧ ¬ Symm D ∧ R.toFun a d = 0 ∧ R.toFun c b = 0 ∧
      latOk D R a b c d = true ∧ cost D R < cost D (swapUnd R a b c d) := by
  refine ⟨asymD, pathP, 0, 3, 2, 1, ?_, ?_, ?_, ?_, ?_, ?_⟩
  · unfold Symm; decide +kernel
  · intro h; exact absurd (h 0 2) (by decide +kernel)
  · decide +kernel
  · decide +kernel
  · decide +kernel
  · have h1 : cost asymD pathP = 5 := by
      simp only [cost, costF, Fin.sum_univ_four]; decide +kernel
    have h2 : cost asymD (swapUnd pathP 0 3 2 1) = 9 := by
      simp only [cost, costF, Fin.sum_univ_four]; decide +kernel
    rw [h1, h2]; decide

end Bct.C11
