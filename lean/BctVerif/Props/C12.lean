import BctVerif.Lemmas.DistFloydModel
import BctVerif.Props.C03
import BctVerif.Lemmas.DistNav

/-!
# C12 — every path the library returns is a real path with the reported length

Statements about the executable models `Bct.Dist.floyd`, `Bct.Dist.retrieve` (`retrieve_shortest_path`) and
`Bct.Dist.navGo` (`navigation_wu`).  A returned node sequence `s :: p` is read as the walk `p` from `s`
(`walkEnd s p`, `walkLen L s p` from `Lemmas/DistBase.lean`); `walkLen L s p < ⊤` says that every step follows an
existing connection (a missing connection has length `⊤`).
-/
namespace Bct.C12
open Bct Bct.Dist Bct.C03
variable {n : ℕ}

/-- **Pmat invariant** at the output of `distance_wei_floyd`: for a reachable pair `i ≠ j` with `p = Pmat i j`,
`SPL i j = L i p + SPL p j` and `hops i j = 1 + hops p j` (with `SPL j j = 0 = hops j j`) -/
theorem pmat_invariant (tr : Transform) (A : AMat Rat n) (hA : NonNeg A) (i j : Fin n) (hij : i ≠ j)
    (hfin : lenFun (floyd (lenMat tr A)).D i j < ⊤) :
    let r := floyd (lenMat tr A)
    lenFun r.D i j = lenFun (lenMat tr A) i (r.P.get i j) + lenFun r.D (r.P.get i j) j ∧
      r.hops.get i j = 1 + r.hops.get (r.P.get i j) j :=
  (floyd_spec (lenMat tr A) (lenMat_nonneg tr A hA)).next i j hij hfin

/-- **`retrieve_valid_len`**: for *any* matrix `L` of exact non-negative lengths (`∞` = no connection; this is the shape
of every weight → length transform, zero lengths included), `s ≠ t` and `t` reachable: `retrieve_shortest_path(s, t, hops,
Pmat)` applied to the output of `distance_wei_floyd` returns `s :: p` where `p` ends at `t`, moves only along existing
connections, has exactly `hops s t` steps and total length exactly `SPL s t` -/
theorem retrieve_valid_len (L : AMat Ext n) (hL : ∀ i j, 0 ≤ lenFun L i j) (s t : Fin n) (hst : s ≠ t)
    (hfin : lenFun (floyd L).D s t < ⊤) :
    ∃ p, retrieve (floyd L).hops (floyd L).P s t = s :: p ∧
      walkEnd s p = t ∧
      walkLen (lenFun L) s p < ⊤ ∧
      p.length = (floyd L).hops.get s t ∧
      walkLen (lenFun L) s p = lenFun (floyd L).D s t := by
  have sp := floyd_spec L hL
  set r := floyd L with hr
  obtain ⟨h1, h2⟩ := walkP_valid sp (r.hops.get s t) s t hst hfin rfl
  have hne : r.hops.get s t ≠ 0 := by
    have := (sp.next s t hst hfin).2
    change r.hops.get s t = 1 + _ at this
    omega
  refine ⟨walkP (fun i j => r.P.get i j) t (r.hops.get s t) s, ?_, h1, ?_, walkP_length _ _ _ _, h2⟩
  · unfold retrieve
    rw [if_neg hne, retrieveGo_eq]
  · change walkLen (lenFun L) s (walkP (toFS r).P t (r.hops.get s t) s) < ⊤
    rw [h2]; exact hfin

/-- **`retrieve_empty_iff_unreachable_len`**: for `s ≠ t` the returned sequence is empty exactly when no walk along
existing connections leads from `s` to `t` -/
theorem retrieve_empty_iff_unreachable_len (L : AMat Ext n) (hL : ∀ i j, 0 ≤ lenFun L i j) (s t : Fin n) (hst : s ≠ t) :
    retrieve (floyd L).hops (floyd L).P s t = [] ↔ ¬ ∃ p, walkEnd s p = t ∧ walkLen (lenFun L) s p < ⊤ := by
  have sp := floyd_spec L hL
  rw [← sp.isDist.eq_top_iff s t]
  set r := floyd L with hr
  constructor
  · intro he
    by_contra hne
    have hfin : (toFS r).D s t < ⊤ := lt_top_iff_ne_top.mpr hne
    obtain ⟨p, hp, _⟩ := retrieve_valid_len L hL s t hst hfin
    rw [← hr, he] at hp
    exact absurd hp (by simp)
  · intro hinf
    have := sp.zero s t hinf
    change r.hops.get s t = 0 at this
    unfold retrieve
    rw [if_pos this]

/-- **`retrieve_valid`**: the same for the transforms the model implements (`None`, `'inv'`) on a weight/length matrix
whose existing connections are positive -/
theorem retrieve_valid (tr : Transform) (A : AMat Rat n) (hA : NonNeg A) (s t : Fin n) (hst : s ≠ t)
    (hfin : lenFun (floyd (lenMat tr A)).D s t < ⊤) :
    ∃ p, retrieve (floyd (lenMat tr A)).hops (floyd (lenMat tr A)).P s t = s :: p ∧
      walkEnd s p = t ∧
      walkLen (lenFun (lenMat tr A)) s p < ⊤ ∧
      p.length = (floyd (lenMat tr A)).hops.get s t ∧
      walkLen (lenFun (lenMat tr A)) s p = lenFun (floyd (lenMat tr A)).D s t :=
  retrieve_valid_len _ (lenMat_nonneg tr A hA) s t hst hfin

theorem retrieve_empty_iff_unreachable (tr : Transform) (A : AMat Rat n) (hA : NonNeg A) (s t : Fin n) (hst : s ≠ t) :
    retrieve (floyd (lenMat tr A)).hops (floyd (lenMat tr A)).P s t = [] ↔
      ¬ ∃ p, walkEnd s p = t ∧ walkLen (lenFun (lenMat tr A)) s p < ⊤ :=
  retrieve_empty_iff_unreachable_len _ (lenMat_nonneg tr A hA) s t hst

/-- **`retrieve_self`** — what the code does for `s = t`: `hops[s,s] = 0`, so `retrieve_shortest_path(s, s, …)` is the
empty sequence for every input, although the target is trivially reachable.  The clauses "starts at the source, ends at
the target, … empty exactly when the target is unreachable" are therefore stated (and checked) for `s ≠ t` only; for
`s = t` the property's "empty iff unreachable" reading does not apply to the code, which documents no special case.
The check evaluates this theorem's statement on the real code for every node (predicate `self-pair-empty`). -/
theorem retrieve_self (L : AMat Ext n) (s : Fin n) : retrieve (floyd L).hops (floyd L).P s s = [] := by
  unfold retrieve
  rw [if_pos (floyd_diag L s).2]

/-! ## navigation_wu -/

/-- **`navigation_pair_valid`**: whenever the model of the pair loop of `navigation_wu` returns for `(i,j)` (for any
`max_hops` and any fuel; it returns `none` only when the fuel is exhausted, i.e. the greedy walk did not stop within
that many steps), the recorded node list is `i :: q`, every step of it follows an existing connection of `L`, and either
it ends at `j` and the reported `PL_bin`, `PL_wei`, `PL_dis` are its hop count, the sum of `L` and the sum of `D` along
it, or it does not end at `j` and all three are infinite -/
theorem navigation_pair_valid (L Dm : AMat Rat n) (mh : Option ℕ) (fuel : ℕ) (i j : Fin n) (r : NavRes n)
    (h : navPair L Dm mh fuel i j = some r) :
    ∃ q, r.path = i :: q ∧ stepsOK L i q ∧
      ((lastOf i q = j ∧ r.bin = .fin (q.length : ℕ) ∧ r.wei = .fin (sumAlong L i q) ∧ r.dis = .fin (sumAlong Dm i q)) ∨
       (lastOf i q ≠ j ∧ r.bin = .inf ∧ r.wei = .inf ∧ r.dis = .inf)) :=
  navPair_ok L Dm mh fuel i j r h

/-- **`navigation_valid`**: the matrices, the path table and the success ratio returned by the model of `navigation_wu` -/
theorem navigation_valid (L Dm : AMat Rat n) (mh : Option ℕ) (fuel : ℕ) (o : NavOut n)
    (h : navigation L Dm mh fuel = some o) :
    (∀ i j, i ≠ j → ∃ q, o.paths.get i j = i :: q ∧ stepsOK L i q ∧
      ((lastOf i q = j ∧ o.bin.get i j = .fin (q.length : ℕ) ∧ o.wei.get i j = .fin (sumAlong L i q) ∧
          o.dis.get i j = .fin (sumAlong Dm i q)) ∨
       (lastOf i q ≠ j ∧ o.bin.get i j = .inf ∧ o.wei.get i j = .inf ∧ o.dis.get i j = .inf))) ∧
    (∀ i, o.bin.get i i = .inf ∧ o.wei.get i i = .inf ∧ o.dis.get i i = .inf) ∧
    o.sr = 1 - (((offDiag n).filter fun p => o.bin.get p.1 p.2 = .inf).length : Rat) / ((n * n - n : ℕ) : Rat) := by
  unfold navigation at h
  split_ifs at h with hall
  simp only [Option.some.injEq] at h
  subst h
  refine ⟨?_, ?_, ?_⟩
  · intro i j hij
    obtain ⟨r, hr⟩ := Option.isSome_iff_exists.mp (hall i j hij)
    obtain ⟨q, h1, h2, h3⟩ := navPair_ok L Dm mh fuel i j r hr
    have hc : navCell L Dm mh fuel i j = some r := by simp [navCell, hij, hr]
    refine ⟨q, ?_, h2, ?_⟩
    · simp [hc, h1]
    · simpa [hc] using h3
  · intro i
    have hc : navCell L Dm mh fuel i i = none := by simp [navCell]
    simp [hc]
  · have e : ∀ x : Ext, (!x.isFin) = decide (x = Ext.inf) := by
      intro x; cases x <;> simp [Ext.isFin]
    simp only [e]

/-- **`navigation_step_greedy`**: the node the model's step function moves to from `c` is
`neighbors[np.argmin(D[target, neighbors])]`: a neighbour of `c` (in index order `nbrs L c`), strictly closer to the target
than every neighbour listed before it and at least as close as every neighbour listed after it (first minimum on ties) -/
theorem navigation_step_greedy (L Dm : AMat Rat n) (target c y : Fin n)
    (h : argminFirst (fun x => Dm.get target x) (nbrs L c) = some y) : GreedyChoice L Dm target c y :=
  Dist.navigation_step_greedy L Dm target c y h

/-- **`navigation_path_greedy`** and the stopping conditions, as coded: whenever the pair loop returns for `(i,j)`, the
recorded list is `i :: q` where every step `a → b` of `q` (`stepsCoded`) starts at a node `a ≠ j`, goes to the greedy
choice at `a`, does not return to the previous node, and was taken with `pl_bin ≤ max_hops`; and the walk stopped either
at `j` (then `PL_bin` is the number of steps) or at another node for exactly one of the three coded reasons (`StopReason`:
no neighbours, the greedy choice is the previous node, or `pl_bin > max_hops`), in which case all three lengths are `∞`.
Hence "failed ⇔ one of these happened before reaching the target". -/
theorem navigation_path_greedy (L Dm : AMat Rat n) (mh : Option ℕ) (fuel : ℕ) (i j : Fin n) (r : NavRes n)
    (h : navPair L Dm mh fuel i j = some r) :
    ∃ q, r.path = i :: q ∧ stepsCoded L Dm mh j i 0 i q ∧
      (((endState i 0 i q).2.2 = j ∧ r.bin = .fin (((endState i 0 i q).2.1 : ℕ) : Rat)) ∨
       ((endState i 0 i q).2.2 ≠ j ∧ r.bin = .inf ∧ r.wei = .inf ∧ r.dis = .inf ∧
          StopReason L Dm mh j (endState i 0 i q).1 (endState i 0 i q).2.1 (endState i 0 i q).2.2)) :=
  navPair_trace L Dm mh fuel i j r h

/-- failure ⇔ a stop reason occurred away from the target: the reported `PL_bin` is infinite exactly when the walk ended at
a node other than the target (where, by `navigation_path_greedy`, one of the three coded reasons holds) -/
theorem navigation_failed_iff (L Dm : AMat Rat n) (mh : Option ℕ) (fuel : ℕ) (i j : Fin n) (r : NavRes n)
    (h : navPair L Dm mh fuel i j = some r) :
    ∃ q, r.path = i :: q ∧ (r.bin = .inf ↔ (endState i 0 i q).2.2 ≠ j) ∧
      (r.bin = .inf → StopReason L Dm mh j (endState i 0 i q).1 (endState i 0 i q).2.1 (endState i 0 i q).2.2) := by
  obtain ⟨q, hq, _, hend⟩ := navPair_trace L Dm mh fuel i j r h
  refine ⟨q, hq, ?_, ?_⟩
  · rcases hend with ⟨e1, e2⟩ | ⟨e1, e2, _⟩
    · constructor
      · intro hinf; rw [e2] at hinf; exact absurd hinf (by simp)
      · intro hne; exact absurd e1 hne
    · exact ⟨fun _ => e1, fun _ => e2⟩
  · intro hinf
    rcases hend with ⟨_, e2⟩ | ⟨_, _, _, _, hs⟩
    · rw [e2] at hinf; exact absurd hinf (by simp)
    · exact hs

/-- **`navigation_run_spec`** — the whole run of `navigation_wu`, as assembled by the model: for every ordered pair
`i ≠ j` the recorded path is `i :: q` with
* every step along an existing connection (`stepsOK`) and taken exactly as coded (`stepsCoded`: from a node that is not the
  target to the neighbour closest to the target in `D`, first minimum; not back to the previous node; `pl_bin ≤ max_hops`),
* on success (`q` ends at `j`): `PL_bin = |q|`, `PL_wei = Σ L` and `PL_dis = Σ D` along `q`,
* on failure (`q` ends elsewhere): all three `∞`, and at the last node one of the three coded reasons holds (`StopReason`:
  dead end / the greedy choice is the previous node / `pl_bin > max_hops`);
the diagonal of the three matrices is `∞`, and `sr = 1 − #failed ordered pairs / (n² − n)`. -/
theorem navigation_run_spec (L Dm : AMat Rat n) (mh : Option ℕ) (fuel : ℕ) (o : NavOut n)
    (h : navigation L Dm mh fuel = some o) :
    (∀ i j, i ≠ j → ∃ q, o.paths.get i j = i :: q ∧ stepsOK L i q ∧ stepsCoded L Dm mh j i 0 i q ∧
      ((lastOf i q = j ∧ o.bin.get i j = .fin (q.length : ℕ) ∧ o.wei.get i j = .fin (sumAlong L i q) ∧
          o.dis.get i j = .fin (sumAlong Dm i q)) ∨
       (lastOf i q ≠ j ∧ o.bin.get i j = .inf ∧ o.wei.get i j = .inf ∧ o.dis.get i j = .inf ∧
          StopReason L Dm mh j (endState i 0 i q).1 q.length (lastOf i q)))) ∧
    (∀ i, o.bin.get i i = .inf ∧ o.wei.get i i = .inf ∧ o.dis.get i i = .inf) ∧
    o.sr = 1 - (((offDiag n).filter fun p => o.bin.get p.1 p.2 = .inf).length : Rat) / ((n * n - n : ℕ) : Rat) := by
  obtain ⟨hv, hd, hs⟩ := navigation_valid L Dm mh fuel o h
  refine ⟨?_, hd, hs⟩
  intro i j hij
  obtain ⟨q, hp, hok, hcase⟩ := hv i j hij
  -- the trace of the same pair
  unfold navigation at h
  split_ifs at h with hall
  simp only [Option.some.injEq] at h
  obtain ⟨r, hr⟩ := Option.isSome_iff_exists.mp (hall i j hij)
  obtain ⟨q', hq', hsteps, hend⟩ := navPair_trace L Dm mh fuel i j r hr
  have hc : navCell L Dm mh fuel i j = some r := by simp [navCell, hij, hr]
  have hpath : o.paths.get i j = r.path := by rw [← h]; simp [hc]
  have hqq : q' = q := by
    have := hp; rw [hpath, hq'] at this
    simpa using this
  subst hqq
  obtain ⟨e1, e2⟩ := endState_spec q' i 0 i
  refine ⟨q', hp, hok, hsteps, ?_⟩
  rcases hcase with hc1 | hc2
  · exact Or.inl hc1
  · refine Or.inr ⟨hc2.1, hc2.2.1, hc2.2.2.1, hc2.2.2.2, ?_⟩
    rcases hend with ⟨g1, _⟩ | ⟨_, _, _, _, hs'⟩
    · rw [e1] at g1; exact absurd g1 hc2.1
    · rw [e1, e2] at hs'; simpa using hs'

/-- **`navigation_total`**: with `max_hops = h` given, the model returns as soon as the fuel is at least `h + 3` (every pair's
walk makes at most `h + 1` steps before the hop budget stops it). With `max_hops = None` termination is not claimed (the
real routine can cycle forever). -/
theorem navigation_total (L Dm : AMat Rat n) (h fuel : ℕ) (hf : h + 3 ≤ fuel) :
    ∃ o, navigation L Dm (some h) fuel = some o := by
  unfold navigation
  rw [if_pos (fun i j _ => navPair_isSome L Dm h fuel hf i j)]
  exact ⟨_, rfl⟩

/-! ## non-vacuity -/

example : retrieve (floyd (lenMat .none ex3)).hops (floyd (lenMat .none ex3)).P 1 1 = [] := by decide +kernel
example : retrieve (floyd (lenMat .none ex3)).hops (floyd (lenMat .none ex3)).P 0 2 = [0, 1, 2] ∧
    retrieve (floyd (lenMat .none ex3)).hops (floyd (lenMat .none ex3)).P 2 0 = [] := by decide +kernel

/-- symmetric 3-node chain 0–1–2 with lengths 1, 2 and nodal distances |i-j| -/
def navL : AMat Rat 3 := AMat.ofFn fun i j => if i.val + 1 = j.val ∨ j.val + 1 = i.val then (i.val + j.val : ℕ) else 0
def navD : AMat Rat 3 := AMat.ofFn fun i j => ((i.val - j.val : ℕ) + (j.val - i.val : ℕ) : ℕ)

example : (navigation navL navD none 10).map (fun o => (o.sr, o.bin.get 0 2, o.wei.get 0 2, o.paths.get 0 2)) =
    some (1, .fin 2, .fin 4, [0, 1, 2]) := by decide +kernel
example : (navigation navL navD (some 0) 10).map (fun o => (o.sr, o.bin.get 0 2, o.paths.get 0 2)) =
    some (2 / 3, .inf, [0, 1]) := by decide +kernel

/-! ### non-vacuity from a recorded run of the real code -/

/-- `L = [[0,2,0,1],[2,0,1,0],[0,1,0,3],[1,0,3,0]]`, `D` = ring distance on 4 nodes, `max_hops = 2` -/
def recL : AMat Rat 4 := AMat.ofFn fun i j =>
  (([[0, 2, 0, 1], [2, 0, 1, 0], [0, 1, 0, 3], [1, 0, 3, 0]] : List (List Rat)).getD i.val []).getD j.val 0
def recDm : AMat Rat 4 := AMat.ofFn fun i j =>
  (([[0, 1, 2, 1], [1, 0, 1, 2], [2, 1, 0, 1], [1, 2, 1, 0]] : List (List Rat)).getD i.val []).getD j.val 0
/-- recorded: `bct.navigation_wu(L, D, 2)` returned `sr = 1.0`, `PL_bin[0,2] = 2`, `PL_wei[0,2] = 3`, `PL_dis[3,1] = 2`,
`paths[(0,2)] = [0,1,2]`, `paths[(3,1)] = [3,0,1]` -/
example : (navigation recL recDm (some 2) 5).map (fun o => (o.sr, o.bin.get 0 2, o.wei.get 0 2, o.dis.get 3 1)) =
    some (1, .fin 2, .fin 3, .fin 2) := by decide +kernel
example : (navigation recL recDm (some 2) 5).map (fun o => (o.paths.get 0 2, o.paths.get 3 1)) =
    some ([0, 1, 2], [3, 0, 1]) := by decide +kernel

end Bct.C12
