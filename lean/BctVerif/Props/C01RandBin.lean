import Mathlib.Algebra.BigOperators.Fin
import BctVerif.Lemmas.RandBinSweep
import BctVerif.Props.C01Kernel

/-!
# C01 — `randomizer_bin_und` keeps every node's degree

Theorems about the executable model `Bct.RandBin` (the one `harness/randbin_corr.py` replays against the real
`bct.randomizer_bin_und` draw for draw, comparing the output matrices exactly).

* `randomizer_bin_und_spec` — for every size `n`, every integer matrix `A`, every `alpha = num/den` and
  **every list of draws**: if the model returns a matrix `out` (i.e. the symmetry check and the
  "No possible randomization" check passed and the draws sufficed), then `out` is symmetric, every entry is
  0 or 1, every node has exactly as many connections as in `A` (`rowCnt`, `colCnt`), and the diagonal is the
  (binarised) diagonal of `A`.
* `swap_preserves` — the statement about one accepted swap that the whole-run theorem rests on.
* `sweep_spec`, `core_spec` — the edge sweep / the part between complement and un-complement.
* `kernel_link_binUnd` — the eight assignments extracted from the source by `translate/kernels.py`, once
  they pass `kernelOk`, compute exactly the model's `swapCells`.
-/
open Finset

namespace Bct.C01RandBin
open Bct Bct.RewireFun Bct.RandBinFun Bct.RandBinSweep Bct.RandBin

variable {n k : ℕ}

/-! ### one accepted swap -/

/-- One accepted swap — a–b and c–d present, a–c and b–d absent, four distinct nodes — on a symmetric 0/1
matrix with empty diagonal keeps every degree, symmetry, the 0/1 entries and the empty diagonal. -/
theorem swap_preserves (R : AMat Int n) (a b c d : Fin n) (hw : WM R.toFun) (g : Guard R.toFun a b c d) :
    WM (swapCells R a b c d).toFun ∧ ∀ v, rowCnt (swapCells R a b c d).toFun v = rowCnt R.toFun v := by
  rw [toFun_swapCells]
  exact ⟨swapBinF_wm _ _ _ _ _ hw g, swapBinF_row _ _ _ _ _ hw g⟩

/-- the source-extracted kernel of `randomizer_bin_und`, if it passes the generated check, is `swapCells` -/
theorem kernel_link_binUnd (ker : Kernel.Kernel) (hk : ker.kind = .binUnd) (hok : Kernel.kernelOk ker = true)
    (R : AMat Int n) (na nb nc nd : Fin n)
    (hab : na ≠ nb) (hac : na ≠ nc) (had : na ≠ nd) (hbc : nb ≠ nc) (hbd : nb ≠ nd) (hcd : nc ≠ nd) :
    Kernel.conExec (Kernel.place na nb nc nd) ker.assigns R = swapCells R na nb nc nd :=
  C01Kernel.link_binUnd ker hk hok R na nb nc nd hab hac had hbc hbd hcd

/-! ### the sweep -/

/-- The edge sweep, for every draw list: work-matrix invariant and all degrees preserved. -/
theorem sweep_spec (R2 : AMat Int n) (hw : WM R2.toFun) (num den : ℕ) (ds ds' : List ℕ)
    (s' : RandBin.St n (RandBin.edgeCells R2).toArray.size)
    (hrun : sweep num den (List.finRange _) (mkState R2 (RandBin.edgeCells R2).toArray) ds = .ok (s', ds')) :
    WM s'.R.toFun ∧ ∀ v, rowCnt s'.R.toFun v = rowCnt R2.toFun v := by
  obtain ⟨t, h⟩ := sweep_inv R2.toFun num den (List.finRange _) 0 _ s' ds ds'
    (List.pairwise_lt_finRange _) (fun _ _ => Nat.zero_le _) hrun (mkState_inv R2 hw)
  exact ⟨h.wm, h.deg⟩

/-! ### full nodes -/

theorem triuDeg_eq (R : AMat Int n) (hw : WM R.toFun) (v : Fin n) : triuDeg R v = (rowCnt R.toFun v : ℤ) := by
  unfold triuDeg rowCnt
  rw [← Fin.sum_univ_def, ← Fin.sum_univ_def, ← Finset.sum_add_distrib, Nat.cast_sum]
  apply Finset.sum_congr rfl
  intro u _
  have hs : R.get u v = R.toFun v u := hw.sym v u ▸ rfl
  have hg : R.get v u = R.toFun v u := rfl
  rw [hs, hg]
  rcases Nat.lt_trichotomy u.val v.val with hlt | heq | hgt
  · have : ¬ v.val < u.val := by omega
    rcases hw.bin v u with h0 | h1
    · simp [hlt, this, h0]
    · simp [hlt, this, h1]
  · have : u = v := Fin.ext heq
    subst this
    simp [hw.zd]
  · have : ¬ u.val < v.val := by omega
    rcases hw.bin v u with h0 | h1
    · simp [hgt, this, h0]
    · simp [hgt, this, h1]

theorem fullMask_iff (R : AMat Int n) (hw : WM R.toFun) (v : Fin n) :
    (fullMask R)[v] = true ↔ rowCnt R.toFun v = n - 1 := by
  have hle := rowCnt_le R.toFun hw v
  have hn : 0 < n := Fin.pos v
  simp only [fullMask, Fin.getElem_fin, Vector.getElem_ofFn, beq_iff_eq, Fin.eta, triuDeg_eq R hw v, Int.ofNat_eq_natCast]
  omega

/-- Everything between the complement decision and the un-complement keeps the work-matrix invariant and
every degree, for every draw list. -/
theorem core_spec (R1 R4 : AMat Int n) (hw : WM R1.toFun) (num den : ℕ) (ds rest : List ℕ)
    (hrun : core R1 num den ds = .ok (R4, rest)) :
    WM R4.toFun ∧ ∀ v, rowCnt R4.toFun v = rowCnt R1.toFun v := by
  unfold core at hrun
  simp only [bind, Except.bind] at hrun
  split at hrun
  · cases hrun
  · split at hrun
    · cases hrun
    · rename_i r hsw
      obtain ⟨s', ds'⟩ := r
      simp only [Except.ok.injEq, Prod.mk.injEq] at hrun
      obtain ⟨rfl, _⟩ := hrun
      have hw2 : WM (fillFull R1 (fullMask R1) 0).toFun := by
        rw [toFun_fillFull]; exact fillF_wm _ hw _ 0 (Or.inl rfl)
      have sp := sweep_spec (fillFull R1 (fullMask R1) 0) hw2 num den ds ds' s' hsw
      refine ⟨?_, ?_⟩
      · rw [toFun_fillFull]; exact fillF_wm _ sp.1 _ 1 (Or.inr rfl)
      · intro v
        rw [toFun_fillFull]
        apply fill_restore_row R1.toFun s'.R.toFun hw sp.1 (fun v => (fullMask R1)[v]) (fun v => fullMask_iff R1 hw v)
        intro u
        rw [sp.2 u, toFun_fillFull]

/-! ### the whole routine -/

theorem binarize_get (A : AMat Int n) (i j : Fin n) :
    (binarize A).toFun i j = if A.toFun i j ≠ 0 then 1 else 0 := by
  simp only [AMat.toFun, binarize, AMat.get_ofFn]
  by_cases h : A.get i j = 0 <;> simp [h]

theorem offDiag_get (B : AMat Int n) (i j : Fin n) :
    (RandBin.offDiag B).toFun i j = if i = j then 0 else B.toFun i j := by
  simp only [AMat.toFun, RandBin.offDiag, AMat.get_ofFn]

theorem isSymm_sound (B : AMat Int n) (h : RandBin.isSymm B = true) (i j : Fin n) : B.toFun i j = B.toFun j i := by
  simp only [RandBin.isSymm, List.all_eq_true, List.mem_finRange, true_imp_iff, beq_iff_eq] at h
  exact h i j

theorem offDiag_wm (A : AMat Int n) (h : RandBin.isSymm (binarize A) = true) :
    WM (RandBin.offDiag (binarize A)).toFun := by
  have hs := isSymm_sound _ h
  refine ⟨?_, ?_, ?_⟩
  · intro i j
    rw [offDiag_get]
    split
    · left; rfl
    · rw [binarize_get]; split; right; rfl; left; rfl
  · intro i j
    rw [offDiag_get, offDiag_get, hs i j]
    by_cases hij : i = j
    · subst hij; rfl
    · have : ¬ j = i := fun hh => hij hh.symm
      simp [hij, this]
  · intro i; rw [offDiag_get, if_pos rfl]

/-- number of connections of a row, split into the diagonal cell and the rest -/
theorem rowCnt_split (X : Mat n) (v : Fin n) :
    rowCnt X v = (if X v v ≠ 0 then 1 else 0) + rowCnt (fun i j => if i = j then 0 else X i j) v := by
  unfold rowCnt
  rw [← Finset.sum_erase_add _ _ (Finset.mem_univ v), add_comm]
  congr 1
  · rw [← Finset.sum_erase_add _ _ (Finset.mem_univ v)]
    simp only [if_true, ne_eq, not_true_eq_false, if_false, add_zero]
    apply Finset.sum_congr rfl
    intro j hj
    have : ¬ v = j := fun hh => (Finset.ne_of_mem_erase hj) hh.symm
    simp [this]

/-- **C01 for `randomizer_bin_und`.**  For every size, every input matrix, every `alpha` and every list of
draws (= every seed): whenever the model returns a matrix, that matrix is symmetric, has entries 0/1, gives
every node exactly the number of connections it has in the input (rows and columns), and carries the
(binarised) diagonal of the input. -/
theorem randomizer_bin_und_spec (A out : AMat Int n) (num den : ℕ) (ds rest : List ℕ)
    (hrun : run A num den ds = .ok (out, rest)) :
    (∀ i j, out.toFun i j = out.toFun j i) ∧
    (∀ i j, out.toFun i j = 0 ∨ out.toFun i j = 1) ∧
    (∀ v, rowCnt out.toFun v = rowCnt A.toFun v) ∧
    (∀ v, colCnt out.toFun v = colCnt A.toFun v) ∧
    (∀ v, out.toFun v v = if A.toFun v v ≠ 0 then 1 else 0) ∧
    (∀ i j, A.toFun i j ≠ 0 → A.toFun j i ≠ 0) := by
  unfold run at hrun
  simp only [bind, Except.bind] at hrun
  split at hrun
  · cases hrun
  · rename_i hsym
    have hsym' : RandBin.isSymm (binarize A) = true := by simpa using hsym
    have hB := isSymm_sound _ hsym'
    have hw0 := offDiag_wm A hsym'
    split at hrun
    · cases hrun
    · rename_i r hcore
      obtain ⟨R4, rest4⟩ := r
      simp only [Except.ok.injEq, Prod.mk.injEq] at hrun
      obtain ⟨rfl, _⟩ := hrun
      -- the work matrix before the un-complement and after it
      have key : ∃ R5 : AMat Int n, WM R5.toFun ∧ (∀ v, rowCnt R5.toFun v = rowCnt (RandBin.offDiag (binarize A)).toFun v) ∧
          (if 4 * (RandBin.edgeCells (RandBin.offDiag (binarize A))).length > n * (n - 1) then RandBin.compl R4 else R4) = R5 := by
        by_cases hsw : 4 * (RandBin.edgeCells (RandBin.offDiag (binarize A))).length > n * (n - 1)
        · simp only [hsw, decide_true, if_true] at hcore ⊢
          have hw1 : WM (RandBin.compl (RandBin.offDiag (binarize A))).toFun := by rw [toFun_compl]; exact complF_wm _ hw0
          have cs := core_spec _ R4 hw1 num den ds rest4 hcore
          refine ⟨_, ?_, ?_, rfl⟩
          · rw [toFun_compl]; exact complF_wm _ cs.1
          · intro v
            rw [toFun_compl]
            apply complF_complF_row _ hw0 _ cs.1
            intro u; rw [cs.2 u, toFun_compl]
        · simp only [hsw, decide_false, Bool.false_eq_true, if_false] at hcore ⊢
          have cs := core_spec _ R4 hw0 num den ds rest4 hcore
          exact ⟨_, cs.1, cs.2, rfl⟩
      obtain ⟨R5, hw5, hdeg5, hR5⟩ := key
      simp only [gt_iff_lt, decide_eq_true_eq] at hR5 ⊢
      rw [hR5]
      have hout : ∀ i j, (withDiag R5 (binarize A)).toFun i j =
          if i = j then (binarize A).toFun i i else R5.toFun i j := by
        intro i j; simp [AMat.toFun, withDiag]
      have hBbin : ∀ i j, (binarize A).toFun i j = 0 ∨ (binarize A).toFun i j = 1 := by
        intro i j; rw [binarize_get]; split; right; rfl; left; rfl
      have hsymOut : ∀ i j, (withDiag R5 (binarize A)).toFun i j = (withDiag R5 (binarize A)).toFun j i := by
        intro i j
        rw [hout, hout]
        by_cases hij : i = j
        · subst hij; rfl
        · have : ¬ j = i := fun hh => hij hh.symm
          simp only [hij, this, if_false]; exact hw5.sym i j
      have hrow : ∀ v, rowCnt (withDiag R5 (binarize A)).toFun v = rowCnt A.toFun v := by
        intro v
        rw [rowCnt_split (withDiag R5 (binarize A)).toFun v, rowCnt_split A.toFun v]
        congr 1
        · rw [hout, if_pos rfl, binarize_get]
          by_cases h0 : A.toFun v v = 0 <;> simp [h0]
        · have e1 : rowCnt (fun i j => if i = j then 0 else (withDiag R5 (binarize A)).toFun i j) v = rowCnt R5.toFun v := by
            unfold rowCnt
            apply Finset.sum_congr rfl
            intro j _
            by_cases hj : v = j
            · subst hj; simp [hw5.zd]
            · simp [hj, hout]
          have e2 : rowCnt (fun i j => if i = j then 0 else A.toFun i j) v =
              rowCnt (RandBin.offDiag (binarize A)).toFun v := by
            unfold rowCnt
            apply Finset.sum_congr rfl
            intro j _
            rw [offDiag_get, binarize_get]
            by_cases hj : v = j
            · subst hj; simp
            · by_cases h0 : A.toFun v j = 0 <;> simp [hj, h0]
          rw [e1, e2, hdeg5 v]
      have hAsym : ∀ i j, A.toFun i j ≠ 0 → A.toFun j i ≠ 0 := by
        intro i j h1 h2
        have := hB i j
        rw [binarize_get, binarize_get] at this
        simp [h1, h2] at this
      refine ⟨hsymOut, ?_, hrow, ?_, ?_, hAsym⟩
      · intro i j
        rw [hout]
        split
        · exact hBbin i i
        · exact hw5.bin i j
      · intro v
        rw [colCnt_eq_rowCnt_of_symm _ hsymOut, hrow v]
        unfold colCnt rowCnt
        apply Finset.sum_congr rfl
        intro i _
        have := hB v i
        rw [binarize_get, binarize_get] at this
        by_cases h1 : A.toFun v i = 0 <;> by_cases h2 : A.toFun i v = 0 <;> simp_all
      · intro v
        rw [hout, if_pos rfl, binarize_get]

/-- On the property's domain (diagonal entries 0 or 1 — in particular the empty diagonal) the diagonal of
the input comes back unchanged. -/
theorem randomizer_bin_und_diag (A out : AMat Int n) (num den : ℕ) (ds rest : List ℕ)
    (hrun : run A num den ds = .ok (out, rest)) (v : Fin n) (hd : A.toFun v v = 0 ∨ A.toFun v v = 1) :
    out.toFun v v = A.toFun v v := by
  rw [(randomizer_bin_und_spec A out num den ds rest hrun).2.2.2.2.1 v]
  rcases hd with h | h <;> simp [h]

/-- `alpha = 0` with draws that are all positive: nothing is rewired (every edge is skipped). -/
theorem skip_all (s : RandBin.St n k) : ∀ (its : List (Fin k)) (ds : List ℕ), (∀ u ∈ ds, 0 < u) → its.length ≤ ds.length →
    sweep 0 1 its s ds = .ok (s, ds.drop its.length) := by
  intro its
  induction its with
  | nil => intro ds _ _; simp [sweep]
  | cons it its ih =>
    intro ds hpos hlen
    match ds, hlen with
    | u :: ds', hlen =>
      have hu : 0 < u := hpos u List.mem_cons_self
      have hs : sweepStep 0 1 s it (u :: ds') = .ok (s, ds') := by
        simp [sweepStep, skip, hu]
      simp only [sweep, bind, Except.bind, hs, List.length_cons, List.drop_succ_cons]
      exact ih ds' (fun x hx => hpos x (List.mem_cons_of_mem _ hx)) (by simpa using hlen)

/-! ### non-vacuity: concrete runs that perform swaps, with and without complement / full node -/

/-- the 6-ring: sparse, no complement, no full node -/
def exRing : AMat Int 6 := AMat.ofFn fun i j => if (i.val + 1) % 6 = j.val ∨ (j.val + 1) % 6 = i.val then 1 else 0

example : (run exRing 1 2 [0, 1, 9007199254740991, 9007199254740991, 9007199254740991, 9007199254740991,
    9007199254740991, 9007199254740991]).toOption.map (fun r => (showMat r.1, r.2))
    = some ("0,0,0,0,1,1,0,0,1,1,0,0,0,1,0,1,0,0,0,1,1,0,0,0,1,0,0,0,0,1,1,0,0,0,1,0", []) := by decide

/-- dense graph on 5 nodes (complement taken; node 4 is isolated in the complement) -/
def exDense : AMat Int 5 :=
  AMat.ofFn fun i j => if i = j ∨ (i.val, j.val) ∈ [(0, 1), (1, 0), (2, 3), (3, 2)] then 0 else 1

example : (run exDense 1 2 [0, 0, 0, 9007199254740991]).toOption.map (fun r => (showMat r.1, r.2))
    = some ("0,1,1,0,1,1,0,0,1,1,1,0,0,1,1,0,1,1,0,1,1,1,1,1,0", []) := by decide

/-- the guard of `swap_preserves` is satisfiable: the 4-path 0–1, 2–3 -/
example : Guard (AMat.ofFn (n := 4) fun i j =>
    if (i.val, j.val) ∈ [(0, 1), (1, 0), (2, 3), (3, 2)] then (1 : Int) else 0).toFun 0 1 2 3 := by
  refine ⟨?_, ?_, ?_, ?_, ?_, ?_, ?_, ?_, ?_, ?_⟩ <;> decide

end Bct.C01RandBin
