import BctVerif.Lemmas.Walks
import BctVerif.Lemmas.WalksCount
import BctVerif.Lemmas.WalksTail
import BctVerif.Lemmas.WalksPost
import BctVerif.Lemmas.WalksExp
import BctVerif.Lemmas.WalksPrTotal
import BctVerif.Lemmas.WalksMfptExist
import BctVerif.Lemmas.WalksMfptTotal
/-!
# C18 — random-walk and spectral measures satisfy their defining equations

All theorems are about the executable model `Bct.Walks` (every `ok` output, every size `n`, every
integer matrix).  LAPACK / `expm` / libm are outside the proof: the eigen-solvers are *oracles*, the
theorems about spectral quantities are stated for an arbitrary orthonormal eigenbasis / eigenvector
over an arbitrary (ordered) field.

* `mfpt_eq`              – `M i j = 1 + Σ_{k≠j} P i k · M k j`, `M j j = 0`, `P` = row-normalised `A`
* `mfpt_solution_exists_unique`, `mfpt_model_is_solution` – for non-negative weights with every node reaching every node the first-passage
  equations have exactly one solution (maximum principle), the model's `M` is it whenever the model returns, and `M ≥ 1` off the diagonal
* `mfpt_total`           – the model returns on every such network with ≥ 2 nodes (never `singular` / `cert`): the MFPT clause is unconditional
* `diffeff_spec`         – `E i j · M i j = 1` off the diagonal, `E i i = 0`, `g = ΣE/(n²−n)`
* `pagerank_prior`, `pagerank_sum_one`, `pagerank_system`, `pagerank_eq`, `pagerank_pos`, `pagerank_pos_default`,
  `pagerank_pos_reachable` (strict positivity for any non-negative prior along reachability), `pagerank_unique`, `pagerank_matrix_invertible`, `pagerank_solution_exists_unique`, `pagerank_total` (the model returns on every
  non-negative matrix, `0 ≤ d < 1`), `pagerank_model_is_solution`
* `findwalks_power`      – slice `q` = `C^q` = number of walks of length `q` (`walkCount`), slice 0 = 0
* `findwalks_wlq`         – the walk-length distribution: `wlq[q]` = total number of walks of length q
* `findwalks_counts_walks` – … = length of a duplicate-free enumeration of all node sequences that are walks from i to j
* `subgraph_spectral`    – `Σ_k V i k² · Σ_{m<T} λ_k^m/m! = expDiag A T i` for every *orthonormal* eigenbasis
* `subgraph_series_tail` – all later partial sums of the series stay within the model's explicit bound `expTail`
* `subgraph_needs_orthonormal` – the identity fails for a non-orthonormal eigenbasis of C₄ (defect D15)
* `eigenvector_spec`, `eigenvector_post_spec` – **eigenvector_centrality_und**: code after `linalg.eig` modelled literally, the
  decomposition an oracle with the contract `EigOracle`: result ≥ 0, unit norm, `A v = λ_max v` for every admissible oracle output
* `subgraph_spec`, `subgraph_model_exp`, `subgraph_model_spec`, `subgraph_post_spec` – **subgraph_centrality**: code after
  `linalg.eigh` (`EighOracle`) equals the diagonal of Mathlib's matrix exponential; the executable `expDiag` is within its printed bound of it
* `eig_abs_of_max`       – `|v|` of a λ_max eigenvector of a symmetric non-negative matrix is a λ_max eigenvector
* `eigCert_sound`, `eigCert_bracket` – what the exact certificate of an oracle vector establishes
-/
open Finset Matrix

namespace Bct.C18
open Bct Bct.Walks Bct.WalksAlg

variable {n : ℕ}

def isOk {ε α : Type} : Except ε α → Bool
  | .ok _ => true
  | .error _ => false

/-! ## mean first passage time -/

theorem mfpt_eq (A : QMat n) (o : MfptOut n) (h : mfpt A = .ok o) :
    (∀ i k, o.P.get i k = A.get i k / ∑ l, A.get i l) ∧
    (∀ i, ∑ k, o.P.get i k = 1) ∧
    (∀ j, o.M.get j j = 0) ∧
    (∀ i j, i ≠ j → o.M.get i j = 1 + ∑ k ∈ univ.erase j, o.P.get i k * o.M.get k j) := by
  obtain ⟨hrow, hP, hst, hw0, hinv, hM⟩ := mfpt_ok h
  have hPget : ∀ i k, o.P.get i k = A.get i k / ∑ l, A.get i l := by
    intro i k
    rw [hP]; simp only [transition, AMat.get_ofFn, rowSum, fsum_eq]
  have hPsum : ∀ i, ∑ k, o.P.get i k = 1 := by
    intro i
    simp only [hPget, ← Finset.sum_div]
    have := hrow i
    simp only [rowSum, fsum_eq] at this
    exact div_self this
  have hMget : ∀ i j, o.M.get i j = (o.Z.get j j - o.Z.get i j) / o.w[j] := by
    intro i j; rw [hM]; simp
  refine ⟨hPget, hPsum, fun j => by rw [hMget]; simp, fun i j hij => ?_⟩
  obtain ⟨hst1, hst2⟩ := (stationary_iff _ _).mp hst
  have hZ := (isInvOf_iff _ _).mp hinv
  have := mfpt_identity (toMat o.P) (toMat o.Z) (toMat (fundArg o.P o.w)) (fun j => o.w[j])
    hPsum hst1 hst2 (fun i j => by simp [fundArg, delta_eq]) hZ i j hij (hw0 j)
  simp only [toMat_apply] at this
  simp only [hMget]
  exact this


/-- **existence and uniqueness of the mean first passage times**: for every network with non-negative weights in which every node
reaches every node (connected undirected / strongly connected directed), exactly one matrix has zero diagonal and satisfies
`M i j = 1 + Σ_{k≠j} P i k · M k j` for the row-normalised `P`; its off-diagonal entries are ≥ 1 -/
theorem mfpt_solution_exists_unique (A : QMat n) (hA : ∀ i j, 0 ≤ A.get i j) (hrow : ∀ i, ∑ k, A.get i k ≠ 0)
    (hconn : ∀ i j, Relation.ReflTransGen (fun a b : Fin n => 0 < A.get a b) i j) :
    ∃! M : Matrix (Fin n) (Fin n) ℚ, (∀ j, M j j = 0) ∧
      ∀ i j, i ≠ j → M i j = 1 + ∑ k ∈ univ.erase j, toMat (transition A) i k * M k j := by
  obtain ⟨h0, h1, hirr⟩ := transition_props A hA hrow hconn
  exact mfpt_exists_unique (toMat (transition A)) h0 h1 hirr

/-- whenever the model returns, its `M` **is** that unique solution (so the recurrence determines the output, and two returning runs
agree), and `M i j ≥ 1` off the diagonal -/
theorem mfpt_model_is_solution (A : QMat n) (o : MfptOut n) (h : mfpt A = .ok o) (hA : ∀ i j, 0 ≤ A.get i j)
    (hconn : ∀ i j, Relation.ReflTransGen (fun a b : Fin n => 0 < A.get a b) i j)
    (M' : Matrix (Fin n) (Fin n) ℚ) (hd' : ∀ j, M' j j = 0)
    (hr' : ∀ i j, i ≠ j → M' i j = 1 + ∑ k ∈ univ.erase j, toMat (transition A) i k * M' k j) :
    (∀ i j, M' i j = o.M.get i j) ∧ ∀ i j, i ≠ j → 1 ≤ o.M.get i j := by
  obtain ⟨hrow', hP, -, -, -, -⟩ := mfpt_ok h
  have hrow : ∀ i, ∑ k, A.get i k ≠ 0 := fun i => by simpa [rowSum, fsum_eq] using hrow' i
  obtain ⟨hPget, hPsum, hdiag, hrec⟩ := mfpt_eq A o h
  obtain ⟨h0, h1, hirr⟩ := transition_props A hA hrow hconn
  have hrecT : ∀ i j, i ≠ j → toMat o.M i j = 1 + ∑ k ∈ univ.erase j, toMat (transition A) i k * toMat o.M k j := by
    intro i j hij
    have := hrec i j hij
    simpa [hP] using this
  obtain ⟨M0, -, huniq⟩ := mfpt_exists_unique (toMat (transition A)) h0 h1 hirr
  have e1 := huniq M' ⟨hd', hr'⟩
  have e2 := huniq (toMat o.M) ⟨fun j => hdiag j, hrecT⟩
  refine ⟨fun i j => by rw [e1, ← e2]; rfl, fun i j hij => ?_⟩
  exact mfpt_ge_one (toMat (transition A)) h0 h1 (toMat o.M) (fun j => hdiag j) hrecT i j hij

/-- **totality of the MFPT model** (and hence of `diffEff`'s first step): for non-negative weights, at least two nodes and every node
reaching every node, `mfpt` returns — never `singular` or `cert`.  With `mfpt_eq` / `mfpt_model_is_solution` the MFPT clause is
unconditional on connected / strongly connected input: the model's output exists, is the unique solution of the first-passage
recurrence, and is ≥ 1 off the diagonal. -/
theorem mfpt_total (A : QMat n) (hn : 2 ≤ n) (hA : ∀ i j, 0 ≤ A.get i j)
    (hconn : ∀ i j, Relation.ReflTransGen (fun a b : Fin n => 0 < A.get a b) i j) :
    ∃ o, mfpt A = .ok o ∧ (∀ j, o.M.get j j = 0) ∧
      (∀ i j, i ≠ j → o.M.get i j = 1 + ∑ k ∈ univ.erase j, o.P.get i k * o.M.get k j) ∧
      (∀ i j, i ≠ j → 1 ≤ o.M.get i j) := by
  have hrow : ∀ i, ∑ k, A.get i k ≠ 0 := by
    intro i h0
    -- a node with an empty row reaches nobody, but there is a second node
    have hz : ∀ k, A.get i k = 0 := fun k =>
      (Finset.sum_eq_zero_iff_of_nonneg (fun k _ => hA i k)).mp h0 k (Finset.mem_univ _)
    have hstuck : ∀ j, Relation.ReflTransGen (fun a b : Fin n => 0 < A.get a b) i j → j = i := by
      intro j hj
      induction hj with
      | refl => rfl
      | tail _ hab ih => subst ih; rw [hz] at hab; exact absurd hab (lt_irrefl _)
    obtain ⟨j, hj⟩ : ∃ j : Fin n, j ≠ i := by
      by_cases hi : i.val = 0
      · exact ⟨⟨1, by omega⟩, fun h => by have := congrArg Fin.val h; simp at this; omega⟩
      · exact ⟨⟨0, by omega⟩, fun h => by have := congrArg Fin.val h; simp at this; omega⟩
    exact hj (hstuck j (hconn i j))
  obtain ⟨o, ho⟩ := Walks.mfpt_total A (by omega) hA hconn hrow
  obtain ⟨-, -, hdiag, hrec⟩ := mfpt_eq A o ho
  have hsol := mfpt_model_is_solution A o ho hA hconn (toMat o.M) (fun j => hdiag j) (by
    obtain ⟨_, hP, -, -, -, -⟩ := mfpt_ok ho
    intro i j hij
    have := hrec i j hij
    simpa [hP] using this)
  exact ⟨o, ho, hdiag, hrec, hsol.2⟩

def star3 : AMat Int 3 := AMat.ofFn fun i j => if (i.val = 0) != (j.val = 0) then 1 else 0


/-- non-vacuity of `mfpt_solution_exists_unique` / `mfpt_model_is_solution`: the star on 3 nodes (the model's and the real
`bct.mean_first_passage_time` output is `[[0,3,3],[1,0,4],[1,4,0]]`) -/
example : (∀ i j, 0 ≤ (toQ star3).get i j) ∧ (∀ i, ∑ k, (toQ star3).get i k ≠ 0) ∧
    ∀ i j : Fin 3, Relation.ReflTransGen (fun a b : Fin 3 => 0 < (toQ star3).get a b) i j := by
  refine ⟨by decide +kernel, by decide +kernel, fun i j => ?_⟩
  have e : ∀ a b : Fin 3, 0 < (toQ star3).get a b ∨ a = b ∨ (0 < (toQ star3).get a 0 ∧ 0 < (toQ star3).get 0 b) ∨
      (0 < (toQ star3).get a 0 ∧ 0 < (toQ star3).get 0 1 ∧ 0 < (toQ star3).get 1 b) := by decide +kernel
  rcases e i j with h | rfl | ⟨h1, h2⟩ | ⟨h1, h2, h3⟩
  · exact Relation.ReflTransGen.single h
  · exact Relation.ReflTransGen.refl
  · exact Relation.ReflTransGen.tail (Relation.ReflTransGen.single h1) h2
  · exact Relation.ReflTransGen.tail (Relation.ReflTransGen.tail (Relation.ReflTransGen.single h1) h2) h3

/-- non-vacuity: the star on 3 nodes has an `ok` result, and leaf-to-leaf passage takes 4 steps -/
example : (match mfpt (toQ star3) with | .ok o => o.M.get 1 2 == 4 && o.M.get 0 1 == 3 | _ => false) = true := by
  decide +kernel

/-! ## diffusion efficiency -/

theorem diffeff_spec (A : QMat n) (o : DiffOut n) (h : diffEff A = .ok o) :
    (∃ m, mfpt A = .ok m ∧ o.M = m.M) ∧
    (∀ i, o.E.get i i = 0) ∧
    (∀ i j, i ≠ j → o.E.get i j * o.M.get i j = 1) ∧
    o.g = (∑ i, ∑ j, o.E.get i j) / ((n : ℚ) * n - n) := by
  obtain ⟨hm, hne, _, hE, hg⟩ := diffEff_ok h
  refine ⟨hm, fun i => by rw [hE]; simp, fun i j hij => ?_, ?_⟩
  · have := hne i j hij
    rw [hE]; simp only [AMat.get_ofFn, hij, if_false]
    field_simp
  · rw [hg]; simp only [fsum_eq]

example : (match diffEff (toQ star3) with | .ok o => o.g == 19/36 | _ => false) = true := by decide +kernel

/-! ## PageRank -/

theorem pagerank_prior (A : QMat n) (d : ℚ) (f : Option (Vector Int n)) (o : PrOut n)
    (h : pagerank A d f = .ok o) :
    (∑ i : Fin n, o.f[i] = 1) ∧
    (f = none → ∀ i : Fin n, o.f[i] = 1 / (n : ℚ)) ∧
    (∀ g, f = some g → ∀ i : Fin n, o.f[i] = (g[i] : ℚ) / ∑ k : Fin n, (g[k] : ℚ)) := by
  obtain ⟨hp, -, -, -⟩ := pagerank_ok h
  refine ⟨prior_sum hp, ?_, ?_⟩
  · rintro rfl i
    unfold prior at hp
    dsimp only at hp
    split_ifs at hp
    rw [← Except.ok.inj hp]; simp
  · rintro g rfl i
    unfold prior at hp
    dsimp only at hp
    split_ifs at hp
    rw [← Except.ok.inj hp]; simp [fsum_eq]

theorem pagerank_sum_one (A : QMat n) (d : ℚ) (f : Option (Vector Int n)) (o : PrOut n)
    (h : pagerank A d f = .ok o) : ∑ i : Fin n, o.r[i] = 1 := by
  obtain ⟨-, -, hs, hr⟩ := pagerank_ok h
  rw [hr]; simp only [Fin.getElem_fin, Vector.getElem_ofFn, ← Finset.sum_div]
  simp only [fsum_eq] at hs ⊢
  exact div_self hs

/-- the linear system the code solves, written out: `r0 = d·A·D1·r0 + (1−d)·f` with `D1 = 1/deg`,
`deg` the column sums with zeros replaced by one; and the returned `r` is `r0 / Σ r0`. -/
theorem pagerank_system (A : QMat n) (d : ℚ) (f : Option (Vector Int n)) (o : PrOut n)
    (h : pagerank A d f = .ok o) :
    (∀ i : Fin n, o.r0[i] = d * ∑ j : Fin n, A.get i j / colDeg A j * o.r0[j] + (1 - d) * o.f[i]) ∧
    (∀ i : Fin n, o.r[i] = o.r0[i] / ∑ k : Fin n, o.r0[k]) := by
  obtain ⟨-, hsol, -, hr⟩ := pagerank_ok h
  have hsol' := (solves_iff _ _ _).mp hsol
  constructor
  · intro i
    have := hsol' i
    simp only [prMat, AMat.get_ofFn, delta_eq, Fin.getElem_fin, Vector.getElem_ofFn] at this
    have e : ∑ k : Fin n, ((if i = k then (1 : ℚ) else 0) - d * (A.get i k / colDeg A k)) * o.r0[k.val]
        = o.r0[i.val] - d * ∑ k : Fin n, A.get i k / colDeg A k * o.r0[k.val] := by
      simp only [sub_mul, Finset.sum_sub_distrib, ite_mul, one_mul, zero_mul, Finset.sum_ite_eq,
        Finset.mem_univ, if_true, Finset.mul_sum]
      congr 1
      refine Finset.sum_congr rfl (fun k _ => ?_); ring
    rw [e] at this
    simp only [Fin.getElem_fin]
    linarith
  · intro i; rw [hr]; simp [fsum_eq]

/-- With no empty column the solution of the linear system already sums to one, the final
normalisation is the identity and the returned vector satisfies `r = d·A·D⁻¹·r + (1−d)·f`. -/
theorem pagerank_eq (A : QMat n) (d : ℚ) (f : Option (Vector Int n)) (o : PrOut n)
    (h : pagerank A d f = .ok o) (hdeg : ∀ j, ∑ i, A.get i j ≠ 0) (hd : d ≠ 1) :
    ∀ i : Fin n, o.r[i] = d * ∑ j : Fin n, A.get i j / (∑ l, A.get l j) * o.r[j] + (1 - d) * o.f[i] := by
  obtain ⟨hsys, hr⟩ := pagerank_system A d f o h
  obtain ⟨hf1, -, -⟩ := pagerank_prior A d f o h
  have hcd : ∀ j, colDeg A j = ∑ l, A.get l j := by
    intro j; simp only [colDeg, fsum_eq, hdeg j, if_false]
  -- Σ r0 = 1
  have hs : ∑ i : Fin n, o.r0[i] = 1 := by
    have e : ∑ i : Fin n, o.r0[i] = d * ∑ i : Fin n, o.r0[i] + (1 - d) := by
      calc ∑ i : Fin n, o.r0[i]
          = ∑ i : Fin n, (d * ∑ j : Fin n, A.get i j / colDeg A j * o.r0[j] + (1 - d) * o.f[i]) :=
            Finset.sum_congr rfl (fun i _ => hsys i)
        _ = d * ∑ i : Fin n, ∑ j : Fin n, A.get i j / colDeg A j * o.r0[j] + (1 - d) * ∑ i : Fin n, o.f[i] := by
            rw [Finset.sum_add_distrib, ← Finset.mul_sum, ← Finset.mul_sum]
        _ = d * ∑ j : Fin n, o.r0[j] + (1 - d) := by
            rw [hf1, mul_one, Finset.sum_comm]
            congr 2
            refine Finset.sum_congr rfl (fun j _ => ?_)
            rw [← Finset.sum_mul, ← Finset.sum_div, hcd j, div_self (hdeg j), one_mul]
    have h1 : (1 - d) * ∑ i : Fin n, o.r0[i] = (1 - d) * 1 := by linarith
    exact mul_left_cancel₀ (sub_ne_zero.mpr (Ne.symm hd)) h1
  have hrr : ∀ i : Fin n, o.r[i] = o.r0[i] := by intro i; rw [hr i, hs, div_one]
  intro i
  simp only [hrr, ← hcd]
  exact hsys i

/-- positivity: non-negative weights, no empty column, `0 ≤ d < 1`, non-negative prior  ⇒
`r_i ≥ (1−d)·f_i ≥ 0` -/
theorem pagerank_pos (A : QMat n) (d : ℚ) (f : Option (Vector Int n)) (o : PrOut n)
    (h : pagerank A d f = .ok o) (hA : ∀ i j, 0 ≤ A.get i j) (hdeg : ∀ j, ∑ i, A.get i j ≠ 0)
    (hd0 : 0 ≤ d) (hd1 : d < 1) (hf : ∀ i : Fin n, 0 ≤ o.f[i]) :
    ∀ i : Fin n, (1 - d) * o.f[i] ≤ o.r[i] := by
  have heq := pagerank_eq A d f o h hdeg (ne_of_lt hd1)
  obtain ⟨hf1, -, -⟩ := pagerank_prior A d f o h
  have hdegpos : ∀ j, 0 < ∑ l, A.get l j := by
    intro j
    exact lt_of_le_of_ne (Finset.sum_nonneg (fun l _ => hA l j)) (Ne.symm (hdeg j))
  exact (l1_nonneg (fun i j => A.get i j / ∑ l, A.get l j)
    (fun i j => div_nonneg (hA i j) (hdegpos j).le)
    (fun j => by rw [← Finset.sum_div]; exact div_self (hdeg j))
    d hd0 hd1 (fun i => o.f[i]) (fun i => o.r[i]) hf hf1 heq).2


/-- uniqueness: any vector satisfying the PageRank equation is the returned one -/
theorem pagerank_unique (A : QMat n) (d : ℚ) (f : Option (Vector Int n)) (o : PrOut n)
    (h : pagerank A d f = .ok o) (hA : ∀ i j, 0 ≤ A.get i j) (hdeg : ∀ j, ∑ i, A.get i j ≠ 0)
    (hd0 : 0 ≤ d) (hd1 : d < 1) (r' : Fin n → ℚ)
    (hr' : ∀ i : Fin n, r' i = d * ∑ j : Fin n, A.get i j / (∑ l, A.get l j) * r' j + (1 - d) * o.f[i]) :
    ∀ i : Fin n, r' i = o.r[i] := by
  have heq := pagerank_eq A d f o h hdeg (ne_of_lt hd1)
  have hdegpos : ∀ j, 0 < ∑ l, A.get l j := by
    intro j
    exact lt_of_le_of_ne (Finset.sum_nonneg (fun l _ => hA l j)) (Ne.symm (hdeg j))
  exact fixed_point_unique (fun i j => A.get i j / ∑ l, A.get l j)
    (fun i j => div_nonneg (hA i j) (hdegpos j).le)
    (fun j => by rw [← Finset.sum_div]; exact div_self (hdeg j))
    d hd0 hd1 (fun i => (1 - d) * o.f[i]) r' (fun i => o.r[i]) hr' heq


/-- strict positivity for an **arbitrary non-negative prior**: `r_i > 0` for every node `i` that can be reached from a node `j`
with positive prior along connections (`A[b,a] > 0` carries mass from `a` to `b`); in particular every `r_i > 0` for a connected /
strongly connected network and any prior with positive sum -/
theorem pagerank_pos_reachable (A : QMat n) (d : ℚ) (f : Option (Vector Int n)) (o : PrOut n)
    (h : pagerank A d f = .ok o) (hA : ∀ i j, 0 ≤ A.get i j) (hdeg : ∀ j, ∑ i, A.get i j ≠ 0)
    (hd0 : 0 < d) (hd1 : d < 1) (hf : ∀ i : Fin n, 0 ≤ o.f[i]) (j i : Fin n) (hj : 0 < o.f[j])
    (hpath : Relation.ReflTransGen (fun a b : Fin n => 0 < A.get b a) j i) : 0 < o.r[i] := by
  have heq := pagerank_eq A d f o h hdeg (ne_of_lt hd1)
  have hnn : ∀ k : Fin n, 0 ≤ o.r[k] := fun k =>
    le_trans (mul_nonneg (by linarith) (hf k)) (pagerank_pos A d f o h hA hdeg hd0.le hd1 hf k)
  have hdegpos : ∀ k, 0 < ∑ l, A.get l k := fun k =>
    lt_of_le_of_ne (Finset.sum_nonneg (fun l _ => hA l k)) (Ne.symm (hdeg k))
  induction hpath with
  | refl =>
    have := pagerank_pos A d f o h hA hdeg hd0.le hd1 hf j
    have h2 : 0 < (1 - d) * o.f[j] := mul_pos (by linarith) hj
    linarith
  | @tail a b _ hab ih =>
    rw [heq b]
    have hterm : 0 < A.get b a / (∑ l, A.get l a) * o.r[a] := mul_pos (div_pos hab (hdegpos a)) ih
    have hsum : A.get b a / (∑ l, A.get l a) * o.r[a] ≤ ∑ k : Fin n, A.get b k / (∑ l, A.get l k) * o.r[k] :=
      Finset.single_le_sum (f := fun k : Fin n => A.get b k / (∑ l, A.get l k) * o.r[k])
        (fun k _ => mul_nonneg (div_nonneg (hA b k) (hdegpos k).le) (hnn k)) (Finset.mem_univ a)
    have h1 : 0 < d * ∑ k : Fin n, A.get b k / (∑ l, A.get l k) * o.r[k] := mul_pos hd0 (lt_of_lt_of_le hterm hsum)
    have h2 : 0 ≤ (1 - d) * o.f[b] := mul_nonneg (by linarith) (hf b)
    linarith

/-- default (uniform) prior: every PageRank value is strictly positive -/
theorem pagerank_pos_default (A : QMat n) (d : ℚ) (o : PrOut n)
    (h : pagerank A d none = .ok o) (hA : ∀ i j, 0 ≤ A.get i j) (hdeg : ∀ j, ∑ i, A.get i j ≠ 0)
    (hd0 : 0 ≤ d) (hd1 : d < 1) : ∀ i : Fin n, 0 < o.r[i] := by
  obtain ⟨-, hnone, -⟩ := pagerank_prior A d none o h
  have hfi := hnone rfl
  have hn : 0 < n := by
    rcases Nat.eq_zero_or_pos n with h0 | h0
    · subst h0; simp [pagerank, prior] at h
    · exact h0
  have hfpos : ∀ i : Fin n, 0 < o.f[i] := by
    intro i; rw [hfi i]; positivity
  intro i
  have := pagerank_pos A d none o h hA hdeg hd0 hd1 (fun i => (hfpos i).le) i
  have : 0 < (1 - d) * o.f[i] := mul_pos (by linarith) (hfpos i)
  linarith

example : (match pagerank (toQ star3) (17/20) none with
    | .ok o => o.r[(0 : Fin 3)] == 18/37 && o.r[(1 : Fin 3)] == 19/74 | _ => false) = true := by decide +kernel
example : ∀ j : Fin 3, ∑ i, (toQ star3).get i j ≠ 0 := by decide +kernel


/-- fractional weights: every column strength of `weak3 / 8` is below one (4/8, 1/8, 3/8); the code must divide by
the strength itself, not by `max(strength, 1)` -/
def weak3 : AMat Int 3 := AMat.ofFn fun i j =>
  if (i.val = 0 ∧ j.val = 1) ∨ (i.val = 1 ∧ j.val = 0) then 1
  else if (i.val = 0 ∧ j.val = 2) ∨ (i.val = 2 ∧ j.val = 0) then 3 else 0
example : colDeg (scaleQ weak3 8) 1 = 1 / 8 ∧ (∀ j : Fin 3, ∑ i, (scaleQ weak3 8).get i j ≠ 0) ∧
    (match pagerank (scaleQ weak3 8) (1/2) none, pagerank (toQ weak3) (1/2) none with
      | .ok o, .ok o' => o.r == o'.r && o.r[(0 : Fin 3)] == 4/9 && o.r[(1 : Fin 3)] == 2/9
      | _, _ => false) = true ∧
    (match mfpt (scaleQ weak3 8) with | .ok o => o.M.get 1 2 == 8/3 | _ => false) = true := by
  decide +kernel


/-- **existence**: the matrix `I − d·A·D1` the code hands to `linalg.solve` (with the `deg == 0 → 1` convention) is invertible
for every non-negative `A` and `0 ≤ d < 1` — its columns are strictly diagonally dominant -/
theorem pagerank_matrix_invertible (A : QMat n) (d : ℚ) (hA : ∀ i j, 0 ≤ A.get i j) (hd0 : 0 ≤ d) (hd1 : d < 1) :
    (toMat (prMat A d)).det ≠ 0 :=
  prMat_det_ne_zero A d hA hd0 hd1

/-- hence the linear system has exactly one solution for every right-hand side (dangling columns included) -/
theorem pagerank_solution_exists_unique (A : QMat n) (d : ℚ) (hA : ∀ i j, 0 ≤ A.get i j) (hd0 : 0 ≤ d) (hd1 : d < 1)
    (b : Fin n → ℚ) : ∃! r : Fin n → ℚ, toMat (prMat A d) *ᵥ r = b :=
  prMat_exists_unique A d hA hd0 hd1 b

/-- **totality of the model**: for non-negative weights, `0 ≤ d < 1` and no prior or a non-negative prior with non-zero
sum, `pagerank` returns (never `singular`, `cert` or `zerodiv`): the Gauss–Jordan elimination of the model is complete on
invertible systems (`solveGJ_complete`), its result passes the certificate, and `Σ r0 ≥ 1 − d > 0`.  Together with
`pagerank_sum_one` / `pagerank_system` / `pagerank_eq` / `pagerank_pos` / `pagerank_unique` the PageRank clause is
unconditional on this domain. -/
theorem pagerank_total (A : QMat n) (d : ℚ) (f : Option (Vector Int n)) (hn : 0 < n)
    (hA : ∀ i j, 0 ≤ A.get i j) (hd0 : 0 ≤ d) (hd1 : d < 1)
    (hf : ∀ g, f = some g → (∀ i : Fin n, 0 ≤ g[i]) ∧ ∑ i : Fin n, (g[i] : ℚ) ≠ 0) :
    ∃ o, pagerank A d f = .ok o :=
  Walks.pagerank_total A d f hn hA hd0 hd1 hf

/-- any certified output of the model is *the* solution of the system (so two runs that return agree) -/
theorem pagerank_model_is_solution (A : QMat n) (d : ℚ) (f : Option (Vector Int n)) (o : PrOut n)
    (h : pagerank A d f = .ok o) (hA : ∀ i j, 0 ≤ A.get i j) (hd0 : 0 ≤ d) (hd1 : d < 1) (r' : Fin n → ℚ)
    (hr' : toMat (prMat A d) *ᵥ r' = fun i => (1 - d) * o.f[i]) : ∀ i : Fin n, r' i = o.r0[i] := by
  obtain ⟨-, hsol, -, -⟩ := pagerank_ok h
  have hsol' := (solves_iff _ _ _).mp hsol
  have h0 : toMat (prMat A d) *ᵥ (fun i : Fin n => o.r0[i]) = fun i => (1 - d) * o.f[i] := by
    ext i
    have := hsol' i
    simpa [Matrix.mulVec, dotProduct] using this
  obtain ⟨r, -, huniq⟩ := prMat_exists_unique A d hA hd0 hd1 (fun i => (1 - d) * o.f[i])
  intro i
  rw [huniq r' hr', ← huniq _ h0]

example : ∃ o, pagerank (scaleQ weak3 8) (1/2) none = .ok o :=
  pagerank_total _ _ _ (by norm_num) (by decide +kernel) (by norm_num) (by norm_num)
    (fun g h => by cases h)

/-! ## findwalks -/

/-- slice 0 is zero, slice `q ≥ 1` is the `q`-th power of the binarised matrix, whose `(i,j)` entry is
the number of walks of length `q` from `i` to `j` -/
theorem findwalks_power (A : AMat Int n) (sl : List (AMat Int n)) (h : findwalks A = .ok sl) :
    sl.length = n ∧ sl[0]? = some (zeroI n) ∧
    ∀ q, 1 ≤ q → q < n → ∃ S, sl[q]? = some S ∧ toMat S = toMat (binarize A) ^ q ∧
      ∀ i j, S.get i j = (walkCount (fun a b => A.get a b != 0) q i j : ℤ) := by
  unfold findwalks at h
  split_ifs at h with hn
  cases h
  refine ⟨by simp [walkLoop_length]; omega, rfl, fun q hq1 hqn => ?_⟩
  have key : ∃ S, (zeroI n :: binarize A :: walkLoop (binarize A) (n - 2) (binarize A))[q]? = some S ∧
      toMat S = toMat (binarize A) ^ q := by
    rcases Nat.lt_or_ge q 2 with h2 | h2
    · have : q = 1 := by omega
      subst this
      exact ⟨binarize A, rfl, by simp⟩
    · obtain ⟨S, h1, h2'⟩ := walkLoop_spec (binarize A) (n - 2) (binarize A) 1 (by simp) (q - 2) (by omega)
      refine ⟨S, ?_, ?_⟩
      · have : q = (q - 2) + 1 + 1 := by omega
        rw [this]; simpa using h1
      · rw [h2']; congr 1; omega
  obtain ⟨S, h1, h2⟩ := key
  refine ⟨S, h1, h2, fun i j => ?_⟩
  have := pow_eq_walkCount (toMat (binarize A)) (fun a b => A.get a b != 0) (toMat_binarize A) q i j
  rw [← h2] at this
  exact this


/-- cardinality reading: `walksFrom adj q i` enumerates, without repetition, exactly the node sequences
`[v₀ = i, v₁, …, v_q]` whose consecutive entries are adjacent (`mem_walksFrom`, `walksFrom_nodup`), and the
entry `(i,j)` of slice `q` is the number of those that end in `j`. -/
theorem findwalks_counts_walks (A : AMat Int n) (sl : List (AMat Int n)) (h : findwalks A = .ok sl)
    (q : ℕ) (hq1 : 1 ≤ q) (hqn : q < n) :
    ∃ S, sl[q]? = some S ∧
      (∀ i j, S.get i j =
        (((walksFrom (fun a b => A.get a b != 0) q i).filter fun l => l.getLast? == some j).length : ℤ)) ∧
      (∀ i, (walksFrom (fun a b => A.get a b != 0) q i).Nodup) ∧
      (∀ i l, l ∈ walksFrom (fun a b => A.get a b != 0) q i ↔
        l.length = q + 1 ∧ l.head? = some i ∧ IsWalk (fun a b => A.get a b != 0) l) := by
  obtain ⟨-, -, h3⟩ := findwalks_power A sl h
  obtain ⟨S, h1, -, h2⟩ := h3 q hq1 hqn
  exact ⟨S, h1, fun i j => by rw [h2 i j, walkCount_eq_length], fun i => walksFrom_nodup _ q i,
    fun i l => mem_walksFrom _ q i l⟩


/-- **walk-length distribution**: the list the driver prints as `wlq` (`sl.map matTotal`, i.e. `sum(sum(Wq))` per slice) has
`wlq[0] = 0` and, for `1 ≤ q < n`, `wlq[q]` = the total number of walks of length `q` = `Σ_i Σ_j (C^q) i j`; `twalk` is their sum -/
theorem findwalks_wlq (A : AMat Int n) (sl : List (AMat Int n)) (h : findwalks A = .ok sl) :
    (sl.map matTotal).length = n ∧ (sl.map matTotal)[0]? = some 0 ∧
    ∀ q, 1 ≤ q → q < n → (sl.map matTotal)[q]? =
      some (∑ i, ∑ j, (walkCount (fun a b => A.get a b != 0) q i j : ℤ)) := by
  obtain ⟨hlen, h0, hq⟩ := findwalks_power A sl h
  refine ⟨by simp [hlen], ?_, fun q hq1 hqn => ?_⟩
  · rw [List.getElem?_map, h0]
    simp [matTotal, isum_eq, zeroI]
  · obtain ⟨S, hS, -, hcount⟩ := hq q hq1 hqn
    rw [List.getElem?_map, hS]
    simp only [Option.map_some, matTotal, isum_eq, hcount]

def path3dir : AMat Int 3 := AMat.ofFn fun i j => if j.val = i.val + 1 ∨ (i.val = 2 ∧ j.val = 0) ∨ (i.val = 0 ∧ j.val = 2) then 5 else 0
example : (match findwalks path3dir with
    | .ok sl => sl.map showMat == ["0,0,0,0,0,0,0,0,0", "0,1,1,0,0,1,1,0,0", "1,0,1,1,0,0,0,1,1"] | _ => false) = true := by
  decide +kernel

/-! ## subgraph centrality -/

/-- For **every orthonormal** eigenbasis `V` (columns), eigenvalues `lam`, over any field of characteristic
zero: the code's formula `Σ_k V i k² · e^{λ_k}`, with the exponential replaced by its `T`-term series,
equals the model's value `expDiag A T i = Σ_{m<T} (A^m) i i / m!`. -/
theorem subgraph_spectral {K : Type} [Field K] [CharZero K] (A : AMat Int n)
    (V : Matrix (Fin n) (Fin n) K) (lam : Fin n → K)
    (hAV : (toMat A).map (Int.cast : ℤ → K) * V = V * diagonal lam) (hV : V * Vᵀ = 1) (T : ℕ) (i : Fin n) :
    ∑ k, V i k ^ 2 * (∑ m ∈ range T, lam k ^ m / (m.factorial : K)) = (((expDiag A T)[i] : ℚ) : K) := by
  have h := spectral_series ((toMat A).map (Int.cast : ℤ → K)) V lam hAV hV (fun m => 1 / (m.factorial : K)) T i
  have e1 : ∀ k, (∑ m ∈ range T, lam k ^ m / (m.factorial : K)) = ∑ m ∈ range T, 1 / (m.factorial : K) * lam k ^ m := by
    intro k; refine Finset.sum_congr rfl (fun m _ => ?_); ring
  simp only [e1]
  rw [h, expDiag_spec, Rat.cast_sum]
  refine Finset.sum_congr rfl (fun m _ => ?_)
  have e2 : ((toMat A).map (Int.cast : ℤ → K)) ^ m = ((toMat A) ^ m).map (Int.cast : ℤ → K) := by
    have := (map_pow (Int.castRingHom K).mapMatrix (toMat A) m).symm
    simpa [RingHom.mapMatrix_apply] using this
  rw [e2]
  simp only [Matrix.map_apply, Rat.cast_div, Rat.cast_intCast, Rat.cast_natCast]
  ring


/-- every later partial sum of the exponential series stays within the explicit bound the model reports
(`expTail ‖A‖∞ T = ρ^T/T!·(T+1)/(T+1−ρ)`), so the limit `exp(A)_ii` does too; this is the tolerance with which the
correspondence compares `subgraph_centrality` to `expDiag A T`. (The limit itself is not formalised.) -/
theorem subgraph_series_tail (A : AMat Int n) (T T' : ℕ) (hTT : T ≤ T') (b : ℚ)
    (hb : expTail (infNorm A) T = .ok b) (i : Fin n) :
    |(expDiag A T')[i] - (expDiag A T)[i]| ≤ b :=
  expDiag_tail A T T' hTT b hb i

def c4 : AMat Int 4 := AMat.ofFn fun i j => if (i.val + 1) % 4 = j.val ∨ (j.val + 1) % 4 = i.val then 1 else 0
/-- Hadamard/2 : a rational orthonormal eigenbasis of C₄ (eigenvalues 2, −2, 0, 0) -/
def hadV : Matrix (Fin 4) (Fin 4) ℚ := Matrix.of fun i k =>
  (if (k.val = 1 ∧ i.val % 2 = 1) ∨ (k.val = 2 ∧ i.val ≥ 2) ∨ (k.val = 3 ∧ (i.val = 1 ∨ i.val = 2)) then -1 else 1) / 2
def hadLam : Fin 4 → ℚ := fun k => if k.val = 0 then 2 else if k.val = 1 then -2 else 0

/-- non-vacuity of `subgraph_spectral`: C₄ has a repeated eigenvalue and an orthonormal eigenbasis over ℚ -/
example : (toMat c4).map (Int.cast : ℤ → ℚ) * hadV = hadV * diagonal hadLam ∧ hadV * hadVᵀ = 1 := by
  decide +kernel

example : (match expTail (infNorm c4) 20 with | .ok b => decide (b < 1 / 10 ^ 12) | _ => false) = true := by decide +kernel

/-- a non-orthonormal eigenbasis of C₄ (what `linalg.eig` may return inside the 0-eigenspace) -/
def skewV : Matrix (Fin 4) (Fin 4) ℚ := Matrix.of fun i k =>
  if k.val = 3 then (if i.val = 0 then 1 else if i.val = 2 then -1 else 0) else hadV i k

/-- The orthonormality hypothesis is needed (defect D15): `skewV` diagonalises C₄ with the same
eigenvalues, but the code's formula with it gives `Σ_k V 1 k² λ_k^0 = 3/4`, not `(A^0) 1 1 = 1`. -/
theorem subgraph_needs_orthonormal :
    (toMat c4).map (Int.cast : ℤ → ℚ) * skewV = skewV * diagonal hadLam ∧
    ∑ k, skewV 1 k ^ 2 * (∑ m ∈ range 1, hadLam k ^ m / (m.factorial : ℚ)) ≠ (((expDiag c4 1)[(1 : Fin 4)] : ℚ)) := by
  decide +kernel

/-! ## eigenvector centrality (the eigen-solver is an oracle) -/

/-- `eigenvector_centrality_und` returns `|v|` for an eigenvector `v` of the largest eigenvalue.  For a
symmetric matrix with non-negative entries, `|v|` is again an eigenvector for `λ_max` (stated for any
ordered field; `λ_max` is characterised by `xᵀAx ≤ λ·xᵀx` for all `x`). -/
theorem eig_abs_of_max {K : Type} [Field K] [LinearOrder K] [IsStrictOrderedRing K]
    (A : Matrix (Fin n) (Fin n) K) (hA : ∀ i j, A i j = A j i) (hpos : ∀ i j, 0 ≤ A i j) (lam : K)
    (hmax : ∀ x : Fin n → K, qf A x x ≤ lam * ∑ i, x i * x i)
    (v : Fin n → K) (hv : ∀ i, ∑ j, A i j * v j = lam * v i) :
    (∀ i, ∑ j, A i j * |v j| = lam * |v i|) ∧ (∀ i, 0 ≤ |v i|) ∧ ∑ i, |v i| * |v i| = ∑ i, v i * v i :=
  ⟨abs_eigvec_of_max A hA hpos lam hmax v hv, fun _ => abs_nonneg _,
    Finset.sum_congr rfl (fun _ _ => abs_mul_abs_self _)⟩

/-- non-vacuity: K₂, `λ_max = 1`, `v = (1,−1)·…` is not an eigenvector for 1 but `(−1,−1)` is -/
example : ∃ (A : Matrix (Fin 2) (Fin 2) ℚ) (v : Fin 2 → ℚ), (∀ i j, A i j = A j i) ∧ (∀ i j, 0 ≤ A i j) ∧
    (∀ x : Fin 2 → ℚ, qf A x x ≤ 1 * ∑ i, x i * x i) ∧ (∀ i, ∑ j, A i j * v j = 1 * v i) ∧ v 0 < 0 := by
  refine ⟨Matrix.of fun i j => if i = j then 0 else 1, fun _ => -1, fun i j => by simp [eq_comm], ?_, ?_, by decide +kernel, by norm_num⟩
  · intro i j; simp only [Matrix.of_apply]; split_ifs <;> norm_num
  · intro x
    simp only [qf, Fin.sum_univ_two, Matrix.of_apply]
    simp
    nlinarith [sq_nonneg (x 0 - x 1)]

/-- what the exact certificate computed from an oracle vector `v` means -/
theorem eigCert_sound (A : AMat Int n) (v : QVec n) (c : EigCert) (h : eigCert A v = .ok c) :
    c.nrm2 = ∑ i : Fin n, v[i] * v[i] ∧ c.nrm2 ≠ 0 ∧
    (∀ i : Fin n, c.vmin ≤ v[i]) ∧
    c.ray * c.nrm2 = ∑ i : Fin n, v[i] * ∑ k : Fin n, (A.get i k : ℚ) * v[k] ∧
    c.res2 = ∑ i : Fin n, ((∑ k : Fin n, (A.get i k : ℚ) * v[k]) - c.ray * v[i]) ^ 2 ∧
    ∀ lo hi, c.bounds = some (lo, hi) → ∀ i : Fin n, 0 < v[i] ∧
      lo * v[i] ≤ ∑ k : Fin n, (A.get i k : ℚ) * v[k] ∧ ∑ k : Fin n, (A.get i k : ℚ) * v[k] ≤ hi * v[i] := by
  unfold eigCert at h
  split at h
  · cases h
  · rename_i i0 rest hfr
    dsimp only at h
    by_cases h0 : (fsum fun i : Fin n => v[i] * v[i]) = 0
    · rw [if_pos h0] at h; cases h
    rw [if_neg h0] at h
    cases h
    have hmem : ∀ i : Fin n, i = i0 ∨ i ∈ rest := by
      intro i
      have : i ∈ List.finRange n := List.mem_finRange i
      rw [hfr] at this
      exact List.mem_cons.mp this
    have hvmin : ∀ i : Fin n, listMin (rest.map fun i => v[i]) v[i0] ≤ v[i] := by
      intro i
      rcases hmem i with rfl | hi
      · exact (listMin_le _ _).1
      · exact (listMin_le _ _).2 _ (List.mem_map.mpr ⟨i, hi, rfl⟩)
    refine ⟨by simp only [fsum_eq], by simpa only [fsum_eq] using h0, hvmin, ?_, ?_, ?_⟩
    · simp only [fsum_eq, mulVecQ]
      rw [div_mul_cancel₀]; simpa only [fsum_eq] using h0
    · simp only [fsum_eq, mulVecQ, pow_two]
    · intro lo hi hb i
      simp only at hb
      split_ifs at hb with hpos
      simp only [Option.some.injEq, Prod.mk.injEq] at hb
      obtain ⟨hlo, hhi⟩ := hb
      have hvi : 0 < v[i] := lt_of_lt_of_le hpos (hvmin i)
      have hq : ∀ (i : Fin n), lo ≤ mulVecQ A v i / v[i] ∧ mulVecQ A v i / v[i] ≤ hi := by
        intro i
        rw [← hlo, ← hhi]
        rcases hmem i with rfl | hi'
        · exact ⟨(listMin_le _ _).1, (le_listMax _ _).1⟩
        · exact ⟨(listMin_le _ _).2 _ (List.mem_map.mpr ⟨i, hi', rfl⟩),
            (le_listMax _ _).2 _ (List.mem_map.mpr ⟨i, hi', rfl⟩)⟩
      have := hq i
      rw [le_div_iff₀ hvi, div_le_iff₀ hvi] at this
      simpa only [mulVecQ, fsum_eq] using ⟨hvi, this.1, this.2⟩

/-- Collatz–Wielandt bracket: if the certificate of `v` carries bounds `(lo, hi)` and `A` is
non-negative, every eigenvalue `μ` of `A` over any ordered field satisfies `|μ| ≤ hi`, and the
Rayleigh quotient of `v` (hence `λ_max` of a symmetric `A`) is at least `lo`. -/
theorem eigCert_bracket {K : Type} [Field K] [LinearOrder K] [IsStrictOrderedRing K]
    (A : AMat Int n) (hA : ∀ i j, 0 ≤ A.get i j) (v : QVec n) (c : EigCert)
    (h : eigCert A v = .ok c) (lo hi : ℚ) (hb : c.bounds = some (lo, hi)) :
    (∀ (mu : K) (x : Fin n → K), (∀ i, ∑ j, (A.get i j : K) * x j = mu * x i) → (∃ i, x i ≠ 0) → |mu| ≤ (hi : K)) ∧
    lo * c.nrm2 ≤ c.ray * c.nrm2 := by
  obtain ⟨hn, -, -, hray, -, hbd⟩ := eigCert_sound A v c h
  have hbd' := hbd lo hi hb
  constructor
  · intro mu x hx hx0
    refine collatz_upper (Matrix.of fun i j => (A.get i j : K)) (fun i j => by simp only [Matrix.of_apply]; exact_mod_cast hA i j)
      (fun i => ((v[i] : ℚ) : K)) (fun i => by exact_mod_cast (hbd' i).1) (hi : K) (fun i => ?_) mu x hx hx0
    have := (hbd' i).2.2
    have h2 : ((∑ k : Fin n, (A.get i k : ℚ) * v[k] : ℚ) : K) ≤ ((hi * v[i] : ℚ) : K) := Rat.cast_le.mpr this
    simpa [Rat.cast_sum, Rat.cast_mul] using h2
  · rw [hray, hn, Finset.mul_sum]
    refine Finset.sum_le_sum (fun i _ => ?_)
    have := hbd' i
    calc lo * (v[i] * v[i]) = v[i] * (lo * v[i]) := by ring
      _ ≤ v[i] * ∑ k : Fin n, (A.get i k : ℚ) * v[k] := mul_le_mul_of_nonneg_left this.2.1 this.1.le


/-! ## the two spectral routines: post-processing as coded, eigen-solver as an oracle with an explicit contract -/

/-- **eigenvector_centrality_und.**  `vals, vecs = linalg.eig(A)` is an oracle constrained by `EigOracle … i` (the selected
column `i` is a real unit eigenvector for `vals i`, and `vals` lists every eigenvalue of `A`; nothing about other columns); `i = argmax(vals)`; the routine returns
`eigCentrality vecs i = |vecs[:, i]|`.  For every symmetric matrix with non-negative entries and **every** oracle output
meeting the contract, the returned vector is non-negative, has unit norm, and is an eigenvector of `A` for `vals i`, which
no eigenvalue of `A` exceeds (`λ_max`).  Uses the spectral theorem for the Rayleigh bound; no connectivity or simplicity
assumption (repeated `λ_max`, disjoint copies included). -/
theorem eigenvector_spec (A : Matrix (Fin n) (Fin n) ℝ) (hsym : ∀ i j, A i j = A j i) (hpos : ∀ i j, 0 ≤ A i j)
    (vals : Fin n → ℝ) (vecs : Matrix (Fin n) (Fin n) ℝ) (i : Fin n) (ho : EigOracle A vals vecs i)
    (hi : IsArgmax vals i) :
    (∀ r, 0 ≤ eigCentrality vecs i r) ∧
    (∑ r, eigCentrality vecs i r * eigCentrality vecs i r = 1) ∧
    (A *ᵥ eigCentrality vecs i = vals i • eigCentrality vecs i) ∧
    (∀ (μ : ℝ) (x : Fin n → ℝ), x ≠ 0 → A *ᵥ x = μ • x → μ ≤ vals i) :=
  WalksAlg.eigenvector_spec A hsym hpos vals vecs i ho hi

/-- the executable post-processing run by the driver (`eigpost`) is that abstract post-processing: it returns an index of a
maximal entry of `vals` and the entrywise absolute value of that column -/
theorem eigenvector_post_spec (vals : QVec n) (vecs : QMat n) (i : Fin n) (v : QVec n)
    (h : eigPost vals vecs = .ok (i, v)) :
    IsArgmax (fun k : Fin n => vals[k]) i ∧ ∀ r : Fin n, v[r] = eigCentrality (toMat vecs) i r :=
  eigPost_spec vals vecs i v h

/-- **subgraph_centrality.**  `vals, vecs = linalg.eigh(A)` is an oracle constrained by `EighOracle` (orthonormal columns
diagonalising `A`); the routine returns `subgraphCentrality vals vecs = dot(vecs*vecs, exp(vals))`.  For every oracle output
meeting the contract this is the diagonal of the matrix exponential (Mathlib's `NormedSpace.exp` on real matrices). -/
theorem subgraph_spec (A : Matrix (Fin n) (Fin n) ℝ) (vals : Fin n → ℝ) (vecs : Matrix (Fin n) (Fin n) ℝ)
    (ho : EighOracle A vals vecs) (i : Fin n) :
    subgraphCentrality vals vecs i = (NormedSpace.exp A) i i :=
  WalksAlg.subgraph_spec A vals vecs ho i

/-- the executable model value `expDiag A T` (what the correspondence compares `subgraph_centrality` with) lies within the
printed bound `expTail ‖A‖∞ T` of the diagonal of the true matrix exponential -/
theorem subgraph_model_exp (A : AMat Int n) (T : ℕ) (b : ℚ) (hb : expTail (infNorm A) T = .ok b) (i : Fin n) :
    |(NormedSpace.exp (toMatR A)) i i - (((expDiag A T)[i] : ℚ) : ℝ)| ≤ (b : ℝ) :=
  exp_diag_tail A T b hb i

/-- both together: for an integer-weighted symmetric matrix and every `eigh` oracle output meeting the contract, the value
the routine computes differs from the executable model's `expDiag A T i` by at most the printed bound -/
theorem subgraph_model_spec (A : AMat Int n) (vals : Fin n → ℝ) (vecs : Matrix (Fin n) (Fin n) ℝ)
    (ho : EighOracle (toMatR A) vals vecs) (T : ℕ) (b : ℚ) (hb : expTail (infNorm A) T = .ok b) (i : Fin n) :
    |subgraphCentrality vals vecs i - (((expDiag A T)[i] : ℚ) : ℝ)| ≤ (b : ℝ) := by
  rw [subgraph_spec (toMatR A) vals vecs ho i]
  exact exp_diag_tail A T b hb i

/-- the executable `subpost` is `dot(vecs*vecs, ev)` -/
theorem subgraph_post_spec (vecs : QMat n) (ev : QVec n) (i : Fin n) :
    (subPost vecs ev)[i] = ∑ k : Fin n, vecs.get i k * vecs.get i k * ev[k] :=
  subPost_spec vecs ev i

/-! non-vacuity of the two oracle contracts: `A = [[9,12],[12,16]]` (eigenvalues 25, 0) with rational unit eigenvectors;
the `eig` output below has a negative first column, so `abs` matters -/
def a34 : Matrix (Fin 2) (Fin 2) ℝ := !![9, 12; 12, 16]
def vals34 : Fin 2 → ℝ := ![25, 0]
noncomputable def vecs34 : Matrix (Fin 2) (Fin 2) ℝ := !![-3/5, 4/5; -4/5, -3/5]

example : EighOracle a34 vals34 vecs34 := by
  constructor
  · ext i j; fin_cases i <;> fin_cases j <;> norm_num [a34, vals34, vecs34, Matrix.mul_apply, Fin.sum_univ_two, Matrix.diagonal]
  · ext i j; fin_cases i <;> fin_cases j <;> norm_num [vecs34, Matrix.mul_apply, Fin.sum_univ_two, Matrix.one_apply]

example : EigOracle a34 vals34 vecs34 0 ∧ IsArgmax vals34 0 ∧ eigCentrality vecs34 0 = ![3/5, 4/5] := by
  refine ⟨⟨?_, ?_, fun μ x hx hAx => ?_⟩, fun k => ?_, ?_⟩
  · ext r; fin_cases r <;> norm_num [a34, vals34, vecs34, Matrix.mulVec, dotProduct, Fin.sum_univ_two]
  · norm_num [vecs34, Fin.sum_univ_two]
  · have h0 := congrFun hAx 0
    have h1 := congrFun hAx 1
    simp only [a34, Matrix.mulVec, dotProduct, Fin.sum_univ_two, Matrix.of_apply, Matrix.cons_val', Matrix.cons_val_zero,
      Matrix.cons_val_one, Pi.smul_apply, smul_eq_mul] at h0 h1
    by_cases hμ : μ = 25
    · exact ⟨0, by simp [vals34, hμ]⟩
    · refine ⟨1, ?_⟩
      have hs : (3 * x 0 + 4 * x 1) * (μ - 25) = 0 := by linear_combination -3 * h0 - 4 * h1
      have hs0 : 3 * x 0 + 4 * x 1 = 0 := by
        rcases mul_eq_zero.mp hs with h | h
        · exact h
        · exact absurd (sub_eq_zero.mp h) hμ
      have e0 : μ * x 0 = 0 := by linear_combination -h0 + 3 * hs0
      have e1 : μ * x 1 = 0 := by linear_combination -h1 + 4 * hs0
      by_contra hne
      have hμ0 : μ ≠ 0 := fun h => hne (by simp [vals34, h])
      apply hx
      ext r; fin_cases r
      · simpa using (mul_eq_zero.mp e0).resolve_left hμ0
      · simpa using (mul_eq_zero.mp e1).resolve_left hμ0
  · fin_cases k <;> norm_num [vals34]
  · ext r; fin_cases r <;> norm_num [eigCentrality, vecs34, abs_of_neg, abs_of_pos]

example : (match eigPost (Vector.ofFn ![25, 0]) (AMat.ofFn fun i j => (![![-3/5, 4/5], ![-4/5, -3/5]] : Fin 2 → Fin 2 → ℚ) i j) with
    | .ok (i, v) => i == 0 && v == Vector.ofFn ![3/5, 4/5] | _ => false) = true := by decide +kernel

def k2 : AMat Int 2 := AMat.ofFn fun i j => if i = j then 0 else 1
example : (match eigCert k2 (Vector.ofFn fun _ => (1 / 2 : ℚ)) with
    | .ok c => c.bounds == some (1, 1) && c.ray == 1 && c.res2 == 0 | _ => false) = true := by decide +kernel

end Bct.C18
