import BctVerif.Model.CoreIRClust
import Mathlib.Tactic.Ring
import Mathlib.Tactic.Push
import Mathlib.Data.List.Basic
import Mathlib.Data.Rat.Defs
import Mathlib.Algebra.Order.Field.Rat

/-!
# C09 (second tie) — link theorems for the source-extracted clustering coefficients and transitivities
-/

namespace Bct.Cores.Clust
open Bct Bct.Cluster Bct.CoreIR.Clust

variable {n : ℕ}

/-- the argument as the interpreter sees it -/
def embA (A : AMat ℚ n) : AMat V n := AMat.ofFn fun i j => V.num (A.get i j)
/-- a result cell of the model -/
def optV : Option ℚ → V
  | some x => .num x
  | none => .nf

@[simp] theorem embA_get (A : AMat ℚ n) (i j : Fin n) : (embA A).get i j = V.num (A.get i j) := by simp [embA]

@[simp] theorem add_num (a b : ℚ) : V.add (.num a) (.num b) = .num (a + b) := rfl
@[simp] theorem sub_num (a b : ℚ) : V.sub (.num a) (.num b) = .num (a - b) := rfl
@[simp] theorem mul_num (a b : ℚ) : V.mul (.num a) (.num b) = .num (a * b) := rfl
@[simp] theorem div_num (a b : ℚ) : V.div (.num a) (.num b) = if b = 0 then .nf else .num (a / b) := rfl
@[simp] theorem eq_num (a b : ℚ) : V.eq (.num a) (.num b) = .bool (a == b) := rfl
@[simp] theorem sub_inf (b : ℚ) : V.sub .inf (.num b) = .inf := rfl
@[simp] theorem mul_inf : V.mul .inf .inf = .inf := rfl
@[simp] theorem div_inf (a : ℚ) : V.div (.num a) .inf = .num 0 := rfl

theorem sumV_num {α : Type} (l : List α) (f : α → ℚ) : sumV (l.map fun k => V.num (f k)) = V.num ((l.map f).sum) := by
  induction l with
  | nil => rfl
  | cons a l ih =>
    have : sumV ((a :: l).map fun k => V.num (f k)) = V.add (V.num (f a)) (sumV (l.map fun k => V.num (f k))) := rfl
    rw [this, ih]; simp

@[simp] theorem cbrt_num (cb : ℚ → ℚ) (a : ℚ) : V.cbrt cb (.num a) = .num (cb a) := rfl
@[simp] theorem toFloat_num (a : ℚ) : V.toFloat (.num a) = .num a := rfl
@[simp] theorem adj_cell (w : ℚ) : V.toFloat (V.bool (!(w == 0))) = .num (ind w) := by
  by_cases h : w = 0 <;> simp [V.toFloat, ind, h]
@[simp] theorem lnot_cell (b : Bool) : V.lnot (V.bool b) = .bool (!b) := rfl

theorem sumV_bool {α : Type} (l : List α) (f : α → ℚ) :
    sumV (l.map fun k => V.bool (!(f k == 0))) = V.num ((l.map fun k => ind (f k)).sum) := by
  induction l with
  | nil => rfl
  | cons a l ih =>
    have : sumV ((a :: l).map fun k => V.bool (!(f k == 0))) = V.add (V.bool (!(f a == 0))) (sumV (l.map fun k => V.bool (!(f k == 0)))) := rfl
    rw [this, ih]
    by_cases h : f a = 0 <;> simp [V.add, V.asNum, ind, h]

theorem gdiv_cell (a b : ℚ) : (if b = 0 then V.nf else V.num (a / b)) = optV (gdiv a b) := by
  unfold gdiv; split <;> rfl

theorem perNode_cell (c K d : ℚ) :
    V.div (V.num c) (V.sub (V.mul (maskCell (.bool (c == 0)) .inf (.num K)) (V.sub (maskCell (.bool (c == 0)) .inf (.num K)) (.num 1)))
      (.num d)) = optV (perNode c (K * (K - 1) - d)) := by
  by_cases hc : c = 0
  · simp [maskCell, hc, perNode, optV]
  · have hb : (c == 0) = false := by simpa using hc
    simp only [maskCell, hb, perNode, hc, if_false, sub_num, mul_num, div_num]
    split <;> rfl

theorem perNode_cell0 (c K : ℚ) :
    V.div (V.num c) (V.mul (maskCell (.bool (c == 0)) .inf (.num K)) (V.sub (maskCell (.bool (c == 0)) .inf (.num K)) (.num 1)))
      = optV (perNode c (K * (K - 1))) := by
  by_cases hc : c = 0
  · simp [maskCell, hc, perNode, optV]
  · have hb : (c == 0) = false := by simpa using hc
    simp only [maskCell, hb, perNode, hc, if_false, sub_num, mul_num, div_num]
    split <;> rfl

/-- **Link, `clustering_coef_bd`.** -/
theorem link_cc_bd (ir : ArrIR) (hok : clustOk refCcBd ir = true) (cb : ℚ → ℚ) (A : AMat ℚ n) :
    run cb ir (embA A) = .vec ((ccBd A).map optV) := by
  have hir : ir = refCcBd := by simpa [clustOk] using hok
  subst hir
  simp [run, refCcBd, execs, exec, eval, zip2, cyc3S, maskK, possible, sumV_num]
  apply Vector.ext; intro i hi
  simp only [Vector.getElem_ofFn, Vector.getElem_map, ccBd, ccFagiolo, perNode, madd, mmul, rowSum, vsum, AMat.get_ofFn,
    AMat.transpose]
  exact perNode_cell _ _ _

/-- **Link, `clustering_coef_wd`** (`cb` = what `cuberoot` returns on one entry). -/
theorem link_cc_wd (ir : ArrIR) (hok : clustOk refCcWd ir = true) (cb : ℚ → ℚ) (W : AMat ℚ n) :
    run cb ir (embA W) = .vec ((ccWd W (AMat.map cb W)).map optV) := by
  have hir : ir = refCcWd := by simpa [clustOk] using hok
  subst hir
  simp [run, refCcWd, execs, exec, eval, zip2, map1, cyc3S, maskK, possible, adjW, sumV_num]
  apply Vector.ext; intro i hi
  simp only [Vector.getElem_ofFn, Vector.getElem_map, ccWd, ccFagiolo, perNode, madd, mmul, rowSum, vsum, AMat.get_ofFn,
    AMat.transpose, adj, AMat.map]
  exact perNode_cell _ _ _

/-- **Link, `clustering_coef_wu`.** -/
theorem link_cc_wu (ir : ArrIR) (hok : clustOk refCcWu ir = true) (cb : ℚ → ℚ) (W : AMat ℚ n) :
    run cb ir (embA W) = .vec ((ccWu W (AMat.map cb W)).map optV) := by
  have hir : ir = refCcWu := by simpa [clustOk] using hok
  subst hir
  simp [run, refCcWu, execs, exec, eval, zip2, map1, maskK, sumV_num, sumV_bool]
  apply Vector.ext; intro i hi
  simp only [Vector.getElem_ofFn, Vector.getElem_map, ccWu, perNode, mmul, rowSum, vsum, AMat.get_ofFn, adj, AMat.map]
  exact perNode_cell0 _ _

/-- **Link, `transitivity_bd`.** -/
theorem link_trans_bd (ir : ArrIR) (hok : clustOk refTransBd ir = true) (cb : ℚ → ℚ) (A : AMat ℚ n) :
    run cb ir (embA A) = .sc (optV (transBd A)) := by
  have hir : ir = refTransBd := by simpa [clustOk] using hok
  subst hir
  simp [run, refTransBd, execs, exec, eval, zip2, map1, cyc3S, possible, sumV_num]
  simp only [transBd, transFagiolo, madd, mmul, rowSum, vsum, AMat.get_ofFn, AMat.transpose]
  exact gdiv_cell _ _

/-- **Link, `transitivity_bu`.** -/
theorem link_trans_bu (ir : ArrIR) (hok : clustOk refTransBu ir = true) (cb : ℚ → ℚ) (A : AMat ℚ n) :
    run cb ir (embA A) = .sc (optV (transBu A)) := by
  have hir : ir = refTransBu := by simpa [clustOk] using hok
  subst hir
  simp [run, refTransBu, execs, exec, eval, zip2, map1, sumV_num]
  simp only [transBu, mmul, vsum, AMat.get_ofFn, Cluster.trace, total]
  exact gdiv_cell _ _

/-- **Link, `transitivity_wd`.** -/
theorem link_trans_wd (ir : ArrIR) (hok : clustOk refTransWd ir = true) (cb : ℚ → ℚ) (W : AMat ℚ n) :
    run cb ir (embA W) = .sc (optV (transWd W (AMat.map cb W))) := by
  have hir : ir = refTransWd := by simpa [clustOk] using hok
  subst hir
  simp [run, refTransWd, execs, exec, eval, zip2, map1, cyc3S, possible, adjW, sumV_num]
  simp only [transWd, transFagiolo, madd, mmul, rowSum, vsum, AMat.get_ofFn, AMat.transpose, adj, AMat.map]
  exact gdiv_cell _ _

/-- **Link, `transitivity_wu`.** -/
theorem link_trans_wu (ir : ArrIR) (hok : clustOk refTransWu ir = true) (cb : ℚ → ℚ) (W : AMat ℚ n) :
    run cb ir (embA W) = .sc (optV (transWu W (AMat.map cb W))) := by
  have hir : ir = refTransWu := by simpa [clustOk] using hok
  subst hir
  simp [run, refTransWu, execs, exec, eval, zip2, map1, sumV_num, sumV_bool]
  simp only [transWu, mmul, rowSum, vsum, AMat.get_ofFn, adj, AMat.map]
  exact gdiv_cell _ _

/-- **Link, `clustering_coef_bu`.** -/
theorem link_cc_bu (ir : BuIR) (hok : buOk ir = true) (G : AMat ℚ n) :
    runBu ir (embA G) = some ((ccBu G).map optV) := by
  have hir : ir = refBu := by simpa [buOk] using hok
  subst hir
  have hc : refBu.coherent = true := by decide
  simp only [runBu, hc, if_true, Option.some.injEq]
  apply Vector.ext; intro u hu
  simp only [Vector.getElem_ofFn, Vector.getElem_map, ccBu, embA_get, V.truthy, show refBu.testLit = 2 from rfl,
    show refBu.cnt = "k" from rfl, show refBu.den = .sub (.mul (.var "k") (.var "k")) (.var "k") from rfl, evalK, if_true]
  have hf : ((List.finRange n).filter fun j => G.get ⟨u, hu⟩ j != 0) = (List.finRange n).filter fun j => decide (G.get ⟨u, hu⟩ j ≠ 0) := by
    apply List.filter_congr; intro j _
    by_cases h : G.get ⟨u, hu⟩ j = 0 <;> simp [h]
  rw [hf]
  generalize ((List.finRange n).filter fun j => decide (G.get ⟨u, hu⟩ j ≠ 0)) = nb
  by_cases hk : 2 ≤ nb.length
  · have hk' : ((2 : ℕ) : ℤ) ≤ (nb.length : ℤ) := by exact_mod_cast hk
    have hcast : (((nb.length : ℤ) * (nb.length : ℤ) - (nb.length : ℤ) : ℤ) : ℚ) = (nb.length : ℚ) * (nb.length : ℚ) - (nb.length : ℚ) := by
      push_cast; ring
    have h0 : (nb.length : ℚ) ≠ 0 := by
      have : (nb.length : ℚ) ≠ ((0 : ℕ) : ℚ) := Nat.cast_injective.ne (by omega)
      simpa using this
    have h1 : (nb.length : ℚ) - 1 ≠ 0 := by
      have : (nb.length : ℚ) ≠ ((1 : ℕ) : ℚ) := Nat.cast_injective.ne (by omega)
      rw [sub_ne_zero]; simpa using this
    have hne : (nb.length : ℚ) * (nb.length : ℚ) - (nb.length : ℚ) ≠ 0 := by
      have : (nb.length : ℚ) * (nb.length : ℚ) - (nb.length : ℚ) = (nb.length : ℚ) * ((nb.length : ℚ) - 1) := by ring
      rw [this]; exact mul_ne_zero h0 h1
    simp only [hk, hk', if_true, sumV_num, div_num, hcast, hne, if_false, optV]
  · have hk' : ¬ ((2 : ℕ) : ℤ) ≤ (nb.length : ℤ) := by exact_mod_cast hk
    simp only [hk, hk', if_false, optV]

example : clustOk refCcBd refCcBd = true := by decide
example : buOk refBu = true := by decide
/-- `K * K` for `K * (K - 1)` is rejected -/
example : clustOk refCcWu { refCcWu with body := refCcWu.body.set 4 (.bind "C" (.div (.ref "cyc3") (.mul (.ref "K") (.ref "K")))) } = false := by
  decide
/-- the program of `transitivity_wd` is not accepted as `transitivity_bd` -/
example : clustOk refTransBd { refTransWd with name := "transitivity_bd" } = false := by decide
/-- `if k >= 1` is rejected -/
example : buOk { refBu with testLit := 1 } = false := by decide

end Bct.Cores.Clust
