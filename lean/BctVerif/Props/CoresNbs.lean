import BctVerif.Lemmas.NbsStat
import BctVerif.Model.CoreIRNbs
/-!
# T-gen for the t statistics of `nbs_bct`: what the passed obligations imply

`link_tstat`: for the extracted nested functions and the statements that call them, the index of a row is put into `ind_t`
exactly when the model's `Nbs.exceeds` says so — for numbers read as reals (`K = ℝ`, `np.sqrt = Real.sqrt`; floating point is
outside the models), samples of at least two values, and equal sample sizes in the paired case (the domain of `Nbs.nbs`).
-/
namespace Bct.Cores.Nbs
open Bct Bct.Nbs Bct.CoreIR.Nbs

/-- the real numbers with `Real.sqrt` -/
noncomputable def realOps : Ops ℝ :=
  { ofInt := fun z => (z : ℝ), add := fun a b => a + b, sub := fun a b => a - b, mul := fun a b => a * b, div := fun a b => a / b,
    neg := fun a => -a, abs := fun a => |a|, sqrt := Real.sqrt, lt := fun a b => decide (a < b), isZero := fun a => decide (a = 0) }

def castL (l : List ℚ) : List ℝ := List.map (fun (q : ℚ) => (q : ℝ)) l

@[simp] theorem ops_ofInt (z : ℤ) : realOps.ofInt z = (z : ℝ) := rfl
@[simp] theorem ops_add (a b : ℝ) : realOps.add a b = a + b := rfl
@[simp] theorem ops_sub (a b : ℝ) : realOps.sub a b = a - b := rfl
@[simp] theorem ops_mul (a b : ℝ) : realOps.mul a b = a * b := rfl
@[simp] theorem ops_div (a b : ℝ) : realOps.div a b = a / b := rfl
@[simp] theorem ops_neg (a : ℝ) : realOps.neg a = -a := rfl
@[simp] theorem ops_abs (a : ℝ) : realOps.abs a = |a| := rfl
@[simp] theorem ops_sqrt (a : ℝ) : realOps.sqrt a = Real.sqrt a := rfl
@[simp] theorem ops_lt (a b : ℝ) : realOps.lt a b = decide (a < b) := rfl
@[simp] theorem ops_isZero (a : ℝ) : realOps.isZero a = decide (a = 0) := rfl

def tailStr : Tail → String
  | .both => "both"
  | .left => "left"
  | .right => "right"

@[simp] theorem castL_length (l : List ℚ) : (castL l).length = l.length := by simp [castL]

theorem sumK_real (l : List ℝ) : sumK realOps l = l.sum := by
  induction l with
  | nil => simp [sumK]
  | cons a l ih => simp only [sumK, List.foldr_cons, List.sum_cons, ops_add] at ih ⊢; rw [ih]

theorem sum_cast (l : List ℚ) : (castL l).sum = ((qsum l : ℚ) : ℝ) := by
  induction l with
  | nil => simp [castL, qsum]
  | cons a l ih => simp only [castL, qsum, List.map_cons, List.sum_cons] at ih ⊢; rw [ih]; push_cast; ring

theorem meanK_cast (l : List ℚ) : meanK realOps (castL l) = ((mean l : ℚ) : ℝ) := by
  simp only [meanK, sumK_real, sum_cast, castL_length, mean, ops_div, ops_ofInt]
  push_cast
  rfl

theorem devPow2_cast (l : List ℚ) : devPowSum realOps 2 (castL l) = ((ssd l : ℚ) : ℝ) := by
  simp only [devPowSum, sumK_real, meanK_cast, ssd]
  rw [← sum_cast]
  congr 1
  simp only [castL, List.map_map]
  apply List.map_congr_left
  intro a _
  simp only [Function.comp, powK, ops_mul, ops_sub, ops_ofInt]
  push_cast
  ring

theorem ssd_nonneg (l : List ℚ) : 0 ≤ ssd l := by
  unfold ssd qsum
  apply List.sum_nonneg
  intro a ha
  obtain ⟨b, _, rfl⟩ := List.mem_map.mp ha
  exact mul_self_nonneg _

theorem foldl_max_ge (t : List ℝ) : ∀ a : ℝ,
    a ≤ t.foldl (fun m b => if realOps.lt m b then b else m) a ∧ ∀ b ∈ t, b ≤ t.foldl (fun m b => if realOps.lt m b then b else m) a := by
  induction t with
  | nil => intro a; simp
  | cons c t ih =>
    intro a
    simp only [List.foldl_cons, List.mem_cons, forall_eq_or_imp]
    obtain ⟨h1, h2⟩ := ih (if realOps.lt a c then c else a)
    have hle : a ≤ (if realOps.lt a c then c else a) ∧ c ≤ (if realOps.lt a c then c else a) := by
      simp only [ops_lt, decide_eq_true_eq]
      split_ifs with h
      · exact ⟨h.le, le_refl _⟩
      · exact ⟨le_refl _, not_lt.mp h⟩
    exact ⟨le_trans hle.1 h1, le_trans hle.2 h1, h2⟩

theorem foldl_min_le (t : List ℝ) : ∀ a : ℝ,
    t.foldl (fun m b => if realOps.lt b m then b else m) a ≤ a ∧ ∀ b ∈ t, t.foldl (fun m b => if realOps.lt b m then b else m) a ≤ b := by
  induction t with
  | nil => intro a; simp
  | cons c t ih =>
    intro a
    simp only [List.foldl_cons, List.mem_cons, forall_eq_or_imp]
    obtain ⟨h1, h2⟩ := ih (if realOps.lt c a then c else a)
    have hle : (if realOps.lt c a then c else a) ≤ a ∧ (if realOps.lt c a then c else a) ≤ c := by
      simp only [ops_lt, decide_eq_true_eq]
      split_ifs with h
      · exact ⟨h.le, le_refl _⟩
      · exact ⟨le_refl _, not_lt.mp h⟩
    exact ⟨le_trans h1 hle.1, le_trans h1 hle.2, h2⟩

/-- `np.ptp` of a non-empty array: non-negative, and zero only if all entries are equal -/
theorem ptp_some (l : List ℝ) (h : l ≠ []) :
    ∃ p, ptpK realOps l = some p ∧ (p = 0 → ∀ a ∈ l, ∀ b ∈ l, a = b) := by
  cases l with
  | nil => exact absurd rfl h
  | cons a t =>
    refine ⟨_, rfl, ?_⟩
    intro hp c hc d hd
    obtain ⟨x1, x2⟩ := foldl_max_ge t a
    obtain ⟨n1, n2⟩ := foldl_min_le t a
    have hp' : t.foldl (fun m b => if realOps.lt m b then b else m) a = t.foldl (fun m b => if realOps.lt b m then b else m) a := by
      have : t.foldl (fun m b => if realOps.lt m b then b else m) a - t.foldl (fun m b => if realOps.lt b m then b else m) a = 0 := hp
      linarith
    have bound : ∀ e ∈ a :: t, t.foldl (fun m b => if realOps.lt b m then b else m) a ≤ e ∧
        e ≤ t.foldl (fun m b => if realOps.lt b m then b else m) a := by
      intro e he
      rcases List.mem_cons.mp he with rfl | he
      · exact ⟨n1, by rw [← hp']; exact x1⟩
      · exact ⟨n2 e he, by rw [← hp']; exact x2 e he⟩
    exact le_antisymm (le_trans (bound c hc).2 (bound d hd).1) (le_trans (bound d hd).2 (bound c hc).1) |> fun h => h

/-- a constant sample has no spread -/
theorem ssd_const (l : List ℚ) (hl : l ≠ []) (h : ∀ a ∈ l, ∀ b ∈ l, a = b) : ssd l = 0 := by
  cases l with
  | nil => exact absurd rfl hl
  | cons c t =>
    have hrep : c :: t = List.replicate (t.length + 1) c := by
      rw [List.eq_replicate_iff]
      exact ⟨by simp, fun b hb => h b hb c (by simp)⟩
    rw [hrep]
    have hm : mean (List.replicate (t.length + 1) c) = c := by
      simp only [mean, qsum, List.sum_replicate, List.length_replicate, nsmul_eq_mul]
      have : ((t.length + 1 : ℕ) : ℚ) ≠ 0 := by positivity
      field_simp
    simp only [ssd, hm, qsum, List.map_replicate, List.sum_replicate]
    simp

theorem varOr_cast (l : List ℚ) (h : 2 ≤ l.length) :
    ∃ v, varOr realOps 1 (castL l) = some v ∧ ((l.length : ℝ) - 1) * v = ((ssd l : ℚ) : ℝ) := by
  have hne : castL l ≠ [] := by
    intro h0
    have h1 : (castL l).length = 0 := by rw [h0]; rfl
    rw [castL_length] at h1; omega
  obtain ⟨p, hp, hz⟩ := ptp_some (castL l) hne
  have hl1 : ((l.length : ℝ) - 1) ≠ 0 := by
    have : (2 : ℝ) ≤ (l.length : ℝ) := by exact_mod_cast h
    linarith
  unfold varOr
  rw [hp]
  by_cases hp0 : p = 0
  · refine ⟨0, by simp [hp0], ?_⟩
    have hall : ∀ a ∈ l, ∀ b ∈ l, a = b := by
      intro a ha b hb
      have := hz hp0 (a : ℝ) (List.mem_map.mpr ⟨a, ha, rfl⟩) (b : ℝ) (List.mem_map.mpr ⟨b, hb, rfl⟩)
      exact_mod_cast this
    rw [ssd_const l (by intro h0; rw [h0] at h; simp at h) hall]
    simp
  · have hlen : ¬ (castL l).length ≤ 1 := by simp; omega
    refine ⟨_, by simp only [ops_isZero, hp0, decide_false, Bool.false_eq_true, if_false, hlen]; rfl, ?_⟩
    simp only [devPow2_cast, castL_length, ops_div, ops_ofInt]
    have : (((l.length : ℤ) - ((1 : ℕ) : ℤ) : ℤ) : ℝ) = (l.length : ℝ) - 1 := by push_cast; ring
    rw [this]
    field_simp

theorem bool_of_iff {b : Bool} {p : Prop} [Decidable p] (h : b = true ↔ p) : decide p = b := by
  cases b <;> simp_all

theorem cast_tnum_both (d : ℚ) : ((tnum .both d : ℚ) : ℝ) = |(d : ℝ)| := by simp [tnum, qabs_eq_abs]
theorem cast_tnum_left (d : ℚ) : ((tnum .left d : ℚ) : ℝ) = -(d : ℝ) := by simp [tnum]
theorem cast_tnum_right (d : ℚ) : ((tnum .right d : ℚ) : ℝ) = (d : ℝ) := by simp [tnum]

theorem runT2_spec (x y : List ℚ) (thr : ℚ) (tail : Tail) (hx : 2 ≤ x.length) (hy : 2 ≤ y.length) :
    ∃ v, runT2 realOps refT2 (castL x) (castL y) (tailStr tail) = some v ∧ gtF realOps v (thr : ℝ) = exceeds2 x y thr tail := by
  obtain ⟨vx, hvx, ex⟩ := varOr_cast x hx
  obtain ⟨vy, hvy, ey⟩ := varOr_cast y hy
  have hco : refT2.coherent = true := by decide
  have hl : ¬ (x.length = 0 ∨ y.length = 0) := by omega
  have hden : ¬ ((x.length : ℤ) + (y.length : ℤ) - ((2 : ℕ) : ℤ) = 0) := by omega
  simp only [runT2, hco, Bool.not_true, Bool.false_eq_true, if_false, castL_length, hl,
    show refT2.vxDdof = 1 from rfl, show refT2.vyDdof = 1 from rfl, hvx, hvy, show refT2.dc = 2 from rfl, hden,
    show refT2.a1c = 1 from rfl, show refT2.a2c = 1 from rfl, show refT2.o1 = 1 from rfl, show refT2.o2 = 1 from rfl,
    show refT2.zlit = 0 from rfl, show refT2.zret = 0 from rfl, show refT2.tv1 = "both" from rfl, show refT2.tv2 = "left" from rfl,
    ops_add, ops_sub, ops_mul, ops_div, ops_ofInt, ops_lt, ops_isZero, ops_sqrt, ops_neg, ops_abs, meanK_cast]
  have q1 : (2 : ℚ) ≤ (x.length : ℚ) := by exact_mod_cast hx
  have q2 : (2 : ℚ) ≤ (y.length : ℚ) := by exact_mod_cast hy
  have hA : ((((x.length : ℤ) - ((1 : ℕ) : ℤ) : ℤ) : ℝ) * vx + (((y.length : ℤ) - ((1 : ℕ) : ℤ) : ℤ) : ℝ) * vy) /
      (((x.length : ℤ) + (y.length : ℤ) - ((2 : ℕ) : ℤ) : ℤ) : ℝ) = (((ssd x + ssd y) / ((x.length : ℚ) + (y.length : ℚ) - 2) : ℚ) : ℝ) := by
    push_cast; rw [← ex, ← ey]
  have hB : ((((1 : ℕ) : ℤ) : ℝ) / (((x.length : ℕ) : ℤ) : ℝ) + (((1 : ℕ) : ℤ) : ℝ) / (((y.length : ℕ) : ℤ) : ℝ)) =
      ((1 / (x.length : ℚ) + 1 / (y.length : ℚ) : ℚ) : ℝ) := by
    push_cast; rfl
  rw [hA, hB]
  have hA0 : (0 : ℚ) ≤ (ssd x + ssd y) / ((x.length : ℚ) + (y.length : ℚ) - 2) :=
    div_nonneg (add_nonneg (ssd_nonneg x) (ssd_nonneg y)) (by linarith)
  have hB0 : (0 : ℚ) < 1 / (x.length : ℚ) + 1 / (y.length : ℚ) := by positivity
  have hA0r : (0 : ℝ) ≤ (((ssd x + ssd y) / ((x.length : ℚ) + (y.length : ℚ) - 2) : ℚ) : ℝ) := by exact_mod_cast hA0
  have hB0r : (0 : ℝ) < ((1 / (x.length : ℚ) + 1 / (y.length : ℚ) : ℚ) : ℝ) := by exact_mod_cast hB0
  have hV : pooledV x y = (ssd x + ssd y) / ((x.length : ℚ) + (y.length : ℚ) - 2) * (1 / (x.length : ℚ) + 1 / (y.length : ℚ)) := rfl
  have hV0 : 0 ≤ pooledV x y := by rw [hV]; exact mul_nonneg hA0 hB0.le
  have hsq : Real.sqrt (((ssd x + ssd y) / ((x.length : ℚ) + (y.length : ℚ) - 2) : ℚ) : ℝ) *
      Real.sqrt ((1 / (x.length : ℚ) + 1 / (y.length : ℚ) : ℚ) : ℝ) = Real.sqrt ((pooledV x y : ℚ) : ℝ) := by
    rw [← Real.sqrt_mul hA0r, hV]; push_cast; rfl
  rw [hsq]
  simp only [Nat.cast_zero, Int.cast_zero, sub_zero]
  have hno : (decide ((((ssd x + ssd y) / ((x.length : ℚ) + (y.length : ℚ) - 2) : ℚ) : ℝ) < 0) ||
      decide (((1 / (x.length : ℚ) + 1 / (y.length : ℚ) : ℚ) : ℝ) < 0)) = false := by
    simp only [Bool.or_eq_false_iff, decide_eq_false_iff_not, not_lt]
    exact ⟨hA0r, hB0r.le⟩
  simp only [hno, Bool.false_eq_true, if_false]
  by_cases hz : pooledV x y = 0
  · refine ⟨.fin 0, by simp [hz], ?_⟩
    simp only [gtF, ops_lt, exceeds2, hz, if_true]
    congr 1
    simp
  · have hVp : 0 < pooledV x y := lt_of_le_of_ne hV0 (Ne.symm hz)
    have hs : 0 < Real.sqrt ((pooledV x y : ℚ) : ℝ) := Real.sqrt_pos.mpr (by exact_mod_cast hVp)
    have hs0 : ¬ Real.sqrt ((pooledV x y : ℚ) : ℝ) = 0 := ne_of_gt hs
    simp only [hs0, decide_false, Bool.false_eq_true, if_false]
    have key := gtSqrt_iff (tnum tail (mean x - mean y)) (pooledV x y) thr hVp
    have hex : exceeds2 x y thr tail = gtSqrt (tnum tail (mean x - mean y)) (pooledV x y) thr := by
      simp only [exceeds2, hz, if_false]
    rw [hex]
    cases tail with
    | both =>
      rw [cast_tnum_both] at key
      refine ⟨_, by rw [if_pos (show tailStr .both = "both" from rfl)], ?_⟩
      simp only [gtF, ops_lt]
      apply bool_of_iff
      rw [key, abs_div, abs_of_pos hs]; push_cast; rfl
    | left =>
      rw [cast_tnum_left] at key
      refine ⟨_, by rw [if_neg (show ¬ tailStr .left = "both" by decide), if_pos (show tailStr .left = "left" from rfl)], ?_⟩
      simp only [gtF, ops_lt]
      apply bool_of_iff
      rw [key]; push_cast; rfl
    | right =>
      rw [cast_tnum_right] at key
      refine ⟨_, by rw [if_neg (show ¬ tailStr .right = "both" by decide), if_neg (show ¬ tailStr .right = "left" by decide)], ?_⟩
      simp only [gtF, ops_lt]
      apply bool_of_iff
      rw [key]; push_cast; rfl
theorem sum_dev_sq (c : ℚ) (l : List ℚ) :
    (l.map fun a => (a - c) * (a - c)).sum = (l.map fun a => a * a).sum - 2 * c * l.sum + (l.length : ℚ) * (c * c) := by
  induction l with
  | nil => simp
  | cons a l ih => simp only [List.map_cons, List.sum_cons, List.length_cons, ih]; push_cast; ring

theorem ssd_eq_pairedSS (l : List ℚ) (h : l ≠ []) : ssd l = pairedSS l := by
  have hn : (l.length : ℚ) ≠ 0 := by
    have : l.length ≠ 0 := by intro h0; exact h (List.length_eq_zero_iff.mp h0)
    exact_mod_cast this
  simp only [ssd, pairedSS, qsum, sum_dev_sq, mean]
  field_simp
  ring

theorem zip_cast (x y : List ℚ) : List.zipWith realOps.sub (castL x) (castL y) = castL (diffs x y) := by
  induction x generalizing y with
  | nil => simp [castL, diffs]
  | cons a x ih =>
    cases y with
    | nil => simp [castL, diffs]
    | cons b y =>
      have := ih y
      simp only [castL, diffs, List.map_cons, List.zipWith_cons_cons, ops_sub] at this ⊢
      rw [this]; push_cast; rfl

theorem ss_cast (l : List ℚ) (h : l ≠ []) :
    ∃ p, ptpK realOps (castL l) = some p ∧ (if realOps.isZero p then realOps.ofInt 0 else devPowSum realOps 2 (castL l)) = ((ssd l : ℚ) : ℝ) := by
  have hne : castL l ≠ [] := by
    intro h0
    have h1 : (castL l).length = 0 := by rw [h0]; rfl
    rw [castL_length] at h1; exact h (List.length_eq_zero_iff.mp h1)
  obtain ⟨p, hp, hz⟩ := ptp_some (castL l) hne
  refine ⟨p, hp, ?_⟩
  by_cases hp0 : p = 0
  · have hall : ∀ a ∈ l, ∀ b ∈ l, a = b := by
      intro a ha b hb
      have := hz hp0 (a : ℝ) (List.mem_map.mpr ⟨a, ha, rfl⟩) (b : ℝ) (List.mem_map.mpr ⟨b, hb, rfl⟩)
      exact_mod_cast this
    simp [hp0, ssd_const l h hall]
  · simp [hp0, devPow2_cast]

theorem runPair_spec (x y : List ℚ) (thr : ℚ) (tail : Tail) (hx : 2 ≤ x.length) (hxy : x.length = y.length) :
    ∃ v, runPair realOps refPair (castL x) (castL y) (tailStr tail) = some v ∧ gtF realOps v (thr : ℝ) = exceedsP x y thr tail := by
  have hco : refPair.coherent = true := by decide
  have hl : ¬ (x.length ≠ y.length ∨ x.length = 0) := by omega
  have hdl : (diffs x y).length = x.length := by simp [diffs, List.length_zipWith, ← hxy]
  have hdne : diffs x y ≠ [] := by intro h0; rw [h0] at hdl; simp at hdl; omega
  obtain ⟨p, hp, hss⟩ := ss_cast (diffs x y) hdne
  have hden : ¬ (((diffs x y).length : ℤ) - ((1 : ℕ) : ℤ) = 0) := by omega
  simp only [runPair, hco, Bool.not_true, Bool.false_eq_true, if_false, castL_length, hl, zip_cast, hp,
    show refPair.ssPow = 2 from rfl, show refPair.stdC = 1 from rfl, show refPair.tv1 = "both" from rfl, show refPair.tv2 = "left" from rfl,
    hss, hden, meanK_cast]
  simp only [ops_div, ops_ofInt, ops_lt, ops_sqrt, Int.cast_zero]
  set D := diffs x y with hD
  have hn2 : (2 : ℚ) ≤ (D.length : ℚ) := by rw [hdl]; exact_mod_cast hx
  have hn2r : (2 : ℝ) ≤ (D.length : ℝ) := by exact_mod_cast hn2
  have hcast1 : (((D.length : ℤ) - ((1 : ℕ) : ℤ) : ℤ) : ℝ) = (D.length : ℝ) - 1 := by push_cast; ring
  have hcastn : (((D.length : ℕ) : ℤ) : ℝ) = (D.length : ℝ) := by push_cast; rfl
  rw [hcast1, hcastn]
  have hss0 : (0 : ℝ) ≤ ((ssd D : ℚ) : ℝ) := by exact_mod_cast ssd_nonneg D
  have harg0 : (0 : ℝ) ≤ ((ssd D : ℚ) : ℝ) / ((D.length : ℝ) - 1) := div_nonneg hss0 (by linarith)
  have hno : decide (((ssd D : ℚ) : ℝ) / ((D.length : ℝ) - 1) < 0) = false := by
    simp only [decide_eq_false_iff_not, not_lt]; exact harg0
  simp only [hno, Bool.false_eq_true, if_false]
  have hsn : 0 < Real.sqrt (D.length : ℝ) := Real.sqrt_pos.mpr (by linarith)
  have hPS : pairedSS D = ssd D := (ssd_eq_pairedSS D hdne).symm
  by_cases hz : pairedSS D = 0
  · -- constant differences: the float code divides by zero
    have hs0 : ssd D = 0 := by rw [← hPS]; exact hz
    have hex : exceedsP x y thr tail = decide (0 < tnum tail (mean D)) := by
      simp only [exceedsP, ← hD, hz, if_true]
    rw [hex, hs0]
    simp only [Rat.cast_zero, zero_div, Real.sqrt_zero]
    have hdiv : divNp realOps ((mean D : ℚ) : ℝ) 0 =
        if (0 : ℝ) < ((mean D : ℚ) : ℝ) then .pinf else if ((mean D : ℚ) : ℝ) < 0 then .ninf else .nan := by
      simp [divNp]
    rw [hdiv]
    rcases lt_trichotomy (mean D) 0 with hm | hm | hm
    · have hmr : ((mean D : ℚ) : ℝ) < 0 := by exact_mod_cast hm
      have hmr' : ¬ (0 : ℝ) < ((mean D : ℚ) : ℝ) := not_lt.mpr hmr.le
      simp only [hmr, hmr', if_true, if_false, mulFin, ops_lt, ops_ofInt, Int.cast_zero, hsn, decide_true]
      cases tail with
      | both => exact ⟨_, by rw [if_pos (show tailStr .both = "both" from rfl)], by simp [absF, gtF, tnum, qabs, hm]⟩
      | left => exact ⟨_, by rw [if_neg (show ¬ tailStr .left = "both" by decide), if_pos (show tailStr .left = "left" from rfl)],
                      by simp [negF, gtF, tnum, hm]⟩
      | right => exact ⟨_, by rw [if_neg (show ¬ tailStr .right = "both" by decide), if_neg (show ¬ tailStr .right = "left" by decide)],
                      by simp [gtF, tnum, not_lt.mpr hm.le]⟩
    · have hmr : ((mean D : ℚ) : ℝ) = 0 := by exact_mod_cast hm
      simp only [hmr, lt_irrefl, if_false, mulFin]
      cases tail with
      | both => exact ⟨_, by rw [if_pos (show tailStr .both = "both" from rfl)], by simp [absF, gtF, tnum, qabs, hm]⟩
      | left => exact ⟨_, by rw [if_neg (show ¬ tailStr .left = "both" by decide), if_pos (show tailStr .left = "left" from rfl)],
                      by simp [negF, gtF, tnum, hm]⟩
      | right => exact ⟨_, by rw [if_neg (show ¬ tailStr .right = "both" by decide), if_neg (show ¬ tailStr .right = "left" by decide)],
                      by simp [gtF, tnum, hm]⟩
    · have hmr : (0 : ℝ) < ((mean D : ℚ) : ℝ) := by exact_mod_cast hm
      simp only [hmr, if_true, mulFin, ops_lt, ops_ofInt, Int.cast_zero, hsn, decide_true]
      cases tail with
      | both => exact ⟨_, by rw [if_pos (show tailStr .both = "both" from rfl)], by simp [absF, gtF, tnum, qabs, hm, not_lt.mpr hm.le]⟩
      | left => exact ⟨_, by rw [if_neg (show ¬ tailStr .left = "both" by decide), if_pos (show tailStr .left = "left" from rfl)],
                      by simp [negF, gtF, tnum, hm.le]⟩
      | right => exact ⟨_, by rw [if_neg (show ¬ tailStr .right = "both" by decide), if_neg (show ¬ tailStr .right = "left" by decide)],
                      by simp [gtF, tnum, hm]⟩
  · have hsp : 0 < ssd D := lt_of_le_of_ne (ssd_nonneg D) (by rw [← hPS]; exact Ne.symm hz)
    have hspr : (0 : ℝ) < ((ssd D : ℚ) : ℝ) := by exact_mod_cast hsp
    have hargp : (0 : ℝ) < ((ssd D : ℚ) : ℝ) / ((D.length : ℝ) - 1) := div_pos hspr (by linarith)
    have hstd : 0 < Real.sqrt (((ssd D : ℚ) : ℝ) / ((D.length : ℝ) - 1)) := Real.sqrt_pos.mpr hargp
    have hstd0 : ¬ Real.sqrt (((ssd D : ℚ) : ℝ) / ((D.length : ℝ) - 1)) = 0 := ne_of_gt hstd
    simp only [divNp, ops_isZero, hstd0, decide_false, Bool.false_eq_true, if_false, mulFin, ops_mul, ops_div]
    have hV' : 0 < pairedSS D / ((D.length : ℚ) * ((D.length : ℚ) - 1)) := by
      rw [hPS]; exact div_pos hsp (mul_pos (by linarith) (by linarith))
    have key := gtSqrt_iff (tnum tail (mean D)) _ thr hV'
    have hex : exceedsP x y thr tail = gtSqrt (tnum tail (mean D)) (pairedSS D / ((D.length : ℚ) * ((D.length : ℚ) - 1))) thr := by
      simp only [exceedsP, ← hD, hz, if_false]
    have hsqrt : Real.sqrt ((pairedSS D / ((D.length : ℚ) * ((D.length : ℚ) - 1)) : ℚ) : ℝ) =
        Real.sqrt (((ssd D : ℚ) : ℝ) / ((D.length : ℝ) - 1)) / Real.sqrt (D.length : ℝ) := by
      rw [← Real.sqrt_div harg0, hPS]
      congr 1
      push_cast
      have h1 : ((D.length : ℝ) - 1) ≠ 0 := by linarith
      have h2 : (D.length : ℝ) ≠ 0 := by linarith
      field_simp
    have hval : ∀ m : ℝ, m / Real.sqrt (((ssd D : ℚ) : ℝ) / ((D.length : ℝ) - 1)) * Real.sqrt (D.length : ℝ) =
        m / Real.sqrt ((pairedSS D / ((D.length : ℚ) * ((D.length : ℚ) - 1)) : ℚ) : ℝ) := by
      intro m; rw [hsqrt]; field_simp
    rw [hex]
    cases tail with
    | both =>
      rw [cast_tnum_both] at key
      refine ⟨_, by rw [if_pos (show tailStr .both = "both" from rfl)], ?_⟩
      simp only [absF, gtF, ops_lt, ops_abs]
      apply bool_of_iff
      rw [key, ← hval, abs_mul, abs_div, abs_of_pos hstd, abs_of_pos hsn]
    | left =>
      rw [cast_tnum_left] at key
      refine ⟨_, by rw [if_neg (show ¬ tailStr .left = "both" by decide), if_pos (show tailStr .left = "left" from rfl)], ?_⟩
      simp only [negF, gtF, ops_lt, ops_neg]
      apply bool_of_iff
      rw [key, ← hval]; ring_nf
    | right =>
      rw [cast_tnum_right] at key
      refine ⟨_, by rw [if_neg (show ¬ tailStr .right = "both" by decide), if_neg (show ¬ tailStr .right = "left" by decide)], ?_⟩
      simp only [gtF, ops_lt]
      apply bool_of_iff
      rw [key, ← hval]

/-- **The t statistics of `nbs_bct`.**  For the extracted nested functions and the statements that call them: the index of a row is put into
`ind_t` exactly when `Nbs.exceeds` holds for the two samples of that row (numbers read as reals; at least two values per sample; equal
sample sizes in the paired case). -/
theorem link_tstat (s : StatIR) (t2 : T2IR) (pr : PairIR) (hs : statOk s = true) (h2 : t2Ok t2 = true) (hp : pairOk pr = true)
    (paired : Bool) (x y : List ℚ) (thr : ℚ) (tail : Tail) (hx : 2 ≤ x.length) (hy : 2 ≤ y.length)
    (hxy : paired = true → x.length = y.length) :
    runStat realOps s t2 pr paired (castL x) (castL y) (tailStr tail) (thr : ℝ) = some (exceeds paired x y thr tail) := by
  have e1 : s = refStat := by simpa [statOk] using hs
  have e2 : t2 = refT2 := by simpa [t2Ok] using h2
  have e3 : pr = refPair := by simpa [pairOk] using hp
  subst e1; subst e2; subst e3
  have hco : refStat.coherent refT2 refPair = true := by decide
  simp only [runStat, hco, Bool.not_true, Bool.false_eq_true, if_false, exceeds]
  cases paired with
  | false =>
    obtain ⟨v, hv, hg⟩ := runT2_spec x y thr tail hx hy
    simp [hv, hg]
  | true =>
    obtain ⟨v, hv, hg⟩ := runPair_spec x y thr tail hx (hxy rfl)
    simp [hv, hg]

example : t2Ok refT2 = true := by decide
example : pairOk refPair = true := by decide
example : statOk refStat = true := by decide
/-- `ddof=0` in the first variance is rejected -/
example : t2Ok { refT2 with vxDdof := 0 } = false := by decide
/-- `t_stat >= thresh` cannot be expressed; `thresh > t_stat` (names exchanged) is rejected -/
example : statOk { refStat with cL := "thresh", cR := "t_stat" } = false := by decide
/-- the two samples exchanged in the paired call are rejected -/
example : statOk { refStat with pA := "ymat", pB := "xmat" } = false := by decide

end Bct.Cores.Nbs
