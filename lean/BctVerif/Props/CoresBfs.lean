import BctVerif.Model.CoreIRBfs
import Mathlib.Tactic.Ring
import Mathlib.Data.List.Basic
import Mathlib.Data.Rat.Defs

/-!
# C03 (second tie) — link theorems for the source-extracted `breadth` and `breadthdist`
-/

namespace Bct.Cores.Bfs
open Bct Bct.Dist Bct.CoreIR.Bfs

variable {n : ℕ}

/-- a colour / a branch entry as the float the source stores -/
def cN (k : ℕ) : Ext := .fin ((k : ℕ) : ℚ)
def cZ (z : ℤ) : Ext := .fin ((z : ℤ) : ℚ)

theorem cN_inj (a b : ℕ) : cN a = cN b ↔ a = b := by simp [cN]

/-- the environment holds the model state `st` and the queue `Q` -/
structure Rel (A : AMat ℚ n) (E : Env n) (st : BSt n) (Q : List (Fin n)) : Prop where
  hc : E.vec "color" = some (st.color.map cN)
  hd : E.vec "distance" = some st.dist
  hb : E.vec "branch" = some (st.branch.map cZ)
  hw : E.sc "white" = some (cZ 0)
  hg : E.sc "gray" = some (cZ 1)
  hk : E.sc "black" = some (cZ 2)
  hm : E.mat "CIJ" = some A
  hq : E.list "Q" = some Q

theorem cZ_cN (k : ℕ) : cZ (k : ℤ) = cN k := by simp [cZ, cN]
@[simp] theorem cZ_one : cZ 1 = cN 1 := by simp [cZ, cN]
@[simp] theorem cZ_zero : cZ 0 = cN 0 := by simp [cZ, cN]
@[simp] theorem cZ_two : cZ 2 = cN 2 := by simp [cZ, cN]
theorem fin_cast_one : Ext.fin ((1 : ℤ) : ℚ) = Ext.fin 1 := by simp
theorem fin_cast_zero : Ext.fin ((0 : ℤ) : ℚ) = Ext.fin 0 := by simp

/-- `if distance[v] == 0: distance[v] = distance[u] + 1` is `Dist.quirk` -/
theorem quirk_step (A : AMat ℚ n) (E : Env n) (st : BSt n) (Q : List (Fin n)) (u v : Fin n) (h : Rel A E st Q)
    (hu : E.node "u" = some u) (hv : E.node "v" = some v) :
    ∃ E', fexec E (.ifEq (.vecAt "distance" "v") (.lit 0) [.setVec "distance" "v" dU]) = some E' ∧
      Rel A E' (quirk u st v) Q ∧ E'.node "u" = some u ∧ E'.node "v" = some v := by
  obtain ⟨hc, hd, hb, hw, hg, hk, hm, hq⟩ := h
  by_cases hq0 : st.dist[v] = .fin 0
  · refine ⟨?E1, ?a1, ?a2, ?a3, ?a4⟩
    case a1 =>
      simp [fexec, aexecs, aexec, setVecE, eval, dU, hd, hu, hv, hq0]
      rfl
    case a2 => exact ⟨by simp [quirk, hq0, hc], by simp [quirk, hq0], by simp [quirk, hq0, hb], hw, hg, hk, hm, hq⟩
    case a3 => exact hu
    case a4 => exact hv
  · refine ⟨E, ?_, ?_, hu, hv⟩
    · have : ¬ st.dist[v.val] = Ext.fin 0 := hq0
      simp [fexec, eval, hd, hv, this]
    · simp only [quirk, hq0, if_false]; exact ⟨hc, hd, hb, hw, hg, hk, hm, hq⟩

/-- the white-vertex block is `Dist.paint` plus `Q.append(v)` -/
theorem paint_step (A : AMat ℚ n) (E : Env n) (st : BSt n) (Q : List (Fin n)) (u v : Fin n) (h : Rel A E st Q)
    (hu : E.node "u" = some u) (hv : E.node "v" = some v) :
    ∃ E', fexec E (.ifEq (.vecAt "color" "v") (.var "white")
        [.setVec "color" "v" (.var "gray"), .setVec "distance" "v" dU, .setVec "branch" "v" (.node "u"), .append "Q" "v"]) = some E' ∧
      Rel A E' (if st.color[v] = 0 then paint u st v else st) (if st.color[v] = 0 then Q ++ [v] else Q) ∧ E'.node "u" = some u := by
  obtain ⟨hc, hd, hb, hw, hg, hk, hm, hq⟩ := h
  by_cases hc0 : st.color[v] = 0
  · refine ⟨?E1, ?a1, ?a2, ?a3⟩
    case a1 =>
      have : st.color[v.val] = 0 := hc0
      simp [fexec, aexecs, aexec, setVecE, eval, dU, hd, hc, hb, hw, hg, hu, hv, hq, this]
      rfl
    case a2 =>
      simp only [hc0, if_true]
      exact ⟨by simp [paint], by simp [paint], by simp [paint, cZ, cN], hw, hg, hk, hm, by simp⟩
    case a3 => exact hu
  · refine ⟨E, ?_, ?_, hu⟩
    · have : ¬ st.color[v.val] = 0 := hc0
      simp [fexec, eval, hc, hw, hv, cN, this]
    · simp only [hc0, if_false]; exact ⟨hc, hd, hb, hw, hg, hk, hm, hq⟩

theorem visit_step (A : AMat ℚ n) (E : Env n) (st : BSt n) (Q : List (Fin n)) (u v : Fin n) (h : Rel A E st Q)
    (hu : E.node "u" = some u) :
    ∃ E', fexecs
        [ .ifEq (.vecAt "distance" "v") (.lit 0) [.setVec "distance" "v" dU],
          .ifEq (.vecAt "color" "v") (.var "white")
            [.setVec "color" "v" (.var "gray"), .setVec "distance" "v" dU, .setVec "branch" "v" (.node "u"), .append "Q" "v"] ]
        { E with node := fun y => if y = "v" then some v else E.node y } = some E' ∧
      Rel A E' (visit u st v).1 (if (visit u st v).2 then Q ++ [v] else Q) ∧ E'.node "u" = some u := by
  have h0 : Rel A { E with node := fun y => if y = "v" then some v else E.node y } st Q :=
    ⟨h.hc, h.hd, h.hb, h.hw, h.hg, h.hk, h.hm, h.hq⟩
  obtain ⟨E1, e1, r1, u1, v1⟩ := quirk_step A _ st Q u v h0 (by simp [hu]) (by simp)
  obtain ⟨E2, e2, r2, u2⟩ := paint_step A E1 (quirk u st v) Q u v r1 u1 v1
  refine ⟨E2, by simp only [fexecs, e1, e2], ?_, u2⟩
  unfold visit
  by_cases hc0 : (quirk u st v).color[v] = 0
  · simp only [hc0, if_true] at r2 ⊢; exact r2
  · simp only [hc0, if_false] at r2 ⊢; simpa using r2

def forBody : List FStmt :=
  [ .ifEq (.vecAt "distance" "v") (.lit 0) [.setVec "distance" "v" dU],
    .ifEq (.vecAt "color" "v") (.var "white")
      [.setVec "color" "v" (.var "gray"), .setVec "distance" "v" dU, .setVec "branch" "v" (.node "u"), .append "Q" "v"] ]

/-- the `for v in ns` loop is the fold of `Dist.visit` in `Dist.bfsLoop` -/
theorem inner_spec (A : AMat ℚ n) (u : Fin n) (Q0 : List (Fin n)) :
    ∀ (ns : List (Fin n)) (E : Env n) (st : BSt n) (added : List (Fin n)), Rel A E st (Q0 ++ added) → E.node "u" = some u →
      ∃ E', forNodes "v" forBody ns E = some E' ∧
        Rel A E' (ns.foldl (fun (acc : BSt n × List (Fin n)) v =>
            ((visit u acc.1 v).1, if (visit u acc.1 v).2 then acc.2 ++ [v] else acc.2)) (st, added)).1
          (Q0 ++ (ns.foldl (fun (acc : BSt n × List (Fin n)) v =>
            ((visit u acc.1 v).1, if (visit u acc.1 v).2 then acc.2 ++ [v] else acc.2)) (st, added)).2) ∧
        E'.node "u" = some u := by
  intro ns
  induction ns with
  | nil => intro E st added h hu; exact ⟨E, rfl, h, hu⟩
  | cons v vs ih =>
    intro E st added h hu
    obtain ⟨E1, e1, r1, u1⟩ := visit_step A E st (Q0 ++ added) u v h hu
    have r1' : Rel A E1 (visit u st v).1 (Q0 ++ (if (visit u st v).2 then added ++ [v] else added)) := by
      cases hb : (visit u st v).2 <;> simp only [hb, if_true, Bool.false_eq_true, if_false] at r1 ⊢
      · exact r1
      · simpa [List.append_assoc] using r1
    obtain ⟨E2, e2, r2, u2⟩ := ih E1 _ _ r1' u1
    exact ⟨E2, by simp only [forNodes, forBody] at e1 e2 ⊢; simp only [e1, e2], r2, u2⟩

/-- one pass of `while Q:` is one unfolding of `Dist.bfsLoop` -/
theorem pass_spec (A : AMat ℚ n) (E : Env n) (st : BSt n) (u : Fin n) (Q : List (Fin n)) (h : Rel A E st (u :: Q)) :
    let ns := (List.finRange n).filter fun v => A.get u v ≠ 0
    let r := ns.foldl (fun (acc : BSt n × List (Fin n)) v =>
      ((visit u acc.1 v).1, if (visit u acc.1 v).2 then acc.2 ++ [v] else acc.2)) (st, [])
    ∃ E', wexecs refBfs.body E = some E' ∧ Rel A E' (blackenSt r.1 u) (Q ++ r.2) := by
  intro ns r
  have hm := h.hm
  have hq := h.hq
  -- u = Q[0]; ns, = np.where(CIJ[u, :])
  let E1 : Env n := { E with node := fun y => if y = "u" then some u else E.node y,
                             list := fun y => if y = "ns" then some ns else E.list y }
  have r1 : Rel A E1 st ((u :: Q) ++ []) := by
    refine ⟨h.hc, h.hd, h.hb, h.hw, h.hg, h.hk, h.hm, ?_⟩
    show (if "Q" = "ns" then some ns else E.list "Q") = _
    simp [hq]
  obtain ⟨E2, e2, r2, u2⟩ := inner_spec A u (u :: Q) ns E1 st [] r1 (by simp [E1])
  have hns : E1.list "ns" = some ns := by simp [E1]
  obtain ⟨hc2, hd2, hb2, hw2, hg2, hk2, hm2, hq2⟩ := r2
  refine ⟨?E', ?a1, ?a2⟩
  case a1 =>
    have e2' : forNodes "v" forBody ns E1 = some E2 := e2
    simp only [refBfs, wexecs, wexec, hq, hm]
    simp only [show ("u" = "u") = True by simp, if_true, Option.some.injEq]
    show (match (match E1.list "ns" with
      | some l => if (forBody.any fun s => match s with | .ifEq _ _ b => b.any fun a => match a with | .append q _ => q == "ns" | _ => false)
          then none else forNodes "v" forBody l E1
      | none => none) with | some E' => _ | none => none) = _
    rw [hns]
    simp only [show (forBody.any fun s => match s with | .ifEq _ _ b => b.any fun a => match a with | .append q _ => q == "ns" | _ => false) = false
      by decide, Bool.false_eq_true, if_false, e2']
    simp [wexecs, wexec, setVecE, eval, hq2, hc2, hk2, u2]
    rfl
  case a2 =>
    refine ⟨?_, ?_, ?_, ?_, ?_, ?_, ?_, ?_⟩
    · simp [blackenSt]; rfl
    · simp [hd2, blackenSt]; rfl
    · simp [hb2, blackenSt]; rfl
    · simp [hw2]
    · simp [hg2]
    · simp [hk2]
    · simp [hm2]
    · simp; rfl

theorem loop_spec (A : AMat ℚ n) : ∀ (fuel : ℕ) (E : Env n) (st : BSt n) (Q : List (Fin n)), Rel A E st Q →
    match bfsLoop A fuel st Q with
    | none => whileList "Q" refBfs.body fuel E = none
    | some st' => ∃ E', whileList "Q" refBfs.body fuel E = some E' ∧ ∃ Q', Rel A E' st' Q' := by
  intro fuel
  induction fuel with
  | zero =>
    intro E st Q h
    cases Q with
    | nil => simp only [bfsLoop]; exact ⟨E, by simp [whileList, h.hq], [], h⟩
    | cons u Q => simp [bfsLoop, whileList, h.hq]
  | succ f ih =>
    intro E st Q h
    cases Q with
    | nil => simp only [bfsLoop]; exact ⟨E, by simp [whileList, h.hq], [], h⟩
    | cons u Q =>
      obtain ⟨E1, e1, r1⟩ := pass_spec A E st u Q h
      simp only [bfsLoop]
      have := ih E1 _ _ r1
      have hw : whileList "Q" refBfs.body (f + 1) E = whileList "Q" refBfs.body f E1 := by
        rw [whileList]; simp only [h.hq, e1]
      rw [hw]; exact this

theorem pre_spec (A : AMat ℚ n) (src : Fin n) :
    ∃ E1, pexecs refBfs.pre
        ({ sc := fun _ => none, node := fun y => if y = "source" then some src else none, vec := fun _ => none,
           list := fun _ => none, mat := fun y => if y = "CIJ" then some A else none, dims := fun _ => false } : Env n) = some E1 ∧
      Rel A E1 (bInit src) [src] := by
  refine ⟨?E1, ?a1, ?a2⟩
  case a1 =>
    simp [refBfs, pexecs, pexec, setVecE, eval]
    rfl
  case a2 =>
    refine ⟨?_, ?_, ?_, by simp [cZ], by simp [cZ], by simp [cZ], by simp, by simp⟩
    · simp only [show ("color" = "branch") = False by decide, show ("color" = "distance") = False by decide, if_false, if_true,
        Option.some.injEq]
      apply Vector.ext; intro i hi
      simp [bInit, cN, Vector.getElem_set]
      by_cases h : src.val = i
      · have : (⟨i, hi⟩ : Fin n) = src := Fin.ext h.symm
        simp [h, this]
      · have : ¬ (⟨i, hi⟩ : Fin n) = src := fun e => h (by rw [← e])
        simp [h, this]
    · simp only [show ("distance" = "branch") = False by decide, if_false, if_true, Option.some.injEq]
      apply Vector.ext; intro i hi
      simp [bInit, Vector.getElem_set]
      by_cases h : src.val = i
      · have : (⟨i, hi⟩ : Fin n) = src := Fin.ext h.symm
        simp [h, this]
      · have : ¬ (⟨i, hi⟩ : Fin n) = src := fun e => h (by rw [← e])
        simp [h, this]
    · simp only [if_true, Option.some.injEq]
      apply Vector.ext; intro i hi
      simp [bInit, cZ, Vector.getElem_set]
      by_cases h : src.val = i
      · have : (⟨i, hi⟩ : Fin n) = src := Fin.ext h.symm
        simp [h, this]
      · have : ¬ (⟨i, hi⟩ : Fin n) = src := fun e => h (by rw [← e])
        simp [h, this]

/-- **Link, `breadth`.**  If the generated obligation holds, the extracted routine, on any weight matrix and source and with any
fuel for `while Q:`, returns exactly the `distance` and `branch` vectors of `Dist.bfsLoop` (with the model's fuel `n + 1`: of
`Dist.breadth`), and runs out of fuel exactly when the model does. -/
theorem link_breadth (ir : BfsIR) (hok : bfsOk ir = true) (fuel : ℕ) (A : AMat ℚ n) (src : Fin n) :
    runBfs ir fuel A src = (bfsLoop A fuel (bInit src) [src]).map fun st => [st.dist, st.branch.map cZ] := by
  have hir : ir = refBfs := by simpa [bfsOk] using hok
  subst hir
  obtain ⟨E1, e1, r1⟩ := pre_spec A src
  have hl := loop_spec A fuel E1 _ _ r1
  have e1' : pexecs refBfs.pre
      ({ sc := fun _ => none, node := fun y => if y = "source" then some src else none, vec := fun _ => none,
         list := fun _ => none, mat := fun y => if y = "CIJ" then some A else none, dims := fun _ => false } : Env n) = some E1 := e1
  simp only [runBfs, show refBfs.params = ["CIJ", "source"] from rfl, e1', show refBfs.loopList = "Q" from rfl]
  cases hb : bfsLoop A fuel (bInit src) [src] with
  | none => rw [hb] at hl; simp only [hl, Option.map_none]
  | some st' =>
    rw [hb] at hl
    obtain ⟨E2, e2, Q', r2⟩ := hl
    simp only [e2, show refBfs.ret = ["distance", "branch"] from rfl]
    simp [r2.hd, r2.hb]

theorem link_breadth_model (ir : BfsIR) (hok : bfsOk ir = true) (A : AMat ℚ n) (src : Fin n) :
    runBfs ir (n + 1) A src = (breadth A src).map fun st => [st.dist, st.branch.map cZ] :=
  link_breadth ir hok (n + 1) A src

example : bfsOk refBfs = true := by decide
/-- a queue that drops two elements per pass is another program: rejected (here: `Q = Q[1:]` missing) -/
example : bfsOk { refBfs with body := refBfs.body.eraseIdx 3 } = false := by decide

/-! ### `breadthdist` -/

theorem get_eq {α : Type} (o : Option α) (h : o.isSome = true) (a : α) (e : o = some a) : o.get h = a := by
  subst e; rfl

/-- **Link, `breadthdist`.**  With any callee whose first result is the `distance` vector of the model's `breadth` (which is what
`link_breadth_model` gives for the extracted `breadth`, the definition the name resolves to), the extracted row loop,
`D[D == 0] = np.inf` and `R = (D != np.inf)` return exactly `Dist.breadthdist A`. -/
theorem link_breadthdist (ir : BdistIR) (hok : bdistOk ir = true) (A : AMat ℚ n) (bf : Fin n → Option (Vector Ext n))
    (hbf : ∀ i, bf i = (breadth A i).map fun st => st.dist) : runBdist ir bf = breadthdist A := by
  have hir : ir = refBdist := by simpa [bdistOk] using hok
  subst hir
  simp only [runBdist, refBdist, and_self, ne_eq, show ("R" = "D") = False by decide, not_false_eq_true, if_true, breadthdist, allRows]
  by_cases hall : ∀ i : Fin n, (breadth A i).isSome = true
  · have hall' : ∀ i : Fin n, (bf i).isSome = true := by intro i; rw [hbf i]; simp [hall i]
    simp only [hall, hall', implies_true, dite_true, Option.map_some, Option.some.injEq]
    have hrow : ∀ i j : Fin n, AMat.get (Vector.ofFn fun i => (bf i).get (hall' i) : AMat Ext n) i j = ((breadth A i).get (hall i)).dist[j] := by
      intro i j
      obtain ⟨st, hs⟩ := Option.isSome_iff_exists.mp (hall i)
      have hb : bf i = some st.dist := by rw [hbf i, hs]; rfl
      have g1 := get_eq (bf i) (hall' i) _ hb
      have g2 := get_eq (breadth A i) (hall i) _ hs
      simp only [AMat.get, Fin.getElem_fin, Vector.getElem_ofFn, Fin.eta]
      have : (bf i).get (hall' i) = ((breadth A i).get (hall i)).dist := g1.trans (by rw [g2])
      exact congrArg (fun v : Vector Ext n => v[j]) this
    apply Prod.ext
    · apply AMat.ext_get; intro i j
      simp only [AMat.get_ofFn, hrow, Fin.getElem_fin, Vector.getElem_ofFn, Int.cast_zero]
      by_cases h0 : ((breadth A i).get (hall i)).dist[j.val] = Ext.fin 0
      · simp [h0, Ext.isFin]
      · simp only [h0, if_false]
        cases hd : ((breadth A i).get (hall i)).dist[j.val] <;> simp [Ext.isFin]
    · apply AMat.ext_get; intro i j
      simp only [AMat.get_ofFn, hrow, Fin.getElem_fin, Vector.getElem_ofFn, Int.cast_zero]
  · have hall' : ¬ ∀ i : Fin n, (bf i).isSome = true := by
      intro h; apply hall; intro i; have := h i; rw [hbf i] at this; simpa using this
    simp only [hall, hall', dite_false, Option.map_none]

example : bdistOk refBdist = true := by decide

end Bct.Cores.Bfs
