import BctVerif.Model.CoreIRBwei
import Mathlib.Tactic.Ring
import Mathlib.Tactic.Push
import Mathlib.Data.List.Basic
import Mathlib.Data.Rat.Defs
import Mathlib.Algebra.Order.Field.Rat

/-!
# C08 (second tie) — link theorems for the source-extracted `betweenness_wei` and `edge_betweenness_wei`
-/

namespace Bct.Cores.Bwei
open Bct Bct.Between Bct.CoreIR.Bwei

variable {n : ℕ}

/-! ## how the interpreter sees the model's state -/

/-- an extended natural as a float -/
def eF : Option ℕ → F
  | some k => .fin (k : ℚ)
  | none => .inf

def embM (A : AMat ℕ n) : AMat F n := AMat.ofFn fun i j => F.fin (A.get i j : ℚ)
def embD (D : Vector (Option ℕ) n) : Vector F n := Vector.ofFn fun i => eF D[i]
def embNP (v : Vector ℕ n) : Vector F n := Vector.ofFn fun i => F.fin (v[i] : ℚ)
def embR (v : Vector ℚ n) : Vector F n := Vector.ofFn fun i => F.fin v[i]
def embRM (A : AMat ℚ n) : AMat F n := AMat.ofFn fun i j => F.fin (A.get i j)
def embP (P : AMat Bool n) : AMat F n := AMat.ofFn fun i j => if P.get i j then F.fin 1 else F.fin 0
def embQ (Q : Vector ℕ n) : Vector ℤ n := Q.map fun (k : ℕ) => (k : ℤ)

@[simp] theorem embM_get (A : AMat ℕ n) (i j : Fin n) : (embM A).get i j = F.fin (A.get i j : ℚ) := by simp [embM]
@[simp] theorem embRM_get (A : AMat ℚ n) (i j : Fin n) : (embRM A).get i j = F.fin (A.get i j) := by simp [embRM]
@[simp] theorem embP_get (P : AMat Bool n) (i j : Fin n) : (embP P).get i j = if P.get i j then F.fin 1 else F.fin 0 := by simp [embP]
@[simp] theorem embD_get (D : Vector (Option ℕ) n) (i : ℕ) (h : i < n) : (embD D)[i] = eF D[i] := by simp [embD]
@[simp] theorem embNP_get (v : Vector ℕ n) (i : ℕ) (h : i < n) : (embNP v)[i] = F.fin (v[i] : ℚ) := by simp [embNP]
@[simp] theorem embR_get (v : Vector ℚ n) (i : ℕ) (h : i < n) : (embR v)[i] = F.fin v[i] := by simp [embR]
@[simp] theorem embQ_get (v : Vector ℕ n) (i : ℕ) (h : i < n) : (embQ v)[i] = (v[i] : ℤ) := by simp [embQ]

theorem embD_set (D : Vector (Option ℕ) n) (w : Fin n) (x : Option ℕ) : embD (D.set w x) = (embD D).set w (eF x) := by
  apply Vector.ext; intro i hi
  by_cases h : (w : ℕ) = i <;> simp [embD, Vector.getElem_set, h]

theorem embNP_set (v : Vector ℕ n) (w : Fin n) (x : ℕ) : embNP (v.set w x) = (embNP v).set w (F.fin (x : ℚ)) := by
  apply Vector.ext; intro i hi
  by_cases h : (w : ℕ) = i <;> simp [embNP, Vector.getElem_set, h]

theorem embR_set (v : Vector ℚ n) (w : Fin n) (x : ℚ) : embR (v.set w x) = (embR v).set w (F.fin x) := by
  apply Vector.ext; intro i hi
  by_cases h : (w : ℕ) = i <;> simp [embR, Vector.getElem_set, h]

theorem embRM_set (A : AMat ℚ n) (v w : Fin n) (x : ℚ) : embRM (A.set v w x) = (embRM A).set v w (F.fin x) := by
  apply AMat.ext_get; intro i j
  simp only [embRM_get, AMat.get_set]
  split <;> rfl

theorem embP_set (P : AMat Bool n) (w v : Fin n) : embP (P.set w v true) = (embP P).set w v (F.fin 1) := by
  apply AMat.ext_get; intro i j
  simp only [embP_get, AMat.get_set]
  split <;> simp [*]

theorem embQ_set (Q : Vector ℕ n) (k : ℕ) (x : ℕ) (h : k < n) : embQ (Q.set k x h) = (embQ Q).set k (x : ℤ) h := by
  apply Vector.ext; intro i hi
  by_cases h' : k = i <;> simp [embQ, h']

theorem idx_fin (v : Fin n) : idx (n := n) (.int (v.val : ℤ)) = some v := by
  have h : 0 ≤ ((v.val : ℕ) : ℤ) ∧ ((v.val : ℕ) : ℤ).toNat < n := ⟨by omega, by simp⟩
  simp only [idx, h, and_self, dite_true, Option.some.injEq]
  apply Fin.ext; simp

theorem lt_eF (a b : Option ℕ) : F.lt (eF a) (eF b) = olt a b := by
  cases a <;> cases b <;> simp [eF, F.lt, olt]

theorem eF_inj (a b : Option ℕ) : (eF a == eF b) = (a == b) := by
  cases a <;> cases b <;> simp [eF]

theorem eF_isInf (a : Option ℕ) : (eF a).isInf = a.isNone := by cases a <;> rfl

/-! ## the forward pass -/

/-- the environment holds the per-source state of `Between.weiLoop` -/
def Fwd (E : Env n) (st : SrcSt n) : Prop :=
  E.vec "D" = some (embD st.D) ∧ E.vec "NP" = some (embNP st.NP) ∧ E.mat "P" = some (embP st.P) ∧
  E.ivec "Q" = some (embQ st.Q) ∧ E.sc "q" = some (.int ((st.q : ℤ) - 1)) ∧ E.mat "G1" = some (embM st.G1) ∧
  E.bvec "S" = some st.S ∧ st.q ≤ n

/-- what the forward pass and the back-propagation leave alone -/
def Frame (E E' : Env n) : Prop :=
  E'.vec "BC" = E.vec "BC" ∧ E'.mat "EBC" = E.mat "EBC" ∧ E'.mat "G" = E.mat "G" ∧ E'.sc "n" = E.sc "n"

theorem Frame.refl (E : Env n) : Frame E E := ⟨rfl, rfl, rfl, rfl⟩
theorem Frame.trans {E1 E2 E3 : Env n} (h1 : Frame E1 E2) (h2 : Frame E2 E3) : Frame E1 E3 :=
  ⟨h2.1.trans h1.1, h2.2.1.trans h1.2.1, h2.2.2.1.trans h1.2.2.1, h2.2.2.2.trans h1.2.2.2⟩

/-- the tentative distance of `relaxW` -/
def duwOf (st : SrcSt n) (v w : Fin n) : Option ℕ :=
  match st.D[v] with
  | some dv => some (dv + st.G1.get v w)
  | none => none

theorem relaxW_eq (v : Fin n) (st : SrcSt n) (w : Fin n) :
    relaxW v st w = if olt (duwOf st v w) st.D[w] then
        { st with D := st.D.set w (duwOf st v w), NP := st.NP.set w st.NP[v],
                  P := AMat.ofFn fun i j => if i = w then decide (j = v) else st.P.get i j }
      else if duwOf st v w == st.D[w] then
        { st with NP := st.NP.set w (st.NP[w] + st.NP[v]), P := st.P.set w v true }
      else st := rfl

theorem duw_eF (st : SrcSt n) (v w : Fin n) : (eF st.D[(v : ℕ)]).add (F.fin (st.G1.get v w : ℚ)) = eF (duwOf st v w) := by
  simp only [duwOf, Fin.getElem_fin]
  cases st.D[(v : ℕ)] <;> simp [eF, F.add]

theorem embP_row (P : AMat Bool n) (w v : Fin n) :
    (AMat.ofFn fun r c => if r = w then F.fin ((0 : ℤ) : ℚ) else (embP P).get r c : AMat F n).set w v (F.fin 1)
      = embP (AMat.ofFn fun i j => if i = w then decide (j = v) else P.get i j) := by
  apply AMat.ext_get; intro i j
  simp only [AMat.get_set, AMat.get_ofFn, embP_get]
  by_cases hi : i = w
  · by_cases hj : j = v <;> simp [hi, hj]
  · simp [hi]

/-- body of `for w in W:` is `relaxW` -/
theorem relax_spec (E : Env n) (st : SrcSt n) (v w : Fin n) (h : Fwd E st)
    (hv : E.sc "v" = some (.int v.val)) (hw : E.sc "w" = some (.int w.val)) :
    ∃ E', runW refNode E = some E' ∧ Fwd E' (relaxW v st w) ∧ (∀ y, y ≠ "Duw" → E'.sc y = E.sc y) ∧ E'.lst = E.lst ∧ Frame E E' := by
  obtain ⟨hD, hNP, hP, hQ, hq, hG1, hS, hqn⟩ := h
  rw [relaxW_eq]
  have hpre : execs refNode.relaxPre E = some ({ E with sc := fun y => if y = "Duw" then some (.flt (eF (duwOf st v w))) else E.sc y } : Env n) := by
    simp [refNode, execs, exec, eval, hv, hw, idx_fin, hD, hG1, SV.add, SV.toF, duw_eF]
  have hc1 : evalCond ({ E with sc := fun y => if y = "Duw" then some (.flt (eF (duwOf st v w))) else E.sc y } : Env n) refNode.c1
      = some (olt (duwOf st v w) st.D[(w : ℕ)]) := by
    simp [refNode, evalCond, eval, hw, idx_fin, hD, SV.toF, lt_eF]
  have hc2 : evalCond ({ E with sc := fun y => if y = "Duw" then some (.flt (eF (duwOf st v w))) else E.sc y } : Env n) refNode.c2
      = some (duwOf st v w == st.D[(w : ℕ)]) := by
    simp [refNode, evalCond, eval, hw, idx_fin, hD, SV.toF, eF_inj]
  simp only [runW, hpre, hc1, hc2, Fin.getElem_fin]
  by_cases h1 : olt (duwOf st v w) st.D[(w : ℕ)] = true
  · simp only [h1, if_true]
    refine ⟨?E1, ?h1, ?h2⟩
    case h1 =>
      simp [refNode, execs, exec, eval, evalIdx, hv, hw, idx_fin, hD, hNP, hP, SV.toF]
      rfl
    case h2 =>
      refine ⟨⟨?_, ?_, ?_, by simp [hQ], by simp [hq], by simp [hG1], by simp [hS], hqn⟩, by intro y hy; simp [hy], rfl,
        ⟨rfl, by simp, by simp, by simp⟩⟩
      · simp [embD_set]
      · simp [embNP_set]
      · have := embP_row st.P w v
        simpa using this
  · have h1' : olt (duwOf st v w) st.D[(w : ℕ)] = false := by simpa using h1
    simp only [h1', Bool.false_eq_true, if_false]
    by_cases h2 : (duwOf st v w == st.D[(w : ℕ)]) = true
    · simp only [h2, if_true]
      refine ⟨?E2, ?h3, ?h4⟩
      case h3 =>
        simp [refNode, execs, exec, eval, evalIdx, hv, hw, idx_fin, hNP, hP, SV.toF]
        rfl
      case h4 =>
        refine ⟨⟨by simp [hD], ?_, ?_, by simp [hQ], by simp [hq], by simp [hG1], by simp [hS], hqn⟩, by intro y hy; simp [hy], rfl,
          ⟨rfl, by simp, by simp, by simp⟩⟩
        · simp [embNP_set, F.add]
        · simp [embP_set]
    · have h2' : (duwOf st v w == st.D[(w : ℕ)]) = false := by simpa using h2
      simp only [h2', Bool.false_eq_true, if_false]
      exact ⟨_, rfl, ⟨hD, hNP, hP, hQ, by simp [hq], hG1, hS, hqn⟩, by intro y hy; simp [hy], rfl, ⟨rfl, rfl, rfl, by simp⟩⟩

theorem Fwd.setSc {E : Env n} {st : SrcSt n} (h : Fwd E st) (x : String) (hx : x ≠ "q") (s : SV) :
    Fwd ({ E with sc := fun y => if y = x then some s else E.sc y } : Env n) st := by
  obtain ⟨hD, hNP, hP, hQ, hq, hG1, hS, hqn⟩ := h
  exact ⟨hD, hNP, hP, hQ, by simp [hq, Ne.symm hx], hG1, hS, hqn⟩

theorem Frame.setSc (E : Env n) (x : String) (hx : x ≠ "n") (s : SV) :
    Frame E ({ E with sc := fun y => if y = x then some s else E.sc y } : Env n) :=
  ⟨rfl, rfl, rfl, by simp [Ne.symm hx]⟩

/-- `for w in W:` is the fold of `relaxW` -/
theorem forW_spec (v : Fin n) : ∀ (W : List (Fin n)) (E : Env n) (st : SrcSt n), Fwd E st → E.sc "v" = some (.int v.val) →
    ∃ E', forList "w" (runW refNode) W E = some E' ∧ Fwd E' (W.foldl (relaxW v) st) ∧
      (∀ y, y ≠ "w" → y ≠ "Duw" → E'.sc y = E.sc y) ∧ E'.lst = E.lst ∧ Frame E E' := by
  intro W
  induction W with
  | nil => intro E st h _; exact ⟨E, rfl, h, fun _ _ _ => rfl, rfl, Frame.refl E⟩
  | cons w ws ih =>
    intro E st h hv
    obtain ⟨E1, e1, s1, f1, l1, fr1⟩ := relax_spec _ st v w (h.setSc "w" (by decide) (.int w.val)) (by simpa using hv) (by simp)
    obtain ⟨E2, e2, s2, f2, l2, fr2⟩ := ih E1 _ s1 (by rw [f1 "v" (by decide)]; simpa using hv)
    refine ⟨E2, by simp only [forList, e1, e2], s2, ?_, by rw [l2, l1], ((Frame.setSc E "w" (by decide) _).trans fr1).trans fr2⟩
    intro y hy hd
    rw [f2 y hy hd, f1 y hd]; simp [hy]

theorem idx_q (q : ℕ) : idx (n := n) (.int ((q : ℤ) - 1)) = if h : 0 < q ∧ q - 1 < n then some ⟨q - 1, h.2⟩ else none := by
  unfold idx
  by_cases h : 0 < q ∧ q - 1 < n
  · have h' : 0 ≤ (q : ℤ) - 1 ∧ ((q : ℤ) - 1).toNat < n := by omega
    simp only [h, h', and_self, dite_true, Option.some.injEq]
    apply Fin.ext; simp only []; omega
  · have h' : ¬ (0 ≤ (q : ℤ) - 1 ∧ ((q : ℤ) - 1).toNat < n) := by omega
    simp only [h, h', dite_false]

theorem fin_bne (a : ℕ) : (F.fin (a : ℚ) != F.fin 0) = (a != 0) := by
  by_cases h : a = 0 <;> simp [h, bne]

/-- `Q[q] = v; q -= 1; W, = np.where(G1[v, :])` is `push` and `nbrs` -/
theorem visit_spec (E : Env n) (st : SrcSt n) (v : Fin n) (h : Fwd E st) (hv : E.sc "v" = some (.int v.val)) :
    match push st v with
    | .error _ => execs refNode.visit E = none
    | .ok st1 => ∃ E1, execs refNode.visit E = some E1 ∧ Fwd E1 st1 ∧ E1.lst "W" = some (nbrs st1.G1 v) ∧
        (∀ y, y ≠ "q" → E1.sc y = E.sc y) ∧ (∀ y, y ≠ "W" → E1.lst y = E.lst y) ∧ Frame E E1 := by
  obtain ⟨hD, hNP, hP, hQ, hq, hG1, hS, hqn⟩ := h
  unfold push
  by_cases hp : 0 < st.q ∧ st.q - 1 < n
  · simp only [hp, and_self, dite_true]
    refine ⟨?E1, ?h1, ?h2⟩
    case h1 =>
      simp [refNode, execs, exec, evalIdx, eval, hq, hv, hQ, hG1, idx_q, hp, idx_fin, SV.sub]
      rfl
    case h2 =>
      refine ⟨⟨by simp [hD], by simp [hNP], by simp [hP], ?_, ?_, by simp [hG1], by simp [hS], by simp only []; omega⟩, ?_,
        by intro y hy; simp [hy], by intro y hy; simp [hy], ⟨rfl, rfl, rfl, by simp⟩⟩
      · simp [embQ_set]
      · simp only [if_true, Option.some.injEq, SV.int.injEq]; omega
      · simp [nbrs, fin_bne]
  · simp only [hp, dite_false]
    simp [refNode, execs, exec, evalIdx, eval, hq, hv, hQ, idx_q, hp]

/-- body of `for v in V:` -/
theorem runV_spec (E : Env n) (st : SrcSt n) (v : Fin n) (h : Fwd E st) (hv : E.sc "v" = some (.int v.val)) :
    match push st v with
    | .error _ => runV refNode E = none
    | .ok st1 => ∃ E', runV refNode E = some E' ∧ Fwd E' ((nbrs st1.G1 v).foldl (relaxW v) st1) ∧
        (∀ y, y ≠ "W" → E'.lst y = E.lst y) ∧ Frame E E' := by
  have hvis := visit_spec E st v h hv
  cases hp : push st v with
  | error e => rw [hp] at hvis; simp only [runV, hvis]
  | ok st1 =>
    rw [hp] at hvis
    obtain ⟨E1, e1, s1, hW, f1, l1, fr1⟩ := hvis
    obtain ⟨E2, e2, s2, f2, l2, fr2⟩ := forW_spec v (nbrs st1.G1 v) E1 st1 s1 (by rw [f1 "v" (by decide)]; exact hv)
    refine ⟨E2, ?_, s2, ?_, fr1.trans fr2⟩
    · simp only [runV, e1, show refNode.wIter = "W" from rfl, hW, show refNode.wVar = "w" from rfl, e2]
    · intro y hy; rw [l2, l1 y hy]

/-- `for v in V:` is `settle true` -/
theorem settle_spec : ∀ (V : List (Fin n)) (E : Env n) (st : SrcSt n), Fwd E st →
    match settle true V st with
    | .error _ => forList "v" (runV refNode) V E = none
    | .ok st' => ∃ E', forList "v" (runV refNode) V E = some E' ∧ Fwd E' st' ∧ (∀ y, y ≠ "W" → E'.lst y = E.lst y) ∧ Frame E E' := by
  intro V
  induction V with
  | nil => intro E st h; exact ⟨E, rfl, h, fun _ _ => rfl, Frame.refl E⟩
  | cons v vs ih =>
    intro E st h
    have hv := runV_spec _ st v (h.setSc "v" (by decide) (.int v.val)) (by simp)
    simp only [settle, forList]
    cases hp : push st v with
    | error e => rw [hp] at hv; simp only [hv]
    | ok st1 =>
      rw [hp] at hv
      obtain ⟨E1, e1, s1, l1, fr1⟩ := hv
      simp only [e1, if_true]
      have hi := ih E1 _ s1
      cases hs : settle true vs (List.foldl (relaxW v) st1 (nbrs st1.G1 v)) with
      | error e => rw [hs] at hi; exact hi
      | ok st' =>
        rw [hs] at hi
        obtain ⟨E2, e2, s2, l2, fr2⟩ := hi
        refine ⟨E2, e2, s2, ?_, ((Frame.setSc E "v" (by decide) _).trans fr1).trans fr2⟩
        intro y hy; rw [l2 y hy, l1 y hy]

/-! ## the end of a round: `weiNext` -/

theorem omin_assoc (a b c : Option ℕ) : omin (omin a b) c = omin a (omin b c) := by
  cases a <;> cases b <;> cases c <;> simp [omin, Nat.min_assoc]

theorem min_eF (a b : Option ℕ) : F.min (eF a) (eF b) = eF (omin a b) := by
  cases a with
  | none => cases b <;> simp [F.min, F.lt, eF, omin]
  | some x =>
    cases b with
    | none => simp [F.min, F.lt, eF, omin]
    | some y =>
      simp only [F.min, F.lt, eF, omin, Nat.cast_lt, decide_eq_true_eq]
      by_cases hxy : y < x
      · simp [hxy, Nat.min_eq_right (Nat.le_of_lt hxy)]
      · simp [hxy, Nat.min_eq_left (Nat.le_of_not_lt hxy)]

theorem foldl_min (xs : List (Option ℕ)) (x : Option ℕ) : (xs.map eF).foldl F.min (eF x) = eF (omin x (ominL xs)) := by
  induction xs generalizing x with
  | nil => cases x <;> simp [ominL, omin]
  | cons y ys ih =>
    simp only [List.map_cons, List.foldl_cons, min_eF, ih, ominL, omin_assoc]

theorem minL_spec (x : Option ℕ) (xs : List (Option ℕ)) : minL ((x :: xs).map eF) = some (eF (ominL (x :: xs))) := by
  simp only [List.map_cons, minL, foldl_min, ominL]

theorem sel_spec (D : Vector (Option ℕ) n) (S : Vector Bool n) :
    sel (embD D) S = (((List.finRange n).filter fun i => S[i]).map fun i => D[i]).map eF := by
  simp [sel, List.map_map, Function.comp_def]

/-- `S[V] = 0; G1[:, V] = 0` -/
theorem head_spec (E : Env n) (st : SrcSt n) (V : List (Fin n)) (h : Fwd E st) (hV : E.lst "V" = some V) :
    ∃ E1, execs refNode.head E = some E1 ∧
      Fwd E1 { st with S := Vector.ofFn fun i => st.S[i] && !V.contains i, G1 := clearCols st.G1 V } ∧ E1.lst = E.lst ∧ E1.sc = E.sc ∧
      Frame E E1 := by
  obtain ⟨hD, hNP, hP, hQ, hq, hG1, hS, hqn⟩ := h
  refine ⟨?E1, ?h1, ?h2⟩
  case h1 =>
    simp [refNode, execs, exec, hG1, hS, hV]
    rfl
  case h2 =>
    refine ⟨⟨hD, hNP, by simp [hP], hQ, hq, ?_, ?_, hqn⟩, rfl, rfl, ⟨rfl, by simp, by simp, rfl⟩⟩
    · simp only [if_true, Option.some.injEq]
      apply AMat.ext_get; intro i j
      simp only [AMat.get_ofFn, embM_get, clearCols]
      by_cases hm : j ∈ V <;> simp [hm]
    · simp only [if_true, Option.some.injEq]
      apply Vector.ext; intro i hi
      simp only [Vector.getElem_ofFn]
      by_cases hm : (⟨i, hi⟩ : Fin n) ∈ V <;> simp [hm]

theorem fillInf_eq (D : Vector (Option ℕ) n) :
    ((List.finRange n).filter fun i => (embD D)[i].isInf) = (List.finRange n).filter fun i => D[i].isNone := by
  apply List.filter_congr; intro i _
  simp only [Fin.getElem_fin, embD_get, eF_isInf]

theorem batch_eq (D : Vector (Option ℕ) n) (m : ℕ) :
    ((List.finRange n).filter fun i => (embD D)[i] == eF (some m)) = (List.finRange n).filter fun i => D[i] == some m := by
  apply List.filter_congr; intro i _
  simp only [Fin.getElem_fin, embD_get, eF_inj]

/-- the three ways a round ends -/
theorem tail_spec (E : Env n) (st : SrcSt n) (h : Fwd E st) :
    match weiNext st with
    | .done => evalCond E refNode.exit1 = some true
    | .fill idx => evalCond E refNode.exit1 = some false ∧ evalCond E refNode.exit2 = some true ∧
        (match fillFront st idx with
          | .error _ => execs refNode.fill E = none
          | .ok st' => ∃ E', execs refNode.fill E = some E' ∧ Fwd E' st' ∧ Frame E E')
    | .batch V' => evalCond E refNode.exit1 = some false ∧ evalCond E refNode.exit2 = some false ∧
        ∃ E', execs refNode.next E = some E' ∧ Fwd E' st ∧ E'.lst "V" = some V' ∧ Frame E E' := by
  obtain ⟨hD, hNP, hP, hQ, hq, hG1, hS, hqn⟩ := h
  unfold weiNext
  have hex1 : evalCond E refNode.exit1 = some (((List.finRange n).filter fun i => st.S[i]).isEmpty) := by
    simp [refNode, evalCond, hD, hS, sel_spec]
  cases hu : (List.finRange n).filter fun i => st.S[i] with
  | nil => simp only [List.isEmpty_nil, if_true]; rw [hex1, hu]; rfl
  | cons x xs =>
    simp only [List.isEmpty_cons, Bool.false_eq_true, if_false]
    have hmin : minL (sel (embD st.D) st.S) = some (eF (ominL ((x :: xs).map fun i => st.D[i]))) := by
      rw [sel_spec, hu, List.map_cons, minL_spec]
    have hex2 : evalCond E refNode.exit2 = some (ominL ((x :: xs).map fun i => st.D[i])).isNone := by
      simp only [refNode, evalCond, hD, hS, hmin, eF_isInf]
    rw [hex1, hu]
    cases hm : ominL ((x :: xs).map fun i => st.D[i]) with
    | none =>
      refine ⟨rfl, by rw [hex2, hm]; rfl, ?_⟩
      have hhi : eval E (.add (.var "q") (.lit 1)) = some (.int (st.q : ℤ)) := by simp [eval, hq, SV.add]
      simp only [show refNode.fill = [.fillPrefixInf "Q" (.add (.var "q") (.lit 1)) "D"] from rfl, execs, exec, hQ, hhi, hD, fillInf_eq]
      generalize ((List.finRange n).filter fun i => st.D[i].isNone) = un
      have h0 : (0 : ℤ) ≤ (st.q : ℤ) := by omega
      have hmn : min ((st.q : ℤ).toNat) n = st.q := by simp [hqn]
      unfold fillFront fillFrontV
      simp only [h0, if_true, hmn]
      by_cases hlen : un.length = st.q
      · simp only [hlen, if_true]
        refine ⟨_, rfl, ⟨hD, hNP, hP, ?_, hq, hG1, hS, hqn⟩, ⟨rfl, rfl, rfl, rfl⟩⟩
        simp only [if_true, Option.some.injEq]
        apply Vector.ext; intro i hi
        simp only [embQ, Vector.getElem_ofFn, Vector.getElem_map]
        split <;> simp
      · simp only [hlen, if_false]
        match un with
        | [y] =>
          refine ⟨_, rfl, ⟨hD, hNP, hP, ?_, hq, hG1, hS, hqn⟩, ⟨rfl, rfl, rfl, rfl⟩⟩
          simp only [if_true, Option.some.injEq]
          apply Vector.ext; intro i hi
          simp only [embQ, Vector.getElem_ofFn, Vector.getElem_map]
          split <;> simp
        | [] => rfl
        | _ :: _ :: _ => rfl
    | some m =>
      refine ⟨rfl, by rw [hex2, hm]; rfl, ?_⟩
      refine ⟨?E', ?h1, ?h2⟩
      case h1 =>
        simp only [show refNode.next = [.whereEqMinIn "V" "D" "D" "S" "S"] from rfl, execs, exec, hD, hS, hmin, hm]
        rfl
      case h2 =>
        exact ⟨⟨hD, hNP, hP, hQ, hq, hG1, hS, hqn⟩, by simp [eF_inj, Bool.and_comm], ⟨rfl, rfl, rfl, rfl⟩⟩

/-- `while True: …` is `weiLoop` -/
theorem while_spec : ∀ (fuel : ℕ) (E : Env n) (st : SrcSt n) (V : List (Fin n)), Fwd E st → E.lst "V" = some V →
    match weiLoop fuel V st with
    | .error _ => whileTrue refNode fuel E = none
    | .ok st' => ∃ E', whileTrue refNode fuel E = some E' ∧ Fwd E' st' ∧ Frame E E' := by
  intro fuel
  induction fuel with
  | zero => intro E st V _ _; simp [weiLoop, whileTrue]
  | succ f ih =>
    intro E st V h hV
    obtain ⟨E1, e1, s1, l1, f1, fr1⟩ := head_spec E st V h hV
    have hV1 : E1.lst "V" = some V := by rw [l1, hV]
    have hs := settle_spec V E1 _ s1
    simp only [weiLoop, weiBatch, whileTrue, e1, show refNode.vIter = "V" from rfl, hV1, show refNode.vVar = "v" from rfl]
    cases hst : settle true V { st with S := Vector.ofFn fun i => st.S[i] && !V.contains i, G1 := clearCols st.G1 V } with
    | error e => rw [hst] at hs; simp only [hs]
    | ok st1 =>
      rw [hst] at hs
      obtain ⟨E2, e2, s2, l2, fr2⟩ := hs
      simp only [e2]
      have ht := tail_spec E2 st1 s2
      cases hn : weiNext st1 with
      | done =>
        rw [hn] at ht
        simp only [ht]
        exact ⟨E2, rfl, s2, fr1.trans fr2⟩
      | fill idx =>
        rw [hn] at ht
        obtain ⟨t1, t2, t3⟩ := ht
        simp only [t1, t2]
        cases hf : fillFront st1 idx with
        | error e => rw [hf] at t3; exact t3
        | ok st' =>
          rw [hf] at t3
          obtain ⟨E3, e3, s3, fr3⟩ := t3
          exact ⟨E3, e3, s3, (fr1.trans fr2).trans fr3⟩
      | batch V' =>
        rw [hn] at ht
        obtain ⟨t1, t2, E3, e3, s3, hV3, fr3⟩ := ht
        simp only [t1, t2, e3]
        have hi := ih E3 st1 V' s3 hV3
        cases hw : weiLoop f V' st1 with
        | error e => rw [hw] at hi; exact hi
        | ok st' =>
          rw [hw] at hi
          obtain ⟨E4, e4, s4, fr4⟩ := hi
          exact ⟨E4, e4, s4, ((fr1.trans fr2).trans fr3).trans fr4⟩

/-! ## initialisation of a source, shared by both routines -/

theorem init_spec (t : Bool) (E : Env n) (G : AMat ℕ n) (u : Fin n) (hG : E.mat "G" = some (embM G)) (hn : E.sc "n" = some (.int n))
    (hu : E.sc "u" = some (.int u.val)) :
    ∃ E1, execs (refInit t) E = some E1 ∧ Fwd E1 (initSt true G u) ∧ E1.lst "V" = some [u] ∧ Frame E E1 := by
  refine ⟨?E1, ?h1, ?h2⟩
  case h1 =>
    simp [refInit, execs, exec, isDim, hn, eval, evalIdx, hu, idx_fin, hG, SV.sub, SV.toF]
    rfl
  case h2 =>
    refine ⟨⟨?_, ?_, ?_, ?_, by simp [initSt], by simp [initSt], ?_, by simp [initSt]⟩, by simp, ⟨by simp, by simp, by simp, by simp⟩⟩
    · simp only [show ("D" = "NP") = False by decide, if_false, if_true, Option.some.injEq]
      apply Vector.ext; intro i hi
      by_cases hiu : (u : ℕ) = i
      · have : (⟨i, hi⟩ : Fin n) = u := Fin.ext hiu.symm
        simp [embD, initSt, hiu, this, eF]
      · have : ¬ (⟨i, hi⟩ : Fin n) = u := fun hc => hiu (by rw [← hc])
        simp [embD, initSt, hiu, this, eF]
    · simp only [if_true, Option.some.injEq]
      apply Vector.ext; intro i hi
      by_cases hiu : (u : ℕ) = i
      · have : (⟨i, hi⟩ : Fin n) = u := Fin.ext hiu.symm
        simp [embNP, initSt, hiu, this]
      · have : ¬ (⟨i, hi⟩ : Fin n) = u := fun hc => hiu (by rw [← hc])
        simp [embNP, initSt, hiu, this]
    · simp only [show ("P" = "G1") = False by decide, if_false, if_true, Option.some.injEq]
      apply AMat.ext_get; intro i j
      simp [initSt]
    · simp only [if_true, Option.some.injEq]
      apply Vector.ext; intro i hi
      simp [embQ, initSt]
    · simp [initSt]

theorem idx_nat (k : ℕ) : idx (n := n) (.int (k : ℤ)) = if h : k < n then some ⟨k, h⟩ else none := by
  unfold idx
  by_cases h : k < n
  · have h' : 0 ≤ (k : ℤ) ∧ ((k : ℤ)).toNat < n := by omega
    simp only [h, h', and_self, dite_true, Option.some.injEq]
    apply Fin.ext; simp
  · have h' : ¬ (0 ≤ (k : ℤ) ∧ ((k : ℤ)).toNat < n) := by omega
    simp only [h, h', dite_false]

theorem predRow_eq (P : AMat Bool n) (w : Fin n) :
    ((List.finRange n).filter fun v => (embP P).get w v != F.fin 0) = (List.finRange n).filter fun v => P.get w v := by
  apply List.filter_congr; intro v _
  simp only [embP_get]
  cases P.get w v <;> simp

theorem takeTo_embQ (Q : Vector ℕ n) :
    takeTo (embQ Q).toList ((n : ℤ) - 1) = (Q.toList.take (n - 1)).map fun (k : ℕ) => (k : ℤ) := by
  have hl : (embQ Q).toList = Q.toList.map fun (k : ℕ) => (k : ℤ) := by simp [embQ, Vector.toList_map]
  unfold takeTo
  rw [hl, List.map_take]
  by_cases h : 0 ≤ (n : ℤ) - 1
  · have : ((n : ℤ) - 1).toNat = n - 1 := by omega
    simp only [h, if_true, this]
  · have hn : n = 0 := by omega
    subst hn
    simp

/-- the value of `(1 + DP[w]) * NP[v] / NP[w]` -/
theorem dep_eval (E : Env n) (DP : Vector ℚ n) (NP : Vector ℕ n) (w v : Fin n) (hDP : E.vec "DP" = some (embR DP))
    (hNP : E.vec "NP" = some (embNP NP)) (hw : E.sc "w" = some (.int w.val)) (hv : E.sc "v" = some (.int v.val)) :
    eval E depExpr = if NP[(w : ℕ)] = 0 then none
      else some (.flt (.fin ((1 + DP[(w : ℕ)]) * (NP[(v : ℕ)] : ℚ) / (NP[(w : ℕ)] : ℚ)))) := by
  by_cases h0 : NP[(w : ℕ)] = 0
  · simp [depExpr, eval, hw, hv, idx_fin, hDP, hNP, SV.div, SV.mul, SV.add, SV.toF, F.add, h0]
  · have hc : ((NP[(w : ℕ)] : ℕ) : ℚ) ≠ 0 := by exact_mod_cast h0
    simp [depExpr, eval, hw, hv, idx_fin, hDP, hNP, SV.div, SV.mul, SV.add, SV.toF, F.add, h0]

/-! ## `betweenness_wei`: the back-propagation without `EBC` -/

def BwdN (E : Env n) (st : SrcSt n) (a : AccN n) : Prop :=
  E.sc "n" = some (.int n) ∧ E.vec "BC" = some (embR a.BC) ∧ E.vec "DP" = some (embR a.DP) ∧ E.vec "NP" = some (embNP st.NP) ∧
  E.mat "P" = some (embP st.P) ∧ E.ivec "Q" = some (embQ st.Q)

theorem BwdN.setSc {E : Env n} {a : AccN n} {st : SrcSt n} (h : BwdN E st a) (x : String) (hx : x ≠ "n") (s : SV) :
    BwdN ({ E with sc := fun y => if y = x then some s else E.sc y } : Env n) st a := by
  obtain ⟨hn, hBC, hDP, hNP, hP, hQ⟩ := h
  exact ⟨by simp [hn, Ne.symm hx], hBC, hDP, hNP, hP, hQ⟩

/-- one round of `backInnerN` -/
def depStepN (st : SrcSt n) (w v : Fin n) (a : AccN n) : Except BErr (AccN n) :=
  if st.NP[w] = 0 then .error .unsupported else
    .ok { a with DP := a.DP.set v (a.DP[v] + (1 + a.DP[w]) * (st.NP[v] : ℚ) / (st.NP[w] : ℚ)) }

theorem backInnerN_cons (st : SrcSt n) (w v : Fin n) (vs : List (Fin n)) (a : AccN n) :
    backInnerN st w (v :: vs) a = match depStepN st w v a with
      | .error e => .error e
      | .ok a1 => backInnerN st w vs a1 := by
  unfold depStepN
  by_cases h : st.NP[w] = 0
  · simp only [backInnerN, h, if_true]
  · simp only [backInnerN, h, if_false]

theorem depN_spec (E : Env n) (st : SrcSt n) (a : AccN n) (w v : Fin n) (h : BwdN E st a)
    (hw : E.sc "w" = some (.int w.val)) (hv : E.sc "v" = some (.int v.val)) :
    match depStepN st w v a with
    | .error _ => execs refNode.dep E = none
    | .ok a1 => ∃ E', execs refNode.dep E = some E' ∧ BwdN E' st a1 ∧ E'.sc = E.sc ∧ E'.mat = E.mat := by
  obtain ⟨hn, hBC, hDP, hNP, hP, hQ⟩ := h
  have hd := dep_eval E a.DP st.NP w v hDP hNP hw hv
  unfold depStepN
  by_cases h0 : st.NP[(w : ℕ)] = 0
  · simp only [Fin.getElem_fin, h0, if_true]
    simp only [h0, if_true] at hd
    simp [refNode, execs, exec, hd, hDP, evalIdx, eval, hv, idx_fin]
  · simp only [Fin.getElem_fin, h0, if_false]
    simp only [h0, if_false] at hd
    refine ⟨?E1, ?h1, ?h2⟩
    case h1 =>
      simp [refNode, execs, exec, hd, hDP, evalIdx, eval, hv, idx_fin, SV.toF, F.add]
      rfl
    case h2 =>
      exact ⟨⟨hn, by simp [hBC], by simp [embR_set], by simp [hNP], hP, hQ⟩, rfl, rfl⟩

/-- `for v in np.where(P[w, :])[0]:` is `backInnerN` -/
theorem forBVN_spec (st : SrcSt n) (w : Fin n) : ∀ (vs : List (Fin n)) (E : Env n) (a : AccN n), BwdN E st a →
    E.sc "w" = some (.int w.val) →
    match backInnerN st w vs a with
    | .error _ => forList "v" (execs refNode.dep) vs E = none
    | .ok a' => ∃ E', forList "v" (execs refNode.dep) vs E = some E' ∧ BwdN E' st a' ∧ E'.mat = E.mat := by
  intro vs
  induction vs with
  | nil => intro E a h _; exact ⟨E, rfl, h, rfl⟩
  | cons v vs ih =>
    intro E a h hw
    have hd := depN_spec _ st a w v (h.setSc "v" (by decide) (.int v.val)) (by simpa using hw) (by simp)
    rw [backInnerN_cons]
    simp only [forList]
    cases hs : depStepN st w v a with
    | error e => rw [hs] at hd; simp only [hd]
    | ok a1 =>
      rw [hs] at hd
      obtain ⟨E1, e1, s1, f1, m1⟩ := hd
      simp only [e1]
      have hi := ih E1 a1 s1 (by rw [f1]; simpa using hw)
      cases hb : backInnerN st w vs a1 with
      | error e => rw [hb] at hi; exact hi
      | ok a' =>
        rw [hb] at hi
        obtain ⟨E2, e2, s2, m2⟩ := hi
        exact ⟨E2, e2, s2, by rw [m2, m1]⟩

theorem backOuterN_cons (st : SrcSt n) (wn : ℕ) (ws : List ℕ) (a : AccN n) :
    backOuterN st (wn :: ws) a = if h : wn < n then
      (match backInnerN st ⟨wn, h⟩ ((List.finRange n).filter fun v => st.P.get ⟨wn, h⟩ v)
          { a with BC := a.BC.set (⟨wn, h⟩ : Fin n) (a.BC[(⟨wn, h⟩ : Fin n)] + a.DP[(⟨wn, h⟩ : Fin n)]) } with
        | .error e => .error e
        | .ok a1 => backOuterN st ws a1)
      else .error .unsupported := by
  by_cases h : wn < n
  · simp only [backOuterN, h, dite_true]
    generalize backInnerN st ⟨wn, h⟩ _ _ = r
    cases r <;> rfl
  · simp only [backOuterN, h, dite_false]

/-- `for w in Q[:n - 1]:` is `backOuterN` -/
theorem forBWN_spec (st : SrcSt n) : ∀ (ws : List ℕ) (E : Env n) (a : AccN n), BwdN E st a →
    match backOuterN st ws a with
    | .error _ => forInts "w" (runBW refNode) (ws.map fun (k : ℕ) => (k : ℤ)) E = none
    | .ok a' => ∃ E', forInts "w" (runBW refNode) (ws.map fun (k : ℕ) => (k : ℤ)) E = some E' ∧ BwdN E' st a' ∧ E'.mat = E.mat := by
  intro ws
  induction ws with
  | nil => intro E a h; exact ⟨E, rfl, h, rfl⟩
  | cons wn ws ih =>
    intro E a h
    rw [backOuterN_cons]
    simp only [List.map_cons, forInts]
    obtain ⟨hn, hBC, hDP, hNP, hP, hQ⟩ := h
    by_cases hlt : wn < n
    · simp only [hlt, dite_true]
      have hacc : ∃ E1, execs refNode.acc ({ E with sc := fun y => if y = "w" then some (.int (wn : ℤ)) else E.sc y } : Env n) = some E1 ∧
          BwdN E1 st { a with BC := a.BC.set (⟨wn, hlt⟩ : Fin n) (a.BC[(⟨wn, hlt⟩ : Fin n)] + a.DP[(⟨wn, hlt⟩ : Fin n)]) } ∧
          E1.sc "w" = some (.int (wn : ℤ)) ∧ E1.mat = E.mat := by
        refine ⟨?E1, ?h1, ?h2⟩
        case h1 =>
          simp [refNode, execs, exec, eval, evalIdx, idx_nat, hlt, hBC, hDP, SV.toF, F.add]
          rfl
        case h2 =>
          exact ⟨⟨by simp [hn], by simp; exact (embR_set a.BC ⟨wn, hlt⟩ _).symm, by simp [hDP], by simp [hNP], hP, hQ⟩, by simp, rfl⟩
      obtain ⟨E1, e1, s1, hw1, m1⟩ := hacc
      have hrow : evalIdx E1 (.var "w") = some (⟨wn, hlt⟩ : Fin n) := by simp [evalIdx, eval, hw1, idx_nat, hlt]
      have hi := forBVN_spec st ⟨wn, hlt⟩ ((List.finRange n).filter fun v => st.P.get ⟨wn, hlt⟩ v) E1 _ s1 hw1
      simp only [runBW, e1, show refNode.bvMat = "P" from rfl, s1.2.2.2.2.1, show refNode.bvRow = .var "w" from rfl, hrow,
        show refNode.bvVar = "v" from rfl, predRow_eq]
      cases hb : backInnerN st ⟨wn, hlt⟩ ((List.finRange n).filter fun v => st.P.get ⟨wn, hlt⟩ v)
          { a with BC := a.BC.set (⟨wn, hlt⟩ : Fin n) (a.BC[(⟨wn, hlt⟩ : Fin n)] + a.DP[(⟨wn, hlt⟩ : Fin n)]) } with
      | error e => rw [hb] at hi; simp only [hi]
      | ok a1 =>
        rw [hb] at hi
        obtain ⟨E2, e2, s2, m2⟩ := hi
        simp only [e2]
        have hi2 := ih E2 a1 s2
        cases hb2 : backOuterN st ws a1 with
        | error e => rw [hb2] at hi2; exact hi2
        | ok a' =>
          rw [hb2] at hi2
          obtain ⟨E3, e3, s3, m3⟩ := hi2
          exact ⟨E3, e3, s3, by rw [m3, m2, m1]⟩
    · simp only [hlt, dite_false]
      simp [runBW, refNode, execs, exec, eval, evalIdx, idx_nat, hlt, hBC]

/-- what the environment holds between two sources of `betweenness_wei` -/
def GlobN (E : Env n) (G : AMat ℕ n) (bc : Vector ℚ n) : Prop :=
  E.mat "G" = some (embM G) ∧ E.sc "n" = some (.int n) ∧ E.vec "BC" = some (embR bc)

theorem zeros_embR : (Vector.ofFn fun _ => F.fin 0 : Vector F n) = embR (Vector.ofFn fun _ => (0 : ℚ)) := by
  apply Vector.ext; intro i hi; simp [embR]

/-- body of `for u in range(n):` of `betweenness_wei` is `sourceN` -/
theorem srcN_spec (E : Env n) (G : AMat ℕ n) (bc : Vector ℚ n) (u : Fin n) (h : GlobN E G bc) (hu : E.sc "u" = some (.int u.val)) :
    match sourceN G bc u with
    | .error _ => runSrc refNode (n + 1) E = none
    | .ok bc' => ∃ E', runSrc refNode (n + 1) E = some E' ∧ GlobN E' G bc' := by
  obtain ⟨hG, hn, hBC⟩ := h
  obtain ⟨E1, e1, s1, hV, fr1⟩ := init_spec true E G u hG hn hu
  have hw := while_spec (n + 1) E1 _ [u] s1 hV
  simp only [sourceN, runSrc, show refNode.init = refInit true from rfl, e1]
  cases hb : weiLoop (n + 1) [u] (initSt true G u) with
  | error e => rw [hb] at hw; simp only [hw]
  | ok st =>
    rw [hb] at hw
    obtain ⟨E2, e2, s2, fr2⟩ := hw
    have fr := fr1.trans fr2
    simp only [e2]
    have hmid : ∃ E3, execs refNode.mid E2 = some E3 ∧ BwdN E3 st { BC := bc, DP := Vector.ofFn fun _ => 0 } ∧ E3.mat = E2.mat := by
      refine ⟨?E3, ?h1, ?h2⟩
      case h1 =>
        simp [refNode, execs, exec, isDim, fr.2.2.2, hn]
        rfl
      case h2 =>
        exact ⟨⟨by rw [fr.2.2.2, hn], by simp [fr.1, hBC], by simp [zeros_embR], by simp [s2.2.1], s2.2.2.1, s2.2.2.2.1⟩, rfl⟩
    obtain ⟨E3, e3, s3, m3⟩ := hmid
    simp only [e3]
    have hhi : eval E3 (.sub (.var "n") (.lit 1)) = some (.int ((n : ℤ) - 1)) := by simp [eval, s3.1, SV.sub]
    have hbk := forBWN_spec st (st.Q.toList.take (n - 1)) E3 _ s3
    simp only [runBack, show refNode.bwVec = "Q" from rfl, s3.2.2.2.2.2, show refNode.bwHi = .sub (.var "n") (.lit 1) from rfl, hhi,
      show refNode.bwVar = "w" from rfl, takeTo_embQ]
    cases hbo : backOuterN st (st.Q.toList.take (n - 1)) { BC := bc, DP := Vector.ofFn fun _ => 0 } with
    | error e => rw [hbo] at hbk; exact hbk
    | ok a' =>
      rw [hbo] at hbk
      obtain ⟨E4, e4, s4, m4⟩ := hbk
      refine ⟨E4, e4, ?_, s4.1, s4.2.1⟩
      rw [m4, m3, fr.2.2.1, hG]

/-- `for u in range(n):` of `betweenness_wei` is `sourcesN` -/
theorem sourcesN_spec (G : AMat ℕ n) : ∀ (us : List (Fin n)) (E : Env n) (bc : Vector ℚ n), GlobN E G bc →
    match sourcesN G us bc with
    | .error _ => forList "u" (runSrc refNode (n + 1)) us E = none
    | .ok bc' => ∃ E', forList "u" (runSrc refNode (n + 1)) us E = some E' ∧ GlobN E' G bc' := by
  intro us
  induction us with
  | nil => intro E bc h; exact ⟨E, rfl, h⟩
  | cons u us ih =>
    intro E bc h
    have hg : GlobN ({ E with sc := fun y => if y = "u" then some (.int (u.val : ℤ)) else E.sc y } : Env n) G bc :=
      ⟨h.1, by simp [h.2.1], h.2.2⟩
    have h1 := srcN_spec _ G bc u hg (by simp)
    simp only [sourcesN, forList]
    cases hb : sourceN G bc u with
    | error e => rw [hb] at h1; simp only [h1]
    | ok bc1 =>
      rw [hb] at h1
      obtain ⟨E1, e1, s1⟩ := h1
      simp only [e1]
      exact ih E1 bc1 s1

/-- the environment `betweenness_wei` / `edge_betweenness_wei` start in -/
def env0 (G : AMat ℕ n) : Env n :=
  { sc := fun _ => none, vec := fun _ => none, ivec := fun _ => none, bvec := fun _ => none,
    mat := fun y => if y = "G" then some (embM G) else none, lst := fun _ => none }

/-- **Link, `betweenness_wei`.**  If the generated obligation holds, the extracted routine, run with the model's fuel `n + 1` for every
`while True:` loop on a matrix of natural lengths, returns exactly `Between.betweennessWei G`, and stops without a result exactly
when the model does. -/
theorem link_betweenness_wei (ir : WeiIR) (hok : weiOk refNode ir = true) (G : AMat ℕ n) :
    run ir (n + 1) (embM G) =
      match betweennessWei G with
      | .ok bc => some [.vec (embR bc)]
      | .error _ => none := by
  have hir : ir = refNode := by simpa [weiOk] using hok
  subst hir
  have hpre : ∃ E0, execs refNode.pre (env0 G) = some E0 ∧ GlobN E0 G (Vector.ofFn fun _ => 0) := by
    refine ⟨?E0, ?h1, ?h2⟩
    case h1 =>
      simp [refNode, execs, exec, isDim, env0]
      rfl
    case h2 =>
      exact ⟨by simp [env0], by simp, by simp [zeros_embR]⟩
  obtain ⟨E0, e0, g0⟩ := hpre
  have e0' : execs refNode.pre (⟨fun _ => none, fun _ => none, fun _ => none, fun _ => none,
      fun y => if y = refNode.param then some (embM G) else none, fun _ => none⟩ : Env n) = some E0 := e0
  have hs := sourcesN_spec G (List.finRange n) E0 _ g0
  have hdim : isDim E0 "n" = true := by simp [isDim, g0.2.1]
  simp only [run, e0', show refNode.srcN = "n" from rfl, hdim, if_true, show refNode.srcVar = "u" from rfl, betweennessWei]
  cases hb : sourcesN G (List.finRange n) (Vector.ofFn fun _ => 0) with
  | error e => rw [hb] at hs; simp only [hs]
  | ok bc =>
    rw [hb] at hs
    obtain ⟨E1, e1, s1⟩ := hs
    simp only [e1, show refNode.ret = ["BC"] from rfl, results, s1.2.2, Option.map_some]

/-! ## `edge_betweenness_wei`: the same forward pass, the back-propagation with `EBC` -/

theorem runV_edge : runV (n := n) refEdge = runV refNode := rfl

theorem whileTrue_edge : ∀ (f : ℕ) (E : Env n), whileTrue refEdge f E = whileTrue refNode f E := by
  intro f
  induction f with
  | zero => intro E; rfl
  | succ f ih =>
    intro E
    simp only [whileTrue, show refEdge.head = refNode.head from rfl, show refEdge.vIter = refNode.vIter from rfl,
      show refEdge.vVar = refNode.vVar from rfl, runV_edge, show refEdge.exit1 = refNode.exit1 from rfl,
      show refEdge.exit2 = refNode.exit2 from rfl, show refEdge.fill = refNode.fill from rfl, show refEdge.next = refNode.next from rfl, ih]

def BwdE (E : Env n) (st : SrcSt n) (a : Acc n) : Prop :=
  E.sc "n" = some (.int n) ∧ E.vec "BC" = some (embR a.BC) ∧ E.mat "EBC" = some (embRM a.EBC) ∧ E.vec "DP" = some (embR a.DP) ∧
  E.vec "NP" = some (embNP st.NP) ∧ E.mat "P" = some (embP st.P) ∧ E.ivec "Q" = some (embQ st.Q)

theorem BwdE.setSc {E : Env n} {a : Acc n} {st : SrcSt n} (h : BwdE E st a) (x : String) (hx : x ≠ "n") (s : SV) :
    BwdE ({ E with sc := fun y => if y = x then some s else E.sc y } : Env n) st a := by
  obtain ⟨hn, hBC, hEBC, hDP, hNP, hP, hQ⟩ := h
  exact ⟨by simp [hn, Ne.symm hx], hBC, hEBC, hDP, hNP, hP, hQ⟩

/-- one round of `backInner` -/
def depStepE (st : SrcSt n) (w v : Fin n) (a : Acc n) : Except BErr (Acc n) :=
  if st.NP[w] = 0 then .error .unsupported else
    .ok { a with DP := a.DP.set v (a.DP[v] + (1 + a.DP[w]) * (st.NP[v] : ℚ) / (st.NP[w] : ℚ)),
                 EBC := a.EBC.set v w (a.EBC.get v w + (1 + a.DP[w]) * (st.NP[v] : ℚ) / (st.NP[w] : ℚ)) }

theorem backInner_cons (st : SrcSt n) (w v : Fin n) (vs : List (Fin n)) (a : Acc n) :
    backInner st w (v :: vs) a = match depStepE st w v a with
      | .error e => .error e
      | .ok a1 => backInner st w vs a1 := by
  unfold depStepE
  by_cases h : st.NP[w] = 0
  · simp only [backInner, h, if_true]
  · simp only [backInner, h, if_false]

theorem depE_spec (E : Env n) (st : SrcSt n) (a : Acc n) (w v : Fin n) (h : BwdE E st a)
    (hw : E.sc "w" = some (.int w.val)) (hv : E.sc "v" = some (.int v.val)) :
    match depStepE st w v a with
    | .error _ => execs refEdge.dep E = none
    | .ok a1 => ∃ E', execs refEdge.dep E = some E' ∧ BwdE E' st a1 ∧ (∀ y, y ≠ "DPvw" → E'.sc y = E.sc y) ∧ E'.mat "G" = E.mat "G" := by
  obtain ⟨hn, hBC, hEBC, hDP, hNP, hP, hQ⟩ := h
  have hd := dep_eval E a.DP st.NP w v hDP hNP hw hv
  unfold depStepE
  by_cases h0 : st.NP[(w : ℕ)] = 0
  · simp only [Fin.getElem_fin, h0, if_true]
    simp only [h0, if_true] at hd
    simp [refEdge, refNode, execs, exec, hd]
  · simp only [Fin.getElem_fin, h0, if_false]
    simp only [h0, if_false] at hd
    refine ⟨?E1, ?h1, ?h2⟩
    case h1 =>
      simp [refEdge, refNode, execs, exec, hd, hDP, hEBC, evalIdx, eval, hv, hw, idx_fin, SV.toF, F.add]
      rfl
    case h2 =>
      exact ⟨⟨by simp [hn], by simp [hBC], by simp [embRM_set], by simp [embR_set], by simp [hNP], by simp [hP], hQ⟩,
        by intro y hy; simp [hy], by simp⟩

/-- `for v in np.where(P[w, :])[0]:` is `backInner` -/
theorem forBVE_spec (st : SrcSt n) (w : Fin n) : ∀ (vs : List (Fin n)) (E : Env n) (a : Acc n), BwdE E st a →
    E.sc "w" = some (.int w.val) →
    match backInner st w vs a with
    | .error _ => forList "v" (execs refEdge.dep) vs E = none
    | .ok a' => ∃ E', forList "v" (execs refEdge.dep) vs E = some E' ∧ BwdE E' st a' ∧ E'.mat "G" = E.mat "G" := by
  intro vs
  induction vs with
  | nil => intro E a h _; exact ⟨E, rfl, h, rfl⟩
  | cons v vs ih =>
    intro E a h hw
    have hd := depE_spec _ st a w v (h.setSc "v" (by decide) (.int v.val)) (by simpa using hw) (by simp)
    rw [backInner_cons]
    simp only [forList]
    cases hs : depStepE st w v a with
    | error e => rw [hs] at hd; simp only [hd]
    | ok a1 =>
      rw [hs] at hd
      obtain ⟨E1, e1, s1, f1, m1⟩ := hd
      simp only [e1]
      have hi := ih E1 a1 s1 (by rw [f1 "w" (by decide)]; simpa using hw)
      cases hb : backInner st w vs a1 with
      | error e => rw [hb] at hi; exact hi
      | ok a' =>
        rw [hb] at hi
        obtain ⟨E2, e2, s2, m2⟩ := hi
        exact ⟨E2, e2, s2, by rw [m2, m1]⟩

theorem backOuter_cons (st : SrcSt n) (wn : ℕ) (ws : List ℕ) (a : Acc n) :
    backOuter st (wn :: ws) a = if h : wn < n then
      (match backInner st ⟨wn, h⟩ ((List.finRange n).filter fun v => st.P.get ⟨wn, h⟩ v)
          { a with BC := a.BC.set (⟨wn, h⟩ : Fin n) (a.BC[(⟨wn, h⟩ : Fin n)] + a.DP[(⟨wn, h⟩ : Fin n)]) } with
        | .error e => .error e
        | .ok a1 => backOuter st ws a1)
      else .error .unsupported := by
  by_cases h : wn < n
  · simp only [backOuter, h, dite_true, bind, Except.bind]
    generalize backInner st ⟨wn, h⟩ _ _ = r
    cases r <;> rfl
  · simp only [backOuter, h, dite_false]

/-- `for w in Q[:n - 1]:` is `backOuter` -/
theorem forBWE_spec (st : SrcSt n) : ∀ (ws : List ℕ) (E : Env n) (a : Acc n), BwdE E st a →
    match backOuter st ws a with
    | .error _ => forInts "w" (runBW refEdge) (ws.map fun (k : ℕ) => (k : ℤ)) E = none
    | .ok a' => ∃ E', forInts "w" (runBW refEdge) (ws.map fun (k : ℕ) => (k : ℤ)) E = some E' ∧ BwdE E' st a' ∧ E'.mat "G" = E.mat "G" := by
  intro ws
  induction ws with
  | nil => intro E a h; exact ⟨E, rfl, h, rfl⟩
  | cons wn ws ih =>
    intro E a h
    rw [backOuter_cons]
    simp only [List.map_cons, forInts]
    obtain ⟨hn, hBC, hEBC, hDP, hNP, hP, hQ⟩ := h
    by_cases hlt : wn < n
    · simp only [hlt, dite_true]
      have hacc : ∃ E1, execs refEdge.acc ({ E with sc := fun y => if y = "w" then some (.int (wn : ℤ)) else E.sc y } : Env n) = some E1 ∧
          BwdE E1 st { a with BC := a.BC.set (⟨wn, hlt⟩ : Fin n) (a.BC[(⟨wn, hlt⟩ : Fin n)] + a.DP[(⟨wn, hlt⟩ : Fin n)]) } ∧
          E1.sc "w" = some (.int (wn : ℤ)) ∧ E1.mat = E.mat := by
        refine ⟨?E1, ?h1, ?h2⟩
        case h1 =>
          simp [refEdge, refNode, execs, exec, eval, evalIdx, idx_nat, hlt, hBC, hDP, SV.toF, F.add]
          rfl
        case h2 =>
          exact ⟨⟨by simp [hn], by simp; exact (embR_set a.BC ⟨wn, hlt⟩ _).symm, hEBC, by simp [hDP], by simp [hNP], hP, hQ⟩, by simp, rfl⟩
      obtain ⟨E1, e1, s1, hw1, m1⟩ := hacc
      have hrow : evalIdx E1 (.var "w") = some (⟨wn, hlt⟩ : Fin n) := by simp [evalIdx, eval, hw1, idx_nat, hlt]
      have hi := forBVE_spec st ⟨wn, hlt⟩ ((List.finRange n).filter fun v => st.P.get ⟨wn, hlt⟩ v) E1 _ s1 hw1
      simp only [runBW, e1, show refEdge.bvMat = "P" from rfl, s1.2.2.2.2.2.1, show refEdge.bvRow = .var "w" from rfl, hrow,
        show refEdge.bvVar = "v" from rfl, predRow_eq]
      cases hb : backInner st ⟨wn, hlt⟩ ((List.finRange n).filter fun v => st.P.get ⟨wn, hlt⟩ v)
          { a with BC := a.BC.set (⟨wn, hlt⟩ : Fin n) (a.BC[(⟨wn, hlt⟩ : Fin n)] + a.DP[(⟨wn, hlt⟩ : Fin n)]) } with
      | error e => rw [hb] at hi; simp only [hi]
      | ok a1 =>
        rw [hb] at hi
        obtain ⟨E2, e2, s2, m2⟩ := hi
        simp only [e2]
        have hi2 := ih E2 a1 s2
        cases hb2 : backOuter st ws a1 with
        | error e => rw [hb2] at hi2; exact hi2
        | ok a' =>
          rw [hb2] at hi2
          obtain ⟨E3, e3, s3, m3⟩ := hi2
          exact ⟨E3, e3, s3, by rw [m3, m2, m1]⟩
    · simp only [hlt, dite_false]
      simp [runBW, refEdge, refNode, execs, exec, eval, evalIdx, idx_nat, hlt, hBC]

/-- what the environment holds between two sources of `edge_betweenness_wei` -/
def GlobE (E : Env n) (G : AMat ℕ n) (a : Acc n) : Prop :=
  E.mat "G" = some (embM G) ∧ E.sc "n" = some (.int n) ∧ E.vec "BC" = some (embR a.BC) ∧ E.mat "EBC" = some (embRM a.EBC)

/-- body of `for u in range(n):` of `edge_betweenness_wei` is `source true` -/
theorem srcE_spec (E : Env n) (G : AMat ℕ n) (a : Acc n) (u : Fin n) (h : GlobE E G a) (hu : E.sc "u" = some (.int u.val)) :
    match source true G a u with
    | .error _ => runSrc refEdge (n + 1) E = none
    | .ok a' => ∃ E', runSrc refEdge (n + 1) E = some E' ∧ GlobE E' G a' := by
  obtain ⟨hG, hn, hBC, hEBC⟩ := h
  have hsrc : source true G a u = match weiLoop (n + 1) [u] (initSt true G u) with
      | .error e => .error e
      | .ok st => backOuter st (st.Q.toList.take (n - 1)) { a with DP := Vector.ofFn fun _ => 0 } := by
    simp only [source, if_true, bind, Except.bind]
    cases weiLoop (n + 1) [u] (initSt true G u) <;> rfl
  rw [hsrc]
  obtain ⟨E1, e1, s1, hV, fr1⟩ := init_spec false E G u hG hn hu
  have hw := while_spec (n + 1) E1 _ [u] s1 hV
  simp only [runSrc, show refEdge.init = refInit false from rfl, e1, whileTrue_edge]
  cases hb : weiLoop (n + 1) [u] (initSt true G u) with
  | error e => rw [hb] at hw; simp only [hw]
  | ok st =>
    rw [hb] at hw
    obtain ⟨E2, e2, s2, fr2⟩ := hw
    have fr := fr1.trans fr2
    simp only [e2]
    have hmid : ∃ E3, execs refEdge.mid E2 = some E3 ∧ BwdE E3 st { a with DP := Vector.ofFn fun _ => 0 } ∧ E3.mat = E2.mat := by
      refine ⟨?E3, ?h1, ?h2⟩
      case h1 =>
        simp [refEdge, refNode, execs, exec, isDim, fr.2.2.2, hn]
        rfl
      case h2 =>
        exact ⟨⟨by rw [fr.2.2.2, hn], by simp [fr.1, hBC], by rw [fr.2.1, hEBC], by simp [zeros_embR], by simp [s2.2.1], s2.2.2.1,
          s2.2.2.2.1⟩, rfl⟩
    obtain ⟨E3, e3, s3, m3⟩ := hmid
    simp only [e3]
    have hhi : eval E3 (.sub (.var "n") (.lit 1)) = some (.int ((n : ℤ) - 1)) := by simp [eval, s3.1, SV.sub]
    have hbk := forBWE_spec st (st.Q.toList.take (n - 1)) E3 _ s3
    simp only [runBack, show refEdge.bwVec = "Q" from rfl, s3.2.2.2.2.2.2, show refEdge.bwHi = .sub (.var "n") (.lit 1) from rfl, hhi,
      show refEdge.bwVar = "w" from rfl, takeTo_embQ]
    cases hbo : backOuter st (st.Q.toList.take (n - 1)) { a with DP := Vector.ofFn fun _ => 0 } with
    | error e => rw [hbo] at hbk; exact hbk
    | ok a' =>
      rw [hbo] at hbk
      obtain ⟨E4, e4, s4, m4⟩ := hbk
      refine ⟨E4, e4, ?_, s4.1, s4.2.1, s4.2.2.1⟩
      rw [m4, m3, fr.2.2.1, hG]

/-- `for u in range(n):` of `edge_betweenness_wei` is `sources true` -/
theorem sourcesE_spec (G : AMat ℕ n) : ∀ (us : List (Fin n)) (E : Env n) (a : Acc n), GlobE E G a →
    match sources true G us a with
    | .error _ => forList "u" (runSrc refEdge (n + 1)) us E = none
    | .ok a' => ∃ E', forList "u" (runSrc refEdge (n + 1)) us E = some E' ∧ GlobE E' G a' := by
  intro us
  induction us with
  | nil => intro E a h; exact ⟨E, rfl, h⟩
  | cons u us ih =>
    intro E a h
    have hg : GlobE ({ E with sc := fun y => if y = "u" then some (.int (u.val : ℤ)) else E.sc y } : Env n) G a :=
      ⟨h.1, by simp [h.2.1], h.2.2.1, h.2.2.2⟩
    have h1 := srcE_spec _ G a u hg (by simp)
    have hs : sources true G (u :: us) a = match source true G a u with
        | .error e => .error e
        | .ok a1 => sources true G us a1 := by
      simp only [sources, bind, Except.bind]
      cases source true G a u <;> rfl
    rw [hs]
    simp only [forList]
    cases hb : source true G a u with
    | error e => rw [hb] at h1; simp only [h1]
    | ok a1 =>
      rw [hb] at h1
      obtain ⟨E1, e1, s1⟩ := h1
      simp only [e1]
      exact ih E1 a1 s1

/-- **Link, `edge_betweenness_wei`.**  If the generated obligation holds, the extracted routine, run with the model's fuel `n + 1` for
every `while True:` loop on a matrix of natural lengths, returns exactly what `Between.brandes true G` returns, and stops without a
result exactly when the model does. -/
theorem link_edge_betweenness_wei (ir : WeiIR) (hok : weiOk refEdge ir = true) (G : AMat ℕ n) :
    run ir (n + 1) (embM G) =
      match brandes true G with
      | .ok r => some [.mat (embRM r.1), .vec (embR r.2)]
      | .error _ => none := by
  have hir : ir = refEdge := by simpa [weiOk] using hok
  subst hir
  have hpre : ∃ E0, execs refEdge.pre (env0 G) = some E0 ∧
      GlobE E0 G { BC := Vector.ofFn fun _ => 0, EBC := AMat.ofFn fun _ _ => 0, DP := Vector.ofFn fun _ => 0 } := by
    refine ⟨?E0, ?h1, ?h2⟩
    case h1 =>
      simp [refEdge, refNode, execs, exec, isDim, env0]
      rfl
    case h2 =>
      refine ⟨by simp [env0], by simp, by simp [zeros_embR], ?_⟩
      simp only [if_true, Option.some.injEq]
      apply AMat.ext_get; intro i j; simp
  obtain ⟨E0, e0, g0⟩ := hpre
  have e0' : execs refEdge.pre (⟨fun _ => none, fun _ => none, fun _ => none, fun _ => none,
      fun y => if y = refEdge.param then some (embM G) else none, fun _ => none⟩ : Env n) = some E0 := e0
  have hbr : brandes true G = match sources true G (List.finRange n)
      { BC := Vector.ofFn fun _ => 0, EBC := AMat.ofFn fun _ _ => 0, DP := Vector.ofFn fun _ => 0 } with
      | .error e => .error e
      | .ok a => .ok (a.EBC, a.BC) := by
    simp only [brandes, bind, Except.bind, pure, Except.pure]
    cases sources true G (List.finRange n)
      { BC := Vector.ofFn fun _ => 0, EBC := AMat.ofFn fun _ _ => 0, DP := Vector.ofFn fun _ => 0 } <;> rfl
  have hs := sourcesE_spec G (List.finRange n) E0 _ g0
  have hdim : isDim E0 "n" = true := by simp [isDim, g0.2.1]
  rw [hbr]
  simp only [run, e0', show refEdge.srcN = "n" from rfl, hdim, if_true, show refEdge.srcVar = "u" from rfl]
  cases hb : sources true G (List.finRange n)
      { BC := Vector.ofFn fun _ => 0, EBC := AMat.ofFn fun _ _ => 0, DP := Vector.ofFn fun _ => 0 } with
  | error e => rw [hb] at hs; simp only [hs]
  | ok a =>
    rw [hb] at hs
    obtain ⟨E1, e1, s1⟩ := hs
    simp only [e1, show refEdge.ret = ["EBC", "BC"] from rfl, results, s1.2.2.2, s1.2.2.1]

example : weiOk refNode refNode = true := by decide
example : weiOk refEdge refEdge = true := by decide
/-- the node routine is not accepted as the edge routine -/
example : weiOk refEdge { refNode with name := "edge_betweenness_wei" } = false := by decide
/-- `Duw <= D[w]` (a tie treated as a shorter path) is rejected -/
example : weiOk refNode { refNode with c2 := .lt (.var "Duw") (.at1 "D" (.var "w")) } = false := by decide
/-- dropping `P[w, :] = 0` is rejected -/
example : weiOk refNode { refNode with s1 := refNode.s1.eraseIdx 2 } = false := by decide

end Bct.Cores.Bwei
