import BctVerif.Props.CoresFloyd
import BctVerif.Props.CoresPeel
import BctVerif.Props.CoresUtil
import BctVerif.Props.CoresTp
import BctVerif.Props.CoresComp
import BctVerif.Props.CoresDijk
import BctVerif.Props.CoresPath
import BctVerif.Props.CoresBin
import BctVerif.Props.CoresBfs
import BctVerif.Props.CoresReach
import BctVerif.Props.CoresBetw
import BctVerif.Props.CoresEbc
import BctVerif.Props.CoresBwei
import BctVerif.Props.CoresClust
import BctVerif.Props.CoresSign
import BctVerif.Props.CoresChar
import BctVerif.Props.CoresEff
import BctVerif.Props.CoresLoc
import BctVerif.Props.CoresDinv
import BctVerif.Props.CoresEffW
import BctVerif.Props.CoresLocW
import BctVerif.Props.CoresWalks
import BctVerif.Props.CoresMod
import BctVerif.Props.CoresSynth
import BctVerif.Props.CoresNbs
import BctVerif.Props.CoresNull
import BctVerif.Props.CoresLouv

/-!
# T-gen for core update steps — the link theorems in one place

`translate/cores.py` re-extracts, on every check run, the statements of a further set of bct routines from `/repo`'s
current source into `BctVerif/Gen/Cores{Floyd,Peel,Util,Comp,Dijk,Path,Bin,Bfs,Reach,Betw,Clust,Char,Eff,Walks}.lean`, each with one `decide` obligation per routine.  The
modules imported here prove, once and for all extracted values, what a passed obligation means (`notes/TGEN.md`):

| family | IR + interpreter | link theorems (this directory) | model functions reached |
|---|---|---|---|
| floyd (C03, C12) | `Model/CoreIRFloyd.lean` | `CoresFloyd`: `link_stage`, `link_final`, `link_floyd_none/_inv/_log/_other` | `Dist.fStage`, `Dist.fFinal`, `Dist.floyd ∘ Dist.lenMat` |
| peel (C15) | `Model/CoreIRPeel.lean` | `CoresPeel`: `link_kcore_bu/_bd`, `link_score_wu`, `…_model`, `link_coreness_bu/_bd` | `Core.peelLoop` with `degBu/degBd/strWu`, `Core.kcoreBu/kcoreBd/scoreWu`, `Core.kcorenessBu/kcorenessBd` |
| comp (C16) | `Model/CoreIRComp.lean` | `CoresComp`: `inner_loop`, `outer_body`, `link_get_components`, `link_get_components_model` | `Comp.scan`, `Comp.unionSets`, `Comp.labels`, `Comp.getComponents` |
| dijk (C03) | `Model/CoreIRDijk.lean` | `CoresDijk`: `link_relax` (block), `block_env`, `settle_spec`, `tail_spec`, `pass_spec`, `while_spec`, `row_spec`, `rows_spec`, `link_distance_wei` (whole routine) | `Dist.relaxFrom`, `Dist.settle`, `Dist.minOver`, `Dist.dLoop`, `Dist.dRow`, `Dist.dijkstra` |
| path (C12) | `Model/CoreIRPath.lean` | `CoresPath`: `loop_spec`, `link_retrieve` | `Dist.retrieve`, `Dist.retrieveGo` |
| bin (C03) | `Model/CoreIRBin.lean` | `CoresBin`: `body_spec`, `loop_spec`, `link_distance_bin` | `Dist.boolMul`, `Dist.binLoop`, `Dist.binRaw`, `Dist.distBin` |
| bfs (C03) | `Model/CoreIRBfs.lean` | `CoresBfs`: `quirk_step`, `paint_step`, `visit_step`, `inner_spec`, `pass_spec`, `loop_spec`, `link_breadth`, `link_breadth_model`, `link_breadthdist` | `Dist.quirk`, `paint`, `visit`, `blackenSt`, `bfsLoop`, `breadth`, `breadthdist` |
| betw (C08), weighted | `Model/CoreIRBwei.lean` | `CoresBwei`: `relax_spec`, `visit_spec`, `settle_spec`, `head_spec`, `tail_spec`, `while_spec`, `init_spec`, `depN_spec`, `forBWN_spec`, `srcN_spec`, `sourcesN_spec`, `link_betweenness_wei`; `whileTrue_edge`, `depE_spec`, `forBWE_spec`, `srcE_spec`, `sourcesE_spec`, `link_edge_betweenness_wei` | `Between.relaxW`, `push`, `settle true`, `weiBatch`, `weiNext`, `weiLoop`, `fillFront`, `backInnerN`, `backOuterN`, `sourceN`, `betweennessWei`; `backInner`, `backOuter`, `source true`, `brandes true` |
| betw (C08) | `Model/CoreIRBetw.lean`, `Model/CoreIREbc.lean` | `CoresBetw`: `body_spec`, `loop_spec`, `mid_spec`, `back_spec`, `for_spec`, `link_betweenness_bin`; `CoresEbc`: `relax_spec`, `visit_spec`, `settle_spec`, `round_spec`, `fill_spec`, `while_spec`, `dep_spec`, `forBV_spec`, `runBW_spec`, `back_spec`, `src_spec`, `sources_spec`, `link_edge_betweenness_bin` | `Between.binLoop`, `binBack`, `betweennessBin`; `push`, `relaxB`, `settle false`, `bfsLoop`, `fillFront`, `backInner`, `backOuter`, `source false`, `brandes false` |
| char (C03) | `Model/CoreIRChar.lean` | `CoresChar`: `pre_spec`, `tail_spec`, `meanC_spec`, `rowMax_spec`, `link_charpath` | `Dist.charpath`, `meanExt`, `eccCells`, `eccOf`, `radiusDiameter` |
| eff (C03) | `Model/CoreIREff.lean` (statement language of `Model/CoreIRBin.lean`) | `CoresEff`: `body_spec`, `loop_spec`, `inner_spec`, `sumExt_offDiag`, `link_efficiency_bin` | `Dist.binLoop`, `binRaw`, `distBin`, `meanInvOff`, `efficiencyBin` |
| eff, `efficiency_wei` global part (C03, C10) | `Model/CoreIRDinv.lean` (statement language and interpreter of `Model/CoreIRDijk.lean`), `Model/CoreIREffW.lean` | `CoresDinv`: `block_envD`, `forNodesD_spec`, `settleD_spec`, `tailD_spec`, `passD_spec`, `whileD_spec`, `rowD_spec`, `rowsD_spec`, `link_dinv_dijk`; `CoresEffW`: `Gl_eq`, `lenMat_inv`, `invMatOf_ext`, `sum_inv`, `link_efficiency_wei` | `Dist.relaxFrom`, `settle`, `minOver`, `dLoop`, `dRow`, `dijkstra` (distances), `lenMat .inv`, `meanInvOff`, `efficiencyWei` |
| eff, `efficiency_wei` local branches (C03, C10) | `Model/CoreIRLocW.lean` (nested function through `Model/CoreIREffW.lean`) | `CoresLocW`: `allFin_embG`, `Wq_eq`, `cells_all`, `inv_isFin`, `node_spec`, `link_efficiency_wei_local` | `LocalEff.nbrs`, `subMat`, `links`, `core`, `invCell`, `effWeiNode`; `Dist.lenMat`, `dijkstra` |
| eff, local branch (C03) | `Model/CoreIRLoc.lean` (nested function and statement language of `Model/CoreIRBin.lean`) | `CoresLoc`: `subV_numM`, `binarize_sub`, `finiteInv_distOf`, `invCell_distOf`, `node_spec`, `link_efficiency_bin_local` | `LocalEff.nbrs`, `subMat`, `links`, `core`, `effBinOn`, `effBinNode` (`Dist.distBin` on the neighbourhood) |
| walks (C18) | `Model/CoreIRWalks.lean` (expressions of `Model/CoreIRClust.lean`) | `CoresWalks`: `pre_spec`, `tail_spec`, `link_pagerank`, `link_pagerank_model`, `solve_diag_unique`, `link_mfpt_model` | `Walks.colDeg`, `prMat`, `prior`, `solves`, `pagerank`; `Walks.transition`, `fundArg`, `isInvOf`, `mfpt` |
| modq (C02, C07) | `Model/CoreIRMod.lean` (expressions of `Model/CoreIRClust.lean`), `Model/CoreIRPin.lean` | `CoresMod`: `link_mod_und`, `link_mod_dir` (the other routines of the family are source pins without link theorems) | `Modularity.modularityUndGiven`, `modularityDirGiven` |
| synth (C20) | `Model/CoreIRSynth.lean`, `Model/CoreIRPin.lean` | `CoresSynth`: `triu_diff`, `step_spec`, `loop_spec`, `removeI_spec`, `link_makeringlattice`; `sliceSet_fill`, `fill_fold`, `fillI_eq`, `drawSw_eq`, `accept_spec`, `repair_spec`, `placeAll_spec`, `link_degreesfixed` | `Synth.superDiag`, `band`, `ringFill`, `removeExcess`, `ringLattice`; `Synth.stubs`, `fitTo`, `drawUntried`, `applySwitch`, `repair`, `placeEdge`, `placeAll`, `degreesFixed` |
| modq, node-moving pass (C02, C07) | `Model/CoreIRLouv.lean` | `CoresLouv`: `link_init_und`, `visit_und`, `pass_of_visit`, `link_pass_und`, `link_init_dir`, `visit_dir`, `link_pass_dir` | `Modularity.undInitLevel`, `dirInitLevel`, `undKern`, `dirKern`, `gainVec`, `argmaxFirst`, `chooseWith` (plain replay), `visit`, `pass` |
| nullm (C06) | `Model/CoreIRNull.lean`, `Model/CoreIRPin.lean` | `CoresNull`: `innerLoop_spec`, `roundI_spec`, `loopI_spec`, `signI_spec`, `link_null`, `link_null_und`, `link_null_dir` (the four correlations at the end and the callees `randmio_*_signed` are source pins) | `Signed.dealRound`, `dealLoop`, `dealSign`, `writeAsg`, `cellsWhere`, `sortedWeights`, `nullModel` |
| nbs (C19) | `Model/CoreIRNbs.lean`, `Model/CoreIRPin.lean` | `CoresNbs`: `varOr_cast`, `ss_cast`, `ssd_eq_pairedSS`, `runT2_spec`, `runPair_spec`, `link_tstat` (numbers read as reals, `Real.sqrt`; the rest of `nbs_bct` is a source pin) | `Nbs.exceeds2`, `exceedsP`, `exceeds` (`pooledV`, `pairedSS`, `gtSqrt`, `tnum`) |
| clust (C09) | `Model/CoreIRClust.lean` | `CoresClust`: `perNode_cell`, `link_cc_bd`, `link_cc_wd`, `link_cc_wu`, `link_cc_bu`, `link_trans_bd`, `link_trans_bu`, `link_trans_wd`, `link_trans_wu` | `Cluster.ccBd`, `ccWd`, `ccWu`, `ccBu`, `transBd`, `transBu`, `transWd`, `transWu` (`perNode`, `gdiv`, `ccFagiolo`, `transFagiolo`) |
| clust, signed (C09) | `Model/CoreIRSign.lean` (whole-array statements of `Model/CoreIRClust.lean`) | `CoresSign`: `link_sign_default`, `link_sign_zhang`, `link_sign_cost`, `link_sign_Zhang`, `link_sign_Cost`, `link_sign_other` | `Cluster.zeroDiag`, `posPart`, `negPart`, `ccWu`, `ccSignDefault`, `zhangCore`, `ccSignZhang`, `ccSignCost` |
| reach (C03) | `Model/CoreIRReach.lean` | `CoresReach`: `step_spec`, `rec_spec`, `link_reachdist` | `Dist.reachStep`, `reachGo`, `reachOutCell`, `reachdist` |
| util (C17, C06) | `Model/CoreIRUtil.lean` | `CoresUtil`: `link_teachers_round`, `link_threshold_absolute`, `link_binarize`, `link_normalize`, `link_invert`, `link_logtransform`, `link_cuberoot`, `link_pick_four`, `link_weight_conversion`; `CoresTp` (`Model/CoreIRTp.lean`): `link_threshold_proportional` | `Thresh.teachersRound/thresholdAbsolute/binarize/normalize/invert/weightConversion/thresholdProportional`, `Signed.pickFour` |

-/
