import BctVerif.Lemmas.RewireInv
import BctVerif.Model.Kernel

/-!
# C01 (second tie) — the verified symbolic executor for source-extracted swap kernels

`translate/kernels.py` re-extracts, on every check run, the literal assignment lists of the twelve
rewiring routines of `/repo/bct/algorithms/reference.py` into `BctVerif/Gen/Kernels.lean`, with one
obligation `kernelOk kernel_<routine> = true := by decide` per routine.  This file proves, once and for
every kernel, what a passed check means:

* `lift` — for any assignment list and any injective placement `ρ` of the names `a b c d` into `Fin n`,
  concrete execution on `AMat Int n` (`AMat.set` / `AMat.get`, program order) agrees cell by cell with the
  symbolic execution over the 16 cells `{a,b,c,d}²` and leaves every other cell alone;
* `link_dir`, `link_und` — **the link**: `kernelOk ker = true` implies that the extracted assignments,
  executed concretely at any four distinct nodes, compute exactly `Rewire.swapDir` / `Rewire.swapUnd`, the
  functions the C01 theorems (`swapDir_inv`, `swapUnd_inv`, `attempt_inv`, `runBudget_spec`) are about;
* `link_edges`, `link_flip` — the extracted edge-list rewrites compute exactly the `i`,`j` of
  `RewireInv.afterSwap` (`j[e1] = d; j[e2] = b`) resp. `RewireInv.flip`;
* `link_state_dir`, `link_state_und` — hence the whole accepted-swap block of the source equals `afterSwap`;
* `link_guard`, `link_lat` — the extracted guard cells / lattice products evaluate to the model's tests;
* `link_dirSigned`, `link_undSigned` — the signed kernels exchange the four saved values.
-/

namespace Bct.C01Kernel
open Bct Bct.Kernel

variable {n k : ℕ}

theorem symEq_sound {S T : SymState} (h : symEq S T = true) (x : Cell) : S x = T x := by
  simp only [symEq, List.all_eq_true, List.mem_finRange, true_imp_iff, beq_iff_eq] at h
  exact h x.1 x.2

/-- a concrete cell that carries a symbolic name -/
def Named (ρ : Sym → Fin n) (i j : Fin n) : Prop := ∃ x : Cell, ρ x.1 = i ∧ ρ x.2 = j

theorem lift_aux (ρ : Sym → Fin n) (hρ : Function.Injective ρ) (R0 : AMat Int n) :
    ∀ (as : List Assign) (S : SymState) (R' : AMat Int n),
      (∀ x : Cell, R'.get (ρ x.1) (ρ x.2) = evalVal ρ R0 (S x)) →
      (∀ i j, ¬ Named ρ i j → R'.get i j = R0.get i j) →
      (∀ x : Cell, (as.foldl (conStep ρ R0) R').get (ρ x.1) (ρ x.2) = evalVal ρ R0 (as.foldl symStep S x)) ∧
      (∀ i j, ¬ Named ρ i j → (as.foldl (conStep ρ R0) R').get i j = R0.get i j) := by
  intro as
  induction as with
  | nil => intro S R' h1 h2; exact ⟨h1, h2⟩
  | cons x as ih =>
    intro S R' h1 h2
    simp only [List.foldl_cons]
    apply ih (symStep S x) (conStep ρ R0 R' x)
    · intro y
      have hv : srcGet ρ R0 R' x.src = evalVal ρ R0 (srcVal S x.src) := by
        cases x.src with
        | cell s => exact h1 s
        | saved s => rfl
        | const v => rfl
      simp only [conStep, symStep, AMat.get_set]
      by_cases hy : y = x.dst
      · subst hy; simp [hv]
      · have : ¬ (ρ y.1 = ρ x.dst.1 ∧ ρ y.2 = ρ x.dst.2) := by
          intro ⟨e1, e2⟩
          exact hy (Prod.ext (hρ e1) (hρ e2))
        simp [this, hy, h1 y]
    · intro i j hij
      simp only [conStep, AMat.get_set]
      have : ¬ (i = ρ x.dst.1 ∧ j = ρ x.dst.2) := by
        intro ⟨e1, e2⟩; exact hij ⟨x.dst, e1.symm, e2.symm⟩
      simp [this, h2 i j hij]

/-- **Soundness of the symbolic executor.**  For every assignment list, every injective placement of
`a b c d` and every matrix: the concrete result agrees with the symbolic result on the 16 named cells
and equals the input everywhere else. -/
theorem lift (ρ : Sym → Fin n) (hρ : Function.Injective ρ) (R : AMat Int n) (as : List Assign) :
    (∀ x : Cell, (conExec ρ as R).get (ρ x.1) (ρ x.2) = evalVal ρ R (symExec as x)) ∧
    (∀ i j, ¬ Named ρ i j → (conExec ρ as R).get i j = R.get i j) :=
  lift_aux ρ hρ R as (fun x => Val.tok x) R (fun _ => rfl) (fun _ _ _ => rfl)

/-- two assignment lists with the same symbolic result compute the same matrix function -/
theorem conExec_congr (ρ : Sym → Fin n) (hρ : Function.Injective ρ) (R : AMat Int n) (as bs : List Assign)
    (h : ∀ x, symExec as x = symExec bs x) : conExec ρ as R = conExec ρ bs R := by
  apply AMat.ext_get
  intro i j
  have la := lift ρ hρ R as
  have lb := lift ρ hρ R bs
  by_cases hn : Named ρ i j
  · obtain ⟨x, rfl, rfl⟩ := hn
    rw [la.1 x, lb.1 x, h x]
  · rw [la.2 i j hn, lb.2 i j hn]

/-- what a passed check says about the cells, for every kind of routine -/
theorem kernelOk_cells (ker : Kernel) (hok : kernelOk ker = true) (ρ : Sym → Fin n)
    (hρ : Function.Injective ρ) (R : AMat Int n) :
    (∀ x : Cell, (conExec ρ ker.assigns R).get (ρ x.1) (ρ x.2) = evalVal ρ R (expected ker.kind x)) ∧
    (∀ i j, ¬ Named ρ i j → (conExec ρ ker.assigns R).get i j = R.get i j) := by
  have hc : cellsOk ker = true := by
    simp only [kernelOk, Bool.and_eq_true] at hok
    exact hok.1.2
  have l := lift ρ hρ R ker.assigns
  refine ⟨fun x => ?_, l.2⟩
  rw [l.1 x, symEq_sound hc x]

/-! ### placement of four distinct nodes -/

theorem sym_cases (x : Sym) : x = a ∨ x = b ∨ x = c ∨ x = d := by
  revert x; decide

@[simp] theorem place_a (na nb nc nd : Fin n) : place na nb nc nd a = na := rfl
@[simp] theorem place_b (na nb nc nd : Fin n) : place na nb nc nd b = nb := rfl
@[simp] theorem place_c (na nb nc nd : Fin n) : place na nb nc nd c = nc := rfl
@[simp] theorem place_d (na nb nc nd : Fin n) : place na nb nc nd d = nd := rfl

theorem place_injective (na nb nc nd : Fin n)
    (hab : na ≠ nb) (hac : na ≠ nc) (had : na ≠ nd) (hbc : nb ≠ nc) (hbd : nb ≠ nd) (hcd : nc ≠ nd) :
    Function.Injective (place na nb nc nd) := by
  intro x y h
  rcases sym_cases x with rfl | rfl | rfl | rfl <;> rcases sym_cases y with rfl | rfl | rfl | rfl <;>
    simp only [place_a, place_b, place_c, place_d] at h <;>
    first
      | rfl
      | exact absurd h hab | exact absurd h.symm hab | exact absurd h hac | exact absurd h.symm hac
      | exact absurd h had | exact absurd h.symm had | exact absurd h hbc | exact absurd h.symm hbc
      | exact absurd h hbd | exact absurd h.symm hbd | exact absurd h hcd | exact absurd h.symm hcd

/-! ### the reference kernels are the model's functions -/

theorem conExec_refDir (ρ : Sym → Fin n) (R : AMat Int n) :
    conExec ρ refDir R = Rewire.swapDir R (ρ a) (ρ b) (ρ c) (ρ d) := rfl

theorem conExec_refUnd (ρ : Sym → Fin n) (R : AMat Int n) :
    conExec ρ refUnd R = Rewire.swapUnd R (ρ a) (ρ b) (ρ c) (ρ d) := rfl

theorem symExec_refDir : symEq (symExec refDir) expectedDir = true := by decide
theorem symExec_refUnd : symEq (symExec refUnd) expectedUnd = true := by decide

theorem cells_of_ok (ker : Kernel) (hok : kernelOk ker = true) : cellsOk ker = true := by
  simp only [kernelOk, Bool.and_eq_true] at hok
  exact hok.1.2

/-- **Link theorem, directed.**  A source kernel of a directed routine that passes the generated check
computes — at any four distinct nodes of any matrix of any size — exactly `Rewire.swapDir`. -/
theorem link_dir (ker : Kernel) (hk : ker.kind = .dir) (hok : kernelOk ker = true)
    (R : AMat Int n) (na nb nc nd : Fin n)
    (hab : na ≠ nb) (hac : na ≠ nc) (had : na ≠ nd) (hbc : nb ≠ nc) (hbd : nb ≠ nd) (hcd : nc ≠ nd) :
    conExec (place na nb nc nd) ker.assigns R = Rewire.swapDir R na nb nc nd := by
  have hρ := place_injective na nb nc nd hab hac had hbc hbd hcd
  have hc := cells_of_ok ker hok
  rw [cellsOk, hk] at hc
  have := conExec_congr (place na nb nc nd) hρ R ker.assigns refDir
    (fun x => by rw [symEq_sound hc x, symEq_sound symExec_refDir x]; rfl)
  rw [this, conExec_refDir]; rfl

/-- **Link theorem, undirected.** -/
theorem link_und (ker : Kernel) (hk : ker.kind = .und) (hok : kernelOk ker = true)
    (R : AMat Int n) (na nb nc nd : Fin n)
    (hab : na ≠ nb) (hac : na ≠ nc) (had : na ≠ nd) (hbc : nb ≠ nc) (hbd : nb ≠ nd) (hcd : nc ≠ nd) :
    conExec (place na nb nc nd) ker.assigns R = Rewire.swapUnd R na nb nc nd := by
  have hρ := place_injective na nb nc nd hab hac had hbc hbd hcd
  have hc := cells_of_ok ker hok
  rw [cellsOk, hk] at hc
  have := conExec_congr (place na nb nc nd) hρ R ker.assigns refUnd
    (fun x => by rw [symEq_sound hc x, symEq_sound symExec_refUnd x]; rfl)
  rw [this, conExec_refUnd]; rfl

/-! ### signed kernels: the exchange of the four saved values -/

theorem conExec_refDirSigned (ρ : Sym → Fin n) (R : AMat Int n) :
    conExec ρ refDirSigned R = swapDirSigned R (ρ a) (ρ b) (ρ c) (ρ d) := rfl
theorem conExec_refUndSigned (ρ : Sym → Fin n) (R : AMat Int n) :
    conExec ρ refUndSigned R = swapUndSigned R (ρ a) (ρ b) (ρ c) (ρ d) := rfl
theorem conExec_refBinUnd (ρ : Sym → Fin n) (R : AMat Int n) :
    conExec ρ refBinUnd R = swapBinUnd R (ρ a) (ρ b) (ρ c) (ρ d) := rfl

theorem symExec_refDirSigned : symEq (symExec refDirSigned) expectedDirSigned = true := by decide
theorem symExec_refUndSigned : symEq (symExec refUndSigned) expectedUndSigned = true := by decide
theorem symExec_refBinUnd : symEq (symExec refBinUnd) expectedBinUnd = true := by decide

/-- directed signed routine: a kernel that passes computes `swapDirSigned` — `(a,d) ← R₀(a,b)`,
`(a,b) ← R₀(a,d)`, `(c,b) ← R₀(c,d)`, `(c,d) ← R₀(c,b)` -/
theorem link_dirSigned (ker : Kernel) (hk : ker.kind = .dirSigned) (hok : kernelOk ker = true)
    (R : AMat Int n) (na nb nc nd : Fin n)
    (hab : na ≠ nb) (hac : na ≠ nc) (had : na ≠ nd) (hbc : nb ≠ nc) (hbd : nb ≠ nd) (hcd : nc ≠ nd) :
    conExec (place na nb nc nd) ker.assigns R = swapDirSigned R na nb nc nd := by
  have hρ := place_injective na nb nc nd hab hac had hbc hbd hcd
  have hc := cells_of_ok ker hok
  rw [cellsOk, hk] at hc
  have := conExec_congr (place na nb nc nd) hρ R ker.assigns refDirSigned
    (fun x => by rw [symEq_sound hc x, symEq_sound symExec_refDirSigned x]; rfl)
  rw [this, conExec_refDirSigned]; rfl

/-- undirected signed routine: the same exchange written to both orientations (`swapUndSigned`) -/
theorem link_undSigned (ker : Kernel) (hk : ker.kind = .undSigned) (hok : kernelOk ker = true)
    (R : AMat Int n) (na nb nc nd : Fin n)
    (hab : na ≠ nb) (hac : na ≠ nc) (had : na ≠ nd) (hbc : nb ≠ nc) (hbd : nb ≠ nd) (hcd : nc ≠ nd) :
    conExec (place na nb nc nd) ker.assigns R = swapUndSigned R na nb nc nd := by
  have hρ := place_injective na nb nc nd hab hac had hbc hbd hcd
  have hc := cells_of_ok ker hok
  rw [cellsOk, hk] at hc
  have := conExec_congr (place na nb nc nd) hρ R ker.assigns refUndSigned
    (fun x => by rw [symEq_sound hc x, symEq_sound symExec_refUndSigned x]; rfl)
  rw [this, conExec_refUndSigned]; rfl

/-- `randomizer_bin_und`: a kernel that passes computes the eight 0/1 assignments `swapBinUnd` -/
theorem link_binUnd (ker : Kernel) (hk : ker.kind = .binUnd) (hok : kernelOk ker = true)
    (R : AMat Int n) (na nb nc nd : Fin n)
    (hab : na ≠ nb) (hac : na ≠ nc) (had : na ≠ nd) (hbc : nb ≠ nc) (hbd : nb ≠ nd) (hcd : nc ≠ nd) :
    conExec (place na nb nc nd) ker.assigns R = swapBinUnd R na nb nc nd := by
  have hρ := place_injective na nb nc nd hab hac had hbc hbd hcd
  have hc := cells_of_ok ker hok
  rw [cellsOk, hk] at hc
  have := conExec_congr (place na nb nc nd) hρ R ker.assigns refBinUnd
    (fun x => by rw [symEq_sound hc x, symEq_sound symExec_refBinUnd x]; rfl)
  rw [this, conExec_refBinUnd]; rfl

/-! ### the edge list -/

/-- description of a concrete edge-list pair by symbolic slots over the entry lists -/
def Describes (ρ : Sym → Fin n) (e1 e2 : Fin k) (ij0 ij : EVec n k) (S : Slots) : Prop :=
  ij.1[e1] = ρ (S .i .e1) ∧ ij.2[e1] = ρ (S .j .e1) ∧ ij.1[e2] = ρ (S .i .e2) ∧ ij.2[e2] = ρ (S .j .e2) ∧
  (∀ e : Fin k, e ≠ e1 → e ≠ e2 → ij.1[e] = ij0.1[e] ∧ ij.2[e] = ij0.2[e])

theorem edge_lift (ρ : Sym → Fin n) (e1 e2 : Fin k) (hne : e1 ≠ e2) (ij0 : EVec n k) :
    ∀ (ws : List EdgeWrite) (S : Slots) (ij : EVec n k), Describes ρ e1 e2 ij0 ij S →
      Describes ρ e1 e2 ij0 (ws.foldl (edgeStep ρ e1 e2) ij) (ws.foldl slotStep S) := by
  intro ws
  induction ws with
  | nil => intro S ij h; exact h
  | cons w ws ih =>
    intro S ij h
    simp only [List.foldl_cons]
    apply ih
    obtain ⟨h1, h2, h3, h4, h5⟩ := h
    obtain ⟨ar, ix, v⟩ := w
    have hne' : e2 ≠ e1 := fun hh => hne hh.symm
    cases ar <;> cases ix <;>
      simp only [Describes, edgeStep, slotStep, RewireInv.getElem_set_fin] <;>
      refine ⟨?_, ?_, ?_, ?_, ?_⟩ <;>
      first
        | (intro e he1 he2; have := h5 e he1 he2; simp_all)
        | simp_all

theorem vec_ext_fin {α : Type} {v w : Vector α k} (h : ∀ e : Fin k, v[e] = w[e]) : v = w := by
  apply Vector.ext; intro x hx; exact h ⟨x, hx⟩

/-- a described pair is determined: the two listed entries hold the slot values, the rest is the input -/
theorem describes_eq (ρ : Sym → Fin n) (e1 e2 : Fin k) (hne : e1 ≠ e2) (iv jv : Vector (Fin n) k) (ij : EVec n k)
    (S : Slots) (h : Describes ρ e1 e2 (iv, jv) ij S) :
    ij = ((iv.set e1 (ρ (S .i .e1))).set e2 (ρ (S .i .e2)), (jv.set e1 (ρ (S .j .e1))).set e2 (ρ (S .j .e2))) := by
  obtain ⟨h1, h2, h3, h4, h5⟩ := h
  apply Prod.ext
  · apply vec_ext_fin; intro e
    show ij.1[e] = ((iv.set e1 (ρ (S .i .e1))).set e2 (ρ (S .i .e2)))[e]
    rw [RewireInv.getElem_set_fin, RewireInv.getElem_set_fin]
    by_cases x2 : e = e2
    · subst x2; simp [h3]
    · by_cases x1 : e = e1
      · subst x1; simp [x2, h1]
      · simp only [x1, x2, if_false]; exact (h5 e x1 x2).1
  · apply vec_ext_fin; intro e
    show ij.2[e] = ((jv.set e1 (ρ (S .j .e1))).set e2 (ρ (S .j .e2)))[e]
    rw [RewireInv.getElem_set_fin, RewireInv.getElem_set_fin]
    by_cases x2 : e = e2
    · subst x2; simp [h4]
    · by_cases x1 : e = e1
      · subst x1; simp [x2, h2]
      · simp only [x1, x2, if_false]; exact (h5 e x1 x2).2

theorem set_self_fin {α : Type} (v : Vector α k) (e : Fin k) (x : α) (h : v[e] = x) : v.set e x = v := by
  apply vec_ext_fin; intro e'
  rw [RewireInv.getElem_set_fin]
  by_cases he : e' = e
  · subst he; simp [h]
  · simp [he]

/-- **Link theorem, edge list.**  If the check passed, the extracted `i[·] = …` / `j[·] = …` statements,
run on any edge list whose entries `e1 ≠ e2` hold `(a,b)` and `(c,d)`, leave `i` unchanged and set
`j[e1] = d`, `j[e2] = b` — exactly the edge list of `RewireInv.afterSwap`. -/
theorem link_edges (ker : Kernel) (hok : edgesOk ker = true) (ρ : Sym → Fin n)
    (iv jv : Vector (Fin n) k) (e1 e2 : Fin k) (hne : e1 ≠ e2)
    (ha : iv[e1] = ρ a) (hb : jv[e1] = ρ b) (hc : iv[e2] = ρ c) (hd : jv[e2] = ρ d) :
    edgeExec ρ e1 e2 ker.edges (iv, jv) = (iv, (jv.set e1 (ρ d)).set e2 (ρ b)) := by
  have h0 : Describes ρ e1 e2 (iv, jv) (iv, jv) slots0 :=
    ⟨ha, hb, hc, hd, fun _ _ _ => ⟨rfl, rfl⟩⟩
  have h := edge_lift ρ e1 e2 hne (iv, jv) ker.edges slots0 (iv, jv) h0
  simp only [edgesOk, slotsAre, Bool.and_eq_true, beq_iff_eq] at hok
  obtain ⟨⟨⟨s1, s2⟩, s3⟩, s4⟩ := hok
  have := describes_eq ρ e1 e2 hne iv jv _ _ h
  unfold edgeExec
  rw [this]
  change _ = _
  have t1 : slotExec ker.edges .i .e1 = a := s1
  have t2 : slotExec ker.edges .j .e1 = d := s2
  have t3 : slotExec ker.edges .i .e2 = c := s3
  have t4 : slotExec ker.edges .j .e2 = b := s4
  show ((iv.set e1 (ρ (slotExec ker.edges .i .e1))).set e2 (ρ (slotExec ker.edges .i .e2)),
        (jv.set e1 (ρ (slotExec ker.edges .j .e1))).set e2 (ρ (slotExec ker.edges .j .e2))) = _
  rw [t1, t2, t3, t4, set_self_fin iv e1 _ ha, set_self_fin iv e2 _ hc]

/-- **Link theorem, orientation flip.**  `i[e2] = d; j[e2] = c` as extracted is `RewireInv.flip`. -/
theorem link_flip (ker : Kernel) (hok : flipOk ker = true) (ρ : Sym → Fin n)
    (iv jv : Vector (Fin n) k) (e1 e2 : Fin k) (hne : e1 ≠ e2)
    (ha : iv[e1] = ρ a) (hb : jv[e1] = ρ b) (hc : iv[e2] = ρ c) (hd : jv[e2] = ρ d) :
    edgeExec ρ e1 e2 ker.flip (iv, jv) = (iv.set e2 (ρ d), jv.set e2 (ρ c)) := by
  have h0 : Describes ρ e1 e2 (iv, jv) (iv, jv) slots0 :=
    ⟨ha, hb, hc, hd, fun _ _ _ => ⟨rfl, rfl⟩⟩
  have h := edge_lift ρ e1 e2 hne (iv, jv) ker.flip slots0 (iv, jv) h0
  simp only [flipOk, slotsAre, Bool.and_eq_true, beq_iff_eq] at hok
  obtain ⟨⟨⟨⟨s1, s2⟩, s3⟩, s4⟩, _⟩ := hok
  have := describes_eq ρ e1 e2 hne iv jv _ _ h
  unfold edgeExec
  rw [this]
  have t1 : slotExec ker.flip .i .e1 = a := s1
  have t2 : slotExec ker.flip .j .e1 = b := s2
  have t3 : slotExec ker.flip .i .e2 = d := s3
  have t4 : slotExec ker.flip .j .e2 = c := s4
  show ((iv.set e1 (ρ (slotExec ker.flip .i .e1))).set e2 (ρ (slotExec ker.flip .i .e2)),
        (jv.set e1 (ρ (slotExec ker.flip .j .e1))).set e2 (ρ (slotExec ker.flip .j .e2))) = _
  rw [t1, t2, t3, t4, set_self_fin iv e1 _ ha, set_self_fin jv e1 _ hb]

/-! ### the whole accepted-swap block on the model's state -/

open Bct.Rewire Bct.RewireInv

/-- the extracted block run on a loop state: cells, then edge list, then the counter -/
def conAccepted (ker : Kernel) (s : St n k) (e1 e2 : Fin k) : St n k :=
  let ρ := place (s.iv e1) (s.jv e1) (s.iv e2) (s.jv e2)
  let ij := edgeExec ρ e1 e2 ker.edges (s.i, s.j)
  { R := conExec ρ ker.assigns s.R, i := ij.1, j := ij.2, eff := s.eff + ker.incr }

theorem parts_of_ok_dir (ker : Kernel) (hk : ker.kind = .dir) (hok : kernelOk ker = true) :
    edgesOk ker = true ∧ ker.incr = 1 ∧ ker.guard = stdGuard ∧ latOkShape ker = true := by
  simp only [kernelOk, hk, Bool.and_eq_true, beq_iff_eq] at hok
  exact ⟨hok.2.1.2, hok.2.2, hok.2.1.1.1.1.1.2, hok.2.1.1.2⟩

theorem parts_of_ok_und (ker : Kernel) (hk : ker.kind = .und) (hok : kernelOk ker = true) :
    edgesOk ker = true ∧ ker.incr = 1 ∧ flipOk ker = true ∧ ker.guard = stdGuard ∧ latOkShape ker = true ∧
    (ker.maskGuard = [] ∨ cellsEq ker.maskGuard stdMaskGuard = true) := by
  simp only [kernelOk, hk, Bool.and_eq_true, beq_iff_eq, Bool.or_eq_true] at hok
  exact ⟨hok.2.1.2, hok.2.2, hok.2.1.1.1.1.1.1.2, hok.2.1.1.1.1.1.2, hok.2.1.1.2, hok.2.1.1.1.1.2⟩

/-- **Link theorem, whole block, directed.**  For every loop state and every pair of listed edges with four
distinct endpoints, the source's accepted-swap block equals the model's `afterSwap false` — the state
transformer about which `swapDir_inv` (all C01 clauses preserved) is proved. -/
theorem link_state_dir (ker : Kernel) (hk : ker.kind = .dir) (hok : kernelOk ker = true)
    (s : St n k) (e1 e2 : Fin k)
    (hab : s.iv e1 ≠ s.jv e1) (hac : s.iv e1 ≠ s.iv e2) (had : s.iv e1 ≠ s.jv e2)
    (hbc : s.jv e1 ≠ s.iv e2) (hbd : s.jv e1 ≠ s.jv e2) (hcd : s.iv e2 ≠ s.jv e2) :
    conAccepted ker s e1 e2 = afterSwap false s e1 e2 := by
  have hne : e1 ≠ e2 := fun hh => hac (by rw [hh])
  obtain ⟨he, hi, _, _⟩ := parts_of_ok_dir ker hk hok
  have hE := link_edges ker he (place (s.iv e1) (s.jv e1) (s.iv e2) (s.jv e2)) s.i s.j e1 e2 hne rfl rfl rfl rfl
  have hR := link_dir ker hk hok s.R _ _ _ _ hab hac had hbc hbd hcd
  simp only [conAccepted, afterSwap, hE, hR, hi, place_b, place_d]
  rfl

/-- **Link theorem, whole block, undirected.** -/
theorem link_state_und (ker : Kernel) (hk : ker.kind = .und) (hok : kernelOk ker = true)
    (s : St n k) (e1 e2 : Fin k)
    (hab : s.iv e1 ≠ s.jv e1) (hac : s.iv e1 ≠ s.iv e2) (had : s.iv e1 ≠ s.jv e2)
    (hbc : s.jv e1 ≠ s.iv e2) (hbd : s.jv e1 ≠ s.jv e2) (hcd : s.iv e2 ≠ s.jv e2) :
    conAccepted ker s e1 e2 = afterSwap true s e1 e2 := by
  have hne : e1 ≠ e2 := fun hh => hac (by rw [hh])
  obtain ⟨he, hi, _, _, _, _⟩ := parts_of_ok_und ker hk hok
  have hE := link_edges ker he (place (s.iv e1) (s.jv e1) (s.iv e2) (s.jv e2)) s.i s.j e1 e2 hne rfl rfl rfl rfl
  have hR := link_und ker hk hok s.R _ _ _ _ hab hac had hbc hbd hcd
  simp only [conAccepted, afterSwap, hE, hR, hi, place_b, place_d]
  rfl

/-- the extracted orientation flip run on a loop state is the model's `flip` -/
theorem link_state_flip (ker : Kernel) (hk : ker.kind = .und) (hok : kernelOk ker = true)
    (s : St n k) (e1 e2 : Fin k) (hne : e1 ≠ e2) :
    let ρ := place (s.iv e1) (s.jv e1) (s.iv e2) (s.jv e2)
    edgeExec ρ e1 e2 ker.flip (s.i, s.j) = ((RewireInv.flip s e2).i, (RewireInv.flip s e2).j) := by
  intro ρ
  obtain ⟨_, _, hf, _, _, _⟩ := parts_of_ok_und ker hk hok
  exact link_flip ker hf ρ s.i s.j e1 e2 hne rfl rfl rfl rfl

/-! ### guards -/

/-- the extracted guard cells evaluate to the model's rewiring condition `¬ (R[a,d] ≠ 0 ∨ R[c,b] ≠ 0)` -/
theorem link_guard (ker : Kernel) (hg : ker.guard = stdGuard) (ρ : Sym → Fin n) (R : AMat Int n) :
    guardHolds ρ R ker.guard = true ↔ ¬ (R.get (ρ a) (ρ d) ≠ 0 ∨ R.get (ρ c) (ρ b) ≠ 0) := by
  rw [hg]
  simp [guardHolds, stdGuard]

/-- the extracted mask cells (as a set: both orientations of the two new edges) evaluate to the mask test of
the model's `accept`: `B[a,d] == 0 && B[c,b] == 0 && B[d,a] == 0 && B[b,c] == 0` -/
theorem link_mask (ker : Kernel) (hm : cellsEq ker.maskGuard stdMaskGuard = true) (ρ : Sym → Fin n) (B : AMat Int n) :
    guardHolds ρ B ker.maskGuard =
      (B.get (ρ a) (ρ d) == 0 && B.get (ρ c) (ρ b) == 0 && B.get (ρ d) (ρ a) == 0 && B.get (ρ b) (ρ c) == 0) := by
  simp only [cellsEq, Bool.and_eq_true, List.all_eq_true, List.contains_iff_mem] at hm
  obtain ⟨h1, h2⟩ := hm
  rw [Bool.eq_iff_iff]
  simp only [guardHolds, List.all_eq_true, Bool.and_eq_true, beq_iff_eq]
  constructor
  · intro h
    exact ⟨⟨⟨h (a, d) (h2 _ (by simp [stdMaskGuard])), h (c, b) (h2 _ (by simp [stdMaskGuard]))⟩,
      h (d, a) (h2 _ (by simp [stdMaskGuard]))⟩, h (b, c) (h2 _ (by simp [stdMaskGuard]))⟩
  · rintro ⟨⟨⟨g1, g2⟩, g3⟩, g4⟩ x hx
    have := h1 x hx
    simp only [stdMaskGuard, List.mem_cons, List.not_mem_nil, or_false] at this
    rcases this with rfl | rfl | rfl | rfl
    · exact g1
    · exact g2
    · exact g3
    · exact g4

/-- the extracted lattice products evaluate to the model's `latOk` -/
theorem link_lat (ker : Kernel) (hl : ker.latLhs = stdLatLhs) (hr : ker.latRhs = stdLatRhs)
    (ρ : Sym → Fin n) (D R : AMat Int n) :
    latHolds ρ D R ker = Rewire.latOk D R (ρ a) (ρ b) (ρ c) (ρ d) := by
  simp [latHolds, latSum, hl, hr, stdLatLhs, stdLatRhs, Rewire.latOk]

/-! ### non-vacuity and sensitivity: the reference kernels pass, one-token mutants do not -/

def kerDir : Kernel :=
  { kind := .dir, recognised := true, binds := stdBinds, distinct := stdDistinct, flip := [], rebind := [],
    guard := stdGuard, maskGuard := [], signGuard := [], latLhs := [], latRhs := [], assigns := refDir,
    edges := [⟨.j, .e1, d⟩, ⟨.j, .e2, b⟩], incr := 1 }

example : kernelOk kerDir = true := by decide
/-- defect D2 (`i[e1] = d`) is rejected -/
example : kernelOk { kerDir with edges := [⟨.i, .e1, d⟩, ⟨.j, .e2, b⟩] } = false := by decide
/-- a transposed index (`R[d,c] = 0` for `R[c,d] = 0`) is rejected -/
example : kernelOk { kerDir with assigns :=
    [⟨(a, d), .cell (a, b)⟩, ⟨(a, b), .const 0⟩, ⟨(c, b), .cell (c, d)⟩, ⟨(d, c), .const 0⟩] } = false := by decide
/-- a reordering that reads a cell after it was cleared is rejected -/
example : kernelOk { kerDir with assigns :=
    [⟨(a, b), .const 0⟩, ⟨(a, d), .cell (a, b)⟩, ⟨(c, b), .cell (c, d)⟩, ⟨(c, d), .const 0⟩] } = false := by decide

def kerUnd : Kernel :=
  { kerDir with kind := .und, assigns := refUnd, flip := [⟨.i, .e2, d⟩, ⟨.j, .e2, c⟩],
                rebind := [⟨c, .i, .e2⟩, ⟨d, .j, .e2⟩] }
example : kernelOk kerUnd = true := by decide

/-- the link theorems are not vacuous: a concrete matrix, four distinct nodes -/
example : conExec (place (0 : Fin 5) 1 3 4) kerDir.assigns (AMat.ofFn fun i j => (i.val * 5 + j.val : Int))
    = Rewire.swapDir (AMat.ofFn fun i j => (i.val * 5 + j.val : Int)) 0 1 3 4 :=
  link_dir kerDir rfl (by decide) _ 0 1 3 4 (by decide) (by decide) (by decide) (by decide) (by decide) (by decide)

end Bct.C01Kernel
