import BctVerif.Model.CoreIREbc
import Mathlib.Tactic.Ring
import Mathlib.Tactic.Push
import Mathlib.Data.List.Basic
import Mathlib.Data.Rat.Defs
import Mathlib.Algebra.Order.Field.Rat

/-!
# C08 (second tie) — link theorem for the source-extracted `edge_betweenness_bin`
-/

namespace Bct.Cores.Ebc
open Bct Bct.Between Bct.CoreIR.Ebc

variable {n : ℕ}

/-! ## how the interpreter sees the model's state -/

def embM (A : AMat ℕ n) : AMat ℚ n := AMat.ofFn fun i j => (A.get i j : ℚ)
/-- `D` of the binary routine is a flag: `some _` is `1`, `none` is `0` -/
def embD (D : Vector (Option ℕ) n) : Vector ℚ n := Vector.ofFn fun i => if D[i].isSome then 1 else 0
def embNP (v : Vector ℕ n) : Vector ℚ n := Vector.ofFn fun i => (v[i] : ℚ)
def embP (P : AMat Bool n) : AMat ℚ n := AMat.ofFn fun i j => if P.get i j then 1 else 0
def embQ (Q : Vector ℕ n) : Vector ℤ n := Q.map fun (k : ℕ) => (k : ℤ)

@[simp] theorem embM_get (A : AMat ℕ n) (i j : Fin n) : (embM A).get i j = (A.get i j : ℚ) := by simp [embM]
@[simp] theorem embP_get (P : AMat Bool n) (i j : Fin n) : (embP P).get i j = if P.get i j then 1 else 0 := by simp [embP]
@[simp] theorem embD_get (D : Vector (Option ℕ) n) (i : ℕ) (h : i < n) : (embD D)[i] = if D[i].isSome then 1 else 0 := by simp [embD]
@[simp] theorem embNP_get (v : Vector ℕ n) (i : ℕ) (h : i < n) : (embNP v)[i] = (v[i] : ℚ) := by simp [embNP]
@[simp] theorem embQ_get (v : Vector ℕ n) (i : ℕ) (h : i < n) : (embQ v)[i] = (v[i] : ℤ) := by simp [embQ]

theorem embD_set (D : Vector (Option ℕ) n) (w : Fin n) : embD (D.set w (some 1)) = (embD D).set w 1 := by
  apply Vector.ext; intro i hi
  by_cases h : (w : ℕ) = i <;> simp [embD, Vector.getElem_set, h]

theorem embNP_set (v : Vector ℕ n) (w : Fin n) (x : ℕ) : embNP (v.set w x) = (embNP v).set w (x : ℚ) := by
  apply Vector.ext; intro i hi
  by_cases h : (w : ℕ) = i <;> simp [embNP, Vector.getElem_set, h]

theorem embP_set (P : AMat Bool n) (w v : Fin n) : embP (P.set w v true) = (embP P).set w v 1 := by
  apply AMat.ext_get; intro i j
  simp only [embP_get, AMat.get_set]
  split <;> simp [*]

theorem embQ_set (Q : Vector ℕ n) (k : ℕ) (x : ℕ) (h : k < n) : embQ (Q.set k x h) = (embQ Q).set k (x : ℤ) h := by
  apply Vector.ext; intro i hi
  by_cases h' : k = i <;> simp [embQ, h']

theorem idx_fin (v : Fin n) : idx (n := n) (.int (v.val : ℤ)) = some v := by
  have h : 0 ≤ ((v.val : ℕ) : ℤ) ∧ ((v.val : ℕ) : ℤ).toNat < n := ⟨by omega, by simp⟩
  simp only [idx, h, and_self, dite_true, Option.some.injEq]
  apply Fin.ext; simp

/-! ## the forward pass -/

/-- the environment holds the per-source state of `Between.bfsLoop` and the accumulators -/
def Fwd (E : Env n) (G : AMat ℕ n) (a : Acc n) (st : SrcSt n) : Prop :=
  E.mat "G" = some (embM G) ∧ E.sc "n" = some (.int n) ∧ E.vec "BC" = some a.BC ∧ E.mat "EBC" = some a.EBC ∧
  E.vec "D" = some (embD st.D) ∧ E.vec "NP" = some (embNP st.NP) ∧ E.mat "P" = some (embP st.P) ∧
  E.ivec "Q" = some (embQ st.Q) ∧ E.sc "q" = some (.int ((st.q : ℤ) - 1)) ∧ E.mat "Gu" = some (embM st.G1) ∧ st.q ≤ n

/-- body of `for w in W:` is `relaxB` -/
theorem relax_spec (E : Env n) (G : AMat ℕ n) (a : Acc n) (st : SrcSt n) (v w : Fin n) (h : Fwd E G a st)
    (hv : E.sc "v" = some (.int v.val)) (hw : E.sc "w" = some (.int w.val)) :
    ∃ E', runW refIR E = some E' ∧ Fwd E' G a (relaxB v st w) ∧ E'.sc = E.sc ∧ E'.lst = E.lst := by
  obtain ⟨hG, hn, hBC, hEBC, hD, hNP, hP, hQ, hq, hGu, hqn⟩ := h
  by_cases hs : st.D[(w : ℕ)].isSome = true
  · refine ⟨?E1, ?h1, ?h2⟩
    case h1 =>
      simp [runW, refIR, evalCond, eval, execs, exec, evalIdx, hv, hw, idx_fin, hD, hNP, hP, hs, SV.toRat]
      rfl
    case h2 =>
      refine ⟨⟨by simp [hG], by simp [hn], by simp [hBC], by simp [hEBC], by simp [hD, relaxB, hs], ?_, ?_, by simp [hQ, relaxB, hs],
        by simp [hq, relaxB, hs], by simp [hGu, relaxB, hs], by simp [relaxB, hs, hqn]⟩, rfl, rfl⟩
      · simp [relaxB, hs, embNP_set]
      · simp [relaxB, hs, embP_set]
  · have hs' : st.D[(w : ℕ)].isSome = false := by simpa using hs
    refine ⟨?E2, ?h3, ?h4⟩
    case h3 =>
      simp [runW, refIR, evalCond, eval, execs, exec, evalIdx, hv, hw, idx_fin, hD, hNP, hP, hs', SV.toRat]
      rfl
    case h4 =>
      refine ⟨⟨by simp [hG], by simp [hn], by simp [hBC], by simp [hEBC], ?_, ?_, ?_, by simp [hQ, relaxB, hs'],
        by simp [hq, relaxB, hs'], by simp [hGu, relaxB, hs'], by simp [relaxB, hs', hqn]⟩, rfl, rfl⟩
      · simp [relaxB, hs', embD_set]
      · simp [relaxB, hs', embNP_set]
      · simp [relaxB, hs', embP_set]

theorem Fwd.setSc {E : Env n} {G : AMat ℕ n} {a : Acc n} {st : SrcSt n} (h : Fwd E G a st) (x : String) (hx1 : x ≠ "n")
    (hx2 : x ≠ "q") (s : SV) : Fwd ({ E with sc := fun y => if y = x then some s else E.sc y } : Env n) G a st := by
  obtain ⟨hG, hn, hBC, hEBC, hD, hNP, hP, hQ, hq, hGu, hqn⟩ := h
  exact ⟨hG, by simp [hn, Ne.symm hx1], hBC, hEBC, hD, hNP, hP, hQ, by simp [hq, Ne.symm hx2], hGu, hqn⟩

/-- `for w in W:` is the fold of `relaxB` -/
theorem forW_spec (G : AMat ℕ n) (a : Acc n) (v : Fin n) : ∀ (W : List (Fin n)) (E : Env n) (st : SrcSt n), Fwd E G a st →
    E.sc "v" = some (.int v.val) →
    ∃ E', forList "w" (runW refIR) W E = some E' ∧ Fwd E' G a (W.foldl (relaxB v) st) ∧
      (∀ y, y ≠ "w" → E'.sc y = E.sc y) ∧ E'.lst = E.lst := by
  intro W
  induction W with
  | nil => intro E st h _; exact ⟨E, rfl, h, fun _ _ => rfl, rfl⟩
  | cons w ws ih =>
    intro E st h hv
    obtain ⟨E1, e1, s1, f1, l1⟩ := relax_spec _ G a st v w (h.setSc "w" (by decide) (by decide) (.int w.val))
      (by simpa using hv) (by simp)
    obtain ⟨E2, e2, s2, f2, l2⟩ := ih E1 _ s1 (by rw [f1]; simpa using hv)
    refine ⟨E2, by simp only [forList, e1, e2], s2, ?_, by rw [l2, l1]⟩
    intro y hy
    rw [f2 y hy, f1]; simp [hy]

theorem cast_bne (a : ℕ) : ((a : ℚ) != 0) = (a != 0) := by simp [bne]

theorem idx_q (q : ℕ) : idx (n := n) (.int ((q : ℤ) - 1)) = if h : 0 < q ∧ q - 1 < n then some ⟨q - 1, h.2⟩ else none := by
  unfold idx
  by_cases h : 0 < q ∧ q - 1 < n
  · have h' : 0 ≤ (q : ℤ) - 1 ∧ ((q : ℤ) - 1).toNat < n := by omega
    simp only [h, h', and_self, dite_true, Option.some.injEq]
    apply Fin.ext; simp only []; omega
  · have h' : ¬ (0 ≤ (q : ℤ) - 1 ∧ ((q : ℤ) - 1).toNat < n) := by omega
    simp only [h, h', dite_false]

/-- `Q[q] = v; q -= 1; W, = np.where(Gu[v, :])` is `push` and `nbrs` -/
theorem visit_spec (E : Env n) (G : AMat ℕ n) (a : Acc n) (st : SrcSt n) (v : Fin n) (h : Fwd E G a st)
    (hv : E.sc "v" = some (.int v.val)) :
    match push st v with
    | .error _ => execs refIR.visit E = none
    | .ok st1 => ∃ E1, execs refIR.visit E = some E1 ∧ Fwd E1 G a st1 ∧ E1.lst "W" = some (nbrs st1.G1 v) ∧
        (∀ y, y ≠ "q" → E1.sc y = E.sc y) ∧ (∀ y, y ≠ "W" → E1.lst y = E.lst y) := by
  obtain ⟨hG, hn, hBC, hEBC, hD, hNP, hP, hQ, hq, hGu, hqn⟩ := h
  unfold push
  by_cases hp : 0 < st.q ∧ st.q - 1 < n
  · simp only [hp, and_self, dite_true]
    refine ⟨?E1, ?h1, ?h2⟩
    case h1 =>
      simp [refIR, execs, exec, evalIdx, eval, hq, hv, hQ, hGu, idx_q, hp, idx_fin, SV.sub]
      rfl
    case h2 =>
      refine ⟨⟨by simp [hG], by simp [hn], by simp [hBC], by simp [hEBC], by simp [hD], by simp [hNP], by simp [hP], ?_, ?_,
        by simp [hGu], by simp only []; omega⟩, ?_, by intro y hy; simp [hy], by intro y hy; simp [hy]⟩
      · simp [embQ_set]
      · simp only [if_true, Option.some.injEq, SV.int.injEq]; omega
      · simp [nbrs, cast_bne]
  · simp only [hp, dite_false]
    simp [refIR, execs, exec, evalIdx, eval, hq, hv, hQ, idx_q, hp]

/-- body of `for v in V:` -/
theorem runV_spec (E : Env n) (G : AMat ℕ n) (a : Acc n) (st : SrcSt n) (v : Fin n) (h : Fwd E G a st)
    (hv : E.sc "v" = some (.int v.val)) :
    match push st v with
    | .error _ => runV refIR E = none
    | .ok st1 => ∃ E', runV refIR E = some E' ∧ Fwd E' G a ((nbrs st1.G1 v).foldl (relaxB v) st1) ∧
        (∀ y, y ≠ "q" → y ≠ "w" → E'.sc y = E.sc y) ∧ (∀ y, y ≠ "W" → E'.lst y = E.lst y) := by
  have hvis := visit_spec E G a st v h hv
  cases hp : push st v with
  | error e => rw [hp] at hvis; simp only [runV, hvis]
  | ok st1 =>
    rw [hp] at hvis
    obtain ⟨E1, e1, s1, hW, f1, l1⟩ := hvis
    obtain ⟨E2, e2, s2, f2, l2⟩ := forW_spec G a v (nbrs st1.G1 v) E1 st1 s1 (by rw [f1 "v" (by decide)]; exact hv)
    refine ⟨E2, ?_, s2, ?_, ?_⟩
    · simp only [runV, e1, show refIR.wIter = "W" from rfl, hW, show refIR.wVar = "w" from rfl, e2]
    · intro y hq hw; rw [f2 y hw, f1 y hq]
    · intro y hy; rw [l2, l1 y hy]

/-- `for v in V:` is `settle false` -/
theorem settle_spec (G : AMat ℕ n) (a : Acc n) : ∀ (V : List (Fin n)) (E : Env n) (st : SrcSt n), Fwd E G a st →
    match settle false V st with
    | .error _ => forList "v" (runV refIR) V E = none
    | .ok st' => ∃ E', forList "v" (runV refIR) V E = some E' ∧ Fwd E' G a st' ∧
        (∀ y, y ≠ "q" → y ≠ "w" → y ≠ "v" → E'.sc y = E.sc y) ∧ (∀ y, y ≠ "W" → E'.lst y = E.lst y) := by
  intro V
  induction V with
  | nil => intro E st h; exact ⟨E, rfl, h, fun _ _ _ _ => rfl, fun _ _ => rfl⟩
  | cons v vs ih =>
    intro E st h
    have hv := runV_spec _ G a st v (h.setSc "v" (by decide) (by decide) (.int v.val)) (by simp)
    simp only [settle, forList]
    cases hp : push st v with
    | error e => rw [hp] at hv; simp only [hv]
    | ok st1 =>
      rw [hp] at hv
      obtain ⟨E1, e1, s1, f1, l1⟩ := hv
      simp only [e1, Bool.false_eq_true, if_false]
      have hi := ih E1 _ s1
      cases hs : settle false vs (List.foldl (relaxB v) st1 (nbrs st1.G1 v)) with
      | error e => rw [hs] at hi; exact hi
      | ok st' =>
        rw [hs] at hi
        obtain ⟨E2, e2, s2, f2, l2⟩ := hi
        refine ⟨E2, e2, s2, ?_, ?_⟩
        · intro y hq hw hv'; rw [f2 y hq hw hv', f1 y hq hw]; simp [hv']
        · intro y hy; rw [l2 y hy, l1 y hy]

/-- the statements of one round of `while V.size:` -/
def roundI (E : Env n) : Option (Env n) :=
  match execs refIR.clear E with
  | some E1 => match E1.lst "V" with
    | some V => match forList "v" (runV refIR) V E1 with
      | some E2 => execs refIR.next E2
      | none => none
    | none => none
  | none => none

theorem whileFront_cons (f : ℕ) (E : Env n) (v : Fin n) (vs : List (Fin n)) (h : E.lst "V" = some (v :: vs)) :
    whileFront refIR (f + 1) E = match roundI E with
      | some E3 => whileFront refIR f E3
      | none => none := by
  simp only [whileFront, roundI, show refIR.front = "V" from rfl, h, show refIR.vIter = "V" from rfl,
    show refIR.vVar = "v" from rfl]
  cases execs refIR.clear E with
  | none => rfl
  | some E1 =>
    simp only []
    cases E1.lst "V" with
    | none => rfl
    | some V =>
      simp only []
      cases forList "v" (runV refIR) V E1 with
      | none => rfl
      | some E2 => rfl

/-- one round of `while V.size:` with a non-empty front -/
theorem round_spec (E : Env n) (G : AMat ℕ n) (a : Acc n) (st : SrcSt n) (V : List (Fin n)) (h : Fwd E G a st)
    (hV : E.lst "V" = some V) :
    match settle false V { st with G1 := clearCols st.G1 V } with
    | .error _ => roundI E = none
    | .ok st1 => ∃ E3, roundI E = some E3 ∧ Fwd E3 G a st1 ∧
        E3.lst "V" = some ((List.finRange n).filter fun j => V.any fun v => st1.G1.get v j != 0) := by
  obtain ⟨hG, hn, hBC, hEBC, hD, hNP, hP, hQ, hq, hGu, hqn⟩ := h
  have hc : ∃ E1, execs refIR.clear E = some E1 ∧ Fwd E1 G a { st with G1 := clearCols st.G1 V } ∧ E1.lst = E.lst ∧ E1.sc = E.sc := by
    refine ⟨?E1, ?h1, ?h2⟩
    case h1 =>
      simp [refIR, execs, exec, hGu, hV]
      rfl
    case h2 =>
      refine ⟨⟨by simp [hG], hn, hBC, by simp [hEBC], hD, hNP, by simp [hP], hQ, hq, ?_, hqn⟩, rfl, rfl⟩
      simp only [if_true, Option.some.injEq]
      apply AMat.ext_get; intro i j
      simp only [AMat.get_ofFn, embM_get, clearCols]
      by_cases hj : V.contains j = true
      · simp
      · have hj' : V.contains j = false := by simpa using hj
        simp
  obtain ⟨E1, e1, s1, l1, f1⟩ := hc
  have hs := settle_spec G a V E1 _ s1
  have hV1 : E1.lst "V" = some V := by rw [l1, hV]
  simp only [roundI, e1, hV1]
  cases hst : settle false V { st with G1 := clearCols st.G1 V } with
  | error e => rw [hst] at hs; simp only [hs]
  | ok st1 =>
    rw [hst] at hs
    obtain ⟨E2, e2, s2, f2, l2⟩ := hs
    simp only [e2]
    have hV2 : E2.lst "V" = some V := by rw [l2 "V" (by decide), l1, hV]
    obtain ⟨hG2, hn2, hBC2, hEBC2, hD2, hNP2, hP2, hQ2, hq2, hGu2, hqn2⟩ := s2
    refine ⟨?E3, ?h3, ?h4⟩
    case h3 =>
      simp [refIR, execs, exec, hGu2, hV2]
      rfl
    case h4 =>
      exact ⟨⟨hG2, hn2, hBC2, hEBC2, hD2, hNP2, hP2, hQ2, hq2, hGu2, hqn2⟩, by simp [cast_bne]⟩

/-- what `bfsLoop` does when the front is empty -/
def finish (st : SrcSt n) : Except BErr (SrcSt n) :=
  if ((List.finRange n).filter fun i => st.D[i].isNone).isEmpty then .ok st
  else fillFront st ((List.finRange n).filter fun i => st.D[i].isNone)

theorem unreached_eq (D : Vector (Option ℕ) n) :
    ((List.finRange n).filter fun i => (embD D)[i] == 0) = (List.finRange n).filter fun i => D[i].isNone := by
  apply List.filter_congr; intro i _
  simp only [Fin.getElem_fin, embD_get]
  cases D[(i : ℕ)] <;> simp

theorem fill_spec (E : Env n) (G : AMat ℕ n) (a : Acc n) (st : SrcSt n) (h : Fwd E G a st) :
    match finish st with
    | .error _ => runFill refIR E = none
    | .ok st' => ∃ E', runFill refIR E = some E' ∧ Fwd E' G a st' := by
  obtain ⟨hG, hn, hBC, hEBC, hD, hNP, hP, hQ, hq, hGu, hqn⟩ := h
  have hany : ((List.finRange n).any fun i => (embD st.D)[i] == 0)
      = !((List.finRange n).filter fun i => st.D[i].isNone).isEmpty := by
    rw [← unreached_eq]
    cases hl : (List.finRange n).filter fun i => (embD st.D)[i] == 0 with
    | nil =>
      simp only [List.isEmpty_nil, Bool.not_true]
      rw [List.filter_eq_nil_iff] at hl
      rw [Bool.eq_false_iff]; intro hc
      obtain ⟨i, hi, hi2⟩ := List.any_eq_true.mp hc
      exact hl i hi hi2
    | cons x xs =>
      simp only [List.isEmpty_cons, Bool.not_false]
      have hx : x ∈ (List.finRange n).filter fun i => (embD st.D)[i] == 0 := by rw [hl]; simp
      rw [List.mem_filter] at hx
      exact List.any_eq_true.mpr ⟨x, hx.1, hx.2⟩
  unfold finish
  by_cases he : ((List.finRange n).filter fun i => st.D[i].isNone).isEmpty = true
  · simp only [he, if_true]
    refine ⟨E, ?_, hG, hn, hBC, hEBC, hD, hNP, hP, hQ, hq, hGu, hqn⟩
    simp only [runFill, show refIR.fillCond = .anyNot "D" from rfl, evalCond, hD, hany, he, Bool.not_true]
  · have he' : ((List.finRange n).filter fun i => st.D[i].isNone).isEmpty = false := by simpa using he
    simp only [he', Bool.false_eq_true, if_false]
    have hrun : runFill refIR E = execs refIR.fill E := by
      simp only [runFill, show refIR.fillCond = .anyNot "D" from rfl, evalCond, hD, hany, he', Bool.not_false]
    rw [hrun]
    have hhi : eval E (.add (.var "q") (.lit 1)) = some (.int (st.q : ℤ)) := by
      simp [eval, hq, SV.add]
    simp only [show refIR.fill = [.fillPrefix "Q" (.add (.var "q") (.lit 1)) "D"] from rfl, execs, exec, hQ, hhi, hD, unreached_eq]
    generalize ((List.finRange n).filter fun i => st.D[i].isNone) = un
    have h0 : (0 : ℤ) ≤ (st.q : ℤ) := by omega
    have hmin : min ((st.q : ℤ).toNat) n = st.q := by simp [hqn]
    unfold fillFront fillFrontV
    simp only [h0, if_true, hmin]
    by_cases hlen : un.length = st.q
    · simp only [hlen, if_true]
      refine ⟨_, rfl, by simp [hG], hn, hBC, by simp [hEBC], hD, hNP, by simp [hP], ?_, hq, by simp [hGu], hqn⟩
      simp only [if_true, Option.some.injEq]
      apply Vector.ext; intro i hi
      simp only [embQ, Vector.getElem_ofFn, Vector.getElem_map]
      split <;> simp
    · simp only [hlen, if_false]
      match un with
      | [x] =>
        refine ⟨_, rfl, by simp [hG], hn, hBC, by simp [hEBC], hD, hNP, by simp [hP], ?_, hq, by simp [hGu], hqn⟩
        simp only [if_true, Option.some.injEq]
        apply Vector.ext; intro i hi
        simp only [embQ, Vector.getElem_ofFn, Vector.getElem_map]
        split <;> simp
      | [] => rfl
      | _ :: _ :: _ => rfl

/-- `while V.size: …` followed by `if np.any(np.logical_not(D)): …` is `bfsLoop` -/
theorem while_spec (G : AMat ℕ n) (a : Acc n) : ∀ (fuel : ℕ) (E : Env n) (st : SrcSt n) (V : List (Fin n)), Fwd E G a st →
    E.lst "V" = some V →
    match bfsLoop fuel V st with
    | .error _ => (match whileFront refIR fuel E with
        | some E2 => runFill refIR E2
        | none => none) = none
    | .ok st' => ∃ E', (match whileFront refIR fuel E with
        | some E2 => runFill refIR E2
        | none => none) = some E' ∧ Fwd E' G a st' := by
  intro fuel
  induction fuel with
  | zero => intro E st V _ _; simp [bfsLoop, whileFront]
  | succ f ih =>
    intro E st V h hV
    cases V with
    | nil =>
      have hb : bfsLoop (f + 1) [] st = finish st := rfl
      have hw : whileFront refIR (f + 1) E = some E := by
        simp only [whileFront, show refIR.front = "V" from rfl, hV]
      rw [hb, hw]
      exact fill_spec E G a st h
    | cons v vs =>
      have hb : bfsLoop (f + 1) (v :: vs) st = match settle false (v :: vs) { st with G1 := clearCols st.G1 (v :: vs) } with
          | .error e => .error e
          | .ok st1 => bfsLoop f ((List.finRange n).filter fun j => (v :: vs).any fun v => st1.G1.get v j != 0) st1 := rfl
      rw [hb, whileFront_cons f E v vs hV]
      have hr := round_spec E G a st (v :: vs) h hV
      cases hs : settle false (v :: vs) { st with G1 := clearCols st.G1 (v :: vs) } with
      | error e => rw [hs] at hr; simp only [hr]
      | ok st1 =>
        rw [hs] at hr
        obtain ⟨E3, e3, s3, hV3⟩ := hr
        simp only [e3]
        exact ih E3 st1 _ s3 hV3

/-! ## the back-propagation -/

def Bwd (E : Env n) (G : AMat ℕ n) (st : SrcSt n) (a : Acc n) : Prop :=
  E.mat "G" = some (embM G) ∧ E.sc "n" = some (.int n) ∧ E.vec "BC" = some a.BC ∧ E.mat "EBC" = some a.EBC ∧
  E.vec "DP" = some a.DP ∧ E.vec "NP" = some (embNP st.NP) ∧ E.mat "P" = some (embP st.P) ∧ E.ivec "Q" = some (embQ st.Q)

theorem Bwd.setSc {E : Env n} {G : AMat ℕ n} {a : Acc n} {st : SrcSt n} (h : Bwd E G st a) (x : String) (hx1 : x ≠ "n")
    (s : SV) : Bwd ({ E with sc := fun y => if y = x then some s else E.sc y } : Env n) G st a := by
  obtain ⟨hG, hn, hBC, hEBC, hDP, hNP, hP, hQ⟩ := h
  exact ⟨hG, by simp [hn, Ne.symm hx1], hBC, hEBC, hDP, hNP, hP, hQ⟩

/-- one round of `backInner` -/
def depStep (st : SrcSt n) (w v : Fin n) (a : Acc n) : Except BErr (Acc n) :=
  if st.NP[w] = 0 then .error .unsupported else
    .ok { a with DP := a.DP.set v (a.DP[v] + (1 + a.DP[w]) * (st.NP[v] : ℚ) / (st.NP[w] : ℚ)),
                 EBC := a.EBC.set v w (a.EBC.get v w + (1 + a.DP[w]) * (st.NP[v] : ℚ) / (st.NP[w] : ℚ)) }

theorem backInner_cons (st : SrcSt n) (w v : Fin n) (vs : List (Fin n)) (a : Acc n) :
    backInner st w (v :: vs) a = match depStep st w v a with
      | .error e => .error e
      | .ok a1 => backInner st w vs a1 := by
  unfold depStep
  by_cases h : st.NP[w] = 0
  · simp only [backInner, h, if_true]
  · simp only [backInner, h, if_false]

theorem dep_spec (E : Env n) (G : AMat ℕ n) (st : SrcSt n) (a : Acc n) (w v : Fin n) (h : Bwd E G st a)
    (hw : E.sc "w" = some (.int w.val)) (hv : E.sc "v" = some (.int v.val)) :
    match depStep st w v a with
    | .error _ => execs refIR.dep E = none
    | .ok a1 => ∃ E', execs refIR.dep E = some E' ∧ Bwd E' G st a1 ∧ (∀ y, y ≠ "DPvw" → E'.sc y = E.sc y) := by
  obtain ⟨hG, hn, hBC, hEBC, hDP, hNP, hP, hQ⟩ := h
  unfold depStep
  by_cases h0 : st.NP[(w : ℕ)] = 0
  · simp only [Fin.getElem_fin, h0, if_true]
    simp [refIR, execs, exec, eval, hw, hv, idx_fin, hDP, hNP, SV.div, SV.toRat, h0]
  · simp only [Fin.getElem_fin, h0, if_false]
    have hc : ((st.NP[(w : ℕ)] : ℕ) : ℚ) ≠ 0 := by exact_mod_cast h0
    refine ⟨?E1, ?h1, ?h2⟩
    case h1 =>
      simp [refIR, execs, exec, eval, evalIdx, hw, hv, idx_fin, hDP, hNP, hEBC, SV.div, SV.toRat, SV.add, SV.mul, h0]
      rfl
    case h2 =>
      exact ⟨⟨by simp [hG], by simp [hn], by simp [hBC], by simp, by simp, by simp [hNP], by simp [hP], by simp [hQ]⟩,
        by intro y hy; simp [hy]⟩

/-- `for v in np.where(P[w, :])[0]:` is `backInner` -/
theorem forBV_spec (G : AMat ℕ n) (st : SrcSt n) (w : Fin n) : ∀ (vs : List (Fin n)) (E : Env n) (a : Acc n), Bwd E G st a →
    E.sc "w" = some (.int w.val) →
    match backInner st w vs a with
    | .error _ => forList "v" (execs refIR.dep) vs E = none
    | .ok a' => ∃ E', forList "v" (execs refIR.dep) vs E = some E' ∧ Bwd E' G st a' ∧
        (∀ y, y ≠ "DPvw" → y ≠ "v" → E'.sc y = E.sc y) := by
  intro vs
  induction vs with
  | nil => intro E a h _; exact ⟨E, rfl, h, fun _ _ _ => rfl⟩
  | cons v vs ih =>
    intro E a h hw
    have hd := dep_spec _ G st a w v (h.setSc "v" (by decide) (.int v.val)) (by simpa using hw) (by simp)
    rw [backInner_cons]
    simp only [forList]
    cases hs : depStep st w v a with
    | error e => rw [hs] at hd; simp only [hd]
    | ok a1 =>
      rw [hs] at hd
      obtain ⟨E1, e1, s1, f1⟩ := hd
      simp only [e1]
      have hi := ih E1 a1 s1 (by rw [f1 "w" (by decide)]; simpa using hw)
      cases hb : backInner st w vs a1 with
      | error e => rw [hb] at hi; exact hi
      | ok a' =>
        rw [hb] at hi
        obtain ⟨E2, e2, s2, f2⟩ := hi
        refine ⟨E2, e2, s2, ?_⟩
        intro y hy hv; rw [f2 y hy hv, f1 y hy]; simp [hv]

theorem idx_nat (k : ℕ) : idx (n := n) (.int (k : ℤ)) = if h : k < n then some ⟨k, h⟩ else none := by
  unfold idx
  by_cases h : k < n
  · have h' : 0 ≤ (k : ℤ) ∧ ((k : ℤ)).toNat < n := by omega
    simp only [h, h', and_self, dite_true, Option.some.injEq]
    apply Fin.ext; simp
  · have h' : ¬ (0 ≤ (k : ℤ) ∧ ((k : ℤ)).toNat < n) := by omega
    simp only [h, h', dite_false]

theorem backOuter_cons (st : SrcSt n) (wn : ℕ) (ws : List ℕ) (a : Acc n) :
    backOuter st (wn :: ws) a = if h : wn < n then
      (match backInner st ⟨wn, h⟩ ((List.finRange n).filter fun v => st.P.get ⟨wn, h⟩ v)
          { a with BC := a.BC.set (⟨wn, h⟩ : Fin n) (a.BC[(⟨wn, h⟩ : Fin n)] + a.DP[(⟨wn, h⟩ : Fin n)]) } with
        | .error e => .error e
        | .ok a1 => backOuter st ws a1)
      else .error .unsupported := by
  by_cases h : wn < n
  · simp only [backOuter, h, dite_true, bind, Except.bind]
    cases backInner st ⟨wn, h⟩ ((List.finRange n).filter fun v => st.P.get ⟨wn, h⟩ v)
      { a with BC := a.BC.set (⟨wn, h⟩ : Fin n) (a.BC[(⟨wn, h⟩ : Fin n)] + a.DP[(⟨wn, h⟩ : Fin n)]) } <;> rfl
  · simp only [backOuter, h, dite_false]

theorem predRow_eq (P : AMat Bool n) (w : Fin n) :
    ((List.finRange n).filter fun v => (embP P).get w v != 0) = (List.finRange n).filter fun v => P.get w v := by
  apply List.filter_congr; intro v _
  simp only [embP_get]
  cases P.get w v <;> simp

/-- body of `for w in Q[:n - 1]:` -/
theorem runBW_spec (E : Env n) (G : AMat ℕ n) (st : SrcSt n) (a : Acc n) (wn : ℕ) (h : Bwd E G st a)
    (hw : E.sc "w" = some (.int (wn : ℤ))) :
    match backOuter st [wn] a with
    | .error _ => runBW refIR E = none
    | .ok a' => ∃ E', runBW refIR E = some E' ∧ Bwd E' G st a' := by
  rw [backOuter_cons]
  obtain ⟨hG, hn, hBC, hEBC, hDP, hNP, hP, hQ⟩ := h
  by_cases hlt : wn < n
  · simp only [hlt, dite_true]
    have hacc : ∃ E1, execs refIR.acc E = some E1 ∧
        Bwd E1 G st { a with BC := a.BC.set (⟨wn, hlt⟩ : Fin n) (a.BC[(⟨wn, hlt⟩ : Fin n)] + a.DP[(⟨wn, hlt⟩ : Fin n)]) } ∧
        E1.sc = E.sc := by
      refine ⟨?E1, ?h1, ?h2⟩
      case h1 =>
        simp [refIR, execs, exec, eval, evalIdx, hw, idx_nat, hlt, hBC, hDP, SV.toRat]
        rfl
      case h2 =>
        exact ⟨⟨hG, hn, by simp, hEBC, by simp [hDP], by simp [hNP], hP, hQ⟩, rfl⟩
    obtain ⟨E1, e1, s1, f1⟩ := hacc
    have hw1 : E1.sc "w" = some (.int ((⟨wn, hlt⟩ : Fin n).val : ℤ)) := by rw [f1]; exact hw
    have hrow : evalIdx E1 (.var "w") = some (⟨wn, hlt⟩ : Fin n) := by simp [evalIdx, eval, hw1, idx_nat, hlt]
    have hi := forBV_spec G st ⟨wn, hlt⟩ ((List.finRange n).filter fun v => st.P.get ⟨wn, hlt⟩ v) E1 _ s1 hw1
    simp only [runBW, e1, show refIR.bvMat = "P" from rfl, s1.2.2.2.2.2.2.1, show refIR.bvRow = .var "w" from rfl, hrow,
      show refIR.bvVar = "v" from rfl, predRow_eq]
    cases hb : backInner st ⟨wn, hlt⟩ ((List.finRange n).filter fun v => st.P.get ⟨wn, hlt⟩ v)
        { a with BC := a.BC.set (⟨wn, hlt⟩ : Fin n) (a.BC[(⟨wn, hlt⟩ : Fin n)] + a.DP[(⟨wn, hlt⟩ : Fin n)]) } with
    | error e => rw [hb] at hi; simp only [hi]
    | ok a1 =>
      rw [hb] at hi
      obtain ⟨E2, e2, s2, _⟩ := hi
      exact ⟨E2, by simp only [e2], s2⟩
  · simp only [hlt, dite_false]
    simp [runBW, refIR, execs, exec, eval, evalIdx, hw, idx_nat, hlt, hBC]

theorem backOuter_split (st : SrcSt n) (wn : ℕ) (ws : List ℕ) (a : Acc n) :
    backOuter st (wn :: ws) a = match backOuter st [wn] a with
      | .error e => .error e
      | .ok a1 => backOuter st ws a1 := by
  rw [backOuter_cons, backOuter_cons]
  by_cases h : wn < n
  · simp only [h, dite_true]
    cases backInner st ⟨wn, h⟩ ((List.finRange n).filter fun v => st.P.get ⟨wn, h⟩ v)
      { a with BC := a.BC.set (⟨wn, h⟩ : Fin n) (a.BC[(⟨wn, h⟩ : Fin n)] + a.DP[(⟨wn, h⟩ : Fin n)]) } <;> rfl
  · simp only [h, dite_false]

/-- `for w in Q[:n - 1]:` is `backOuter` -/
theorem forBW_spec (G : AMat ℕ n) (st : SrcSt n) : ∀ (ws : List ℕ) (E : Env n) (a : Acc n), Bwd E G st a →
    match backOuter st ws a with
    | .error _ => forInts "w" (runBW refIR) (ws.map fun (k : ℕ) => (k : ℤ)) E = none
    | .ok a' => ∃ E', forInts "w" (runBW refIR) (ws.map fun (k : ℕ) => (k : ℤ)) E = some E' ∧ Bwd E' G st a' := by
  intro ws
  induction ws with
  | nil => intro E a h; exact ⟨E, rfl, h⟩
  | cons wn ws ih =>
    intro E a h
    have h1 := runBW_spec _ G st a wn (h.setSc "w" (by decide) (.int (wn : ℤ))) (by simp)
    rw [backOuter_split]
    simp only [List.map_cons, forInts]
    cases hb : backOuter st [wn] a with
    | error e => rw [hb] at h1; simp only [h1]
    | ok a1 =>
      rw [hb] at h1
      obtain ⟨E1, e1, s1⟩ := h1
      simp only [e1]
      exact ih E1 a1 s1

theorem takeTo_embQ (Q : Vector ℕ n) :
    takeTo (embQ Q).toList ((n : ℤ) - 1) = (Q.toList.take (n - 1)).map fun (k : ℕ) => (k : ℤ) := by
  have hl : (embQ Q).toList = Q.toList.map fun (k : ℕ) => (k : ℤ) := by simp [embQ, Vector.toList_map]
  unfold takeTo
  rw [hl, List.map_take]
  by_cases h : 0 ≤ (n : ℤ) - 1
  · have : ((n : ℤ) - 1).toNat = n - 1 := by omega
    simp only [h, if_true, this]
  · have hn : n = 0 := by omega
    subst hn
    simp

theorem back_spec (E : Env n) (G : AMat ℕ n) (st : SrcSt n) (a : Acc n) (h : Bwd E G st a) :
    match backOuter st (st.Q.toList.take (n - 1)) a with
    | .error _ => runBack refIR E = none
    | .ok a' => ∃ E', runBack refIR E = some E' ∧ Bwd E' G st a' := by
  have hhi : eval E (.sub (.var "n") (.lit 1)) = some (.int ((n : ℤ) - 1)) := by simp [eval, h.2.1, SV.sub]
  simp only [runBack, show refIR.bwVec = "Q" from rfl, h.2.2.2.2.2.2.2, show refIR.bwHi = .sub (.var "n") (.lit 1) from rfl, hhi,
    show refIR.bwVar = "w" from rfl, takeTo_embQ]
  exact forBW_spec G st _ E a h

/-! ## one source, all sources -/

/-- what the environment holds between two sources -/
def Glob (E : Env n) (G : AMat ℕ n) (a : Acc n) : Prop :=
  E.mat "G" = some (embM G) ∧ E.sc "n" = some (.int n) ∧ E.vec "BC" = some a.BC ∧ E.mat "EBC" = some a.EBC

theorem init_spec (E : Env n) (G : AMat ℕ n) (a : Acc n) (u : Fin n) (h : Glob E G a) (hu : E.sc "u" = some (.int u.val)) :
    ∃ E1, execs refIR.init E = some E1 ∧ Fwd E1 G a (initSt false G u) ∧ E1.lst "V" = some [u] := by
  obtain ⟨hG, hn, hBC, hEBC⟩ := h
  refine ⟨?E1, ?h1, ?h2⟩
  case h1 =>
    simp [refIR, execs, exec, isDim, hn, eval, evalIdx, hu, idx_fin, hG, SV.sub, SV.toRat]
    rfl
  case h2 =>
    refine ⟨⟨by simp [hG], by simp [hn], by simp [hBC], by simp [hEBC], ?_, ?_, ?_, ?_, by simp [initSt], by simp [initSt],
      by simp [initSt]⟩, by simp⟩
    · simp only [show ("D" = "NP") = False by decide, if_false, if_true, Option.some.injEq]
      apply Vector.ext; intro i hi
      by_cases hiu : (u : ℕ) = i
      · have : (⟨i, hi⟩ : Fin n) = u := Fin.ext hiu.symm
        simp [embD, initSt, hiu, this]
      · have : ¬ (⟨i, hi⟩ : Fin n) = u := fun hc => hiu (by rw [← hc])
        simp [embD, initSt, hiu, this]
    · simp only [if_true, Option.some.injEq]
      apply Vector.ext; intro i hi
      by_cases hiu : (u : ℕ) = i
      · have : (⟨i, hi⟩ : Fin n) = u := Fin.ext hiu.symm
        simp [embNP, initSt, hiu, this]
      · have : ¬ (⟨i, hi⟩ : Fin n) = u := fun hc => hiu (by rw [← hc])
        simp [embNP, initSt, hiu, this]
    · simp only [show ("P" = "Gu") = False by decide, if_false, if_true, Option.some.injEq]
      apply AMat.ext_get; intro i j
      simp [initSt]
    · simp only [if_true, Option.some.injEq]
      apply Vector.ext; intro i hi
      simp [embQ, initSt]

theorem mid_spec (E : Env n) (G : AMat ℕ n) (a : Acc n) (st : SrcSt n) (h : Fwd E G a st) :
    ∃ E4, execs refIR.mid E = some E4 ∧ Bwd E4 G st { a with DP := Vector.ofFn fun _ => 0 } := by
  obtain ⟨hG, hn, hBC, hEBC, hD, hNP, hP, hQ, hq, hGu, hqn⟩ := h
  refine ⟨?E4, ?h1, ?h2⟩
  case h1 =>
    simp [refIR, execs, exec, isDim, hn]
    rfl
  case h2 =>
    exact ⟨hG, hn, by simp [hBC], hEBC, by simp, by simp [hNP], hP, hQ⟩

/-- body of `for u in range(n):` is `source false` -/
theorem src_spec (E : Env n) (G : AMat ℕ n) (a : Acc n) (u : Fin n) (h : Glob E G a) (hu : E.sc "u" = some (.int u.val)) :
    match source false G a u with
    | .error _ => runSrc refIR (n + 2) E = none
    | .ok a' => ∃ E', runSrc refIR (n + 2) E = some E' ∧ Glob E' G a' := by
  have hsrc : source false G a u = match bfsLoop (n + 2) [u] (initSt false G u) with
      | .error e => .error e
      | .ok st => backOuter st (st.Q.toList.take (n - 1)) { a with DP := Vector.ofFn fun _ => 0 } := by
    simp only [source, Bool.false_eq_true, if_false, bind, Except.bind]
    cases bfsLoop (n + 2) [u] (initSt false G u) <;> rfl
  rw [hsrc]
  obtain ⟨E1, e1, s1, hV⟩ := init_spec E G a u h hu
  have hw := while_spec G a (n + 2) E1 _ [u] s1 hV
  simp only [runSrc, e1]
  cases hb : bfsLoop (n + 2) [u] (initSt false G u) with
  | error e =>
    rw [hb] at hw
    simp only []
    cases hwf : whileFront refIR (n + 2) E1 with
    | none => rfl
    | some E2 => rw [hwf] at hw; simp only [] at hw; simp only [hw]
  | ok st =>
    rw [hb] at hw
    obtain ⟨E3, e3, s3⟩ := hw
    cases hwf : whileFront refIR (n + 2) E1 with
    | none => rw [hwf] at e3; simp at e3
    | some E2 =>
      rw [hwf] at e3
      simp only [] at e3
      simp only [e3]
      obtain ⟨E4, e4, s4⟩ := mid_spec E3 G a st s3
      simp only [e4]
      have hbk := back_spec E4 G st _ s4
      cases hbo : backOuter st (st.Q.toList.take (n - 1)) { a with DP := Vector.ofFn fun _ => 0 } with
      | error e => rw [hbo] at hbk; exact hbk
      | ok a' =>
        rw [hbo] at hbk
        obtain ⟨E5, e5, s5⟩ := hbk
        exact ⟨E5, e5, s5.1, s5.2.1, s5.2.2.1, s5.2.2.2.1⟩

/-- `for u in range(n):` is `sources false` -/
theorem sources_spec (G : AMat ℕ n) : ∀ (us : List (Fin n)) (E : Env n) (a : Acc n), Glob E G a →
    match sources false G us a with
    | .error _ => forList "u" (runSrc refIR (n + 2)) us E = none
    | .ok a' => ∃ E', forList "u" (runSrc refIR (n + 2)) us E = some E' ∧ Glob E' G a' := by
  intro us
  induction us with
  | nil => intro E a h; exact ⟨E, rfl, h⟩
  | cons u us ih =>
    intro E a h
    have hg : Glob ({ E with sc := fun y => if y = "u" then some (.int (u.val : ℤ)) else E.sc y } : Env n) G a :=
      ⟨h.1, by simp [h.2.1], h.2.2.1, h.2.2.2⟩
    have h1 := src_spec _ G a u hg (by simp)
    have hs : sources false G (u :: us) a = match source false G a u with
        | .error e => .error e
        | .ok a1 => sources false G us a1 := by
      simp only [sources, bind, Except.bind]
      cases source false G a u <;> rfl
    rw [hs]
    simp only [forList]
    cases hb : source false G a u with
    | error e => rw [hb] at h1; simp only [h1]
    | ok a1 =>
      rw [hb] at h1
      obtain ⟨E1, e1, s1⟩ := h1
      simp only [e1]
      exact ih E1 a1 s1

/-- the environment the routine starts in -/
def env0 (G : AMat ℕ n) : Env n :=
  { sc := fun _ => none, vec := fun _ => none, ivec := fun _ => none,
    mat := fun y => if y = refIR.param then some (embM G) else none, lst := fun _ => none }

/-- **Link, `edge_betweenness_bin`.**  If the generated obligation holds, the extracted routine, run with the model's fuel `n + 2`
for every `while V.size:` loop on a matrix of natural numbers, returns exactly what `Between.brandes false G` returns, and stops
without a result exactly when the model does. -/
theorem link_edge_betweenness_bin (ir : EbcIR) (hok : ebcOk ir = true) (G : AMat ℕ n) :
    run ir (n + 2) (embM G) =
      match brandes false G with
      | .ok r => some r
      | .error _ => none := by
  have hir : ir = refIR := by simpa [ebcOk] using hok
  subst hir
  have hpre : ∃ E0, execs refIR.pre (env0 G) = some E0 ∧
      Glob E0 G { BC := Vector.ofFn fun _ => 0, EBC := AMat.ofFn fun _ _ => 0, DP := Vector.ofFn fun _ => 0 } := by
    refine ⟨?E0, ?h1, ?h2⟩
    case h1 =>
      simp [refIR, execs, exec, isDim, env0]
      rfl
    case h2 =>
      exact ⟨by simp, by simp, by simp, by simp⟩
  obtain ⟨E0, e0, g0⟩ := hpre
  have hbr : brandes false G = match sources false G (List.finRange n)
      { BC := Vector.ofFn fun _ => 0, EBC := AMat.ofFn fun _ _ => 0, DP := Vector.ofFn fun _ => 0 } with
      | .error e => .error e
      | .ok a => .ok (a.EBC, a.BC) := by
    simp only [brandes, bind, Except.bind, pure, Except.pure]
    cases sources false G (List.finRange n)
      { BC := Vector.ofFn fun _ => 0, EBC := AMat.ofFn fun _ _ => 0, DP := Vector.ofFn fun _ => 0 } <;> rfl
  have hs := sources_spec G (List.finRange n) E0 _ g0
  have hdim : isDim E0 "n" = true := by simp [isDim, g0.2.1]
  rw [hbr]
  have e0' : execs refIR.pre (⟨fun _ => none, fun _ => none, fun _ => none,
      fun y => if y = refIR.param then some (embM G) else none, fun _ => none⟩ : Env n) = some E0 := e0
  simp only [run, e0', show refIR.srcN = "n" from rfl, hdim, if_true, show refIR.srcVar = "u" from rfl]
  cases hb : sources false G (List.finRange n)
      { BC := Vector.ofFn fun _ => 0, EBC := AMat.ofFn fun _ _ => 0, DP := Vector.ofFn fun _ => 0 } with
  | error e => rw [hb] at hs; simp only [hs]
  | ok a =>
    rw [hb] at hs
    obtain ⟨E1, e1, s1⟩ := hs
    simp only [e1, show refIR.ret0 = "EBC" from rfl, show refIR.ret1 = "BC" from rfl, s1.2.2.2, s1.2.2.1]

example : ebcOk refIR = true := by decide
/-- `NP[w] = NP[v]` for `NP[w] += NP[v]` on an already reached node is rejected -/
example : ebcOk { refIR with seen := refIR.seen.set 0 (.set1 "NP" (.var "w") (.at1 "NP" (.var "v"))) } = false := by decide
/-- `EBC[w, v]` for `EBC[v, w]` is rejected -/
example : ebcOk { refIR with dep := refIR.dep.set 2 (.aug2 "EBC" (.var "w") (.var "v") (.var "DPvw")) } = false := by decide
/-- `Q[:n]` for `Q[:n - 1]` is rejected -/
example : ebcOk { refIR with bwHi := .var "n" } = false := by decide

end Bct.Cores.Ebc
