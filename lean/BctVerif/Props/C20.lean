import BctVerif.Lemmas.SynthRing
import BctVerif.Lemmas.SynthEven

/-!
# C20 — synthetic generators deliver the requested size, edge count and symmetry

Statements about the executable model `BctVerif/Model/Synth.lean` (`randCIJ`, `ringLattice`), for
every `n`, every `k` and every list of draws (a `rng.permutation(m)` is its m values; the model
rejects anything that is not a permutation of `0 … m-1`, which is what NumPy returns).
`matSum` is the model's `np.sum`; `matSum_eq_sum` identifies it with `∑ i, ∑ j, C i j`.

`makeevenCIJ` is modelled too (`evenCIJ`, template in closed form, `even_spec`); `maketoeplitzCIJ`,
`makefractalCIJ`, `makerandCIJdegreesfixed` are checked by the Python predicates only.

## The ring lattice and defect D19

Full statement wanted by the property: *for every n and every k ≤ n(n-1)* the output has exactly k
ones on the bands nearest the diagonal.  That is false for the code as it is: for even n the band
at wrap-around distance n/2 is added twice (`seq[c-1] = seq2[c-1] = n/2`), so for
n(n-2) < k ≤ n(n-1) the routine raises IndexError or returns n(n-2) ones (`ring_D19_witness_*`
below, checked on the model by evaluation and on the real code by the harness; open known finding
C20-D19).  `ring_spec_partial` therefore carries the explicit domain hypothesis
`k ≤ ringCapacity n`, and `ringCapacity_odd` / `ringCapacity_even` give the capacity in closed form:
n(n-1) for odd n (the whole feasible range), n(n-2) for even n.
-/
namespace Bct.C20
open Bct Bct.Synth

variable {n : ℕ}

theorem matSum_is_sum (C : AMat Int n) : matSum C = ∑ i, ∑ j, C.toFun i j := matSum_eq_sum C

/-- `makerandCIJ_dir(n, k)`: for every permutation draw the result is an n×n 0/1 matrix with an empty
diagonal and `min k (n(n-1))` ones — exactly k for every feasible k — and exactly the n(n-1) values of
the permutation are consumed. -/
theorem randCIJ_dir_spec (n k : Nat) (ds : List Nat) {C : AMat Int n} {rest : List Nat}
    (h : randCIJ false n k ds = .ok (C, rest)) :
    (∀ i j, C.toFun i j = 0 ∨ C.toFun i j = 1) ∧ (∀ i, C.toFun i i = 0) ∧
    matSum C = (min k (n * (n - 1)) : Nat) ∧ (k ≤ n * (n - 1) → matSum C = k) ∧ rest = ds.drop (n * (n - 1)) := by
  obtain ⟨h1, h2, h3, h4⟩ := randCIJ_dir_core n k ds h
  refine ⟨fun i j => h1 (i, j), h2, h3, fun hk => ?_, h4⟩
  rw [h3, Nat.min_eq_left hk]

/-- the run succeeds for *every* permutation draw (so the spec above is not vacuous for any n, k) -/
theorem randCIJ_dir_total (n k : Nat) (ds : List Nat) (hlen : n * (n - 1) ≤ ds.length)
    (hperm : isPermOfRange (ds.take (n * (n - 1))) (n * (n - 1)) = true) :
    ∃ C : AMat Int n, randCIJ false n k ds = .ok (C, ds.drop (n * (n - 1))) := by
  have := randCIJ_ok false n k ds (by rw [freeCells_length_dir]; exact hlen) (by rw [freeCells_length_dir]; exact hperm)
  rwa [freeCells_length_dir] at this

/-- `makerandCIJ_und(n, k)`: symmetric n×n 0/1 matrix, empty diagonal, `min k m` undirected connections
(`2·min k m` ones, each pair `{i,j}` counted in both directions) where `2m = n(n-1)`; exactly k
connections for every feasible k. -/
theorem randCIJ_und_spec (n k : Nat) (ds : List Nat) {C : AMat Int n} {rest : List Nat}
    (h : randCIJ true n k ds = .ok (C, rest)) :
    ∃ m, 2 * m = n * (n - 1) ∧
      (∀ i j, C.toFun i j = 0 ∨ C.toFun i j = 1) ∧ (∀ i, C.toFun i i = 0) ∧ (∀ i j, C.toFun i j = C.toFun j i) ∧
      matSum C = 2 * (min k m : Nat) ∧ (k ≤ m → matSum C = 2 * k) ∧ rest = ds.drop m ∧
      ∃ L : List (Cell n), L.Nodup ∧ (∀ c ∈ L, c.1.val < c.2.val) ∧ L.length = min k m ∧
        ∀ i j, C.toFun i j = if (i, j) ∈ L ∨ (j, i) ∈ L then 1 else 0 := by
  obtain ⟨h1, h2, h3, h4, h5, L, l1, l2, l3, l4⟩ := randCIJ_und_core n k ds h
  refine ⟨(freeCells n true).length, freeCells_length_und, fun i j => h1 (i, j), h2, fun i j => (h3 (i, j)).symm, h4,
    fun hk => ?_, h5, L, l1, l2, l3, fun i j => l4 (i, j)⟩
  rw [h4, Nat.min_eq_left hk]

theorem randCIJ_und_total (n k : Nat) (ds : List Nat) (m : Nat) (hm : 2 * m = n * (n - 1)) (hlen : m ≤ ds.length)
    (hperm : isPermOfRange (ds.take m) m = true) :
    ∃ C : AMat Int n, randCIJ true n k ds = .ok (C, ds.drop m) := by
  have e : (freeCells n true).length = m := by have := freeCells_length_und (n := n); omega
  have := randCIJ_ok true n k ds (by rw [e]; exact hlen) (by rw [e]; exact hperm)
  rwa [e] at this

/-! ### makeevenCIJ -/

/-- number of cells of the fully connected clusters (`np.size(np.where(CIJp.flatten()))`) -/
def clusterCount (n mx szcl : Nat) : Nat := (allCells n).countP (inCluster n mx szcl)

/-- `makeevenCIJ(n, k, sz_cl)` with n = 2^mx ≥ 4, sz_cl ≤ mx, and a feasible k
(`clusterCount ≤ k ≤ n(n-1)`), for every permutation draw: a 0/1 matrix with empty diagonal in which
every cluster cell is 1 and the total number of ones is exactly k. -/
theorem even_spec (n mx k szcl : Nat) (ds : List Nat) {C : AMat Int n} {rest : List Nat}
    (h : evenCIJ n mx k szcl ds = .ok (C, rest)) (hsz : szcl ≤ mx)
    (hk1 : clusterCount n mx szcl ≤ k) (hk2 : k ≤ n * (n - 1)) :
    (∀ i j, C.toFun i j = 0 ∨ C.toFun i j = 1) ∧ (∀ i, C.toFun i i = 0) ∧
    (∀ i j, inCluster n mx szcl (i, j) = true → C.toFun i j = 1) ∧ matSum C = k := by
  obtain ⟨h1, h2, h3, h4⟩ := evenCIJ_core mx k szcl ds h hsz (by unfold clusterCount at hk1; exact_mod_cast hk1) hk2
  exact ⟨fun i j => h1 (i, j), h2, fun i j => h3 (i, j), h4⟩

/-! ### ring lattice -/

/-- number of cells on the bands the code fills correctly: wrap-around distance `1 … (n-1)/2` -/
def ringCapacity (n : Nat) : Nat := nearCnt n ((n - 1) / 2)

theorem ringCapacity_odd (h : n % 2 = 1) : ringCapacity n = n * (n - 1) := nearCnt_half_odd h
theorem ringCapacity_even (h : n % 2 = 0) : ringCapacity n = n * (n - 2) := nearCnt_half_even h

/-- `makeringlatticeCIJ(n, k)` on the domain `k ≤ ringCapacity n` (all feasible k for odd n,
k ≤ n(n-2) for even n; see the header for D19), for every draw list:
there are a number `c` of bands and a duplicate-free list `removed` of cells of band `c` with
* `C i j = 1` iff the wrap-around distance of i and j is in `1 … c` and `(i,j)` was not removed, else 0
  (0/1 matrix, empty diagonal, every nearer band full, nothing beyond band c, wrap-around);
* `|removed| = (cells on bands 1…c) − k` (excess removed from the outermost band only);
* band c was needed: the bands `1 … c-1` hold fewer than k cells;
* exactly k ones. -/
theorem ring_spec_partial (n k : Nat) (hk : k ≤ ringCapacity n) (ds : List Nat)
    {C : AMat Int n} {rest : List Nat} (h : ringLattice n k ds = .ok (C, rest)) :
    ∃ (c : Nat) (removed : List (Cell n)),
      (c = 0 ∨ 2 * c < n) ∧
      (∀ i j, C.toFun i j = if (1 ≤ cdist n i j ∧ cdist n i j ≤ c) ∧ (i, j) ∉ removed then 1 else 0) ∧
      (∀ p ∈ removed, cdist n p.1 p.2 = c) ∧ removed.Nodup ∧
      (removed.length : Int) = nearCnt n c - k ∧
      (c = 0 ∨ nearCnt n (c - 1) < k) ∧
      matSum C = k := by
  obtain ⟨c, removed, S⟩ := ringLattice_spec k (by unfold ringCapacity at hk; exact_mod_cast hk) ds h
  refine ⟨c, removed, S.dom, fun i j => ?_, fun p hp => ?_, S.removed_nodup, S.removed_len, ?_, S.count⟩
  · have := S.vals (i, j)
    simp only [cellVal] at this
    rw [AMat.toFun, this]
    simp [near]
  · have := S.removed_band p hp
    simpa [onBand] using this
  · rcases S.needed with h0 | h0
    · exact Or.inl h0
    · right; exact_mod_cast h0

/-- consequences in the words of the property -/
theorem ring_bands (n k : Nat) (hk : k ≤ ringCapacity n) (ds : List Nat)
    {C : AMat Int n} {rest : List Nat} (h : ringLattice n k ds = .ok (C, rest)) :
    (∀ i j, C.toFun i j = 0 ∨ C.toFun i j = 1) ∧ (∀ i, C.toFun i i = 0) ∧ matSum C = k ∧
    ∃ c, (∀ i j : Fin n, 1 ≤ cdist n i j → cdist n i j < c → C.toFun i j = 1) ∧
         (∀ i j : Fin n, c < cdist n i j → C.toFun i j = 0) := by
  obtain ⟨c, removed, _, hv, hr, _, _, _, hcount⟩ := ring_spec_partial n k hk ds h
  refine ⟨fun i j => ?_, fun i => ?_, hcount, c, fun i j h1 h2 => ?_, fun i j h1 => ?_⟩
  · rw [hv]; split_ifs <;> simp
  · rw [hv]; have : cdist n i i = 0 := by simp [cdist]
    simp [this]
  · rw [hv]
    have : (i, j) ∉ removed := fun hm => by have := hr _ hm; simp only at this; omega
    have h3 : cdist n i j ≤ c := by omega
    simp [h1, h3, this]
  · rw [hv]
    have : ¬ cdist n i j ≤ c := by omega
    simp [this]

/-- on that domain the routine never raises IndexError, whatever the draws -/
theorem ring_no_index_error (n k : Nat) (hk : k ≤ ringCapacity n) (ds : List Nat) :
    ringLattice n k ds ≠ .error .index :=
  ringLattice_no_index_error k (by unfold ringCapacity at hk; exact_mod_cast hk) ds

/-! ### D19 on the model: outside the domain the full statement fails -/

/-- n = 4, k = 10: the doubled antipodal band makes the removal loop run off its permutation -/
theorem ring_D19_witness_index : ringLattice 4 10 [0, 1, 2, 3] = .error .index := by decide +kernel

/-- n = 4, k = 12 (= n(n-1), feasible): the whole antipodal band is deleted, 8 ones are returned -/
theorem ring_D19_witness_count :
    (ringLattice 4 12 [0, 1, 2, 3]).toOption.map (fun r => matSum r.1) = some 8 := by decide +kernel

theorem ring_D19_outside_domain : ¬ (10 ≤ ringCapacity 4) ∧ ¬ (12 ≤ ringCapacity 4) := by
  rw [ringCapacity_even (by decide)]; decide

/-! ## non-vacuity -/

example : (randCIJ false 3 2 [4, 0, 5, 1, 2, 3, 9]).toOption
    = some (#v[#v[0, 1, 0], #v[0, 0, 0], #v[1, 0, 0]], [9]) := by decide +kernel
example : (randCIJ true 4 2 [5, 0, 1, 2, 3, 4]).toOption
    = some (#v[#v[0, 1, 0, 0], #v[1, 0, 0, 0], #v[0, 0, 0, 1], #v[0, 0, 1, 0]], []) := by decide +kernel
example : isPermOfRange ([4, 0, 5, 1, 2, 3, 9].take (3 * (3 - 1))) (3 * (3 - 1)) = true := by decide
-- even: n = 4 = 2^2, clusters of size 2 (4 cluster cells), k = 6
example : clusterCount 4 2 1 = 4 := by decide +kernel
example : (evenCIJ 4 2 6 1 [7, 0, 1, 2, 3, 4, 5, 6]).toOption
    = some (#v[#v[0, 1, 1, 0], #v[1, 0, 0, 0], #v[0, 0, 0, 1], #v[0, 1, 1, 0]], []) := by decide +kernel
-- ring: n = 5 (odd, capacity 20), k = 13: two bands, 7 cells removed from the outer one
example : 13 ≤ ringCapacity 5 := by rw [ringCapacity_odd (by decide)]; decide
example : (ringLattice 5 13 [0, 1, 2, 3, 4, 5, 6, 7, 8, 9]).toOption
    = some (#v[#v[0, 1, 0, 0, 1], #v[1, 0, 1, 0, 0], #v[0, 1, 0, 1, 0], #v[0, 1, 1, 0, 1], #v[1, 1, 1, 1, 0]], []) := by
  decide +kernel
-- ring: n = 6 (even, capacity 24), k = 24: exactly the two inner bands
example : 24 ≤ ringCapacity 6 := by rw [ringCapacity_even (by decide)]
example : (ringLattice 6 24 []).toOption.map (fun r => matSum r.1) = some 24 := by decide +kernel

end Bct.C20
