import BctVerif.Lemmas.SynthRing
import BctVerif.Lemmas.SynthHier
import BctVerif.Lemmas.SynthProfile
import BctVerif.Lemmas.SynthDegSpec

/-!
# C20 — synthetic generators deliver the requested size, edge count and symmetry

Statements about the executable model `BctVerif/Model/Synth.lean` (`randCIJ`, `ringLattice`), for
every `n`, every `k` and every list of draws (a `rng.permutation(m)` is its m values; the model
rejects anything that is not a permutation of `0 … m-1`, which is what NumPy returns).
`matSum` is the model's `np.sum`; `matSum_eq_sum` identifies it with `∑ i, ∑ j, C i j`.

All seven generators have an executable model.  `makeevenCIJ` and `makefractalCIJ` build the
hierarchical template with the doubling loop as coded (`tmpl`, `hierTemplate`); the float threshold
matrix of `maketoeplitzCIJ` (scaled Gaussian profile) is an *input* of the model, observed in the real run
as exact dyadic rationals (`norm.pdf` and the float scaling are not modelled, only the Toeplitz layout); the
probability matrix of `makefractalCIJ` is observed too, but accepted only if it is `1/E^ee` for the model's
own `ee` (`probConsistent`: 0 on the diagonal, exactly 1 where `ee = 0`, within 1e-12 of the rational `1/E^ee`
elsewhere, one double per value of `ee`).

## The ring lattice

`ring_spec` holds for every n and every feasible k ≤ n(n-1), odd and even n.  (Before the `fix:`
commit fec7170 the band at wrap-around distance n/2 of an even ring was added twice — former finding
D19 — and the theorem needed the domain k ≤ n(n-2); the model's `band` now carries the same
`np.minimum(…, 1)` as the code, and the former witnesses `n = 4, k = 10 / 12` are regression examples
of the repaired behaviour below.)
-/
namespace Bct.C20
open Bct Bct.Synth

variable {n : ℕ}

theorem matSum_is_sum (C : AMat Int n) : matSum C = ∑ i, ∑ j, C.toFun i j := matSum_eq_sum C

/-- `makerandCIJ_dir(n, k)`: for every permutation draw the result is an n×n 0/1 matrix with an empty
diagonal and `min k (n(n-1))` ones — exactly k for every feasible k — and exactly the n(n-1) values of
the permutation are consumed. -/
theorem randCIJ_dir_spec (n k : Nat) (ds : List Nat) {C : AMat Int n} {rest : List Nat}
    (h : randCIJ false n k ds = .ok (C, rest)) :
    (∀ i j, C.toFun i j = 0 ∨ C.toFun i j = 1) ∧ (∀ i, C.toFun i i = 0) ∧
    matSum C = (min k (n * (n - 1)) : Nat) ∧ (k ≤ n * (n - 1) → matSum C = k) ∧ rest = ds.drop (n * (n - 1)) := by
  obtain ⟨h1, h2, h3, h4⟩ := randCIJ_dir_core n k ds h
  refine ⟨fun i j => h1 (i, j), h2, h3, fun hk => ?_, h4⟩
  rw [h3, Nat.min_eq_left hk]

/-- the run succeeds for *every* permutation draw (so the spec above is not vacuous for any n, k) -/
theorem randCIJ_dir_total (n k : Nat) (ds : List Nat) (hlen : n * (n - 1) ≤ ds.length)
    (hperm : isPermOfRange (ds.take (n * (n - 1))) (n * (n - 1)) = true) :
    ∃ C : AMat Int n, randCIJ false n k ds = .ok (C, ds.drop (n * (n - 1))) := by
  have := randCIJ_ok false n k ds (by rw [freeCells_length_dir]; exact hlen) (by rw [freeCells_length_dir]; exact hperm)
  rwa [freeCells_length_dir] at this

/-- `makerandCIJ_und(n, k)`: symmetric n×n 0/1 matrix, empty diagonal, `min k m` undirected connections
(`2·min k m` ones, each pair `{i,j}` counted in both directions) where `2m = n(n-1)`; exactly k
connections for every feasible k. -/
theorem randCIJ_und_spec (n k : Nat) (ds : List Nat) {C : AMat Int n} {rest : List Nat}
    (h : randCIJ true n k ds = .ok (C, rest)) :
    ∃ m, 2 * m = n * (n - 1) ∧
      (∀ i j, C.toFun i j = 0 ∨ C.toFun i j = 1) ∧ (∀ i, C.toFun i i = 0) ∧ (∀ i j, C.toFun i j = C.toFun j i) ∧
      matSum C = 2 * (min k m : Nat) ∧ (k ≤ m → matSum C = 2 * k) ∧ rest = ds.drop m ∧
      ∃ L : List (Cell n), L.Nodup ∧ (∀ c ∈ L, c.1.val < c.2.val) ∧ L.length = min k m ∧
        ∀ i j, C.toFun i j = if (i, j) ∈ L ∨ (j, i) ∈ L then 1 else 0 := by
  obtain ⟨h1, h2, h3, h4, h5, L, l1, l2, l3, l4⟩ := randCIJ_und_core n k ds h
  refine ⟨(freeCells n true).length, freeCells_length_und, fun i j => h1 (i, j), h2, fun i j => (h3 (i, j)).symm, h4,
    fun hk => ?_, h5, L, l1, l2, l3, fun i j => l4 (i, j)⟩
  rw [h4, Nat.min_eq_left hk]

theorem randCIJ_und_total (n k : Nat) (ds : List Nat) (m : Nat) (hm : 2 * m = n * (n - 1)) (hlen : m ≤ ds.length)
    (hperm : isPermOfRange (ds.take m) m = true) :
    ∃ C : AMat Int n, randCIJ true n k ds = .ok (C, ds.drop m) := by
  have e : (freeCells n true).length = m := by have := freeCells_length_und (n := n); omega
  have := randCIJ_ok true n k ds (by rw [e]; exact hlen) (by rw [e]; exact hperm)
  rwa [e] at this

/-! ### makeevenCIJ -/

/-- number of cells of the fully connected clusters (`np.size(np.where(CIJp.flatten()))`) for the
template the doubling loop builds -/
def clusterCount (n mx szcl : Nat) : Nat := (allCells n).countP (inCluster (hierT n mx) mx szcl)

/-- `makeevenCIJ(n, k, sz_cl)` — model with the template loop as coded.  If it returns, then n = 2^mx ≥ 2,
and for sz_cl ≤ mx and a feasible k (`clusterCount ≤ k ≤ n(n-1)`), for every permutation draw: a 0/1
matrix with empty diagonal in which every cluster cell is 1 and the total number of ones is exactly k. -/
theorem even_spec (n mx k szcl : Nat) (ds : List Nat) {C : AMat Int n} {rest : List Nat}
    (h : evenCIJ n mx k szcl ds = .ok (C, rest)) (hsz : szcl ≤ mx)
    (hk1 : clusterCount n mx szcl ≤ k) (hk2 : k ≤ n * (n - 1)) :
    (∀ i j, C.toFun i j = 0 ∨ C.toFun i j = 1) ∧ (∀ i, C.toFun i i = 0) ∧
    (∀ i j, inCluster (hierT n mx) mx szcl (i, j) = true → C.toFun i j = 1) ∧ matSum C = k := by
  obtain ⟨_, _, h1, h2, h3, h4⟩ := evenCIJ_core mx k szcl ds h hsz (by unfold clusterCount at hk1; exact_mod_cast hk1) hk2
  exact ⟨fun i j => h1 (i, j), h2, fun i j => h3 (i, j), h4⟩

/-- totality: for n = 2^mx ≥ 2 and every k, sz_cl the routine returns for every draw list that starts with a
permutation of the right length m (m = 0 when k is below the cluster count), and consumes exactly it -/
theorem even_total (n mx k szcl : Nat) (hmx : 1 ≤ mx) (hn : n = 2 ^ mx) :
    ∃ m, ∀ ds : List Nat, m ≤ ds.length → isPermOfRange (ds.take m) m = true →
      ∃ C : AMat Int n, evenCIJ n mx k szcl ds = .ok (C, ds.drop m) :=
  evenCIJ_total mx k szcl hmx hn

/-- the template of the doubling loop has an empty diagonal after `CIJ -= ones + mx_lvl * eye` -/
theorem template_diag (n mx : Nat) (i : Fin n) : (hierT n mx).toFun i i = 0 := hierT_diag mx i

/-- hierarchical block structure: for n = 2^mx the cluster mask `template >= mx_lvl - sz_cl` (sz_cl ≤ mx) consists exactly of
the off-diagonal cells of the diagonal blocks of size 2^sz_cl — the clusters have 2^sz_cl nodes each -/
theorem cluster_mask_blocks (n mx szcl : Nat) (hmx : 1 ≤ mx) (hn : n = 2 ^ mx) (hsz : szcl ≤ mx) (i j : Fin n) :
    inCluster (hierT n mx) mx szcl (i, j) = true ↔ i ≠ j ∧ i.val / 2 ^ szcl = j.val / 2 ^ szcl := by
  obtain ⟨m, rfl⟩ : ∃ m, mx = m + 1 := ⟨mx - 1, by omega⟩
  have hT : hierT n (m + 1) = hierTemplate hn := by simp [hierT, hn]
  rw [hT]; exact cluster_blocks hn szcl hsz i j

/-- `makeevenCIJ` end to end: N = 2^mx, sz_cl ≤ mx, feasible K, any permutation draw: a 0/1 matrix with empty diagonal and
exactly K ones in which every pair of distinct nodes of the same block of 2^sz_cl consecutive nodes is connected -/
theorem even_spec_blocks (n mx k szcl : Nat) (ds : List Nat) {C : AMat Int n} {rest : List Nat}
    (h : evenCIJ n mx k szcl ds = .ok (C, rest)) (hsz : szcl ≤ mx)
    (hk1 : clusterCount n mx szcl ≤ k) (hk2 : k ≤ n * (n - 1)) :
    (∀ i j, C.toFun i j = 0 ∨ C.toFun i j = 1) ∧ (∀ i, C.toFun i i = 0) ∧ matSum C = k ∧
    (∀ i j : Fin n, i ≠ j → i.val / 2 ^ szcl = j.val / 2 ^ szcl → C.toFun i j = 1) := by
  obtain ⟨hn, hmx, _⟩ := evenCIJ_core mx k szcl ds h hsz (by unfold clusterCount at hk1; exact_mod_cast hk1) hk2
  obtain ⟨h1, h2, h3, h4⟩ := even_spec n mx k szcl ds h hsz hk1 hk2
  exact ⟨h1, h2, h4, fun i j hij hb => h3 i j ((cluster_mask_blocks n mx szcl hmx hn hsz i j).2 ⟨hij, hb⟩)⟩

/-! ### maketoeplitzCIJ -/

/-- `maketoeplitzCIJ(n, k, s)`: *if it returns* (the rejection loop gives up after 10000 rounds), then
for every scaled profile and every sequence of uniform draws the result is a 0/1 matrix with empty
diagonal and exactly k connections. -/
theorem toeplitz_spec (n k : Nat) (prof : List Thr) (ds : List Nat) {C : AMat Int n} {rest : List Nat}
    (h : toeplitzCIJ n k prof ds = .ok (C, rest)) :
    (∀ i j, C.toFun i j = 0 ∨ C.toFun i j = 1) ∧ (∀ i, C.toFun i i = 0) ∧ matSum C = k := by
  obtain ⟨h1, h2, h3⟩ := toeplitzCIJ_core k prof ds h
  exact ⟨fun i j => h1 (i, j), h2, h3⟩

/-- the probability template is a symmetric Toeplitz matrix with zero diagonal: entry (i, j) is the profile value at
distance |i − j| from the diagonal -/
theorem toeplitz_template (n : Nat) (prof : Array Thr) (i j : Fin n) :
    (toeplitzOf n prof).get i j = (if i = j then (0, 1) else prof[offset i j - 1]!) ∧
    (∀ i' j' : Fin n, offset i j = offset i' j' → (toeplitzOf n prof).get i j = (toeplitzOf n prof).get i' j') :=
  ⟨toeplitzOf_get prof i j, fun i' j' h => toeplitz_structure prof i j i' j' h⟩

/-- `maketoeplitzCIJ` end to end: if it returns, the result has exactly K ones and is either the empty matrix (K = 0) or
one sample `u < template` of the Toeplitz template: 0 on the diagonal, and `C[i,j] = 1` iff the uniform draw of that cell
is below the profile value at distance |i − j|; in particular connections exist only where the profile is positive -/
theorem toeplitz_spec_full (n k : Nat) (prof : List Thr) (ds : List Nat) {C : AMat Int n} {rest : List Nat}
    (h : toeplitzCIJ n k prof ds = .ok (C, rest)) :
    matSum C = k ∧
    ((k = 0 ∧ C = zeroMat n) ∨
     ∃ us : Array Nat, ∀ i j : Fin n, C.toFun i j =
       if i = j then 0 else b2i (ltThr us[i.val * n + j.val]! prof.toArray[offset i j - 1]!)) ∧
    (∀ i j : Fin n, C.toFun i j = 1 → i ≠ j ∧ 0 < (prof.toArray[offset i j - 1]!).1) := by
  obtain ⟨h01, hdiag, hsum⟩ := toeplitzCIJ_core k prof ds h
  have hloop := h
  unfold toeplitzCIJ at hloop
  split at hloop
  · simp at hloop
  · have hs := toepLoop_sample _ k _ _ _ _ hloop
    have hform : ∀ us : Array Nat, ∀ i j : Fin n, (sampleLt (toeplitzOf n prof.toArray) us).toFun i j =
        if i = j then 0 else b2i (ltThr us[i.val * n + j.val]! prof.toArray[offset i j - 1]!) := by
      intro us i j
      simp only [AMat.toFun, sampleLt, AMat.get_ofFn, toeplitzOf_get]
      by_cases hij : i = j
      · simp [hij, b2i, ltThr]
      · simp [hij]
    refine ⟨hsum, ?_, ?_⟩
    · rcases hs with rfl | ⟨us, rfl⟩
      · left
        refine ⟨?_, rfl⟩
        have : matSum (zeroMat n) = 0 := by
          rw [matSum_ind (zeroMat n) (fun _ => false) (fun c => by simp [cellVal_zero])]; simp
        rw [this] at hsum; exact_mod_cast hsum.symm
      · exact Or.inr ⟨us, hform us⟩
    · intro i j hone
      rcases hs with rfl | ⟨us, rfl⟩
      · simp [AMat.toFun, zeroMat] at hone
      · rw [hform us i j] at hone
        by_cases hij : i = j
        · simp [hij] at hone
        · simp only [hij, if_false, b2i] at hone
          refine ⟨hij, ?_⟩
          cases hlt : ltThr us[i.val * n + j.val]! prof.toArray[offset i j - 1]! with
          | true => exact ltThr_pos hlt
          | false => rw [hlt] at hone; simp at hone

/-! ### makefractalCIJ -/

/-- `makefractalCIJ(mx_lvl, E, sz_cl)` (positive integer E) returns `(CIJ, k)` with `k` the number of connections
of the returned 0/1 matrix, whose diagonal is empty; for every observed probability matrix that is `1/E^ee`
(`probConsistent`) and every uniform draw. -/
theorem fractal_count (n mx szcl E : Nat) (prob : AMat Thr n) (ds : List Nat)
    {C : AMat Int n} {kk : Int} {rest : List Nat} (h : fractalCIJ n mx szcl E prob ds = .ok (C, kk, rest)) :
    kk = matSum C ∧ (∀ i j, C.toFun i j = 0 ∨ C.toFun i j = 1) ∧ (∀ i, C.toFun i i = 0) ∧ n = 2 ^ mx := by
  obtain ⟨h1, h2, h3, h4, _⟩ := fractalCIJ_core mx szcl E prob ds h
  exact ⟨h1, fun i j => h2 (i, j), h3, h4⟩

/-- `makefractalCIJ` end to end (positive integer E, sz_cl ≤ mx_lvl, uniform draws < 1): the returned `k` is the number of
ones of the returned 0/1 matrix, the diagonal is empty, N = 2^mx_lvl, **every module is fully connected** (all pairs of distinct
nodes in the same block of 2^sz_cl consecutive nodes), and every other cell (i, j) is `1` iff its uniform draw is below a
probability that is within 1e-12 of `1 / E^ee(i,j)`, `ee` = number of hierarchical levels above the module size separating
i and j -/
theorem fractal_spec (n mx szcl E : Nat) (prob : AMat Thr n) (ds : List Nat)
    {C : AMat Int n} {kk : Int} {rest : List Nat} (h : fractalCIJ n mx szcl E prob ds = .ok (C, kk, rest))
    (hsz : szcl ≤ mx) (hds : ∀ v ∈ ds, v < 2 ^ 53) :
    kk = matSum C ∧ n = 2 ^ mx ∧ (∀ i j, C.toFun i j = 0 ∨ C.toFun i j = 1) ∧ (∀ i, C.toFun i i = 0) ∧
    (∀ i j : Fin n, i ≠ j → i.val / 2 ^ szcl = j.val / 2 ^ szcl → C.toFun i j = 1) ∧
    (∀ i j : Fin n, i ≠ j →
      nearInvPow (prob.get i j) E (fractalEE (hierT n mx) mx szcl i j).toNat = true ∧
      C.toFun i j = b2i (ltThr (ds.take (n * n)).toArray[i.val * n + j.val]! (prob.get i j))) := by
  obtain ⟨h1, h2, h3, h4⟩ := fractal_count n mx szcl E prob ds h
  exact ⟨h1, h4, h2, h3, fun i j hij hb => fractal_modules_full mx szcl E prob ds h hsz hds i j hij hb,
    fun i j hij => fractal_prob_profile mx szcl E prob ds h i j hij⟩

/-- totality: n = 2^mx ≥ 2, E ≥ 1, a probability matrix that is `1/E^ee`, and n² uniform draws ⇒ it returns -/
theorem fractal_total (n mx szcl E : Nat) (prob : AMat Thr n) (ds : List Nat) (hmx : 1 ≤ mx) (hn : n = 2 ^ mx) (hE : E ≠ 0)
    (hp : probConsistent (hierT n mx) mx szcl E prob = true) (hds : n * n ≤ ds.length) :
    ∃ C kk, fractalCIJ n mx szcl E prob ds = .ok (C, kk, ds.drop (n * n)) :=
  fractalCIJ_total mx szcl E prob ds hmx hn hE hp hds

/-! ### makerandCIJdegreesfixed -/

/-- `makerandCIJdegreesfixed(inv, outv)` with `sum(outv) = sum(inv)`: *if it returns* (the repair loop
may give up with `BCTParamError`), then for every permutation / `randint` draw list the result is a
0/1 matrix with empty diagonal whose row sums are the requested out-degrees and whose column sums are
the requested in-degrees. -/
theorem degreesfixed_spec (inv outv : Fin n → Nat) (ds : List Nat) {M : AMat Int n} {rest : List Nat}
    (hsum : ((List.finRange n).map outv).sum = ((List.finRange n).map inv).sum)
    (h : degreesFixed inv outv ds = .ok (M, rest)) :
    (∀ i j, M.toFun i j = 0 ∨ M.toFun i j = 1) ∧ (∀ i, M.toFun i i = 0) ∧
    (∀ i, ∑ j, M.toFun i j = outv i) ∧ (∀ j, ∑ i, M.toFun i j = inv j) :=
  degreesFixed_core inv outv ds hsum h

/-! ### ring lattice -/

/-- every off-diagonal cell lies on one of the bands `1 … n/2` -/
theorem ring_capacity (n : Nat) : nearCnt n (n / 2) = n * (n - 1) := nearCnt_full

/-- `makeringlatticeCIJ(n, k)` for every n, every feasible `k ≤ n(n-1)` and every draw list:
there are a number `c` of bands and a duplicate-free list `removed` of cells of band `c` with
* `C i j = 1` iff the wrap-around distance of i and j is in `1 … c` and `(i,j)` was not removed, else 0
  (0/1 matrix, empty diagonal, every nearer band full, nothing beyond band c, wrap-around);
* `|removed| = (cells on bands 1…c) − k` (excess removed from the outermost band only);
* band c was needed: the bands `1 … c-1` hold fewer than k cells;
* exactly k ones. -/
theorem ring_spec (n k : Nat) (hk : k ≤ n * (n - 1)) (ds : List Nat)
    {C : AMat Int n} {rest : List Nat} (h : ringLattice n k ds = .ok (C, rest)) :
    ∃ (c : Nat) (removed : List (Cell n)),
      (c = 0 ∨ 2 * c ≤ n) ∧
      (∀ i j, C.toFun i j = if (1 ≤ cdist n i j ∧ cdist n i j ≤ c) ∧ (i, j) ∉ removed then 1 else 0) ∧
      (∀ p ∈ removed, cdist n p.1 p.2 = c) ∧ removed.Nodup ∧
      (removed.length : Int) = nearCnt n c - k ∧
      (c = 0 ∨ nearCnt n (c - 1) < k) ∧
      matSum C = k := by
  obtain ⟨c, removed, S⟩ := ringLattice_spec k (by rw [nearCnt_full]; exact_mod_cast hk) ds h
  refine ⟨c, removed, S.dom, fun i j => ?_, fun p hp => ?_, S.removed_nodup, S.removed_len, ?_, S.count⟩
  · have := S.vals (i, j)
    simp only [cellVal] at this
    rw [AMat.toFun, this]
    simp [near]
  · have := S.removed_band p hp
    simpa [onBand] using this
  · rcases S.needed with h0 | h0
    · exact Or.inl h0
    · right; exact_mod_cast h0

/-- totality: for every feasible k there is a number m of permutation values (0 when nothing has to be removed) such
that the routine returns for every draw list starting with a permutation of `0 … m-1`, consuming exactly it -/
theorem ring_total (n k : Nat) (hk : k ≤ n * (n - 1)) :
    ∃ m, ∀ ds : List Nat, m ≤ ds.length → isPermOfRange (ds.take m) m = true →
      ∃ C : AMat Int n, ringLattice n k ds = .ok (C, ds.drop m) :=
  ringLattice_total k (by rw [nearCnt_full]; exact_mod_cast hk)

/-- consequences in the words of the property -/
theorem ring_bands (n k : Nat) (hk : k ≤ n * (n - 1)) (ds : List Nat)
    {C : AMat Int n} {rest : List Nat} (h : ringLattice n k ds = .ok (C, rest)) :
    (∀ i j, C.toFun i j = 0 ∨ C.toFun i j = 1) ∧ (∀ i, C.toFun i i = 0) ∧ matSum C = k ∧
    ∃ c, (∀ i j : Fin n, 1 ≤ cdist n i j → cdist n i j < c → C.toFun i j = 1) ∧
         (∀ i j : Fin n, c < cdist n i j → C.toFun i j = 0) := by
  obtain ⟨c, removed, _, hv, hr, _, _, _, hcount⟩ := ring_spec n k hk ds h
  refine ⟨fun i j => ?_, fun i => ?_, hcount, c, fun i j h1 h2 => ?_, fun i j h1 => ?_⟩
  · rw [hv]; split_ifs <;> simp
  · rw [hv]; have : cdist n i i = 0 := by simp [cdist]
    simp [this]
  · rw [hv]
    have : (i, j) ∉ removed := fun hm => by have := hr _ hm; simp only at this; omega
    have h3 : cdist n i j ≤ c := by omega
    simp [h1, h3, this]
  · rw [hv]
    have : ¬ cdist n i j ≤ c := by omega
    simp [this]

/-- for feasible k the routine never raises IndexError, whatever the draws -/
theorem ring_no_index_error (n k : Nat) (hk : k ≤ n * (n - 1)) (ds : List Nat) :
    ringLattice n k ds ≠ .error .index :=
  ringLattice_no_index_error k (by rw [nearCnt_full]; exact_mod_cast hk) ds

/-! ## non-vacuity -/

example : (randCIJ false 3 2 [4, 0, 5, 1, 2, 3, 9]).toOption
    = some (#v[#v[0, 1, 0], #v[0, 0, 0], #v[1, 0, 0]], [9]) := by decide +kernel
example : (randCIJ true 4 2 [5, 0, 1, 2, 3, 4]).toOption
    = some (#v[#v[0, 1, 0, 0], #v[1, 0, 0, 0], #v[0, 0, 0, 1], #v[0, 0, 1, 0]], []) := by decide +kernel
example : isPermOfRange ([4, 0, 5, 1, 2, 3, 9].take (3 * (3 - 1))) (3 * (3 - 1)) = true := by decide
-- even: n = 4 = 2^2, clusters of size 2 (4 cluster cells), k = 6
example : clusterCount 4 2 1 = 4 := by decide +kernel
example : (evenCIJ 4 2 6 1 [7, 0, 1, 2, 3, 4, 5, 6]).toOption
    = some (#v[#v[0, 1, 1, 0], #v[1, 0, 0, 0], #v[0, 0, 0, 1], #v[0, 1, 1, 0]], []) := by decide +kernel
-- toeplitz: n = 3, k = 2, scaled profile (1/2, 1/4); the first sample has 3 ones (rejected), the second 2
example : (toeplitzCIJ 3 2 [(1, 2), (1, 4)]
      ([0, 1, 1, 1, 0, 2 ^ 53 - 1, 2 ^ 53 - 1, 1, 0] ++ [0, 1, 2 ^ 53 - 1, 2 ^ 53 - 1, 0, 2 ^ 53 - 1, 2 ^ 53 - 1, 1, 0] ++ [5])).toOption
    = some (#v[#v[0, 1, 0], #v[0, 0, 0], #v[0, 1, 0]], [5]) := by decide +kernel
-- fractal: mx_lvl = 2 (n = 4), sz_cl = 1, E = 2: prob = 1 inside the 2-blocks, 1/2 across, 0 on the diagonal
example : (fractalCIJ 4 2 1 2 #v[#v[(0, 1), (1, 1), (1, 2), (1, 2)], #v[(1, 1), (0, 1), (1, 2), (1, 2)],
                               #v[(1, 2), (1, 2), (0, 1), (1, 1)], #v[(1, 2), (1, 2), (1, 1), (0, 1)]]
      [0, 7, 2 ^ 52, 3, 9, 0, 2 ^ 52 + 1, 2 ^ 52 - 1, 1, 2 ^ 53 - 1, 0, 5, 2 ^ 52, 0, 2 ^ 53 - 1, 0]).toOption
    = some (#v[#v[0, 1, 0, 1], #v[1, 0, 0, 1], #v[1, 0, 0, 1], #v[0, 1, 1, 0]], 8, []) := by decide +kernel
-- … the same matrix is refused for E = 3 (1/2 is not 1/3): the probabilities are checked against E
example : (fractalCIJ 4 2 1 3 #v[#v[(0, 1), (1, 1), (1, 2), (1, 2)], #v[(1, 1), (0, 1), (1, 2), (1, 2)],
                                 #v[(1, 2), (1, 2), (0, 1), (1, 1)], #v[(1, 2), (1, 2), (1, 1), (0, 1)]] []).toOption = none := by
  decide +kernel
-- … mx_lvl = 1 (n = 2): the template is the initial 2×2 block; makeevenCIJ(2, 2, 1) is the full 2-node graph
example : (evenCIJ 2 1 2 1 []).toOption = some (#v[#v[0, 1], #v[1, 0]], []) := by decide +kernel
-- … an inconsistent probability matrix (a non-zero diagonal entry) is refused
example : (fractalCIJ 4 2 1 2 #v[#v[(1, 1), (1, 1), (1, 2), (1, 2)], #v[(1, 1), (0, 1), (1, 2), (1, 2)],
                               #v[(1, 2), (1, 2), (0, 1), (1, 1)], #v[(1, 2), (1, 2), (1, 1), (0, 1)]] []).toOption = none := by
  decide +kernel
-- recorded real run: bct.makerandCIJdegreesfixed(inv=[2, 1, 2, 1, 1], outv=[1, 2, 1, 2, 1], seed=RandomState(9)) (the repair loop is entered)
example : (degreesFixed (n := 5) (fun i => #[2, 1, 2, 1, 1][i.val]!) (fun i => #[1, 2, 1, 2, 1][i.val]!) [5, 1, 2, 3, 0, 4, 6, 1, 6, 4, 3, 0, 2]).toOption
    = some (#v[#v[0, 0, 0, 1, 0], #v[1, 0, 1, 0, 0], #v[1, 0, 0, 0, 0], #v[0, 0, 1, 0, 1], #v[0, 1, 0, 0, 0]], []) := by decide +kernel
-- recorded real run: bct.makefractalCIJ(2, 3, 1, seed=RandomState(11)); prob holds the doubles 1/3**ee computed by the code
example : (fractalCIJ 4 2 1 3 #v[#v[(0, 1), (1, 1), (6004799503160661, 18014398509481984), (6004799503160661, 18014398509481984)], #v[(1, 1), (0, 1), (6004799503160661, 18014398509481984), (6004799503160661, 18014398509481984)], #v[(6004799503160661, 18014398509481984), (6004799503160661, 18014398509481984), (0, 1), (1, 1)], #v[(6004799503160661, 18014398509481984), (6004799503160661, 18014398509481984), (1, 1), (0, 1)]]
    [1623725007303226, 175417380613233, 4172301566658110, 6529624346755973, 3784857594082057, 4372338596847932, 115119343655513, 4389853178233467, 8483040177097276, 7663280894971817, 6574935432160360, 979407465501694, 8051572976401648, 7720559095432467, 1486968058971441, 5695558458058374]).toOption
    = some (#v[#v[0, 1, 0, 0], #v[1, 0, 1, 0], #v[0, 0, 0, 1], #v[0, 0, 1, 0]], 5, []) := by decide +kernel
-- recorded real run: bct.maketoeplitzCIJ(4, 5, 2.0, seed=RandomState(3)); prof = the scaled Gaussian profile the code computed (2 samples drawn)
example : (toeplitzCIJ 4 5 [(4476767566838841, 9007199254740992), (3486510086682757, 9007199254740992), (8458701051881773, 36028797018963968)]
    [4961146457582618, 6378428540132250, 2620236947537295, 4601126024837516, 8042951141723434, 8073090442670765, 1131171914816282, 1866677897516654, 463575355214838, 3970462095212506, 269100984359913, 4114787878308966, 5846969781895224, 2508390444721687, 6091162649130381, 5322019128686718, 216009593074890, 5033710124860429, 2335138446574701, 3738899192351193, 2553766905231001, 6243231341261543, 3967254397551784, 1412938977084594, 4905762229311845, 7028450565370178, 2759477380498544, 1999218886737832, 3494534421916165, 8434194113174519, 8790985241928829, 6056293744581904]).toOption
    = some (#v[#v[0, 0, 1, 0], #v[1, 0, 1, 1], #v[0, 0, 0, 1], #v[0, 0, 0, 0]], []) := by decide +kernel
-- degrees fixed: inv = outv = (1,1,1); the identity permutation forces two repairs (switch 1, then 0)
example : (degreesFixed (n := 3) (fun _ => 1) (fun _ => 1) [0, 1, 2, 1, 0]).toOption
    = some (#v[#v[0, 0, 1], #v[1, 0, 0], #v[0, 1, 0]], []) := by decide +kernel
-- … and a draw sequence on which the repair loop gives up (BCTParamError), so "if it returns" matters
example : (degreesFixed (n := 2) (fun i => if i = 0 then 1 else 0) (fun i => if i = 0 then 1 else 0) [0, 0]).toOption
    = none := by decide +kernel
-- ring: n = 5, k = 13: two bands, 7 cells removed from the outer one
example : (ringLattice 5 13 [0, 1, 2, 3, 4, 5, 6, 7, 8, 9]).toOption
    = some (#v[#v[0, 1, 0, 0, 1], #v[1, 0, 1, 0, 0], #v[0, 1, 0, 1, 0], #v[0, 1, 1, 0, 1], #v[1, 1, 1, 1, 0]], []) := by
  decide +kernel
-- regression examples for the former D19 inputs (even n, k > n(n-2)): the antipodal band is added once
example : (ringLattice 4 10 [3, 1, 0, 2]).toOption
    = some (#v[#v[0, 1, 1, 1], #v[1, 0, 1, 0], #v[1, 1, 0, 1], #v[1, 0, 1, 0]], []) := by decide +kernel
example : (ringLattice 4 12 [7]).toOption.map (fun r => (matSum r.1, r.2)) = some (12, [7]) := by decide +kernel
example : (ringLattice 6 24 []).toOption.map (fun r => matSum r.1) = some 24 := by decide +kernel

end Bct.C20
