import BctVerif.Model.CoreIRMod
import BctVerif.Props.CoresClust
import Mathlib.Algebra.BigOperators.Fin

/-!
# C02 (second tie) — link theorems for the modularity matrix and `q` of `modularity_und` / `modularity_dir`
-/

namespace Bct.Cores.Mod
open Bct Bct.Modularity Bct.CoreIR.Mod
open Bct.CoreIR.Clust (V Val Ex Env eval zip2 map1 sumV)
open Bct.Cores.Clust (embA sumV_num)

variable {n : ℕ}

/-- a label vector as the interpreter sees it -/
def embC (c : Fin n → ℤ) : Vector V n := Vector.ofFn fun i => V.num (c i : ℚ)

@[simp] theorem mul_bool_num (b : Bool) (x : ℚ) : V.mul (.bool b) (.num x) = .num ((if b then 1 else 0) * x) := rfl
@[simp] theorem lnot_num (x : ℚ) : V.lnot (.num x) = .bool (x == 0) := rfl

theorem sum_cols (W : RMat n) :
    ((List.finRange n).map fun k => ((List.finRange n).map fun k_1 => AMat.get W k_1 k).sum).sum = total W := by
  simp only [total, fsum, ← Fin.sum_univ_def]
  exact Finset.sum_comm

theorem lab_cell (c : Fin n → ℤ) (i j : Fin n) (x : ℚ) :
    (if (((c j : ℤ) : ℚ) - ((c i : ℤ) : ℚ) == 0) = true then (1 : ℚ) else 0) * x = if c i = c j then x else 0 := by
  by_cases h : c i = c j
  · simp [h]
  · have : ¬ (((c j : ℤ) : ℚ) - ((c i : ℤ) : ℚ) = 0) := by
      rw [sub_eq_zero]; intro hc; exact h (by exact_mod_cast hc.symm)
    simp [h, this]

/-- **Link, `modularity_und`** (the modularity matrix and `q`).  If the generated obligation holds, then for every weight matrix with
non-zero total, every `gamma` and every label vector (the argument `kci`, or what the spectral part produced), the value the extracted
statements return as `q` is `Modularity.modularityUndGiven W γ c`. -/
theorem link_mod_und (ir : ModIR) (hok : modOk refUnd ir = true) (W : RMat n) (γ : ℚ) (c : Fin n → ℤ) (hs : total W ≠ 0) :
    runQ ir (embA W) γ (embC c) = .sc (.num (modularityUndGiven W γ c)) := by
  have hir : ir = refUnd := by simpa [modOk] using hok
  subst hir
  simp [runQ, refUnd, Bct.CoreIR.Clust.execs, Bct.CoreIR.Clust.exec, eval, zip2, map1, sumV_num, embC, sum_cols, hs]
  simp only [modularityUndGiven, fsum, colSum, Vector.getElem_ofFn, Fin.getElem_fin]
  congr 1
  apply List.map_congr_left; intro i _
  congr 1
  apply List.map_congr_left; intro j _
  by_cases h : c i = c j
  · simp [h]
  · have hne : ¬ (((c j : ℤ) : ℚ) - ((c i : ℤ) : ℚ) = 0) := by
      rw [sub_eq_zero]; intro hc; exact h (by exact_mod_cast hc.symm)
    simp [h, hne]

/-- **Link, `modularity_dir`** (the modularity matrix and `q`): the value returned as `q` is `Modularity.modularityDirGiven W γ c`. -/
theorem link_mod_dir (ir : ModIR) (hok : modOk refDir ir = true) (W : RMat n) (γ : ℚ) (c : Fin n → ℤ) (hs : total W ≠ 0) :
    runQ ir (embA W) γ (embC c) = .sc (.num (modularityDirGiven W γ c)) := by
  have hir : ir = refDir := by simpa [modOk] using hok
  subst hir
  have h2 : (2 : ℚ) * total W ≠ 0 := mul_ne_zero (by norm_num) hs
  simp [runQ, refDir, refUnd, Bct.CoreIR.Clust.execs, Bct.CoreIR.Clust.exec, eval, zip2, map1, sumV_num, embC, sum_cols, hs, h2]
  simp only [modularityDirGiven, Bmod, fsum, colSum, rowSum, Vector.getElem_ofFn, Fin.getElem_fin, AMat.get_ofFn]
  congr 1
  apply List.map_congr_left; intro i _
  congr 1
  apply List.map_congr_left; intro j _
  by_cases h : c i = c j
  · simp [h]; ring
  · have hne : ¬ (((c j : ℤ) : ℚ) - ((c i : ℤ) : ℚ) = 0) := by
      rw [sub_eq_zero]; intro hc; exact h (by exact_mod_cast hc.symm)
    simp [h, hne]

/-! ## the aggregation step of the Louvain routines -/

theorem foldl_set_get (L : List (Fin n × Fin n × ℚ)) (val : Fin n → Fin n → ℚ) (hval : ∀ t ∈ L, t.2.2 = val t.1 t.2.1) :
    ∀ (M0 : AMat ℚ n) (a b : Fin n), (L.foldl (fun M t => M.set t.1 t.2.1 t.2.2) M0).get a b
      = if ∃ t ∈ L, t.1 = a ∧ t.2.1 = b then val a b else M0.get a b := by
  induction L with
  | nil => intro M0 a b; simp
  | cons t L ih =>
    intro M0 a b
    have ih' := ih (fun t' ht' => hval t' (List.mem_cons_of_mem _ ht')) (M0.set t.1 t.2.1 t.2.2) a b
    simp only [List.foldl_cons, ih']
    by_cases h1 : ∃ t' ∈ L, t'.1 = a ∧ t'.2.1 = b
    · have h2 : ∃ t' ∈ t :: L, t'.1 = a ∧ t'.2.1 = b := by
        obtain ⟨t', ht', h⟩ := h1; exact ⟨t', List.mem_cons_of_mem _ ht', h⟩
      simp only [h1, h2, if_true]
    · simp only [h1, if_false, AMat.get_set]
      by_cases h3 : a = t.1 ∧ b = t.2.1
      · have h2 : ∃ t' ∈ t :: L, t'.1 = a ∧ t'.2.1 = b := ⟨t, List.mem_cons_self, h3.1.symm, h3.2.symm⟩
        rw [if_pos h3, if_pos h2, hval t List.mem_cons_self, ← h3.1, ← h3.2]
      · have h2 : ¬ ∃ t' ∈ t :: L, t'.1 = a ∧ t'.2.1 = b := by
          rintro ⟨t', ht', h⟩
          rcases List.mem_cons.mp ht' with rfl | hm
          · exact h3 ⟨h.1.symm, h.2.symm⟩
          · exact h1 ⟨t', hm, h⟩
        simp only [h3, if_false, h2]

/-- the labels as the source holds them: `1 +` the slot -/
def pyLab (m : Lab n) : Fin n → ℤ := fun x => (m[x].val : ℤ) + 1

theorem blk_agg (W : RMat n) (m : Lab n) (i j : Fin n) :
    ((List.finRange n).map fun x => if pyLab m x = (i.val : ℤ) + 1 then
        ((List.finRange n).map fun y => if pyLab m y = (j.val : ℤ) + 1 then W.get x y else 0).sum else 0).sum = agg W m i j := by
  have h : ∀ (x a : Fin n), (pyLab m x = (a.val : ℤ) + 1) ↔ m[x] = a := by
    intro x a; simp only [pyLab]; constructor
    · intro hh; apply Fin.ext; omega
    · intro hh; rw [hh]
  simp only [agg, fsum, h]

theorem qTrace_eq (w : RMat n) (s γ : ℚ) :
    ((List.finRange n).map fun i => w.get i i).sum / s - γ * ((List.finRange n).map fun i => ((List.finRange n).map fun j =>
      ((List.finRange n).map fun k => (w.get i k / s) * (w.get k j / s)).sum).sum).sum = qTraceDot w s γ := by
  simp only [qTraceDot, Modularity.trace, dotSum, fsum, AMat.get_ofFn]

theorem storesAt_und (W : RMat n) (m : Lab n) (i j : Fin n) :
    storesAt refAggUnd W (pyLab m) i j = [(i, j, agg W m i j), (j, i, agg W m i j)] := by
  rw [← blk_agg W m i j]
  rfl

/-- **Link, aggregation step of `modularity_louvain_und`.**  The extracted statements replace the weights by `Modularity.aggUpper W m`
(on `n` module slots) and append `Modularity.qTraceDot` of it. -/
theorem link_agg_und (ir : AggIR) (hok : aggOk refAggUnd ir = true) (W : RMat n) (m : Lab n) (s γ : ℚ) :
    runAgg ir "W" "m" "s" "gamma" W (pyLab m) s γ = some (aggUpper W m, qTraceDot (aggUpper W m) s γ) := by
  have hir : ir = refAggUnd := by simpa [aggOk] using hok
  subst hir
  have hc : refAggUnd.coherent "W" "m" "s" "gamma" = true := by decide
  have hW : (((List.finRange n).flatMap fun i => ((List.finRange n).filter fun j => decide (i.val ≤ j.val)).map fun j => (i, j)).flatMap
      fun c => storesAt refAggUnd W (pyLab m) c.1 c.2).foldl (fun M t => M.set t.1 t.2.1 t.2.2) (AMat.ofFn fun _ _ => (0 : ℚ))
      = aggUpper W m := by
    apply AMat.ext_get; intro a b
    rw [foldl_set_get _ (fun a b => (aggUpper W m).get a b)]
    · rw [if_pos]
      by_cases hab : a.val ≤ b.val
      · refine ⟨(a, b, agg W m a b), ?_, rfl, rfl⟩
        simp only [List.mem_flatMap, List.mem_map, List.mem_filter, List.mem_finRange, true_and, decide_eq_true_eq]
        refine ⟨(a, b), ⟨a, b, hab, rfl⟩, ?_⟩
        rw [storesAt_und]; simp
      · refine ⟨(a, b, agg W m b a), ?_, rfl, rfl⟩
        simp only [List.mem_flatMap, List.mem_map, List.mem_filter, List.mem_finRange, true_and, decide_eq_true_eq]
        refine ⟨(b, a), ⟨b, a, by omega, rfl⟩, ?_⟩
        rw [storesAt_und]; simp
    · intro t ht
      simp only [List.mem_flatMap, List.mem_map, List.mem_filter, List.mem_finRange, true_and, decide_eq_true_eq] at ht
      obtain ⟨c, ⟨i, j, hij, rfl⟩, hs⟩ := ht
      rw [storesAt_und] at hs
      simp only [List.mem_cons, List.not_mem_nil, or_false] at hs
      rcases hs with rfl | rfl
      · simp only [aggUpper, AMat.get_ofFn, hij, if_true]
      · simp only [aggUpper, AMat.get_ofFn]
        by_cases hji : j.val ≤ i.val
        · have : i = j := Fin.ext (by omega)
          subst this; simp
        · simp [hji]
  simp only [runAgg, hc, if_true, show refAggUnd.jLo = some "i" from rfl, hW, qTrace_eq]

theorem storesAt_dir (W : RMat n) (m : Lab n) (i j : Fin n) :
    storesAt refAggDir W (pyLab m) i j = [(i, j, agg W m i j)] := by
  rw [← blk_agg W m i j]
  rfl

/-- **Link, aggregation step of `modularity_louvain_dir`**: `Modularity.aggFull W m` and `Modularity.qTraceDot` of it. -/
theorem link_agg_dir (ir : AggIR) (hok : aggOk refAggDir ir = true) (W : RMat n) (m : Lab n) (s γ : ℚ) :
    runAgg ir "W" "m" "s" "gamma" W (pyLab m) s γ = some (aggFull W m, qTraceDot (aggFull W m) s γ) := by
  have hir : ir = refAggDir := by simpa [aggOk] using hok
  subst hir
  have hc : refAggDir.coherent "W" "m" "s" "gamma" = true := by decide
  have hW : (((List.finRange n).flatMap fun i => ((List.finRange n).filter fun _ => true).map fun j => (i, j)).flatMap
      fun c => storesAt refAggDir W (pyLab m) c.1 c.2).foldl (fun M t => M.set t.1 t.2.1 t.2.2) (AMat.ofFn fun _ _ => (0 : ℚ))
      = aggFull W m := by
    apply AMat.ext_get; intro a b
    rw [foldl_set_get _ (fun a b => (aggFull W m).get a b)]
    · rw [if_pos]
      refine ⟨(a, b, agg W m a b), ?_, rfl, rfl⟩
      rw [List.mem_flatMap]
      refine ⟨(a, b), by simp, ?_⟩
      rw [storesAt_dir]; simp
    · intro t ht
      rw [List.mem_flatMap] at ht
      obtain ⟨c, _, hs⟩ := ht
      rw [storesAt_dir] at hs
      simp only [List.mem_cons, List.not_mem_nil, or_false] at hs
      subst hs
      simp only [aggFull, AMat.get_ofFn]
  simp only [runAgg, hc, if_true, show refAggDir.jLo = none from rfl, hW, qTrace_eq]

example : aggOk refAggUnd refAggUnd = true := by decide
example : aggOk refAggDir refAggDir = true := by decide
/-- a lower-triangle loop `range(0, n)` … here: the undirected stores with the directed loop are rejected -/
example : aggOk refAggUnd { refAggUnd with jLo := none } = false := by decide

example : modOk refUnd refUnd = true := by decide
example : modOk refDir refDir = true := by decide
/-- `np.outer(k, k) / n` for `/ m` is rejected -/
example : modOk refUnd { refUnd with pre := refUnd.pre.set 4 (.bind "B" (.sub (.ref "A") (.div (.mul (.ref "gamma") (.outer (.ref "k") (.ref "k"))) (.ref "n")))) } = false := by
  decide
/-- a different number of uninterpreted statements before the `if` is rejected -/
example : modOk refUnd { refUnd with skipped := 4 } = false := by decide

end Bct.Cores.Mod
