import BctVerif.Model.CoreIRWalks
import BctVerif.Props.CoresClust
import Mathlib.Algebra.BigOperators.Fin

/-!
# C18 (second tie) — link theorem for the source-extracted `pagerank_centrality`
-/

namespace Bct.Cores.Walks
open Bct Bct.Walks Bct.CoreIR.Walks
open Bct.CoreIR.Clust (V Val Ex Env eval zip2 map1 sumV maskCell)
open Bct.Cores.Clust (embA sumV_num)

variable {n : ℕ}

/-- the initial-rank argument as the interpreter sees it -/
def embI (f : Vector ℤ n) : Vector V n := Vector.ofFn fun i => V.num (f[i] : ℚ)

theorem sum_single (f g : Fin n → ℚ) (j : Fin n) :
    ((List.finRange n).map fun k => f k * (if k = j then g k else 0)).sum = f j * g j := by
  rw [← Fin.sum_univ_def]
  simp [Finset.sum_ite_eq']

theorem colDeg_ne (A : QMat n) (j : Fin n) : colDeg A j ≠ 0 := by
  unfold colDeg; simp only []; split <;> simp_all

theorem mask_colDeg (s : ℚ) : maskCell (V.bool (s == 0)) (V.num 1) (V.num s) = V.num (if s = 0 then 1 else s) := by
  by_cases h : s = 0
  · simp [maskCell, h]
  · have hb : (s == 0) = false := by simpa using h
    simp [maskCell, h, hb]

theorem ite_num (c : Prop) [Decidable c] (x y : ℚ) : (if c then V.num x else V.num y) = V.num (if c then x else y) := by
  split <;> rfl

/-- the environment the routine starts in -/
def env0 (A : QMat n) (d : ℚ) (f : Option (Vector ℤ n)) : Env n :=
  fun y => if y = "A" then some (.mat (embA A)) else if y = "d" then some (.sc (.num d))
    else if y = "falff" then some (match f.map embI with | some v => .vec v | none => .none) else none

/-- the right-hand side `b` as the interpreter has it: an error cell where the prior is `0 / 0` -/
def bOf (d : ℚ) (f : Option (Vector ℤ n)) : Vector V n :=
  match prior f with
  | .ok nf => Vector.ofFn fun i => V.num ((1 - d) * nf[i])
  | .error _ => Vector.ofFn fun _ => V.err

theorem pre_spec (sol : Vector ℚ n) (A : QMat n) (d : ℚ) (f : Option (Vector ℤ n)) (hn : 0 < n) :
    ∃ E1, execs sol refPr.imports (refPr.body.take 7) (env0 A d f) = some E1 ∧
      E1 "B" = some (.mat (embA (prMat A d))) ∧ E1 "b" = some (.vec (bOf d f)) ∧ E1 "r" = none := by
  have hnq : (n : ℚ) ≠ 0 := by exact_mod_cast (Nat.pos_iff_ne_zero.mp hn)
  have hn0 : n ≠ 0 := Nat.pos_iff_ne_zero.mp hn
  have hB : ∀ i j : Fin n, (V.num (if i = j then 1 else 0)).sub ((V.num d).mul (sumV ((List.finRange n).map fun k =>
      (V.num (AMat.get A i k)).mul (if k = j then (V.num 1).div (maskCell (V.bool (((List.finRange n).map fun k_1 => AMat.get A k_1 k).sum == 0))
        (V.num 1) (V.num ((List.finRange n).map fun k_1 => AMat.get A k_1 k).sum)) else V.num 0))))
      = V.num ((prMat A d).get i j) := by
    intro i j
    have hc : ∀ k : Fin n, (V.num 1).div (maskCell (V.bool (((List.finRange n).map fun k_1 => AMat.get A k_1 k).sum == 0))
        (V.num 1) (V.num ((List.finRange n).map fun k_1 => AMat.get A k_1 k).sum)) = V.num (1 / colDeg A k) := by
      intro k
      rw [mask_colDeg]
      have hne := colDeg_ne A k
      show (V.num 1).div (V.num (colDeg A k)) = V.num (1 / colDeg A k)
      simp [Bct.Cores.Clust.div_num, hne]
    simp only [hc, ite_num, Bct.Cores.Clust.mul_num, sumV_num, Bct.Cores.Clust.sub_num, prMat, AMat.get_ofFn, delta]
    rw [sum_single (fun k => AMat.get A i k) (fun k => 1 / colDeg A k) j]
    congr 1; ring
  cases f with
  | none =>
    refine ⟨?E1, ?h1, ?h2⟩
    case h1 =>
      simp [refPr, execs, exec, eval, zip2, map1, sumV_num, env0]
      rfl
    case h2 =>
      refine ⟨?_, ?_, by simp [env0]⟩
      · simp only [show ("B" = "b") = False by decide, if_false, if_true, Option.some.injEq, Val.mat.injEq]
        apply AMat.ext_get; intro i j
        simp only [AMat.get_ofFn, Bct.Cores.Clust.embA_get]
        exact hB i j
      · simp only [if_true, Option.some.injEq, Val.vec.injEq]
        apply Vector.ext; intro i hi
        simp [bOf, prior, hn0]
  | some fv =>
    refine ⟨?E2, ?h3, ?h4⟩
    case h3 =>
      simp [refPr, execs, exec, eval, zip2, map1, sumV_num, env0, embI]
      rfl
    case h4 =>
      refine ⟨?_, ?_, by simp [env0]⟩
      · simp only [show ("B" = "b") = False by decide, if_false, if_true, Option.some.injEq, Val.mat.injEq]
        apply AMat.ext_get; intro i j
        simp only [AMat.get_ofFn, Bct.Cores.Clust.embA_get]
        exact hB i j
      · simp only [if_true, Option.some.injEq, Val.vec.injEq]
        apply Vector.ext; intro i hi
        by_cases hs : ((List.finRange n).map fun k : Fin n => ((fv[k.val]'k.isLt : ℤ) : ℚ)).sum = 0
        · simp [bOf, prior, fsum, hs, V.mul, V.asNum]
        · simp [bOf, prior, fsum, hs]

theorem solvesV_ok (M : QMat n) (sol b : Vector ℚ n) :
    solvesV (embA M) sol (Vector.ofFn fun i => V.num b[i]) = solves M sol b := by
  simp [solvesV, solves, isNum, cellQ, allFin, fsum]

theorem solvesV_err (M : AMat V n) (sol : Vector ℚ n) (hn : 0 < n) : solvesV M sol (Vector.ofFn fun _ => V.err) = false := by
  have : (List.finRange n) ≠ [] := by
    intro h; have := congrArg List.length h; simp at this; omega
  cases hl : List.finRange n with
  | nil => exact absurd hl this
  | cons x xs => simp [solvesV, isNum, hl]

theorem execs_append (sol : Vector ℚ n) (im : List (String × String)) (s t : List WStmt) (E : Env n) :
    execs sol im (s ++ t) E = match execs sol im s E with
      | some E' => execs sol im t E'
      | none => none := by
  induction s generalizing E with
  | nil => rfl
  | cons x s ih =>
    simp only [List.cons_append, execs]
    cases exec sol im E x with
    | none => rfl
    | some E1 => exact ih E1

/-- `r = linalg.solve(B, b); r /= np.sum(r); return r` -/
theorem tail_spec (sol : Vector ℚ n) (E1 : Env n) (M : QMat n) (bv : Vector V n) (hB : E1 "B" = some (.mat (embA M)))
    (hb : E1 "b" = some (.vec bv)) :
    (match execs sol refPr.imports (refPr.body.drop 7) E1 with
      | some E => finish (eval id E refPr.ret)
      | none => none) =
    if solvesV (embA M) sol bv then
      finish (.vec (Vector.ofFn fun i => V.div (V.num sol[i]) (V.num (fsum fun i : Fin n => sol[i])))) else none := by
  by_cases hs : solvesV (embA M) sol bv = true
  · simp only [hs, if_true]
    have h1 : execs sol refPr.imports (refPr.body.drop 7) E1 = some (fun y => if y = "r" then
        some (.vec (Vector.ofFn fun i => V.div (V.num sol[i]) (V.num (fsum fun i : Fin n => sol[i])))) else
        (fun y => if y = "r" then some (Val.vec (Vector.ofFn fun i => V.num sol[i])) else E1 y) y) := by
      simp [refPr, execs, exec, eval, hB, hb, hs, zip2, sumV_num, fsum]
    rw [h1]
    simp [refPr, eval]
  · have hs' : solvesV (embA M) sol bv = false := by simpa using hs
    simp only [hs', Bool.false_eq_true, if_false]
    have h1 : execs sol refPr.imports (refPr.body.drop 7) E1 = none := by
      simp [refPr, execs, exec, eval, hB, hb, hs']
    rw [h1]

/-- **Link, `pagerank_centrality`.**  If the generated obligation holds then, for every matrix, damping factor and initial-rank
argument (`n > 0`) and every value `sol` given for `linalg.solve`: the extracted routine builds `Walks.prMat A d` and
`(1 - d) · Walks.prior f`, continues only if `sol` solves that system exactly, and returns `sol / Σ sol`; it has no result when the
prior is `0 / 0` or `Σ sol = 0`. -/
theorem link_pagerank (ir : PrIR) (hok : prOk ir = true) (sol : Vector ℚ n) (A : QMat n) (d : ℚ) (f : Option (Vector ℤ n)) (hn : 0 < n) :
    run sol ir (embA A) d (f.map embI) =
      match prior f with
      | .error _ => none
      | .ok nf =>
        if solves (prMat A d) sol (Vector.ofFn fun i => (1 - d) * nf[i]) then
          (if fsum (fun i : Fin n => sol[i]) = 0 then none else some (Vector.ofFn fun i => sol[i] / fsum fun i : Fin n => sol[i]))
        else none := by
  have hir : ir = refPr := by simpa [prOk] using hok
  subst hir
  obtain ⟨E1, e1, hB, hb, _⟩ := pre_spec sol A d f hn
  have hsplit : refPr.body = refPr.body.take 7 ++ refPr.body.drop 7 := (List.take_append_drop 7 _).symm
  have hrun : run sol refPr (embA A) d (f.map embI) = match execs sol refPr.imports refPr.body (env0 A d f) with
      | some E => finish (eval id E refPr.ret)
      | none => none := by
    simp only [run, show refPr.params = ["A", "d", "falff"] from rfl]
    rfl
  rw [hrun, hsplit, execs_append, e1]
  have ht := tail_spec sol E1 (prMat A d) (bOf d f) hB hb
  simp only [] at ht ⊢
  rw [ht]
  unfold bOf
  cases hp : prior f with
  | error e => simp only [solvesV_err _ _ hn, Bool.false_eq_true, if_false]
  | ok nf =>
    have hbv : (Vector.ofFn fun i => V.num ((1 - d) * nf[i]) : Vector V n) = Vector.ofFn fun i => V.num (Vector.ofFn (fun i => (1 - d) * nf[i]) : Vector ℚ n)[i] := by
      apply Vector.ext; intro i hi; simp
    simp only [hbv, solvesV_ok]
    by_cases hsv : solves (prMat A d) sol (Vector.ofFn fun i => (1 - d) * nf[i]) = true
    · simp only [hsv, if_true]
      have hne : (List.finRange n) ≠ [] := by
        intro h; have := congrArg List.length h; simp at this; omega
      by_cases hS : (fsum fun i : Fin n => sol[i]) = 0
      · simp only [hS, if_true, finish]
        cases hl : List.finRange n with
        | nil => exact absurd hl hne
        | cons x xs => simp [hl, isNum]
      · simp only [Fin.getElem_fin] at hS
        simp [hS, finish, isNum, cellQ]
    · have hsv' : solves (prMat A d) sol (Vector.ofFn fun i => (1 - d) * nf[i]) = false := by simpa using hsv
      simp only [hsv', Bool.false_eq_true, if_false]

/-- the model's own solution is accepted, and the routine then returns the model's ranks -/
theorem link_pagerank_model (ir : PrIR) (hok : prOk ir = true) (A : QMat n) (d : ℚ) (f : Option (Vector ℤ n)) (hn : 0 < n)
    (o : PrOut n) (h : pagerank A d f = .ok o) : run o.r0 ir (embA A) d (f.map embI) = some o.r := by
  rw [link_pagerank ir hok o.r0 A d f hn]
  unfold pagerank at h
  cases hp : prior f with
  | error e => rw [hp] at h; simp at h
  | ok nf =>
    rw [hp] at h
    simp only [] at h
    cases hs : solveVec (prMat A d) (Vector.ofFn fun i => (1 - d) * nf[i]) with
    | none => rw [hs] at h; simp at h
    | some r0 =>
      rw [hs] at h
      simp only [] at h
      simp only [Fin.getElem_fin] at h ⊢
      by_cases hc : solves (prMat A d) r0 (Vector.ofFn fun i => (1 - d) * nf[(i : ℕ)]) = true
      · simp only [hc, Bool.not_true, Bool.false_eq_true, if_false] at h
        by_cases hz : (fsum fun i : Fin n => r0[(i : ℕ)]) = 0
        · simp [hz] at h
        · simp only [hz, if_false, Except.ok.injEq] at h
          subst h
          simp [hc, hz]
      · have hc' : solves (prMat A d) r0 (Vector.ofFn fun i => (1 - d) * nf[(i : ℕ)]) = false := by simpa using hc
        simp [hc'] at h

/-! ## `mean_first_passage_time` -/

/-- `np.linalg.solve(np.diag(np.sum(A, axis=1)), A)`: an exact solution is the row-normalised matrix -/
theorem solve_diag_unique (W Xp : QMat n) (hr : ∀ i, rowSum W i ≠ 0) (h : ∀ i j, rowSum W i * Xp.get i j = W.get i j) :
    Xp = transition W := by
  apply AMat.ext_get; intro i j
  simp only [transition, AMat.get_ofFn]
  rw [← h i j, mul_comm, mul_div_assoc, div_self (hr i), mul_one]

/-- **Link, `mean_first_passage_time`.**  If the generated obligation holds and the model returns `o` for `W`, then for every value
`Xp` accepted for `np.linalg.solve` (it is then `o.P`), every eigen-decomposition `(Dv, Vm)` given for `np.linalg.eig` whose column
selected by the routine's own rule (`k`: the only index of the eigenvalue closest to `1`, within the tolerance) normalises to the
model's stationary vector, and `o.Z` for `np.linalg.inv`, the extracted routine returns the model's matrix `o.M`. -/
theorem link_mfpt_model (ir : MfptIR) (hok : mfptOk ir = true) (W : QMat n) (o : MfptOut n) (h : mfpt W = .ok o)
    (Xp : QMat n) (hX : ∀ i j, rowSum W i * Xp.get i j = W.get i j)
    (Dv : Vector ℚ n) (Vm : QMat n) (k : Fin n)
    (hsel : ∀ (a : ℚ) (as : List ℚ), (List.finRange n).map (fun i => absQ (Dv[i] - 1)) = a :: as →
      ((List.finRange n).filter fun i => absQ (Dv[i] - 1) == as.foldl (fun x y => if y < x then y else x) a) = [k])
    (htol : ¬ (1 : ℚ) / 100 < absQ (Dv[k] - 1))
    (hs : ((List.finRange n).map fun i => Vm.get i k).sum ≠ 0)
    (hw : ∀ j : Fin n, Vm.get j k / ((List.finRange n).map fun i => Vm.get i k).sum = o.w[j]) :
    runMfpt ir W Xp Dv Vm o.Z = some o.M := by
  have hir : ir = refMfpt := by simpa [mfptOk] using hok
  subst hir
  -- what the model's success says
  unfold mfpt at h
  by_cases h0 : (anyFin n fun i => rowSum W i == 0) = true
  · simp [h0] at h
  · have h0' : (anyFin n fun i => rowSum W i == 0) = false := by simpa using h0
    simp only [h0', Bool.false_eq_true, if_false] at h
    cases hsv : solveVec (AMat.ofFn fun i j => delta i j - (transition W).get j i + 1 : QMat n) (Vector.ofFn fun _ => 1) with
    | none => rw [hsv] at h; simp at h
    | some w =>
      rw [hsv] at h
      simp only [Fin.getElem_fin] at h
      by_cases hst : stationary (transition W) w = true
      · simp only [hst, Bool.not_true, Bool.false_eq_true, if_false] at h
        by_cases hz : (anyFin n fun j => w[(j : ℕ)] == 0) = true
        · simp [hz] at h
        · have hz' : (anyFin n fun j => w[(j : ℕ)] == 0) = false := by simpa using hz
          simp only [hz', Bool.false_eq_true, if_false] at h
          cases hiv : inverseGJ (fundArg (transition W) w) with
          | none => rw [hiv] at h; simp at h
          | some Z =>
            rw [hiv] at h
            simp only [] at h
            by_cases hinv : isInvOf (fundArg (transition W) w) Z = true
            · simp only [hinv, Bool.not_true, Bool.false_eq_true, if_false, Except.ok.injEq] at h
              subst h
              simp only [] at hw ⊢
              have hr : ∀ i, rowSum W i ≠ 0 := by
                intro i hi
                have : (anyFin n fun i => rowSum W i == 0) = true := by
                  simp only [anyFin, List.any_eq_true]; exact ⟨i, List.mem_finRange i, by simp [hi]⟩
                rw [h0'] at this; exact absurd this (by simp)
              have hP : Xp = transition W := solve_diag_unique W Xp hr hX
              have hc : refMfpt.coherent = true := by decide
              have hacc : ((List.finRange n).all fun i => (List.finRange n).all fun j =>
                  ((List.finRange n).map fun j => W.get i j).sum * Xp.get i j == W.get i j) = true := by
                simp only [List.all_eq_true, beq_iff_eq]
                intro i _ j _; exact hX i j
              have hwne : ∀ j : Fin n, w[j] ≠ 0 := by
                intro j hj
                have : (anyFin n fun j => w[(j : ℕ)] == 0) = true := by
                  simp only [anyFin, List.any_eq_true]; exact ⟨j, List.mem_finRange j, by simpa using hj⟩
                rw [hz'] at this; exact absurd this (by simp)
              cases hl : (List.finRange n).map (fun i => absQ (Dv[i] - 1)) with
              | nil =>
                have : (List.finRange n) = [] := by simpa using hl
                have hk := List.mem_finRange k; rw [this] at hk; exact absurd hk (by simp)
              | cons a as =>
                have hf := hsel a as hl
                simp only [runMfpt, hc, if_true, hacc, show refMfpt.auxShift = 1 from rfl, Nat.cast_one, hl, hf,
                  show refMfpt.tolNum = 1 from rfl, show refMfpt.tolDen = 100 from rfl, Nat.cast_ofNat, htol, if_false, hs]
                simp only [hw, hP]
                have hinv' : ((List.finRange n).all fun i => (List.finRange n).all fun j =>
                    ((List.finRange n).map fun l => ((if i = l then 1 else 0) - (transition W).get i l + w[l]) * Z.get l j).sum
                      == (if i = j then 1 else 0)) = true := by
                  have := hinv
                  simpa [isInvOf, allFin, fsum, fundArg, delta] using this
                have hnz : ((List.finRange n).all fun j => w[j] != 0) = true := by
                  simp only [List.all_eq_true, bne_iff_ne]
                  intro j _; exact hwne j
                simp only [Fin.getElem_fin] at hinv' hnz ⊢
                simp only [hinv', hnz, if_true]
            · have hinv' : isInvOf (fundArg (transition W) w) Z = false := by simpa using hinv
              simp [hinv'] at h
      · have hst' : stationary (transition W) w = false := by simpa using hst
        simp [hst'] at h

example : mfptOk refMfpt = true := by decide
/-- `axis=0` in the row sums is rejected -/
example : mfptOk { refMfpt with sumAxis := 0 } = false := by decide

example : prOk refPr = true := by decide
/-- `B = -d * …; np.fill_diagonal(B, 1)` style rewrites, here: dropping `np.eye(N) -`, are rejected -/
example : prOk { refPr with body := refPr.body.set 5 (.bind "B" (.mul (.ref "d") (.dot (.ref "A") (.ref "D1")))) } = false := by decide
/-- `deg = np.sum(A, axis=1)` is rejected -/
example : prOk { refPr with body := refPr.body.set 2 (.bind "deg" (.sumAx (.ref "A") 1)) } = false := by decide

end Bct.Cores.Walks
