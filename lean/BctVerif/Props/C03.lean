import BctVerif.Lemmas.DistFloydModel
import BctVerif.Lemmas.DistDijkstraModel
import BctVerif.Lemmas.DistCert
import BctVerif.Lemmas.DistMean
import BctVerif.Lemmas.DistMeanSpec
import BctVerif.Lemmas.DistBinTerm
import BctVerif.Lemmas.DistReachdist
import BctVerif.Lemmas.DistBfsModel
import BctVerif.Lemmas.DistEcc
import BctVerif.Lemmas.DistLog
import BctVerif.Model.LocalEff

/-!
# C03 — shortest-path distance matrices equal true minimum path lengths

All statements are about the executable model `BctVerif/Model/Dist.lean` (`Bct.Dist.floyd`, `dijkstra`, …), through the
function view `lenFun : AMat Ext n → Fin n → Fin n → WithTop ℚ`.  The specification is `IsDist L D`
(`Lemmas/DistBase.lean`): `D i (end of p) ≤ length of p` for every walk `p` from `i`, and every finite `D i j` is the
length of some walk from `i` to `j` — i.e. `D i j` is the minimum total length over all walks (equivalently paths) from
`i` to `j`, and `⊤` exactly when there is none (`IsDist.eq_top_iff`).  `isDist_unique` : at most one matrix satisfies it.

Input convention (as in bct): a matrix of rationals, `0` = no connection; `lenMat tr A` maps it to lengths
(`tr = .none`: the entry itself, `.inv`: `1/entry`, `0 ↦ ∞`).  Hypothesis `NonNeg A` = every entry `≥ 0`, i.e. every
existing connection has positive weight/length — the property's "positive lengths".
-/
namespace Bct.C03
open Bct Bct.Dist
variable {n : ℕ}

/-- entries `≥ 0`: every existing connection (nonzero entry) is positive -/
def NonNeg (A : AMat Rat n) : Prop := ∀ i j, 0 ≤ A.get i j
instance (A : AMat Rat n) : Decidable (NonNeg A) := by unfold NonNeg; infer_instance

theorem lenMat_nonneg (tr : Transform) (A : AMat Rat n) (h : NonNeg A) : ∀ i j, 0 ≤ lenFun (lenMat tr A) i j := by
  intro i j
  simp only [lenFun, lenMat, AMat.get_ofFn, lenOf]
  have := h i j
  split_ifs
  · simp
  · cases tr
    · simp only [Ext.toLen_fin]; exact_mod_cast this
    · simp only [Ext.toLen_fin]
      have h2 : (0 : ℚ) ≤ 1 / A.get i j := by positivity
      exact_mod_cast h2

/-! ## the hub and uniqueness (re-exported) -/

/-- **hub lemma**: zero diagonal and edge feasibility make `D` a lower bound for every walk -/
theorem lower_of_feasible (L D : LMat n) (h0 : ∀ i, D i i ≤ 0) (hf : ∀ i k j, D i j ≤ D i k + L k j) :
    ∀ i p, D i (walkEnd i p) ≤ walkLen L i p := Dist.lower_of_feasible L D h0 hf

/-- the distance matrix is unique: any two matrices satisfying the specification are equal -/
theorem isDist_unique (L D D' : LMat n) (h : IsDist L D) (h' : IsDist L D') : D = D' := Dist.isDist_unique L D D' h h'

/-- an entry is infinite exactly when no walk along existing connections joins the pair -/
theorem isDist_top_iff {L D : LMat n} (h : IsDist L D) (i j : Fin n) :
    D i j = ⊤ ↔ ¬ ∃ p, walkEnd i p = j ∧ walkLen L i p < ⊤ := h.eq_top_iff i j

/-! ## distance_wei_floyd -/

/-- **`floyd_isDist`**: for every `n`, every non-negative weight/length matrix and both exact transforms, `SPL` returned
by the model of `distance_wei_floyd` is the minimum walk length for every ordered pair, `∞` iff unreachable -/
theorem floyd_isDist (tr : Transform) (A : AMat Rat n) (hA : NonNeg A) :
    IsDist (lenFun (lenMat tr A)) (lenFun (floyd (lenMat tr A)).D) :=
  (floyd_spec (lenMat tr A) (lenMat_nonneg tr A hA)).isDist

/-- `distance_wei_floyd` puts 0 on the diagonal of `SPL` (and of `hops`) -/
theorem floyd_diag (L : AMat Ext n) (i : Fin n) : (floyd L).D.get i i = .fin 0 ∧ (floyd L).hops.get i i = 0 := by
  simp [floyd, fFinal]

/-- **`floyd_hops`**: for a reachable pair `i ≠ j`, `hops i j` is the number of edges of a walk from `i` to `j` whose
length is `SPL i j` (a minimum-length walk by `floyd_isDist`) -/
theorem floyd_hops (tr : Transform) (A : AMat Rat n) (hA : NonNeg A) (i j : Fin n) (hij : i ≠ j)
    (hfin : lenFun (floyd (lenMat tr A)).D i j < ⊤) :
    ∃ p, walkEnd i p = j ∧ walkLen (lenFun (lenMat tr A)) i p = lenFun (floyd (lenMat tr A)).D i j ∧
      p.length = (floyd (lenMat tr A)).hops.get i j := by
  have sp := floyd_spec (lenMat tr A) (lenMat_nonneg tr A hA)
  obtain ⟨h1, h2⟩ := walkP_valid sp ((floyd (lenMat tr A)).hops.get i j) i j hij hfin rfl
  exact ⟨_, h1, h2, walkP_length _ _ _ _⟩

/-- an unreachable pair has `hops = 0` -/
theorem floyd_hops_unreachable (tr : Transform) (A : AMat Rat n) (hA : NonNeg A) (i j : Fin n)
    (hinf : lenFun (floyd (lenMat tr A)).D i j = ⊤) : (floyd (lenMat tr A)).hops.get i j = 0 :=
  (floyd_spec (lenMat tr A) (lenMat_nonneg tr A hA)).zero i j hinf

/-! ## the `'log'` and `'inv'` transforms as such (over ℝ)

The statements above are about the executable model, whose lengths are exact rationals. The `'log'` transform produces
`-ln w`, irrational for rational `w ≠ 1`, so it has no executable exact model; but the algorithm itself (`initFS`, one
`stageP` per node, `finalFS`: `floydFun`) is the same function-level program over any ordered field
(`Lemmas/DistGenericK.lean`), it is what the executable model computes at `K = ℚ` (`floydFun_rat`), and over `K = ℝ` it can
be fed the real-valued length matrix.  The floating-point evaluation of `-np.log` and of the sums is outside these
theorems (the open finding C12-retrieve-float-rounding shows that it matters on ties). -/

/-- at `K = ℚ` the field-generic run is the executable model -/
theorem floydFun_is_model (A : AMat Ext n) : floydFun (K := ℚ) (lenFun A) = toK (toFS (floyd A)) := floydFun_rat A

/-- **`distance_wei_floyd_log_spec`**: for real weights in `[0, 1]` (0 = no connection), the run of `distance_wei_floyd` on the
lengths `-ln w` returns the matrix of minimum total `-ln` length over all walks (`∞` iff unreachable), zero diagonal, `hops`
the edge count of such a walk and the `Pmat` recursion — `FloydSpec` — exactly -/
theorem distance_wei_floyd_log_spec (W : Fin n → Fin n → ℝ) (hW : ∀ i j, 0 ≤ W i j ∧ W i j ≤ 1) :
    DistK.FloydSpec (logLen W) (floydFun (logLen W)) :=
  floydFun_spec (logLen W) (logLen_nonneg W hW)

/-- the same for the `'inv'` transform with real non-negative weights -/
theorem distance_wei_floyd_inv_spec_real (W : Fin n → Fin n → ℝ) (hW : ∀ i j, 0 ≤ W i j) :
    DistK.FloydSpec (invLen W) (floydFun (invLen W)) :=
  floydFun_spec (invLen W) (invLen_nonneg W hW)

/-- the `'log'` length is an order-reversing re-encoding of the weight: strictly decreasing on `(0,1]`, weight 1 ↦ length 0,
and the length of a walk is `-ln` of the product of its weights -/
theorem log_transform_order {a b : ℝ} (ha : 0 < a) (hab : a < b) : -Real.log b < -Real.log a ∧ -Real.log 1 = 0 :=
  ⟨neg_log_strictAnti ha hab, neg_log_one⟩

/-- **`log_most_probable_path`**: with `'log'`, a finite `SPL i j = d` means that `exp(-d)` is the largest product of weights
over all walks from `i` to `j` along existing connections, and it is attained: `distance_wei_floyd(W, 'log')` computes the
most probable path -/
theorem log_most_probable_path (W : Fin n → Fin n → ℝ) (hW : ∀ i j, 0 ≤ W i j ∧ W i j ≤ 1) (i j : Fin n) (d : ℝ)
    (hd : (floydFun (logLen W)).D i j = ((d : ℝ) : WithTop ℝ)) :
    (∀ p, DistK.walkEnd i p = j → stepsPos W i p → walkProd W i p ≤ Real.exp (-d)) ∧
    (∃ p, DistK.walkEnd i p = j ∧ stepsPos W i p ∧ walkProd W i p = Real.exp (-d)) := by
  have sp := (distance_wei_floyd_log_spec W hW).isDist
  constructor
  · intro p hp hpos
    have h1 := sp.lower i p
    rw [hp, hd, walkLen_logLen W p i hpos] at h1
    have h2 : d ≤ -Real.log (walkProd W i p) := by exact_mod_cast h1
    have hpp := walkProd_pos W p i hpos
    calc walkProd W i p = Real.exp (Real.log (walkProd W i p)) := (Real.exp_log hpp).symm
      _ ≤ Real.exp (-d) := Real.exp_le_exp.mpr (by linarith)
  · obtain ⟨p, hp, hl⟩ := sp.attained i j (by rw [hd]; exact WithTop.coe_lt_top d)
    have hfin : DistK.walkLen (logLen W) i p < ⊤ := by rw [hl, hd]; exact WithTop.coe_lt_top d
    have hpos := stepsPos_of_finite W (fun a b => (hW a b).1) p i hfin
    refine ⟨p, hp, hpos, ?_⟩
    rw [walkLen_logLen W p i hpos, hd] at hl
    have h2 : -Real.log (walkProd W i p) = d := by exact_mod_cast hl
    rw [← h2, neg_neg, Real.exp_log (walkProd_pos W p i hpos)]

/-! ## distance_wei (Dijkstra) -/

/-- **`dijkstra_isDist`**: whenever the model of `distance_wei` returns (it always does: `dijkstra_total`), `D` is the
minimum walk length for every ordered pair and `∞` iff unreachable.  `tr = .none` is `distance_wei(L)` itself,
`tr = .inv` is the call `distance_inv_wei(invert(W))` inside `efficiency_wei`. -/
theorem dijkstra_isDist (tr : Transform) (A : AMat Rat n) (hA : NonNeg A) (D : AMat Ext n) (B : AMat ℕ n)
    (h : dijkstra (lenMat tr A) = some (D, B)) : IsDist (lenFun (lenMat tr A)) (lenFun D) :=
  (dijkstra_spec _ (lenMat_nonneg tr A hA) D B h).1

/-- `distance_wei` puts 0 on the diagonal -/
theorem dijkstra_diag (tr : Transform) (A : AMat Rat n) (hA : NonNeg A) (D : AMat Ext n) (B : AMat ℕ n)
    (h : dijkstra (lenMat tr A) = some (D, B)) (i : Fin n) : lenFun D i i = 0 :=
  (dijkstra_spec _ (lenMat_nonneg tr A hA) D B h).2.1 i

/-- **`dijkstra_B`**: `B i j` is the number of edges of a walk from `i` to `j` of length `D i j` -/
theorem dijkstra_B (tr : Transform) (A : AMat Rat n) (hA : NonNeg A) (D : AMat Ext n) (B : AMat ℕ n)
    (h : dijkstra (lenMat tr A) = some (D, B)) (i j : Fin n) (hfin : lenFun D i j < ⊤) :
    ∃ p, walkEnd i p = j ∧ walkLen (lenFun (lenMat tr A)) i p = lenFun D i j ∧ p.length = B.get i j :=
  (dijkstra_spec _ (lenMat_nonneg tr A hA) D B h).2.2 i j hfin

/-! ## any exact length transform (the shape of `'log'`)

The Floyd and Dijkstra theorems need nothing about how the length matrix was obtained except `0 ≤ L`: they hold for
*every* matrix `L` of non-negative exact lengths (`∞` = no connection), in particular for every order-reversing weight →
length transform with exact values, zero lengths included (`'log'` maps a weight 1 to length 0).  The `'log'` transform
itself takes values `-ln w` that are irrational, and the code evaluates it in floats: that instance is outside these
theorems (and outside the model; it is checked against the oracle only). -/

theorem floyd_isDist_len (L : AMat Ext n) (hL : ∀ i j, 0 ≤ lenFun L i j) : IsDist (lenFun L) (lenFun (floyd L).D) :=
  (floyd_spec L hL).isDist

theorem floyd_hops_len (L : AMat Ext n) (hL : ∀ i j, 0 ≤ lenFun L i j) (i j : Fin n) (hij : i ≠ j)
    (hfin : lenFun (floyd L).D i j < ⊤) :
    ∃ p, walkEnd i p = j ∧ walkLen (lenFun L) i p = lenFun (floyd L).D i j ∧ p.length = (floyd L).hops.get i j := by
  have sp := floyd_spec L hL
  obtain ⟨h1, h2⟩ := walkP_valid sp ((floyd L).hops.get i j) i j hij hfin rfl
  exact ⟨_, h1, h2, walkP_length _ _ _ _⟩

theorem dijkstra_isDist_len (L : AMat Ext n) (hL : ∀ i j, 0 ≤ lenFun L i j) (D : AMat Ext n) (B : AMat ℕ n)
    (h : dijkstra L = some (D, B)) :
    IsDist (lenFun L) (lenFun D) ∧ (∀ i, lenFun D i i = 0) ∧
      ∀ i j, lenFun D i j < ⊤ → ∃ p, walkEnd i p = j ∧ walkLen (lenFun L) i p = lenFun D i j ∧ p.length = B.get i j :=
  dijkstra_spec L hL D B h

/-- the two weighted routines agree (matrix equality of the model outputs) -/
theorem floyd_eq_dijkstra (A : AMat Rat n) (hA : NonNeg A) (D : AMat Ext n) (B : AMat ℕ n)
    (h : dijkstra (lenMat .none A) = some (D, B)) : D = (floyd (lenMat .none A)).D := by
  have e := Dist.isDist_unique _ _ _ (dijkstra_isDist .none A hA D B h) (floyd_isDist .none A hA)
  apply AMat.ext_get
  intro i j
  exact Ext.toLen_injective (congrFun (congrFun e i) j)

/-! ## distance_bin -/

theorem hopLenN_binarize (A : AMat Rat n) : hopLenN (binarize A) = hopLen A := by
  funext i j
  simp only [hopLenN, hopLen, binarize, AMat.get_ofFn]
  by_cases h : A.get i j = 0 <;> simp [h]

/-- **`distBin_isDist`**: whenever the model of `distance_bin` returns (it always does: `distBin_total`), the result is the hop-distance matrix of the graph: minimum number of edges over all walks
for every ordered pair, `∞` iff unreachable.  No hypothesis on the input (any non-zero entry is a connection). -/
theorem distBin_isDist (A : AMat Rat n) (D : AMat Ext n) (h : distBin A = some D) : IsDist (hopLen A) (lenFun D) := by
  unfold distBin at h
  rcases hraw : binRaw (binarize A) with _ | R
  · rw [hraw] at h; simp at h
  · rw [hraw] at h
    simp only [Option.map_some, Option.some.injEq] at h
    have key := isDist_of_binFinal (binarize A) R (binRaw_final (binarize A) R hraw)
    rw [hopLenN_binarize] at key
    have e : lenFun D = binOut R := by
      funext i j
      rw [← h]
      simp only [lenFun, AMat.get_ofFn, binOut]
      split_ifs <;> simp
    rw [e]; exact key

/-- `distance_bin` puts 0 on the diagonal -/
theorem distBin_diag (A : AMat Rat n) (D : AMat Ext n) (h : distBin A = some D) (i : Fin n) : D.get i i = .fin 0 := by
  unfold distBin at h
  rcases hraw : binRaw (binarize A) with _ | R
  · rw [hraw] at h; simp at h
  · rw [hraw] at h
    simp only [Option.map_some, Option.some.injEq] at h
    rw [← h]; simp

/-- on a 0/1 matrix the hop lengths are the lengths used by the weighted routines -/
theorem hopLen_eq_lenFun (A : AMat Rat n) (hbin : ∀ i j, A.get i j = 0 ∨ A.get i j = 1) :
    hopLen A = lenFun (lenMat .none A) := by
  funext i j
  simp only [hopLen, lenFun, lenMat, AMat.get_ofFn, lenOf]
  rcases hbin i j with h | h <;> simp [h]

/-- **agreement** of `distance_bin` with `distance_wei_floyd` (hence, by `floyd_eq_dijkstra`, with `distance_wei`) on
every binary matrix: equality of the model outputs -/
theorem distBin_eq_floyd (A : AMat Rat n) (hbin : ∀ i j, A.get i j = 0 ∨ A.get i j = 1) (D : AMat Ext n)
    (h : distBin A = some D) : D = (floyd (lenMat .none A)).D := by
  have hA : NonNeg A := by
    intro i j; rcases hbin i j with e | e <;> rw [e] <;> norm_num
  have h1 := distBin_isDist A D h
  rw [hopLen_eq_lenFun A hbin] at h1
  have e := Dist.isDist_unique _ _ _ h1 (floyd_isDist .none A hA)
  apply AMat.ext_get
  intro i j
  exact Ext.toLen_injective (congrFun (congrFun e i) j)

/-! ## totality: the `= some …` hypotheses of the Dijkstra and `distance_bin` theorems always hold -/

/-- the model of `distance_wei` never exhausts its fuel (`n + 1` rounds per source: every round settles at least the
temporary node attaining the minimum) -/
theorem dijkstra_total (L : AMat Ext n) : ∃ D B, dijkstra L = some (D, B) := by
  have h := dijkstra_isSome L
  obtain ⟨r, hr⟩ := Option.isSome_iff_exists.mp h
  exact ⟨r.1, r.2, hr⟩

/-- the model of `distance_bin` never exhausts its fuel (`n² + 2` passes: after the first, every pass assigns at least
one still-unassigned cell) -/
theorem distBin_total (A : AMat Rat n) : ∃ D, distBin A = some D :=
  Option.isSome_iff_exists.mp (distBin_isSome A)

/-! ## reachdist -/

/-- **`reachdist_correct`**: for every input, the model of `reachdist` returns, for every ordered pair of distinct nodes,
the hop distance (`∞` iff unreachable), and its reachability flag is true exactly when that distance is finite.
(The diagonal of `reachdist`'s `D` holds the length of the shortest cycle through the node, not 0: the statement is
about `zeroDiag'`, i.e. ordered pairs of distinct nodes, as in the property.) -/
theorem reachdist_correct (A : AMat Rat n) :
    IsDist (hopLen A) (zeroDiag' (lenFun (reachdist A).2)) ∧
      ∀ i j, i ≠ j → ((reachdist A).1.get i j = true ↔ lenFun (reachdist A).2 i j < ⊤) := by
  by_cases hn : n = 0
  · subst hn
    exact ⟨⟨fun i => i.elim0, fun i => i.elim0⟩, fun i => i.elim0⟩
  · have hbin : ∀ i j, (binarize A).get i j = 0 ∨ (binarize A).get i j = 1 := by
      intro i j; simp only [binarize, AMat.get_ofFn]; split_ifs <;> simp
    obtain ⟨h1, h2, h3, h4⟩ := reachGo_post (binarize A)
      ((List.finRange n).filter fun i => outDeg (binarize A) i != 0)
      ((List.finRange n).filter fun j => inDeg (binarize A) j != 0) (n - 1) 1 _ (reachInv_init (binarize A) hbin) (by omega)
    have key := reachOut_correct (binarize A) _ _ _ _ _ (by intro i; simp) (by intro j; simp) h1 h2 h3 h4
    rw [hopLenN_binarize] at key
    exact key

/-- the evaluation order the driver uses (`reachdistF`, every intermediate value computed once) is the same function as
`reachdist`: the theorems about `reachdist` are theorems about what the driver prints -/
theorem reachStepF_eq (C : AMat ℕ n) (s : RSt n) : reachStepF C s = reachStep C s := rfl

theorem reachGoFtail_eq (C : AMat ℕ n) (rows cols : List (Fin n)) : ∀ (rem powr : ℕ) (s : RSt n),
    reachGoF' C rows cols rem powr (reachStep C s) = reachGo C rows cols rem powr s := by
  intro rem
  induction rem with
  | zero => intro powr s; rfl
  | succ rem ih =>
    intro powr s
    simp only [reachGoF', reachGo, reachStepF_eq]
    split_ifs
    · exact ih (powr + 1) (reachStep C s)
    · rfl

theorem reachdistF_eq (A : AMat Rat n) : reachdistF A = reachdist A := by
  unfold reachdistF reachdistCF reachPackF reachRunF reachdist
  rw [reachStepF_eq, reachGoFtail_eq]
  rfl

/-! ## breadth / breadthdist -/

/-- **`breadth_correct`**: for a matrix with empty diagonal (BCT convention; a self-loop at the source makes the code report
its neighbours at distance 2), whenever the model of `breadth(CIJ, source)` returns, `distance[w]` is the hop distance
from the source for every `w ≠ source` (`∞` iff unreachable).  (`distance[source]` itself is 0 or, if the source lies on
a cycle, the length found for that cycle — the documented quirk.) -/
theorem breadth_correct (A : AMat Rat n) (hdiag : ∀ i, A.get i i = 0) (s : Fin n) (r : BSt n) (h : breadth A s = some r) :
    (∀ p, (if walkEnd s p = s then 0 else (r.dist[walkEnd s p]).toLen) ≤ walkLen (hopLen A) s p) ∧
      ∀ w, w ≠ s → (r.dist[w]).toLen < ⊤ → ∃ p, walkEnd s p = w ∧ walkLen (hopLen A) s p = (r.dist[w]).toLen := by
  obtain ⟨hf, h0, hw⟩ := binv_final A s _ (breadth_final A hdiag s r h)
  constructor
  · intro p
    have := lower_of_feasible_row (hopLen A) (absB s r).δ s (le_of_eq h0) (fun k j => hf k j) p
    simpa [absB] using this
  · intro w hws hfin
    have := hw w (by simpa [absB, hws] using hfin)
    simpa [absB, hws] using this

/-- **`breadthdist_correct`**: for a matrix with empty diagonal, whenever the model of `breadthdist` returns, `D` is the
hop-distance matrix on every ordered pair of distinct nodes (`∞` iff unreachable) and `R` is true exactly where `D` is
finite. -/
theorem breadthdist_correct (A : AMat Rat n) (hdiag : ∀ i, A.get i i = 0) (R : AMat Bool n) (D : AMat Ext n)
    (h : breadthdist A = some (R, D)) :
    IsDist (hopLen A) (zeroDiag' (lenFun D)) ∧ ∀ i j, R.get i j = true ↔ lenFun D i j < ⊤ := by
  unfold breadthdist at h
  rcases hrows : allRows (breadth A) with _ | rows
  · rw [hrows] at h; simp at h
  · rw [hrows] at h
    simp only [Option.map_some, Option.some.injEq, Prod.mk.injEq] at h
    obtain ⟨hR, hD⟩ := h
    have hrow := allRows_some (breadth A) rows hrows
    have inv := fun i => breadth_final A hdiag i rows[i] (hrow i)
    have fin := fun i => binv_final A i _ (inv i)
    have eD : ∀ i j, zeroDiag' (lenFun D) i j = (absB i rows[i]).δ j := by
      intro i j
      simp only [zeroDiag', absB]
      by_cases hij : i = j
      · rw [if_pos hij, if_pos hij.symm]
      · rw [if_neg hij, if_neg (Ne.symm hij), ← hD]
        simp only [lenFun, AMat.get_ofFn]
        have hpos := (inv i).a_pos j (Ne.symm hij)
        simp only [absB, if_neg (Ne.symm hij)] at hpos
        rw [if_neg]
        intro e0
        rw [e0] at hpos
        exact len_one_le_zero_false hpos
    refine ⟨⟨?_, ?_⟩, ?_⟩
    · intro i p
      rw [eD]
      exact lower_of_feasible_row (hopLen A) (absB i rows[i]).δ i (le_of_eq (fin i).2.1) (fun k j => (fin i).1 k j) p
    · intro i j hfin
      rw [eD] at hfin ⊢
      exact (fin i).2.2 j hfin
    · intro i j
      rw [← hR, ← hD, AMat.get_ofFn]
      exact Ext.isFin_iff _

/-- the models of `breadth` / `breadthdist` never exhaust their fuel on a matrix with empty diagonal (every pass of
`while Q` turns one more node black) -/
theorem breadth_total (A : AMat Rat n) (hdiag : ∀ i, A.get i i = 0) (s : Fin n) : ∃ r, breadth A s = some r :=
  Option.isSome_iff_exists.mp (breadth_isSome A hdiag s)

theorem breadthdist_total (A : AMat Rat n) (hdiag : ∀ i, A.get i i = 0) : ∃ R D, breadthdist A = some (R, D) := by
  have : (breadthdist A).isSome = true := by
    unfold breadthdist allRows
    rw [dif_pos (fun i => breadth_isSome A hdiag i)]
    rfl
  obtain ⟨r, hr⟩ := Option.isSome_iff_exists.mp this
  exact ⟨r.1, r.2, hr⟩

/-- **`breadth_branch_spec`**: the predecessor vector of `breadth(CIJ, source)` on a matrix with empty diagonal:
`branch[source] = -1`, and for every reached `v ≠ source`, `branch[v]` is a node `u` with a connection `u → v` whose
recorded distance is exactly one less (`distance[source]` read as 0) — so following `branch` from `v` walks a shortest
path back to the source -/
theorem breadth_branch_spec (A : AMat Rat n) (hdiag : ∀ i, A.get i i = 0) (s : Fin n) (r : BSt n) (h : breadth A s = some r) :
    r.branch[s] = -1 ∧ ∀ v, v ≠ s → (r.dist[v]).toLen < ⊤ →
      ∃ u : Fin n, r.branch[v] = (u.val : ℤ) ∧ A.get u v ≠ 0 ∧
        (r.dist[v]).toLen = (if u = s then 0 else (r.dist[u]).toLen) + 1 := by
  have hb := breadth_branch A hdiag s r h
  have hi := breadth_final A hdiag s r h
  refine ⟨hb.1, ?_⟩
  intro v hvs hfin
  have hc : r.color[v] ≠ 0 := by
    intro hc
    have := hi.white v hc
    simp only [absB, if_neg hvs] at this
    rw [this] at hfin; exact lt_irrefl _ hfin
  obtain ⟨u, e1, e2, e3⟩ := hb.2 v hvs hc
  refine ⟨u, e1, e2, ?_⟩
  simpa [absB, hvs] using e3

/-! ## the five routines agree wherever their domains overlap -/

theorem agree_off_diag {L : LMat n} (X Y : AMat Ext n) (hX : IsDist L (zeroDiag' (lenFun X))) (hY : IsDist L (lenFun Y))
    (i j : Fin n) (hij : i ≠ j) : X.get i j = Y.get i j := by
  have e := Dist.isDist_unique _ _ _ hX hY
  have := congrFun (congrFun e i) j
  simp only [zeroDiag', hij, if_false] at this
  exact Ext.toLen_injective this

/-- **`five_agree`**: on a binary matrix with empty diagonal the outputs of the models of `distance_bin`, `breadthdist`,
`reachdist`, `distance_wei` and `distance_wei_floyd` coincide on every ordered pair of distinct nodes -/
theorem five_agree (A : AMat Rat n) (hbin : ∀ i j, A.get i j = 0 ∨ A.get i j = 1) (hdiag : ∀ i, A.get i i = 0)
    (D1 D2 D4 : AMat Ext n) (R2 : AMat Bool n) (B4 : AMat ℕ n)
    (h1 : distBin A = some D1) (h2 : breadthdist A = some (R2, D2)) (h4 : dijkstra (lenMat .none A) = some (D4, B4))
    (i j : Fin n) (hij : i ≠ j) :
    D2.get i j = D1.get i j ∧ (reachdist A).2.get i j = D1.get i j ∧ D4.get i j = D1.get i j ∧
      (floyd (lenMat .none A)).D.get i j = D1.get i j := by
  have hA : NonNeg A := by
    intro i j; rcases hbin i j with e | e <;> rw [e] <;> norm_num
  have d1 := distBin_isDist A D1 h1
  refine ⟨agree_off_diag D2 D1 (breadthdist_correct A hdiag R2 D2 h2).1 d1 i j hij,
    agree_off_diag _ D1 (reachdist_correct A).1 d1 i j hij, ?_, ?_⟩
  · rw [floyd_eq_dijkstra A hA D4 B4 h4, ← distBin_eq_floyd A hbin D1 h1]
  · rw [← distBin_eq_floyd A hbin D1 h1]

/-! ## the executable certificate check (kept as a second, independent line of evidence)

`hopCert` is sound (`Lemmas/DistCert.lean`), so every output on which the driver reports `cert=1` — every case of
every run of the check — is certified by a Lean theorem to be the hop-distance matrix, independently of the loop
proofs above.  (`breadthdist_correct` and `reachdist_correct` prove the full statements; the certificate is redundant with them and
is kept because it checks the concrete outputs that are compared with the real code.) -/

/-- `breadthdist`: the reachability flag is true exactly when the distance is finite (every cell) -/
theorem breadthdist_flag (A : AMat Rat n) (R : AMat Bool n) (D : AMat Ext n) (h : breadthdist A = some (R, D))
    (i j : Fin n) : R.get i j = true ↔ lenFun D i j < ⊤ := by
  unfold breadthdist at h
  rcases hrows : allRows (breadth A) with _ | rows
  · rw [hrows] at h; simp at h
  · rw [hrows] at h
    simp only [Option.map_some, Option.some.injEq, Prod.mk.injEq] at h
    obtain ⟨hR, hD⟩ := h
    rw [← hR, ← hD, AMat.get_ofFn]
    exact Ext.isFin_iff _

/-- a `breadthdist` output that passes the executable certificate check is the hop-distance matrix off the diagonal -/
theorem breadthdist_certified (A : AMat Rat n) (R : AMat Bool n) (D : AMat Ext n)
    (_h : breadthdist A = some (R, D)) (hc : hopCert A D = true) : IsDist (hopLen A) (zeroDiag' (lenFun D)) :=
  hopCert_sound A D hc

/-- a `reachdist` output that passes the executable checks is the hop-distance matrix off the diagonal and its
reachability flags are true exactly on the finite entries -/
theorem reachdist_certified (A : AMat Rat n) (hc : hopCert A (reachdist A).2 = true)
    (hf : flagsOK (reachdist A).1 (reachdist A).2 = true) :
    IsDist (hopLen A) (zeroDiag' (lenFun (reachdist A).2)) ∧
      ∀ i j, i ≠ j → ((reachdist A).1.get i j = true ↔ lenFun (reachdist A).2 i j < ⊤) :=
  ⟨hopCert_sound A _ hc, fun i j hij => flagsOK_spec _ _ hf i j hij⟩

/-- any certified matrix agrees with `distance_bin` on every ordered pair of distinct nodes -/
theorem certified_agrees_with_distBin (A : AMat Rat n) (D D' : AMat Ext n) (h : distBin A = some D)
    (hc : hopCert A D' = true) (i j : Fin n) (hij : i ≠ j) : D'.get i j = D.get i j := by
  have e := Dist.isDist_unique _ _ _ (hopCert_sound A D' hc) (distBin_isDist A D h)
  have := congrFun (congrFun e i) j
  simp only [zeroDiag', hij, if_false] at this
  exact Ext.toLen_injective this

/-! ## charpath, efficiency_bin, efficiency_wei, rout_efficiency: means over the ordered pairs of distinct nodes

`offDiag n` is the list of all ordered pairs of distinct nodes, each exactly once, `n*n - n` of them (`offDiag_spec`).
`meanSpec D` / `meanInvSpec D` (`Lemmas/DistMeanSpec.lean`) are the plain rational means of `D i j` / of `1/D i j`
(`1/∞ = 0`) over that list.  The `_spec` theorems below are end-to-end: they state the value returned by the executable
model of each routine in terms of a matrix `D` that is *proved* to be the distance matrix (`IsDist`), with no hypothesis
left other than the property's domain (`2 ≤ n` so that there is a pair, existing connections positive). -/

theorem offDiag_spec : (∀ p : Fin n × Fin n, p ∈ offDiag n ↔ p.1 ≠ p.2) ∧ (offDiag n).Nodup ∧ (offDiag n).length = n * n - n :=
  ⟨mem_offDiag, offDiag_nodup, offDiag_length⟩

theorem lenMat_pos (tr : Transform) (A : AMat Rat n) (h : NonNeg A) : ∀ i j, 0 < lenFun (lenMat tr A) i j := by
  intro i j
  simp only [lenFun, lenMat, AMat.get_ofFn, lenOf]
  have h0 := h i j
  split_ifs with hz
  · exact WithTop.coe_lt_top 0
  · have hpos : (0 : ℚ) < A.get i j := lt_of_le_of_ne h0 (Ne.symm hz)
    cases tr
    · simp only [Ext.toLen_fin]; exact_mod_cast hpos
    · simp only [Ext.toLen_fin]
      have h2 : (0 : ℚ) < 1 / A.get i j := by positivity
      exact_mod_cast h2

theorem hopLen_pos (A : AMat Rat n) : ∀ i j, 0 < hopLen A i j := by
  intro i j
  simp only [hopLen]
  split_ifs
  · exact WithTop.coe_lt_top 0
  · exact zero_lt_one

/-- a distance matrix for positive connection lengths has no zero entry between distinct nodes -/
theorem offDiag_ne_zero {L : LMat n} (D : AMat Ext n) (hD : IsDist L (lenFun D)) (hL : ∀ i j, 0 < L i j) :
    ∀ p ∈ offDiag n, D.get p.1 p.2 ≠ .fin 0 := by
  intro p hp
  exact entry_ne_zero_of_pos D p.1 p.2 (isDist_pos_offdiag hD hL p.1 p.2 ((mem_offDiag p).mp hp))

/-- **`charpath_spec`** (`charpath(D)` with its defaults `include_diagonal=False, include_infinite=True`), for any matrix
`D` that is the distance matrix of positive connection lengths `L` with its zero diagonal (outputs of `distance_bin`,
`distance_wei`, `distance_wei_floyd`; for the raw `breadthdist` / `reachdist` outputs use `charpath_spec_offdiag`):
`efficiency` is the mean of `1/D i j` over the ordered pairs of distinct nodes (`1/∞ = 0`); `lambda` is the mean of
`D i j` over those pairs when all are finite, and `∞` as soon as one pair is unreachable (NumPy's mean of an array
containing `inf`) -/
theorem charpath_spec {L : LMat n} (hL : ∀ i j, 0 < L i j) (D : AMat Ext n) (hD : IsDist L (lenFun D)) (hn : 2 ≤ n) :
    (charpath D false true).2 = some (.fin (meanInvSpec D)) ∧
    ((∀ p ∈ offDiag n, (D.get p.1 p.2).isFin = true) → (charpath D false true).1 = some (.fin (meanSpec D))) ∧
    ((∃ p ∈ offDiag n, D.get p.1 p.2 = .inf) → (charpath D false true).1 = some .inf) := by
  have hne := offDiag_ne_nil hn
  have hpos := offDiag_ne_zero D hD hL
  have hvals : ((if false = true then cells n else offDiag n).map fun p => D.get p.1 p.2).filter
      (fun x => true || x.isFin) = (offDiag n).map fun p => D.get p.1 p.2 := by simp
  have hmapne : ((offDiag n).map fun p => D.get p.1 p.2) ≠ [] := by simpa using hne
  have hlen : (((offDiag n).map fun p => D.get p.1 p.2).length : ℚ) = ((n * n - n : ℕ) : ℚ) := by
    rw [List.length_map, offDiag_length]
  refine ⟨?_, ?_, ?_⟩
  · simp only [charpath]
    rw [hvals]
    have hfin : ∀ x ∈ ((offDiag n).map fun p => D.get p.1 p.2).map Ext.inv, x.isFin = true := by
      intro x hx
      rw [List.map_map] at hx
      obtain ⟨p, hp, rfl⟩ := List.mem_map.mp hx
      exact inv_isFin_of_ne_zero _ (hpos p hp)
    rw [meanExt_fin _ (by simpa using hne) hfin, List.length_map, hlen, List.map_map, List.map_map]
    rfl
  · intro hall
    simp only [charpath]
    rw [hvals]
    have hfin : ∀ x ∈ (offDiag n).map (fun p => D.get p.1 p.2), x.isFin = true := by
      intro x hx; obtain ⟨p, hp, rfl⟩ := List.mem_map.mp hx; exact hall p hp
    rw [meanExt_fin _ hmapne hfin, hlen, List.map_map]
    rfl
  · rintro ⟨p, hp, hinf⟩
    simp only [charpath]
    rw [hvals]
    apply meanExt_inf
    rw [← hinf]
    exact List.mem_map.mpr ⟨p, hp, rfl⟩

/-- **`charpath_spec_offdiag`**: the same statement for a matrix whose *diagonal is arbitrary* — the raw outputs of
`breadthdist` / `reachdist` hold `∞` or the length of the shortest cycle through the node there.  The hypothesis is on
the ordered pairs of distinct nodes only (`zeroDiag'` overwrites the diagonal before `IsDist` is asked); `charpath` with
`include_diagonal=False` never reads the diagonal. -/
theorem charpath_spec_offdiag {L : LMat n} (hL : ∀ i j, 0 < L i j) (D : AMat Ext n)
    (hD : IsDist L (zeroDiag' (lenFun D))) (hn : 2 ≤ n) :
    (charpath D false true).2 = some (.fin (meanInvSpec D)) ∧
    ((∀ p ∈ offDiag n, (D.get p.1 p.2).isFin = true) → (charpath D false true).1 = some (.fin (meanSpec D))) ∧
    ((∃ p ∈ offDiag n, D.get p.1 p.2 = .inf) → (charpath D false true).1 = some .inf) := by
  -- the matrix with its diagonal zeroed has the same off-diagonal cells, hence the same `charpath` (defaults) and means
  let D0 : AMat Ext n := AMat.ofFn fun i j => if i = j then .fin 0 else D.get i j
  have hcell : ∀ p ∈ offDiag n, D0.get p.1 p.2 = D.get p.1 p.2 := by
    intro p hp
    have := (mem_offDiag p).mp hp
    simp [D0, this]
  have hlen : lenFun D0 = zeroDiag' (lenFun D) := by
    funext i j
    simp only [lenFun, zeroDiag', D0, AMat.get_ofFn]
    split_ifs <;> simp
  have hmap : ∀ f : Ext → Ext, (offDiag n).map (fun p => f (D0.get p.1 p.2)) = (offDiag n).map (fun p => f (D.get p.1 p.2)) := by
    intro f
    apply List.map_congr_left
    intro p hp; rw [hcell p hp]
  have hmapQ : ∀ f : Ext → ℚ, (offDiag n).map (fun p => f (D0.get p.1 p.2)) = (offDiag n).map (fun p => f (D.get p.1 p.2)) := by
    intro f
    apply List.map_congr_left
    intro p hp; rw [hcell p hp]
  have hcp : charpath D0 false true = charpath D false true := by
    simp only [charpath]
    have := hmap id
    simp only [id] at this
    simp only [Bool.false_eq_true, if_false, this]
  have hmi : meanInvSpec D0 = meanInvSpec D := by simp only [meanInvSpec, hmapQ invQ]
  have hm : meanSpec D0 = meanSpec D := by simp only [meanSpec, hmapQ finVal]
  have key := charpath_spec hL D0 (by rw [hlen]; exact hD) hn
  rw [hcp, hmi, hm] at key
  refine ⟨key.1, fun hall => key.2.1 (fun p hp => by rw [hcell p hp]; exact hall p hp), ?_⟩
  rintro ⟨p, hp, hinf⟩
  exact key.2.2 ⟨p, hp, by rw [hcell p hp]; exact hinf⟩

/-- `charpath` on the raw output of `reachdist` (any input) and of `breadthdist` (empty diagonal) -/
theorem charpath_reachdist_spec (A : AMat Rat n) (hn : 2 ≤ n) :
    (charpath (reachdist A).2 false true).2 = some (.fin (meanInvSpec (reachdist A).2)) ∧
    ((∀ p ∈ offDiag n, ((reachdist A).2.get p.1 p.2).isFin = true) →
      (charpath (reachdist A).2 false true).1 = some (.fin (meanSpec (reachdist A).2))) ∧
    ((∃ p ∈ offDiag n, (reachdist A).2.get p.1 p.2 = .inf) → (charpath (reachdist A).2 false true).1 = some .inf) :=
  charpath_spec_offdiag (hopLen_pos A) _ (reachdist_correct A).1 hn

theorem charpath_breadthdist_spec (A : AMat Rat n) (hdiag : ∀ i, A.get i i = 0) (R : AMat Bool n) (D : AMat Ext n)
    (h : breadthdist A = some (R, D)) (hn : 2 ≤ n) :
    (charpath D false true).2 = some (.fin (meanInvSpec D)) ∧
    ((∀ p ∈ offDiag n, (D.get p.1 p.2).isFin = true) → (charpath D false true).1 = some (.fin (meanSpec D))) ∧
    ((∃ p ∈ offDiag n, D.get p.1 p.2 = .inf) → (charpath D false true).1 = some .inf) :=
  charpath_spec_offdiag (hopLen_pos A) D (breadthdist_correct A hdiag R D h).1 hn

/-- `charpath(D, include_infinite=False)`: unreachable pairs are left out of both means (`none` = NaN when no pair is
reachable) -/
theorem charpath_spec_finite_only {L : LMat n} (hL : ∀ i j, 0 < L i j) (D : AMat Ext n) (hD : IsDist L (lenFun D)) :
    let vals := ((offDiag n).map fun p => D.get p.1 p.2).filter fun x => x.isFin
    (vals = [] → charpath D false false = (none, none)) ∧
    (vals ≠ [] → charpath D false false =
      (some (.fin ((vals.map finVal).sum / (vals.length : ℚ))), some (.fin ((vals.map invQ).sum / (vals.length : ℚ))))) := by
  intro vals
  have hpos := offDiag_ne_zero D hD hL
  have hvals : ((if false = true then cells n else offDiag n).map fun p => D.get p.1 p.2).filter
      (fun x => false || x.isFin) = vals := by simp [vals]
  constructor
  · intro hv
    simp only [charpath]
    rw [hvals, hv]
    simp [meanExt]
  · intro hv
    simp only [charpath]
    rw [hvals]
    have hfin : ∀ x ∈ vals, x.isFin = true := fun x hx => by simpa using (List.mem_filter.mp hx).2
    have hfin2 : ∀ x ∈ vals.map Ext.inv, x.isFin = true := by
      intro x hx
      obtain ⟨y, hy, rfl⟩ := List.mem_map.mp hx
      obtain ⟨p, hp, rfl⟩ := List.mem_map.mp (List.mem_filter.mp hy).1
      exact inv_isFin_of_ne_zero _ (hpos p hp)
    rw [meanExt_fin vals hv hfin, meanExt_fin _ (by simpa using hv) hfin2, List.length_map, List.map_map]
    rfl

/-- **`charpath_ecc_spec`** (`charpath` defaults): for a matrix `D` that is, off its diagonal, the distance matrix of `L`
(the output of any of the five routines), `ecc[i]` is attained by a distance from `i` to another node, bounds all of them,
and is `∞` exactly when some other node cannot be reached from `i` -/
theorem charpath_ecc_spec {L : LMat n} (D : AMat Ext n) (hD : IsDist L (zeroDiag' (lenFun D))) (hn : 2 ≤ n) (i : Fin n) :
    (∃ j, j ≠ i ∧ eccOf D false true i = D.get i j) ∧
    (∀ j, j ≠ i → lenFun D i j ≤ (eccOf D false true i).toLen) ∧
    ((eccOf D false true i).toLen = ⊤ ↔ ∃ j, j ≠ i ∧ ¬ ∃ p, walkEnd i p = j ∧ walkLen L i p < ⊤) := by
  obtain ⟨_, hne⟩ := eccOf_spec D false true i
  have hcells : ∀ x, x ∈ eccCells D false true i ↔ ∃ j, j ≠ i ∧ x = D.get i j := by
    intro x
    rw [mem_eccCells]
    constructor
    · rintro ⟨j, hj, rfl, _⟩
      rcases hj with hj | hj
      · exact absurd hj (by decide)
      · exact ⟨j, Ne.symm hj, rfl⟩
    · rintro ⟨j, hj, rfl⟩; exact ⟨j, Or.inr (Ne.symm hj), rfl, Or.inl rfl⟩
  have hex : ∃ j : Fin n, j ≠ i := by
    by_cases h0 : i.val = 0
    · exact ⟨⟨1, by omega⟩, fun e => by have := congrArg Fin.val e; simp at this; omega⟩
    · exact ⟨⟨0, by omega⟩, fun e => by have := congrArg Fin.val e; simp at this; omega⟩
  have hnonempty : eccCells D false true i ≠ [] := by
    obtain ⟨j, hj⟩ := hex
    intro e
    have := (hcells (D.get i j)).mpr ⟨j, hj, rfl⟩
    rw [e] at this; exact absurd this List.not_mem_nil
  obtain ⟨hmem, hmax⟩ := hne hnonempty
  have hatt := (hcells _).mp hmem
  have hbound : ∀ j, j ≠ i → lenFun D i j ≤ (eccOf D false true i).toLen :=
    fun j hj => hmax _ ((hcells _).mpr ⟨j, hj, rfl⟩)
  refine ⟨hatt, hbound, ?_⟩
  have hz : ∀ j, j ≠ i → zeroDiag' (lenFun D) i j = lenFun D i j := by
    intro j hj; simp [zeroDiag', Ne.symm hj]
  constructor
  · intro htop
    obtain ⟨j, hj, e⟩ := hatt
    refine ⟨j, hj, ?_⟩
    rw [← hD.eq_top_iff i j, hz j hj]
    simp only [lenFun, ← e]; exact htop
  · rintro ⟨j, hj, hno⟩
    have := (hD.eq_top_iff i j).mpr hno
    rw [hz j hj] at this
    have hb := hbound j hj
    rw [this] at hb
    exact top_le_iff.mp hb

/-- `ecc` under any flag combination, as coded: the largest unmasked cell of the row, NumPy's masked fill value `1e20` for a
row all of whose cells are masked (e.g. `include_infinite=False` and a node that reaches nobody) -/
theorem charpath_ecc_masked_spec (D : AMat Ext n) (incDiag incInf : Bool) (i : Fin n) :
    (eccCells D incDiag incInf i = [] → eccOf D incDiag incInf i = maskedFill) ∧
    (eccCells D incDiag incInf i ≠ [] → eccOf D incDiag incInf i ∈ eccCells D incDiag incInf i ∧
      ∀ x ∈ eccCells D incDiag incInf i, x.toLen ≤ (eccOf D incDiag incInf i).toLen) :=
  eccOf_spec D incDiag incInf i

/-- **`charpath_radius_diameter_spec`**: `radius` is the smallest and `diameter` the largest eccentricity, both attained
(any flags, `n ≥ 1`); with `charpath_ecc_spec`: the diameter is the largest distance between two distinct nodes, `∞` iff
the graph is not strongly connected -/
theorem charpath_radius_diameter_spec (D : AMat Ext n) (incDiag incInf : Bool) (hn : 1 ≤ n) :
    ∃ r d, radiusDiameter D incDiag incInf = some (r, d) ∧
      (∀ i, r.toLen ≤ (eccOf D incDiag incInf i).toLen ∧ (eccOf D incDiag incInf i).toLen ≤ d.toLen) ∧
      (∃ i, r = eccOf D incDiag incInf i) ∧ (∃ i, d = eccOf D incDiag incInf i) := by
  obtain ⟨rd, hrd⟩ := Option.isSome_iff_exists.mp (radiusDiameter_isSome D incDiag incInf hn)
  exact ⟨rd.1, rd.2, hrd, radiusDiameter_spec D incDiag incInf rd.1 rd.2 hrd⟩

/-- the cells `charpath` averages over under the given flags: all cells or the off-diagonal ones, infinite cells dropped
when `include_infinite=False` -/
def charVals (D : AMat Ext n) (incDiag incInf : Bool) : List Ext :=
  ((if incDiag then cells n else offDiag n).map fun p => D.get p.1 p.2).filter fun x => incInf || x.isFin

/-- **`charpath_flags_spec`** — `lambda` and `efficiency` of `charpath(D, include_diagonal, include_infinite)` for every
matrix and every flag combination, with NumPy's conventions: no selected cell → both NaN (`none`); `lambda` is `∞` as soon
as a selected cell is `∞`, else the plain mean; `efficiency` is `∞` as soon as a selected cell is 0 (`1/0`; this is what
`include_diagonal=True` does to a distance matrix), else the mean of `1/x` with `1/∞ = 0`. (`charpath` is a total function;
`ecc`, `radius`, `diameter` under the same flags: `charpath_ecc_masked_spec`, `charpath_radius_diameter_spec`.) -/
theorem charpath_flags_spec (D : AMat Ext n) (incDiag incInf : Bool) :
    (charVals D incDiag incInf = [] → charpath D incDiag incInf = (none, none)) ∧
    (charVals D incDiag incInf ≠ [] →
      (charpath D incDiag incInf).1 =
        (if Ext.inf ∈ charVals D incDiag incInf then some .inf
         else some (.fin (((charVals D incDiag incInf).map finVal).sum / ((charVals D incDiag incInf).length : ℚ)))) ∧
      (charpath D incDiag incInf).2 =
        (if Ext.fin 0 ∈ charVals D incDiag incInf then some .inf
         else some (.fin (((charVals D incDiag incInf).map invQ).sum / ((charVals D incDiag incInf).length : ℚ))))) := by
  have hcp : charpath D incDiag incInf = (meanExt (charVals D incDiag incInf), meanExt ((charVals D incDiag incInf).map Ext.inv)) := rfl
  rw [hcp]
  set vals := charVals D incDiag incInf with hv
  constructor
  · intro h0; rw [h0]; simp [meanExt]
  · intro hne
    have notinf : ∀ xs : List Ext, Ext.inf ∉ xs → ∀ x ∈ xs, x.isFin = true := by
      intro xs h x hx
      cases x with
      | inf => exact absurd hx h
      | fin q => rfl
    constructor
    · by_cases hi : Ext.inf ∈ vals
      · rw [if_pos hi]; exact meanExt_inf vals hi
      · rw [if_neg hi]; exact meanExt_fin vals hne (notinf vals hi)
    · have hmem : Ext.inf ∈ vals.map Ext.inv ↔ Ext.fin 0 ∈ vals := by
        simp only [List.mem_map]
        constructor
        · rintro ⟨x, hx, e⟩
          cases x with
          | inf => simp [Ext.inv] at e
          | fin q =>
            by_cases hq : q = 0
            · rw [hq] at hx; exact hx
            · simp [Ext.inv, hq] at e
        · intro h0; exact ⟨Ext.fin 0, h0, by simp [Ext.inv]⟩
      by_cases hz : Ext.fin 0 ∈ vals
      · rw [if_pos hz]; exact meanExt_inf _ (hmem.mpr hz)
      · rw [if_neg hz]
        have hni : Ext.inf ∉ vals.map Ext.inv := fun h' => hz (hmem.mp h')
        rw [meanExt_fin _ (by simpa using hne) (notinf _ hni), List.length_map, List.map_map]
        rfl

/-- **`efficiency_bin_spec`** (global): the returned value is the mean inverse hop distance over the ordered pairs of
distinct nodes, for every input with at least two nodes -/
theorem efficiency_bin_spec (A : AMat Rat n) (hn : 2 ≤ n) :
    ∃ D, IsDist (hopLen A) (lenFun D) ∧ efficiencyBin A = some (some (.fin (meanInvSpec D))) := by
  obtain ⟨D, hD⟩ := distBin_total A
  have hd := distBin_isDist A D hD
  refine ⟨D, hd, ?_⟩
  unfold efficiencyBin
  rw [hD, Option.map_some, meanInvOff_spec D hn (offDiag_ne_zero D hd (hopLen_pos A))]

/-- **`efficiency_wei_spec`** (global): for a weight matrix with non-negative entries, the returned value is the mean
inverse of the shortest-path lengths for the connection lengths `1/w` -/
theorem efficiency_wei_spec (W : AMat Rat n) (hW : NonNeg W) (hn : 2 ≤ n) :
    ∃ D, IsDist (lenFun (lenMat .inv W)) (lenFun D) ∧ efficiencyWei W = some (some (.fin (meanInvSpec D))) := by
  obtain ⟨D, B, hD⟩ := dijkstra_total (lenMat .inv W)
  have hd := dijkstra_isDist .inv W hW D B hD
  refine ⟨D, hd, ?_⟩
  unfold efficiencyWei
  rw [hD, Option.map_some, meanInvOff_spec D hn (offDiag_ne_zero D hd (lenMat_pos .inv W hW))]

/-- **`rout_efficiency_spec`** (global part, transforms None / 'inv'): `GErout` is the mean inverse of the shortest-path
lengths, `Erout` their cell-wise inverse with zero diagonal -/
theorem rout_efficiency_spec (tr : Transform) (A : AMat Rat n) (hA : NonNeg A) (hn : 2 ≤ n) :
    IsDist (lenFun (lenMat tr A)) (lenFun (floyd (lenMat tr A)).D) ∧
      (routEfficiency tr A).1 = some (.fin (meanInvSpec (floyd (lenMat tr A)).D)) ∧
      ∀ i j, (routEfficiency tr A).2.get i j = if i = j then .fin 0 else ((floyd (lenMat tr A)).D.get i j).inv := by
  have hd := floyd_isDist tr A hA
  refine ⟨hd, ?_, ?_⟩
  · unfold routEfficiency
    exact meanInvOff_spec _ hn (offDiag_ne_zero _ hd (lenMat_pos tr A hA))
  · intro i j
    simp [routEfficiency]

/-- **`rout_efficiency_local_spec`**: `Eloc[u]` of `rout_efficiency(D, transform)` (None / 'inv'): with `V` the in/out
neighbours of `u` and `S = D[V][:, V]`, the matrix the code inverts *is* the shortest-path matrix of the sub-graph `S`, and
`Eloc[u] = Σ_{a ≠ b ∈ V} 1/d_ab / |V|` (`1/∞ = 0`); NaN (`none`) for a node without neighbours -/
theorem rout_efficiency_local_spec (tr : Transform) (A : AMat Rat n) (hA : NonNeg A) (u : Fin n) :
    IsDist (lenFun (lenMat tr (subMatV A (routNbrs A u)))) (lenFun (floyd (lenMat tr (subMatV A (routNbrs A u)))).D) ∧
    ((routNbrs A u).length = 0 → routLocalNode tr A u = none) ∧
    ((routNbrs A u).length ≠ 0 → routLocalNode tr A u =
      some (.fin (((offDiag (routNbrs A u).length).map fun p =>
        invQ ((floyd (lenMat tr (subMatV A (routNbrs A u)))).D.get p.1 p.2)).sum / ((routNbrs A u).length : ℚ)))) := by
  have hsub : NonNeg (subMatV A (routNbrs A u)) := by
    intro a b; simp only [subMatV, AMat.get_ofFn]; exact hA _ _
  have hd := floyd_isDist tr _ hsub
  refine ⟨hd, ?_, ?_⟩
  · intro h0; simp [routLocalNode, routLocalOf, h0]
  · intro hne
    have hpos := offDiag_ne_zero _ hd (lenMat_pos tr _ hsub)
    have hfin : ∀ x ∈ (offDiag (routNbrs A u).length).map
        (fun p => ((floyd (lenMat tr (subMatV A (routNbrs A u)))).D.get p.1 p.2).inv), x.isFin = true := by
      intro x hx
      obtain ⟨p, hp, rfl⟩ := List.mem_map.mp hx
      exact inv_isFin_of_ne_zero _ (hpos p hp)
    simp only [routLocalNode, routLocalOf, if_neg hne]
    rw [sumExt_fin _ hfin, List.map_map]
    rfl

/-! ### local efficiencies (model `BctVerif/Model/LocalEff.lean`, the two loops as coded) -/

/-- **`efficiency_bin_local_spec`**: `efficiency_bin(G, local=True)[u]` is the coded arithmetic (`LocalEff.core`: numerator
`Σ_{a,b} s_a s_b (1/d_ab + 1/d_ba) / 2`, denominator `(Σ s)² − Σ s²`) evaluated on a matrix `D` that *is* the hop-distance
matrix of the sub-graph induced by the in/out-neighbours of `u` -/
theorem efficiency_bin_local_spec (G : AMat Rat n) (u : Fin n) :
    ∃ D, IsDist (hopLen (LocalEff.subMat (Cluster.adj G) (LocalEff.nbrs (Cluster.adj G) u))) (lenFun D) ∧
      LocalEff.effBinNode G u =
        LocalEff.core (LocalEff.links (Cluster.adj G) u (LocalEff.nbrs (Cluster.adj G) u))
          (LocalEff.links (Cluster.adj G) u (LocalEff.nbrs (Cluster.adj G) u)) D := by
  obtain ⟨D, hD⟩ := distBin_total (LocalEff.subMat (Cluster.adj G) (LocalEff.nbrs (Cluster.adj G) u))
  refine ⟨D, distBin_isDist _ D hD, ?_⟩
  simp only [LocalEff.effBinNode, LocalEff.effBinOn, hD]

/-- **`efficiency_wei_local_spec`**: `efficiency_wei(W, local=True)[u]` (Wang et al. variant, `R` = cube roots of the weights):
the coded arithmetic evaluated on a matrix `D` that *is* the shortest-path matrix of the neighbourhood sub-graph for the
connection lengths `1/R` -/
theorem efficiency_wei_local_spec (W R : AMat Rat n) (hR : NonNeg R) (u : Fin n) :
    ∃ D, IsDist (lenFun (lenMat .inv (LocalEff.subMat R (LocalEff.nbrs W u)))) (lenFun D) ∧
      LocalEff.effWeiNode W R u =
        LocalEff.core (LocalEff.links R u (LocalEff.nbrs W u)) (LocalEff.links (Cluster.adj W) u (LocalEff.nbrs W u)) D := by
  have hsub : NonNeg (LocalEff.subMat R (LocalEff.nbrs W u)) := by
    intro a b; simp only [LocalEff.subMat, AMat.get_ofFn]; exact hR _ _
  obtain ⟨D, B, hD⟩ := dijkstra_total (lenMat .inv (LocalEff.subMat R (LocalEff.nbrs W u)))
  refine ⟨D, dijkstra_isDist .inv _ hsub D B hD, ?_⟩
  simp only [LocalEff.effWeiNode, hD]

/-- `charpath` applied to the output of `distance_wei_floyd` (the other four routines likewise, through their `IsDist`
theorems): mean inverse and mean of the true shortest-path lengths -/
theorem charpath_floyd_spec (tr : Transform) (A : AMat Rat n) (hA : NonNeg A) (hn : 2 ≤ n) :
    (charpath (floyd (lenMat tr A)).D false true).2 = some (.fin (meanInvSpec (floyd (lenMat tr A)).D)) ∧
    ((∀ p ∈ offDiag n, ((floyd (lenMat tr A)).D.get p.1 p.2).isFin = true) →
      (charpath (floyd (lenMat tr A)).D false true).1 = some (.fin (meanSpec (floyd (lenMat tr A)).D))) ∧
    ((∃ p ∈ offDiag n, (floyd (lenMat tr A)).D.get p.1 p.2 = .inf) →
      (charpath (floyd (lenMat tr A)).D false true).1 = some .inf) :=
  charpath_spec (lenMat_pos tr A hA) _ (floyd_isDist tr A hA) hn

/-! ## non-vacuity: a 3-node graph 0→1→2 with lengths 1,1 and a direct connection 0→2 of length 3 -/

def ex3 : AMat Rat 3 := AMat.ofFn fun i j => if i.val + 1 = j.val then 1 else if i.val = 0 ∧ j.val = 2 then 3 else 0

example : NonNeg ex3 := by decide +kernel
example : (floyd (lenMat .none ex3)).D.get 0 2 = .fin 2 ∧ (floyd (lenMat .none ex3)).hops.get 0 2 = 2 ∧
    (floyd (lenMat .none ex3)).D.get 2 0 = .inf := by decide +kernel
example : (floyd (lenMat .inv ex3)).D.get 0 2 = .fin (1 / 3) ∧ (floyd (lenMat .inv ex3)).hops.get 0 2 = 1 := by decide +kernel
example : (dijkstra (lenMat .none ex3)).map (fun r => (r.1.get 0 2, r.2.get 0 2, r.1.get 2 0)) = some (.fin 2, 2, .inf) := by
  decide +kernel

example : (distBin ex3).map (fun D => (D.get 0 2, D.get 2 0)) = some (.fin 1, .inf) := by decide +kernel
example : hopCert ex3 (reachdist ex3).2 = true ∧ flagsOK (reachdist ex3).1 (reachdist ex3).2 = true := by decide +kernel
example : (breadthdist ex3).map (fun r => hopCert ex3 r.2) = some true := by decide +kernel
example : (∀ i, ex3.get i i = 0) ∧ (breadthdist ex3).map (fun r => (r.2.get 0 2, r.2.get 2 0, r.1.get 0 2)) = some (.fin 1, .inf, true) := by
  decide +kernel
example : (reachdist ex3).2.get 0 2 = .fin 1 ∧ (reachdist ex3).2.get 2 0 = .inf ∧
    (reachdist ex3).1.get 0 2 = true := by decide +kernel
/-- 3-cycle: all off-diagonal distances finite and positive -/
def cyc3 : AMat Rat 3 := AMat.ofFn fun i j => if (i.val + 1) % 3 = j.val then 1 else 0
example : (distBin cyc3).map (fun D => (charpath D false true, meanInvOff D)) =
    some ((some (.fin (3 / 2)), some (.fin (3 / 4))), some (.fin (3 / 4))) := by decide +kernel
example : efficiencyBin cyc3 = some (some (.fin (3 / 4))) := by decide +kernel
example : (distBin cyc3).map (fun D => (meanInvSpec D, meanSpec D)) = some (3 / 4, 3 / 2) := by decide +kernel
example : (distBin cyc3).map (fun D => (eccOf D false true 0, radiusDiameter D false true)) = some (.fin 2, some (.fin 2, .fin 2)) := by
  decide +kernel
example : (distBin ex3).map (fun D => (eccOf D false true 0, eccOf D false false 2, radiusDiameter D false true)) =
    some (.fin 1, maskedFill, some (.fin 1, .inf)) := by decide +kernel
example : (breadth cyc3 0).map (fun r => (r.branch[(0 : Fin 3)], r.branch[(1 : Fin 3)], r.branch[(2 : Fin 3)])) = some (-1, 0, 1) := by
  decide +kernel
example : (distBin ex3).map (fun D => (charpath D false true).1) = some (some .inf) := by decide +kernel
example : (List.finRange 3).map (routLocalNode .none cyc3) = [some (.fin (1 / 2)), some (.fin (1 / 2)), some (.fin (1 / 2))] := by
  decide +kernel
example : NonNeg cyc3 ∧ efficiencyWei cyc3 = some (some (.fin (3 / 4))) ∧ (routEfficiency .inv cyc3).1 = some (.fin (3 / 4)) := by
  decide +kernel

/-! ### non-vacuity from recorded runs of the real code (values printed by bct on these inputs) -/

/-- `bct.distance_wei([[0,1,0,2],[0,0,1,0],[1,0,0,0],[0,0,0,0]])[0]` -/
def recD : AMat Ext 4 := AMat.ofFn fun i j =>
  (([[.fin 0, .fin 1, .fin 2, .fin 2], [.fin 2, .fin 0, .fin 1, .fin 4], [.fin 1, .fin 2, .fin 0, .fin 3],
     [.inf, .inf, .inf, .fin 0]] : List (List Ext)).getD i.val []).getD j.val .inf
/-- recorded: `charpath(D, False, True) = (inf, 0.46527…, [2,4,3,inf], 2, inf)`, `(False, False) = (2.0, 0.62037…, [2,4,3,1e20], 2, 1e20)`,
`(True, False) = (1.3846…, inf, [2,4,3,0], 0, 4)` -/
example : charpath recD false true = (some .inf, some (.fin (67 / 144))) ∧
    charpath recD false false = (some (.fin 2), some (.fin (67 / 108))) ∧
    charpath recD true false = (some (.fin (18 / 13)), some .inf) ∧
    (List.finRange 4).map (eccOf recD false false) = [.fin 2, .fin 4, .fin 3, maskedFill] ∧
    radiusDiameter recD true false = some (.fin 0, .fin 4) := by decide +kernel

end Bct.C03
