import BctVerif.Model.CoreIRLocW
import BctVerif.Props.CoresEffW
/-!
# T-gen for the `local` branches of `efficiency_wei`: what the passed obligations imply

`link_efficiency_wei_local`: for the branch `local in (True, 'local')`, the entry `E[u]` that the interpreter computes is
`LocalEff.effWeiNode W (cb W) u` for every weight matrix and node, for every per-entry function `cb` that behaves like a cube root where
the routine relies on it (`cb 0 = 0`, `cb (1 / x) = 1 / cb x` and `cb x ≠ 0` for `x ≠ 0`).  The branch `local == 'original'` has its
obligation (`refOriginal`) and the interpreter's meaning, but no model to be linked to.
-/
namespace Bct.Cores.LocW
open Bct Bct.Dist Bct.LocalEff Bct.CoreIR.Dijk Bct.CoreIR.Dinv Bct.CoreIR.EffW Bct.CoreIR.LocW Bct.Cores.Dijk Bct.Cores.Dinv Bct.Cores.EffW
variable {n : ℕ}

theorem allFin_embG (W : AMat ℚ n) : allFin (embG W) = true := by
  simp [allFin, embG, AMat.map, cellQ]

theorem Wq_eq (W : AMat ℚ n) : (AMat.ofFn fun i j => (cellQ ((embG W).get i j)).getD 0 : AMat ℚ n) = W := by
  apply AMat.ext_get; intro i j
  simp [embG, AMat.map, cellQ]

theorem cells_all {k : ℕ} (f : Fin k × Fin k → Bool) :
    (cells k).all f = (List.finRange k).all fun a => (List.finRange k).all fun b => f (a, b) := by
  simp [cells, List.all_flatMap, List.all_map, Function.comp_def]

theorem inv_isFin (D : AMat Ext n) :
    (cells n).all (fun p => ((AMat.ofFn fun i j => if i = j then Ext.fin 0 else (D.get i j).inv : AMat Ext n).get p.1 p.2).isFin) = finiteInv D := by
  rw [cells_all]
  unfold finiteInv
  congr 1; funext a; congr 1; funext b
  simp only [AMat.get_ofFn]
  by_cases hab : a = b
  · simp [hab, Ext.isFin]
  · simp only [hab, if_false, decide_false, Bool.false_or]
    cases hd : D.get a b with
    | inf => simp [Ext.inv, Ext.isFin]
    | fin q =>
      by_cases hq : q = 0
      · simp [Ext.inv, Ext.isFin, hq]
      · simp [Ext.inv, Ext.isFin, hq]

theorem node_spec (cb : ℚ → ℚ) (hcb0 : cb 0 = 0) (hinv : ∀ x, x ≠ 0 → cb (1 / x) = 1 / cb x) (hne : ∀ x, x ≠ 0 → cb x ≠ 0)
    (W : AMat ℚ n) (u : Fin n) :
    nodeLocW cb refLocal (fun k => k + 1) W u = effWeiNode W (AMat.map cb W) u := by
  have hci : refDinv.coherent = true := by decide
  have hlen : lenMat .none (AMat.ofFn fun a b =>
      cb (if W.get ((nbrs W u).get a) ((nbrs W u).get b) = 0 then 0 else 1 / W.get ((nbrs W u).get a) ((nbrs W u).get b)) :
        AMat ℚ (nbrs W u).length) = lenMat .inv (subMat (AMat.map cb W) (nbrs W u)) := by
    apply AMat.ext_get; intro a b
    simp only [lenMat, AMat.get_ofFn, lenOf, subMat, AMat.map]
    generalize W.get ((nbrs W u).get a) ((nbrs W u).get b) = w
    by_cases h : w = 0
    · simp [h, hcb0]
    · have h1 := hne _ h
      have h2 : cb (1 / w) ≠ 0 := by rw [hinv _ h]; simp [h1]
      have h3 : (1 : ℚ) / cb w ≠ 0 := by simp [h1]
      simp only [h, if_false, h1, h2, hinv _ h, h3]
  have hemb : ∀ (L : AMat ℚ (nbrs W u).length), AMat.map (fun q => V.ext (.fin q)) L = embG L := fun _ => rfl
  simp only [nodeLocW, effWeiNode, show refLocal.lenCbrt = true from rfl, if_true, show refLocal.base = refWei from rfl,
    show refWei.inner = refDinv from rfl, runInner, hci, Bool.not_true, Bool.false_eq_true, if_false, hemb,
    show refDinv.dijk = refDinvD from rfl, link_dinv_dijk, hlen]
  cases hd : dijkstra (lenMat .inv (subMat (AMat.map cb W) (nbrs W u))) with
  | none => rfl
  | some r =>
    simp only [Option.map_some, invMatOf_ext, inv_isFin, core]
    by_cases hf : finiteInv r.1 = true
    · have heq : ∀ a b : Fin (nbrs W u).length,
          finOr0 ((AMat.ofFn fun i j => if i = j then Ext.fin 0 else (r.1.get i j).inv : AMat Ext (nbrs W u).length).get a b) = invCell r.1 a b := by
        intro a b
        simp only [AMat.get_ofFn, invCell, finOr0]
        by_cases hab : a = b
        · simp [hab, finOr0]
        · simp only [hab, if_false]
          cases hc : r.1.get a b with
          | inf => simp [Ext.inv, finOr0]
          | fin d => by_cases hd0 : d = 0 <;> simp [Ext.inv, hd0, finOr0]
      simp only [hf, if_true, Bool.not_true, Bool.false_eq_true, if_false, heq, show refLocal.seCbrt = false from rfl,
        show (refLocal.nd : ℚ) = 2 from by norm_num [refLocal], show (refLocal.tz : ℚ) = 0 from by norm_num [refLocal],
        show refLocal.dp = 2 from rfl, pow_two]
      unfold links
      simp only [AMat.map, AMat.get_ofFn, Cluster.adj, Cluster.ind]
    · have hf' : finiteInv r.1 = false := by simpa using hf
      simp [hf']

theorem link_efficiency_wei_local (ir : LocWIR) (hok : locWOk refLocal ir = true) (cb : ℚ → ℚ) (hcb0 : cb 0 = 0)
    (hinv : ∀ x, x ≠ 0 → cb (1 / x) = 1 / cb x) (hne : ∀ x, x ≠ 0 → cb x ≠ 0) (W : AMat ℚ n) (u : Fin n) :
    runLocW cb ir (fun k => k + 1) (embG W) u = effWeiNode W (AMat.map cb W) u := by
  have hir : ir = refLocal := by simpa [locWOk] using hok
  subst hir
  have hco : refLocal.coherent = true := by decide
  unfold runLocW
  rw [hco, allFin_embG, Wq_eq]
  simp only [Bool.not_true, Bool.or_self, Bool.false_eq_true, if_false]
  exact node_spec cb hcb0 hinv hne W u

example : locWOk refLocal refLocal = true := by decide
example : locWOk refOriginal refOriginal = true := by decide
/-- the `'local'` branch without the cube root of the lengths is rejected -/
example : locWOk refLocal { refLocal with lenCbrt := false, lenF := "" } = false := by decide
/-- `sa` built from the weights instead of the adjacency matrix is rejected -/
example : locWOk refOriginal { refOriginal with sam := "Gw", sam2 := "Gw" } = false := by decide
end Bct.Cores.LocW
