import BctVerif.Lemmas.Comp
import BctVerif.Props.C03
import Mathlib.Data.List.Chain
import Mathlib.Order.Interval.Finset.Nat
import Mathlib.Algebra.BigOperators.Fin

/-!
# C16 — connected components are exactly the classes of mutually reachable nodes

All theorems are about the executable model `BctVerif/Model/Comp.lean` (`getComponents`,
`numberOfComponents`), for every size `n` and every integer matrix (binary or weighted, any diagonal).

Vocabulary
* `Adj A u v` — `A[u,v] ≠ 0` (`Lemmas/Comp.lean`); `Relation.ReflTransGen (Adj A) x y` — a path joins
  `x` and `y` (possibly of length 0);
* `labelFn A v` — position (+1) of the first set of the final `union_sets` list that contains `v`;
  `sizesOf A` — the sizes of the sets of that list.  `get_components_ok` shows that these are exactly the
  two arrays the model returns on symmetric input.
-/
namespace Bct.C16
open Bct Bct.Comp Relation Finset

variable {n : ℕ}

def labelFn (A : AMat Int n) (v : Fin n) : ℕ := labOf (unionSets A) v
def sizesOf (A : AMat Int n) : List ℕ := (unionSets A).map NSet.size

/-- on symmetric input the model returns `comps = [labelFn A v | v = 0..n-1]` (one label per node, in
node order) and `comp_sizes = sizesOf A` -/
theorem get_components_ok (A : AMat Int n) (hsym : isSymm A = true) :
    getComponents A = .ok ((List.finRange n).map (labelFn A), sizesOf A) := by
  unfold getComponents
  rw [if_pos hsym]
  simp only [labels_eq_map (goodSets_unionSets A)]
  rfl

/-- asymmetric input is rejected with `BCTParamError`, by both routines -/
theorem asymmetric_rejected (A : AMat Int n) (h : isSymm A = false) :
    getComponents A = .error .param ∧ numberOfComponents A = .error .param := by
  have : getComponents A = .error .param := by
    unfold getComponents; simp [h]
  exact ⟨this, by unfold numberOfComponents; rw [this]; rfl⟩

/-- invariant of the edge scan (after all edges): the sets are pairwise disjoint, each set is connected
through scanned edges, the endpoints of every scanned edge lie together, no set is empty -/
theorem merge_inv (A : AMat Int n) : Good (edgeList A) ((unionSets A).map toFS) := by
  rw [unionSets_map]; exact componentsF_good _

/-- **same label ⇔ joined by a path** -/
theorem components_correct (A : AMat Int n) (hsym : isSymm A = true) (x y : Fin n) :
    labelFn A x = labelFn A y ↔ ReflTransGen (Adj A) x y := by
  unfold labelFn
  rw [labOf_eq_iff (goodSets_unionSets A),
    good_correct (merge_inv A) x y ⟨(x, x), (mem_edgeList A x x).mpr (Or.inl rfl), Or.inl rfl⟩]
  exact eqv_iff_reach A ((isSymm_iff A).mp hsym) x y

/-- labels lie in `1..m`, `m` the number of reported sizes -/
theorem labels_range (A : AMat Int n) (x : Fin n) :
    1 ≤ labelFn A x ∧ labelFn A x ≤ (sizesOf A).length := by
  have := idxOf_lt (goodSets_unionSets A) x
  unfold labelFn labOf sizesOf
  rw [List.length_map]
  omega

/-- `comp_sizes[l]` is the number of nodes carrying label `l+1`, and it is positive -/
theorem sizes_correct (A : AMat Int n) (l : ℕ) (hl : l < (sizesOf A).length) :
    (sizesOf A)[l] = (univ.filter fun x => labelFn A x = l + 1).card ∧ 0 < (sizesOf A)[l] := by
  have hl' : l < (unionSets A).length := by simpa [sizesOf] using hl
  have e : (sizesOf A)[l] = (toFS (unionSets A)[l]).card := by
    simp [sizesOf, size_eq]
  rw [e]
  constructor
  · rw [class_eq (goodSets_unionSets A) l hl']; rfl
  · apply Finset.card_pos.mpr
    exact (merge_inv A).ne _ (List.mem_map_of_mem (List.getElem_mem hl'))

/-- every label of `1..m` is used: the labels are exactly `1..m` -/
theorem labels_onto (A : AMat Int n) (l : ℕ) (h1 : 1 ≤ l) (h2 : l ≤ (sizesOf A).length) :
    ∃ x, labelFn A x = l := by
  obtain ⟨hc, hpos⟩ := sizes_correct A (l - 1) (by omega)
  rw [hc] at hpos
  obtain ⟨x, hx⟩ := Finset.card_pos.mp hpos
  rw [Finset.mem_filter] at hx
  exact ⟨x, by omega⟩

/-- the reported sizes add up to the number of nodes: every node is counted in exactly one component
(corollary of `labels_range` and `sizes_correct`) -/
theorem sizes_sum (A : AMat Int n) : (sizesOf A).sum = n := by
  have hr := labels_range A
  let f : Fin n → Fin (sizesOf A).length := fun x => ⟨labelFn A x - 1, by have := hr x; omega⟩
  have h1 : (univ : Finset (Fin n)).card
      = ∑ b ∈ (univ : Finset (Fin (sizesOf A).length)), (univ.filter fun a => f a = b).card :=
    Finset.card_eq_sum_card_fiberwise (fun x _ => mem_univ _)
  rw [Finset.card_univ, Fintype.card_fin] at h1
  rw [← Fin.sum_univ_getElem]
  refine Eq.trans ?_ h1.symm
  refine Finset.sum_congr rfl fun b _ => ?_
  rw [(sizes_correct A b.val b.isLt).1]
  congr 1
  ext x
  simp only [mem_filter, mem_univ, true_and, f, Fin.ext_iff]
  have := hr x
  omega

/-- `number_of_components` is the number of distinct labels -/
theorem number_of_components_correct (A : AMat Int n) (hsym : isSymm A = true) :
    numberOfComponents A = .ok (univ.image (labelFn A)).card := by
  unfold numberOfComponents
  rw [get_components_ok A hsym]
  have : univ.image (labelFn A) = Finset.Icc 1 (sizesOf A).length := by
    ext l
    rw [Finset.mem_image, Finset.mem_Icc]
    constructor
    · rintro ⟨x, _, rfl⟩; exact labels_range A x
    · rintro ⟨h1, h2⟩
      obtain ⟨x, hx⟩ := labels_onto A l h1 h2
      exact ⟨x, mem_univ _, hx⟩
  rw [this, Nat.card_Icc]
  simp [Except.map]

/-- an isolated node (no edge to any other node; its diagonal cell may be anything) is alone in its
component, and that component has size one -/
theorem isolated_singleton (A : AMat Int n) (hsym : isSymm A = true) (v : Fin n)
    (hiso : ∀ w, w ≠ v → A.get v w = 0) :
    (∀ x, labelFn A x = labelFn A v → x = v) ∧
      ∃ hl : labelFn A v - 1 < (sizesOf A).length, (sizesOf A)[labelFn A v - 1] = 1 := by
  have hreach : ∀ x, ReflTransGen (Adj A) v x → x = v := by
    intro x h
    induction h with
    | refl => rfl
    | tail _ hbc ih =>
      subst ih
      by_contra hne
      exact hbc (hiso _ hne)
  have h1 : ∀ x, labelFn A x = labelFn A v → x = v := fun x hx =>
    hreach x ((components_correct A hsym v x).mp hx.symm)
  refine ⟨h1, ?_⟩
  have hr := labels_range A v
  have hl : labelFn A v - 1 < (sizesOf A).length := by omega
  refine ⟨hl, ?_⟩
  rw [(sizes_correct A _ hl).1]
  have : (univ.filter fun x => labelFn A x = labelFn A v - 1 + 1) = {v} := by
    ext x
    rw [Finset.mem_filter, Finset.mem_singleton]
    constructor
    · rintro ⟨_, hx⟩; exact h1 x (by omega)
    · rintro rfl; exact ⟨mem_univ _, by omega⟩
  rw [this, Finset.card_singleton]

/-- agreement with distances: two nodes carry the same label iff a walk of finitely many edges joins
them, i.e. iff the true shortest-path length between them (what `distance_bin`, `breadthdist`,
`reachdist` compute, C03) is finite -/
theorem components_vs_distance (A : AMat Int n) (hsym : isSymm A = true) (x y : Fin n) :
    labelFn A x = labelFn A y ↔
      ∃ p : List (Fin n), List.IsChain (Adj A) (x :: p) ∧ (x :: p).getLast (List.cons_ne_nil _ _) = y := by
  rw [components_correct A hsym]
  constructor
  · exact List.exists_isChain_cons_of_relationReflTransGen
  · rintro ⟨p, hc, hl⟩
    exact List.relationReflTransGen_of_exists_isChain_cons p hc hl

/-! ## agreement with the modelled `distance_bin`, `reachdist`, `breadthdist` (C03)

The models of the three distance routines (`Model/Dist.lean`) take rational matrices; `ratMat A` is the
integer matrix `A` read as rationals (same network: a cell is zero iff its cast is).  C03 proves that each
model returns the hop-distance matrix (`distBin_isDist`, `reachdist_correct`, `breadthdist_correct`); composed
with `components_correct` this gives: same component label ⇔ the modelled distance entry is finite ⇔ the
modelled reachability flag is set. -/

def ratMat (A : AMat Int n) : AMat Rat n := AMat.ofFn fun i j => ((A.get i j : Int) : Rat)

theorem ratMat_get (A : AMat Int n) (i j : Fin n) : (ratMat A).get i j = (A.get i j : ℚ) := by
  simp [ratMat]

theorem hopLen_lt_top (A : AMat Int n) (i j : Fin n) : Dist.hopLen (ratMat A) i j < ⊤ ↔ Adj A i j := by
  unfold Dist.hopLen Adj
  rw [ratMat_get]
  by_cases h : A.get i j = 0
  · simp [h]
  · have : ((A.get i j : ℤ) : ℚ) ≠ 0 := by exact_mod_cast h
    simp [h, this]

/-- a walk of finite hop length exists iff a path joins the nodes -/
theorem walk_iff_reach (A : AMat Int n) (x y : Fin n) :
    (∃ p, Dist.walkEnd x p = y ∧ Dist.walkLen (Dist.hopLen (ratMat A)) x p < ⊤) ↔ ReflTransGen (Adj A) x y := by
  constructor
  · rintro ⟨p, hp, hl⟩
    induction p generalizing x with
    | nil => simp only [Dist.walkEnd] at hp; subst hp; exact ReflTransGen.refl
    | cons j p ih =>
      simp only [Dist.walkEnd] at hp
      simp only [Dist.walkLen] at hl
      rw [WithTop.add_lt_top] at hl
      exact ReflTransGen.head ((hopLen_lt_top A x j).mp hl.1) (ih j hp hl.2)
  · intro h
    induction h using ReflTransGen.head_induction_on with
    | refl => exact ⟨[], rfl, by simp [Dist.walkLen]⟩
    | @head a b hab _ ih =>
      obtain ⟨p, hp, hl⟩ := ih
      refine ⟨b :: p, by simpa [Dist.walkEnd] using hp, ?_⟩
      simp only [Dist.walkLen]
      rw [WithTop.add_lt_top]
      exact ⟨(hopLen_lt_top A a b).mpr hab, hl⟩

/-- under a hop-distance matrix, "finite entry" is "same label" -/
theorem label_iff_finite (A : AMat Int n) (hsym : isSymm A = true) {D : Dist.LMat n}
    (hD : Dist.IsDist (Dist.hopLen (ratMat A)) D) (x y : Fin n) :
    labelFn A x = labelFn A y ↔ D x y < ⊤ := by
  rw [components_correct A hsym, ← walk_iff_reach, lt_top_iff_ne_top, Ne, C03.isDist_top_iff hD x y, not_not]

/-- **agreement with `distance_bin`**: the model of `distance_bin` returns a matrix (always), and two nodes
carry the same component label iff its entry for the pair is finite — every ordered pair, the diagonal
included (0 there). -/
theorem components_vs_distance_bin (A : AMat Int n) (hsym : isSymm A = true) :
    ∃ D, Dist.distBin (ratMat A) = some D ∧
      ∀ x y, labelFn A x = labelFn A y ↔ D.get x y ≠ Dist.Ext.inf := by
  obtain ⟨D, hD⟩ := C03.distBin_total (ratMat A)
  refine ⟨D, hD, fun x y => ?_⟩
  rw [label_iff_finite A hsym (C03.distBin_isDist (ratMat A) D hD) x y, lt_top_iff_ne_top, Ne, Ne,
    Dist.Ext.eq_inf_iff]
  rfl

/-- **agreement with `reachdist`**: for distinct nodes, same label ⇔ the reachability flag `R[x,y]` of the
model of `reachdist` is set ⇔ its distance entry `D[x,y]` is finite. -/
theorem components_vs_reachdist (A : AMat Int n) (hsym : isSymm A = true) (x y : Fin n) (hxy : x ≠ y) :
    (labelFn A x = labelFn A y ↔ (Dist.reachdist (ratMat A)).1.get x y = true) ∧
      (labelFn A x = labelFn A y ↔ (Dist.reachdist (ratMat A)).2.get x y ≠ Dist.Ext.inf) := by
  obtain ⟨hD, hR⟩ := C03.reachdist_correct (ratMat A)
  have h := label_iff_finite A hsym hD x y
  simp only [Dist.zeroDiag', if_neg hxy] at h
  refine ⟨by rw [h, hR x y hxy], ?_⟩
  rw [h, lt_top_iff_ne_top, Ne, Ne, Dist.Ext.eq_inf_iff]
  rfl

/-- **agreement with `breadthdist`** (empty diagonal, the routine's documented domain): the model of
`breadthdist` returns, and for distinct nodes same label ⇔ `R[x,y]` is set ⇔ `D[x,y]` is finite. -/
theorem components_vs_breadthdist (A : AMat Int n) (hsym : isSymm A = true) (hdiag : ∀ i, A.get i i = 0) :
    ∃ R D, Dist.breadthdist (ratMat A) = some (R, D) ∧ ∀ x y, x ≠ y →
      (labelFn A x = labelFn A y ↔ R.get x y = true) ∧
        (labelFn A x = labelFn A y ↔ D.get x y ≠ Dist.Ext.inf) := by
  have hd : ∀ i, (ratMat A).get i i = 0 := by intro i; rw [ratMat_get, hdiag]; rfl
  obtain ⟨R, D, hRD⟩ := C03.breadthdist_total (ratMat A) hd
  obtain ⟨hD, hR⟩ := C03.breadthdist_correct (ratMat A) hd R D hRD
  refine ⟨R, D, hRD, fun x y hxy => ?_⟩
  have h := label_iff_finite A hsym hD x y
  simp only [Dist.zeroDiag', if_neg hxy] at h
  refine ⟨by rw [h, hR x y], ?_⟩
  rw [h, lt_top_iff_ne_top, Ne, Ne, Dist.Ext.eq_inf_iff]
  rfl

/-! ## non-vacuity -/

/-- two crossing edges 0–3 and 1–2 plus an isolated node 4 with a self-loop -/
def exA : AMat Int 5 := AMat.ofFn fun i j =>
  if (i.val, j.val) ∈ [(0, 3), (3, 0), (1, 2), (2, 1)] then 1 else if i.val = 4 ∧ j.val = 4 then 7 else 0

/-- a path 0–4–3, 3–1 … whose scan order forces a late merge of two partial components -/
def exB : AMat Int 5 := AMat.ofFn fun i j =>
  if (i.val, j.val) ∈ [(0, 4), (4, 0), (1, 3), (3, 1), (3, 4), (4, 3)] then 2 else 0

def exAsym : AMat Int 2 := AMat.ofFn fun i j => if i.val = 0 ∧ j.val = 1 then 1 else 0

example : isSymm exA = true ∧ labels (unionSets exA) = [2, 1, 1, 2, 3] ∧ sizesOf exA = [2, 2, 1] := by decide
example : isSymm exB = true ∧ labels (unionSets exB) = [2, 2, 1, 2, 2] ∧ sizesOf exB = [1, 4] := by decide
example : isSymm exAsym = false := by decide
example : (sizesOf exA).sum = 5 ∧ (sizesOf exB).sum = 5 := by decide
example : (List.finRange 5).map (labelFn exA) = [2, 1, 1, 2, 3] := by decide
example : ∀ w : Fin 5, w ≠ 4 → exA.get 4 w = 0 := by decide
/-- the hypotheses of the three distance corollaries are satisfiable (symmetric, empty diagonal) -/
example : isSymm exB = true ∧ ∀ i, exB.get i i = 0 := by decide

end Bct.C16
