import BctVerif.Lemmas.SignedNull
import BctVerif.Lemmas.SignedTotal
import BctVerif.Lemmas.SignedCorr
import BctVerif.Lemmas.SignedPearson

/-!
# C06 — signed null models keep each node's positive/negative degree and all weights

All statements are about the executable model `BctVerif/Model/Signed.lean`
(`pickFour`, `signedStep`, `run`, `dealSign`, `nullModel`), for every size `n`, every integer
matrix, every list of random draws and every `argsort` oracle.  The function view of a matrix is
`AMat.toFun`; `rowPos/rowNeg/colPos/colNeg` count positive / negative cells of a row (out-degree)
or column (in-degree); `posMS/negMS/cellsMS` are the multisets of positive / negative / all cells.

Strength correlations: the driver prints, for the model's own `Wc` (diagonal-cleared input) and `W0`,
`corrTriples Wc W0`.  `corr_ingredients` and `cov_triple_formula` state what these integers are: for each
of `rpos_in, rpos_ou, rneg_in, rneg_ou` the triple `(N·Σxy − Σx·Σy, N·Σx² − (Σx)², N·Σy² − (Σy)²)` of the
positive / negative in- / out-strength sequences x of the input and y of the output, i.e. N² times their
covariance and variances; Pearson's r = first / sqrt(second · third) is computed from them by the check
and compared with the value bct returned (1e-9).  The square root / division is not a Lean statement.
-/
namespace Bct.C06
open Bct Bct.Signed

variable {n : ℕ}

/-- `pick_four_unique_nodes_quickly`: whatever the generator returns, the four nodes handed back are
pairwise distinct (they are the base-n digits of one of the draws, and a draw was consumed). -/
theorem pickFour_distinct (ds : List Nat) {a b c d : Fin n} {rest : List Nat}
    (h : pickFour n ds = .ok ((a, b, c, d), rest)) :
    (a ≠ b ∧ a ≠ c ∧ a ≠ d ∧ b ≠ c ∧ b ≠ d ∧ c ≠ d) ∧ rest.length < ds.length ∧
    ∃ k ∈ ds, k < n ^ 4 ∧ a.val = k % n ∧ b.val = k / n % n ∧ c.val = k / n ^ 2 % n ∧ d.val = k / n ^ 3 % n :=
  pickFour_spec ds h

/-- four distinct nodes exist only in networks with at least four nodes: `pickFour` can return only for n ≥ 4
(for n < 4 the Python routine recurses without end) -/
theorem pickFour_needs_four (ds : List Nat) {a b c d : Fin n} {rest : List Nat}
    (h : pickFour n ds = .ok ((a, b, c, d), rest)) : 4 ≤ n :=
  four_le_of_distinct (pickFour_spec ds h).1

/-- n < 4: the rewiring routines return their input with `eff = 0` and draw nothing (`if n < 4: return R, 0`), so
`run_signed_inv`, `null_model_*_spec` below are not vacuous for small networks -/
theorem run_signed_small_n (und : Bool) (R : AMat Int n) (itr : Nat) (ds : List Nat) (hn : n < 4) :
    run und R itr ds = .ok (R, 0, ds) :=
  run_small und R itr ds hn

/-- One accepted sign-guarded exchange (4 cells directed, 8 cells undirected) on four distinct nodes:
per-row and per-column counts of positive and of negative cells, the multiset of all cells and the
diagonal are preserved; for the undirected routine (symmetric input) symmetry is preserved. -/
theorem signedStep_inv (und : Bool) (R R' : AMat Int n) (a b c d : Fin n)
    (hd : a ≠ b ∧ a ≠ c ∧ a ≠ d ∧ b ≠ c ∧ b ≠ d ∧ c ≠ d)
    (hs : und = true → IsSymm R.toFun) (h : signedStep und R a b c d = some R') :
    Preserved R.toFun R'.toFun ∧ (und = true → IsSymm R'.toFun) :=
  signedStep_preserved und R R' a b c d hd hs h

/-- `randmio_dir_signed` (`und = false`) / `randmio_und_signed` (`und = true`, symmetric input):
for every `itr` and every draw list on which the run completes, every node keeps its number of
positive and of negative out- and in-connections, the multiset of all cells (hence of positive and of
negative weights) and the diagonal are unchanged, undirected output is symmetric. -/
theorem run_signed_inv (und : Bool) (R : AMat Int n) (itr : Nat) (ds : List Nat)
    {R' : AMat Int n} {eff : Nat} {rest : List Nat}
    (h : run und R itr ds = .ok (R', eff, rest)) (hs : und = true → IsSymm R.toFun) :
    Preserved R.toFun R'.toFun ∧ posMS R'.toFun = posMS R.toFun ∧ negMS R'.toFun = negMS R.toFun ∧
    (und = true → IsSymm R'.toFun) := by
  obtain ⟨⟨hp, hsy⟩, _, _⟩ := run_preserved und R itr ds h hs
  exact ⟨hp, hp.posMS, hp.negMS, hsy⟩

/-- empty input diagonal stays empty -/
theorem run_signed_diag (und : Bool) (R : AMat Int n) (itr : Nat) (ds : List Nat)
    {R' : AMat Int n} {eff : Nat} {rest : List Nat}
    (h : run und R itr ds = .ok (R', eff, rest)) (hs : und = true → IsSymm R.toFun)
    (hd : ∀ i, R.toFun i i = 0) : ∀ i, R'.toFun i i = 0 :=
  fun i => ((run_signed_inv und R itr ds h hs).1.diag i).trans (hd i)

/-- no effective rewiring ⇒ the input is returned -/
theorem run_signed_zero (und : Bool) (R : AMat Int n) (itr : Nat) (ds : List Nat)
    {R' : AMat Int n} {rest : List Nat}
    (h : run und R itr ds = .ok (R', 0, rest)) (hs : und = true → IsSymm R.toFun) : R' = R :=
  (run_preserved und R itr ds h hs).2.2 rfl

/-- The dealing stage for one sign is a bijection: for every oracle ordering and every subset
sequence, the cells of the rewired support (`cells`) receive exactly the entries of the sorted weight
vector (`wv`), each once. -/
theorem deal_bijective (cells : List (Cell n)) (wv : List Int) (period : Nat) (orc : List (List Nat)) (ds : List Nat)
    {asg : List (Cell n × Int)} {orc' : List (List Nat)} {ds' : List Nat}
    (h : dealSign cells wv period orc ds = .ok (asg, orc', ds')) :
    (asg.map Prod.fst).Perm cells ∧ (asg.map Prod.snd).Perm wv :=
  dealSign_bijective cells wv period orc ds h

/-- `null_model_dir_sign`: for every input matrix, `bin_swaps`, sorting period, oracle and draws, the
output has the ± in/out degrees of the (diagonal-cleared) input, exactly its multiset of positive and
its multiset of negative weights, an empty diagonal; its sign pattern is that of the rewired `W_r`. -/
theorem null_model_dir_spec (W : AMat Int n) (binSwaps period : Nat) (orc : List (List Nat)) (ds : List Nat)
    {o : NullOut n} (h : nullModel false W binSwaps period orc ds = .ok o) :
    NullSpec (clearDiag W).toFun o.W0.toFun ∧ SameSigns o.W0.toFun o.Wr.toFun := by
  obtain ⟨_, hWc, hpres, _, asgP, asgN, pc, pw, nc, nw, hW0⟩ := nullModel_unfold false W binSwaps period orc ds h
  have hd : ∀ i, o.Wc.toFun i i = 0 := by intro i; rw [hWc, clearDiag_toFun]; simp
  have := nullSpec_dir o.Wc o.Wr asgP asgN hpres hd pc pw nc nw
  rw [hW0, ← hWc]
  simpa [finalW0] using this

/-- `null_model_und_sign`: as above, and the output is symmetric.  (The model, like the code,
rejects asymmetric input, so a completed run implies symmetric input.) -/
theorem null_model_und_spec (W : AMat Int n) (binSwaps period : Nat) (orc : List (List Nat)) (ds : List Nat)
    {o : NullOut n} (h : nullModel true W binSwaps period orc ds = .ok o) :
    NullSpec (clearDiag W).toFun o.W0.toFun ∧ SameSigns o.W0.toFun o.Wr.toFun ∧ IsSymm o.W0.toFun ∧
    IsSymm W.toFun := by
  obtain ⟨hsW, hWc, hpres, hsr, asgP, asgN, pc, pw, nc, nw, hW0⟩ := nullModel_unfold true W binSwaps period orc ds h
  have hd : ∀ i, o.Wc.toFun i i = 0 := by intro i; rw [hWc, clearDiag_toFun]; simp
  have hsc : IsSymm o.Wc.toFun := by rw [hWc]; exact clearDiag_symm (hsW rfl)
  obtain ⟨h1, h2, h3⟩ := nullSpec_und o.Wc o.Wr asgP asgN hpres hd hsc (hsr rfl) pc pw nc nw
  rw [hW0, ← hWc]
  exact ⟨h1, h2, h3, hsW rfl⟩

/-- every n ≥ 1, in particular n < 4: `null_model_dir_spec` / `null_model_und_spec` above hold for all n (they are not restricted to
n ≥ 4); for n < 4 the binary stage is the identity, so the output has exactly the sign pattern of the diagonal-cleared input -/
theorem null_model_small_n (und : Bool) (W : AMat Int n) (binSwaps period : Nat) (orc : List (List Nat)) (ds : List Nat)
    (hn : n < 4) {o : NullOut n} (h : nullModel und W binSwaps period orc ds = .ok o) :
    o.Wr = clearDiag W ∧ (und = false → SameSigns o.W0.toFun (clearDiag W).toFun) := by
  have hr := nullModel_small und W binSwaps period orc ds hn h
  refine ⟨hr, fun hu => ?_⟩
  subst hu
  have := (null_model_dir_spec W binSwaps period orc ds h).2
  rwa [hr] at this

/-- asymmetric input to the undirected null model is rejected (`BCTParamError`) -/
theorem null_model_und_rejects (W : AMat Int n) (binSwaps period : Nat) (orc : List (List Nat)) (ds : List Nat)
    (h : isSymm W = false) : nullModel true W binSwaps period orc ds = .error .param := by
  simp [nullModel, h]

/-- The rewiring routines and the null models never index out of range (the model's `Err.index`
covers every NumPy index / length check of the dealing loop): the rewired support always has exactly
as many cells as there are weights of that sign.  The only possible failures are the documented
rejection (`.param`) and malformed inputs of the *model* (too few draws, a draw / oracle entry that
is not what NumPy can return). -/
theorem null_model_no_index_error (und : Bool) (W : AMat Int n) (binSwaps period : Nat) (orc : List (List Nat))
    (ds : List Nat) : nullModel und W binSwaps period orc ds ≠ .error .index :=
  nullModel_no_index und W binSwaps period orc ds

theorem run_signed_no_index_error (und : Bool) (R : AMat Int n) (itr : Nat) (ds : List Nat) :
    run und R itr ds ≠ .error .index :=
  run_no_index und R itr ds

/-- The four triples the model prints for the null models are the covariance / variance ingredients of
the positive and negative in-strength (column sums) and out-strength (row sums) sequences of the
diagonal-cleared input `W` and of the output `W0`. -/
theorem corr_ingredients (W W0 : AMat Int n) :
    (corrTriples W W0).rpi = covTriple ((List.finRange n).map fun j => ∑ i, Signed.posPart (W.toFun i j))
                                       ((List.finRange n).map fun j => ∑ i, Signed.posPart (W0.toFun i j)) ∧
    (corrTriples W W0).rpo = covTriple ((List.finRange n).map fun i => ∑ j, Signed.posPart (W.toFun i j))
                                       ((List.finRange n).map fun i => ∑ j, Signed.posPart (W0.toFun i j)) ∧
    (corrTriples W W0).rni = covTriple ((List.finRange n).map fun j => ∑ i, Signed.negPart (W.toFun i j))
                                       ((List.finRange n).map fun j => ∑ i, Signed.negPart (W0.toFun i j)) ∧
    (corrTriples W W0).rno = covTriple ((List.finRange n).map fun i => ∑ j, Signed.negPart (W.toFun i j))
                                       ((List.finRange n).map fun i => ∑ j, Signed.negPart (W0.toFun i j)) := by
  simp only [corrTriples, inStrength, outStrength]
  refine ⟨?_, ?_, ?_, ?_⟩ <;> congr 1 <;> apply List.map_congr_left <;> intro v _ <;>
    first | exact colSum_eq _ _ _ | exact rowSum_eq _ _ _

/-- `covTriple xs ys = (N·Σxy − Σx·Σy, N·Σx² − (Σx)², N·Σy² − (Σy)²)`: N² times the covariance of the two
sequences and N² times their variances -/
theorem cov_triple_formula (xs ys : List Int) :
    covTriple xs ys =
      ((xs.length : Int) * ((xs.zip ys).map fun p => p.1 * p.2).sum - xs.sum * ys.sum,
       (xs.length : Int) * (xs.map fun x => x * x).sum - xs.sum * xs.sum,
       (xs.length : Int) * (ys.map fun y => y * y).sum - ys.sum * ys.sum) :=
  covTriple_eq xs ys

/-- each correlation triple `(c, vx, vy)` the model prints obeys Cauchy–Schwarz: the two variance ingredients are
non-negative and `c² ≤ vx·vy` (exact, in ℤ) -/
theorem corr_cauchy_schwarz (W W0 : AMat Int n) :
    ∀ t ∈ [(corrTriples W W0).rpi, (corrTriples W W0).rpo, (corrTriples W W0).rni, (corrTriples W W0).rno],
      0 ≤ t.2.1 ∧ 0 ≤ t.2.2 ∧ t.1 ^ 2 ≤ t.2.1 * t.2.2 := by
  intro t ht
  simp only [corrTriples, inStrength, outStrength, List.mem_cons, List.mem_nil_iff, or_false] at ht
  rcases ht with rfl | rfl | rfl | rfl <;>
    (rw [covTriple_fin]; exact ⟨var_nonneg _, var_nonneg _, cov_sq_le _ _⟩)

/-- Pearson's correlation of the input's and the output's ± strength sequences, `r = c / √(vx·vy)` over ℝ for the
model's exact integers, lies in [−1, 1] (with the convention r = 0 where NumPy returns nan: a constant sequence) -/
theorem corr_in_unit_interval (W W0 : AMat Int n) :
    ∀ t ∈ [(corrTriples W W0).rpi, (corrTriples W W0).rpo, (corrTriples W W0).rni, (corrTriples W W0).rno],
      -1 ≤ pearsonR t ∧ pearsonR t ≤ 1 := by
  intro t ht
  obtain ⟨h1, h2, h3⟩ := corr_cauchy_schwarz W W0 t ht
  exact pearsonR_bounds t.1 t.2.1 t.2.2 h1 h2 h3

/-- the real number compared with bct's output: `pearsonR (c, vx, vy) = c / √(vx·vy)` -/
theorem pearsonR_def (c vx vy : Int) : pearsonR (c, vx, vy) = (c : ℝ) / Real.sqrt ((vx : ℝ) * (vy : ℝ)) := rfl

/-- identical input and output strength sequences with non-zero variance give r = 1 -/
theorem pearsonR_self (v : Int) (hv : 0 < v) : pearsonR (v, v, v) = 1 := by
  unfold pearsonR
  simp only
  have h : (0 : ℝ) < (v : ℝ) := by exact_mod_cast hv
  rw [Real.sqrt_mul_self h.le, div_self h.ne']

/-- `Signed.posPart` / `Signed.negPart` are `W * (W > 0)` and `-W * (W < 0)` -/
theorem pos_neg_part (x : Int) : Signed.posPart x = (if 0 < x then x else 0) ∧ Signed.negPart x = (if x < 0 then -x else 0) := ⟨rfl, rfl⟩

/-- the sort used for `Wv` is an ascending sort of the same weights (as `np.sort`) -/
theorem sortedWeights_sorted (W : AMat Int n) (s : Int) (p : Int → Bool) (triu : Bool) :
    (sortedWeights W s p triu).Pairwise (· ≤ ·) ∧
    (sortedWeights W s p triu).Perm ((cellsWhere W p triu).map fun c => s * cellVal W c) :=
  ⟨sortInts_sorted _, sortedWeights_perm W s p triu⟩

/-! ## non-vacuity: concrete inputs on which the hypotheses hold and something moves -/

def R0 : AMat Int 4 := #v[#v[0, 2, 0, -1], #v[0, 0, 0, 0], #v[0, -4, 0, 3], #v[0, 0, 0, 0]]
def R1 : AMat Int 4 := #v[#v[0, -1, 0, 2], #v[0, 0, 0, 0], #v[0, 3, 0, -4], #v[0, 0, 0, 0]]
def S0 : AMat Int 4 := #v[#v[0, 2, 0, -1], #v[2, 0, -4, 0], #v[0, -4, 0, 3], #v[-1, 0, 3, 0]]
def S1 : AMat Int 4 := #v[#v[0, -1, 0, 2], #v[-1, 0, 3, 0], #v[0, 3, 0, -4], #v[2, 0, -4, 0]]

-- 228 = 0 + 1·4 + 2·16 + 3·64 decodes to (0,1,2,3); 0 decodes to (0,0,0,0) and is retried
example : (pickFour 4 [0, 228]).toOption = some ((0, 1, 2, 3), []) := by decide
example : signedStep false R0 0 1 2 3 = some R1 := by decide
example : signedStep true S0 0 1 2 3 = some S1 := by decide
example : isSymm S0 = true ∧ isSymm S1 = true := by decide
-- a full run with itr = 1 (12 iterations): three accepted exchanges
example : (run false R0 1 (228 :: 228 :: 228 :: List.replicate 45 27)).toOption = some (R1, 3, []) := by decide +kernel
example : (run true S0 1 [228, 228, 228, 228, 228, 228, 7]).toOption = some (S0, 6, [7]) := by decide +kernel
-- dealing: wei_freq = 0 (one argsort per sign) and wei_freq = 1 (period 1)
example : (dealSign [((0 : Fin 4), (1 : Fin 4)), (2, 3)] [2, 3] 0 [[1, 0]] []).toOption
    = some ([((2, 3), 2), ((0, 1), 3)], [], []) := by decide +kernel
example : (dealSign [((0 : Fin 4), (1 : Fin 4)), (2, 3)] [2, 3] 1 [[1, 0], [0]] [1, 0, 0]).toOption
    = some ([((0, 1), 3), ((2, 3), 2)], [], []) := by decide +kernel
-- the null models on R0 / S0: the weights of each sign are exchanged between the cells of that sign
example : (nullModel false R0 0 0 [[0, 1], [1, 0]] []).toOption.map (·.W0)
    = some #v[#v[0, 2, 0, -4], #v[0, 0, 0, 0], #v[0, -1, 0, 3], #v[0, 0, 0, 0]] := by decide +kernel
example : (nullModel true S0 0 1 [[1, 0], [0], [0, 1], [0]] [1, 0, 0, 0, 1, 0]).toOption.map (·.W0)
    = some #v[#v[0, 3, 0, -1], #v[3, 0, -4, 0], #v[0, -4, 0, 2], #v[-1, 0, 2, 0]] := by decide +kernel
-- correlation ingredients on S0 and its null model output: r = cov / sqrt(var·var)
example : (corrTriples S0 S0).rpi = (4, 4, 4) ∧ (corrTriples S0 S0).rni = (36, 36, 36) := by decide +kernel
-- three nodes: nothing to rewire, the dealing stage still runs (weights 2 and 5 of the positive cells are exchanged)
example : (nullModel false (#v[#v[0, 2, -1], #v[5, 0, 0], #v[0, -3, 0]] : AMat Int 3) 5 1 [[1, 0], [0], [0, 1], [0]] [0, 1, 0, 0, 1, 0]).toOption.map (·.W0)
    = some #v[#v[0, 5, -1], #v[2, 0, 0], #v[0, -3, 0]] := by decide +kernel
-- recorded real run: bct.null_model_dir_sign(W, bin_swaps=1, wei_freq=.5, seed=RandomState(12345)) on the 5-node network below
example : (nullModel false (#v[#v[0, 3, -2, 0, 5], #v[1, 0, 0, -4, 0], #v[0, -6, 0, 2, 0], #v[7, 0, 0, 0, -1], #v[0, 2, -3, 0, 0]] : AMat Int 5) 1 2
    [[2, 3, 1, 5, 4, 0], [2, 1, 0, 3], [0, 1], [1, 3, 0, 4, 2], [2, 0, 1], [0]]
    [482, 485, 285, 129, 420, 425, 382, 357, 546, 541, 118, 369, 315, 105, 91, 374, 208, 267, 77, 81, 166, 263, 43, 231, 23, 29, 439, 287, 353, 36, 576, 387, 124, 143, 371, 337, 107, 389, 34, 309, 371, 72, 5, 226, 108, 261, 59, 83, 524, 398, 592, 155, 294, 344, 5, 586, 76, 524, 574, 297, 146, 594, 185, 58, 279, 405, 63, 512, 441, 398, 410, 227, 288, 259, 448, 518, 251, 236, 293, 456, 555, 318, 214, 577, 224, 121, 212, 121, 301, 116, 459, 402, 389, 393, 108, 125, 614, 321, 302, 409, 333, 264, 392, 146, 623, 32, 492, 608, 86, 69, 591, 610, 167, 242, 86, 245, 269, 340, 172, 261, 497, 126, 514, 472, 176, 419, 5, 307, 536, 621, 78, 83, 573, 94, 121, 228, 232, 537, 96, 225, 92, 574, 571, 242, 480, 37, 151, 360, 210, 605, 1, 537, 26, 312, 122, 396, 218, 444, 607, 505, 325, 586, 415, 170, 574, 383, 561, 249, 378, 316, 15, 610, 273, 140, 142, 256, 155, 39, 131, 510, 145, 492, 345, 174, 556, 418, 616, 336, 78, 406, 265, 412, 96, 464, 125, 444, 248, 243, 519, 77, 165, 482, 360, 261, 107, 225, 573, 433, 397, 433, 42, 176, 209, 533, 141, 354, 594, 525, 79, 228, 142, 44, 565, 407, 573, 556, 98, 345, 451, 520, 301, 45, 14, 392, 80, 189, 313, 290, 535, 475, 559, 620, 71, 362, 614, 500, 131, 307, 450, 218, 237, 542, 113, 211, 142, 592, 592, 480, 16, 230, 401, 132, 398, 417, 182, 368, 235, 161, 619, 389, 573, 88, 495, 595, 494, 51, 293, 42, 259, 313, 108, 1, 3, 4, 2, 5, 0, 2, 1, 0, 3, 0, 1, 0, 3, 4, 1, 2, 2, 0, 1, 0]).toOption.map (fun o => (o.W0, o.dsLeft, o.orcLeft))
    = some (#v[#v[0, 5, -3, 2, 0], #v[1, 0, 0, 0, -1], #v[0, -6, 0, 0, 2], #v[0, 7, -2, 0, 0], #v[3, 0, 0, -4, 0]], 0, 0) := by decide +kernel
example : nullModel true R0 0 0 [] [] = .error .param := null_model_und_rejects R0 0 0 [] [] (by decide)

end Bct.C06
