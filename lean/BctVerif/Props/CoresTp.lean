import BctVerif.Model.CoreIRTp
import BctVerif.Props.CoresUtil
import BctVerif.Lemmas.ThreshProp

/-!
# C17 (second tie) — link theorem for the source-extracted `threshold_proportional`
-/

namespace Bct.Cores.Util
open Bct Bct.CoreIR.Util

variable {n : ℕ}

theorem refTp_coherent : refTp.coherent "W" "p" "copy" = true := by decide

theorem cells_eq : Thresh.cells n = cellsOf n := rfl

theorem enArg_eval (o : Oracles) (E : Env n) (p : ℚ) (sym : Bool)
    (hud : E "ud" = some (.sc (.nat (if sym then 2 else 1)))) (hn : E "n" = some (.sc (.nat n))) (hp : E "p" = some (.sc (.rat p))) :
    eval o E none none refTp.enArg = SV.rat ((((n * n - n : ℕ) : ℚ) * p) / (if sym then 2 else 1)) := by
  have hle : n ≤ n * n := by cases n with | zero => simp | succ k => exact Nat.le_mul_of_pos_left _ (Nat.succ_pos k)
  cases sym <;>
    simp [refTp, eval, hud, hn, hp, SV.mul, SV.sub, SV.div, SV.arith, SV.isNan, SV.toInt?, SV.toRat?] <;>
    (left; rw [Nat.cast_sub hle]; push_cast; ring)

/-- **Link, `threshold_proportional`.**  If the generated obligations hold (`tpOk` for the routine, `utilOk` for the function the
local name `round` is imported as, found in the table under the resolved origin of that import), the extracted routine returns, for
every matrix, proportion, `copy` flag and recorded `argsort` order, what `Thresh.thresholdProportional W p order` returns:
`BCTParamError` outside `[0, 1]`, `bad-draw` for an order that is not an admissible `argsort` result, otherwise the thresholded
matrix (diagonal cleared, exact-symmetry branch, `en` strongest entries kept, re-symmetrised). -/
theorem link_threshold_proportional (o : Oracles) (ir : TpIR) (hok : tpOk ir = true) (tbl : List FnIR) (ft : FnIR)
    (hft : utilOk ft = true) (hname : ft.name = "teachers_round")
    (htbl : tbl.find? (fun f => "def bct/utils/miscellaneous_utilities.py:teachers_round" == "def bct/utils/miscellaneous_utilities.py:" ++ f.name) = some ft)
    (W : AMat ℚ n) (p : ℚ) (c : Bool) (order : List ℕ) :
    runTp o tbl ir W p c order =
      match Thresh.thresholdProportional W p order with
      | .ok R => .ok R
      | .error e => .error e.str := by
  have hir : ir = refTp := by simpa [tpOk] using hok
  subst hir
  have hguard : eval (n := n) o (fun y => if y = "p" then some (.sc (.rat p)) else if y = "copy" then some (.sc (.bool c)) else none)
      none none refTp.guard = SV.bool (decide (1 < p) || decide (p < 0)) := by
    simp [refTp, eval, SV.lt, SV.cmp, SV.isNan, SV.toRat?, SV.or]
  have hW0 : (AMat.ofFn fun i j => if i = j then ((0 : ℤ) : ℚ) else W.get i j) = Thresh.zeroDiag W := by
    simp [Thresh.zeroDiag]
  simp only [runTp, show refTp.params = ["W", "p", "copy"] from rfl, refTp_coherent, if_true, hguard]
  by_cases hg : p > 1 ∨ p < 0
  · have : (decide (1 < p) || decide (p < 0)) = true := by simpa using hg
    simp [this, Thresh.thresholdProportional, hg, refTp, Err.str]
  · have hgb : (decide (1 < p) || decide (p < 0)) = false := by simpa using hg
    have hp0 : 0 ≤ p := by push Not at hg; exact hg.2
    simp only [hgb, Thresh.thresholdProportional, hg, if_false]
    simp only [show refTp.diagVal = 0 from rfl, hW0, show refTp.trilVal = 0 from rfl, show refTp.udThen = 2 from rfl,
      show refTp.udElse = 1 from rfl, show refTp.udVar = "ud" from rfl, show refTp.dim = "n" from rfl,
      show refTp.impOrigin = "def bct/utils/miscellaneous_utilities.py:teachers_round" from rfl, htbl,
      show refTp.cutVal = 0 from rfl, show refTp.symLit = 2 from rfl]
    -- the preprocessing
    have hsymI : ((List.finRange n).all fun i => (List.finRange n).all fun j =>
        (Thresh.zeroDiag W).get i j == (Thresh.zeroDiag W).get j i) = Thresh.arrayEqualT (Thresh.zeroDiag W) := rfl
    have hdl : (AMat.ofFn fun i j => if j.val ≤ i.val then ((0 : ℤ) : ℚ) else (Thresh.zeroDiag W).get i j)
        = Thresh.dropLower (Thresh.zeroDiag W) := by simp [Thresh.dropLower]
    have hpre : Thresh.pre W = ⟨if Thresh.arrayEqualT (Thresh.zeroDiag W) then Thresh.dropLower (Thresh.zeroDiag W) else Thresh.zeroDiag W,
        Thresh.arrayEqualT (Thresh.zeroDiag W)⟩ := by
      by_cases h : Thresh.arrayEqualT (Thresh.zeroDiag W) = true <;> simp [Thresh.pre, h]
    simp only [hsymI, hdl, hpre, Thresh.support, cells_eq]
    generalize Thresh.arrayEqualT (Thresh.zeroDiag W) = sym
    generalize hW1 : (if sym = true then Thresh.dropLower (Thresh.zeroDiag W) else Thresh.zeroDiag W) = W1
    generalize hind : ((cellsOf n).filter fun c => decide (W1.get c.1 c.2 ≠ 0)) = ind
    simp only [Thresh.selection]
    by_cases hperm : order.Perm (List.range ind.length)
    · simp only [hperm, if_true]
      generalize hsel : (order.filterMap fun k => ind[k]?) = sel
      by_cases hpw : (sel.map fun c => W1.get c.1 c.2).Pairwise (· ≥ ·)
      · simp only [hpw, if_true]
        have hen := enArg_eval (n := n) o
          (fun y => if y = "ud" then some (.sc (.nat (if sym then 2 else 1))) else if y = "n" then some (.sc (.nat n)) else
            if y = "p" then some (.sc (.rat p)) else if y = "copy" then some (.sc (.bool c)) else none) p sym
          (by simp) (by simp) (by simp)
        have hud : (if sym = true then 2 else 1 : ℕ) = if sym then 2 else 1 := rfl
        simp only [hen, link_teachers_round (n := n) o ft hft hname _ []]
        have hz := Bct.ThreshLemmas.enOf_nonneg n hp0 sym
        have hdrop : dropFrom sel (Thresh.enOf n p sym) = sel.drop (Thresh.enOf n p sym).toNat := by
          simp [dropFrom, hz]
        have hdrop' : dropFrom sel (Thresh.teachersRound ((((n * n - n : ℕ) : ℚ) * p) / (if sym then 2 else 1)))
            = sel.drop (Thresh.enOf n p sym).toNat := hdrop
        simp only [hdrop']
        cases sym <;> simp [Thresh.keepMask, Thresh.symmetrize]
      · simp [hpw, Err.str]
    · simp [hperm, Err.str]

example : tpOk refTp = true := by decide
/-- the pre-repair tolerance test is not representable, and `ud = 1` in the symmetric branch is rejected -/
example : tpOk { refTp with udThen := 1 } = false := by decide
/-- a local import of another function under the name `round` is rejected -/
example : tpOk { refTp with impOrigin := "def bct/utils/miscellaneous_utilities.py:cuberoot" } = false := by decide

end Bct.Cores.Util
